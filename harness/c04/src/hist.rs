//! Histories of publisher-side operations on an in-memory log handed over by a (simulated) driver.
//! Shared by the C04 and C18 harnesses (and meant for C01).
//!
//! history line:  <kind> <tlen> <mtu> <init> <n0> <off0> | op ; op ; ...
//!   kind: s = shared Publication, x = ExclusivePublication
//!   ops:  o <k> <len>           offer message k (payload pattern) of len bytes through offer_opt with the harness reserved-value supplier
//!         c <len>               try_claim(len) on the one BufferClaim of the history
//!         m <k> <len>           write payload k (len bytes) into the claimed range, then commit()
//!         a                     abort()
//!         b <k> <l1> <l2> ...   offer_bulk of message k split into buffers of l1, l2, ... bytes (shared only)
//!         l <v>                 publication limit counter := v
//!         n <0|1>               is-connected flag
//!         x                     close()
//!         z                     zero the partition the log rotates into next (the driver's cleaning)
//! observation per op: (result, (count, [t0; t1; t2], [changed words p0; changed words p1; changed words p2]), position())
//! where "changed words" lists (offset, value now) of every 32-bit word of the partition that differs from the previous observation
use aeron_rs::concurrent::atomic_buffer::AtomicBuffer;
use aeron_rs::concurrent::logbuffer::buffer_claim::BufferClaim;
use aeron_rs::concurrent::logbuffer::log_buffer_descriptor as lbd;
use aeron_rs::concurrent::position::{ReadablePosition, UnsafeBufferPosition};
use aeron_rs::exclusive_publication::ExclusivePublication;
use aeron_rs::publication::Publication;
use aeron_rs::utils::types::Index;
use std::ffi::CString;
use vcommon::client::{TestClient, TestLog};
use vcommon::{catch, fmt_result, payload, sparse_words};

pub const SESSION: i32 = 11;
pub const STREAM: i32 = 22;

/// Reserved-value supplier of the harness (same function as Model/Publication.v `harness_rv`): it reads the frame it is
/// handed - a position-weighted checksum over the payload bytes [off + 32, off + frame_length) of the term buffer - so a
/// supplier that is called before the payload is in place, or on the wrong range, shows up in the frame's reserved value.
pub fn harness_rv(b: AtomicBuffer, off: Index, flen: Index) -> i64 {
    let mut sum: i64 = 0;
    let mut i: i64 = 1;
    let mut at = off + 32;
    while at < off + flen {
        sum = sum.wrapping_add(i.wrapping_mul(b.get::<u8>(at) as i64));
        i += 1;
        at += 1;
    }
    (off as i64 * 1000003 + flen as i64 * 7 + 1).wrapping_add(sum)
}

pub enum Pubn {
    S(Publication),
    X(ExclusivePublication),
}

pub struct Hist {
    pub client: TestClient,
    pub log: TestLog,
    pub limit: UnsafeBufferPosition,
    pub claim: BufferClaim,
    pub p: Pubn,
    pub prev: [Vec<u8>; 3],
}

/// words of `buf` that differ from `prev` as `[(offset, value now); ...]`; `prev` is updated
pub fn changed_words(buf: &AtomicBuffer, prev: &mut Vec<u8>) -> String {
    let cap = buf.capacity() as usize;
    let cur = buf.as_slice();
    let mut items: Vec<String> = Vec::new();
    let mut off = 0usize;
    while off + 4 <= cap {
        if cur[off..off + 4] != prev[off..off + 4] {
            let v = i32::from_le_bytes([cur[off], cur[off + 1], cur[off + 2], cur[off + 3]]);
            items.push(format!("({}, {})", off, v));
        }
        off += 4;
    }
    prev.copy_from_slice(cur);
    format!("[{}]", items.join("; "))
}

pub fn log_dump(log: &TestLog) -> String {
    format!(
        "({}, [{}; {}; {}], [{}; {}; {}])",
        log.active_term_count(),
        log.raw_tail(0),
        log.raw_tail(1),
        log.raw_tail(2),
        sparse_words(&log.term(0)),
        sparse_words(&log.term(1)),
        sparse_words(&log.term(2))
    )
}

impl Hist {
    pub fn new(kind: &str, tlen: i32, mtu: i32, init: i32, n0: i32, off0: i32) -> Self {
        let client = TestClient::new();
        let log = TestLog::new(tlen, mtu, init, n0, off0, SESSION, STREAM);
        let limit = UnsafeBufferPosition::new(client.counter_values_buffer(), 1);
        // The position object handed to the publication: in every other geometry it is one that was first bound to another
        // counter (id 5, holding a decoy limit that would admit everything) and then re-bound with `wrap` to the limit counter -
        // after a re-bind the publication must read the limit counter's slot and nothing else.
        let plimit = if (init as i64 + n0 as i64 + (off0 / 32) as i64) % 2 == 0 {
            let decoy = UnsafeBufferPosition::new(client.counter_values_buffer(), 5);
            decoy.set(i64::MAX);
            let mut p = decoy.clone();
            p.wrap(&limit);
            assert_eq!(p.id(), 1, "wrap must take over the id of the position it is bound to");
            p
        } else {
            limit.clone()
        };
        let chan = CString::new("aeron:ipc").unwrap();
        let p = match kind {
            "s" => Pubn::S(Publication::new(client.conductor.clone(), chan, 7, 7, STREAM, SESSION, plimit, -1, log.log_buffers.clone())),
            "x" => Pubn::X(ExclusivePublication::new(client.conductor.clone(), chan, 7, STREAM, SESSION, plimit, -1, log.log_buffers.clone())),
            other => panic!("unknown case kind {}", other),
        };
        let prev = [vec![0u8; tlen as usize], vec![0u8; tlen as usize], vec![0u8; tlen as usize]];
        Self { client, log, limit, claim: BufferClaim::default(), p, prev }
    }

    pub fn position(&self) -> String {
        match &self.p {
            Pubn::S(p) => fmt_result(catch(|| p.position())),
            Pubn::X(p) => fmt_result(catch(|| p.position())),
        }
    }

    /// the getters that reflect the flow-control state, as
    /// (is_closed, is_connected, publication_limit(), available_window(), position(), term_id, term_offset);
    /// the last two are the exclusive publication's own cursor (0 for the shared publication)
    pub fn getters(&self) -> String {
        fn b(v: bool) -> i64 {
            if v {
                1
            } else {
                0
            }
        }
        match &self.p {
            Pubn::S(p) => format!(
                "({}, {}, {}, {}, {}, 0, 0)",
                b(p.is_closed()),
                b(p.is_connected()),
                fmt_result(catch(|| p.publication_limit())),
                fmt_result(catch(|| p.available_window())),
                fmt_result(catch(|| p.position()))
            ),
            Pubn::X(p) => format!(
                "({}, {}, {}, {}, {}, {}, {})",
                b(p.is_closed()),
                b(p.is_connected()),
                fmt_result(catch(|| p.publication_limit())),
                fmt_result(catch(|| p.available_window())),
                fmt_result(catch(|| p.position())),
                p.term_id(),
                p.term_offset()
            ),
        }
    }

    /// the getters fixed at construction:
    /// [max_message_length; max_payload_length; term_buffer_length; position_bits_to_shift; initial_term_id; session_id; stream_id]
    pub fn statics(&self) -> String {
        match &self.p {
            Pubn::S(p) => format!(
                "[{}; {}; {}; {}; {}; {}; {}]",
                p.max_message_length(),
                p.max_payload_length(),
                p.term_buffer_length(),
                p.position_bits_to_shift(),
                p.initial_term_id(),
                p.session_id(),
                p.stream_id()
            ),
            Pubn::X(p) => format!(
                "[{}; {}; {}; {}; {}; {}; {}]",
                p.max_message_length(),
                p.max_payload_length(),
                p.term_buffer_length(),
                p.position_bits_to_shift(),
                p.initial_term_id(),
                p.session_id(),
                p.stream_id()
            ),
        }
    }

    pub fn log_delta(&mut self) -> String {
        let d0 = changed_words(&self.log.term(0), &mut self.prev[0]);
        let d1 = changed_words(&self.log.term(1), &mut self.prev[1]);
        let d2 = changed_words(&self.log.term(2), &mut self.prev[2]);
        format!(
            "({}, [{}; {}; {}], [{}; {}; {}])",
            self.log.active_term_count(),
            self.log.raw_tail(0),
            self.log.raw_tail(1),
            self.log.raw_tail(2),
            d0,
            d1,
            d2
        )
    }

    pub fn observe(&mut self, result: String) -> String {
        let d = self.log_delta();
        format!("({}, {}, {})", result, d, self.position())
    }

    /// one operation; returns the result column of the observation
    pub fn step(&mut self, op: &str) -> String {
        let w: Vec<&str> = op.split_whitespace().collect();
        let a: Vec<i64> = w[1..].iter().map(|x| x.parse::<i64>().unwrap_or_else(|_| panic!("bad int {}", x))).collect();
        match w[0] {
            "o" => {
                let mut bytes = payload(a[0], a[1] as usize);
                let buf = AtomicBuffer::wrap_slice(&mut bytes);
                let len = a[1] as Index;
                match &mut self.p {
                    Pubn::S(p) => fmt_result(catch(|| p.offer_opt(buf, 0, len, harness_rv))),
                    Pubn::X(p) => fmt_result(catch(|| p.offer_opt(buf, 0, len, harness_rv))),
                }
            }
            "c" => {
                let len = a[0] as Index;
                let claim = &mut self.claim;
                match &mut self.p {
                    Pubn::S(p) => fmt_result(catch(|| p.try_claim(len, claim))),
                    Pubn::X(p) => fmt_result(catch(|| p.try_claim(len, claim))),
                }
            }
            "m" => {
                let bytes = payload(a[0], a[1] as usize);
                let claim = &mut self.claim;
                let r = catch(|| {
                    let b = claim.buffer();
                    b.put_bytes(claim.offset(), &bytes);
                    claim.commit();
                    0
                });
                vcommon::fmt_outcome(r)
            }
            "a" => {
                let claim = &mut self.claim;
                vcommon::fmt_outcome(catch(|| {
                    claim.abort();
                    0
                }))
            }
            "b" => {
                let k = a[0];
                let total: i64 = a[1..].iter().sum();
                let whole = payload(k, total as usize);
                let mut parts: Vec<Vec<u8>> = Vec::new();
                let mut at = 0usize;
                for l in &a[1..] {
                    parts.push(whole[at..at + *l as usize].to_vec());
                    at += *l as usize;
                }
                let bufs: Vec<AtomicBuffer> = parts.iter_mut().map(|v| AtomicBuffer::wrap_slice(v)).collect();
                match &mut self.p {
                    Pubn::S(p) => fmt_result(catch(|| p.offer_bulk(bufs, harness_rv))),
                    Pubn::X(_) => "Ok (0)".to_string(),
                }
            }
            "l" => {
                self.limit.set(a[0]);
                "Ok (0)".to_string()
            }
            "n" => {
                lbd::set_is_connected(&self.log.meta(), a[0] != 0);
                "Ok (0)".to_string()
            }
            "x" => {
                match &self.p {
                    Pubn::S(p) => p.close(),
                    Pubn::X(p) => p.close(),
                }
                "Ok (0)".to_string()
            }
            "z" => {
                let next = (lbd::index_by_term_count(self.log.active_term_count() as i64) + 1) % 3;
                let t = self.log.term(next);
                t.set_memory(0, t.capacity(), 0);
                "Ok (0)".to_string()
            }
            other => panic!("unknown case kind op {}", other),
        }
    }
}

/// runs a whole history line (without the leading case-kind word); returns the list of observations
pub fn run_history(spec: &str) -> String {
    let (head, ops) = spec.split_once('|').unwrap_or((spec, ""));
    let h: Vec<&str> = head.split_whitespace().collect();
    let g: Vec<i64> = h[1..].iter().map(|x| x.parse::<i64>().unwrap_or_else(|_| panic!("bad int {}", x))).collect();
    let mut hist = Hist::new(h[0], g[0] as i32, g[1] as i32, g[2] as i32, g[3] as i32, g[4] as i32);
    let mut out: Vec<String> = Vec::new();
    for op in ops.split(';') {
        let op = op.trim();
        if op.is_empty() {
            continue;
        }
        let r = hist.step(op);
        out.push(hist.observe(r));
    }
    format!("[{}]", out.join("; "))
}

/// runs a history and reports the getters instead of the log: (statics, [getters at hand-over; getters after op 1; ...])
pub fn run_getters(spec: &str) -> String {
    let (head, ops) = spec.split_once('|').unwrap_or((spec, ""));
    let h: Vec<&str> = head.split_whitespace().collect();
    let g: Vec<i64> = h[1..].iter().map(|x| x.parse::<i64>().unwrap_or_else(|_| panic!("bad int {}", x))).collect();
    let mut hist = Hist::new(h[0], g[0] as i32, g[1] as i32, g[2] as i32, g[3] as i32, g[4] as i32);
    let mut out: Vec<String> = vec![hist.getters()];
    for op in ops.split(';') {
        let op = op.trim();
        if op.is_empty() {
            continue;
        }
        let _ = hist.step(op);
        out.push(hist.getters());
    }
    format!("({}, [{}])", hist.statics(), out.join("; "))
}
