//! C04 harness: histories of offers / claims / bulk offers / limit, connection and close operations on shared and
//! exclusive publications over an in-memory log; see hist.rs for the line format.
//!   hist <kind> <tlen> <mtu> <init> <n0> <off0> | op ; op ; ...
mod hist;

fn main() {
    vcommon::run_lines(|line| {
        let (kind, rest) = line.split_once(' ').unwrap_or((line, ""));
        match kind {
            "hist" => hist::run_history(rest),
            other => panic!("unknown case kind {}", other),
        }
    });
}
