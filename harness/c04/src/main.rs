//! C04 harness: histories of offers / claims / bulk offers / limit, connection and close operations on shared and
//! exclusive publications over an in-memory log; see hist.rs for the line format.
//!   hist <kind> <tlen> <mtu> <init> <n0> <off0> | op ; op ; ...      observations of the log after every operation
//!   gets <kind> <tlen> <mtu> <init> <n0> <off0> | op ; op ; ...      the publication's getters at hand-over and after every operation
mod hist;

fn main() {
    vcommon::run_lines(|line| {
        let (kind, rest) = line.split_once(' ').unwrap_or((line, ""));
        match kind {
            "hist" => hist::run_history(rest),
            "gets" => hist::run_getters(rest),
            other => panic!("unknown case kind {}", other),
        }
    });
}
