//! C15 harness: CountersManager / CountersReader histories.
//!
//! case (one per line):
//!   seq <nm> <nv> <timeout> <op> <op> ...
//! ops:
//!   A,<type>,<kind>,<klen>,<kseed>,<klen2>,<kseed2>,<llen>,<lseed>,<nul>[,<w>]
//!        allocate_opt; kind n = no key, o = key_opt(klen,kseed), f = key_func(klen,kseed),
//!        s = key_func(klen,kseed) that also takes a reader snapshot (for_each ids, counter_state of every slot)
//!            while it runs -> observation `OSnap res val_after ids [(snapshot ids, state of the id being allocated)]`,
//!        b = both (key_opt(klen,kseed), key_func(klen2,kseed2)); label of llen bytes, byte <nul> is 0 (-1: none);
//!        w = 2, 3, 4: the label is llen BYTES of UTF-8 made of w-byte characters (mk_label_u)
//!   F,<id>          free
//!   S,<id>,<v>[,p]  set_counter_value (v: u64); with p the value is written through an UnsafeBufferPosition
//!   C,<t>           the injected clock now reads t
//!   D               full dump through the reader
//!   flood <nm> <nv> <count>   fill the manager, <count> further allocations, one more (see case_flood)
//! observation: Coq list of `OStep res val_after ids` / `ODump (for_each, iter digests, probes, lookups, metadata digest, values digest)`
//! (see coq/Model/Counters.v `obs`); the history stops at the first operation that panics.
use aeron_rs::concurrent::atomic_buffer::{AlignedBuffer, AtomicBuffer};
use aeron_rs::concurrent::counters::{CountersManager, CountersReader, MAX_KEY_LENGTH};
use aeron_rs::concurrent::position::{ReadablePosition, UnsafeBufferPosition};
use aeron_rs::heartbeat_timestamp;
use aeron_rs::utils::errors::{AeronError, IllegalArgumentError};
use std::cell::RefCell;
use std::sync::atomic::{AtomicU64, Ordering};
use vcommon::catch;

static NOW: AtomicU64 = AtomicU64::new(0);
fn clock() -> u64 {
    NOW.load(Ordering::SeqCst)
}

fn err_kind(e: &AeronError) -> &'static str {
    match e {
        AeronError::IllegalArgument(i) => match i {
            IllegalArgumentError::AllocateLabelCanNotBeConverted => "LabelNotConvertible",
            IllegalArgumentError::AllocateLabelTooLong => "LabelTooLong",
            IllegalArgumentError::AllocateKeyIsAmbiguous => "KeyAmbiguous",
            IllegalArgumentError::AllocateKeyIsTooLong => "KeyTooLong",
            IllegalArgumentError::UnableAllocateCounterBecauseValueBufferFull => "ValuesFull",
            IllegalArgumentError::UnableAllocateCounterBecauseMetadataBufferFull => "MetaFull",
            IllegalArgumentError::CounterIdOutOfRange { .. } => "IdOutOfRange",
            _ => "OtherIllegalArgument",
        },
        _ => "OtherError",
    }
}

fn cres<T>(r: Result<Result<T, AeronError>, ()>, show: impl Fn(&T) -> String) -> String {
    match r {
        Ok(Ok(v)) => format!("COk ({})", show(&v)),
        Ok(Err(e)) => format!("CErr {}", err_kind(&e)),
        Err(()) => "CPanic".to_string(),
    }
}

fn bytes_list(b: &[u8]) -> String {
    let v: Vec<String> = b.iter().map(|x| x.to_string()).collect();
    format!("[{}]", v.join("; "))
}

const HP: u128 = 2305843009213693951;
fn hash(b: &[u8]) -> u64 {
    let mut acc: u128 = 0;
    for x in b.iter().rev() {
        acc = (*x as u128 + 257 * acc) % HP;
    }
    acc as u64
}
fn hashw(buf: &AtomicBuffer) -> u64 {
    let mut acc: u128 = 0;
    let words = buf.capacity() / 4;
    for i in (0..words).rev() {
        let w = buf.get::<u32>(i * 4);
        acc = (w as u128 + 1000003 * acc) % HP;
    }
    acc as u64
}
fn strip0(b: &[u8]) -> &[u8] {
    let mut n = b.len();
    while n > 0 && b[n - 1] == 0 {
        n -= 1;
    }
    &b[..n]
}

fn mk_label(len: i64, seed: i64, nul: i64) -> String {
    let b: Vec<u8> = (0..len)
        .map(|i| if i == nul { 0u8 } else { (33 + (seed * 31 + i * 7).rem_euclid(90)) as u8 })
        .collect();
    String::from_utf8(b).expect("ascii")
}

/// `len` bytes of UTF-8: len / w characters of w bytes each, then len % w ASCII characters (Model/Counters.v mk_label_u)
fn mk_label_u(len: i64, seed: i64, w: i64) -> String {
    if w <= 1 {
        return mk_label(len, seed, -1);
    }
    let mut b: Vec<u8> = Vec::new();
    for c in 0..(len / w) {
        let last = 128 + (seed + c).rem_euclid(64) as u8;
        match w {
            2 => b.extend_from_slice(&[195, last]),
            3 => b.extend_from_slice(&[226, 130, last]),
            _ => b.extend_from_slice(&[240, 159, 152, last]),
        }
    }
    for i in 0..(len % w) {
        b.push((33 + (seed * 31 + i * 7).rem_euclid(90)) as u8);
    }
    String::from_utf8(b).expect("utf8")
}

fn mk_key(len: i64, seed: i64) -> Vec<u8> {
    (0..len).map(|i| ((seed * 31 + i * 7 + 1).rem_euclid(251)) as u8).collect()
}

struct Entry {
    id: i32,
    type_id: i32,
    key: Vec<u8>,
    label: Vec<u8>,
}

fn for_each_entries(reader: &CountersReader) -> Result<Vec<Entry>, ()> {
    catch(|| {
        let mut out = Vec::new();
        reader.for_each(|id, type_id, key, label| {
            out.push(Entry { id, type_id, key: key.as_slice().to_vec(), label: label.as_bytes().to_vec() });
        });
        out
    })
}

fn ids_obs(reader: &CountersReader) -> String {
    match for_each_entries(reader) {
        Ok(es) => format!("COk [{}]", es.iter().map(|e| e.id.to_string()).collect::<Vec<_>>().join("; ")),
        Err(()) => "CPanic".to_string(),
    }
}

fn dump(reader: &CountersReader, nm: i64, nv: i64) -> String {
    let fe = for_each_entries(reader);
    let fe_s = match &fe {
        Ok(es) => format!(
            "COk [{}]",
            es.iter()
                .map(|e| format!("({}, {}, {}, {})", e.id, e.type_id, bytes_list(strip0(&e.key)), bytes_list(&e.label)))
                .collect::<Vec<_>>()
                .join("; ")
        ),
        Err(()) => "CPanic".to_string(),
    };
    let it = catch(|| {
        let mut out: Vec<String> = Vec::new();
        for d in reader.iter() {
            let type_id = d.type_id;
            let key = d.key;
            let ll = d.label_length;
            let lab = d.label;
            if ll < 0 {
                panic!("negative label length");
            }
            out.push(format!("({}, {}, {})", type_id, hash(&key.key), hash(&lab.val[..ll as usize])));
        }
        out
    });
    let it_s = match it {
        Ok(v) => format!("COk [{}]", v.join("; ")),
        Err(()) => "CPanic".to_string(),
    };
    let mut ids: Vec<i32> = vec![i32::MIN, -1];
    for i in 0..(nm.max(nv) + 2) {
        ids.push(i as i32);
    }
    ids.push(i32::MAX);
    let probes: Vec<String> = ids
        .iter()
        .map(|&id| {
            format!(
                "({}, {}, {}, {}, {})",
                id,
                cres(catch(|| reader.counter_value(id)), |v| v.to_string()),
                cres(catch(|| reader.counter_state(id)), |v| v.to_string()),
                cres(catch(|| reader.free_to_reuse_deadline(id)), |v| v.to_string()),
                cres(catch(|| reader.counter_label(id)), |v| hash(v.as_bytes()).to_string())
            )
        })
        .collect();
    let mut lookups: Vec<String> = Vec::new();
    if let Ok(es) = &fe {
        for e in es {
            let mut k8 = [0u8; 8];
            k8.copy_from_slice(&e.key[..8]);
            let reg = i64::from_le_bytes(k8);
            let f = catch(|| heartbeat_timestamp::find_counter_id_by_registration_id(reader, e.type_id, reg));
            let a = catch(|| heartbeat_timestamp::is_active(reader, e.id, e.type_id, reg));
            lookups.push(format!(
                "({}, {})",
                match f { Ok(Some(i)) => format!("COk ({})", i), Ok(None) => "COk (-1)".to_string(), Err(()) => "CPanic".to_string() },
                match a { Ok(b) => format!("COk {}", b), Err(()) => "CPanic".to_string() }
            ));
        }
        let f = catch(|| heartbeat_timestamp::find_counter_id_by_registration_id(reader, 11, -77));
        lookups.push(format!(
            "({}, COk false)",
            match f { Ok(Some(i)) => format!("COk ({})", i), Ok(None) => "COk (-1)".to_string(), Err(()) => "CPanic".to_string() }
        ));
    }
    format!(
        "ODump ({}, {}, [{}], [{}], {}, {})",
        fe_s,
        it_s,
        probes.join("; "),
        lookups.join("; "),
        hashw(&reader.meta_data_buffer()),
        hashw(&reader.values_buffer())
    )
}

fn num(s: &str) -> i128 {
    s.parse::<i128>().unwrap_or_else(|_| panic!("bad int {}", s))
}

fn case_seq(parts: &[&str]) -> String {
    let nm = num(parts[0]) as i64;
    let nv = num(parts[1]) as i64;
    let timeout = num(parts[2]) as u64;
    let m_mem = AlignedBuffer::with_capacity((nm * 512) as i32);
    let v_mem = AlignedBuffer::with_capacity((nv * 128) as i32);
    let m_buf = AtomicBuffer::from_aligned(&m_mem);
    let v_buf = AtomicBuffer::from_aligned(&v_mem);
    NOW.store(0, Ordering::SeqCst);
    let mut mgr = CountersManager::new_opt(m_buf, v_buf, clock, timeout);
    let reader = CountersReader::new(m_buf, v_buf);
    let mut out: Vec<String> = Vec::new();
    for tok in &parts[3..] {
        let f: Vec<&str> = tok.split(',').collect();
        let (res, val_after): (String, String) = match f[0] {
            "A" => {
                let type_id = num(f[1]) as i32;
                let kind = f[2];
                let (klen, kseed, klen2, kseed2) = (num(f[3]) as i64, num(f[4]) as i64, num(f[5]) as i64, num(f[6]) as i64);
                let label = if f.len() > 10 && num(f[10]) > 1 {
                    mk_label_u(num(f[7]) as i64, num(f[8]) as i64, num(f[10]) as i64)
                } else {
                    mk_label(num(f[7]) as i64, num(f[8]) as i64, num(f[9]) as i64)
                };
                let key = mk_key(klen, kseed);
                let fkey = if kind == "b" { mk_key(klen2, kseed2) } else { key.clone() };
                let key_fn = move |b: &mut AtomicBuffer| {
                    if fkey.len() as i32 > MAX_KEY_LENGTH {
                        panic!("callback key too long");
                    }
                    b.put_bytes(0, &fkey)
                };
                // kind "s": the key callback writes its key and then does what a concurrent reader would do at that
                // instant: it enumerates the counters and reads the state word of every slot, over the same buffers
                let snap: RefCell<Option<(String, Vec<String>)>> = RefCell::new(None);
                let skey = key.clone();
                let snap_fn = |b: &mut AtomicBuffer| {
                    b.put_bytes(0, &skey);
                    let ids = ids_obs(&reader);
                    let states: Vec<String> = (0..nm.max(nv))
                        .map(|i| cres(catch(|| reader.counter_state(i as i32)), |v| v.to_string()))
                        .collect();
                    *snap.borrow_mut() = Some((ids, states));
                };
                let r = catch(|| match kind {
                    "s" => mgr.allocate_opt(type_id, None, Some(&snap_fn), &label),
                    "n" => mgr.allocate_opt(type_id, None, Option::<fn(&mut AtomicBuffer)>::None, &label),
                    "o" => mgr.allocate_opt(type_id, Some(&key[..]), Option::<fn(&mut AtomicBuffer)>::None, &label),
                    "f" => mgr.allocate_opt(type_id, None, Some(&key_fn), &label),
                    "b" => mgr.allocate_opt(type_id, Some(&key[..]), Some(&key_fn), &label),
                    other => panic!("unknown key kind {}", other),
                });
                let va = match &r {
                    Ok(Ok(id)) => {
                        let id = *id;
                        cres(catch(|| reader.counter_value(id)), |v| v.to_string())
                    }
                    _ => "COk (0)".to_string(),
                };
                if kind == "s" {
                    let snap_s = match (&r, snap.borrow().as_ref()) {
                        (Ok(Ok(id)), Some((ids, states))) => format!(
                            "[({}, {})]",
                            ids,
                            states.get(*id as usize).cloned().unwrap_or_else(|| "CErr IdOutOfRange".to_string())
                        ),
                        (_, Some((ids, _))) => format!("[({}, COk (0))]", ids),
                        _ => "[]".to_string(),
                    };
                    let res = cres(r, |v| v.to_string());
                    let panicked = res == "CPanic";
                    out.push(format!("OSnap ({}) ({}) ({}) {}", res, va, ids_obs(&reader), snap_s));
                    if panicked {
                        break;
                    }
                    continue;
                }
                (cres(r, |v| v.to_string()), va)
            }
            "F" => {
                let id = num(f[1]) as i64;
                // ids outside the metadata buffer are never handed to the implementation (contract; a negative id
                // would reach the buffer unchecked): the model says CPanic there
                let r = if id < 0 || id >= nm { Err(()) } else { catch(|| mgr.free(id as i32)) };
                (match r { Ok(()) => "COk (0)".to_string(), Err(()) => "CPanic".to_string() }, "COk (0)".to_string())
            }
            "S" => {
                let id = num(f[1]) as i64;
                let v = num(f[2]) as u64;
                // "p": the write goes through an UnsafeBufferPosition on the values buffer (how a publication limit or
                // a late writer that still holds the id reaches the slot) instead of through the manager
                let via_position = f.len() > 3 && f[3] == "p";
                let r = if id < 0 || id >= nv {
                    Err(())
                } else if via_position {
                    // the position is first bound to another slot and then re-bound (`wrap`) to the one it has to write
                    catch(|| {
                        let target = UnsafeBufferPosition::new(v_buf, id as i32);
                        let mut p = UnsafeBufferPosition::new(v_buf, ((id + 1) % nv) as i32);
                        p.wrap(&target);
                        assert_eq!(p.id(), id as i32);
                        p.set_ordered(v as i64);
                        assert_eq!(p.get_volatile(), v as i64);
                    })
                } else {
                    catch(|| mgr.set_counter_value(id as i32, v))
                };
                (match r { Ok(()) => "COk (0)".to_string(), Err(()) => "CPanic".to_string() }, "COk (0)".to_string())
            }
            "C" => {
                NOW.store(num(f[1]) as u64, Ordering::SeqCst);
                ("COk (0)".to_string(), "COk (0)".to_string())
            }
            "D" => {
                out.push(dump(&reader, nm, nv));
                continue;
            }
            other => panic!("unknown case kind op {}", other),
        };
        let panicked = res == "CPanic";
        out.push(format!("OStep ({}) ({}) ({})", res, val_after, ids_obs(&reader)));
        if panicked {
            break;
        }
    }
    format!("[{}]", out.join("; "))
}

/// flood <nm> <nv> <count>: fill the manager, then <count> more allocations (all must fail), then one more.
/// observation: (counters allocated while filling, allocations that succeeded during the flood,
///               result of the last allocation, for_each ids, digest of the label of counter 0)
fn case_flood(parts: &[&str]) -> String {
    let nm = num(parts[0]) as i64;
    let nv = num(parts[1]) as i64;
    let count = num(parts[2]) as i64;
    let m_mem = AlignedBuffer::with_capacity((nm * 512) as i32);
    let v_mem = AlignedBuffer::with_capacity((nv * 128) as i32);
    let m_buf = AtomicBuffer::from_aligned(&m_mem);
    let v_buf = AtomicBuffer::from_aligned(&v_mem);
    NOW.store(0, Ordering::SeqCst);
    let mut mgr = CountersManager::new_opt(m_buf, v_buf, clock, 10);
    let reader = CountersReader::new(m_buf, v_buf);
    let mut filled = 0i64;
    let mut panicked = false;
    for i in 0..(nm.max(nv) + 1) {
        match catch(|| mgr.allocate(&mk_label(2, i, -1))) {
            Ok(Ok(_)) => filled += 1,
            Ok(Err(_)) => break,
            Err(()) => {
                panicked = true;
                break;
            }
        }
    }
    let mut oks = 0i64;
    if !panicked {
        for _ in 0..count {
            match catch(|| mgr.allocate("x")) {
                Ok(Ok(_)) => oks += 1,
                Ok(Err(_)) => {}
                Err(()) => {
                    panicked = true;
                    break;
                }
            }
        }
    }
    let last = if panicked { "CPanic".to_string() } else { cres(catch(|| mgr.allocate("last")), |v| v.to_string()) };
    format!(
        "({}, {}, {}, {}, {})",
        filled,
        oks,
        last,
        ids_obs(&reader),
        cres(catch(|| reader.counter_label(0)), |v| hash(v.as_bytes()).to_string())
    )
}

fn main() {
    vcommon::run_lines(|line| {
        let parts: Vec<&str> = line.split_whitespace().collect();
        match parts[0] {
            "seq" => case_seq(&parts[1..]),
            "flood" => case_flood(&parts[1..]),
            other => panic!("unknown case kind {}", other),
        }
    });
}
