//! K1a: dump of the compiled crate's constants, struct sizes and field offsets.
//! One `NAME value` pair per line; tools/vlib/translate.py turns it into coq/Generated/GenConsts.v,
//! so the constants the theorems use are the ones the compiler saw in the working tree.
use aeron_rs::command::control_protocol_events::AeronCommand;
use aeron_rs::command::*;
use aeron_rs::concurrent::broadcast::{broadcast_buffer_descriptor as bbd, record_descriptor as brd};
use aeron_rs::concurrent::counters;
use aeron_rs::concurrent::logbuffer::{data_frame_header as dfh, frame_descriptor as fd, log_buffer_descriptor as lbd, term_appender};
use aeron_rs::concurrent::ring_buffer as rb;

macro_rules! p {
    ($name:expr, $v:expr) => {
        println!("{} {}", $name, ($v) as i128);
    };
}

/// K1 for C13/C14 (`vconsts --commands`): every AeronCommand variant with its `as i32` value, and the
/// variant `AeronCommand::from_command_id` returns for every id of the scanned range (ids for which it
/// panics are omitted). tools/props/c14.py turns this into coq/Generated/GenCommands.v.
fn dump_commands() {
    use std::panic::{catch_unwind, set_hook};
    set_hook(Box::new(|_| {}));
    macro_rules! variants {
        ($($v:ident),*) => {{
            // exhaustive on purpose: a variant added to the enum makes this harness fail to compile
            fn _complete(c: AeronCommand) { match c { $( AeronCommand::$v => (), )* } }
            vec![$( AeronCommand::$v ),*]
        }};
    }
    let all = variants!(
        Padding, AddPublication, RemovePublication, AddExclusivePublication, AddSubscription, RemoveSubscription,
        ClientKeepAlive, AddDestination, RemoveDestination, AddCounter, RemoveCounter, ClientClose,
        AddRcvDestination, RemoveRcvDestination, TerminateDriver,
        ResponseOnError, ResponseOnAvailableImage, ResponseOnPublicationReady, ResponseOnOperationSuccess,
        ResponseOnUnavailableImage, ResponseOnExclusivePublicationReady, ResponseOnSubscriptionReady,
        ResponseOnCounterReady, ResponseOnUnavailableCounter, ResponseOnClientTimeout
    );
    for c in &all {
        println!("VARIANT {:?} {}", c, *c as i32);
    }
    let (lo, hi): (i32, i32) = (-0x10000, 0x10000);
    println!("SCAN {} {}", lo, hi);
    let mut ids: Vec<i32> = (lo..=hi).collect();
    ids.extend_from_slice(&[i32::MIN, i32::MIN + 1, i32::MAX, i32::MAX - 1, 0xF0000, 0xF09_0000, 0x0F00_0000]);
    for id in ids {
        if let Ok(c) = catch_unwind(|| AeronCommand::from_command_id(id)) {
            println!("FROM {} {:?}", id, c);
        }
    }
}

/// K1 for the CnC file descriptor (C10, Model/CncLayout.v): the public constants and, because `MetaDataDefn` is
/// private, the position and width of every meta-data field found by probing: a 256-byte file that is zero
/// except for one byte is mapped and every public reader of `cnc_file_descriptor` is asked what it sees.
fn dump_cnc() {
    use aeron_rs::cnc_file_descriptor as cnc;
    use aeron_rs::utils::memory_mapped_file::MemoryMappedFile;
    p!("CNC_VERSION", cnc::CNC_VERSION);
    p!("CNC_META_DATA_LENGTH", *cnc::META_DATA_LENGTH);
    let path = std::env::temp_dir().join(format!("vconsts-cnc-{}.dat", std::process::id()));
    let names = ["VERSION", "TO_DRIVER_LEN", "TO_CLIENTS_LEN", "COUNTER_METADATA_LEN", "COUNTER_VALUES_LEN", "ERROR_LOG_LEN",
                 "CLIENT_LIVENESS_TIMEOUT", "START_TIMESTAMP", "PID"];
    let mut hits: Vec<Vec<usize>> = vec![Vec::new(); names.len()];
    for pos in 0..128usize {
        let mut bytes = vec![0u8; 256];
        bytes[pos] = 1;
        std::fs::write(&path, &bytes).expect("write probe file");
        let f = MemoryMappedFile::map_existing(path.to_str().unwrap().to_string(), false).expect("map probe file");
        let seen: [i64; 9] = [
            cnc::cnc_version_volatile(&f) as i64,
            cnc::create_to_driver_buffer(&f).capacity() as i64,
            cnc::create_to_clients_buffer(&f).capacity() as i64,
            cnc::create_counter_metadata_buffer(&f).capacity() as i64,
            cnc::create_counter_values_buffer(&f).capacity() as i64,
            cnc::create_error_log_buffer(&f).capacity() as i64,
            cnc::client_liveness_timeout(&f),
            cnc::start_timestamp(&f),
            cnc::pid(&f),
        ];
        for (i, v) in seen.iter().enumerate() {
            // little endian: byte k of a field contributes 1 << 8k
            if *v != 0 {
                hits[i].push(pos);
                if *v != 1i64 << (8 * (pos - hits[i][0])) {
                    hits[i].push(usize::MAX); // not a plain little-endian integer field: makes the width check fail
                }
            }
        }
    }
    let _ = std::fs::remove_file(&path);
    let mut end = 0usize;
    for (i, n) in names.iter().enumerate() {
        let h = &hits[i];
        let contiguous = !h.is_empty() && h.iter().enumerate().all(|(k, p)| *p == h[0] + k);
        p!(format!("CNC_OFF_{}", n), if contiguous { h[0] as i64 } else { -1 });
        p!(format!("CNC_SZ_{}", n), if contiguous { h.len() as i64 } else { -1 });
        if contiguous {
            end = end.max(h[0] + h.len());
        }
    }
    p!("CNC_META_DATA_FIELDS_END", end);
}

fn main() {
    if std::env::args().any(|a| a == "--commands") {
        dump_commands();
        return;
    }
    p!("CACHE_LINE_LENGTH", aeron_rs::utils::misc::CACHE_LINE_LENGTH);
    p!("I32_SIZE", aeron_rs::utils::types::I32_SIZE);
    p!("I64_SIZE", aeron_rs::utils::types::I64_SIZE);
    dump_cnc();
    // log buffer descriptor
    p!("TERM_MIN_LENGTH", lbd::TERM_MIN_LENGTH);
    p!("TERM_MAX_LENGTH", lbd::TERM_MAX_LENGTH);
    p!("PARTITION_COUNT", lbd::PARTITION_COUNT);
    p!("LOG_META_DATA_LENGTH", lbd::LOG_META_DATA_LENGTH);
    p!("LOG_META_DATA_SECTION_INDEX", lbd::LOG_META_DATA_SECTION_INDEX);
    p!("TERM_TAIL_COUNTER_OFFSET", *lbd::TERM_TAIL_COUNTER_OFFSET);
    p!("LOG_ACTIVE_TERM_COUNT_OFFSET", *lbd::LOG_ACTIVE_TERM_COUNT_OFFSET);
    p!("LOG_END_OF_STREAM_POSITION_OFFSET", *lbd::LOG_END_OF_STREAM_POSITION_OFFSET);
    p!("LOG_IS_CONNECTED_OFFSET", *lbd::LOG_IS_CONNECTED_OFFSET);
    p!("LOG_INITIAL_TERM_ID_OFFSET", *lbd::LOG_INITIAL_TERM_ID_OFFSET);
    p!("LOG_DEFAULT_FRAME_HEADER_LENGTH_OFFSET", *lbd::LOG_DEFAULT_FRAME_HEADER_LENGTH_OFFSET);
    p!("LOG_MTU_LENGTH_OFFSET", *lbd::LOG_MTU_LENGTH_OFFSET);
    p!("LOG_TERM_LENGTH_OFFSET", *lbd::LOG_TERM_LENGTH_OFFSET);
    p!("LOG_PAGE_SIZE_OFFSET", *lbd::LOG_PAGE_SIZE_OFFSET);
    p!("LOG_DEFAULT_FRAME_HEADER_OFFSET", lbd::LOG_DEFAULT_FRAME_HEADER_OFFSET);
    // frame descriptor / data frame header
    p!("FRAME_ALIGNMENT", fd::FRAME_ALIGNMENT);
    p!("BEGIN_FRAG", fd::BEGIN_FRAG);
    p!("END_FRAG", fd::END_FRAG);
    p!("UNFRAGMENTED", fd::UNFRAGMENTED);
    p!("ALIGNED_HEADER_LENGTH", fd::ALIGNED_HEADER_LENGTH);
    p!("FD_VERSION_OFFSET", fd::VERSION_OFFSET);
    p!("FD_FLAGS_OFFSET", fd::FLAGS_OFFSET);
    p!("FD_TYPE_OFFSET", fd::TYPE_OFFSET);
    p!("FD_LENGTH_OFFSET", fd::LENGTH_OFFSET);
    p!("FD_TERM_OFFSET", fd::TERM_OFFSET);
    p!("MAX_MESSAGE_LENGTH", fd::MAX_MESSAGE_LENGTH);
    p!("DFH_FRAME_LENGTH_FIELD_OFFSET", *dfh::FRAME_LENGTH_FIELD_OFFSET);
    p!("DFH_VERSION_FIELD_OFFSET", *dfh::VERSION_FIELD_OFFSET);
    p!("DFH_FLAGS_FIELD_OFFSET", *dfh::FLAGS_FIELD_OFFSET);
    p!("DFH_TYPE_FIELD_OFFSET", *dfh::TYPE_FIELD_OFFSET);
    p!("DFH_TERM_OFFSET_FIELD_OFFSET", *dfh::TERM_OFFSET_FIELD_OFFSET);
    p!("DFH_SESSION_ID_FIELD_OFFSET", *dfh::SESSION_ID_FIELD_OFFSET);
    p!("DFH_STREAM_ID_FIELD_OFFSET", *dfh::STREAM_ID_FIELD_OFFSET);
    p!("DFH_TERM_ID_FIELD_OFFSET", *dfh::TERM_ID_FIELD_OFFSET);
    p!("DFH_RESERVED_VALUE_FIELD_OFFSET", *dfh::RESERVED_VALUE_FIELD_OFFSET);
    p!("DFH_LENGTH", dfh::LENGTH);
    p!("DFH_DATA_OFFSET", dfh::DATA_OFFSET);
    p!("HDR_TYPE_PAD", dfh::HDR_TYPE_PAD);
    p!("HDR_TYPE_DATA", dfh::HDR_TYPE_DATA);
    p!("CURRENT_VERSION", dfh::CURRENT_VERSION);
    p!("TERM_APPENDER_FAILED", term_appender::TERM_APPENDER_FAILED);
    // many-to-one ring buffer
    p!("RB_TAIL_POSITION_OFFSET", rb::TAIL_POSITION_OFFSET);
    p!("RB_HEAD_CACHE_POSITION_OFFSET", rb::HEAD_CACHE_POSITION_OFFSET);
    p!("RB_HEAD_POSITION_OFFSET", rb::HEAD_POSITION_OFFSET);
    p!("RB_CORRELATION_COUNTER_OFFSET", rb::CORRELATION_COUNTER_OFFSET);
    p!("RB_CONSUMER_HEARTBEAT_OFFSET", rb::CONSUMER_HEARTBEAT_OFFSET);
    p!("RB_TRAILER_LENGTH", rb::TRAILER_LENGTH);
    p!("RB_HEADER_LENGTH", rb::record_descriptor::HEADER_LENGTH);
    p!("RB_ALIGNMENT", rb::record_descriptor::ALIGNMENT);
    // broadcast
    p!("BC_TAIL_INTENT_COUNTER_OFFSET", bbd::TAIL_INTENT_COUNTER_OFFSET);
    p!("BC_TAIL_COUNTER_OFFSET", bbd::TAIL_COUNTER_OFFSET);
    p!("BC_LATEST_COUNTER_OFFSET", bbd::LATEST_COUNTER_OFFSET);
    p!("BC_TRAILER_LENGTH", bbd::TRAILER_LENGTH);
    p!("BC_HEADER_LENGTH", brd::HEADER_LENGTH);
    p!("BC_RECORD_ALIGNMENT", brd::RECORD_ALIGNMENT);
    p!("BC_MAX_MSG_1024", brd::calculate_max_message_length(1024));
    // counters
    p!("NULL_COUNTER_ID", counters::NULL_COUNTER_ID);
    p!("RECORD_UNUSED", counters::RECORD_UNUSED);
    p!("RECORD_ALLOCATED", counters::RECORD_ALLOCATED);
    p!("RECORD_RECLAIMED", counters::RECORD_RECLAIMED);
    p!("NOT_FREE_TO_REUSE", counters::NOT_FREE_TO_REUSE);
    p!("COUNTER_LENGTH", counters::COUNTER_LENGTH);
    p!("METADATA_LENGTH", counters::METADATA_LENGTH);
    p!("MAX_LABEL_LENGTH", counters::MAX_LABEL_LENGTH);
    p!("MAX_KEY_LENGTH", counters::MAX_KEY_LENGTH);
    p!("FREE_TO_REUSE_DEADLINE_OFFSET", *counters::FREE_TO_REUSE_DEADLINE_OFFSET);
    p!("LABEL_LENGTH_OFFSET", *counters::LABEL_LENGTH_OFFSET);
    p!("KEY_OFFSET", *counters::KEY_OFFSET);
    p!("TYPE_ID_OFFSET", *counters::TYPE_ID_OFFSET);
    // client heartbeat counter / error codes (C11, C12)
    p!("CLIENT_HEARTBEAT_TYPE_ID", aeron_rs::heartbeat_timestamp::CLIENT_HEARTBEAT_TYPE_ID);
    p!("MAX_MOMENT", aeron_rs::utils::types::MAX_MOMENT);
    // command / event struct sizes
    p!("CLIENT_TIMEOUT_LENGTH", client_timeout_flyweight::CLIENT_TIMEOUT_LENGTH);
    p!("CORRELATED_MESSAGE_LENGTH", correlated_message_flyweight::CORRELATED_MESSAGE_LENGTH);
    p!("COUNTER_MESSAGE_LENGTH", counter_message_flyweight::COUNTER_MESSAGE_LENGTH);
    p!("COUNTER_READY_LENGTH", counter_update_flyweight::COUNTER_READY_LENGTH);
    p!("IMAGE_BUFFERS_READY_LENGTH", image_buffers_ready_flyweight::IMAGE_BUFFERS_READY_LENGTH);
    p!("OPERATION_SUCCEEDED_LENGTH", operation_succeeded_flyweight::OPERATION_SUCCEEDED_LENGTH);
    p!("REMOVE_MESSAGE_LENGTH", remove_message_flyweight::REMOVE_MESSAGE_LENGTH);
    p!("SUBSCRIPTION_READY_LENGTH", subscription_ready_flyweight::SUBSCRIPTION_READY_LENGTH);
    p!("TERMINATE_DRIVER_LENGTH", terminate_driver_flyweight::TERMINATE_DRIVER_LENGTH);
    p!("ERROR_CODE_CHANNEL_ENDPOINT_ERROR", error_response_flyweight::ERROR_CODE_CHANNEL_ENDPOINT_ERROR);
    // command / event type codes as the compiler assigned them
    macro_rules! cmd {
        ($($v:ident),*) => { $( p!(concat!("CMD_", stringify!($v)), AeronCommand::$v as i32); )* };
    }
    cmd!(
        Padding, AddPublication, RemovePublication, AddExclusivePublication, AddSubscription, RemoveSubscription,
        ClientKeepAlive, AddDestination, RemoveDestination, AddCounter, RemoveCounter, ClientClose,
        AddRcvDestination, RemoveRcvDestination, TerminateDriver,
        ResponseOnError, ResponseOnAvailableImage, ResponseOnPublicationReady, ResponseOnOperationSuccess,
        ResponseOnUnavailableImage, ResponseOnExclusivePublicationReady, ResponseOnSubscriptionReady,
        ResponseOnCounterReady, ResponseOnUnavailableCounter, ResponseOnClientTimeout
    );
}
