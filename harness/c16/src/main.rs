//! C16 harness: every accessor of AtomicBuffer called on a region that is the *middle* of a larger
//! allocation whose guard zones (64 bytes each side) hold a known pattern.
//!
//! line    ::= rcap scap (';' p w call)+
//! call    ::= 'nop' | 'view' off len call
//!           | ('get'|'getv'|'asref'|'getb'|'ovl'|'put'|'puto') T pos          T in {1,2,4,8,80,24}: u8 u16 i32 i64 u64 S24
//!           | 'puta' off val | 'cas32' pos exp upd | 'cas64' pos exp upd | 'addo' off delta | 'gaa' off delta
//!           | 'setm' pos len val | 'putb' off n | 'write' n | 'copy' off soff len | 'slice' | 'mslice' | 'sub' idx len
//!           | 'gs' off | 'gswl' off len | 'gsl' off | 'ps' off n | 'pswl' off n
//!           | 'dfw' off                                  DataHeaderFlyweight::new(buf, off): Flyweight::new over the 8-byte header, then
//!                                                        Flyweight::overlay_struct::<DataHeaderDefn>(0) (28 bytes); reads term_id, returns data() - 24
//!           | 'efw' off                                  ErrorResponseFlyweight::new(buf, off).error_code()
//! Before each call a fresh fixture is built: region byte r = init_byte(r) for r in [-64, rcap+64), the 32-bit
//! word w planted at offset p (where it falls inside the allocation); a second region of scap bytes (src_byte).
//! observation per call: (Panic | Ok ([numbers], [bytes]), [(offset, new byte) of the first allocation], [... second])
use aeron_rs::command::error_response_flyweight::ErrorResponseFlyweight;
use aeron_rs::protocol::data_header_flyweight::{DataHeaderFlyweight, DATA_HEADER_DEFN_SIZE};
use aeron_rs::concurrent::atomic_buffer::AtomicBuffer;
use std::io::Write;
use vcommon::{catch, fmt_list};

const G: i64 = 64;

#[repr(C, packed)]
#[derive(Copy, Clone)]
struct S24 {
    a: i64,
    b: i64,
    c: i64,
}

fn init_byte(r: i64) -> u8 {
    ((((r + 64) * 37 + 11).rem_euclid(251)) + 1) as u8
}
fn src_byte(r: i64) -> u8 {
    ((((r + 64) * 53 + 7).rem_euclid(241)) + 2) as u8
}
fn wbyte(k: i64) -> u8 {
    ((192 + k).rem_euclid(256)) as u8
}

/// The slice handed to put_bytes / put_string* / write: the pattern, or (for lengths that only make sense as a test of
/// the length conversion) lazily mapped zero pages, so that a 4 GiB slice costs no memory.
fn slice_data(n: i64) -> Vec<u8> {
    if n > (1 << 24) {
        // calloc: untouched zero pages. Where the machine refuses that much address space the call is reported as a
        // panic (what a correct tree answers), never as a crash of the harness.
        let layout = std::alloc::Layout::array::<u8>(n as usize).expect("layout");
        let p = unsafe { std::alloc::alloc_zeroed(layout) };
        if p.is_null() {
            panic!("cannot allocate {} bytes", n);
        }
        unsafe { Vec::from_raw_parts(p, n as usize, n as usize) }
    } else {
        (0..n).map(wbyte).collect()
    }
}

struct Fixture {
    mem: Vec<u64>, // 8-aligned backing store
    cap: i64,
    before: Vec<u8>,
}

impl Fixture {
    fn new(cap: i64, f: fn(i64) -> u8) -> Fixture {
        let total = (2 * G + cap) as usize;
        let mut fx = Fixture {
            mem: vec![0u64; total.div_ceil(8) + 1],
            cap,
            before: Vec::new(),
        };
        for i in 0..total {
            fx.bytes_mut()[i] = f(i as i64 - G);
        }
        fx
    }
    fn total(&self) -> usize {
        (2 * G + self.cap) as usize
    }
    fn bytes_mut(&mut self) -> &mut [u8] {
        let n = self.mem.len() * 8;
        unsafe { std::slice::from_raw_parts_mut(self.mem.as_mut_ptr() as *mut u8, n) }
    }
    fn plant(&mut self, p: i64, w: i32) {
        let le = w.to_le_bytes();
        let total = self.total() as i64;
        for k in 0..4i64 {
            let a = p + k + G;
            if a >= 0 && a < total {
                self.bytes_mut()[a as usize] = le[k as usize];
            }
        }
    }
    fn snapshot(&mut self) {
        let t = self.total();
        self.before = self.bytes_mut()[..t].to_vec();
    }
    fn region_ptr(&mut self) -> *mut u8 {
        unsafe { (self.mem.as_mut_ptr() as *mut u8).add(G as usize) }
    }
    fn buffer(&mut self) -> AtomicBuffer {
        let cap = self.cap as usize;
        let p = self.region_ptr();
        AtomicBuffer::wrap_slice(unsafe { std::slice::from_raw_parts_mut(p, cap) })
    }
    fn diff(&mut self) -> String {
        let t = self.total();
        let before = std::mem::take(&mut self.before);
        let now = &self.bytes_mut()[..t];
        let mut items = Vec::new();
        for i in 0..t {
            if now[i] != before[i] {
                items.push(format!("({}, {})", i as i64 - G, now[i]));
            }
        }
        format!("[{}]", items.join("; "))
    }
}

type Rv = (Vec<i64>, Vec<u8>);

fn bytes_of<T: Copy>(v: &T) -> Vec<u8> {
    let n = std::mem::size_of::<T>();
    unsafe { std::slice::from_raw_parts(v as *const T as *const u8, n).to_vec() }
}

fn pattern<T: Copy>() -> T {
    let n = std::mem::size_of::<T>();
    let raw: Vec<u8> = (0..n).map(|k| wbyte(k as i64)).collect();
    unsafe { std::ptr::read_unaligned(raw.as_ptr() as *const T) }
}

fn typed<T: Copy>(op: &str, buf: &AtomicBuffer, base: isize, pos: i32) -> Rv {
    match op {
        "get" => (vec![], bytes_of(&buf.get::<T>(pos))),
        "getv" => (vec![], bytes_of(&buf.get_volatile::<T>(pos))),
        "asref" => {
            let r: &T = buf.as_ref::<T>(pos);
            (vec![], bytes_of(r))
        }
        "getb" => {
            let mut dest: T = pattern::<T>();
            buf.get_bytes::<T>(pos, &mut dest);
            (vec![], bytes_of(&dest))
        }
        "ovl" => {
            let p = buf.overlay_struct::<T>(pos);
            (vec![(p as isize - base) as i64], vec![])
        }
        "put" => {
            buf.put::<T>(pos, pattern::<T>());
            (vec![], vec![])
        }
        "puto" => {
            buf.put_ordered::<T>(pos, pattern::<T>());
            (vec![], vec![])
        }
        _ => panic!("unknown case kind {}", op),
    }
}

struct Toks<'a> {
    t: Vec<&'a str>,
    i: usize,
}
impl<'a> Toks<'a> {
    fn word(&mut self) -> &'a str {
        let w = self.t.get(self.i).copied().unwrap_or_else(|| panic!("unknown case kind <end>"));
        self.i += 1;
        w
    }
    fn int(&mut self) -> i64 {
        let w = self.word();
        w.parse::<i64>().unwrap_or_else(|_| panic!("bad int {}", w))
    }
    fn i32(&mut self) -> i32 {
        let v = self.int();
        assert!(v >= i32::MIN as i64 && v <= i32::MAX as i64, "bad int {}", v);
        v as i32
    }
}

/// Runs the call described by the tokens on `buf`; `base` is the address of the root region.
fn run_call(t: &mut Toks, buf: AtomicBuffer, base: isize, src: &AtomicBuffer) -> Rv {
    let op = t.word();
    match op {
        "nop" => (vec![(buf.buffer() as isize - base) as i64, buf.capacity() as i64], vec![]),
        "view" => {
            let (off, len) = (t.i32(), t.i32());
            let v = buf.view(off, len);
            run_call(t, v, base, src)
        }
        "get" | "getv" | "asref" | "getb" | "ovl" | "put" | "puto" => {
            let ty = t.int();
            let pos = t.i32();
            match ty {
                1 => typed::<u8>(op, &buf, base, pos),
                2 => typed::<u16>(op, &buf, base, pos),
                4 => typed::<i32>(op, &buf, base, pos),
                8 => typed::<i64>(op, &buf, base, pos),
                80 => typed::<u64>(op, &buf, base, pos),
                24 => typed::<S24>(op, &buf, base, pos),
                _ => panic!("unknown case kind type {}", ty),
            }
        }
        "puta" => {
            let (off, val) = (t.i32(), t.int());
            buf.put_atomic_i64(off, val);
            (vec![], vec![])
        }
        "cas32" => {
            let (pos, e, u) = (t.i32(), t.i32(), t.i32());
            let b = buf.compare_and_set_i32(pos, e, u);
            (vec![b as i64], vec![])
        }
        "cas64" => {
            let (pos, e, u) = (t.i32(), t.int(), t.int());
            let b = buf.compare_and_set_i64(pos, e, u);
            (vec![b as i64], vec![])
        }
        "addo" => {
            let (off, d) = (t.i32(), t.int());
            buf.add_i64_ordered(off, d);
            (vec![], vec![])
        }
        "gaa" => {
            let (off, d) = (t.i32(), t.int());
            let old = buf.get_and_add_i64(off, d);
            (vec![], old.to_le_bytes().to_vec())
        }
        "setm" => {
            let (pos, len, val) = (t.i32(), t.i32(), t.int());
            buf.set_memory(pos, len, val as u8);
            (vec![], vec![])
        }
        "putb" => {
            let (off, n) = (t.i32(), t.int());
            let data = slice_data(n);
            buf.put_bytes(off, &data);
            (vec![], vec![])
        }
        "write" => {
            let n = t.int();
            let data = slice_data(n);
            let mut b = buf;
            let written = b.write(&data).expect("write");
            assert_eq!(written as i64, n);
            (vec![], vec![])
        }
        "copy" => {
            let (off, soff, len) = (t.i32(), t.i32(), t.i32());
            buf.copy_from(off, src, soff, len);
            (vec![], vec![])
        }
        "slice" => {
            let s = buf.as_slice();
            (vec![(s.as_ptr() as isize - base) as i64, s.len() as i64], s.to_vec())
        }
        "mslice" => {
            let mut b = buf;
            let s = b.as_mutable_slice();
            (vec![(s.as_ptr() as isize - base) as i64, s.len() as i64], s.to_vec())
        }
        "sub" => {
            let (idx, len) = (t.i32(), t.i32());
            (vec![], buf.as_sub_slice(idx, len).to_vec())
        }
        "gs" => {
            let off = t.i32();
            (vec![], buf.get_string(off).as_bytes().to_vec())
        }
        "gswl" => {
            let (off, len) = (t.i32(), t.i32());
            (vec![], buf.get_string_without_length(off, len).as_bytes().to_vec())
        }
        "gsl" => {
            let off = t.i32();
            (vec![], buf.get_string_length(off).to_le_bytes().to_vec())
        }
        "ps" => {
            let (off, n) = (t.i32(), t.int());
            let data = slice_data(n);
            buf.put_string(off, &data);
            (vec![], vec![])
        }
        "pswl" => {
            let (off, n) = (t.i32(), t.int());
            let data = slice_data(n);
            let r = buf.put_string_without_length(off, &data);
            (vec![r as i64], vec![])
        }
        "dfw" => {
            let off = t.i32();
            assert_eq!(DATA_HEADER_DEFN_SIZE, 28, "DataHeaderDefn layout changed");
            let fw = DataHeaderFlyweight::new(buf, off);
            let _ = fw.term_id();
            (vec![(fw.data() as isize - base - 24) as i64], vec![])
        }
        "efw" => {
            let off = t.i32();
            let fw = ErrorResponseFlyweight::new(buf, off);
            (vec![], fw.error_code().to_le_bytes().to_vec())
        }
        other => panic!("unknown case kind {}", other),
    }
}

fn one_call(rcap: i64, scap: i64, text: &str) -> String {
    let mut t = Toks {
        t: text.split_whitespace().collect(),
        i: 0,
    };
    let p = t.int();
    let w = t.i32();
    let mut fx = Fixture::new(rcap, init_byte);
    let mut sx = Fixture::new(scap, src_byte);
    fx.plant(p, w);
    fx.snapshot();
    sx.snapshot();
    let buf = fx.buffer();
    let src = sx.buffer();
    let base = fx.region_ptr() as isize;
    let r = catch(|| run_call(&mut t, buf, base, &src));
    let res = match r {
        Ok((nums, bytes)) => format!("Ok ({}, {})", fmt_list(&nums), fmt_list(&bytes)),
        Err(()) => "Panic".to_string(),
    };
    format!("({}, {}, {})", res, fx.diff(), sx.diff())
}

fn main() {
    vcommon::run_lines(|line| {
        let mut parts = line.split(';');
        let head: Vec<&str> = parts.next().unwrap().split_whitespace().collect();
        let hv = vcommon::ints(&head);
        let (rcap, scap) = (hv[0], hv[1]);
        let obs: Vec<String> = parts.map(|c| one_call(rcap, scap, c)).collect();
        format!("[{}]", obs.join("; "))
    });
}
