//! Differential harness for the code *around* the conductor (property C10):
//! `Aeron::map_cnc_file` / `Aeron::new` / `Drop for Aeron`, `cnc_file_descriptor`, `AgentInvoker`, `AgentRunner`.
//!
//! One case per input line, one observation per output line, in Coq term syntax.
//!
//!  conn T | c0 | F V L H c | F V L H c | ...
//!        scripted connect (needs the clock hook, hooks/cnc-clock.diff; answers `NoHook` without it).  `c0` answers the
//!        first `unix_time_ms()` call; entry i is the state of the CnC file in force after clock call i-1 (F = -1 no
//!        file, otherwise its length; V version word; L to-driver length word; H consumer heartbeat) and the answer of
//!        clock call i.  After the script nothing changes any more.  Observation `(kind, clock calls made)`.
//!  rt T <snap0> [after N <snap1>]
//!        connect in real time against a fabricated file, T = media driver time-out in ms; a snap is `F V L h` with
//!        h = z (0) | s (stale: now - 10 T - 1000) | f (fresh: now + 3600000) and the optional second snap is
//!        written by a helper thread N ms after the call started.  Observation `(kind, returned within T + 400 ms)`.
//!  new T inv|run <h>
//!        `Aeron::new` against a complete fabricated CnC file (five regions), then drop, both under a watchdog.
//!        Observation `(kind, in time, drop outcome)`.
//!  lay <file length> v td tc cm cv el clt st pid
//!        cnc_file_descriptor: regions and getters on a file with these meta data.
//!  inv S C W | ops          AgentInvoker driven with a scripted agent (see agent.rs)
//!  runner S C W | script    AgentRunner::run on the harness thread with a scripted agent that sends the stop itself
//!  thr <strategy> <work> <ms>   AgentRunner::start / AgentStopper::stop on a real thread under a watchdog
mod agent;
mod connect;
mod layout;

fn main() {
    vcommon::run_lines(|line| {
        let (word, rest) = match line.split_once(' ') {
            Some((w, r)) => (w, r.trim()),
            None => (line, ""),
        };
        match word {
            "conn" => connect::scripted(rest),
            "rt" => connect::real_time(rest),
            "new" => connect::aeron_new(rest),
            "lay" => layout::run(rest),
            "inv" => agent::invoker(rest),
            "runner" => agent::runner(rest),
            "thr" => agent::threaded(rest),
            _ => {
                eprintln!("unknown case kind {}", word);
                std::process::exit(3);
            }
        }
    });
}
