//! `Aeron::map_cnc_file`, `Aeron::new`, `Drop for Aeron` against fabricated CnC files.
use std::cell::RefCell;
use std::fs::{File, OpenOptions};
use std::os::unix::fs::FileExt;
use std::path::PathBuf;
use std::rc::Rc;
use std::sync::atomic::{AtomicU64, Ordering};
use std::sync::mpsc::channel;
use std::time::{Duration, Instant};

use aeron_rs::aeron::Aeron;
use aeron_rs::context::Context;
use aeron_rs::utils::errors::{AeronError, DriverInteractionError, GenericError};
use aeron_rs::utils::misc::unix_time_ms;

const META: i64 = 128; // cross-checked against *META_DATA_LENGTH in `layout`
const TRAILER: i64 = 768;
const HB_OFFSET: i64 = 640;

static DIR_SEQ: AtomicU64 = AtomicU64::new(0);

/// A private directory holding (at most) one `cnc.dat`; every generation of the file the case created stays
/// writable through its descriptor, so that a mapping of an unlinked generation still sees the scripted values.
pub struct CncDir {
    pub dir: PathBuf,
    cur_len: i64, // -1: no file
    generations: Vec<(File, i64)>,
    valid_td: Vec<i64>,
}

#[derive(Clone, Copy, Debug)]
pub struct Snap {
    pub f: i64,
    pub v: i32,
    pub l: i32,
    pub h: i64,
}

impl CncDir {
    pub fn new() -> Self {
        let n = DIR_SEQ.fetch_add(1, Ordering::SeqCst);
        let dir = std::env::temp_dir().join(format!("c10cnc-{}-{}", std::process::id(), n));
        let _ = std::fs::remove_dir_all(&dir);
        std::fs::create_dir_all(&dir).expect("mkdir");
        Self { dir, cur_len: -1, generations: Vec::new(), valid_td: Vec::new() }
    }

    pub fn path(&self) -> PathBuf {
        self.dir.join("cnc.dat")
    }

    pub fn apply(&mut self, s: &Snap) {
        let path = self.path();
        let tmp = self.dir.join("cnc.dat.new");
        let mut publish = false;
        if s.f < 0 {
            if self.cur_len >= 0 {
                let _ = std::fs::remove_file(&path);
            }
            self.cur_len = -1;
        } else if self.cur_len != s.f {
            // a new generation is prepared under another name and renamed over cnc.dat once its words are written:
            // the client never sees "no file" or a half-written file in between
            let f = OpenOptions::new().read(true).write(true).create(true).truncate(true).open(&tmp).expect("create cnc");
            f.set_len(s.f as u64).expect("set_len");
            self.generations.push((f, s.f));
            self.cur_len = s.f;
            publish = true;
        }
        let cap = s.l as i64 - TRAILER;
        if cap > 0 && cap & (cap - 1) == 0 && !self.valid_td.contains(&(s.l as i64)) {
            self.valid_td.push(s.l as i64);
        }
        // every generation (also the unlinked ones a mapping may still show) carries the current words
        for (f, len) in &self.generations {
            if *len >= 8 {
                f.write_at(&s.v.to_le_bytes(), 0).expect("write version");
                f.write_at(&s.l.to_le_bytes(), 4).expect("write length");
            }
            for td in &self.valid_td {
                let pos = META + (td - TRAILER) + HB_OFFSET;
                if pos + 8 <= *len {
                    f.write_at(&s.h.to_le_bytes(), pos as u64).expect("write heartbeat");
                }
            }
        }
        if publish {
            std::fs::rename(&tmp, &path).expect("publish cnc");
        }
    }

    /// Meta data of a complete file: the five lengths, client liveness time-out, start time stamp, pid.
    pub fn write_meta(&self, words: &[i32; 5], clt: i64, st: i64, pid: i64) {
        if let Some((f, _)) = self.generations.last() {
            for (i, w) in words.iter().enumerate() {
                f.write_at(&w.to_le_bytes(), 4 + 4 * i as u64).expect("meta");
            }
            f.write_at(&clt.to_le_bytes(), 24).expect("meta");
            f.write_at(&st.to_le_bytes(), 32).expect("meta");
            f.write_at(&pid.to_le_bytes(), 40).expect("meta");
        }
    }
}

impl Drop for CncDir {
    fn drop(&mut self) {
        let _ = std::fs::remove_dir_all(&self.dir);
    }
}

pub fn kind_of(r: &Result<(), AeronError>) -> String {
    match r {
        Ok(()) => "KOk".into(),
        Err(AeronError::MemMappedFileError(_)) => "KErr EMapFile".into(),
        Err(AeronError::DriverTimeout(DriverInteractionError::CncNotCreated { .. })) => "KErr ENotCreated".into(),
        Err(AeronError::DriverTimeout(DriverInteractionError::CncCreatedButNotInitialised { .. })) => "KErr ENotInitialised".into(),
        Err(AeronError::DriverTimeout(DriverInteractionError::NoHeartbeatDetected)) => "KErr ENoHeartbeat".into(),
        Err(AeronError::Generic(GenericError::CncVersionDoesntMatch { .. })) => "KErr EVersion".into(),
        Err(_) => "KErr EOther".into(),
    }
}

fn context(dir: &str, timeout: u64) -> Context {
    let mut ctx = Context::new();
    ctx.set_aeron_dir(dir.to_string());
    ctx.set_media_driver_timeout(timeout);
    ctx.set_error_handler(|_e: AeronError| {});
    ctx
}

fn parse_snap(w: &[&str]) -> (i64, i32, i32, &'static str, i64) {
    let f: i64 = w[0].parse().expect("bad int");
    let v: i64 = w[1].parse().expect("bad int");
    let l: i64 = w[2].parse().expect("bad int");
    match w[3] {
        "z" => (f, v as i32, l as i32, "z", 0),
        "s" => (f, v as i32, l as i32, "s", 0),
        "f" => (f, v as i32, l as i32, "f", 0),
        "n" => (f, v as i32, l as i32, "n", 0),
        x => (f, v as i32, l as i32, "v", x.parse().expect("bad int")),
    }
}

// ---------------------------------------------------------------------------------------------------------------
// scripted clock

struct Script {
    dir: CncDir,
    c0: u64,
    entries: Vec<(Snap, u64)>,
    calls: usize,
}

#[cfg(has_clock_hook)]
pub fn scripted(rest: &str) -> String {
    let parts: Vec<&str> = rest.split('|').map(|p| p.trim()).collect();
    let timeout: u64 = parts[0].parse().expect("bad int");
    let c0: u64 = parts[1].parse().expect("bad int");
    let mut entries = Vec::new();
    for p in &parts[2..] {
        let w: Vec<&str> = p.split_whitespace().collect();
        let (f, v, l, _, h) = parse_snap(&w[0..4]);
        entries.push((Snap { f, v, l, h }, w[4].parse::<u64>().expect("bad int")));
    }
    if entries.is_empty() {
        entries.push((Snap { f: -1, v: 0, l: 0, h: 0 }, c0));
    }
    let dir = CncDir::new();
    let ctx = context(dir.dir.to_str().unwrap(), timeout);
    let script = Rc::new(RefCell::new(Script { dir, c0, entries, calls: 0 }));
    let s2 = script.clone();
    aeron_rs::verif_hook::set_clock(Some(Box::new(move || {
        let mut s = s2.borrow_mut();
        let i = s.calls;
        s.calls += 1;
        let n = s.entries.len();
        if i > n + 16 {
            std::panic::panic_any(Exhausted);
        }
        let snap = s.entries[i.min(n - 1)].0;
        s.dir.apply(&snap);
        if i == 0 {
            s.c0
        } else {
            s.entries[(i - 1).min(n - 1)].1
        }
    })));
    let r = std::panic::catch_unwind(std::panic::AssertUnwindSafe(|| Aeron::map_cnc_file(&ctx).map(|_| ())));
    aeron_rs::verif_hook::set_clock(None);
    let calls = script.borrow().calls;
    match r {
        Ok(res) => format!("({}, {})", kind_of(&res), calls),
        Err(p) if p.is::<Exhausted>() => format!("(KHang, {})", calls),
        Err(_) => format!("(KPanic, {})", calls),
    }
}

struct Exhausted;

#[cfg(not(has_clock_hook))]
pub fn scripted(_rest: &str) -> String {
    let _ = Script { dir: CncDir::new(), c0: 0, entries: Vec::new(), calls: 0 };
    let _ = Rc::new(RefCell::new(0));
    "NoHook".into()
}

// ---------------------------------------------------------------------------------------------------------------
// real time

fn resolve(s: (i64, i32, i32, &'static str, i64), now: u64, timeout: u64) -> Snap {
    let h = match s.3 {
        "z" => 0,
        "s" => now as i64 - 10 * timeout as i64 - 1000,
        "f" => now as i64 + 3_600_000,
        "n" => now as i64,
        _ => s.4,
    };
    Snap { f: s.0, v: s.1, l: s.2, h }
}

const SLACK_MS: u64 = 400;
const WATCHDOG_EXTRA_MS: u64 = 2500;

pub fn real_time(rest: &str) -> String {
    let w: Vec<&str> = rest.split_whitespace().collect();
    let timeout: u64 = w[0].parse().expect("bad int");
    let now = unix_time_ms();
    let first = resolve(parse_snap(&w[1..5]), now, timeout);
    let second = if w.len() > 5 && w[5] == "after" {
        Some((w[6].parse::<u64>().expect("bad int"), resolve(parse_snap(&w[7..11]), now, timeout)))
    } else {
        None
    };
    let mut dir = CncDir::new();
    dir.apply(&first);
    let dname = dir.dir.to_str().unwrap().to_string();
    let (tx, rx) = channel();
    let t0 = Instant::now();
    std::thread::spawn(move || {
        let ctx = context(&dname, timeout);
        let r = std::panic::catch_unwind(std::panic::AssertUnwindSafe(|| Aeron::map_cnc_file(&ctx).map(|_| ())));
        let _ = tx.send(match r {
            Ok(res) => kind_of(&res),
            Err(_) => "KPanic".into(),
        });
    });
    if let Some((after, snap)) = second {
        // the helper is this thread: the file changes `after` ms after the call started
        let due = Duration::from_millis(after);
        if let Some(d) = due.checked_sub(t0.elapsed()) {
            std::thread::sleep(d);
        }
        dir.apply(&snap);
    }
    let budget = Duration::from_millis(timeout + WATCHDOG_EXTRA_MS);
    let left = budget.checked_sub(t0.elapsed()).unwrap_or(Duration::from_millis(1));
    match rx.recv_timeout(left) {
        Ok(kind) => {
            let ms = t0.elapsed().as_millis() as u64;
            format!("({}, {})", kind, if ms <= timeout + SLACK_MS { 1 } else { 0 })
        }
        Err(_) => "(KHang, 0)".into(), // the thread stays behind, asleep most of the time
    }
}

// ---------------------------------------------------------------------------------------------------------------
// Aeron::new + Drop

pub fn aeron_new(rest: &str) -> String {
    let w: Vec<&str> = rest.split_whitespace().collect();
    let timeout: u64 = w[0].parse().expect("bad int");
    let invoker = w[1] == "inv";
    let now = unix_time_ms();
    // complete file: to-driver 1024 + 768, to-clients 1024 + 128, counters 8 x 512 metadata / 8 x 128 values, error log 1024
    let words: [i32; 5] = [1024 + 768, 1024 + 128, 8 * 512, 8 * 128, 1024];
    let total: i64 = META + words.iter().map(|x| *x as i64).sum::<i64>();
    let snap = resolve((total, 16, words[0], match w[2] { "s" => "s", "z" => "z", "n" => "n", _ => "f" }, 0), now, timeout);
    let mut dir = CncDir::new();
    dir.apply(&snap);
    dir.write_meta(&words, 5_000_000_000, now as i64, 4242);
    let dname = dir.dir.to_str().unwrap().to_string();
    let (tx, rx) = channel();
    let (tx2, rx2) = channel();
    let t0 = Instant::now();
    std::thread::spawn(move || {
        let mut ctx = context(&dname, timeout);
        ctx.set_use_conductor_agent_invoker(invoker);
        let r = std::panic::catch_unwind(std::panic::AssertUnwindSafe(|| Aeron::new(ctx)));
        match r {
            Ok(Ok(aeron)) => {
                let _ = tx.send("KOk".to_string());
                let works = std::panic::catch_unwind(std::panic::AssertUnwindSafe(|| {
                    let mut n = 0;
                    for _ in 0..3 {
                        if aeron.uses_agent_invoker() {
                            n += aeron.conductor_agent_invoker().invoke();
                        }
                        std::thread::sleep(Duration::from_millis(5));
                    }
                    n
                }));
                let d = std::panic::catch_unwind(std::panic::AssertUnwindSafe(move || drop(aeron)));
                let _ = tx2.send(if works.is_err() {
                    "InvokePanic"
                } else if d.is_ok() {
                    "DropOk"
                } else {
                    "DropPanic"
                });
            }
            Ok(Err(e)) => {
                let _ = tx.send(kind_of(&Err(e)));
                let _ = tx2.send("NoDrop");
            }
            Err(_) => {
                let _ = tx.send("KPanic".to_string());
                let _ = tx2.send("NoDrop");
            }
        }
    });
    let budget = Duration::from_millis(timeout + WATCHDOG_EXTRA_MS);
    let kind = match rx.recv_timeout(budget) {
        Ok(k) => k,
        Err(_) => return "(KHang, 0, NoDrop)".into(),
    };
    let ms = t0.elapsed().as_millis() as u64;
    let in_time = if ms <= timeout + SLACK_MS { 1 } else { 0 };
    let dropped = rx2.recv_timeout(Duration::from_millis(WATCHDOG_EXTRA_MS)).unwrap_or("DropHang");
    format!("({}, {}, {})", kind, in_time, dropped)
}
