//! AgentInvoker / AgentRunner with a scripted agent.  Events: GStart / GWork / GClose are calls of the agent's
//! on_start / do_work / on_close, GErr a call of the exception handler, `GIdle n` a call of idle_opt(n).
use std::collections::VecDeque;
use std::sync::atomic::{AtomicI64, Ordering};
use std::sync::mpsc::{channel, Sender};
use std::sync::{Arc, Mutex};
use std::time::Duration;

use aeron_rs::concurrent::agent_invoker::AgentInvoker;
use aeron_rs::concurrent::agent_runner::{Agent, AgentRunner};
use aeron_rs::concurrent::strategies::{BusySpinIdleStrategy, NoOpIdleStrategy, SleepingIdleStrategy, Strategy, YieldingIdleStrategy};
use aeron_rs::utils::errors::AeronError;

type Log = Arc<Mutex<Vec<String>>>;

#[derive(Clone)]
struct Work {
    result: Option<i32>,  // None: Err
    signals: Vec<bool>,   // sent on the stop channel during this do_work
}

struct Scripted {
    log: Log,
    start_err: bool,
    close_err: bool,
    work: VecDeque<Work>,
    tx: Option<Sender<bool>>,
    extra: usize,
}

struct ScriptOver;

impl Agent for Scripted {
    fn on_start(&mut self) -> Result<(), AeronError> {
        self.log.lock().unwrap().push("GStart".into());
        if self.start_err { Err(AeronError::NotConnected) } else { Ok(()) }
    }

    fn do_work(&mut self) -> Result<i32, AeronError> {
        self.log.lock().unwrap().push("GWork".into());
        match self.work.pop_front() {
            Some(w) => {
                if let Some(tx) = &self.tx {
                    for s in &w.signals {
                        let _ = tx.send(*s);
                    }
                }
                match w.result {
                    Some(n) => Ok(n),
                    None => Err(AeronError::BackPressured),
                }
            }
            None => {
                // script over: ask for the stop (a runner must honour it); a loop that ignores it is cut off
                self.extra += 1;
                if self.extra > 64 {
                    std::panic::panic_any(ScriptOver);
                }
                if let Some(tx) = &self.tx {
                    let _ = tx.send(true);
                }
                Ok(0)
            }
        }
    }

    fn on_close(&mut self) -> Result<(), AeronError> {
        self.log.lock().unwrap().push("GClose".into());
        if self.close_err { Err(AeronError::AdminAction) } else { Ok(()) }
    }
}

struct Recording {
    log: Log,
}

impl Strategy for Recording {
    fn idle_opt(&self, work_count: i32) {
        self.log.lock().unwrap().push(format!("GIdle ({})", work_count));
    }
    fn idle(&self) {
        self.log.lock().unwrap().push("GIdle (0)".into());
    }
    fn reset(&self) {}
}

fn parse_work(s: &str) -> VecDeque<Work> {
    let mut out = VecDeque::new();
    for item in s.split(',').map(|x| x.trim()).filter(|x| !x.is_empty()) {
        let (r, sig) = match item.split_once(':') {
            Some((r, sig)) => (r, sig),
            None => (item, ""),
        };
        let result = if r == "e" { None } else { Some(r.parse::<i32>().expect("bad int")) };
        out.push_back(Work { result, signals: sig.chars().map(|c| c == 't').collect() });
    }
    out
}

fn drain(log: &Log) -> String {
    let v: Vec<String> = std::mem::take(&mut *log.lock().unwrap());
    format!("[{}]", v.join("; "))
}

/// `inv S C W | op op ...` with op = s | i | c | q
pub fn invoker(rest: &str) -> String {
    let (head, ops) = rest.split_once('|').expect("inv: no |");
    let h: Vec<&str> = head.split_whitespace().collect();
    let log: Log = Arc::new(Mutex::new(Vec::new()));
    let agent = Arc::new(Mutex::new(Scripted {
        log: log.clone(),
        start_err: h[0] == "1",
        close_err: h[1] == "1",
        work: parse_work(h.get(2).copied().unwrap_or("")),
        tx: None,
        extra: 0,
    }));
    let hl = log.clone();
    let handler = move |_e: AeronError| hl.lock().unwrap().push("GErr".into());
    let mut inv = AgentInvoker::new(agent, Box::new(handler));
    let mut out = Vec::new();
    for op in ops.split_whitespace() {
        let r = vcommon::catch(|| match op {
            "s" => {
                inv.start();
                0
            }
            "i" => inv.invoke() as i64,
            "c" => {
                inv.close();
                0
            }
            "q" => (inv.is_started() as i64) * 4 + (inv.is_running() as i64) * 2 + inv.is_closed() as i64,
            _ => {
                eprintln!("unknown case kind inv op {}", op);
                std::process::exit(3);
            }
        });
        let ev = drain(&log);
        out.push(match r {
            Ok(v) => format!("(Ok ({}), {})", v, ev),
            Err(()) => format!("(Panic, {})", ev),
        });
    }
    format!("[{}]", out.join("; "))
}

/// `runner S C pre | r:sig, r:sig, ...`: `AgentRunner::run` on this thread; `pre` = signals already queued (t/f, `-` none).
pub fn runner(rest: &str) -> String {
    let (head, script) = rest.split_once('|').expect("runner: no |");
    let h: Vec<&str> = head.split_whitespace().collect();
    let log: Log = Arc::new(Mutex::new(Vec::new()));
    let (tx, rx) = channel::<bool>();
    for c in h.get(2).copied().unwrap_or("-").chars() {
        if c == 't' || c == 'f' {
            tx.send(c == 't').unwrap();
        }
    }
    let agent = Arc::new(Mutex::new(Scripted {
        log: log.clone(),
        start_err: h[0] == "1",
        close_err: h[1] == "1",
        work: parse_work(script),
        tx: Some(tx),
        extra: 0,
    }));
    let hl = log.clone();
    let handler = move |_e: AeronError| hl.lock().unwrap().push("GErr".into());
    let mut runner = AgentRunner::new(agent, Arc::new(Recording { log: log.clone() }), Box::new(handler), "scripted");
    let r = std::panic::catch_unwind(std::panic::AssertUnwindSafe(|| runner.run(rx)));
    let ev = drain(&log);
    match r {
        Ok(()) => format!("(Ok (0), {})", ev),
        Err(p) if p.is::<ScriptOver>() => format!("(Hang, {})", ev),
        Err(_) => format!("(Panic, {})", ev),
    }
}

// ---------------------------------------------------------------------------------------------------------------

struct Counting {
    starts: Arc<AtomicI64>,
    works: Arc<AtomicI64>,
    closes: Arc<AtomicI64>,
    pattern: char,
}

impl Agent for Counting {
    fn on_start(&mut self) -> Result<(), AeronError> {
        self.starts.fetch_add(1, Ordering::SeqCst);
        Ok(())
    }
    fn do_work(&mut self) -> Result<i32, AeronError> {
        let n = self.works.fetch_add(1, Ordering::SeqCst);
        match self.pattern {
            '0' => Ok(0),
            '1' => Ok(1),
            'e' => Err(AeronError::BackPressured),
            _ => match n % 3 {
                0 => Ok(0),
                1 => Ok(2),
                _ => Err(AeronError::BackPressured),
            },
        }
    }
    fn on_close(&mut self) -> Result<(), AeronError> {
        self.closes.fetch_add(1, Ordering::SeqCst);
        Ok(())
    }
}

/// `thr <strategy> <work> <ms>`: observation `(stop, on_start calls, on_close calls, worked, handler called)`
pub fn threaded(rest: &str) -> String {
    let w: Vec<&str> = rest.split_whitespace().collect();
    let ms: u64 = w[2].parse().expect("bad int");
    let starts = Arc::new(AtomicI64::new(0));
    let works = Arc::new(AtomicI64::new(0));
    let closes = Arc::new(AtomicI64::new(0));
    let errs = Arc::new(AtomicI64::new(0));
    let agent = Arc::new(Mutex::new(Counting {
        starts: starts.clone(),
        works: works.clone(),
        closes: closes.clone(),
        pattern: w[1].chars().next().unwrap(),
    }));
    let e2 = errs.clone();
    let handler = move |_e: AeronError| {
        e2.fetch_add(1, Ordering::SeqCst);
    };
    fn go<I: 'static + Send + Sync + Strategy>(
        agent: Arc<Mutex<Counting>>,
        strategy: I,
        handler: impl Fn(AeronError) + Clone + Send + 'static,
        ms: u64,
        works: Arc<AtomicI64>,
    ) -> &'static str {
        let runner = AgentRunner::new(agent, Arc::new(strategy), Box::new(handler), "thr");
        let mut stopper = match AgentRunner::start(runner) {
            Ok(s) => s,
            Err(_) => return "StartErr",
        };
        // let the agent thread get going: at least four duty cycles (or `ms` for a thread that has died), whatever the load
        let t0 = std::time::Instant::now();
        while works.load(Ordering::SeqCst) < 4 && t0.elapsed() < Duration::from_millis(ms.max(150) * 10) {
            std::thread::sleep(Duration::from_millis(2));
            if works.load(Ordering::SeqCst) >= 1 && t0.elapsed() >= Duration::from_millis(ms.max(150)) {
                break;
            }
        }
        std::thread::sleep(Duration::from_millis(ms.min(30)));
        let (tx, rx) = channel();
        std::thread::spawn(move || {
            let r = std::panic::catch_unwind(std::panic::AssertUnwindSafe(|| stopper.stop()));
            let _ = tx.send(if r.is_ok() { "StopOk" } else { "StopPanic" });
        });
        rx.recv_timeout(Duration::from_millis(2500)).unwrap_or("StopHang")
    }
    let stop = match w[0] {
        "sleep1" => go(agent, SleepingIdleStrategy::new(1), handler, ms, works.clone()),
        "sleep20" => go(agent, SleepingIdleStrategy::new(20), handler, ms, works.clone()),
        "yield" => go(agent, YieldingIdleStrategy {}, handler, ms, works.clone()),
        "spin" => go(agent, BusySpinIdleStrategy::default(), handler, ms, works.clone()),
        "noop" => go(agent, NoOpIdleStrategy {}, handler, ms, works.clone()),
        other => {
            eprintln!("unknown case kind strategy {}", other);
            std::process::exit(3);
        }
    };
    format!(
        "({}, {}, {}, {}, {})",
        stop,
        starts.load(Ordering::SeqCst),
        closes.load(Ordering::SeqCst),
        (works.load(Ordering::SeqCst) > 0) as i32,
        (errs.load(Ordering::SeqCst) > 0) as i32
    )
}
