//! `cnc_file_descriptor`: the five regions and the meta-data getters on a file with given meta-data words.
//! Observation `([r1; r2; r3; r4; r5], g)`: r = `Ok (offset from the start of the mapping, capacity)` or `Panic`,
//! g = `Ok (version, client liveness time-out, start time stamp, pid, META_DATA_LENGTH, memory_size)` or `Panic`.
use std::os::unix::fs::FileExt;

use aeron_rs::cnc_file_descriptor as cnc;
use aeron_rs::concurrent::atomic_buffer::AtomicBuffer;
use aeron_rs::utils::memory_mapped_file::MemoryMappedFile;

use crate::connect::CncDir;

pub fn run(rest: &str) -> String {
    let a = vcommon::ints(&rest.split_whitespace().collect::<Vec<_>>());
    let flen = a[0];
    let dir = CncDir::new();
    let path = dir.path();
    let f = std::fs::OpenOptions::new().read(true).write(true).create(true).truncate(true).open(&path).expect("create");
    f.set_len(flen as u64).expect("set_len");
    let mut meta = Vec::new();
    for w in &a[1..7] {
        meta.extend_from_slice(&(*w as i32).to_le_bytes());
    }
    for w in &a[7..10] {
        meta.extend_from_slice(&w.to_le_bytes());
    }
    let n = (flen.max(0) as usize).min(meta.len());
    if n > 0 {
        f.write_at(&meta[..n], 0).expect("write meta");
    }
    let file = match MemoryMappedFile::map_existing(path.to_str().unwrap().to_string(), false) {
        Ok(m) => m,
        Err(_) => return "MapErr".into(),
    };
    let base = file.atomic_buffer(0, 0).buffer() as isize;
    let region = |g: &dyn Fn(&MemoryMappedFile) -> AtomicBuffer| -> String {
        match vcommon::catch(|| g(&file)) {
            Ok(b) => format!("Ok ({}, {})", b.buffer() as isize - base, b.capacity()),
            Err(()) => "Panic".into(),
        }
    };
    let rs = [
        region(&cnc::create_to_driver_buffer),
        region(&cnc::create_to_clients_buffer),
        region(&cnc::create_counter_metadata_buffer),
        region(&cnc::create_counter_values_buffer),
        region(&cnc::create_error_log_buffer),
    ];
    let g = match vcommon::catch(|| {
        (cnc::cnc_version_volatile(&file), cnc::client_liveness_timeout(&file), cnc::start_timestamp(&file), cnc::pid(&file))
    }) {
        Ok((v, c, s, p)) => format!("Ok ({}, {}, {}, {}, {}, {})", v, c, s, p, *cnc::META_DATA_LENGTH, file.memory_size()),
        Err(()) => "Panic".into(),
    };
    format!("([{}], {})", rs.join("; "), g)
}
