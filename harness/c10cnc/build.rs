//! Finds out whether the repository copy this harness is built against carries the clock hook
//! (`verif_hook::clock_override`, hooks/cnc-clock.diff). Without it the scripted-clock cases answer `NoHook`.
use std::path::PathBuf;

fn main() {
    println!("cargo:rustc-check-cfg=cfg(has_clock_hook)");
    let dir = PathBuf::from(std::env::var("CARGO_MANIFEST_DIR").unwrap());
    let toml = std::fs::read_to_string(dir.join("Cargo.toml")).unwrap();
    let mut repo = String::from("/repo");
    for line in toml.lines() {
        if line.trim_start().starts_with("aeron-rs") {
            if let Some(i) = line.find("path = \"") {
                let rest = &line[i + 8..];
                if let Some(j) = rest.find('"') {
                    repo = rest[..j].to_string();
                }
            }
        }
    }
    let hook = PathBuf::from(&repo).join("src/verif_hook.rs");
    println!("cargo:rerun-if-changed={}", hook.display());
    println!("cargo:rerun-if-changed=Cargo.toml");
    let has = std::fs::read_to_string(&hook).map(|s| s.contains("pub fn clock_override")).unwrap_or(false);
    if has {
        println!("cargo:rustc-cfg=has_clock_hook");
    }
}
