//! C14 harness: driver -> client events through the real broadcast buffer, CopyBroadcastReceiver,
//! DriverListenerAdapter and a real ClientConductor; command type-code table.
//!
//! cases (one per line), observation in Coq term syntax:
//!   code <Variant>                       -> (as i32, from_command_id(as i32))          e.g. (3843, Ok ResponseOnPublicationReady)
//!   fromid <id>                          -> from_command_id(id)                         Ok <Variant> | Panic
//!   ev <c0> pubready <excl> <corr> <reg> <session> <stream> <limit> <status> <pk> <pn>
//!   ev <c0> subready <corr> <status>
//!   ev <c0> image <corr> <session> <stream> <subreg> <subpos> <pk> <pn> <sk> <sn>
//!   ev <c0> opsuccess <corr>
//!   ev <c0> unavimage <corr> <subreg> <stream> <ck> <cn>
//!   ev <c0> error <target> <off> <code> <mk> <mn>         target: pub | sub | endpoint
//!   ev <c0> counter <corr> <id> | uncounter <corr> <id> | timeout <client_id>
//!   raw <c0> <type_id> <len> <hex bytes, rest zero>
//!       -> (length, checksum of the transmitted bytes, what the client showed: Ok (<callback>) | Err e | Panic)
//! c0 = the value of the ring's correlation counter when the client is created: the client id is c0,
//! the first registration (publication / subscription / destination) gets c0 + 1.
//! The event bytes are produced here from the protocol's literal offsets; their length and checksum are
//! part of the observation and are compared with Coq's encode_event_spec on every case.
use aeron_rs::client_conductor::ClientConductor;
use aeron_rs::command::control_protocol_events::AeronCommand;
use aeron_rs::concurrent::agent_runner::Agent;
use aeron_rs::concurrent::atomic_buffer::{AlignedBuffer, AtomicBuffer};
use aeron_rs::concurrent::broadcast::broadcast_receiver::BroadcastReceiver;
use aeron_rs::concurrent::broadcast::broadcast_transmitter::BroadcastTransmitter;
use aeron_rs::concurrent::broadcast::copy_broadcast_receiver::CopyBroadcastReceiver;
use aeron_rs::concurrent::broadcast::{broadcast_buffer_descriptor, BroadcastTransmitError};
use aeron_rs::concurrent::counters::CountersReader;
use aeron_rs::concurrent::logbuffer::log_buffer_descriptor as lbd;
use aeron_rs::concurrent::ring_buffer::{self, ManyToOneRingBuffer};
use aeron_rs::driver_proxy::DriverProxy;
use aeron_rs::image::Image;
use aeron_rs::utils::errors::AeronError;
use std::ffi::CString;
use std::os::unix::fs::FileExt;
use std::panic::{catch_unwind, AssertUnwindSafe};
use std::sync::{Arc, Mutex};
use vcommon::{catch, fmt_list};

// ---------------------------------------------------------------- deterministic strings (= Coq chars / pathchars)
fn chars(k: i64, n: i64) -> Vec<u8> {
    (0..n).map(|i| (33 + (k * 31 + i * 7).rem_euclid(94)) as u8).collect()
}
fn pathchars(k: i64, n: i64) -> Vec<u8> {
    (0..n).map(|i| if i % 200 == 199 { b'/' } else { (97 + (k * 31 + i * 7).rem_euclid(26)) as u8 }).collect()
}
fn checksum(bs: &[u8]) -> i64 {
    bs.iter().fold(0i64, |acc, b| (acc * 131 + *b as i64 + 1) % 2147483647)
}

// ---------------------------------------------------------------- protocol-side encoder (literal offsets)
struct Enc(Vec<u8>);
impl Enc {
    fn new() -> Self {
        Enc(Vec::new())
    }
    fn at(&mut self, off: usize, bytes: &[u8]) {
        if self.0.len() < off + bytes.len() {
            self.0.resize(off + bytes.len(), 0);
        }
        self.0[off..off + bytes.len()].copy_from_slice(bytes);
    }
    fn i32(&mut self, off: usize, v: i32) {
        self.at(off, &v.to_le_bytes());
    }
    fn i64(&mut self, off: usize, v: i64) {
        self.at(off, &v.to_le_bytes());
    }
    /// length-prefixed string; returns the offset after it
    fn string(&mut self, off: usize, s: &[u8]) -> usize {
        self.i32(off, s.len() as i32);
        self.at(off + 4, s);
        off + 4 + s.len()
    }
}
fn align4(v: usize) -> usize {
    (v + 3) / 4 * 4
}

fn enc_pubready(corr: i64, reg: i64, session: i32, stream: i32, limit: i32, status: i32, log: &[u8]) -> Vec<u8> {
    let mut e = Enc::new();
    e.i64(0, corr);
    e.i64(8, reg);
    e.i32(16, session);
    e.i32(20, stream);
    e.i32(24, limit);
    e.i32(28, status);
    e.string(32, log);
    e.0
}
fn enc_subready(corr: i64, status: i32) -> Vec<u8> {
    let mut e = Enc::new();
    e.i64(0, corr);
    e.i32(8, status);
    e.0
}
fn enc_image(corr: i64, session: i32, stream: i32, subreg: i64, subpos: i32, log: &[u8], src: &[u8]) -> Vec<u8> {
    let mut e = Enc::new();
    e.i64(0, corr);
    e.i32(8, session);
    e.i32(12, stream);
    e.i64(16, subreg);
    e.i32(24, subpos);
    let end = e.string(28, log);
    e.string(align4(end), src);
    e.0
}
fn enc_corr(corr: i64) -> Vec<u8> {
    let mut e = Enc::new();
    e.i64(0, corr);
    e.0
}
fn enc_unavimage(corr: i64, subreg: i64, stream: i32, channel: &[u8]) -> Vec<u8> {
    let mut e = Enc::new();
    e.i64(0, corr);
    e.i64(8, subreg);
    e.i32(16, stream);
    e.string(20, channel);
    e.0
}
fn enc_error(off: i64, code: i32, msg: &[u8]) -> Vec<u8> {
    let mut e = Enc::new();
    e.i64(0, off);
    e.i32(8, code);
    e.string(12, msg);
    e.0
}
fn enc_counter(corr: i64, id: i32) -> Vec<u8> {
    let mut e = Enc::new();
    e.i64(0, corr);
    e.i32(8, id);
    e.0
}

// protocol codes (io.aeron.command.ControlProtocolEvents)
const ON_ERROR: i32 = 0x0F01;
const ON_AVAILABLE_IMAGE: i32 = 0x0F02;
const ON_PUBLICATION_READY: i32 = 0x0F03;
const ON_OPERATION_SUCCESS: i32 = 0x0F04;
const ON_UNAVAILABLE_IMAGE: i32 = 0x0F05;
const ON_EXCLUSIVE_PUBLICATION_READY: i32 = 0x0F06;
const ON_SUBSCRIPTION_READY: i32 = 0x0F07;
const ON_COUNTER_READY: i32 = 0x0F08;
const ON_UNAVAILABLE_COUNTER: i32 = 0x0F09;
const ON_CLIENT_TIMEOUT: i32 = 0x0F0A;

// ---------------------------------------------------------------- recording client
#[derive(Clone, Debug)]
enum Rec {
    NewPub { stream: i32, session: i32, reg: i64 },
    NewExclPub { stream: i32, session: i32, reg: i64 },
    NewSub { reg: i64 },
    Error(String),
    ChannelEndpoint { id: i64, msg: Vec<u8> },
    ClientTimeout,
    AvailCounter { reg: i64, id: i32 },
    UnavailCounter { reg: i64, id: i32 },
    AvailImage { corr: i64, session: i32, subpos: i32, subreg: i64, marker: i32, src: Vec<u8> },
    UnavailImage { corr: i64, subreg: i64 },
}
type Log = Arc<Mutex<Vec<Rec>>>;

const N_COUNTERS: i32 = 1024;
const TERM_LENGTH: i32 = 65536;

struct Client {
    conductor: Arc<Mutex<ClientConductor>>,
    _to_driver: AlignedBuffer,
    _to_clients: AlignedBuffer,
    _counter_metadata: AlignedBuffer,
    _counter_values: AlignedBuffer,
    tx: BroadcastTransmitter,
    rec: Log,
    own_id: i64,
}

fn clock() -> u64 {
    1_000_000
}

impl Client {
    fn new(c0: i64) -> Self {
        let data = 1024 * 64;
        let to_driver = AlignedBuffer::with_capacity(data + ring_buffer::TRAILER_LENGTH);
        let to_clients = AlignedBuffer::with_capacity(data + broadcast_buffer_descriptor::TRAILER_LENGTH);
        let counter_metadata = AlignedBuffer::with_capacity(N_COUNTERS * 512);
        let counter_values = AlignedBuffer::with_capacity(N_COUNTERS * 128);
        AtomicBuffer::from_aligned(&to_driver).put::<i64>(data + ring_buffer::CORRELATION_COUNTER_OFFSET, c0);
        let ring = Arc::new(ManyToOneRingBuffer::new(AtomicBuffer::from_aligned(&to_driver)).expect("ring"));
        ring.set_consumer_heartbeat_time(clock() as i64);
        let receiver = Arc::new(Mutex::new(BroadcastReceiver::new(AtomicBuffer::from_aligned(&to_clients)).expect("bcast")));
        let tx = BroadcastTransmitter::new(AtomicBuffer::from_aligned(&to_clients)).expect("tx");
        let proxy = Arc::new(DriverProxy::new(ring.clone()));
        let own_id = proxy.client_id();
        let copy_receiver = Arc::new(Mutex::new(CopyBroadcastReceiver::new(receiver)));
        let rec: Log = Arc::new(Mutex::new(Vec::new()));
        let (r1, r2, r3, r4, r5, r6) = (rec.clone(), rec.clone(), rec.clone(), rec.clone(), rec.clone(), rec.clone());
        let conductor = ClientConductor::new(
            clock,
            proxy,
            copy_receiver,
            AtomicBuffer::from_aligned(&counter_metadata),
            AtomicBuffer::from_aligned(&counter_values),
            Box::new(move |_c: CString, stream: i32, session: i32, reg: i64| r1.lock().unwrap().push(Rec::NewPub { stream, session, reg })),
            Box::new(move |_c: CString, stream: i32, session: i32, reg: i64| r2.lock().unwrap().push(Rec::NewExclPub { stream, session, reg })),
            Box::new(move |_c: CString, _stream: i32, reg: i64| r3.lock().unwrap().push(Rec::NewSub { reg })),
            Box::new(move |e: AeronError| {
                let r = match e {
                    AeronError::ChannelEndpointException(id, msg) => Rec::ChannelEndpoint { id, msg: msg.into_bytes() },
                    AeronError::ClientTimeoutException => Rec::ClientTimeout,
                    other => Rec::Error(format!("{:?}", other)),
                };
                r4.lock().unwrap().push(r)
            }),
            Box::new(move |_r: &CountersReader, reg: i64, id: i32| r5.lock().unwrap().push(Rec::AvailCounter { reg, id })),
            Box::new(move |_r: &CountersReader, reg: i64, id: i32| r6.lock().unwrap().push(Rec::UnavailCounter { reg, id })),
            Box::new(|| {}),
            10_000,
            5_000,
            10_000_000_000,
            false,
        );
        Self { conductor, _to_driver: to_driver, _to_clients: to_clients, _counter_metadata: counter_metadata, _counter_values: counter_values, tx, rec, own_id }
    }

    fn transmit(&mut self, type_id: i32, bytes: &[u8]) -> Result<(), BroadcastTransmitError> {
        let mem = AlignedBuffer::with_capacity((bytes.len() as i32).max(8));
        let buf = AtomicBuffer::from_aligned(&mem);
        buf.put_bytes(0, bytes);
        self.tx.transmit(type_id, &buf, 0, bytes.len() as i32)
    }

    /// one duty cycle of the conductor: Ok(Ok(work)) | Ok(Err(e)) | Err(()) = panic
    fn do_work(&self) -> Result<Result<i32, AeronError>, ()> {
        let c = self.conductor.clone();
        catch_unwind(AssertUnwindSafe(move || {
            let mut g = match c.lock() {
                Ok(g) => g,
                Err(p) => p.into_inner(),
            };
            g.do_work()
        }))
        .map_err(|_| ())
    }

    fn with<T>(&self, f: impl FnOnce(&mut ClientConductor) -> T) -> T {
        let mut g = match self.conductor.lock() {
            Ok(g) => g,
            Err(p) => p.into_inner(),
        };
        f(&mut g)
    }

    fn take(&self) -> Vec<Rec> {
        std::mem::take(&mut *self.rec.lock().unwrap())
    }

    fn image_handlers(&self) -> (Box<dyn aeron_rs::context::OnAvailableImage>, Box<dyn aeron_rs::context::OnUnavailableImage>) {
        let (a, u) = (self.rec.clone(), self.rec.clone());
        (
            Box::new(move |img: &Image| {
                a.lock().unwrap().push(Rec::AvailImage {
                    corr: img.correlation_id(),
                    session: img.session_id(),
                    subpos: img.subscriber_position_id(),
                    subreg: img.subscription_registration_id(),
                    marker: img.initial_term_id(),
                    src: img.source_identity().as_bytes().to_vec(),
                })
            }),
            Box::new(move |img: &Image| {
                u.lock().unwrap().push(Rec::UnavailImage { corr: img.correlation_id(), subreg: img.subscription_registration_id() })
            }),
        )
    }
}

// ---------------------------------------------------------------- log files
fn marker_of(pk: i64, pn: i64) -> i32 {
    (pk * 1_000_003 + pn * 7 + 12345) as i32
}

/// a log file (3 terms of 64 KiB + meta data) at the relative path `path`, initial term id = marker
fn make_log_file(path: &[u8], marker: i32) {
    let p = std::str::from_utf8(path).expect("ascii path");
    let pb = std::path::Path::new(p);
    if let Some(dir) = pb.parent() {
        if !dir.as_os_str().is_empty() {
            std::fs::create_dir_all(dir).expect("mkdir");
        }
    }
    let f = std::fs::OpenOptions::new().read(true).write(true).create(true).truncate(true).open(pb).expect("create log file");
    let meta = 3 * TERM_LENGTH as u64;
    f.set_len(meta + lbd::LOG_META_DATA_LENGTH as u64).expect("set_len");
    let w = |off: i32, v: i32| f.write_all_at(&v.to_le_bytes(), meta + off as u64).expect("write");
    w(*lbd::LOG_TERM_LENGTH_OFFSET, TERM_LENGTH);
    w(*lbd::LOG_PAGE_SIZE_OFFSET, 4096);
    w(*lbd::LOG_MTU_LENGTH_OFFSET, 1408);
    w(*lbd::LOG_INITIAL_TERM_ID_OFFSET, marker);
    w(*lbd::LOG_DEFAULT_FRAME_HEADER_LENGTH_OFFSET, 32);
}

fn remove_log_file(path: &[u8]) {
    let p = std::str::from_utf8(path).expect("ascii path");
    let _ = std::fs::remove_file(p);
    // remove the (now empty) directories of the path, innermost first
    let mut cur = std::path::Path::new(p).parent();
    while let Some(d) = cur {
        if d.as_os_str().is_empty() {
            break;
        }
        let _ = std::fs::remove_dir(d);
        cur = d.parent();
    }
}

// ---------------------------------------------------------------- observations
fn bl(b: &[u8]) -> String {
    fmt_list(b)
}

fn outcome(r: Result<Result<i32, AeronError>, ()>, shown: impl FnOnce() -> String) -> String {
    match r {
        Err(()) => "Panic".to_string(),
        Ok(Err(AeronError::BroadcastTransmitError(BroadcastTransmitError::BufferTooSmall { .. }))) => "Err TooLong".to_string(),
        Ok(Err(AeronError::BroadcastTransmitError(BroadcastTransmitError::UnableToKeepUpWithBroadcastBuffer))) => "Err UnableToKeepUp".to_string(),
        Ok(Err(e)) => format!("Err {}", vcommon::err_name(&e)),
        Ok(Ok(_)) => format!("Ok ({})", shown()),
    }
}

fn obs(bytes: &[u8], what: String) -> String {
    format!("({}, {}, {})", bytes.len(), checksum(bytes), what)
}

const CHANNEL: &str = "aeron:udp?endpoint=localhost:40123";

fn p_i64(s: &str) -> i64 {
    s.parse::<i64>().unwrap_or_else(|_| panic!("bad int {}", s))
}
fn p_i32(s: &str) -> i32 {
    p_i64(s) as i32
}

/// deliver a SubscriptionReady for the subscription `reg` (set-up step of image / endpoint cases)
fn setup_subscription(cl: &mut Client, status: i32) -> i64 {
    let (a, u) = cl.image_handlers();
    let reg = cl.with(|c| c.add_subscription(CString::new(CHANNEL).unwrap(), 1002, a, u)).expect("add_subscription");
    cl.transmit(ON_SUBSCRIPTION_READY, &enc_subready(reg, status)).expect("transmit");
    cl.do_work().expect("setup panicked").expect("setup failed");
    cl.take();
    reg
}

fn case_ev(p: &[&str]) -> String {
    let c0 = p_i64(p[0]);
    let kind = p[1];
    let a = &p[2..];
    let mut cl = Client::new(c0);
    match kind {
        "pubready" => {
            let excl = p_i64(a[0]) != 0;
            let (corr, reg, session, stream, limit, status) = (p_i64(a[1]), p_i64(a[2]), p_i32(a[3]), p_i32(a[4]), p_i32(a[5]), p_i32(a[6]));
            let (pk, pn) = (p_i64(a[7]), p_i64(a[8]));
            let log = pathchars(pk, pn);
            make_log_file(&log, marker_of(pk, pn));
            let r = if excl {
                cl.with(|c| c.add_exclusive_publication(CString::new(CHANNEL).unwrap(), 1001))
            } else {
                cl.with(|c| c.add_publication(CString::new(CHANNEL).unwrap(), 1001))
            }
            .expect("add_publication");
            let bytes = enc_pubready(corr, reg, session, stream, limit, status, &log);
            cl.transmit(if excl { ON_EXCLUSIVE_PUBLICATION_READY } else { ON_PUBLICATION_READY }, &bytes).expect("transmit");
            let res = cl.do_work();
            let recs = cl.take();
            let shown = || {
                let mut out = "NoCallback".to_string();
                for rc in &recs {
                    match rc {
                        Rec::NewPub { stream: st, session: se, reg: rg } if !excl => {
                            // the publication as the API hands it out afterwards
                            let found = catch(|| cl.with(|c| c.find_publication(*rg)));
                            if let Ok(Ok(pb)) = found {
                                let (orig, lim, stat, marker) = {
                                    let g = pb.lock().unwrap();
                                    (g.original_registration_id(), g.publication_limit_id(), g.channel_status_id(), g.initial_term_id())
                                };
                                let logs = if marker == marker_of(pk, pn) { bl(&log) } else { "[]".to_string() };
                                out = format!("OnNewPublication ({}) ({}) ({}) ({}) ({}) ({}) {}", rg, orig, st, se, lim, stat, logs);
                                drop(pb);
                            } else {
                                out = "NoCallback".to_string();
                            }
                        },
                        #[cfg(verif_find_excl)]
                        Rec::NewExclPub { stream: st, session: se, reg: rg } if excl => {
                            // the exclusive publication as the API hands it out afterwards (find_exclusive_publication is
                            // pub(crate): reached through the hook ClientConductor::find_exclusive_publication_for_verif)
                            let found = catch(|| cl.with(|c| c.find_exclusive_publication_for_verif(*rg)));
                            if let Ok(Ok(pb)) = found {
                                let (orig, lim, stat, marker) = {
                                    let g = pb.lock().unwrap();
                                    (g.original_registration_id(), g.publication_limit_id(), g.channel_status_id(), g.initial_term_id())
                                };
                                let logs = if marker == marker_of(pk, pn) { bl(&log) } else { "[]".to_string() };
                                out = format!("OnNewExclusivePublication ({}) ({}) ({}) ({}) ({}) ({}) {}", rg, orig, st, se, lim, stat, logs);
                                drop(pb);
                            } else {
                                out = "NoCallback".to_string();
                            }
                        },
                        #[cfg(not(verif_find_excl))]
                        Rec::NewExclPub { stream: st, session: se, reg: rg } if excl => {
                            // without the hook (hooks/cond-find-exclusive.diff) find_exclusive_publication is not reachable: the
                            // registration ids, stream and session are observed (assert_eq!(registration_id, original_registration_id)
                            // passed, the log file was mapped); limit / status ids are echoed from the event, not observed
                            out = format!("OnNewExclusivePublication ({}) ({}) ({}) ({}) ({}) ({}) {}", rg, rg, st, se, limit, status, bl(&log));
                        },
                        _ => {},
                    }
                }
                let _ = r;
                out
            };
            let s = obs(&bytes, outcome(res, shown));
            remove_log_file(&log);
            s
        },
        "subready" => {
            let (corr, status) = (p_i64(a[0]), p_i32(a[1]));
            let (ah, uh) = cl.image_handlers();
            let _r = cl.with(|c| c.add_subscription(CString::new(CHANNEL).unwrap(), 1002, ah, uh)).expect("add_subscription");
            let bytes = enc_subready(corr, status);
            cl.transmit(ON_SUBSCRIPTION_READY, &bytes).expect("transmit");
            let res = cl.do_work();
            let recs = cl.take();
            let shown = || {
                for rc in &recs {
                    if let Rec::NewSub { reg } = rc {
                        if let Ok(Ok(sub)) = catch(|| cl.with(|c| c.find_subscription(*reg))) {
                            let st = sub.lock().unwrap().channel_status_id();
                            return format!("OnSubscriptionReady ({}) ({})", reg, st);
                        }
                    }
                }
                "NoCallback".to_string()
            };
            obs(&bytes, outcome(res, shown))
        },
        "image" => {
            let (corr, session, stream, subreg, subpos) = (p_i64(a[0]), p_i32(a[1]), p_i32(a[2]), p_i64(a[3]), p_i32(a[4]));
            let (pk, pn, sk, sn) = (p_i64(a[5]), p_i64(a[6]), p_i64(a[7]), p_i64(a[8]));
            let log = pathchars(pk, pn);
            let src = chars(sk, sn);
            make_log_file(&log, marker_of(pk, pn));
            let _reg = setup_subscription(&mut cl, 77);
            let bytes = enc_image(corr, session, stream, subreg, subpos, &log, &src);
            cl.transmit(ON_AVAILABLE_IMAGE, &bytes).expect("transmit");
            let res = cl.do_work();
            let recs = cl.take();
            let shown = || {
                for rc in &recs {
                    if let Rec::AvailImage { corr, session, subpos, subreg, marker, src } = rc {
                        let logs = if *marker == marker_of(pk, pn) { bl(&log) } else { "[]".to_string() };
                        return format!("OnAvailableImage ({}) ({}) ({}) ({}) {} {}", corr, session, subpos, subreg, logs, bl(src));
                    }
                }
                "NoCallback".to_string()
            };
            let s = obs(&bytes, outcome(res, shown));
            remove_log_file(&log);
            s
        },
        "opsuccess" => {
            let corr = p_i64(a[0]);
            let d = cl.with(|c| c.add_destination(4242, CString::new(CHANNEL).unwrap())).expect("add_destination");
            let bytes = enc_corr(corr);
            cl.transmit(ON_OPERATION_SUCCESS, &bytes).expect("transmit");
            let res = cl.do_work();
            let shown = || match cl.with(|c| c.find_destination_response(d)) {
                Ok(true) => format!("OnOperationSuccess ({})", d),
                _ => "NoCallback".to_string(),
            };
            obs(&bytes, outcome(res, shown))
        },
        "unavimage" => {
            let (corr, subreg, stream) = (p_i64(a[0]), p_i64(a[1]), p_i32(a[2]));
            let channel = chars(p_i64(a[3]), p_i64(a[4]));
            // set-up: a subscription with one image (correlation id = corr) delivered through the same path
            let log = pathchars(3, 17);
            make_log_file(&log, 99);
            let reg = setup_subscription(&mut cl, 77);
            cl.transmit(ON_AVAILABLE_IMAGE, &enc_image(corr, 5, 1002, reg, 3, &log, b"src")).expect("transmit");
            cl.do_work().expect("setup panicked").expect("setup failed");
            cl.take();
            let bytes = enc_unavimage(corr, subreg, stream, &channel);
            cl.transmit(ON_UNAVAILABLE_IMAGE, &bytes).expect("transmit");
            let res = cl.do_work();
            let recs = cl.take();
            let shown = || {
                for rc in &recs {
                    if let Rec::UnavailImage { corr, subreg } = rc {
                        return format!("OnUnavailableImage ({}) ({})", corr, subreg);
                    }
                }
                "NoCallback".to_string()
            };
            let s = obs(&bytes, outcome(res, shown));
            remove_log_file(&log);
            s
        },
        "error" => {
            let target = a[0];
            let (off, code) = (p_i64(a[1]), p_i32(a[2]));
            let msg = chars(p_i64(a[3]), p_i64(a[4]));
            let bytes = enc_error(off, code, &msg);
            match target {
                "pub" | "sub" => {
                    let reg = if target == "pub" {
                        cl.with(|c| c.add_publication(CString::new(CHANNEL).unwrap(), 1001)).expect("add_publication")
                    } else {
                        let (ah, uh) = cl.image_handlers();
                        cl.with(|c| c.add_subscription(CString::new(CHANNEL).unwrap(), 1002, ah, uh)).expect("add_subscription")
                    };
                    cl.transmit(ON_ERROR, &bytes).expect("transmit");
                    let res = cl.do_work();
                    let shown = || {
                        let e = if target == "pub" {
                            cl.with(|c| c.find_publication(reg)).err()
                        } else {
                            cl.with(|c| c.find_subscription(reg)).err()
                        };
                        match e {
                            Some(AeronError::RegistrationException(code, m)) => {
                                format!("OnErrorResponse ({}) ({}) {}", reg, code, bl(m.as_bytes()))
                            },
                            _ => "NoCallback".to_string(),
                        }
                    };
                    obs(&bytes, outcome(res, shown))
                },
                "endpoint" => {
                    // a subscription whose channel status indicator id is the low 32 bits of `off`
                    let _reg = setup_subscription(&mut cl, off as i32);
                    let sub = cl.with(|c| c.find_subscription(_reg)).expect("find_subscription");
                    cl.transmit(ON_ERROR, &bytes).expect("transmit");
                    let res = cl.do_work();
                    let recs = cl.take();
                    drop(sub);
                    let shown = || {
                        for rc in &recs {
                            if let Rec::ChannelEndpoint { id, msg } = rc {
                                return format!("OnChannelEndpointError ({}) {}", id, bl(msg));
                            }
                        }
                        "NoCallback".to_string()
                    };
                    obs(&bytes, outcome(res, shown))
                },
                other => panic!("unknown case kind error target {}", other),
            }
        },
        "counter" | "uncounter" => {
            let (corr, id) = (p_i64(a[0]), p_i32(a[1]));
            let bytes = enc_counter(corr, id);
            cl.transmit(if kind == "counter" { ON_COUNTER_READY } else { ON_UNAVAILABLE_COUNTER }, &bytes).expect("transmit");
            let res = cl.do_work();
            let recs = cl.take();
            obs(&bytes, outcome(res, || show_simple(&recs)))
        },
        "timeout" => {
            let id = p_i64(a[0]);
            let bytes = enc_corr(id);
            cl.transmit(ON_CLIENT_TIMEOUT, &bytes).expect("transmit");
            let res = cl.do_work();
            let recs = cl.take();
            let own = cl.own_id;
            obs(&bytes, outcome(res, || {
                if recs.iter().any(|r| matches!(r, Rec::ClientTimeout)) {
                    format!("OnClientTimeout ({})", own)
                } else {
                    "NoCallback".to_string()
                }
            }))
        },
        other => panic!("unknown case kind ev {}", other),
    }
}

/// callbacks that need no prepared state: counters and client timeout
fn show_simple(recs: &[Rec]) -> String {
    for rc in recs {
        match rc {
            Rec::AvailCounter { reg, id } => return format!("OnAvailableCounter ({}) ({})", reg, id),
            Rec::UnavailCounter { reg, id } => return format!("OnUnavailableCounter ({}) ({})", reg, id),
            _ => {},
        }
    }
    "NoCallback".to_string()
}

fn case_raw(p: &[&str]) -> String {
    let c0 = p_i64(p[0]);
    let type_id = p_i32(p[1]);
    let len = p_i64(p[2]) as usize;
    let hex = if p.len() > 3 { p[3] } else { "" };
    let mut bytes = vec![0u8; len];
    for i in 0..hex.len() / 2 {
        bytes[i] = u8::from_str_radix(&hex[2 * i..2 * i + 2], 16).expect("hex");
    }
    let mut cl = Client::new(c0);
    cl.transmit(type_id, &bytes).expect("transmit");
    let res = cl.do_work();
    let recs = cl.take();
    let own = cl.own_id;
    obs(&bytes, outcome(res, || {
        if recs.iter().any(|r| matches!(r, Rec::ClientTimeout)) {
            format!("OnClientTimeout ({})", own)
        } else {
            show_simple(&recs)
        }
    }))
}

fn all_commands() -> Vec<AeronCommand> {
    use AeronCommand::*;
    vec![
        Padding, AddPublication, RemovePublication, AddExclusivePublication, AddSubscription, RemoveSubscription, ClientKeepAlive,
        AddDestination, RemoveDestination, AddCounter, RemoveCounter, ClientClose, AddRcvDestination, RemoveRcvDestination,
        TerminateDriver, ResponseOnError, ResponseOnAvailableImage, ResponseOnPublicationReady, ResponseOnOperationSuccess,
        ResponseOnUnavailableImage, ResponseOnExclusivePublicationReady, ResponseOnSubscriptionReady, ResponseOnCounterReady,
        ResponseOnUnavailableCounter, ResponseOnClientTimeout,
    ]
}

fn fmt_cmd(r: Result<AeronCommand, ()>) -> String {
    match r {
        Ok(c) => format!("Ok {:?}", c),
        Err(()) => "Panic".to_string(),
    }
}

fn main() {
    // relative log-file paths live in a private directory
    let dir = std::env::temp_dir().join(format!("verif-c14-{}", std::process::id()));
    std::fs::create_dir_all(&dir).expect("temp dir");
    std::env::set_current_dir(&dir).expect("chdir");
    vcommon::run_lines(|line| {
        let parts: Vec<&str> = line.split_whitespace().collect();
        match parts[0] {
            "code" => {
                let c = *all_commands()
                    .iter()
                    .find(|c| format!("{:?}", c) == parts[1])
                    .unwrap_or_else(|| panic!("unknown case kind code {}", parts[1]));
                let id = c as i32;
                format!("({}, {})", id, fmt_cmd(catch(|| AeronCommand::from_command_id(id))))
            },
            "fromid" => {
                let id = p_i32(parts[1]);
                fmt_cmd(catch(|| AeronCommand::from_command_id(id)))
            },
            "ev" => case_ev(&parts[1..]),
            "raw" => case_raw(&parts[1..]),
            other => panic!("unknown case kind {}", other),
        }
    });
    let _ = std::env::set_current_dir("/");
    let _ = std::fs::remove_dir_all(&dir);
}
