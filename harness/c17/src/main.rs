//! C17 harness: position / term arithmetic of log_buffer_descriptor, Header::position,
//! rotate_log, and the term-count consistency test as seen through Publication::offer.
//!
//! cases (one per line):
//!   pos <init> <n> <bits> <off>          -> (pos, begin, index_by_term, index_by_term_count, index_by_position)
//!   hdr <init> <n> <bits> <off> <len>    -> Header::position of a frame (term id init+n wrapped)
//!   rot <init> <n> <o0> <o1> <o2>        -> rotate_log on consistent meta data with tail offsets o0..o2 -> (t0,t1,t2,count)
//!   ppos <init> <n0> <bits> <off0>       -> position() of a shared and of an exclusive publication created on a log handed
//!                                           over at (n0, off0); off0 may exceed the term length for the shared one (tail overshot)
//!   xpub <init> <n0> <bits> <off0> <len> -> like pub, through an ExclusivePublication
//!   pub <init> <n0> <bits> <off0> <len>  -> a real Publication offer on an in-memory log handed over at (n0, off0):
//!                                           (offer result, publication position afterwards, active term count, raw tails)
use aeron_rs::concurrent::atomic_buffer::{AlignedBuffer, AtomicBuffer};
use aeron_rs::concurrent::logbuffer::header::Header;
use aeron_rs::concurrent::logbuffer::{data_frame_header, log_buffer_descriptor as lbd};
use aeron_rs::concurrent::position::{ReadablePosition, UnsafeBufferPosition};
use aeron_rs::publication::Publication;
use std::ffi::CString;
use vcommon::client::{TestClient, TestLog};
use vcommon::{catch, fmt_outcome, fmt_result, ints};

fn case_pos(a: &[i64]) -> String {
    let (init, n, bits, off) = (a[0] as i32, a[1], a[2] as i32, a[3] as i32);
    let t = init.wrapping_add(n as i32);
    let pos = catch(|| lbd::compute_position(t, off, bits, init));
    let begin = catch(|| lbd::compute_term_begin_position(t, bits, init));
    let ibt = catch(|| lbd::index_by_term(init, t));
    let ibc = catch(|| lbd::index_by_term_count(n));
    let spec_pos: i64 = n * (1i64 << bits) + off as i64;
    let ibp = catch(|| lbd::index_by_position(spec_pos, bits));
    format!(
        "({}, {}, {}, {}, {})",
        fmt_outcome(pos),
        fmt_outcome(begin),
        fmt_outcome(ibt),
        fmt_outcome(ibc),
        fmt_outcome(ibp)
    )
}

fn case_hdr(a: &[i64]) -> String {
    let (init, n, bits, off, len) = (a[0] as i32, a[1], a[2] as i32, a[3] as i32, a[4] as i32);
    let t = init.wrapping_add(n as i32);
    // a window of memory holding just this frame header; Header addresses it by offset
    let cap: i32 = 1 << bits;
    // a zeroed (lazily mapped) term of the real size; only the frame header is touched
    let mut mem = vec![0u8; cap as usize];
    let buf = AtomicBuffer::wrap_slice(&mut mem);
    let window = buf.view(off, 32);
    window.put::<i32>(*data_frame_header::FRAME_LENGTH_FIELD_OFFSET, len);
    window.put::<u16>(*data_frame_header::TYPE_FIELD_OFFSET, data_frame_header::HDR_TYPE_DATA);
    window.put::<i32>(*data_frame_header::TERM_OFFSET_FIELD_OFFSET, off);
    window.put::<i32>(*data_frame_header::TERM_ID_FIELD_OFFSET, t);
    let r = catch(|| {
        let mut h = Header::new(init, cap);
        h.set_buffer(buf);
        h.set_offset(off);
        h.position()
    });
    fmt_outcome(r)
}

fn case_rot(a: &[i64]) -> String {
    case_rot_at(a, false)
}

/// `late`: the meta data are those of term count n+1 (already rotated, offsets as given), the call is the late one of a
/// publisher that still holds (n, init+n)
fn case_rot_at(a: &[i64], late: bool) -> String {
    let (init, n0) = (a[0] as i32, a[1] as i32);
    // a late caller is k >= 1 rotations behind (sixth argument, default 1)
    let k = if a.len() > 5 { a[5] as i32 } else { 1 };
    let n = if late { n0 + k } else { n0 };
    let offs = [a[2], a[3], a[4]];
    let mem = AlignedBuffer::with_capacity(lbd::LOG_META_DATA_LENGTH);
    let md = AtomicBuffer::from_aligned(&mem);
    let t = init.wrapping_add(n);
    let active = (n as i64).rem_euclid(3) as i32;
    let tail_off = *lbd::TERM_TAIL_COUNTER_OFFSET;
    md.put::<i32>(*lbd::LOG_ACTIVE_TERM_COUNT_OFFSET, n);
    md.put::<i64>(tail_off + active * 8, ((t as i64) << 32) | offs[active as usize]);
    for k in 1..3 {
        let idx = (active + k) % 3;
        let tid = t.wrapping_add(k).wrapping_sub(3);
        md.put::<i64>(tail_off + idx * 8, ((tid as i64) << 32) | offs[idx as usize]);
    }
    let before = format!(
        "({}, {}, {}, {})",
        md.get::<i64>(tail_off),
        md.get::<i64>(tail_off + 8),
        md.get::<i64>(tail_off + 16),
        md.get::<i32>(*lbd::LOG_ACTIVE_TERM_COUNT_OFFSET)
    );
    let r = if late { catch(|| lbd::rotate_log(&md, n0, init.wrapping_add(n0))) } else { catch(|| lbd::rotate_log(&md, n, t)) };
    let after = match r {
        Ok(()) => format!(
            "Ok ({}, {}, {}, {})",
            md.get::<i64>(tail_off),
            md.get::<i64>(tail_off + 8),
            md.get::<i64>(tail_off + 16),
            md.get::<i32>(*lbd::LOG_ACTIVE_TERM_COUNT_OFFSET)
        ),
        Err(()) => "Panic".to_string(),
    };
    format!("({}, {})", before, after)
}

fn case_pub(a: &[i64]) -> String {
    let (init, n0, bits, off0, len) = (a[0] as i32, a[1] as i32, a[2] as i32, a[3] as i32, a[4] as i32);
    let tl: i32 = 1 << bits;
    let client = TestClient::new();
    let log = TestLog::new(tl, 1408.min(tl / 2), init, n0, off0, 11, 22);
    let limit = UnsafeBufferPosition::new(client.counter_values_buffer(), 1);
    limit.set(i64::MAX);
    let publication = Publication::new(
        client.conductor.clone(),
        CString::new("aeron:ipc").unwrap(),
        7,
        7,
        22,
        11,
        limit,
        -1,
        log.log_buffers.clone(),
    );
    let src_mem = AlignedBuffer::with_capacity(len.max(8));
    let src = AtomicBuffer::from_aligned(&src_mem);
    let r = catch(|| publication.offer_part(src, 0, len));
    let p = catch(|| publication.position());
    let s = format!(
        "({}, {}, {}, {}, {}, {})",
        fmt_result(r),
        fmt_result(p),
        log.active_term_count(),
        log.raw_tail(0),
        log.raw_tail(1),
        log.raw_tail(2)
    );
    publication.close();
    s
}

fn case_ppos(a: &[i64]) -> String {
    let (init, n0, bits, off0) = (a[0] as i32, a[1] as i32, a[2] as i32, a[3] as i32);
    let tl: i32 = 1 << bits;
    let client = TestClient::new();
    let log = TestLog::new(tl, 1408.min(tl / 2), init, n0, off0, 11, 22);
    let limit = UnsafeBufferPosition::new(client.counter_values_buffer(), 1);
    limit.set(i64::MAX);
    let publication = Publication::new(
        client.conductor.clone(),
        CString::new("aeron:ipc").unwrap(),
        7,
        7,
        22,
        11,
        limit,
        -1,
        log.log_buffers.clone(),
    );
    let p = catch(|| publication.position());
    publication.close();
    if off0 > tl {
        return format!("({}, Skipped)", fmt_result(p));
    }
    let limit2 = UnsafeBufferPosition::new(client.counter_values_buffer(), 2);
    limit2.set(i64::MAX);
    let xp = catch(|| {
        let x = aeron_rs::exclusive_publication::ExclusivePublication::new(
            client.conductor.clone(),
            CString::new("aeron:ipc").unwrap(),
            7,
            22,
            11,
            limit2,
            -1,
            log.log_buffers.clone(),
        );
        let r = x.position();
        x.close();
        r
    });
    format!("({}, {})", fmt_result(p), fmt_result(xp))
}

fn case_xpub(a: &[i64]) -> String {
    let (init, n0, bits, off0, len) = (a[0] as i32, a[1] as i32, a[2] as i32, a[3] as i32, a[4] as i32);
    let tl: i32 = 1 << bits;
    let client = TestClient::new();
    let log = TestLog::new(tl, 1408.min(tl / 2), init, n0, off0, 11, 22);
    let limit = UnsafeBufferPosition::new(client.counter_values_buffer(), 1);
    limit.set(i64::MAX);
    let mut publication = aeron_rs::exclusive_publication::ExclusivePublication::new(
        client.conductor.clone(),
        CString::new("aeron:ipc").unwrap(),
        7,
        22,
        11,
        limit,
        -1,
        log.log_buffers.clone(),
    );
    let src_mem = AlignedBuffer::with_capacity(len.max(8));
    let src = AtomicBuffer::from_aligned(&src_mem);
    let r = catch(|| publication.offer_part(src, 0, len));
    let p = catch(|| publication.position());
    let s = format!(
        "({}, {}, {}, {}, {}, {})",
        fmt_result(r),
        fmt_result(p),
        log.active_term_count(),
        log.raw_tail(0),
        log.raw_tail(1),
        log.raw_tail(2)
    );
    publication.close();
    s
}

fn main() {
    vcommon::run_lines(|line| {
        let parts: Vec<&str> = line.split_whitespace().collect();
        let a = ints(&parts[1..]);
        match parts[0] {
            "pos" => case_pos(&a),
            "hdr" => case_hdr(&a),
            "rot" => case_rot(&a),
            "rotl" => case_rot_at(&a, true),
            "pub" => case_pub(&a),
            "ppos" => case_ppos(&a),
            "xpub" => case_xpub(&a),
            other => panic!("unknown case kind {}", other),
        }
    });
}
