//! C19 harness: ChannelUri::parse / Display / add_session_id / put-get-remove and ChannelUriStringBuilder.
//!
//! Strings travel as comma separated Unicode scalar values (`-` = empty string), so that any `&str`
//! can be a case. One observation per line, in Coq term syntax (types of Model/UriBuilder.v, Oracle/C19Oracle.v):
//!
//!   p <str>                      -> (pobs of parse, Disp <to_string()> | NoDisp, pobs of parse(to_string()))
//!   s <str> <i32>                -> (pobs of parse, Disp <add_session_id result> | NoDisp | DPanic, pobs of parse(result))
//!   a <str> {put <k> <v> | remove <k> | get <k> | has <k> | getd <k> <d>}*
//!                                -> (pobs of parse, [results as strings], pobs after the operations)
//!   b {<setter> <arg>}*          -> ([1 = Ok / 0 = Err per setter], BOk <build()> | BPanic, pobs of parse(build()))
//!
//! pobs = OOk <prefix> <media> [(key, value); ..sorted by key..] | OErr <detail> | OPanic | ONone
use aeron_rs::channel_uri::ChannelUri;
use aeron_rs::channel_uri_string_builder::ChannelUriStringBuilder;
use aeron_rs::utils::errors::{AeronError, IllegalArgumentError, IllegalStateError};
use std::collections::BTreeSet;
use vcommon::catch;

fn dec_str(tok: &str) -> String {
    if tok == "-" {
        return String::new();
    }
    tok.split(',')
        .map(|t| {
            let v: u32 = t.parse().unwrap_or_else(|_| bad(&format!("bad int {}", t)));
            char::from_u32(v).unwrap_or_else(|| bad(&format!("bad int {} (not a scalar value)", t)))
        })
        .collect()
}

fn bad(msg: &str) -> ! {
    eprintln!("{}", msg);
    std::process::exit(3)
}

fn cps(s: &str) -> String {
    let v: Vec<String> = s.chars().map(|c| (c as u32).to_string()).collect();
    format!("[{}]", v.join("; "))
}

fn err_detail(e: &AeronError) -> String {
    match e {
        AeronError::IllegalArgument(IllegalArgumentError::UriMustStartWithAeron { .. }) => "EMustStartWithAeron".into(),
        AeronError::IllegalArgument(IllegalArgumentError::UnknownMedia(m)) => format!("(EUnknownMedia {})", cps(m)),
        AeronError::IllegalArgument(IllegalArgumentError::NoMoreInputFound { .. }) => "ENoMoreInput".into(),
        AeronError::IllegalState(IllegalStateError::EncounteredCharacterWithinMediaDefinition { c, index, .. }) => {
            format!("(ECharInMedia {} {})", *c as u32, index)
        },
        AeronError::IllegalState(IllegalStateError::EmptyKeyNotAllowed { index, .. }) => format!("(EEmptyKey {})", index),
        AeronError::IllegalState(IllegalStateError::InvalidEndOfKey { index, .. }) => format!("(EInvalidEndOfKey {})", index),
        AeronError::IllegalArgument(_) => "(EOther 0)".into(),
        AeronError::IllegalState(_) => "(EOther 1)".into(),
        _ => "(EOther 2)".into(),
    }
}

/// Every string that could be a key of a ChannelUri parsed from (or printed as) `text`:
/// all substrings of short texts, and for any text all substrings delimited by `? | = :` or the ends.
fn candidate_keys(texts: &[&str]) -> BTreeSet<String> {
    let mut out = BTreeSet::new();
    out.insert(String::new());
    for text in texts {
        let chars: Vec<char> = text.chars().collect();
        let n = chars.len();
        if n <= 48 {
            for i in 0..n {
                for j in i + 1..=n {
                    out.insert(chars[i..j].iter().collect::<String>());
                }
            }
        }
        let is_delim = |c: char| c == '?' || c == '|' || c == '=' || c == ':';
        let mut starts = vec![0usize];
        let mut ends = vec![n];
        for (i, c) in chars.iter().enumerate() {
            if is_delim(*c) {
                starts.push(i + 1);
                ends.push(i);
                starts.push(i);
                ends.push(i + 1);
            }
        }
        for &i in &starts {
            for &j in &ends {
                if i < j && j <= n {
                    out.insert(chars[i..j].iter().collect::<String>());
                }
            }
        }
    }
    out
}

fn observe_uri(u: &ChannelUri, texts: &[&str]) -> String {
    let mut items = Vec::new();
    for k in candidate_keys(texts) {
        if u.contains_key(&k) {
            let v = u.get(&k).to_string();
            items.push(format!("({}, {})", cps(&k), cps(&v)));
        }
    }
    // BTreeSet<String> iterates in byte order = code point order
    format!("OOk {} {} [{}]", cps(&u.prefix()), cps(&u.media()), items.join("; "))
}

fn pobs(text: &str, extra: &[&str]) -> String {
    let mut texts = vec![text];
    texts.extend_from_slice(extra);
    match catch(|| ChannelUri::parse(text).map(|u| observe_uri(&u.lock().unwrap(), &texts))) {
        Ok(Ok(s)) => s,
        Ok(Err(e)) => format!("OErr {}", err_detail(&e)),
        Err(()) => "OPanic".into(),
    }
}

fn case_parse(parts: &[&str]) -> String {
    let text = dec_str(parts[0]);
    let r1 = pobs(&text, &[]);
    let disp = catch(|| ChannelUri::parse(&text).ok().map(|u| u.lock().unwrap().to_string()));
    match disp {
        Ok(Some(d)) => format!("({}, Disp {}, {})", r1, cps(&d), pobs(&d, &[&text])),
        Ok(None) => format!("({}, NoDisp, ONone)", r1),
        Err(()) => format!("({}, DPanic, ONone)", r1),
    }
}

fn case_sid(parts: &[&str]) -> String {
    let text = dec_str(parts[0]);
    let sid: i32 = parts[1].parse().unwrap_or_else(|_| bad(&format!("bad int {}", parts[1])));
    let r1 = pobs(&text, &[]);
    match catch(|| ChannelUri::add_session_id(&text, sid)) {
        Ok(Ok(d)) => format!("({}, Disp {}, {})", r1, cps(&d), pobs(&d, &[&text])),
        Ok(Err(_)) => format!("({}, NoDisp, ONone)", r1),
        Err(()) => format!("({}, DPanic, ONone)", r1),
    }
}

fn case_api(parts: &[&str]) -> String {
    let text = dec_str(parts[0]);
    let r1 = pobs(&text, &[]);
    let parsed = match catch(|| ChannelUri::parse(&text)) {
        Ok(Ok(u)) => u,
        _ => return format!("({}, [], ONone)", r1),
    };
    let mut texts: Vec<String> = vec![text.clone()];
    let mut results = Vec::new();
    let mut i = 1;
    let r = catch(|| {
        let mut u = parsed.lock().unwrap();
        while i < parts.len() {
            match parts[i] {
                "put" => {
                    let (k, v) = (dec_str(parts[i + 1]), dec_str(parts[i + 2]));
                    u.put(&k, v);
                    texts.push(k);
                    results.push("[]".to_string());
                    i += 3;
                },
                "remove" => {
                    let k = dec_str(parts[i + 1]);
                    results.push(cps(&u.remove(&k)));
                    i += 2;
                },
                "get" => {
                    let k = dec_str(parts[i + 1]);
                    results.push(cps(u.get(&k)));
                    i += 2;
                },
                "getd" => {
                    let (k, d) = (dec_str(parts[i + 1]), dec_str(parts[i + 2]));
                    results.push(cps(u.get_or_default(&k, &d)));
                    i += 3;
                },
                "has" => {
                    let k = dec_str(parts[i + 1]);
                    results.push(if u.contains_key(&k) { "[1]".to_string() } else { "[0]".to_string() });
                    i += 2;
                },
                other => bad(&format!("unknown case kind: api op {}", other)),
            }
        }
        let refs: Vec<&str> = texts.iter().map(|s| s.as_str()).collect();
        observe_uri(&u, &refs)
    });
    match r {
        Ok(after) => format!("({}, [{}], {})", r1, results.join("; "), after),
        Err(()) => format!("({}, [{}], OPanic)", r1, results.join("; ")),
    }
}

fn int<T: std::str::FromStr>(tok: &str) -> T {
    tok.parse::<T>().unwrap_or_else(|_| bad(&format!("bad int {}", tok)))
}

fn flag(tok: &str) -> bool {
    match tok {
        "1" => true,
        "0" => false,
        _ => bad(&format!("bad int {} (bool)", tok)),
    }
}

fn apply(b: &mut ChannelUriStringBuilder, name: &str, a: &str) -> bool {
    match name {
        "clear" => {
            b.clear();
            true
        },
        "prefix" => b.prefix(&dec_str(a)).is_ok(),
        "reset_prefix" => {
            b.reset_prefix();
            true
        },
        "media" => b.media(&dec_str(a)).is_ok(),
        "endpoint" => {
            b.endpoint(&dec_str(a));
            true
        },
        "network_interface" => {
            b.network_interface(&dec_str(a));
            true
        },
        "control_endpoint" => {
            b.control_endpoint(&dec_str(a));
            true
        },
        "control_mode" => b.control_mode(&dec_str(a)).is_ok(),
        "tags" => {
            b.tags(&dec_str(a));
            true
        },
        "alias" => {
            b.alias(&dec_str(a));
            true
        },
        "congestion_control" => {
            b.congestion_control(&dec_str(a));
            true
        },
        "reliable" => {
            b.reliable(flag(a));
            true
        },
        "reset_reliable" => {
            b.reset_reliable();
            true
        },
        "ttl" => {
            b.ttl(int::<u8>(a));
            true
        },
        "mtu" => b.mtu(int::<u32>(a)).is_ok(),
        "term_length" => b.term_length(int::<i32>(a)).is_ok(),
        "initial_term_id" => {
            b.initial_term_id(int::<i32>(a));
            true
        },
        "term_id" => {
            b.term_id(int::<i32>(a));
            true
        },
        "term_offset" => b.term_offset(int::<u32>(a)).is_ok(),
        "session_id" => {
            b.session_id(int::<i32>(a));
            true
        },
        "linger" => b.linger(int::<i64>(a)).is_ok(),
        "sparse" => {
            b.sparse(flag(a));
            true
        },
        "eos" => {
            b.eos(flag(a));
            true
        },
        "tether" => {
            b.tether(flag(a));
            true
        },
        "group" => {
            b.group(flag(a));
            true
        },
        "rejoin" => {
            b.rejoin(flag(a));
            true
        },
        "reset_rejoin" => {
            b.reset_rejoin();
            true
        },
        "is_session_tagged" => {
            b.is_session_tagged(flag(a));
            true
        },
        other => bad(&format!("unknown case kind: setter {}", other)),
    }
}

fn case_builder(parts: &[&str]) -> String {
    if parts.len() % 2 != 0 {
        bad("unknown case kind: odd number of builder tokens");
    }
    let mut b = ChannelUriStringBuilder::default();
    let mut oks = Vec::new();
    for pair in parts.chunks(2) {
        match catch(|| apply(&mut b, pair[0], pair[1])) {
            Ok(true) => oks.push("1"),
            Ok(false) => oks.push("0"),
            Err(()) => oks.push("2"),
        }
    }
    let oks = format!("[{}]", oks.join("; "));
    match catch(|| b.build()) {
        Ok(s) => format!("({}, BOk {}, {})", oks, cps(&s), pobs(&s, &[])),
        Err(()) => format!("({}, BPanic, ONone)", oks),
    }
}

fn main() {
    vcommon::run_lines(|line| {
        let parts: Vec<&str> = line.split_whitespace().collect();
        match parts[0] {
            "p" => case_parse(&parts[1..]),
            "s" => case_sid(&parts[1..]),
            "a" => case_api(&parts[1..]),
            "b" => case_builder(&parts[1..]),
            other => bad(&format!("unknown case kind {}", other)),
        }
    });
}
