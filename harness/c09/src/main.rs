//! C09 / C10 harness: a full in-process client (real ClientConductor, real to-driver ring, real broadcast
//! transmitter / receiver / copy receiver / listener adapter, counters buffers, controllable clock) with the media
//! driver played by this program.
//!
//! One case per line:
//!   hist <c0> <now0> <driver_timeout_ms> <inter_service_timeout_ms> | <op> ; <op> ; ...
//! ops:
//!   ap|ax|as <chan> <stream> [len]  add_publication / add_exclusive_publication / add_subscription; len (optional, >= 41): the channel
//!                                   string is padded to exactly len bytes ("aeron:udp?alias=aaa..|endpoint=localhost:<port>"), default 34 bytes
//!   cp|cx <id>                      the user calls the public close() of the Publication / ExclusivePublication it holds
//!   ac <type> <keylen> <lablen>     add_counter
//!   ad <variant> <reg> <chan>       0 add_destination 1 remove_destination 2 add_rcv_destination 3 remove_rcv_destination
//!   fp|fs|fc|fd <id>                find_publication / find_subscription / find_counter / find_destination_response
//!   fx <id>                         find_exclusive_publication (pub(crate) in the crate: through the hook
//!                                   ClientConductor::find_exclusive_publication_for_verif, hooks/cond-find-exclusive.diff; the driver
//!                                   does not generate fx / dx / px when the repository lacks the hook)
//!   dp|dx|ds|dc <id>                the user drops its handle
//!   Dp|Dx|Ds|Dc <id>                the same while ANOTHER thread is inside the conductor: a helper thread locks the conductor mutex, signals,
//!                                   holds it for 150 ms; the handle is dropped meanwhile (the destructor has to wait, then release) -
//!                                   same observation as the plain drop
//!   pp|px|ps|pc <id>                peek at the user's handle: [h; closed; images; d1; d2; d3]
//!   cs <n>                          what the user's callbacks do from now on: 0 only record their arguments; otherwise every callback
//!                                   (error handler, on_new_*, image and counter handlers, close handler) calls the client the way
//!                                   `Aeron` does - lock the conductor's mutex, then 1 add_publication, 2 find_publication,
//!                                   3 release_publication
//!   cl                              Agent::on_close
//!   tk <d>                          advance the clock
//!   hb <t>                          the driver writes its heartbeat (consumer heartbeat of the ring)
//!   hc <v>                          the driver's CountersManager on this client's heartbeat slot: 1 allocated (type 11, key = client id),
//!                                   2 reclaimed, 3 allocated again for another client (other key), 4 allocated with another type
//!   rf <b>                          1: the driver stops reading its command ring and the ring is filled up (no command fits any more);
//!                                   0: the driver reads again (ring drained). While full the commands are not read back.
//!   w                               do_work, nothing on the broadcast
//!   wl                              the driver overruns the broadcast buffer, then do_work
//!   wo                              the driver sends a message larger than the copy receiver's scratch buffer, then do_work
//!   we <event>                      the driver transmits one event, then do_work:
//!        pr corr orig stream session limit chstat | xr id stream session limit chstat | sr corr chstat | os corr
//!        er corr code (code 4 = channel endpoint error: corr is a channel status indicator id) | ai corr session subpos subreg | ui corr subreg | cr corr cid | uc corr cid | ct client_id
//! Observation: `[(result, [callbacks], [commands]); ...]`, one element per op, in the syntax of Model/Conductor.v.
//! An op that does not come back within the watchdog time is reported as `(Hang, [], [])` and ends the case
//! (its thread stays parked on the mutex it dead-locked on); a panicking op is `(Panic, ..)` and ends the case.
use std::cell::RefCell;
use std::collections::HashMap;
use std::ffi::CString;
use std::io::Write;
use std::path::PathBuf;
use std::sync::atomic::Ordering;
use std::sync::mpsc;
use std::sync::{Arc, Mutex};
use std::time::Duration;

use aeron_rs::client_conductor::ClientConductor;
use aeron_rs::command::control_protocol_events::AeronCommand;
use aeron_rs::concurrent::agent_runner::Agent;
use aeron_rs::concurrent::atomic_buffer::{AlignedBuffer, AtomicBuffer};
use aeron_rs::concurrent::broadcast::broadcast_buffer_descriptor;
use aeron_rs::concurrent::broadcast::broadcast_receiver::BroadcastReceiver;
use aeron_rs::concurrent::broadcast::broadcast_transmitter::BroadcastTransmitter;
use aeron_rs::concurrent::broadcast::copy_broadcast_receiver::CopyBroadcastReceiver;
use aeron_rs::concurrent::broadcast::BroadcastTransmitError;
use aeron_rs::concurrent::counters::{self, CountersReader};
use aeron_rs::concurrent::logbuffer::log_buffer_descriptor as lbd;
use aeron_rs::concurrent::ring_buffer::{self, ManyToOneRingBuffer};
use aeron_rs::counter::Counter;
use aeron_rs::driver_proxy::DriverProxy;
use aeron_rs::exclusive_publication::ExclusivePublication;
use aeron_rs::image::Image;
use aeron_rs::publication::Publication;
use aeron_rs::subscription::Subscription;
use aeron_rs::utils::errors::{AeronError, DriverInteractionError, GenericError};
use vcommon::client::{test_clock, CLOCK_MS};

thread_local! {
    static LOG: RefCell<Vec<String>> = RefCell::new(Vec::new());
    /// what the user's callbacks do (op `cs`), and the conductor they call
    static SCRIPT: std::cell::Cell<i64> = std::cell::Cell::new(0);
    static COND: RefCell<Option<Arc<Mutex<ClientConductor>>>> = RefCell::new(None);
}

/// set by a callback just before it locks a conductor mutex that `try_lock` says is taken (by its own thread: the harness drives
/// one thread per case): lets the watchdog report the dead-lock after a short grace period instead of the full time-out
static DEADLOCK_PENDING: std::sync::atomic::AtomicBool = std::sync::atomic::AtomicBool::new(false);

/// A user callback that calls the client, exactly as `Aeron::add_publication` / `find_publication` or a handle's release do:
/// `conductor.lock().expect(..)` first, then the `&mut ClientConductor` method.
fn reenter() {
    let n = SCRIPT.with(|s| s.get());
    if n == 0 {
        return;
    }
    let c = match COND.with(|c| c.borrow().clone()) {
        Some(c) => c,
        None => return,
    };
    if c.try_lock().is_err() {
        DEADLOCK_PENDING.store(true, Ordering::SeqCst);
    }
    let mut g = c.lock().expect("Mutex poisoned");
    // only reached if the lock were re-entrant
    let r = match n {
        1 => g.add_publication(channel(0), 1).map(|_| ()),
        2 => g.find_publication(1).map(|_| ()),
        _ => g.release_publication(1),
    };
    drop(g);
    LOG.with(|l| l.borrow_mut().push(format!("CbReentered {} {}", n, if r.is_ok() { 1 } else { 0 })));
}

fn z(v: i64) -> String {
    if v < 0 {
        format!("({})", v)
    } else {
        v.to_string()
    }
}

fn log(s: String) {
    LOG.with(|l| l.borrow_mut().push(s));
    reenter();
}

const PORT_BASE: i64 = 20000;

fn channel(chan: i64) -> CString {
    CString::new(format!("aeron:udp?endpoint=localhost:{}", PORT_BASE + chan)).unwrap()
}

/// the channel for number `chan` as a string of exactly `len` bytes (len = 0: the short default form, 34 bytes)
fn channel_len(chan: i64, len: i64) -> CString {
    let short = format!("aeron:udp?endpoint=localhost:{}", PORT_BASE + chan);
    if len == 0 {
        return CString::new(short).unwrap();
    }
    let fixed = "aeron:udp?alias=|".len() as i64 + "endpoint=localhost:".len() as i64 + 5;
    assert!(len >= fixed, "channel length {} too small", len);
    let s = format!("aeron:udp?alias={}|endpoint=localhost:{}", "a".repeat((len - fixed) as usize), PORT_BASE + chan);
    assert_eq!(s.len() as i64, len);
    CString::new(s).unwrap()
}

fn chan_of(bytes: &[u8]) -> i64 {
    let s = String::from_utf8_lossy(bytes);
    let long = s.starts_with("aeron:udp?alias=") && s.contains("|endpoint=localhost:") && s["aeron:udp?alias=".len()..].split('|').next().map_or(false, |a| a.bytes().all(|c| c == b'a'));
    match s.rsplit(':').next().and_then(|p| p.parse::<i64>().ok()) {
        Some(p) if s.starts_with("aeron:udp?endpoint=localhost:") || long => p - PORT_BASE,
        _ => -1,
    }
}

fn on_new_pub(c: CString, stream: i32, session: i32, corr: i64) {
    log(format!("CbNewPub {} {} {} {}", z(corr), z(stream as i64), z(session as i64), z(chan_of(c.as_bytes()))));
}
fn on_new_xpub(c: CString, stream: i32, session: i32, corr: i64) {
    log(format!("CbNewXPub {} {} {} {}", z(corr), z(stream as i64), z(session as i64), z(chan_of(c.as_bytes()))));
}
fn on_new_sub(c: CString, stream: i32, corr: i64) {
    log(format!("CbNewSub {} {} {}", z(corr), z(stream as i64), z(chan_of(c.as_bytes()))));
}
fn on_error(e: AeronError) {
    if let AeronError::ChannelEndpointException(id, _) = &e {
        log(format!("CbErr (EChannelEndpoint {})", z(*id)));
        return;
    }
    let n = match e {
        AeronError::Generic(GenericError::TimeoutBetweenServiceCallsOverTimeout(_)) => "EServiceTimeout",
        AeronError::DriverTimeout(DriverInteractionError::WasInactive(_)) => "EWasInactive",
        AeronError::DriverTimeout(DriverInteractionError::Inactive) => "EInactive",
        AeronError::Generic(GenericError::ClientHeartbeatNotActive) => "EHeartbeatLost",
        AeronError::ClientTimeoutException => "EClientTimeout",
        AeronError::ReentrantException => "EReentrant",
        AeronError::ChannelEndpointException(_, _) => "EChannelEndpoint",
        _ => "EOther",
    };
    log(format!("CbErr {}", n));
}
fn on_avail_ctr(_r: &CountersReader, reg: i64, id: i32) {
    log(format!("CbAvailCtr {} {}", z(reg), z(id as i64)));
}
fn on_unavail_ctr(_r: &CountersReader, reg: i64, id: i32) {
    log(format!("CbUnavailCtr {} {}", z(reg), z(id as i64)));
}
fn on_close() {
    log("CbClose".to_string());
}
fn on_avail_img(i: &Image) {
    log(format!("CbAvailImg {} {} {}", z(i.subscription_registration_id()), z(i.correlation_id()), z(i.session_id() as i64)));
}
fn on_unavail_img(i: &Image) {
    log(format!(
        "CbUnavailImg {} {} {}",
        z(i.subscription_registration_id()),
        z(i.correlation_id()),
        if i.is_closed() { 1 } else { 0 }
    ));
}

fn err_name(e: &AeronError) -> String {
    match e {
        AeronError::Generic(GenericError::ClientConductorClosed) => "Closed".into(),
        AeronError::DriverTimeout(DriverInteractionError::NoResponse(_)) => "NoResponse".into(),
        AeronError::DriverTimeout(DriverInteractionError::Inactive) => "DriverInactive".into(),
        AeronError::PublicationNotReady(_) | AeronError::SubscriptionNotReady(_) => "NotReady".into(),
        AeronError::Generic(GenericError::ExclusivePublicationNotReadyYet { .. }) => "NotReady".into(),
        AeronError::Generic(GenericError::CounterNotReadyYet { .. }) => "NotReady".into(),
        AeronError::Generic(GenericError::PublicationNotFound)
        | AeronError::Generic(GenericError::ExclusivePublicationNotFound)
        | AeronError::Generic(GenericError::SubscriptionNotFound)
        | AeronError::Generic(GenericError::CounterNotFound)
        | AeronError::Generic(GenericError::UnknownCorrelationId(_)) => "NotFound".into(),
        AeronError::RegistrationException(code, _) => format!("(Registration {})", z(*code as i64)),
        AeronError::IllegalArgument(_) => "IllegalArg".into(),
        AeronError::IllegalState(_) => "IllegalState".into(),
        AeronError::BroadcastTransmitError(BroadcastTransmitError::UnableToKeepUpWithBroadcastBuffer) => "UnableToKeepUp".into(),
        _ => "OtherErr".into(),
    }
}

enum Handle {
    Pub(Arc<Mutex<Publication>>),
    XPub(Arc<Mutex<ExclusivePublication>>),
    Sub(Arc<Mutex<Subscription>>),
    Ctr(Arc<Counter>),
}

struct Client {
    conductor: Arc<Mutex<ClientConductor>>,
    ring: Arc<ManyToOneRingBuffer>,
    tx: BroadcastTransmitter,
    scratch: AlignedBuffer,
    counter_metadata: AtomicBuffer,
    log_file: CString,
    client_id: i64,
    next_h: i64,
    full: bool,
    held: HashMap<(u8, i64), Vec<(i64, Handle)>>,
    // keep the memory alive for as long as the (never freed) conductor may be referenced by handles
    _bufs: Vec<AlignedBuffer>,
}

const HB_SLOT: i32 = 7;

impl Client {
    fn new(c0: i64, now0: u64, tdrv: u64, tis_ms: u64, log_file: &str) -> Self {
        CLOCK_MS.store(now0, Ordering::SeqCst);
        let to_driver = AlignedBuffer::with_capacity(1024 * 64 + ring_buffer::TRAILER_LENGTH);
        let to_clients = AlignedBuffer::with_capacity(1024 * 64 + broadcast_buffer_descriptor::TRAILER_LENGTH);
        let counter_metadata = AlignedBuffer::with_capacity(counters::METADATA_LENGTH * 64);
        let counter_values = AlignedBuffer::with_capacity(counters::COUNTER_LENGTH * 64);
        let tdb = AtomicBuffer::from_aligned(&to_driver);
        tdb.put::<i64>(1024 * 64 + ring_buffer::CORRELATION_COUNTER_OFFSET, c0);
        let ring = Arc::new(ManyToOneRingBuffer::new(tdb).expect("ring"));
        let tcb = AtomicBuffer::from_aligned(&to_clients);
        let tx = BroadcastTransmitter::new(tcb).expect("tx");
        let receiver = Arc::new(Mutex::new(BroadcastReceiver::new(tcb).expect("rx")));
        let proxy = Arc::new(DriverProxy::new(ring.clone()));
        let client_id = proxy.client_id();
        let copy_receiver = Arc::new(Mutex::new(CopyBroadcastReceiver::new(receiver)));
        let conductor = ClientConductor::new(
            test_clock,
            proxy,
            copy_receiver,
            AtomicBuffer::from_aligned(&counter_metadata),
            AtomicBuffer::from_aligned(&counter_values),
            Box::new(on_new_pub),
            Box::new(on_new_xpub),
            Box::new(on_new_sub),
            Box::new(on_error),
            Box::new(on_avail_ctr),
            Box::new(on_unavail_ctr),
            Box::new(on_close),
            tdrv,
            5_000,
            tis_ms * 1_000_000,
            false,
        );
        let cm = AtomicBuffer::from_aligned(&counter_metadata);
        SCRIPT.with(|s| s.set(0));
        COND.with(|c| *c.borrow_mut() = Some(conductor.clone()));
        Self {
            conductor,
            ring,
            tx,
            scratch: AlignedBuffer::with_capacity(8192),
            counter_metadata: cm,
            log_file: CString::new(log_file).unwrap(),
            client_id,
            next_h: 0,
            full: false,
            held: HashMap::new(),
            _bufs: vec![to_driver, to_clients, counter_metadata, counter_values],
        }
    }

    fn drain_commands(&self) -> Vec<String> {
        let mut out = Vec::new();
        self.ring.read_all(|ty, buf: AtomicBuffer| {
            let t = ty as i32;
            let cid = buf.get::<i64>(0);
            let corr = buf.get::<i64>(8);
            let bytes = |off: i32| -> Vec<u8> {
                let len = buf.get::<i32>(off);
                (0..len).map(|i| buf.get::<u8>(off + 4 + i)).collect()
            };
            let args: Vec<i64> = match t {
                1 | 3 => vec![chan_of(&bytes(20)), buf.get::<i32>(16) as i64],
                4 => vec![buf.get::<i64>(16), chan_of(&bytes(28)), buf.get::<i32>(24) as i64],
                2 | 5 | 10 => vec![buf.get::<i64>(16)],
                7 | 8 | 12 | 13 => vec![buf.get::<i64>(16), chan_of(&bytes(24))],
                9 => {
                    let keylen = buf.get::<i32>(20);
                    let lab_off = 24 + ((keylen + 3) & !3);
                    vec![buf.get::<i32>(16) as i64, keylen as i64, buf.get::<i32>(lab_off) as i64]
                },
                _ => vec![],
            };
            out.push(format!(
                "Cmd {} {} {} [{}]",
                z(t as i64),
                z(cid),
                z(corr),
                args.iter().map(|a| z(*a)).collect::<Vec<_>>().join("; ")
            ));
        });
        out
    }

    fn transmit(&mut self, ty: i32, len: i32) {
        let b = AtomicBuffer::from_aligned(&self.scratch);
        self.tx.transmit(ty, &b, 0, len).expect("transmit");
    }

    fn put_str(&self, off: i32, s: &[u8]) -> i32 {
        let b = AtomicBuffer::from_aligned(&self.scratch);
        b.put::<i32>(off, s.len() as i32);
        for (i, c) in s.iter().enumerate() {
            b.put::<u8>(off + 4 + i as i32, *c);
        }
        off + 4 + s.len() as i32
    }

    /// Encode one driver event into the scratch buffer and transmit it through the broadcast buffer.
    fn send_event(&mut self, w: &[&str]) {
        let a: Vec<i64> = w[1..].iter().map(|p| p.parse::<i64>().unwrap_or_else(|_| panic!("bad int {}", p))).collect();
        let b = AtomicBuffer::from_aligned(&self.scratch);
        b.set_memory(0, 512, 0);
        let lf = self.log_file.as_bytes().to_vec();
        match w[0] {
            "pr" | "xr" => {
                let (corr, orig, stream, session, limit, chstat) =
                    if w[0] == "pr" { (a[0], a[1], a[2], a[3], a[4], a[5]) } else { (a[0], a[0], a[1], a[2], a[3], a[4]) };
                b.put::<i64>(0, corr);
                b.put::<i64>(8, orig);
                b.put::<i32>(16, session as i32);
                b.put::<i32>(20, stream as i32);
                b.put::<i32>(24, limit as i32);
                b.put::<i32>(28, chstat as i32);
                let end = self.put_str(32, &lf);
                self.transmit(if w[0] == "pr" { 0xF03 } else { 0xF06 }, end);
            },
            "sr" => {
                b.put::<i64>(0, a[0]);
                b.put::<i32>(8, a[1] as i32);
                self.transmit(0xF07, 12);
            },
            "os" => {
                b.put::<i64>(0, a[0]);
                self.transmit(0xF04, 8);
            },
            "er" => {
                b.put::<i64>(0, a[0]);
                b.put::<i32>(8, a[1] as i32);
                let end = self.put_str(12, b"rejected");
                self.transmit(0xF01, end);
            },
            "ai" => {
                b.put::<i64>(0, a[0]);
                b.put::<i32>(8, a[1] as i32);
                b.put::<i32>(12, 0);
                b.put::<i64>(16, a[3]);
                b.put::<i32>(24, a[2] as i32);
                let end = self.put_str(28, &lf);
                let src = 28 + 4 + ((lf.len() as i32 + 3) & !3);
                let _ = end;
                let end2 = self.put_str(src, b"127.0.0.1:40123");
                self.transmit(0xF02, end2);
            },
            "ui" => {
                b.put::<i64>(0, a[0]);
                b.put::<i64>(8, a[1]);
                b.put::<i32>(16, 0);
                let end = self.put_str(20, b"aeron:udp?endpoint=localhost:20000");
                self.transmit(0xF05, end);
            },
            "cr" | "uc" => {
                b.put::<i64>(0, a[0]);
                b.put::<i32>(8, a[1] as i32);
                self.transmit(if w[0] == "cr" { 0xF08 } else { 0xF09 }, 12);
            },
            "ct" => {
                b.put::<i64>(0, a[0]);
                self.transmit(0xF0A, 8);
            },
            other => panic!("unknown case kind: event {}", other),
        }
    }

    fn take_handle<T>(&mut self, k: u8, r: i64, arc: Handle, same: impl Fn(&Handle, &Handle) -> bool) -> i64 {
        let _ = std::marker::PhantomData::<T>;
        let list = self.held.entry((k, r)).or_default();
        for (h, old) in list.iter() {
            if same(old, &arc) {
                return *h;
            }
        }
        let h = self.next_h;
        self.next_h += 1;
        list.push((h, arc));
        h
    }

    fn op(&mut self, w: &[&str]) -> String {
        let a: Vec<i64> = if w[0] == "we" { vec![] } else { w[1..].iter().map(|p| p.parse::<i64>().unwrap_or_else(|_| panic!("bad int {}", p))).collect() };
        let ok_list = |v: &[i64]| format!("Ok [{}]", v.iter().map(|x| z(*x)).collect::<Vec<_>>().join("; "));
        let res_id = |r: Result<i64, AeronError>| match r {
            Ok(v) => format!("Ok [{}]", z(v)),
            Err(e) => format!("Err {}", err_name(&e)),
        };
        match w[0] {
            "ap" => res_id(self.conductor.lock().unwrap().add_publication(channel_len(a[0], *a.get(2).unwrap_or(&0)), a[1] as i32)),
            "ax" => res_id(self.conductor.lock().unwrap().add_exclusive_publication(channel_len(a[0], *a.get(2).unwrap_or(&0)), a[1] as i32)),
            "as" => res_id(self.conductor.lock().unwrap().add_subscription(
                channel_len(a[0], *a.get(2).unwrap_or(&0)),
                a[1] as i32,
                Box::new(on_avail_img),
                Box::new(on_unavail_img),
            )),
            "ac" => {
                let key = vec![7u8; a[1] as usize];
                let label = "L".repeat(a[2] as usize);
                res_id(self.conductor.lock().unwrap().add_counter(a[0] as i32, &key, &label))
            },
            "ad" => {
                let mut c = self.conductor.lock().unwrap();
                res_id(match a[0] {
                    0 => c.add_destination(a[1], channel(a[2])),
                    1 => c.remove_destination(a[1], channel(a[2])),
                    2 => c.add_rcv_destination(a[1], channel(a[2])),
                    _ => c.remove_rcv_destination(a[1], channel(a[2])),
                })
            },
            "fp" => {
                let r = self.conductor.lock().unwrap().find_publication(a[0]);
                match r {
                    Ok(p) => {
                        let h = self.take_handle::<()>(0, a[0], Handle::Pub(p), |x, y| match (x, y) {
                            (Handle::Pub(x), Handle::Pub(y)) => Arc::ptr_eq(x, y),
                            _ => false,
                        });
                        ok_list(&[h])
                    },
                    Err(e) => format!("Err {}", err_name(&e)),
                }
            },
            #[cfg(verif_find_excl)]
            "fx" => {
                let r = self.conductor.lock().unwrap().find_exclusive_publication_for_verif(a[0]);
                match r {
                    Ok(p) => {
                        let h = self.take_handle::<()>(1, a[0], Handle::XPub(p), |x, y| match (x, y) {
                            (Handle::XPub(x), Handle::XPub(y)) => Arc::ptr_eq(x, y),
                            _ => false,
                        });
                        ok_list(&[h])
                    },
                    Err(e) => format!("Err {}", err_name(&e)),
                }
            },
            #[cfg(not(verif_find_excl))]
            "fx" => panic!("unknown case kind: fx needs the hook find_exclusive_publication_for_verif (hooks/cond-find-exclusive.diff)"),
            "fs" => {
                let r = self.conductor.lock().unwrap().find_subscription(a[0]);
                match r {
                    Ok(p) => {
                        let h = self.take_handle::<()>(2, a[0], Handle::Sub(p), |x, y| match (x, y) {
                            (Handle::Sub(x), Handle::Sub(y)) => Arc::ptr_eq(x, y),
                            _ => false,
                        });
                        ok_list(&[h])
                    },
                    Err(e) => format!("Err {}", err_name(&e)),
                }
            },
            "fc" => {
                let r = self.conductor.lock().unwrap().find_counter(a[0]);
                match r {
                    Ok(p) => {
                        let h = self.take_handle::<()>(3, a[0], Handle::Ctr(p), |x, y| match (x, y) {
                            (Handle::Ctr(x), Handle::Ctr(y)) => Arc::ptr_eq(x, y),
                            _ => false,
                        });
                        ok_list(&[h])
                    },
                    Err(e) => format!("Err {}", err_name(&e)),
                }
            },
            "fd" => {
                let r = self.conductor.lock().unwrap().find_destination_response(a[0]);
                match r {
                    Ok(v) => ok_list(&[v as i64]),
                    Err(e) => format!("Err {}", err_name(&e)),
                }
            },
            "dp" | "dx" | "ds" | "dc" | "Dp" | "Dx" | "Ds" | "Dc" => {
                let k = match w[0] {
                    "dp" | "Dp" => 0,
                    "dx" | "Dx" => 1,
                    "ds" | "Ds" => 2,
                    _ => 3,
                };
                match self.held.remove(&(k, a[0])) {
                    Some(list) => {
                        // "drop while locked": another thread (the conductor's duty cycle / any API call of the application) is inside
                        // the conductor while the last handle goes away; the destructor has to wait for the mutex and then release
                        let locker = if w[0].starts_with('D') {
                            let c = self.conductor.clone();
                            let (stx, srx) = mpsc::channel::<()>();
                            let t = std::thread::spawn(move || {
                                let g = c.lock();
                                let _ = stx.send(());
                                std::thread::sleep(LOCK_HOLD);
                                drop(g);
                            });
                            let _ = srx.recv_timeout(WATCHDOG);
                            Some(t)
                        } else {
                            None
                        };
                        // one destructor at a time: a destructor that panics while another panic unwinds aborts the process
                        let mut panicked = false;
                        for (_h, handle) in list {
                            if vcommon::catch(move || drop(handle)).is_err() {
                                panicked = true;
                            }
                        }
                        if let Some(t) = locker {
                            let _ = t.join();
                        }
                        if panicked {
                            panic!("a handle's destructor panicked");
                        }
                        ok_list(&[1])
                    },
                    None => ok_list(&[0]),
                }
            },
            "cp" | "cx" => {
                let k = if w[0] == "cp" { 0 } else { 1 };
                match self.held.get(&(k, a[0])).and_then(|l| l.last()) {
                    Some((_h, Handle::Pub(p))) => {
                        p.lock().unwrap().close();
                        ok_list(&[1])
                    },
                    Some((_h, Handle::XPub(p))) => {
                        p.lock().unwrap().close();
                        ok_list(&[1])
                    },
                    _ => ok_list(&[0]),
                }
            },
            "pp" | "px" | "ps" | "pc" => {
                let k = match w[0] {
                    "pp" => 0,
                    "px" => 1,
                    "ps" => 2,
                    _ => 3,
                };
                match self.held.get(&(k, a[0])).and_then(|l| l.last()) {
                    None => ok_list(&[]),
                    Some((h, Handle::Pub(p))) => {
                        let p = p.lock().unwrap();
                        ok_list(&[*h, p.is_closed() as i64, 0, p.session_id() as i64, p.channel_status_id() as i64, p.original_registration_id()])
                    },
                    Some((h, Handle::XPub(p))) => {
                        let p = p.lock().unwrap();
                        ok_list(&[*h, p.is_closed() as i64, 0, p.session_id() as i64, p.channel_status_id() as i64, 0])
                    },
                    Some((h, Handle::Sub(p))) => {
                        let p = p.lock().unwrap();
                        ok_list(&[*h, p.is_closed() as i64, p.image_count() as i64, p.channel_status_id() as i64, 0, 0])
                    },
                    Some((h, Handle::Ctr(p))) => ok_list(&[*h, p.is_closed() as i64, 0, p.id() as i64, 0, 0]),
                }
            },
            "cl" => match self.conductor.lock().unwrap().on_close() {
                Ok(()) => ok_list(&[0]),
                Err(e) => format!("Err {}", err_name(&e)),
            },
            "tk" => {
                CLOCK_MS.fetch_add(a[0] as u64, Ordering::SeqCst);
                ok_list(&[])
            },
            "cs" => {
                SCRIPT.with(|s| s.set(a[0]));
                ok_list(&[])
            },
            "hb" => {
                self.ring.set_consumer_heartbeat_time(a[0]);
                ok_list(&[])
            },
            "hc" => {
                let off = CountersReader::metadata_offset(HB_SLOT);
                let (ty, key, state) = match a[0] {
                    1 => (11, self.client_id, counters::RECORD_ALLOCATED),
                    2 => (11, self.client_id, counters::RECORD_RECLAIMED),
                    3 => (11, self.client_id.wrapping_add(1000), counters::RECORD_ALLOCATED),
                    _ => (12, self.client_id, counters::RECORD_ALLOCATED),
                };
                self.counter_metadata.put::<i32>(off + *counters::TYPE_ID_OFFSET, ty);
                self.counter_metadata.put::<i64>(off + *counters::KEY_OFFSET, key);
                self.counter_metadata.put_ordered::<i32>(off, state);
                ok_list(&[])
            },
            "rf" => {
                if a[0] == 1 {
                    // a silent driver: fill the ring until not even the smallest command (16 bytes + header) fits
                    let filler = AlignedBuffer::with_capacity(8192);
                    let fb = AtomicBuffer::from_aligned(&filler);
                    let mut len = self.ring.max_msg_len();
                    while len >= 16 {
                        if self.ring.write(AeronCommand::ClientKeepAlive, fb, 0, len).is_err() {
                            len /= 2;
                        }
                    }
                    while self.ring.write(AeronCommand::ClientKeepAlive, fb, 0, 16).is_ok() {}
                    self.full = true;
                } else {
                    self.ring.read_all(|_t, _b: AtomicBuffer| {});
                    self.ring.read_all(|_t, _b: AtomicBuffer| {});
                    self.full = false;
                }
                ok_list(&[])
            },
            "w" | "wl" | "wo" | "we" => {
                match w[0] {
                    "wl" => {
                        // more than the capacity of the broadcast buffer: the receiver is lapped
                        let b = AtomicBuffer::from_aligned(&self.scratch);
                        b.set_memory(0, 4000, 0);
                        b.put::<i64>(0, -77);
                        for _ in 0..20 {
                            self.transmit(0xF04, 4000);
                        }
                    },
                    "wo" => {
                        let b = AtomicBuffer::from_aligned(&self.scratch);
                        b.set_memory(0, 5000, 0);
                        b.put::<i64>(0, -77);
                        self.transmit(0xF04, 5000);
                    },
                    "we" => self.send_event(&w[1..]),
                    _ => {},
                }
                let r = self.conductor.lock().unwrap().do_work();
                match r {
                    Ok(n) => ok_list(&[n as i64]),
                    Err(e) => format!("Err {}", err_name(&e)),
                }
            },
            other => panic!("unknown case kind: op {}", other),
        }
    }
}

fn scratch_dir() -> PathBuf {
    // <build>/cargo/<profile>/c09 -> <build>/scratch/<pid>
    let exe = std::env::current_exe().expect("exe");
    let build = exe.parent().and_then(|p| p.parent()).and_then(|p| p.parent()).expect("build dir").to_path_buf();
    build.join("scratch").join(std::process::id().to_string())
}

fn make_log_file(dir: &PathBuf) -> String {
    std::fs::create_dir_all(dir).expect("scratch dir");
    let path = dir.join("term.logbuffer");
    let term: i32 = lbd::TERM_MIN_LENGTH;
    let total = term as u64 * 3 + lbd::LOG_META_DATA_LENGTH as u64;
    let mut meta = vec![0u8; lbd::LOG_META_DATA_LENGTH as usize];
    let mut put = |off: i32, v: i32| meta[off as usize..off as usize + 4].copy_from_slice(&v.to_le_bytes());
    put(*lbd::LOG_MTU_LENGTH_OFFSET, 1408);
    put(*lbd::LOG_TERM_LENGTH_OFFSET, term);
    put(*lbd::LOG_PAGE_SIZE_OFFSET, 4096);
    put(*lbd::LOG_INITIAL_TERM_ID_OFFSET, 0);
    put(*lbd::LOG_DEFAULT_FRAME_HEADER_LENGTH_OFFSET, 32);
    let mut f = std::fs::File::create(&path).expect("log file");
    f.set_len(total).expect("set_len");
    use std::io::{Seek, SeekFrom};
    f.seek(SeekFrom::Start(term as u64 * 3)).unwrap();
    f.write_all(&meta).unwrap();
    f.sync_all().ok();
    path.to_string_lossy().to_string()
}

/// close_all_resources walks HashMaps: within one run of consecutive unavailable-image (unavailable-counter)
/// callbacks the groups are put in the order of their registration ids (stable, so the images of one
/// subscription keep their order).
fn canon(cbs: Vec<String>) -> Vec<String> {
    let key = |s: &str| -> (String, i64) {
        let mut it = s.split_whitespace();
        let name = it.next().unwrap_or("").to_string();
        let id = it.next().map(|t| t.trim_matches(|c| c == '(' || c == ')').parse::<i64>().unwrap_or(0)).unwrap_or(0);
        (name, id)
    };
    let mut out: Vec<String> = Vec::new();
    let mut i = 0;
    while i < cbs.len() {
        let (name, _) = key(&cbs[i]);
        if name == "CbUnavailImg" || name == "CbUnavailCtr" {
            let mut j = i;
            while j < cbs.len() && key(&cbs[j]).0 == name {
                j += 1;
            }
            let mut run: Vec<String> = cbs[i..j].to_vec();
            run.sort_by_key(|s| key(s).1);
            out.extend(run);
            i = j;
        } else {
            out.push(cbs[i].clone());
            i += 1;
        }
    }
    out
}

const WATCHDOG: Duration = Duration::from_millis(3000);
/// how long the helper thread of a "drop while locked" (Dp / Dx / Ds / Dc) keeps the conductor mutex
const LOCK_HOLD: Duration = Duration::from_millis(150);
const DEADLOCK_GRACE: Duration = Duration::from_millis(400);

fn run_case(line: &str, log_file: &str) -> String {
    let (head, body) = line.split_once('|').unwrap_or_else(|| panic!("unknown case kind: {}", line));
    let hw: Vec<&str> = head.split_whitespace().collect();
    if hw.first() != Some(&"hist") {
        panic!("unknown case kind: {}", line);
    }
    let cfg = vcommon::ints(&hw[1..]);
    let ops: Vec<String> = body.split(';').map(|s| s.trim().to_string()).filter(|s| !s.is_empty()).collect();
    let n = ops.len();
    let (tx, rx) = mpsc::channel::<String>();
    let lf = log_file.to_string();
    let worker = std::thread::Builder::new()
        .stack_size(8 << 20)
        .spawn(move || {
            let mut client = Client::new(cfg[0], cfg[1] as u64, cfg[2] as u64, cfg[3] as u64, &lf);
            for o in ops {
                let w: Vec<&str> = o.split_whitespace().collect();
                LOG.with(|l| l.borrow_mut().clear());
                let r = vcommon::catch(|| client.op(&w));
                let (res, stop) = match r {
                    Ok(s) => (s, false),
                    Err(()) => ("Panic".to_string(), true),
                };
                let cbs = canon(LOG.with(|l| l.borrow().clone())).join("; ");
                let cmds = if stop || client.full { String::new() } else { vcommon::catch(|| client.drain_commands()).map(|v| v.join("; ")).unwrap_or_default() };
                let _ = tx.send(format!("({}, [{}], [{}])", res, cbs, cmds));
                if stop {
                    break;
                }
            }
            // handles go first, then the buffers
            let held = std::mem::take(&mut client.held);
            for (_k, list) in held {
                for (_h, handle) in list {
                    let _ = vcommon::catch(move || drop(handle));
                }
            }
            drop(tx);
            // the conductor is never freed (Arc cycle in the implementation): keep its buffers alive too
            std::mem::forget(client);
        })
        .expect("spawn");
    let mut outs: Vec<String> = Vec::new();
    let mut hung = false;
    DEADLOCK_PENDING.store(false, Ordering::SeqCst);
    while outs.len() < n {
        // wait for the operation in small slices: a callback that announced its dead-lock is given a short grace period only
        let t0 = std::time::Instant::now();
        let got = loop {
            match rx.recv_timeout(Duration::from_millis(20)) {
                Err(mpsc::RecvTimeoutError::Timeout) => {
                    let e = t0.elapsed();
                    if e >= WATCHDOG || (DEADLOCK_PENDING.load(Ordering::SeqCst) && e >= DEADLOCK_GRACE) {
                        break Err(mpsc::RecvTimeoutError::Timeout);
                    }
                },
                other => break other,
            }
        };
        match got {
            Ok(s) => {
                let stop = s.starts_with("(Panic");
                outs.push(s);
                if stop {
                    break;
                }
            },
            Err(mpsc::RecvTimeoutError::Timeout) => {
                outs.push("(Hang, [], [])".to_string());
                hung = true;
                break;
            },
            Err(mpsc::RecvTimeoutError::Disconnected) => break,
        }
    }
    if !hung {
        // let the worker finish dropping its handles (bounded: a dead-lock there must not stop the run)
        let t0 = std::time::Instant::now();
        while !worker.is_finished() && t0.elapsed() < WATCHDOG {
            std::thread::sleep(Duration::from_millis(1));
        }
    }
    format!("[{}]", outs.join("; "))
}

fn main() {
    let dir = scratch_dir();
    let log_file = make_log_file(&dir);
    vcommon::run_lines(|line| run_case(line, &log_file));
    let _ = std::fs::remove_dir_all(&dir);
}
