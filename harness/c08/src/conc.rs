//! concurrent cases: one transmitter thread and one copying-receiver thread under a given schedule
//!
//!   conc <cap> <c0> <nrecv> <schedule|-> <op>*
//!       schedule: comma separated thread ids (0 = transmitter, 1 = receiver), `-` for the empty schedule
//!       ops:  P<ty>:<k>:<len>  transmit before the receiver exists (not scheduled)
//!             M<ty>:<k>:<len>  message the transmitter thread sends (in order)
//!   observation: CObs trace tx_done rx_results rx_end lapped words   (see Model/BroadcastShow.v)
use crate::{do_receive, do_transmit, hex, make_buffer, parse_msg, sparse_runs};
use aeron_rs::concurrent::broadcast::broadcast_receiver::BroadcastReceiver;
use aeron_rs::concurrent::broadcast::broadcast_transmitter::BroadcastTransmitter;
use aeron_rs::concurrent::broadcast::copy_broadcast_receiver::CopyBroadcastReceiver;
use aeron_rs::verif_hook::AccessKind;
use std::sync::{Arc, Mutex};
use vcommon::sched::{self, Event, Region};

struct Sendable<T>(T);
unsafe impl<T> Send for Sendable<T> {}

fn fmt_event(e: &Event) -> String {
    let private = e.region == usize::MAX;
    let (val, val2) = match e.kind {
        AccessKind::CopyFrom => match e.src {
            Some((r, o)) => (o, r as i64),
            None => (-1, -1),
        },
        _ => (e.val, e.val2),
    };
    format!(
        "({}, {:?}, {}, {}, {}, {}, {}, {})",
        e.tid,
        e.kind,
        if private { -1 } else { e.region as i64 },
        if private { -1 } else { e.offset },
        e.len as u64,
        val,
        val2,
        e.before
    )
}

pub fn case_conc(parts: &[&str]) -> String {
    let cap: i32 = parts[0].parse().unwrap();
    let c0: i64 = parts[1].parse().unwrap();
    let nrecv: usize = parts[2].parse().unwrap();
    let schedule: Vec<usize> = if parts[3] == "-" { vec![] } else { parts[3].split(',').map(|x| x.parse().unwrap()).collect() };
    let (mem, buf) = make_buffer(cap, c0);
    let mut tx = BroadcastTransmitter::new(buf).expect("transmitter");
    let mut msgs: Vec<(i32, i64, i32)> = Vec::new();
    for o in &parts[4..] {
        let m = parse_msg(&o[1..]);
        if o.starts_with('P') {
            let _ = do_transmit(&mut tx, m.0, m.1, m.2);
        } else {
            msgs.push(m);
        }
    }
    let inner = Arc::new(Mutex::new(BroadcastReceiver::new(buf).expect("receiver")));
    let rx = CopyBroadcastReceiver::new(inner.clone());
    let regions = vec![Region { base: mem.ptr() as usize, len: mem.len() as usize }];
    let tx_done = Arc::new(Mutex::new(0i64));
    let rx_out: Arc<Mutex<Vec<String>>> = Arc::new(Mutex::new(Vec::new()));
    let mut bodies: Vec<Box<dyn FnOnce() -> String + Send>> = Vec::new();
    {
        let tx_done = tx_done.clone();
        let txs = Sendable(tx);
        bodies.push(Box::new(move || {
            let txs = txs;
            let mut tx = txs.0;
            for (ty, k, len) in msgs {
                if let Ok(Ok(())) = do_transmit(&mut tx, ty, k, len) {
                    *tx_done.lock().unwrap() += 1;
                }
            }
            String::new()
        }));
    }
    {
        let rx_out = rx_out.clone();
        let rxs = Sendable(rx);
        bodies.push(Box::new(move || {
            let rxs = rxs;
            let mut rx = rxs.0;
            for _ in 0..nrecv {
                // no catch here: a panic inside receive ends the thread, as it would end a client conductor
                let mut got: Vec<String> = Vec::new();
                let r = rx.receive(|cmd, b, off, len| {
                    let bytes: Vec<u8> = (0..len).map(|i| b.get::<u8>(off + i)).collect();
                    got.push(format!("SMsg {} \"{}\"", crate::code_of(cmd), hex(&bytes)));
                });
                let s = match r {
                    Ok(0) => "SNone".to_string(),
                    Ok(_) => got.pop().unwrap_or_else(|| "SBad 1 0".to_string()),
                    Err(e) => format!("SErr {}", crate::err_name(&e)),
                };
                rx_out.lock().unwrap().push(s);
            }
            String::new()
        }));
    }
    let res = sched::run(regions, bodies, &schedule, &[None, None]);
    let trace: Vec<String> = res.trace.iter().map(fmt_event).collect();
    let rend = if res.panicked[1] { "RPanicked" } else { "RLive" };
    let lapped: i64 = if res.panicked[1] {
        -1
    } else {
        match inner.lock() {
            Ok(g) => g.lapped_count() as i64,
            Err(p) => p.into_inner().lapped_count() as i64,
        }
    };
    let out = rx_out.lock().unwrap().join("; ");
    let done = *tx_done.lock().unwrap();
    format!("CObs [{}] {} [{}] {} {} {}", trace.join("; "), done, out, rend, if lapped < 0 { "(-1)".to_string() } else { lapped.to_string() }, sparse_runs(&buf))
}
