//! concurrent cases (scheduler) - filled in below
pub fn case_conc(_parts: &[&str]) -> String {
    "Unimplemented".to_string()
}
