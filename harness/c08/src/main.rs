//! C08 harness: driver-to-client broadcast buffer.
//!
//! cases (one per line):
//!   seq <cap> <c0> <op>*
//!       ops:  P<ty>:<k>:<len>  transmit before the receiver exists (payload k, len bytes)
//!             T<ty>:<k>:<len>  transmit
//!             R                CopyBroadcastReceiver::receive
//!             D                sparse dump of the whole buffer (data + trailer)
//!       The three trailer counters are written directly to c0 over a zeroed buffer before the
//!       transmitter is created. Observation: list of per-op results in Coq syntax (see Model/Broadcast.v `obs`);
//!       the list ends at the first panic.
//!   conc ... see conc.rs
use aeron_rs::command::control_protocol_events::AeronCommand;
use aeron_rs::concurrent::atomic_buffer::{AlignedBuffer, AtomicBuffer};
use aeron_rs::concurrent::broadcast::broadcast_receiver::BroadcastReceiver;
use aeron_rs::concurrent::broadcast::broadcast_transmitter::BroadcastTransmitter;
use aeron_rs::concurrent::broadcast::copy_broadcast_receiver::CopyBroadcastReceiver;
use aeron_rs::concurrent::broadcast::{broadcast_buffer_descriptor as bbd, BroadcastTransmitError};
use std::sync::{Arc, Mutex};
use vcommon::{catch, payload};

mod conc;

pub fn err_name(e: &BroadcastTransmitError) -> &'static str {
    match e {
        BroadcastTransmitError::EncodedMessageExceedsMaxMsgLength { .. } => "TooLong",
        BroadcastTransmitError::NotPowerOfTwo(_) => "IllegalArg",
        BroadcastTransmitError::MessageIdShouldBeGreaterThenZero(_) => "IllegalArg",
        BroadcastTransmitError::UnableToKeepUpWithBroadcastBuffer => "UnableToKeepUp",
        BroadcastTransmitError::BufferTooSmall { .. } => "InsufficientCapacity",
    }
}

/// protocol code of an event as the handler sees it (the enum discriminant of
/// ResponseOnUnavailableCounter is C14's business, not this property's)
pub fn code_of(c: AeronCommand) -> i32 {
    if c == AeronCommand::ResponseOnUnavailableCounter {
        0xF09
    } else {
        c as i32
    }
}

pub fn hex(bytes: &[u8]) -> String {
    let mut s = String::with_capacity(bytes.len() * 2);
    for b in bytes {
        s.push_str(&format!("{:02x}", b));
    }
    s
}

/// maximal runs of non-zero 32-bit words: `[(offset, "hex of the run's bytes"); ...]`
pub fn sparse_runs(buf: &AtomicBuffer) -> String {
    let cap = buf.capacity();
    let mut items: Vec<String> = Vec::new();
    let mut cur: Option<(i32, Vec<u8>)> = None;
    let mut off = 0;
    while off + 4 <= cap {
        let w: Vec<u8> = (0..4).map(|i| buf.get::<u8>(off + i)).collect();
        if w.iter().all(|b| *b == 0) {
            if let Some((o, bs)) = cur.take() {
                items.push(format!("({}, \"{}\")", o, hex(&bs)));
            }
        } else {
            match cur.as_mut() {
                Some((_, bs)) => bs.extend_from_slice(&w),
                None => cur = Some((off, w)),
            }
        }
        off += 4;
    }
    if let Some((o, bs)) = cur.take() {
        items.push(format!("({}, \"{}\")", o, hex(&bs)));
    }
    format!("[{}]", items.join("; "))
}

pub fn make_buffer(cap: i32, c0: i64) -> (AlignedBuffer, AtomicBuffer) {
    let mem = AlignedBuffer::with_capacity(cap + bbd::TRAILER_LENGTH);
    let buf = AtomicBuffer::from_aligned(&mem);
    buf.put::<i64>(cap + bbd::TAIL_INTENT_COUNTER_OFFSET, c0);
    buf.put::<i64>(cap + bbd::TAIL_COUNTER_OFFSET, c0);
    buf.put::<i64>(cap + bbd::LATEST_COUNTER_OFFSET, c0);
    (mem, buf)
}

pub fn parse_msg(s: &str) -> (i32, i64, i32) {
    let p: Vec<&str> = s.split(':').collect();
    (p[0].parse().unwrap(), p[1].parse().unwrap(), p[2].parse().unwrap())
}

pub fn do_transmit(tx: &mut BroadcastTransmitter, ty: i32, k: i64, len: i32) -> Result<Result<(), BroadcastTransmitError>, ()> {
    let bytes = payload(k, len.max(0) as usize);
    let src_mem = AlignedBuffer::with_capacity(len.max(8));
    let src = AtomicBuffer::from_aligned(&src_mem);
    src.put_bytes(0, &bytes);
    catch(|| tx.transmit(ty, &src, 0, len))
}

/// one receive; returns the `rres` term
pub fn do_receive(rx: &mut CopyBroadcastReceiver) -> Result<String, ()> {
    let mut got: Vec<String> = Vec::new();
    let r = catch(|| {
        rx.receive(|cmd, buf, off, len| {
            let bytes: Vec<u8> = (0..len).map(|i| buf.get::<u8>(off + i)).collect();
            got.push(format!("SMsg {} \"{}\"", code_of(cmd), hex(&bytes)));
        })
    })?;
    Ok(match r {
        Ok(0) => "SNone".to_string(),
        Ok(n) => {
            if n == 1 && got.len() == 1 {
                got.pop().unwrap()
            } else {
                format!("SBad {} {}", n, got.len())
            }
        }
        Err(e) => {
            if got.is_empty() {
                format!("SErr {}", err_name(&e))
            } else {
                format!("SBad 0 {}", got.len()) // an error after the handler ran
            }
        }
    })
}

fn case_seq(parts: &[&str]) -> String {
    let cap: i32 = parts[0].parse().unwrap();
    let c0: i64 = parts[1].parse().unwrap();
    let (_mem, buf) = make_buffer(cap, c0);
    let mut tx = BroadcastTransmitter::new(buf).expect("transmitter");
    let mut ops = &parts[2..];
    while !ops.is_empty() && ops[0].starts_with('P') {
        let (ty, k, len) = parse_msg(&ops[0][1..]);
        let _ = do_transmit(&mut tx, ty, k, len);
        ops = &ops[1..];
    }
    let inner = Arc::new(Mutex::new(BroadcastReceiver::new(buf).expect("receiver")));
    let mut rx = CopyBroadcastReceiver::new(inner.clone());
    let mut out: Vec<String> = Vec::new();
    for o in ops {
        let c = o.as_bytes()[0];
        match c {
            b'T' => {
                let (ty, k, len) = parse_msg(&o[1..]);
                match do_transmit(&mut tx, ty, k, len) {
                    Ok(Ok(())) => out.push("STxOk".into()),
                    Ok(Err(e)) => out.push(format!("STxErr {}", err_name(&e))),
                    Err(()) => {
                        out.push("SPanic".into());
                        break;
                    }
                }
            }
            b'R' => match do_receive(&mut rx) {
                Ok(r) => {
                    let lp = inner.lock().map(|g| g.lapped_count()).unwrap_or(u64::MAX);
                    out.push(format!("SRx {} ({})", lp, r));
                }
                Err(()) => {
                    out.push("SPanic".into());
                    break;
                }
            },
            b'D' => out.push(format!("SWords {}", sparse_runs(&buf))),
            _ => panic!("unknown case kind op {}", o),
        }
    }
    format!("[{}]", out.join("; "))
}

fn main() {
    vcommon::run_lines(|line| {
        let parts: Vec<&str> = line.split_whitespace().collect();
        match parts[0] {
            "seq" => case_seq(&parts[1..]),
            "conc" => conc::case_conc(&parts[1..]),
            other => panic!("unknown case kind {}", other),
        }
    });
}
