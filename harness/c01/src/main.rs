//! C01 harness ("stream fidelity"): one publisher (shared Publication or ExclusivePublication), one real Image over
//! the SAME in-memory log and a real FragmentAssembler behind the image's fragment handler.
//!
//! case line:  hist <kind> <tlen> <mtu> <init> <n0> <off0> | op ; op ; ...
//!   kind: s = shared Publication, x = ExclusivePublication (built as harness/c04/src/hist.rs builds them)
//!   the image joins at position n0 * tlen + off0 (subscriber position counter 2 of the client's counter values buffer)
//!   the assembler's initial buffer length is the default, except 64 when (n0 + off0 + tlen) % 3 == 0 (growth exercised)
//!   ops:  o <k> <len>   offer message k = vcommon::payload(k, len) through offer_opt with the harness reserved-value supplier
//!         b <k> <l1> <l2> ..  the same through offer_bulk with buffers of l1, l2, .. bytes (shared publication)
//!         c <len>       try_claim(len) on the one BufferClaim of the history
//!         m <k>         write vcommon::payload(k, claim.length()) into the claimed range, then commit()
//!         a             abort()
//!         p <limit>     image.poll(tap -> assembler handler, limit)
//!         l <v>         publication limit counter := v
//!         z <i>         zero partition i
//!         n <0|1>       is-connected flag
//!         x             publication.close()
//! observation: one entry per op
//!   (result, [frag; ...], [msg; ...], publication.position(), image.position())
//!   frag = (offset, length, flags, Ok (header.position()) | Panic, session, term id, reserved value, hash of the bytes)
//!          for every call of the handler given to image.poll (what FragmentAssembler::on_fragment receives)
//!   msg  = (session, length, hash) for every call of the assembler's delegate
//!   hash: h = 7; for each byte b: h = (h * 31 + b + 1) mod 1000000007
use std::cell::RefCell;
use std::ffi::CString;

use aeron_rs::concurrent::atomic_buffer::AtomicBuffer;
use aeron_rs::concurrent::logbuffer::buffer_claim::BufferClaim;
use aeron_rs::concurrent::logbuffer::header::Header;
use aeron_rs::concurrent::logbuffer::log_buffer_descriptor as lbd;
use aeron_rs::concurrent::position::{ReadablePosition, UnsafeBufferPosition};
use aeron_rs::exclusive_publication::ExclusivePublication;
use aeron_rs::fragment_assembler::FragmentAssembler;
use aeron_rs::image::Image;
use aeron_rs::publication::Publication;
use aeron_rs::utils::errors::AeronError;
use aeron_rs::utils::types::Index;
use vcommon::client::{TestClient, TestLog};
use vcommon::{catch, fmt_outcome, fmt_result, payload};

const SESSION: i32 = 11;
const STREAM: i32 = 22;

// the reserved-value supplier of harness/c04/src/hist.rs (Model/Publication.v harness_rv): position part + checksum of the payload
fn harness_rv(b: AtomicBuffer, off: Index, flen: Index) -> i64 {
    let mut sum: i64 = 0;
    let mut i: i64 = 1;
    let mut at = off + 32;
    while at < off + flen {
        sum = sum.wrapping_add(i.wrapping_mul(b.get::<u8>(at) as i64));
        i += 1;
        at += 1;
    }
    (off as i64 * 1000003 + flen as i64 * 7 + 1).wrapping_add(sum)
}

fn image_error_handler(_e: AeronError) {}

enum Pubn {
    S(Publication),
    X(ExclusivePublication),
}

fn bhash(buffer: &AtomicBuffer, offset: Index, length: Index) -> i64 {
    let mut h: i64 = 7;
    if length > 0 {
        for b in buffer.as_sub_slice(offset, length) {
            h = (h * 31 + *b as i64 + 1) % 1_000_000_007;
        }
    }
    h
}

fn ints(words: &[&str]) -> Vec<i64> {
    words.iter().map(|x| x.parse::<i64>().unwrap_or_else(|_| panic!("bad int {}", x))).collect()
}

fn run_history(spec: &str) -> String {
    let (head, ops) = spec.split_once('|').unwrap_or((spec, ""));
    let h: Vec<&str> = head.split_whitespace().collect();
    let g = ints(&h[1..]);
    let (tlen, mtu, init, n0, off0) = (g[0] as i32, g[1] as i32, g[2] as i32, g[3] as i32, g[4] as i32);

    // `client` first: it owns the conductor's buffers and must be dropped last
    let client = TestClient::new();
    let log = TestLog::new(tlen, mtu, init, n0, off0, SESSION, STREAM);
    let limit = UnsafeBufferPosition::new(client.counter_values_buffer(), 1);
    let sub_pos = UnsafeBufferPosition::new(client.counter_values_buffer(), 2);
    sub_pos.set(n0 as i64 * tlen as i64 + off0 as i64);
    let chan = CString::new("aeron:ipc").unwrap();
    let mut p = match h[0] {
        "s" => Pubn::S(Publication::new(client.conductor.clone(), chan, 7, 7, STREAM, SESSION, limit.clone(), -1, log.log_buffers.clone())),
        "x" => Pubn::X(ExclusivePublication::new(client.conductor.clone(), chan, 7, STREAM, SESSION, limit.clone(), -1, log.log_buffers.clone())),
        other => panic!("unknown case kind {}", other),
    };
    let mut image = Image::create_for_verif(
        SESSION,
        101,
        202,
        CString::new("verif").unwrap(),
        &sub_pos,
        log.log_buffers.clone(),
        Box::new(image_error_handler),
    );
    let mut claim = BufferClaim::default();

    let frags: RefCell<Vec<String>> = RefCell::new(Vec::new());
    let msgs: RefCell<Vec<String>> = RefCell::new(Vec::new());
    let mut delegate = |b: &AtomicBuffer, o: Index, l: Index, hd: &Header| {
        let sess = hd.session_id();
        msgs.borrow_mut().push(format!("({}, {}, {})", sess, l, bhash(b, o, l)));
    };
    let small = (n0 as i64 + off0 as i64 + tlen as i64).rem_euclid(3) == 0;
    let mut assembler = FragmentAssembler::new(&mut delegate, if small { Some(64) } else { None });
    // FragmentAssembler::handler borrows the assembler for its whole lifetime: one closure, reused by every poll
    let mut inner = assembler.handler();
    let mut tap = |b: &AtomicBuffer, o: Index, l: Index, hd: &Header| {
        let hp = catch(|| hd.position());
        frags.borrow_mut().push(format!(
            "({}, {}, {}, {}, {}, {}, {}, {})",
            o,
            l,
            hd.flags() as i64,
            fmt_outcome(hp),
            hd.session_id(),
            hd.term_id(),
            hd.reserved_value(),
            bhash(b, o, l)
        ));
        inner(b, o, l, hd);
    };

    let mut out: Vec<String> = Vec::new();
    for op in ops.split(';') {
        let op = op.trim();
        if op.is_empty() {
            continue;
        }
        let w: Vec<&str> = op.split_whitespace().collect();
        let a = ints(&w[1..]);
        frags.borrow_mut().clear();
        msgs.borrow_mut().clear();
        let result: String = match w[0] {
            "o" => {
                let len = a[1] as Index;
                let mut bytes = payload(a[0], a[1].max(0) as usize);
                let buf = AtomicBuffer::wrap_slice(&mut bytes);
                match &mut p {
                    Pubn::S(p) => fmt_result(catch(|| p.offer_opt(buf, 0, len, harness_rv))),
                    Pubn::X(p) => fmt_result(catch(|| p.offer_opt(buf, 0, len, harness_rv))),
                }
            }
            // b <k> <l1> <l2> ...: the same message k of l1 + l2 + ... bytes offered as a list of buffers (shared publication:
            // offer_bulk; the exclusive publication has no vectored offer and gets the contiguous one). By C18 this is the
            // offer of the concatenation, and that is what the model is given.
            "b" => {
                let total: i64 = a[1..].iter().sum();
                let whole = payload(a[0], total.max(0) as usize);
                let mut parts: Vec<Vec<u8>> = Vec::new();
                let mut at = 0usize;
                for l in &a[1..] {
                    parts.push(whole[at..at + *l as usize].to_vec());
                    at += *l as usize;
                }
                match &mut p {
                    Pubn::S(p) => {
                        let bufs: Vec<AtomicBuffer> = parts.iter_mut().map(|v| AtomicBuffer::wrap_slice(v)).collect();
                        fmt_result(catch(|| p.offer_bulk(bufs, harness_rv)))
                    }
                    Pubn::X(p) => {
                        let mut bytes = whole.clone();
                        let buf = AtomicBuffer::wrap_slice(&mut bytes);
                        fmt_result(catch(|| p.offer_opt(buf, 0, total as Index, harness_rv)))
                    }
                }
            }
            "c" => {
                let len = a[0] as Index;
                let cl = &mut claim;
                match &mut p {
                    Pubn::S(p) => fmt_result(catch(|| p.try_claim(len, cl))),
                    Pubn::X(p) => fmt_result(catch(|| p.try_claim(len, cl))),
                }
            }
            "m" => {
                let k = a[0];
                let cl = &mut claim;
                fmt_outcome(catch(|| {
                    let bytes = payload(k, cl.length() as usize);
                    cl.buffer().put_bytes(cl.offset(), &bytes);
                    cl.commit();
                    0
                }))
            }
            "a" => {
                let cl = &mut claim;
                fmt_outcome(catch(|| {
                    cl.abort();
                    0
                }))
            }
            "p" => {
                let lim = a[0] as i32;
                let img = &mut image;
                let t = &mut tap;
                fmt_outcome(catch(|| img.poll(t, lim)))
            }
            "l" => {
                limit.set(a[0]);
                "Ok (0)".to_string()
            }
            "z" => {
                if (0..3).contains(&a[0]) {
                    let t = log.term(a[0] as Index);
                    t.set_memory(0, t.capacity(), 0);
                }
                "Ok (0)".to_string()
            }
            "n" => {
                lbd::set_is_connected(&log.meta(), a[0] != 0);
                "Ok (0)".to_string()
            }
            "x" => {
                match &p {
                    Pubn::S(p) => p.close(),
                    Pubn::X(p) => p.close(),
                }
                "Ok (0)".to_string()
            }
            other => panic!("unknown case kind op {}", other),
        };
        let pubpos = match &p {
            Pubn::S(p) => fmt_result(catch(|| p.position())),
            Pubn::X(p) => fmt_result(catch(|| p.position())),
        };
        let subpos = image.position();
        out.push(format!("({}, [{}], [{}], {}, {})", result, frags.borrow().join("; "), msgs.borrow().join("; "), pubpos, subpos));
    }
    drop(tap);
    format!("[{}]", out.join("; "))
}

fn main() {
    vcommon::run_lines(|line| {
        let (kind, rest) = line.split_once(' ').unwrap_or((line, ""));
        match kind {
            "hist" => run_history(rest),
            other => panic!("unknown case kind {}", other),
        }
    });
}
