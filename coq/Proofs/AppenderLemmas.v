(* Basic facts used by the preservation proof of AppInv: claim chains, frames of a claim, memory updates. *)
Require Import V.Base.MachineInt.
Require Import V.Generated.GenConsts.
Require Import V.Model.LogBase.
Require Import V.Model.Descriptor.
Require Import V.Proofs.DescriptorProofs.
Require Import V.Model.Sched.
Require Import V.Model.AppenderThreads.
Require Import V.Proofs.TailArith.
Require Import V.Proofs.FragArith.
Require Import V.Proofs.AppenderInv.
From Coq Require Import ZifyBool.
Open Scope Z_scope.

(* ---- chains ---- *)
Lemma chain_app b l hi e : chain b l hi -> e_a e = hi -> e_a e < e_b e -> chain b (l ++ [e]) (e_b e).
Proof. revert b. induction l as [|x r IH]; intros b H Ha Hlt; cbn [chain app] in *.
  - subst. auto.
  - destruct H as (H1 & H2 & H3). auto. Qed.

Lemma chain_le b l hi : chain b l hi -> b <= hi /\ forall e, In e l -> b <= e_a e /\ e_a e < e_b e /\ e_b e <= hi.
Proof. revert b. induction l as [|x r IH]; intros b H; cbn [chain] in H.
  - subst. split; [lia | intros e []].
  - destruct H as (H1 & H2 & H3). destruct (IH _ H3) as [I1 I2]. split; [lia|].
    intros e [-> | Hin]; [lia|]. destruct (I2 e Hin) as (? & ? & ?). lia. Qed.

Lemma chain_disjoint b l hi e e' : chain b l hi -> In e l -> In e' l ->
  e = e' \/ e_b e <= e_a e' \/ e_b e' <= e_a e.
Proof. revert b. induction l as [|x r IH]; intros b H He He'; [destruct He|].
  cbn [chain] in H. destruct H as (H1 & H2 & H3). pose proof (chain_le _ _ _ H3) as [_ L].
  destruct He as [-> | He]; destruct He' as [-> | He'].
  - auto.
  - right; left. destruct (L e' He') as (? & _). lia.
  - right; right. destruct (L e He) as (? & _). lia.
  - eapply IH; eauto. Qed.

(* ---- memory updates ---- *)
Lemma mupd_same m p o sl : mupd m p o sl p o = sl.
Proof. unfold mupd. rewrite !Z.eqb_refl. reflexivity. Qed.
Lemma mupd_other m p o sl p' o' : (p', o') <> (p, o) -> mupd m p o sl p' o' = m p' o'.
Proof. intros H. unfold mupd. destruct (p' =? p) eqn:E1; destruct (o' =? o) eqn:E2; cbn; try reflexivity.
  exfalso. apply H. f_equal; lia. Qed.
Lemma mupd_other_off m p o sl o' : o' <> o -> mupd m p o sl p o' = m p o'.
Proof. intros. apply mupd_other. intros E. inversion E. contradiction. Qed.
Lemma mupd_other_part m p o sl p' o' : p' <> p -> mupd m p o sl p' o' = m p' o'.
Proof. intros. apply mupd_other. intros E. inversion E. contradiction. Qed.

(* ---- frames of a claim lie inside the claim ---- *)
Lemma efrags_range c g e o sl : wf_cfg c -> 0 <= e_a e -> e_a e mod 32 = 0 -> e_b e = e_a e + required c (zlen (e_msg e)) ->
  In (o, sl) (efrags c g e) -> e_a e <= o /\ o < e_b e /\ o < TL c /\ 0 < s_len sl /\ o + align (s_len sl) FA <= Z.min (e_b e) (TL c).
Proof. intros W Ha Ham Hb Hin. unfold efrags in Hin.
  assert (Hn : 0 <= zlen (e_msg e)) by (unfold zlen; lia).
  destruct (e_b e <=? TL c) eqn:E1.
  - pose proof (frags_from_laid c (tid_of c g) (e_msg e) W (Z.to_nat (zlen (e_msg e))) (e_a e) (zlen (e_msg e)) F_BEGIN Hn ltac:(lia)) as L.
    rewrite span_required in L by assumption. rewrite <- Hb in L.
    destruct (laid_bounds _ _ _ _ L) as [_ B]. destruct (B o sl Hin) as (B1 & B2 & B3).
    pose proof (align_pos (s_len sl) ltac:(lia)) as [A _]. rewrite FA_32 in *. lia.
  - destruct (e_a e <? TL c) eqn:E2; [|destruct Hin].
    destruct Hin as [Heq | []]. inversion Heq; subst. cbn [pd4 pd3 pd2 pd1 set_len s_len].
    destruct (TL_bounds c W) as [T1 T2].
    assert (Hm : (TL c - e_a e) mod 32 = 0).
    { rewrite Zminus_mod, T2, Ham. reflexivity. }
    rewrite FA_32, align_mult by lia. lia. Qed.

(* ---- fragments laid out back to back have pairwise different offsets ---- *)
Lemma laid_app c b l1 l2 e : laid c b (l1 ++ l2) e -> exists m, laid c b l1 m /\ laid c m l2 e.
Proof. revert b. induction l1 as [|[o sl] r IH]; intros b H; cbn [app] in H.
  - exists b. split; [constructor | assumption].
  - inversion H; subst. destruct (IH _ H6) as (m & M1 & M2). exists m. split; [constructor; assumption | assumption]. Qed.

Lemma laid_mid_distinct c b l1 x sx l2 e : laid c b (l1 ++ (x, sx) :: l2) e ->
  (forall o sl, In (o, sl) l1 -> o < x) /\ (forall o sl, In (o, sl) l2 -> x < o).
Proof. intros H. destruct (laid_app _ _ _ _ _ H) as (m & M1 & M2). inversion M2; subst.
  destruct (laid_bounds _ _ _ _ M1) as (_ & B1). destruct (laid_bounds _ _ _ _ H6) as (_ & B2).
  pose proof (align_pos (s_len sx) ltac:(lia)) as [A _]. rewrite FA_32 in *.
  split.
  - intros o sl Hin. destruct (B1 o sl Hin) as (_ & Hb & Hpos). pose proof (align_pos (s_len sl) ltac:(lia)) as [A' _]. lia.
  - intros o sl Hin. destruct (B2 o sl Hin) as (Hb & _). lia. Qed.

Lemma efrags_data_laid c g e : wf_cfg c -> e_b e <= TL c -> e_b e = e_a e + required c (zlen (e_msg e)) ->
  laid c (e_a e) (efrags c g e) (e_b e).
Proof. intros W Hb He. unfold efrags. replace (e_b e <=? TL c) with true by lia.
  assert (Hn : 0 <= zlen (e_msg e)) by (unfold zlen; lia).
  pose proof (frags_from_laid c (tid_of c g) (e_msg e) W (Z.to_nat (zlen (e_msg e))) (e_a e) (zlen (e_msg e)) F_BEGIN Hn ltac:(lia)) as L.
  rewrite span_required in L by assumption. rewrite <- He in L. exact L. Qed.
