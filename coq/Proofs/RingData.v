(* Interleavings: the data side of the ghost log.  `dlog cfg` = everything delivered so far followed by the
   record pieces still in the ring, with the type and bytes they hold.  Along every run
     - the log only grows, at its end, by tags of producer threads (`log_grows`), so the commands written
       before the threads were started (owner 0) stay in front of everything the threads write;
     - the owner-0 part of `dlog` never changes (`own0_const`): those commands are delivered as they were. *)
Require Import V.Base.MachineInt.
Require Import V.Generated.GenConsts.
Require Import V.Model.LogBase.
Require Import V.Model.Ring.
Require Import V.Model.RingThreads.
Require Import V.Spec.Fifo.
Require Import V.Oracle.C06Oracle.
Require Import V.Proofs.RingArith.
Require Import V.Proofs.RingSeq.
Require Import V.Proofs.RingRender.
Require Import V.Proofs.RingSeqRun.
Require Import V.Proofs.RingConc.
Require Import V.Proofs.RingConcThm.
Require Import V.Proofs.RingLog.
Require Import V.Proofs.RingTrace.
Require Import V.Proofs.RingClaims.
From Coq Require Import ZifyBool Lia.
Open Scope Z_scope.

Definition own0 (x : tmsg) : bool := fst (tag2 x) =? 0.

Lemma tag2_tag_of s : tag2 (tag_of s) = slot_tag s.
Proof. reflexivity. Qed.

(* a store into a slot of a producer thread does not touch the owner-0 commands *)
Lemma own0_upd sl p f : (forall s, s_owner (f s) = s_owner s /\ s_seq (f s) = s_seq s) ->
  (forall s, In s sl -> s_pos s = p -> s_owner s <> 0) ->
  filter own0 (msgs_of (upd_slot sl p f)) = filter own0 (msgs_of sl).
Proof. intros Hf Hp. unfold msgs_of. induction sl as [| s sl IH]; cbn [upd_slot]; [reflexivity |].
  destruct (s_pos s =? p) eqn:E.
  - cbn [filter]. destruct (Hf s) as (A & B).
    assert (E1 : is_rec (f s) = is_rec s) by (unfold is_rec; rewrite B; reflexivity). rewrite E1.
    destruct (is_rec s); [| reflexivity]. cbn [map filter]. unfold own0, tag_of, tag2. cbn [fst]. rewrite A.
    specialize (Hp s ltac:(left; reflexivity) ltac:(lia)). replace (s_owner s =? 0) with false by lia. reflexivity.
  - cbn [filter]. destruct (is_rec s); cbn [map filter]; rewrite IH by (intros x Hx; apply Hp; right; assumption); reflexivity. Qed.

Lemma msgs_of_claim_slots tl pd rq tid k : 0 <= k ->
  msgs_of (claim_slots tl pd rq tid k) = [(tid, k, 0, [])].
Proof. intros Hk. unfold claim_slots, msgs_of. destruct (pd =? 0); cbn [app filter]; unfold is_rec; cbn [s_seq].
  - replace (0 <=? k) with true by lia. reflexivity.
  - replace (0 <=? - 1 - k) with false by lia. replace (0 <=? k) with true by lia. reflexivity. Qed.

Definition grows (cfg cfg' : config) : Prop :=
  filter own0 (dlog cfg') = filter own0 (dlog cfg) /\
  exists extra, log cfg' = log cfg ++ extra /\ Forall (fun t => is_thread t = true) extra.

Lemma grows_refl cfg : grows cfg cfg.
Proof. split; [reflexivity |]. exists []. rewrite app_nil_r. split; [reflexivity | constructor]. Qed.

Lemma grows_trans a b c : grows a b -> grows b c -> grows a c.
Proof. intros (A1 & x1 & B1 & C1) (A2 & x2 & B2 & C2). split; [congruence |].
  exists (x1 ++ x2). rewrite B2, B1, app_assoc. split; [reflexivity | apply Forall_app; split; assumption]. Qed.

Lemma pstep_grows lo m cfg i ps R' ps' e :
  Inv lo cfg -> nth_error (g_prods cfg) i = Some ps ->
  pstep m (g_ring cfg) (Z.of_nat (S i)) ps = (R', ps', Some e) ->
  grows cfg (mkCfg R' (g_cons cfg) (set_nth (g_prods cfg) i ps')).
Proof.
  intros HI Hi Hstep.
  destruct (pstep_cases lo m cfg i ps R' ps' e HI Hi Hstep) as (typ & body & Aw & Ep & Ec & Eh & Hcase).
  cbn zeta in Hcase. destruct cfg as [R cs prods]. cbn [g_ring g_cons g_prods] in *.
  assert (SAME : forall R1 ps1, r_slots R1 = r_slots R -> grows (mkCfg R cs prods) (mkCfg R1 cs (set_nth prods i ps1))).
  { intros R1 ps1 E. unfold grows, dlog, log, pending. cbn [g_ring g_cons]. rewrite E. split; [reflexivity |].
    exists []. rewrite app_nil_r. split; [reflexivity | constructor]. }
  (* a store into the slot at position p, which this thread owns *)
  assert (STORE : forall p f ps1 s0, In s0 (expect (Z.of_nat (S i)) ps) -> s_pos s0 = p ->
            (forall s, s_owner (f s) = s_owner s /\ s_seq (f s) = s_seq s) ->
            grows (mkCfg R cs prods) (mkCfg (set_slots R (upd_slot (r_slots R) p f)) cs (set_nth prods i ps1))).
  { intros p f ps1 s0 Hin0 Hp0 Hf. destruct (i_prods _ _ HI i ps Hi) as (_ & _ & Pex). cbn [g_ring] in Pex.
    pose proof (i_tiled _ _ HI) as Itl. cbn [g_ring g_cons] in Itl.
    split.
    - unfold dlog. cbn [g_ring g_cons set_slots r_slots]. rewrite !filter_app. f_equal.
      apply own0_upd; [exact Hf |]. intros s Hs Hps.
      assert (s = s0) by (eapply tiled_pos_unique; [exact Itl | exact Hs | apply Pex; exact Hin0 | lia]). subst s.
      destruct (expect_owner _ _ _ Hin0) as (O & _). lia.
    - exists []. rewrite app_nil_r. split; [| constructor]. unfold log. cbn [g_ring g_cons]. f_equal. apply pending_upd. exact Hf. }
  pose proof Aw as (Aw1 & _).
  destruct Hcase as [(Q & Et & Es & Ek & Er & A1 & A2) | [(Q & ER & Eps & A1) | [(hd & tl & pd & t2 & Epc & Ee & Hne & ER & Eps) |
      [(hd & tl & pd & Epc & Et & Hpd & Hfit & Ee & ER & Eps) | [(tl & pd & Epc & Hm & Ee & ER & Eps) | [(p & Epc & Hm & Ee & ER & Eps) |
      [(p & Epc & Ee & ER & Eps) | (p & Epc & Hm & Ee & ER & Eps)]]]]]]].
  - apply SAME. assumption.
  - subst R'. apply SAME. reflexivity.
  - subst R'. apply SAME. reflexivity.
  - subst R' ps'. unfold grows, dlog, log. cbn [g_ring g_cons set_slots set_tail r_slots].
    rewrite pending_cas by lia. rewrite msgs_of_app, msgs_of_claim_slots by lia. split.
    + rewrite app_assoc, filter_app. cbn [filter]. unfold own0 at 2. cbn [tag2 fst].
      replace (Z.of_nat (S i) =? 0) with false by lia. rewrite app_nil_r. reflexivity.
    + exists [(Z.of_nat (S i), Z.of_nat (p_k ps))]. rewrite app_assoc. split; [reflexivity |].
      constructor; [| constructor]. unfold is_thread. cbn [fst]. replace (Z.of_nat (S i) =? 0) with false by lia. reflexivity.
  - subst R'. unfold put_hdr. eapply (STORE tl _ ps' (mkSlot tl pd 0 0 [] (Z.of_nat (S i)) (- 1 - Z.of_nat (p_k ps)))); [| reflexivity | intros s; split; reflexivity].
    unfold expect. rewrite Aw1, Epc. left. reflexivity.
  - subst R'. unfold put_hdr. eapply (STORE p _ ps' (mkSlot p (rq_of body) 0 0 [] (Z.of_nat (S i)) (Z.of_nat (p_k ps)))); [| reflexivity | intros s; split; reflexivity].
    unfold expect. rewrite Aw1, Epc. left. reflexivity.
  - subst R'. eapply (STORE p _ ps' (mkSlot p (rq_of body) (- rl_of body) typ [] (Z.of_nat (S i)) (Z.of_nat (p_k ps)))); [| reflexivity | intros s; split; reflexivity].
    unfold expect. rewrite Aw1, Epc. left. reflexivity.
  - subst R'. eapply (STORE p _ ps' (mkSlot p (rq_of body) (- rl_of body) typ body (Z.of_nat (S i)) (Z.of_nat (p_k ps)))); [| reflexivity | intros s; split; reflexivity].
    unfold expect. rewrite Aw1, Epc. left. reflexivity.
Qed.

Lemma step_grows lo m cfg tid cfg' e : Inv lo cfg -> step m cfg tid = Some (cfg', e) -> Inv lo cfg' -> grows cfg cfg'.
Proof. intros HI Hs HI'. unfold step in Hs. destruct tid as [| i].
  - destruct (cstep m (g_ring cfg) (g_cons cfg)) as [[R cs] [evt |]] eqn:E; [| discriminate].
    inversion Hs; subst cfg' e.
    destruct (cstep_log_facts lo m cfg R cs evt HI E (proj1 (inv_no_panic _ _ HI'))) as (A & B & _).
    split.
    + unfold dlog at 1. cbn [g_ring g_cons]. rewrite A. reflexivity.
    + exists []. rewrite app_nil_r. split; [| constructor]. unfold log at 1. cbn [g_ring g_cons]. exact B.
  - destruct (nth_error (g_prods cfg) i) as [ps |] eqn:Ei; [| discriminate].
    destruct (pstep m (g_ring cfg) (Z.of_nat (S i)) ps) as [[R ps'] [evt |]] eqn:E; [| discriminate].
    inversion Hs; subst cfg' e. eapply pstep_grows; eassumption. Qed.

Lemma steps_grows lo m c tr c' : Inv lo c -> steps lo m c tr c' -> grows c c'.
Proof. intros HI Hs. induction Hs as [c | c tid c1 e tr c2 Hst Hw Hs IH]; [apply grows_refl |].
  pose proof (step_inv lo m c tid c1 e HI Hst Hw) as HI1.
  eapply grows_trans; [eapply step_grows; eassumption | apply IH; assumption]. Qed.

(* ---- a list whose tags are "owner-0 tags, then thread tags" splits there ---- *)
Lemma split_by_tags (d : list tmsg) : forall l0 tl, map tag2 d = l0 ++ tl ->
  Forall (fun t => is_thread t = false) l0 -> Forall (fun t => is_thread t = true) tl ->
  exists d0 dt, d = d0 ++ dt /\ map tag2 d0 = l0 /\ map tag2 dt = tl /\ filter own0 d = d0.
Proof. induction d as [| x d IH]; intros l0 tl E F0 Ft.
  - destruct l0; [| discriminate]. destruct tl; [| discriminate]. exists [], []. auto.
  - destruct l0 as [| t0 l0].
    + cbn [app] in E. exists [], (x :: d). split; [reflexivity |]. split; [reflexivity |]. split; [exact E |].
      rewrite <- E in Ft. clear - Ft. induction (x :: d) as [| y l IH]; [reflexivity |]. cbn [map] in Ft. inversion Ft; subst.
      cbn [filter]. unfold own0. unfold is_thread in H1. destruct (fst (tag2 y) =? 0); [discriminate | apply IH; assumption].
    + cbn [map app] in E. inversion E; subst. inversion F0; subst.
      destruct (IH l0 tl H1 H3 Ft) as (d0 & dt & A & B & C & D).
      exists (x :: d0), dt. rewrite A. split; [reflexivity |]. split; [cbn [map]; rewrite B; reflexivity |]. split; [exact C |].
      cbn [filter]. unfold own0 at 1. unfold is_thread in H2. destruct (fst (tag2 x) =? 0); [| discriminate].
      f_equal. rewrite <- A. exact D. Qed.

Lemma filter_own0_all d : Forall (fun x => own0 x = true) d -> filter own0 d = d.
Proof. induction 1; cbn [filter]; [reflexivity |]. rewrite H. f_equal. assumption. Qed.

(* what the sequential prelude left in the ring, as messages *)
Lemma abs_msgs R : wf R -> abs R = map untag (msgs_of (r_slots R)) /\ Forall (fun x => own0 x = true) (msgs_of (r_slots R)).
Proof. intros W. pose proof (chain_good _ _ _ _ (wf_chain _ W)) as G. unfold abs, msgs_of.
  induction G as [| s sl Gs G IH]; cbn [abs_slots flat_map filter map]; [split; [reflexivity | constructor] |].
  destruct IH as (IH1 & IH2). destruct Gs as (_ & _ & _ & _ & _ & _ & Go & Gq). unfold is_rec. rewrite Gq.
  destruct (is_pad s); cbn [Z.leb Z.compare app map].
  - split; assumption.
  - split; [f_equal; exact IH1 |]. constructor; [| exact IH2]. unfold own0, tag_of, tag2. cbn [fst]. rewrite Go. reflexivity. Qed.
