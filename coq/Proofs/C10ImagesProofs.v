(* The image judge of the C10 oracle (every announced image gets exactly one unavailable callback) on the model. *)
Require Import V.Base.MachineInt.
Require Import V.Generated.GenConsts.
Require Import V.Model.Conductor.
Require Import V.Proofs.ConductorBase.
Require Import V.Proofs.ConductorInv.
Require Import V.Proofs.ConductorProofs.
Require Import V.Proofs.ConductorClose.
Require Import V.Oracle.C09Oracle.
Require Import V.Oracle.C10Oracle.
Require Import V.Proofs.C09OracleProofs.
From Coq Require Import ZifyBool.
Open Scope Z_scope.

(* ---- the image map of the judge ---- *)
Lemma iget_iset_same r v m : iget r (iset r v m) = v.
Proof. induction m as [|[k l] m IH]; cbn; [rewrite Z.eqb_refl; reflexivity|].
  destruct (k =? r) eqn:E; cbn; rewrite E; auto. Qed.

Lemma iget_iset_other r r' v m : r' <> r -> iget r' (iset r v m) = iget r' m.
Proof. intros H. induction m as [|[k l] m IH]; cbn.
  - replace (r =? r') with false by lia. reflexivity.
  - destruct (k =? r) eqn:E; cbn.
    + replace (k =? r') with false by lia. reflexivity.
    + destruct (k =? r'); auto. Qed.

Lemma iset_keys r v m x : In x (map fst (iset r v m)) -> x = r \/ In x (map fst m).
Proof. induction m as [|[k l] m IH]; cbn.
  - intros [H|[]]. auto.
  - destruct (k =? r) eqn:E; cbn; intros [H|H]; auto. destruct (IH H); auto. Qed.

Lemma iset_nodup r v m : NoDup (map fst m) -> NoDup (map fst (iset r v m)).
Proof. induction m as [|[k l] m IH]; cbn; intros H.
  - constructor; [intros []|constructor].
  - inversion H; subst. destruct (k =? r) eqn:E; cbn.
    + constructor; auto.
    + constructor; auto. intros Hin. apply iset_keys in Hin. destruct Hin as [Hin|Hin]; [lia|auto]. Qed.

Lemma all_empty_iget m : NoDup (map fst m) -> (forall r, iget r m = []) -> all_empty m = true.
Proof. unfold all_empty. induction m as [|[k l] m IH]; cbn; intros Hn H; auto.
  inversion Hn; subst. pose proof (H k) as Hk. rewrite Z.eqb_refl in Hk. subst l. cbn.
  apply IH; auto. intros r. specialize (H r). destruct (k =? r) eqn:E; auto.
  assert (k = r) by lia. subst r.
  (* r is not a key of m: its list is the default *)
  clear - H2. induction m as [|[k2 l2] m IH]; cbn; auto. cbn in H2. destruct (k2 =? k) eqn:E; [exfalso; apply H2; left; lia|].
  apply IH. intros Hin. apply H2. right. exact Hin. Qed.

Definition is_img_cb (c : cb) : bool := match c with CbAvailImg _ _ _ | CbUnavailImg _ _ _ => true | _ => false end.

Lemma track_app a b m : track_imgs (a ++ b) m = match track_imgs a m with Some m' => track_imgs b m' | None => None end.
Proof. revert m. induction a as [|c a IH]; intros m; cbn; auto.
  destruct c; auto. destruct (closed =? 1); auto. destruct (remove_first img (iget sub m)); auto. Qed.

Lemma track_no_img cbs m : (forall c, In c cbs -> is_img_cb c = false) -> track_imgs cbs m = Some m.
Proof. induction cbs as [|c cbs IH]; cbn; intros H; auto.
  pose proof (H c (or_introl eq_refl)) as Hc. destruct c; try discriminate; apply IH; intros; apply H; auto. Qed.

(* all images of one subscription taken back, in order *)
Lemma track_unavail_all r l : forall m, iget r m = l ->
  track_imgs (map (fun img => CbUnavailImg r img 1) l) m = Some (match l with [] => m | _ => iset r [] m end).
Proof. induction l as [|i l IH]; intros m H; cbn; auto.
  rewrite H. cbn. rewrite Z.eqb_refl. rewrite IH by apply iget_iset_same.
  destruct l; auto. f_equal.
  (* setting twice *)
  clear. induction m as [|[k x] m IH]; cbn; [rewrite Z.eqb_refl; reflexivity|].
  destruct (k =? r) eqn:E; cbn; rewrite E; auto. f_equal. exact IH. Qed.

(* ---- images of the model ---- *)
Definition sub_images (r : Z) (s : st) : list Z := match hobj KSub r s with Some o => o_images o | None => [] end.

Record IM (m : imap) (s : st) : Prop := mkIM {
  IM_eq : forall r, iget r m = sub_images r s;
  IM_nd : NoDup (map fst m)
}.

Definition istep (s : st) (cbs : list cb) (s' : st) : Prop :=
  forall m, IM m s -> exists m', track_imgs cbs m = Some m' /\ IM m' s'.

Lemma istep_quiet s cbs s' :
  (forall c, In c cbs -> is_img_cb c = false) -> (forall r, sub_images r s' = sub_images r s) -> istep s cbs s'.
Proof. intros H1 H2 m [A B]. exists m. split; [apply track_no_img; auto|]. constructor; auto. intros r. rewrite H2. auto. Qed.

Lemma istep_trans a c1 b c2 c : istep a c1 b -> istep b c2 c -> istep a (c1 ++ c2) c.
Proof. intros H1 H2 m Hm. destruct (H1 m Hm) as (m1 & T1 & M1). destruct (H2 m1 M1) as (m2 & T2 & M2).
  exists m2. split; auto. rewrite track_app, T1. exact T2. Qed.

Lemma sub_images_lookup r s s' : lookup r (subs s') = lookup r (subs s) -> sub_images r s' = sub_images r s.
Proof. unfold sub_images, hobj. cbn [getm]. intros ->. reflexivity. Qed.

Lemma istep_same_subs s s' : subs s' = subs s -> istep s [] s'.
Proof. intros H. apply istep_quiet; [intros c []|]. intros r. apply sub_images_lookup. rewrite H. reflexivity. Qed.

Lemma subs_setm_other k m s : k <> KSub -> subs (setm k m s) = subs s.
Proof. destruct k; try reflexivity. congruence. Qed.

(* ---- close_all ---- *)
Definition imgs_of (r : Z) (sm : amap) : list Z :=
  match lookup r sm with Some e => match e_obj e with Some o => o_images o | None => [] end | None => [] end.

Lemma sub_images_imgs_of r s : sub_images r s = imgs_of r (subs s).
Proof. unfold sub_images, imgs_of, hobj. cbn [getm]. destruct (lookup r (subs s)) as [e|]; auto. Qed.

Lemma track_sub_close n sm : map_ok n sm -> forall m,
  (forall r, iget r m = imgs_of r sm) -> NoDup (map fst m) ->
  exists m', track_imgs (sub_close_cbs sm) m = Some m' /\ (forall r, iget r m' = []) /\ NoDup (map fst m').
Proof. unfold sub_close_cbs. induction sm as [|[k e] sm IH]; intros [Hnd F] m Hm Hn.
  - exists m. cbn. split; auto.
  - inversion Hnd; subst. inversion F; subst. cbn in H3. destruct H3 as [_ [_ Hop]].
    assert (Hok : map_ok n sm) by (split; auto).
    assert (Hk : lookup k sm = None) by (apply lookup_none_keys; exact H1).
    unfold objs_of. cbn [flat_map fst snd]. rewrite flat_map_app, track_app.
    assert (Hrest : forall m1, (forall r, r <> k -> iget r m1 = iget r m) -> iget k m1 = [] -> NoDup (map fst m1) ->
              exists m', track_imgs (flat_map (fun p => snd (close_sub_obj (fst p) (snd p))) (objs_of sm)) m1 = Some m' /\
                         (forall r, iget r m' = []) /\ NoDup (map fst m')).
    { intros m1 H1' H2' H3'. apply (IH Hok m1); auto. intros r. destruct (Z.eq_dec r k) as [->|Hne].
      - rewrite H2'. unfold imgs_of. rewrite Hk. reflexivity.
      - rewrite H1' by auto. rewrite Hm. unfold imgs_of. cbn [lookup]. replace (k =? r) with false by lia. reflexivity. }
    destruct (e_obj e) as [o|] eqn:Eo; cbn [flat_map app fst snd].
    + rewrite app_nil_r. unfold close_sub_obj. rewrite (Hop o eq_refl). cbn [snd].
      assert (Hg : iget k m = o_images o) by (rewrite Hm; unfold imgs_of; cbn [lookup]; rewrite Z.eqb_refl, Eo; reflexivity).
      rewrite (track_unavail_all k (o_images o) m Hg).
      destruct (o_images o) eqn:Ei.
      * apply Hrest; auto.
      * apply Hrest.
        -- intros r Hne. apply iget_iset_other. auto.
        -- apply iget_iset_same.
        -- apply iset_nodup. auto.
    + cbn [track_imgs]. apply Hrest; auto. rewrite Hm. unfold imgs_of. cbn [lookup]. rewrite Z.eqb_refl, Eo. reflexivity. Qed.

Lemma no_subs_images s : subs s = [] -> forall r, sub_images r s = [].
Proof. intros H r. rewrite sub_images_imgs_of, H. reflexivity. Qed.

Lemma close_all_istep s : inv s -> istep s (snd (fst (close_all s))) (fst (fst (close_all s))).
Proof. intros I. unfold close_all. destruct (closed s) eqn:Ec.
  - cbn [fst snd]. apply istep_same_subs. reflexivity.
  - pose proof (close_subs_cbs (subs s)) as Hs. destruct (close_subs (subs s)) as [sl scbs]. cbn [snd] in Hs. subst scbs.
    destruct (close_ctrs (ctrs s)) as [cl ccbs] eqn:Ect. cbn [fst snd].
    intros m [A B].
    destruct (track_sub_close (next_corr s) (subs s) (inv_map_ok s KSub I) m) as (m' & T & E & N); auto.
    { intros r. rewrite A. apply sub_images_imgs_of. }
    exists m'. split.
    + rewrite track_app, T. apply track_no_img. intros c Hc. apply in_app_or in Hc. destruct Hc as [Hc|[<-|[]]]; [|reflexivity].
      assert (Hcc : ccbs = snd (close_ctrs (ctrs s))) by (rewrite Ect; reflexivity). subst ccbs. apply ctr_cbs_shape in Hc. destruct Hc as (r & i & ->). reflexivity.
    + constructor; auto. Qed.

Lemma close_all_istep' s s1 cbs hang e : inv s -> close_all s = (s1, cbs, hang) -> istep s (cbs ++ [CbErr e]) s1.
Proof. intros I H. pose proof (close_all_istep s I) as X. rewrite H in X. cbn [fst snd] in X.
  eapply istep_trans; [exact X|]. apply istep_quiet; [intros c [<-|[]]; reflexivity|auto]. Qed.

(* ---- the other helpers ---- *)
Lemma inv_entry_ok' s k r : inv s -> forall e, lookup r (getm k s) = Some e -> entry_ok e.
Proof. intros I e H. apply (inv_lookup s k r e I H). Qed.

Lemma istep_scalar s s' : subs s' = subs s -> istep s [] s'.
Proof. apply istep_same_subs. Qed.

Lemma hc_service_istep c t s : inv s -> istep s (snd (fst (hc_service c t s))) (fst (fst (hc_service c t s))).
Proof. intros I. unfold hc_service. dmatch; [|apply istep_scalar; reflexivity].
  destruct (close_all s) as [[s1 cbs] hang] eqn:E. cbn [fst snd]. eapply close_all_istep'; eauto. Qed.

Lemma hc_heartbeat_istep s : inv s -> istep s (snd (fst (hc_heartbeat s))) (fst (fst (hc_heartbeat s))).
Proof. intros I. unfold hc_heartbeat. destruct (hb_bound s); destruct (hb_env s =? 1); try (apply istep_scalar; reflexivity).
  destruct (close_all s) as [[s1 cbs] hang] eqn:E. cbn [fst snd]. eapply close_all_istep'; eauto. Qed.

Lemma hc_keepalive_istep c t s : inv s -> istep s (snd (fst (fst (hc_keepalive c t s)))) (fst (fst (fst (hc_keepalive c t s)))).
Proof. intros I. unfold hc_keepalive. dmatch; [|apply istep_scalar; reflexivity].
  pose proof (hc_driver_inv c t s I) as I1.
  assert (H1 : istep s (snd (hc_driver c t s)) (fst (hc_driver c t s))).
  { unfold hc_driver. dmatch; [|apply istep_scalar; reflexivity]. cbn [fst snd]. apply istep_quiet; [intros c0 [<-|[]]; reflexivity|auto]. }
  destruct (hc_driver c t s) as [s' cbs']. cbn [fst snd] in *.
  pose proof (hc_heartbeat_istep s' I1) as H2. destruct (hc_heartbeat s') as [[s'' cbs''] hang'']. cbn [fst snd] in *.
  assert (H3 : istep s'' [] (set_t_keep t s'')) by (apply istep_scalar; reflexivity).
  pose proof (istep_trans _ _ _ _ _ (istep_trans _ _ _ _ _ H1 H2) H3) as H. rewrite app_nil_r in H. exact H. Qed.

Lemma heartbeat_check_istep c s : inv s -> istep s (snd (fst (fst (heartbeat_check c s)))) (fst (fst (fst (heartbeat_check c s)))).
Proof. intros I. unfold heartbeat_check.
  pose proof (hc_service_istep c (now s) s I) as H1. pose proof (hc_service_inv c (now s) s I) as I1.
  destruct (hc_service c (now s) s) as [[s1 cbs1] hang1]. cbn [fst snd] in *.
  assert (H2 : istep s1 [] (set_t_work (now s) s1)) by (apply istep_scalar; reflexivity).
  assert (I2 : inv (set_t_work (now s) s1)) by exact I1.
  pose proof (hc_keepalive_istep c (now s) _ I2) as H3.
  destruct (hc_keepalive c (now s) (set_t_work (now s) s1)) as [[[s3 cbs3] hang3] r3]. cbn [fst snd] in *.
  assert (H4 : istep s3 [] (fst (hc_resources (now s) s3))).
  { unfold hc_resources. dmatch; apply istep_scalar; reflexivity. }
  destruct (hc_resources (now s) s3) as [s4 r4]. cbn [fst snd] in *.
  pose proof (istep_trans _ _ _ _ _ (istep_trans _ _ _ _ _ (istep_trans _ _ _ _ _ H1 H2) H3) H4) as H. rewrite !app_nil_r in H. exact H. Qed.

(* ---- driver events ---- *)
Definition entry_imgs (e : entry) : list Z := match e_obj e with Some o => o_images o | None => [] end.

Lemma sub_images_entry r s : sub_images r s = match lookup r (subs s) with Some e => entry_imgs e | None => [] end.
Proof. unfold sub_images, hobj, entry_imgs. cbn [getm]. destruct (lookup r (subs s)); reflexivity. Qed.

Lemma sub_images_upd r r' f s :
  sub_images r' (setm KSub (upd r f (subs s)) s) =
    if r' =? r then match lookup r (subs s) with Some e => entry_imgs (f e) | None => [] end else sub_images r' s.
Proof. rewrite !sub_images_entry. cbn [subs setm]. destruct (r' =? r) eqn:E.
  - assert (r' = r) by lia. subst. rewrite lookup_upd_same. destruct (lookup r (subs s)); reflexivity.
  - rewrite lookup_upd_other by lia. reflexivity. Qed.

Lemma istep_upd_keep r f s cbs :
  (forall c, In c cbs -> is_img_cb c = false) ->
  (forall e, lookup r (subs s) = Some e -> entry_imgs (f e) = entry_imgs e) ->
  istep s cbs (setm KSub (upd r f (subs s)) s).
Proof. intros H1 H2. apply istep_quiet; auto. intros r'. rewrite sub_images_upd. destruct (r' =? r) eqn:E; auto.
  assert (r' = r) by lia. subst. rewrite sub_images_entry. destruct (lookup r (subs s)) as [e|] eqn:El; auto. Qed.

Lemma istep_other_kind k m s cbs :
  k <> KSub -> (forall c, In c cbs -> is_img_cb c = false) -> istep s cbs (setm k m s).
Proof. intros Hk H. apply istep_quiet; auto. intros r. apply sub_images_lookup. rewrite subs_setm_other; auto. Qed.

Lemma on_error_istep corr code s : istep s [] (on_error corr code s).
Proof. unfold on_error.
  destruct (lookup corr (subs s)) eqn:E1. { apply istep_upd_keep; [intros c []|]. intros e0 _. unfold entry_imgs. rewrite set_error_obj. reflexivity. }
  destruct (lookup corr (pubs s)). { apply istep_other_kind; [congruence|intros c []]. }
  destruct (lookup corr (xpubs s)). { apply istep_other_kind; [congruence|intros c []]. }
  destruct (lookup corr (ctrs s)). { apply istep_other_kind; [congruence|intros c []]. }
  destruct (lookup corr (dests s)). { apply istep_other_kind; [congruence|intros c []]. }
  apply istep_scalar. reflexivity. Qed.

(* ---- channel endpoint error: the images of every subscription it ends are taken back, the others keep theirs ---- *)
Lemma imgs_of_cons_other r k e sm : k <> r -> imgs_of r ((k, e) :: sm) = imgs_of r sm.
Proof. intros H. unfold imgs_of. cbn [lookup]. replace (k =? r) with false by lia. reflexivity. Qed.
Lemma imgs_of_cons_same k e sm : imgs_of k ((k, e) :: sm) = entry_imgs e.
Proof. unfold imgs_of, entry_imgs. cbn [lookup]. rewrite Z.eqb_refl. reflexivity. Qed.
Lemma imgs_of_not_key r sm : ~ In r (keys sm) -> imgs_of r sm = [].
Proof. intros H. unfold imgs_of. apply lookup_none_keys in H. rewrite H. reflexivity. Qed.
Lemma chan_keep_keys k x sm r : In r (keys (chan_keep k x sm)) -> In r (keys sm).
Proof. unfold chan_keep, keys. intros H. apply in_map_iff in H. destruct H as (p & <- & Hp). apply filter_In in Hp. apply in_map. tauto. Qed.

Lemma track_chan_subs n x sm : map_ok n sm -> forall m,
  (forall r, In r (keys sm) -> iget r m = imgs_of r sm) -> NoDup (map fst m) ->
  exists m', track_imgs (chan_cbs KSub x sm) m = Some m' /\
             (forall r, In r (keys sm) -> iget r m' = imgs_of r (chan_keep KSub x sm)) /\
             (forall r, ~ In r (keys sm) -> iget r m' = iget r m) /\ NoDup (map fst m').
Proof. induction sm as [|[k e] sm IH]; intros [Hnd F] m Hm Hn.
  - exists m. cbn. repeat split; auto.
  - inversion Hnd; subst. inversion F; subst. cbn in H3. destruct H3 as [_ [_ Hop]].
    assert (Hok : map_ok n sm) by (split; auto).
    unfold chan_cbs. cbn [flat_map fst snd]. fold (chan_cbs KSub x sm). rewrite track_app.
    assert (Htail : forall m1, (forall r, r <> k -> iget r m1 = iget r m) -> NoDup (map fst m1) ->
              exists m', track_imgs (chan_cbs KSub x sm) m1 = Some m' /\
                (forall r, In r (keys sm) -> iget r m' = imgs_of r (chan_keep KSub x sm)) /\
                (forall r, ~ In r (keys sm) -> iget r m' = iget r m1) /\ NoDup (map fst m')).
    { intros m1 H1' H3'. apply (IH Hok m1); auto. intros r Hr. assert (k <> r) by (intros ->; auto).
      rewrite H1' by auto. rewrite Hm by (right; exact Hr). apply imgs_of_cons_other; auto. }
    assert (Hgk : iget k m = entry_imgs e) by (rewrite Hm by (left; reflexivity); apply imgs_of_cons_same).
    unfold chan_keep. cbn [filter]. fold (chan_keep KSub x sm).
    unfold chan_removed at 1. cbn [snd]. destruct (chan_hit KSub x e) as [o|] eqn:Eh.
    + (* the subscription is ended *)
      apply chan_hit_some in Eh. destruct Eh as [Eo _]. rewrite (Hop o Eo). cbn [negb].
      cbn [track_imgs]. unfold close_sub_obj. rewrite (Hop o Eo). cbn [snd fst].
      assert (Hg : iget k m = o_images o) by (rewrite Hgk; unfold entry_imgs; rewrite Eo; reflexivity).
      rewrite (track_unavail_all k (o_images o) m Hg).
      assert (Hk0 : imgs_of k (chan_keep KSub x sm) = []).
      { apply imgs_of_not_key. intros Hin. apply chan_keep_keys in Hin. auto. }
      destruct (o_images o) eqn:Ei.
      * destruct (Htail m) as (m' & T & A & B & C); auto. exists m'. split; [exact T|]. split; [|split; [|exact C]].
        -- intros r Hr. cbn in Hr. destruct Hr as [<-|Hr]; [|apply A; exact Hr]. rewrite B by auto. rewrite Hk0. exact Hg.
        -- intros r Hr. apply B. intros Hin. apply Hr. right. exact Hin.
      * destruct (Htail (iset k [] m)) as (m' & T & A & B & C).
        { intros r Hne. apply iget_iset_other. auto. }
        { apply iset_nodup. auto. }
        exists m'. split; [exact T|]. split; [|split; [|exact C]].
        -- intros r Hr. cbn in Hr. destruct Hr as [<-|Hr]; [|apply A; exact Hr]. rewrite B by auto. rewrite Hk0. apply iget_iset_same.
        -- intros r Hr. rewrite B by (intros Hin; apply Hr; right; exact Hin). apply iget_iset_other. intros ->. apply Hr. left. reflexivity.
    + (* untouched *)
      cbn [negb track_imgs]. destruct (Htail m) as (m' & T & A & B & C); auto. exists m'. split; [exact T|]. split; [|split; [|exact C]].
      -- intros r Hr. cbn in Hr. destruct Hr as [<-|Hr].
         ++ rewrite B by auto. rewrite imgs_of_cons_same. exact Hgk.
         ++ assert (k <> r) by (intros ->; auto). rewrite imgs_of_cons_other by auto. apply A. exact Hr.
      -- intros r Hr. apply B. intros Hin. apply Hr. right. exact Hin. Qed.

Lemma on_chan_error_istep x s : inv s -> istep s (snd (fst (on_chan_error x s))) (fst (fst (on_chan_error x s))).
Proof. intros I m [A B]. unfold on_chan_error. cbn [fst snd].
  destruct (track_chan_subs (next_corr s) x (subs s) (inv_map_ok s KSub I) m) as (m' & T & E1 & E2 & N); auto.
  { intros r _. rewrite A. apply sub_images_imgs_of. }
  exists m'. split.
  - rewrite track_app, T. apply track_no_img. intros c Hc. apply in_app_or in Hc.
    destruct Hc as [Hc|Hc]; apply chan_cbs_pub_shape in Hc; try congruence; subst c; reflexivity.
  - constructor; auto. intros r. rewrite sub_images_imgs_of. cbn [subs setm set_orphans].
    destruct (in_dec Z.eq_dec r (keys (subs s))) as [Hin|Hnin]; [apply E1; exact Hin|].
    rewrite E2 by exact Hnin. rewrite A, sub_images_imgs_of, imgs_of_not_key by exact Hnin.
    symmetry. apply imgs_of_not_key. intros Hin. apply chan_keep_keys in Hin. auto. Qed.

Lemma on_event_istep ev s : inv s -> istep s (snd (fst (on_event ev s))) (fst (fst (on_event ev s))).
Proof. intros I. destruct ev; cbn [on_event].
  - destruct (lookup corr (pubs s)); [destruct (is_awaiting e)|]; cbn [fst snd]; try (apply istep_scalar; reflexivity);
      try (apply istep_other_kind; [congruence|intros c [<-|[]]; reflexivity]).
  - destruct (lookup id (xpubs s)); [destruct (is_awaiting e)|]; cbn [fst snd]; try (apply istep_scalar; reflexivity);
      try (apply istep_other_kind; [congruence|intros c [<-|[]]; reflexivity]).
  - destruct (lookup corr (subs s)) as [e|] eqn:El; [destruct (is_awaiting e) eqn:Ea|]; cbn [fst snd]; try (apply istep_scalar; reflexivity).
    apply istep_upd_keep; [intros c [<-|[]]; reflexivity|].
    intros e0 He0. rewrite El in He0. inversion He0; subst e0. unfold entry_imgs. cbn.
    rewrite (is_awaiting_obj e (inv_entry_ok' s KSub corr I e El) Ea). reflexivity.
  - destruct (lookup corr (dests s)); [destruct (is_awaiting e)|]; cbn [fst snd]; try (apply istep_scalar; reflexivity);
      try (apply istep_other_kind; [congruence|intros c []]).
  - cbn [fst snd]. apply on_error_istep.
  - destruct (lookup subreg (subs s)) as [e|] eqn:El; [destruct (e_obj e) as [o|] eqn:Eo|]; cbn [fst snd]; try (apply istep_scalar; reflexivity).
    intros m [A B]. cbn [track_imgs]. eexists. split; [reflexivity|]. constructor; [|apply iset_nodup; auto].
    intros r. rewrite sub_images_upd. destruct (r =? subreg) eqn:E.
    + assert (r = subreg) by lia. subst. rewrite iget_iset_same, El. unfold entry_imgs. cbn.
      rewrite A, sub_images_entry, El. unfold entry_imgs. rewrite Eo. reflexivity.
    + rewrite iget_iset_other by lia. apply A.
  - destruct (lookup subreg (subs s)) as [e|] eqn:El; [destruct (e_obj e) as [o|] eqn:Eo|]; cbn [fst snd]; try (apply istep_scalar; reflexivity).
    destruct (remove_first corr (o_images o)) as [l|] eqn:Er; cbn [fst snd]; [|apply istep_scalar; reflexivity].
    intros m [A B]. cbn [track_imgs]. rewrite Z.eqb_refl.
    assert (Hg : iget subreg m = o_images o) by (rewrite A, sub_images_entry, El; unfold entry_imgs; rewrite Eo; reflexivity).
    rewrite Hg, Er. eexists. split; [reflexivity|]. constructor; [|apply iset_nodup; auto].
    intros r. rewrite sub_images_upd. destruct (r =? subreg) eqn:E.
    + assert (r = subreg) by lia. subst. rewrite iget_iset_same, El. reflexivity.
    + rewrite iget_iset_other by lia. apply A.
  - destruct (lookup corr (ctrs s)); [destruct (is_awaiting e)|]; cbn [fst snd]; try (apply istep_quiet; [intros c [<-|[]]; reflexivity|reflexivity]);
      try (apply istep_other_kind; [congruence|intros c [<-|[]]; reflexivity]).
  - cbn [fst snd]. apply istep_quiet; [intros c [<-|[]]; reflexivity|reflexivity].
  - destruct ((cid =? client_id s) && negb (closed s)); [|cbn; apply istep_scalar; reflexivity].
    destruct (close_all s) as [[s1 cbs] hang] eqn:E. cbn [fst snd]. eapply close_all_istep'; eauto.
  - apply on_chan_error_istep; auto. Qed.

(* ---- API calls ---- *)
Lemma do_add_istep k a1 a2 a3 s : inv s -> istep s (snd (fst (snd (do_add k a1 a2 a3 s)))) (fst (do_add k a1 a2 a3 s)).
Proof. intros I. unfold do_add. repeat dmatch; cbn [fst snd]; try (apply istep_scalar; reflexivity).
  apply istep_quiet; [intros c []|]. intros r. rewrite !sub_images_entry.
  destruct (kind_eqb k KSub) eqn:Ek.
  - apply kind_eqb_eq in Ek. subst k. cbn [subs setm getm set_next_corr].
    destruct (Z.eq_dec r (next_corr s)) as [->|Hne].
    + rewrite lookup_ins_same. destruct (fresh_id s KSub I) as [Hf _]. cbn [getm] in Hf. rewrite Hf. reflexivity.
    + rewrite lookup_ins_other by auto. reflexivity.
  - apply kind_eqb_neq in Ek. rewrite subs_setm_other by auto. reflexivity. Qed.

Lemma do_find_istep c k r s : istep s (snd (fst (snd (do_find c k r s)))) (fst (do_find c k r s)).
Proof. unfold do_find. destruct (closed s); [apply istep_scalar; reflexivity|].
  destruct (lookup r (getm k s)) as [e|] eqn:El; [|apply istep_scalar; reflexivity].
  assert (Hu : forall o, e_obj e = Some o -> k = KSub -> istep s [] (setm KSub (upd r (set_obj (Some (obj_user (next_h s) o))) (subs (set_next_h (next_h s + 1) s))) (set_next_h (next_h s + 1) s))).
  { intros o Ho ->. eapply (istep_trans s [] (set_next_h (next_h s + 1) s) []); [apply istep_scalar; reflexivity|].
    apply (istep_upd_keep r _ (set_next_h (next_h s + 1) s)); [intros c0 []|]. intros e0 He0. unfold entry_imgs. cbn.
    cbn [getm] in El. cbn in He0. rewrite El in He0. inversion He0; subst. rewrite Ho. reflexivity. }
  assert (Hr : e_obj e = None -> k = KSub -> istep s [] (setm KSub (remove r (subs s)) s)).
  { intros Ho ->. apply istep_quiet; [intros c0 []|]. intros r'. rewrite !sub_images_entry. cbn [subs setm].
    destruct (Z.eq_dec r' r) as [->|Hne].
    - rewrite lookup_remove_same. cbn [getm] in El. rewrite El. unfold entry_imgs. rewrite Ho. reflexivity.
    - rewrite lookup_remove_other by auto. reflexivity. }
  destruct k; cbn [getm] in *.
  - repeat dmatch; cbn [fst snd]; try (apply istep_scalar; reflexivity); apply istep_other_kind; try congruence; intros c0 [].
  - repeat dmatch; cbn [fst snd]; try (apply istep_scalar; reflexivity); apply istep_other_kind; try congruence; intros c0 [].
  - destruct (e_obj e) as [o|] eqn:Eo.
    + destruct (o_user o); cbn [fst snd]; [apply istep_scalar; reflexivity|]. apply Hu; reflexivity.
    + destruct (e_status e); [destruct (timed_out c s e)| | |]; cbn [fst snd]; try (apply istep_scalar; reflexivity). apply Hr; auto.
  - repeat dmatch; cbn [fst snd]; try (apply istep_scalar; reflexivity); apply istep_other_kind; try congruence; intros c0 [].
  - repeat dmatch; cbn [fst snd]; try (apply istep_scalar; reflexivity). Qed.

Lemma user_obj_open k r s o : inv s -> user_obj k r s = Some o -> o_closed o = false ->
  exists e, lookup r (getm k s) = Some e /\ e_obj e = Some o.
Proof. intros (_ & _ & _ & _ & I5) Hu Hc.
  assert (Ho : find_orphan k r (orphans s) = Some o -> False).
  { intros H. apply find_orphan_in in H. rewrite Forall_forall in I5. destruct (I5 _ H) as [A _]. cbn in A. congruence. }
  unfold user_obj in Hu. destruct (lookup r (getm k s)) as [e|]; [|tauto].
  destruct (e_obj e) as [o'|] eqn:Eo; [|tauto]. destruct (o_user o'); [|tauto]. inversion Hu; subst. eauto. Qed.

Lemma inactive_no_img s c : In c (inactive_cb s) -> is_img_cb c = false.
Proof. unfold inactive_cb. destruct (driver_active s); [intros []|intros [<-|[]]; reflexivity]. Qed.

Lemma do_release_istep_other k r s : k <> KSub -> istep s (fst (snd (do_release k r [] s))) (fst (do_release k r [] s)).
Proof. intros Hk. unfold do_release. destruct (lookup r (getm k s)); [|apply istep_quiet; [apply inactive_no_img|reflexivity]].
  destruct (ring_full s); [destruct k; try congruence|]; cbn [fst snd map]; rewrite ?app_nil_r;
    (eapply (istep_trans s [] (set_next_corr (next_corr s + 1) s)); [apply istep_scalar; reflexivity|]);
    apply istep_other_kind; auto; intros c; apply (inactive_no_img s). Qed.

Lemma do_release_istep_sub r s e o :
  lookup r (subs s) = Some e -> e_obj e = Some o ->
  istep s (fst (snd (do_release KSub r (o_images o) s))) (fst (do_release KSub r (o_images o) s)).
Proof. intros He Ho. unfold do_release. cbn [getm]. rewrite He.
  assert (Hsame : fst (snd (if ring_full s
             then (setm KSub (remove r (subs (set_next_corr (next_corr s + 1) s))) (set_next_corr (next_corr s + 1) s),
                   (inactive_cb s ++ map (fun img => CbUnavailImg r img 1) (o_images o), []))
             else (setm KSub (remove r (subs (set_next_corr (next_corr s + 1) s))) (set_next_corr (next_corr s + 1) s),
                   (inactive_cb s ++ map (fun img => CbUnavailImg r img 1) (o_images o), [Cmd (remove_cmd_type KSub) (client_id s) (next_corr s) [r]])))) =
           inactive_cb s ++ map (fun img => CbUnavailImg r img 1) (o_images o) /\
         fst (if ring_full s
             then (setm KSub (remove r (subs (set_next_corr (next_corr s + 1) s))) (set_next_corr (next_corr s + 1) s),
                   (inactive_cb s ++ map (fun img => CbUnavailImg r img 1) (o_images o), @nil cmd))
             else (setm KSub (remove r (subs (set_next_corr (next_corr s + 1) s))) (set_next_corr (next_corr s + 1) s),
                   (inactive_cb s ++ map (fun img => CbUnavailImg r img 1) (o_images o), [Cmd (remove_cmd_type KSub) (client_id s) (next_corr s) [r]]))) =
           setm KSub (remove r (subs (set_next_corr (next_corr s + 1) s))) (set_next_corr (next_corr s + 1) s))
    by (destruct (ring_full s); split; reflexivity).
  cbn [getm]. destruct Hsame as [Hs1 Hs2]. rewrite Hs1, Hs2.
  intros m [A B]. rewrite track_app, (track_no_img (inactive_cb s) m (inactive_no_img s)).
  assert (Hg : iget r m = o_images o) by (rewrite A, sub_images_entry, He; unfold entry_imgs; rewrite Ho; reflexivity).
  rewrite (track_unavail_all r (o_images o) m Hg).
  assert (Hs : forall r', sub_images r' (setm KSub (remove r (subs (set_next_corr (next_corr s + 1) s))) (set_next_corr (next_corr s + 1) s)) =
                          if r' =? r then [] else sub_images r' s).
  { intros r'. rewrite !sub_images_entry. cbn [subs setm set_next_corr]. destruct (r' =? r) eqn:E.
    - assert (r' = r) by lia. subst. rewrite lookup_remove_same. reflexivity.
    - rewrite lookup_remove_other by lia. reflexivity. }
  eexists. split; [reflexivity|]. destruct (o_images o) eqn:Ei.
  - constructor; auto. intros r'. rewrite Hs. destruct (r' =? r) eqn:E; [|apply A]. assert (r' = r) by lia. subst. exact Hg.
  - constructor; [|apply iset_nodup; auto]. intros r'. rewrite Hs. destruct (r' =? r) eqn:E.
    + assert (r' = r) by lia. subst. apply iget_iset_same.
    + rewrite iget_iset_other by lia. apply A. Qed.

Lemma istep_set_orphans s cbs s' v : istep s cbs s' -> istep s cbs (set_orphans v s').
Proof. intros H. pose proof (istep_trans _ _ _ _ _ H (istep_scalar s' (set_orphans v s') eq_refl)) as X. rewrite app_nil_r in X. exact X. Qed.

Lemma do_drop_istep k r s : inv s -> istep s (snd (fst (snd (do_drop k r s)))) (fst (do_drop k r s)).
Proof. intros I. rewrite do_drop_eq. destruct k; try (apply istep_scalar; reflexivity).
  - destruct (user_obj KPub r s); cbn [fst snd]; [|apply istep_scalar; reflexivity]. apply istep_set_orphans. unfold dtor_user. apply do_release_istep_other. congruence.
  - destruct (user_obj KXPub r s); cbn [fst snd]; [|apply istep_scalar; reflexivity]. apply istep_set_orphans. unfold dtor_user. apply do_release_istep_other. congruence.
  - destruct (user_obj KSub r s) as [o|] eqn:Eu; cbn [fst snd]; [|apply istep_scalar; reflexivity]. apply istep_set_orphans. unfold dtor_user.
    destruct (o_closed o) eqn:Ec; [apply istep_scalar; reflexivity|].
    destruct (user_obj_open KSub r s o I Eu Ec) as (e & He & Ho). cbn [getm] in He. apply (do_release_istep_sub r s e o He Ho).
  - destruct (user_obj KCtr r s) as [o|]; cbn [fst snd]; [|apply istep_scalar; reflexivity]. apply istep_set_orphans. unfold dtor_user.
    destruct (o_closed o); [apply istep_scalar; reflexivity|]. apply do_release_istep_other. congruence. Qed.

Lemma do_close_istep s : inv s -> istep s (snd (fst (snd (do_close s)))) (fst (do_close s)).
Proof. intros I. unfold do_close. pose proof (close_all_istep s I) as H. pose proof (close_all_no_hang s) as Hh.
  destruct (close_all s) as [[s1 cbs] hang]. cbn [fst snd] in *. subst hang.
  destruct (close_sent s1); cbn [fst snd]; [exact H|].
  pose proof (istep_trans _ _ _ _ _ H (istep_scalar s1 (set_close_sent true (set_next_corr (next_corr s1 + 1) s1)) eq_refl)) as X.
  rewrite app_nil_r in X. exact X. Qed.

Lemma do_work_istep c b s : inv s -> istep s (snd (fst (snd (do_work c b s)))) (fst (do_work c b s)).
Proof. intros I. unfold do_work. destruct b; try (apply istep_scalar; reflexivity).
  - pose proof (heartbeat_check_istep c s I) as H. pose proof (heartbeat_check_no_hang c s) as Hh.
    cbn. destruct (heartbeat_check c s) as [[[s2 cbs2] hang2] r]. cbn [fst snd] in *. subst hang2. exact H.
  - pose proof (on_event_istep e s I) as H1. pose proof (on_event_inv e s I) as I1. pose proof (on_event_no_hang e s) as Hh1.
    destruct (on_event e s) as [[s1 cbs1] hang1]. cbn [fst snd] in *. subst hang1.
    pose proof (heartbeat_check_istep c s1 I1) as H. pose proof (heartbeat_check_no_hang c s1) as Hh.
    destruct (heartbeat_check c s1) as [[[s2 cbs2] hang2] r]. cbn [fst snd] in *. subst hang2. cbn [fst snd].
    eapply istep_trans; eauto. Qed.

Lemma step_istep c s o : inv s -> istep s (snd (fst (snd (step c s o)))) (fst (step c s o)).
Proof. intros I. destruct o; cbn [step].
  - apply do_add_istep; auto.
  - apply do_find_istep.
  - apply do_drop_istep; auto.
  - rewrite do_peek_state. unfold do_peek. destruct (user_obj k r s); cbn; apply istep_scalar; reflexivity.
  - apply do_close_istep; auto.
  - cbn. apply istep_scalar; reflexivity.
  - cbn. apply istep_scalar; reflexivity.
  - cbn. apply istep_scalar; reflexivity.
  - cbn. apply istep_scalar; reflexivity.
  - apply do_work_istep; auto.
  - unfold do_close_handle. destruct k; try (cbn; apply istep_scalar; reflexivity); destruct (user_obj _ r s); cbn; apply istep_scalar; reflexivity. Qed.

(* closed: no subscription registered, so no image left *)
Lemma closed_no_images s : inv s -> closed s = true -> forall r, sub_images r s = [].
Proof. intros (_ & _ & I3 & _) Hc r. apply no_subs_images. apply (I3 Hc KSub). congruence. Qed.

Lemma imgs_run c ops : forall s m,
  inv s -> IM m s -> c10_imgs_run m (closed s) (snd (run c s ops)) = true.
Proof. induction ops as [|o ops IH]; intros s m I M; cbn; auto.
  pose proof (step_istep c s o I) as Hi. pose proof (step_inv c s o I) as I1.
  pose proof (step_close_count c s o I) as Hcount. pose proof (step_closed_mono c s o I) as Hmono.
  destruct (step c s o) as [s1 [[r cbs] cmds]]. cbn [fst snd] in *.
  destruct (Hi m M) as (m' & T & M').
  specialize (IH s1 m' I1 M'). destruct (run c s1 ops) as [s2 xs]. cbn [fst snd c10_imgs_run] in *. rewrite T.
  assert (Hcl : closed s || existsb is_close_cb cbs = closed s1).
  { rewrite C09OracleProofs.existsb_close, Hcount. unfold delta. destruct (closed s) eqn:E1; cbn; [symmetry; auto|]. destruct (closed s1); reflexivity. }
  rewrite Hcl. destruct (closed s1) eqn:E1; cbn [andb]; [|exact IH].
  destruct M' as [A B]. rewrite (all_empty_iget m' B). { exact IH. }
  intros r'. rewrite A. apply closed_no_images; auto. Qed.

(* the image judge of the C10 oracle holds on the model's own observations, for every history *)
Theorem c10_imgs_model c0 now0 tdrv tis ops : c10_imgs_run [] false (run_obs c0 now0 tdrv tis ops) = true.
Proof. unfold run_obs. apply (imgs_run (mkCfg tdrv tis) ops (init c0 now0) []); [apply init_inv|].
  constructor; [intros r; reflexivity|constructor]. Qed.
