(* C01, part 7: the oracle is true on the model's own observations, for every history that keeps the contract.
   `orel` ties the oracle's bookkeeping to the abstract machine's state and the system state; `judge_step` shows one
   operation is judged favourably and the tie is kept, from the refinement (sys_step_rep) and the facts read off it. *)
Require Import V.Base.MachineInt.
Require Import V.Generated.GenConsts.
Require Import V.Model.Descriptor.
Require Import V.Model.LogBase.
Require Import V.Model.Appender.
Require Import V.Model.Publication.
Require Import V.Model.ExclPublication.
Require Import V.Model.Reader.
Require Import V.Model.Image.
Require Import V.Model.Assembler.
Require Import V.Model.StreamSys.
Require Import V.Spec.Stream.
Require Import V.Oracle.C01Oracle.
Require Import V.Proofs.DescriptorProofs.
Require Import V.Proofs.AppenderProofs.
Require Import V.Proofs.BulkProofs.
Require Import V.Proofs.C04Proofs.
Require Import V.Proofs.ReaderProofs.
Require Import V.Proofs.StreamFrames.
Require Import V.Proofs.StreamLog.
Require Import V.Proofs.StreamHist.
Require Import V.Proofs.StreamRefine.
Require Import V.Proofs.StreamShared.
Require Import V.Proofs.StreamExcl.
Require Import V.Proofs.C01Theorems.
From Coq Require Import ZifyBool.
Open Scope Z_scope.

(* bytes the items of a message occupy = the required length the appenders compute *)
Definition dummy_log : log := mkLog [] [] [] 0 0 0 0 0 0 0 0 0 0 false.

Lemma span_of_msg_items mpl msg : 32 <= mpl -> mpl mod 32 = 0 ->
  span_of (msg_items mpl msg) = required_spec (zlen msg) mpl.
Proof. intros Hm Hm32. unfold required_spec. destruct (zlen msg <=? mpl) eqn:E.
  - destruct (unfrag_frame_spec dummy_log 0 0 0 mpl msg ltac:(lia)) as (Hok & Hsp & Hit).
    rewrite <- Hit, (span_of_items _ _ Hok), Hsp. unfold unfrag_required_spec. rewrite HDR_eq, FA_eq. reflexivity.
  - destruct (frag_frames_spec dummy_log (fun _ _ _ => 0) 0 mpl msg 0 ltac:(lia) Hm32 ltac:(lia)) as (fs & _ & Hok & Hsp & Hit).
    rewrite <- Hit, (span_of_items _ _ Hok), Hsp. reflexivity. Qed.

Lemma required_pos len mpl : 32 <= mpl -> 0 <= len -> 0 < required_spec len mpl.
Proof. intros Hm Hl. unfold required_spec. destruct (len <=? mpl) eqn:E.
  - pose proof (unfrag_required_bounds len Hl). lia.
  - pose proof (frag_required_bounds len mpl Hm ltac:(lia)). lia. Qed.

Definition qmsg (e : Z * Z * Z) : list Z * Z := let '(k, len, p) := e in (payload k len, p).
Definition qlen_ok (e : Z * Z * Z) : Prop := 0 <= snd (fst e).

(* what a poll delivered is the head of the queue *)
Lemma take_delivered_ok ses : forall (ms : list msg) q,
  Forall (fun x => fst x = ses) ms -> Forall qlen_ok q ->
  is_prefix (map snd ms) (map fst (map qmsg q)) ->
  take_delivered ses q (map msg_obs ms) = Some (skipn (length ms) q) /\
  map snd ms = map fst (map qmsg (firstn (length ms) q)).
Proof. induction ms as [|[s bytes] r IH]; intros q Hs Hq [rest Hp]; [split; [destruct q; reflexivity|reflexivity]|].
  pose proof (Forall_inv Hs) as Hs1. pose proof (Forall_inv_tail Hs) as Hsr. cbn [fst] in Hs1. subst s.
  destruct q as [|[[k len] p] q']; [discriminate|]. pose proof (Forall_inv Hq) as Hq1. pose proof (Forall_inv_tail Hq) as Hqr.
  cbn [map qmsg fst snd app] in Hp. injection Hp as Hb Hrest. unfold qlen_ok in Hq1. cbn [fst snd] in Hq1.
  cbn [map msg_obs take_delivered fst snd length skipn firstn qmsg]. subst bytes.
  rewrite (zlen_payload k len Hq1). rewrite !Z.eqb_refl. cbn [andb].
  destruct (IH q' Hsr Hqr (ex_intro _ rest Hrest)) as [I1 I2]. split; [exact I1|]. f_equal. exact I2. Qed.

Section OracleModel.
Variables (tlen mtu ses n0 off0 init : Z).
Hypothesis Hn0 : 0 <= n0.
Hypothesis Hoff0 : 0 <= off0.
Hypothesis Hoff0al : off0 mod 32 = 0.
Hypothesis Hmtu32 : mtu mod 32 = 0.
Hypothesis Hmtu : 64 <= mtu.
Hypothesis Htlen : 0 < tlen.
Variables (F : flavour) (pinv : Z -> Z -> fl_state F -> Prop).
Hypothesis FK : flavour_ok F pinv.
Variables (m : mode) (rv : Z -> Z -> list Z -> Z).

Let gO := mkC01Geom tlen mtu init n0 off0 ses.
Let gg := g tlen mtu n0 off0.

Record orel (st : ost) (s : sys F) (sp : spec) : Prop := mkORel {
  or_pos : o_pos st = pos_after (sg_p0 gg) (sp_stream sp);
  or_pend : o_pend st = sp_open sp;
  or_sub : o_sub st = im_pos (sy_img s);
  or_closed : ps_closed (fl_pub F (sy_pub s)) = true -> o_closed st = true;
  or_queue : exists dq, sp_acc sp = map qmsg (dq ++ o_queue st) /\ sp_del sp = map fst (map qmsg dq) /\ Forall qlen_ok (o_queue st)
}.

Local Notation srep := (sys_rep tlen mtu ses n0 off0 F pinv).

Lemma next_term_spec st sp : o_pos st = pos_after (sg_p0 gg) (sp_stream sp) ->
  next_term gO (o_pos st) = pos_after (sg_p0 gg) (sp_stream sp ++ pad_to_term_end gg (sp_stream sp)).
Proof. intros H. unfold next_term, pad_to_term_end, gO, gg, g, sgeom_of in *. cbn [cg_tlen sg_tlen sg_p0] in *. rewrite H.
  destruct (_ =? 0); rewrite pos_after_app; cbn [span_of item_len]; lia. Qed.

(* MaxPositionExceeded: oracle and abstract machine follow the same report of position() *)
Lemma orel_after_max st (s s' : sys F) sp q :
  orel st s sp -> o_pend st = None -> sy_img s' = sy_img s ->
  (ps_closed (fl_pub F (sy_pub s')) = true -> ps_closed (fl_pub F (sy_pub s)) = true) ->
  orel (after_max st q) s'
       (mkSpec (sp_stream sp ++ pad_to_reported gg (sp_stream sp) q) (sp_open sp) (sp_acc sp) (sp_del sp) (sp_ok sp)).
Proof. intros [Opos Opend Osub Oclosed (dq & Oacc & Odel & Oq)] Hpend Himg Hcl.
  assert (Hsame : orel st s' (mkSpec (sp_stream sp ++ []) (sp_open sp) (sp_acc sp) (sp_del sp) (sp_ok sp))).
  { rewrite app_nil_r. constructor; cbn [sp_stream sp_open sp_acc sp_del]; try congruence;
      try (intros Hc; apply Oclosed, Hcl, Hc); try (exists dq; auto); auto. }
  unfold after_max, pad_to_reported. rewrite Hpend. cbn [none_b andb]. rewrite <- Opos.
  destruct q as [p| | | |]; try exact Hsame.
  destruct (o_pos st <? p) eqn:E; [|exact Hsame].
  constructor; cbn [o_pos o_pend o_queue o_sub o_closed sp_stream sp_open sp_acc sp_del];
    try (rewrite pos_after_app; cbn [span_of item_len]; lia); try congruence;
    try (intros Hc; apply Oclosed, Hcl, Hc); try (exists dq; auto); auto. Qed.

Lemma judge_step st s sp o : srep s sp -> orel st s sp -> env_ok F m s o = true ->
  exists st', judge gO st o (sys_obs F m (fst (sys_step F m rv s o)) (snd (sys_step F m rv s o))) = Some st' /\
    orel st' (fst (sys_step F m rv s o)) (spec_step gg sp (step_event F m rv s o)).
Proof. intros Hrep Hor Henv.
  pose proof (sys_step_rep tlen mtu ses n0 off0 Hn0 Hoff0 Hoff0al Hmtu32 F pinv FK m rv s sp o Hrep Henv) as Hrep'.
  fold gg in Hrep'. unfold step_event in *.
  pose proof (rep_sub_facts tlen mtu ses n0 off0 Hoff0 Hoff0al F pinv _ _ Hrep') as (Hsub' & Hsal' & Hopen').
  pose proof (rep_ok tlen mtu ses n0 off0 Hoff0al F pinv _ _ Hrep') as (Hok' & Hal' & Hend').
  fold gg in Hsub', Hend'.
  pose proof (rep_open_iff tlen mtu ses n0 off0 F pinv _ _ Hrep) as Hoi.
  destruct Hor as [Opos Opend Osub Oclosed (dq & Oacc & Odel & Oq)].
  destruct o.
  - (* offer *)
    pose proof (step_shape tlen mtu ses n0 off0 Hmtu32 F pinv FK m rv s sp _ Hrep Henv) as Hsh. cbv zeta in Hsh.
    destruct (sys_step F m rv s (SOffer k len)) as [s' [[r ds] ms]]. destruct Hsh as (-> & -> & Himg & Hshape & Hcl).
    cbn [fst snd event_of spec_step sys_obs map sy_pub] in *. unfold image_position. rewrite Hopen'.
    assert (Hlen : 0 <= len) by (unfold env_ok, append_ok in Henv; lia).
    assert (Hnopen : sp_open sp = None) by (apply Hoi; unfold env_ok, append_ok in Henv; lia).
    cbn [judge nil_b]. rewrite Himg, <- Osub, Z.eqb_refl. cbn [andb].
    destruct Hshape as [(p & ->) | [-> | (e & -> & He)]].
    + cbn [on_result sp_ok sp_acc sp_stream] in *. pose proof Opend as Opend0. rewrite Hnopen in Opend. cbn [judge_append]. rewrite Opend. cbn [none_b andb].
      apply andb_prop in Hok' as [_ Hp]. rewrite pos_after_app in Hp.
      rewrite (span_of_msg_items (sg_mpl gg) (payload k len)) in Hp by (unfold gg, g, sgeom_of; cbn [sg_mpl]; rewrite ?HDR_eq; try lia; rewrite Zminus_mod, Hmtu32; reflexivity).
      rewrite zlen_payload in Hp by lia. unfold gg, g, sgeom_of in Hp; cbn [sg_mpl sg_p0] in Hp. rewrite HDR_eq in Hp.
      unfold gg, g, sgeom_of in Opos; cbn [sg_p0] in Opos.
      assert (Hp32 : p mod 32 = 0).
      { apply Forall_app in Hal' as [_ Hl]. inversion Hl; subst. assumption. }
      pose proof (required_pos len (mtu - 32) ltac:(lia) Hlen) as Hrp.
      unfold c_req. cbn [cg_mtu gO].
      assert (E : (p =? o_pos st + required_spec len (mtu - 32)) && (p mod 32 =? 0) && (o_pos st <? p) = true) by lia.
      rewrite E. eexists. split; [reflexivity|]. constructor; cbn [o_pos o_pend o_queue o_sub o_closed sp_stream sp_open sp_acc sp_del].
      * rewrite pos_after_app, (span_of_msg_items (sg_mpl gg) (payload k len)) by (unfold gg, g, sgeom_of; cbn [sg_mpl]; rewrite ?HDR_eq; try lia; rewrite Zminus_mod, Hmtu32; reflexivity).
        rewrite zlen_payload by lia. unfold gg, g, sgeom_of; cbn [sg_mpl sg_p0]. rewrite HDR_eq. lia.
      * congruence.
      * rewrite Himg. exact Osub.
      * intros Hc. apply Oclosed, Hcl, Hc.
      * exists dq. split; [|split; [exact Odel|]].
        -- rewrite Oacc, app_assoc, !map_app. reflexivity.
        -- apply Forall_app. split; [exact Oq|]. constructor; [exact Hlen|constructor].
    + cbn [on_result judge_append]. eexists. split; [reflexivity|].
      constructor; cbn [o_pos o_pend o_queue o_sub o_closed sp_stream sp_open sp_acc sp_del]; try (apply next_term_spec; exact Opos); try (rewrite Himg; exact Osub); try (intros Hc; apply Oclosed, Hcl, Hc); try (exists dq; auto); auto.
    + destruct e; try discriminate He; cbn [on_result judge_append refusal].
      all: try (eexists; split; [reflexivity|]; constructor; try (rewrite Himg; exact Osub); try (intros Hc; apply Oclosed, Hcl, Hc); try (exists dq; auto); auto; fail).
      eexists. split; [reflexivity|].
      apply (orel_after_max st s s' sp); [constructor; eauto| congruence | exact Himg | exact Hcl].
  - (* claim *)
    pose proof (step_shape tlen mtu ses n0 off0 Hmtu32 F pinv FK m rv s sp _ Hrep Henv) as Hsh. cbv zeta in Hsh.
    destruct (sys_step F m rv s (SClaim len)) as [s' [[r ds] ms]]. destruct Hsh as (-> & -> & Himg & Hshape & Hcl).
    cbn [fst snd event_of spec_step sys_obs map sy_pub] in *. unfold image_position. rewrite Hopen'.
    assert (Hlen : 0 <= len) by (unfold env_ok, append_ok in Henv; lia).
    assert (Hnopen : sp_open sp = None) by (apply Hoi; unfold env_ok, append_ok in Henv; lia).
    pose proof (rep_ok tlen mtu ses n0 off0 Hoff0al F pinv _ _ Hrep) as (_ & _ & Hend).
    cbn [judge nil_b]. rewrite Himg, <- Osub, Z.eqb_refl. cbn [andb].
    destruct Hshape as [(p & ->) | [-> | (e & -> & He)]].
    + cbn [on_result sp_ok sp_acc sp_stream sp_open] in *. pose proof Opend as Opend0. rewrite Hnopen in Opend. cbn [judge_append]. rewrite Opend. cbn [none_b andb].
      apply andb_prop in Hok' as [_ Hp].
      destruct (align_ge (32 + len) ltac:(lia)) as [Ha1 Ha2]. specialize (Hend Hnopen). fold gg in Hend.
      assert (Hp32 : p mod 32 = 0).
      { assert (p = pos_after (sg_p0 gg) (sp_stream sp) + align (32 + len) 32) by lia. subst p.
        rewrite Z.add_mod, Hend, Ha2 by lia. reflexivity. }
      assert (E : (p =? o_pos st + align (32 + len) 32) && (p mod 32 =? 0) && (o_pos st <? p) = true) by lia.
      rewrite E. eexists. split; [reflexivity|]. constructor; cbn [o_pos o_pend o_queue o_sub o_closed sp_stream sp_open sp_acc sp_del]; try (apply next_term_spec; exact Opos); try (rewrite Himg; exact Osub); try (intros Hc; apply Oclosed, Hcl, Hc); try (exists dq; auto); auto.
    + cbn [on_result judge_append]. eexists. split; [reflexivity|].
      constructor; cbn [o_pos o_pend o_queue o_sub o_closed sp_stream sp_open sp_acc sp_del]; try (apply next_term_spec; exact Opos); try (rewrite Himg; exact Osub); try (intros Hc; apply Oclosed, Hcl, Hc); try (exists dq; auto); auto.
    + destruct e; try discriminate He; cbn [on_result judge_append refusal].
      all: try (eexists; split; [reflexivity|]; constructor; try (rewrite Himg; exact Osub); try (intros Hc; apply Oclosed, Hcl, Hc); try (exists dq; auto); auto; fail).
      eexists. split; [reflexivity|].
      apply (orel_after_max st s s' sp); [constructor; eauto| congruence | exact Himg | exact Hcl].
  - (* commit *)
    pose proof (step_shape tlen mtu ses n0 off0 Hmtu32 F pinv FK m rv s sp _ Hrep Henv) as Hsh. cbv zeta in Hsh.
    destruct (sys_step F m rv s (SCommit k)) as [s' [[r ds] ms]]. destruct Hsh as (-> & -> & Himg & Hshape & Hcl).
    cbn [result_shape] in Hshape. subst r.
    cbn [fst snd event_of spec_step sys_obs map sy_pub] in *. unfold image_position. rewrite Hopen'.
    assert (Hisopen : sy_open s = true) by (unfold env_ok in Henv; lia).
    destruct (sp_open sp) as [[len p]|] eqn:Eopen; [|destruct Hoi as [_ H2]; specialize (H2 eq_refl); congruence].
    destruct (rep_open_pos tlen mtu ses n0 off0 F pinv _ _ len p Hrep Eopen) as (Hp & Hclen & Hlen). fold gg in Hp.
    cbn [judge nil_b is_ok0]. rewrite Himg, <- Osub, Z.eqb_refl. cbn [andb]. rewrite Opend.
    eexists. split; [reflexivity|]. rewrite Hclen.
    constructor; cbn [o_pos o_pend o_queue o_sub o_closed sp_stream sp_open sp_acc sp_del];
      try (rewrite pos_after_app; cbn [span_of item_len]; unfold blen; fold (zlen (payload k len)); rewrite zlen_payload by lia; lia);
      try (rewrite Himg; exact Osub); try (intros Hc; apply Oclosed, Hcl, Hc);
      try (exists dq; split; [|split; [exact Odel|]];
           [rewrite Oacc, app_assoc, !map_app; reflexivity | apply Forall_app; split; [exact Oq|]; constructor; [exact Hlen|constructor]]);
      auto.
  - (* abort *)
    pose proof (step_shape tlen mtu ses n0 off0 Hmtu32 F pinv FK m rv s sp _ Hrep Henv) as Hsh. cbv zeta in Hsh.
    destruct (sys_step F m rv s SAbort) as [s' [[r ds] ms]]. destruct Hsh as (-> & -> & Himg & Hshape & Hcl).
    cbn [result_shape] in Hshape. subst r.
    cbn [fst snd event_of spec_step sys_obs map sy_pub] in *. unfold image_position. rewrite Hopen'.
    assert (Hisopen : sy_open s = true) by (unfold env_ok in Henv; lia).
    destruct (sp_open sp) as [[len p]|] eqn:Eopen; [|destruct Hoi as [_ H2]; specialize (H2 eq_refl); congruence].
    destruct (rep_open_pos tlen mtu ses n0 off0 F pinv _ _ len p Hrep Eopen) as (Hp & Hclen & Hlen). fold gg in Hp.
    cbn [judge nil_b is_ok0]. rewrite Himg, <- Osub, Z.eqb_refl. cbn [andb]. rewrite Opend.
    eexists. split; [reflexivity|].
    constructor; cbn [o_pos o_pend o_queue o_sub o_closed sp_stream sp_open sp_acc sp_del]; try (rewrite pos_after_app; cbn [span_of item_len]; lia); try (apply next_term_spec; exact Opos); try (rewrite Himg; exact Osub); try (intros Hc; apply Oclosed, Hcl, Hc); try (exists dq; auto); auto.
  - (* poll *)
    pose proof (poll_shape tlen mtu ses n0 off0 Hn0 Hoff0 F pinv FK m rv s sp limit Hrep) as Hsh.
    pose proof (poll_drained tlen mtu ses n0 off0 Hn0 Hoff0 F pinv FK m rv s sp limit Hrep) as Hdr.
    pose proof (rep_prefix tlen mtu ses n0 off0 F pinv _ _ Hrep') as Hpre.
    destruct (sys_step F m rv s (SPoll limit)) as [s' [[r ds] ms]]. destruct Hsh as (-> & Hses & Hmono & Hpub & Hop).
    cbn [fst snd event_of spec_step sys_obs sp_del sp_acc sp_stream sp_open] in *. unfold image_position. rewrite Hopen'.
    rewrite Oacc, Odel in Hpre. rewrite !map_app in Hpre.
    assert (Hpre2 : is_prefix (map snd ms) (map fst (map qmsg (o_queue st)))).
    { destruct Hpre as [rest Hr]. exists rest. rewrite <- app_assoc in Hr. apply app_inv_head in Hr. exact Hr. }
    destruct (take_delivered_ok ses ms (o_queue st) Hses Oq Hpre2) as [Htake Hfirst].
    cbn [judge]. cbn [cg_session gO]. rewrite Htake. rewrite map_length, Z.eqb_refl. cbn [andb].
    assert (E1 : (o_sub st <=? im_pos (sy_img s')) && (im_pos (sy_img s') <=? o_pos st) && (im_pos (sy_img s') mod 32 =? 0) = true) by lia.
    rewrite E1. cbn [andb].
    assert (Hdrain : (negb ((0 <? limit) && (im_pos (sy_img s') =? o_sub st) && none_b (o_pend st)) ||
              (nil_b (skipn (length ms) (o_queue st)) && (im_pos (sy_img s') =? o_pos st) &&
               match fl_position F m (sy_pub s') with Ok q => q =? im_pos (sy_img s') | Err Closed => o_closed st | _ => false end)) = true).
    { destruct ((0 <? limit) && (im_pos (sy_img s') =? o_sub st) && none_b (o_pend st)) eqn:Ed; [|reflexivity]. cbn [negb orb].
      assert (Hl : 0 < limit) by lia. assert (Hsame : im_pos (sy_img s') = im_pos (sy_img s)) by lia.
      assert (Hnp : sp_open sp = None). { rewrite <- Opend. destruct (o_pend st) eqn:Eo; [cbn [none_b] in Ed; lia|reflexivity]. }
      destruct (Hdr Hl Hsame (proj2 Hoi Hnp)) as (Hd & Hpos & Hend0). fold gg in Hend0.
      rewrite Oacc, Odel in Hd. apply (f_equal (@length _)) in Hd. rewrite !map_length, app_length in Hd.
      assert (Hq0 : o_queue st = []) by (destruct (o_queue st); [reflexivity|cbn [length] in Hd; lia]).
      rewrite Hq0. destruct (length ms); cbn [skipn nil_b andb]; rewrite Hpub, Hpos, Hsame.
      all: destruct (ps_closed (fl_pub F (sy_pub s))) eqn:Ec; [rewrite (Oclosed eq_refl); lia|lia]. }
    rewrite Hdrain. eexists. split; [reflexivity|].
    constructor; cbn [o_pos o_pend o_queue o_sub o_closed]; auto.
    + rewrite Hpub. exact Oclosed.
    + exists (dq ++ firstn (length ms) (o_queue st)). split; [|split].
      * rewrite Oacc, <- app_assoc, firstn_skipn. reflexivity.
      * rewrite Odel, !map_app, Hfirst. reflexivity.
      * clear -Oq. revert Oq. generalize (o_queue st). induction (length ms); intros q Hq; cbn [skipn]; [assumption|].
        destruct q; [constructor|]. inversion Hq; subst. apply IHn; assumption.
  - (* set limit *)
    pose proof (step_shape tlen mtu ses n0 off0 Hmtu32 F pinv FK m rv s sp _ Hrep Henv) as Hsh. cbv zeta in Hsh.
    destruct (sys_step F m rv s (SSetLimit v)) as [s' [[r ds] ms]]. destruct Hsh as (-> & -> & Himg & Hshape & Hcl).
    cbn [result_shape] in Hshape. subst r.
    cbn [fst snd event_of spec_step sys_obs map sy_pub] in *. unfold image_position. rewrite Hopen'.
    cbn [judge nil_b is_ok0]. rewrite Himg, <- Osub, Z.eqb_refl. cbn [andb].
    eexists. split; [reflexivity|]. constructor; try (apply next_term_spec; exact Opos); try (rewrite Himg; exact Osub); try (intros Hc; apply Oclosed, Hcl, Hc); try (exists dq; auto); auto.
  - (* clean *)
    pose proof (step_shape tlen mtu ses n0 off0 Hmtu32 F pinv FK m rv s sp _ Hrep Henv) as Hsh. cbv zeta in Hsh.
    destruct (sys_step F m rv s (SClean i)) as [s' [[r ds] ms]]. destruct Hsh as (-> & -> & Himg & Hshape & Hcl).
    cbn [result_shape] in Hshape. subst r.
    cbn [fst snd event_of spec_step sys_obs map sy_pub] in *. unfold image_position. rewrite Hopen'.
    cbn [judge nil_b is_ok0]. rewrite Himg, <- Osub, Z.eqb_refl. cbn [andb].
    eexists. split; [reflexivity|]. constructor; try (apply next_term_spec; exact Opos); try (rewrite Himg; exact Osub); try (intros Hc; apply Oclosed, Hcl, Hc); try (exists dq; auto); auto.
  - (* connected *)
    pose proof (step_shape tlen mtu ses n0 off0 Hmtu32 F pinv FK m rv s sp _ Hrep Henv) as Hsh. cbv zeta in Hsh.
    destruct (sys_step F m rv s (SSetConnected b)) as [s' [[r ds] ms]]. destruct Hsh as (-> & -> & Himg & Hshape & Hcl).
    cbn [result_shape] in Hshape. subst r.
    cbn [fst snd event_of spec_step sys_obs map sy_pub] in *. unfold image_position. rewrite Hopen'.
    cbn [judge nil_b is_ok0]. rewrite Himg, <- Osub, Z.eqb_refl. cbn [andb].
    eexists. split; [reflexivity|]. constructor; try (apply next_term_spec; exact Opos); try (rewrite Himg; exact Osub); try (intros Hc; apply Oclosed, Hcl, Hc); try (exists dq; auto); auto.
  - (* close *)
    pose proof (step_shape tlen mtu ses n0 off0 Hmtu32 F pinv FK m rv s sp _ Hrep Henv) as Hsh. cbv zeta in Hsh.
    destruct (sys_step F m rv s SClose) as [s' [[r ds] ms]]. destruct Hsh as (-> & -> & Himg & Hshape & Hcl).
    cbn [result_shape] in Hshape. subst r.
    cbn [fst snd event_of spec_step sys_obs map sy_pub] in *. unfold image_position. rewrite Hopen'.
    cbn [judge nil_b is_ok0]. rewrite Himg, <- Osub, Z.eqb_refl. cbn [andb].
    eexists. split; [reflexivity|]. constructor; cbn [o_pos o_pend o_queue o_sub o_closed]; try (apply next_term_spec; exact Opos); try (rewrite Himg; exact Osub); try (intros Hc; apply Oclosed, Hcl, Hc); try (exists dq; auto); auto.
Qed.

Theorem judge_all_model : forall ops st s sp, srep s sp -> orel st s sp -> contract F m rv s ops = true ->
  judge_all gO st ops (sys_observe F m rv s ops) = true.
Proof. induction ops as [|o r IH]; intros st s sp Hrep Hor Hc; [reflexivity|].
  cbn [contract] in Hc. apply andb_prop in Hc as [He Hr]. cbn [sys_observe judge_all].
  destruct (judge_step st s sp o Hrep Hor He) as (st' & Hj & Hor').
  pose proof (sys_step_rep tlen mtu ses n0 off0 Hn0 Hoff0 Hoff0al Hmtu32 F pinv FK m rv s sp o Hrep He) as Hrep'.
  destruct (sys_step F m rv s o) as [s' x]. cbn [fst snd] in *. rewrite Hj. eapply IH; eassumption. Qed.
End OracleModel.
