(* C03, exclusive publisher: steps that touch no frame (limit, tail, back pressure, rotation). *)
Require Import V.Base.MachineInt.
Require Import V.Generated.GenConsts.
Require Import V.Model.LogBase.
Require Import V.Model.Descriptor.
Require Import V.Model.Sched.
Require Import V.Model.AppenderThreads.
Require Import V.Model.ReaderThreads.
Require Import V.Model.ExclThreads.
Require Import V.Model.PollThreads.
Require Import V.Model.ClaimThreads.
Require Import V.Proofs.TailArith.
Require Import V.Proofs.FragArith.
Require Import V.Proofs.ExclDefs V.Proofs.ExclPub1 V.Proofs.ExclPub2 V.Proofs.ExclPub3.
From Coq Require Import ZifyBool.
Open Scope Z_scope.

Section P.
  Variable c : cfg.
  Hypothesis W : wf_cfg c.

  Ltac curl Hpc := unfold cur; cbn; try rewrite Hpc; reflexivity.

  (* steps that touch no frame *)
  Lemma idle_steps s gh l t s' l' e : XPInv c gh l -> memok c s gh (Some l) -> laidinv c gh -> adm_xpub c l ->
    in_frame (x_pc l) = false -> in_pad (x_pc l) = false ->
    xstep c t s l = Some (s', l', e) ->
    XPInv c gh l' /\ memok c s' gh (Some l') /\ sh_subpos s' = sh_subpos s.
  Proof. intros I M L A F P Hstep. pose proof I as [I1 I2 I3 I4 I5 I6 I7 I8 I9 I10 I11 I12].
    assert (Hcur : cur c l = None) by (unfold cur; destruct (x_pc l); try discriminate; reflexivity).
    assert (Hfr : front l = x_toff l) by (unfold front; destruct (x_pc l); try discriminate; reflexivity).
    destruct (TL_bounds c W) as (TB & TM).
    unfold xstep in Hstep. destruct (x_pc l) eqn:Hpc; try discriminate; inversion Hstep; subst s' l' e; clear Hstep.
    - (* XLimit *)
      assert (Fin : forall r, XPInv c gh (x_finish c r l) /\ memok c s gh (Some (x_finish c r l)) /\ sh_subpos s = sh_subpos s).
      { intros r. split; [apply finish_inv; try assumption; [apply I2 | apply I2 | congruence]|].
        split; [|reflexivity]. apply (mem_same c s s gh l); [assumption | reflexivity | right; split; [apply cur_finish | assumption]]. }
      destruct (x_tbp l + x_toff l <? sh_limit s) eqn:E1.
      + destruct (negb (is_claim (x_item l)) && is_fragmented c (x_len l) && (max_msg c <? x_len l)) eqn:E2; [apply Fin|].
        split; [|split; [|reflexivity]].
        * apply idle_like; xn; cbn; try assumption; try reflexivity; try apply I2; try congruence.
          all: try (intros X _; apply I6; [assumption | congruence]).
          intros _. split; [reflexivity|]. intros X1 X2. rewrite X1, X2 in E2. cbn in E2. lia.
        * apply (mem_same c s s gh l); [assumption | reflexivity | right; split; [reflexivity | assumption]].
      + destruct (max_pos c <=? x_tbp l + x_toff l + x_len l); [apply Fin|].
        split; [|split; [|reflexivity]].
        * apply idle_like; xn; cbn; try assumption; try reflexivity; try apply I2; try congruence; try (intros; discriminate).
          all: try (intros X _; apply I6; [assumption | congruence]).
        * apply (mem_same c s s gh l); [assumption | reflexivity | right; split; [reflexivity | assumption]].
    - (* XConn *)
      split; [apply finish_inv; try assumption; [apply I2 | apply I2 | congruence]|].
      split; [|reflexivity]. apply (mem_same c s s gh l); [assumption | reflexivity | right; split; [apply cur_finish | assumption]].
    - (* XTail *)
      destruct (I4 eq_refl) as (R1 & R2).
      assert (Hlen : 0 <= x_len l) by (unfold x_len, item_len; lia).
      pose proof (span_required c (x_len l) W Hlen) as Hsp.
      assert (Hcl : is_claim (x_item l) = true -> x_len l <= max_payload c) by (intros X; apply I6; [assumption | congruence]).
      split; [|split; [|reflexivity]].
      + destruct (TL c <? x_resoff l) eqn:E1.
        * destruct (x_toff l <? TL c) eqn:E2.
          -- apply pad_like; xn; cbn; try assumption; try reflexivity; try apply I2; try congruence; try lia.
          -- unfold x_newpos_fail. destruct (max_pos c <=? x_tbp l + TL c) eqn:E3.
             ++ apply finish_inv; cbn; try assumption; try lia.
             ++ (* rotate *)
                unfold adm_xpub in A. rewrite Hpc in A. specialize (A ltac:(lia)).
                destruct I1 as (g & G1 & G2 & G3 & G4 & G5).
                assert (Hg : g + 1 <= c_n0 c + 2) by nia.
                assert (Hidx : rem_t (x_idx l + 1) PARTITION_COUNT = (g + 1) mod 3).
                { rewrite G3. unfold rem_t, PARTITION_COUNT, GenConsts.PARTITION_COUNT.
                  pose proof (Z.mod_pos_bound g 3 ltac:(lia)). rewrite Z.rem_mod_nonneg by lia. rewrite Zplus_mod_idemp_l. reflexivity. }
                assert (G' : xgeom c gh (x_tbp l + TL c) (rem_t (x_idx l + 1) PARTITION_COUNT) (wrap32 (x_tid l + 1))).
                { exists (g + 1). split; [lia|]. split; [lia|]. split; [assumption|]. split; [rewrite G4; apply tid_of_succ|].
                  intros g' Hg'. apply G5. lia. }
                assert (H0 : xg_hi gh (rem_t (x_idx l + 1) PARTITION_COUNT) = 0) by (rewrite Hidx; apply G5; lia).
                apply idle_like; xn; cbn; try assumption; try reflexivity; try lia; try (intros; discriminate); try (intros X _; auto).
        * (* fits: start the first frame *)
          apply frame_like; xn; cbn; try assumption; try reflexivity; try apply I2; try congruence; try (intros; discriminate).
          all: try (intros X; split; [auto | reflexivity]).
          rewrite Hsp. repeat split; try lia; apply I2.
      + apply (mem_same c s _ gh l); [assumption | reflexivity|]. right. split; [|assumption].
        destruct (TL c <? x_resoff l); [destruct (x_toff l <? TL c); [reflexivity|] | reflexivity].
        unfold x_newpos_fail. destruct (_ <=? _); [apply cur_finish | reflexivity].
    - (* XRotTail *)
      split; [|split; [|reflexivity]].
      + apply idle_like; xn; cbn; try assumption; try reflexivity; try apply I2; try congruence; try (intros; discriminate).
        all: try (intros X _; apply I6; [assumption | congruence]).
      + apply (mem_same c s _ gh l); [assumption | reflexivity | right; split; [reflexivity | assumption]].
    - (* XRotCount *)
      split; [apply finish_inv; try assumption; [apply I2 | apply I2 | congruence]|].
      split; [|reflexivity]. apply (mem_same c s _ gh l); [assumption | reflexivity | right; split; [apply cur_finish | assumption]]. Qed.
End P.
