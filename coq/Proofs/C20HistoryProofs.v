(* C20: the oracle accepts what the model of a subscription does, step by step. *)
Require Import V.Base.MachineInt.
Require Import V.Generated.GenConsts.
Require Import V.Model.LogBase.
Require Import V.Model.Descriptor.
Require Import V.Model.Reader.
Require Import V.Model.Image.
Require Import V.Model.Subscription.
Require Import V.Model.Assembler.
Require Import V.Oracle.C05Cases.
Require Import V.Oracle.C05Oracle.
Require Import V.Oracle.C20Cases.
Require Import V.Oracle.C20Oracle.
Require Import V.Proofs.ReaderProofs.
Require Import V.Proofs.ImageProofs.
Require Import V.Proofs.C05OracleProofs.
Require Import V.Proofs.C05Readable.
Require Import V.Proofs.SubscriptionProofs.
Require Import V.Proofs.AssemblerProofs.
Require Import V.Proofs.C20OracleProofs.
From Coq Require Import ZifyBool Permutation.
Open Scope Z_scope.

(* ---- poll_inner as one pass over the rotated list, keeping the share of every image ---- *)
Fixpoint poll_seq {I X} (pk : I -> Z -> Z * I * list X) (imgs : list I) (limit read : Z) : Z * list I * list (list X) :=
  match imgs with
  | [] => (read, [], [])
  | im :: r =>
      if read <? limit then
        let '(n, im', xs) := pk im (limit - read) in
        let '(rd, r', ys) := poll_seq pk r limit (read + n) in (rd, im' :: r', xs :: ys)
      else
        let '(rd, r', ys) := poll_seq pk r limit read in (rd, im :: r', [] :: ys)
  end.

Lemma poll_range_seq {I X} (pk : I -> Z -> Z * I * list X) : forall imgs idx limit read,
  let '(rd, imgs', xs, _) := poll_range pk imgs idx limit read in
  let '(rd2, imgs2, shares) := poll_seq pk imgs limit read in
  rd = rd2 /\ imgs' = imgs2 /\ xs = concat shares.
Proof. induction imgs as [|im r IH]; intros idx limit read; cbn [poll_range poll_seq]; [auto|].
  destruct (read <? limit).
  - destruct (pk im (limit - read)) as [[n im'] xs0]. specialize (IH (idx + 1) limit (read + n)).
    destruct (poll_range pk r (idx + 1) limit (read + n)) as [[[rd r'] ys] p].
    destruct (poll_seq pk r limit (read + n)) as [[rd2 r2] sh]. destruct IH as (A & B & C). subst. cbn [concat]. auto.
  - specialize (IH (idx + 1) limit read).
    destruct (poll_range pk r (idx + 1) limit read) as [[[rd r'] ys] p].
    destruct (poll_seq pk r limit read) as [[rd2 r2] sh]. destruct IH as (A & B & C). subst. cbn [concat app]. auto. Qed.

Lemma poll_seq_app {I X} (pk : I -> Z -> Z * I * list X) : forall a b limit read,
  poll_seq pk (a ++ b) limit read =
  let '(r1, a', s1) := poll_seq pk a limit read in
  let '(r2, b', s2) := poll_seq pk b limit r1 in (r2, a' ++ b', s1 ++ s2).
Proof. induction a as [|im r IH]; intros b limit read; cbn [app poll_seq].
  - destruct (poll_seq pk b limit read) as [[r2 b'] s2]. reflexivity.
  - destruct (read <? limit).
    + destruct (pk im (limit - read)) as [[n im'] xs0]. rewrite IH.
      destruct (poll_seq pk r limit (read + n)) as [[r1 a'] s1]. destruct (poll_seq pk b limit r1) as [[r2 b'] s2]. reflexivity.
    + rewrite IH. destruct (poll_seq pk r limit read) as [[r1 a'] s1]. destruct (poll_seq pk b limit r1) as [[r2 b'] s2]. reflexivity. Qed.

Lemma poll_seq_length {I X} (pk : I -> Z -> Z * I * list X) : forall imgs limit read,
  let '(_, imgs', sh) := poll_seq pk imgs limit read in length imgs' = length imgs /\ length sh = length imgs.
Proof. induction imgs as [|im r IH]; intros limit read; cbn [poll_seq]; [auto|].
  destruct (read <? limit).
  - destruct (pk im (limit - read)) as [[n im'] xs0]. specialize (IH limit (read + n)).
    destruct (poll_seq pk r limit (read + n)) as [[rd r'] ys]. cbn [length]. lia.
  - specialize (IH limit read). destruct (poll_seq pk r limit read) as [[rd r'] ys]. cbn [length]. lia. Qed.

(* poll_inner = one pass over the rotation; the new list is the rotation undone *)
Lemma poll_inner_seq {I X} (pk : I -> Z -> Z * I * list X) (s : sub I) limit :
  let start := fst (rr_next (Z.of_nat (length (s_images s))) (s_rr s)) in
  let '(total, s', xs, _) := poll_inner pk s limit in
  let '(rd, imgs', shares) := poll_seq pk (rotation start (s_images s)) limit 0 in
  total = rd /\ xs = concat shares /\ s_rr s' = snd (rr_next (Z.of_nat (length (s_images s))) (s_rr s)) /\
  rotation start (s_images s') = imgs' /\ length (s_images s') = length (s_images s).
Proof. cbv zeta. unfold poll_inner, rotation.
  destruct (rr_next (Z.of_nat (length (s_images s))) (s_rr s)) as [start rr']. cbn [fst snd].
  set (k := Z.to_nat start). rewrite poll_seq_app.
  pose proof (poll_range_seq pk (skipn k (s_images s)) start limit 0) as H1.
  destruct (poll_range pk (skipn k (s_images s)) start limit 0) as [[[read1 back'] xs1] p1].
  pose proof (poll_seq_length pk (skipn k (s_images s)) limit 0) as L1.
  destruct (poll_seq pk (skipn k (s_images s)) limit 0) as [[r1 a'] s1]. destruct H1 as (A1 & B1 & C1). subst.
  pose proof (poll_range_seq pk (firstn k (s_images s)) 0 limit r1) as H2.
  destruct (poll_range pk (firstn k (s_images s)) 0 limit r1) as [[[read2 front'] xs2] p2].
  pose proof (poll_seq_length pk (firstn k (s_images s)) limit r1) as L2.
  destruct (poll_seq pk (firstn k (s_images s)) limit r1) as [[r2 b'] s2]. destruct H2 as (A2 & B2 & C2). subst.
  cbn [s_images s_rr]. rewrite concat_app. destruct L1 as [L1 _]. destruct L2 as [L2 _].
  rewrite firstn_length in L2. rewrite skipn_length in L1.
  repeat split; try reflexivity.
  - assert (Hk : length b' = Nat.min k (length (s_images s))) by lia.
    destruct (Nat.le_gt_cases k (length (s_images s))).
    + rewrite skipn_app, firstn_app. replace (k - length b')%nat with 0%nat by lia.
      rewrite (skipn_all2 b') by lia. rewrite (firstn_all2 b') by lia. cbn [skipn firstn app]. rewrite app_nil_r. reflexivity.
    + (* k beyond the list: the back part is empty *)
      assert (a' = []) by (destruct a'; [reflexivity|cbn in L1; lia]). subst a'.
      rewrite app_nil_r. rewrite skipn_all2 by lia. rewrite firstn_all2 by lia. reflexivity.
  - rewrite app_length. lia. Qed.

(* ---- frames a reader can see lie where the segment laid them ---- *)
Fixpoint laid (s : Z) (t : term) : list dlv :=
  match t with
  | [] => []
  | Committed f :: r => (s, f) :: laid (s + span f) r
  | Claimed f :: r => laid (s + span f) r
  | Unknown n :: r => laid (s + n) r
  end.

Lemma avail_laid : forall t s o f, In (o, f) (place s (avail t)) -> In (o, f) (laid s t).
Proof. induction t as [|e r IH]; intros s o f H; [destruct H|]. destruct e as [g|g|n]; cbn [avail] in H; try destruct H.
  destruct (f_len g <=? 0); [destruct H|]. cbn [place laid] in *. destruct H as [H|H]; [left; assumption|right; apply IH; assumption]. Qed.

Lemma laid_skip e r s o f : In (o, f) (laid (s + entry_span e) r) -> In (o, f) (laid s (e :: r)).
Proof. destruct e; cbn [laid entry_span]; unfold span; auto. intros; right; assumption. Qed.

Lemma seek_laid : forall t s off o f, 0 <= off -> In (o, f) (place (s + off) (avail (seek t off))) -> In (o, f) (laid s t).
Proof. induction t as [|e r IH]; intros s off o f Hoff H; [destruct H|]. cbn [seek] in H.
  destruct (off <=? 0) eqn:E0.
  - assert (off = 0) by lia. subst. rewrite Z.add_0_r in H. apply avail_laid. exact H.
  - destruct (off <? entry_span e) eqn:E1; [destruct H|]. apply laid_skip. apply (IH _ (off - entry_span e)); [lia|].
    replace (s + entry_span e + (off - entry_span e)) with (s + off) by lia. exact H. Qed.

Lemma laid_committed : forall fs s, laid s (map Committed fs) = place s fs.
Proof. induction fs; intros s; cbn [map laid place]; [reflexivity|]. rewrite IHfs. reflexivity. Qed.

Lemma laid_app : forall a b s, laid s (a ++ b) = laid s a ++ laid (s + term_end a) b.
Proof. induction a as [|e r IH]; intros b s; cbn [app laid term_end].
  - rewrite Z.add_0_r. reflexivity.
  - replace (s + (entry_span e + term_end r)) with (s + entry_span e + term_end r) by lia.
    destruct e; cbn [laid entry_span app]; unfold span; rewrite IH; reflexivity. Qed.

Definition seg_ok (se : Z) (sg : seg) : Prop :=
  let '(_, off, _, _, fs) := sg in 0 <= off /\ frames_pos fs /\ Forall (fun f => f_session f = se) fs.

Lemma seg_term_laid sg se o f : seg_ok se sg -> In (o, f) (laid 0 (seg_term sg)) ->
  let '(_, off, _, _, fs) := sg in In (o, f) (place off fs).
Proof. destruct sg as [[[[n off] vis] claim] fs]. intros (Hoff & Hp & Hs) H. unfold seg_term in H.
  assert (Hpre : forall b, In (o, f) (laid 0 ((if 0 <? off then [Unknown off] else []) ++ b)) -> In (o, f) (laid off b)).
  { intros b Hb. destruct (0 <? off) eqn:E; cbn [app laid] in Hb; [exact Hb|]. assert (off = 0) by lia. subst. exact Hb. }
  apply Hpre in H. rewrite laid_app, laid_committed in H. apply in_app_or in H as [H|H].
  - rewrite (place_split off fs (Z.to_nat vis)). apply in_or_app. left. exact H.
  - destruct claim; [|destruct H]. destruct (nth_error fs (Z.to_nat vis)); destruct H. Qed.

Lemma place_in_frame : forall fs s o f, In (o, f) (place s fs) -> In f fs.
Proof. induction fs; intros s o f H; [destruct H|]. cbn [place] in H. destruct H as [H|H]; [inversion H; left; reflexivity|right; eapply IHfs; eauto]. Qed.

Lemma body_at_in : forall fs s o f, frames_pos fs -> In (o, f) (place s fs) -> body_at (place s fs) o = f_body f.
Proof. induction fs as [|g r IH]; intros s o f Hp H; [destruct H|]. apply frames_pos_inv in Hp as [Hg Hr]. cbn [place body_at] in *.
  destruct H as [H|H].
  - inversion H; subst. rewrite Z.eqb_refl. reflexivity.
  - pose proof (place_offsets_ge _ _ Hr _ _ H). pose proof (span_bounds g Hg). destruct (s =? o) eqn:E; [lia|]. apply IH; assumption. Qed.

(* ---- splitting the raw fragments by session ---- *)
Lemma take_session_app se : forall a b, (forall r, In r a -> fo_session r = se) ->
  (match b with r :: _ => fo_session r <> se | [] => True end) -> take_session se (a ++ b) = (a, b).
Proof. induction a as [|x a IH]; intros b Ha Hb; cbn [app take_session].
  - destruct b as [|r b']; [reflexivity|]. cbn [take_session]. destruct (fo_session r =? se) eqn:E; [lia|reflexivity].
  - rewrite (Ha x (or_introl eq_refl)), Z.eqb_refl. rewrite IH; [reflexivity| |assumption]. intros; apply Ha; right; assumption. Qed.

(* ---- one image of a subscription ---- *)
Definition oslot_of (sl : slot) : oslot :=
  let '(id, bits, init, se, sg, im) := sl in (id, bits, init, se, sg, im_pos im, im_closed im).

Definition slot_ok (sl : slot) : Prop :=
  let '(id, bits, init, se, sg, im) := sl in 0 <= bits /\ im_session im = se /\ seg_ok se sg.

Lemma land_nonneg_mask x tl : 1 <= tl -> 0 <= Z.land x (tl - 1).
Proof. intros. apply Z.land_nonneg. right. lia. Qed.

(* whatever an image hands over comes from its segment, at the place the segment laid it *)
Lemma controlled_ds_in_seg sl lim sc ret ds ws im' : slot_ok sl ->
  image_controlled_poll (slot_log sl) (slot_image sl) lim sc = Ok (ret, ds, ws, im') ->
  forall d, In d ds -> In d (seg_frames (oslot_of sl)).
Proof. destruct sl as [[[[[id bits] init] se] sg] im]. intros (Hb & Hse & Hsg) H d Hd.
  unfold image_controlled_poll, slot_image, slot_log in H. destruct (im_closed im); [inversion H; subst; destruct Hd|].
  unfold sel in H. set (l := mk_log bits init se [sg]) in *.
  destruct ((0 <=? index_by_position (im_pos im) (bits_of (l_tlen l))) && (index_by_position (im_pos im) (bits_of (l_tlen l)) <? PARTITION_COUNT)) eqn:Ei;
    cbn [bind] in H; [|discriminate].
  set (idx := index_by_position (im_pos im) (bits_of (l_tlen l))) in *.
  set (off := term_offset_of_pos (l_tlen l) (im_pos im)) in *.
  destruct (cloop_spec (l_tlen l) lim (im_pos im - off) (view (part l idx) off) sc off 0 off) as (k & ab & Hk & Ha & He).
  replace (im_pos im - off + off) with (im_pos im) in He by lia. rewrite He, cfinish_cres in H. inversion H; subst ds.
  apply handed_incl in Hd. destruct d as [o f].
  assert (Hoff : 0 <= off).
  { unfold off, term_offset_of_pos. apply land_nonneg_mask. change (l_tlen l) with (2 ^ bits).
    pose proof (pow2_pos bits Hb). lia. }
  unfold view in Hd. pose proof (seek_laid (part l idx) 0 off o f Hoff) as Hl. rewrite Z.add_0_l in Hl. specialize (Hl Hd).
  unfold PARTITION_COUNT, GenConsts.PARTITION_COUNT in Ei.
  unfold l in Hl. rewrite part_mk_log in Hl by lia. cbn [part_of] in Hl.
  unfold oslot_of, seg_frames. destruct (seg_n sg mod 3 =? idx); [|destruct Hl].
  pose proof (seg_term_laid sg se o f Hsg Hl) as Hin. destruct sg as [[[[n soff] vis] claim] fs]. exact Hin. Qed.

Lemma seg_frames_session sl d : slot_ok sl -> In d (seg_frames (oslot_of sl)) -> f_session (snd d) = slot_session sl.
Proof. destruct sl as [[[[[id bits] init] se] sg] im]. intros (Hb & Hse & Hsg) H. unfold oslot_of, seg_frames in H.
  destruct sg as [[[[n soff] vis] claim] fs]. destruct Hsg as (_ & _ & Hs). destruct d as [o f]. apply place_in_frame in H.
  rewrite Forall_forall in Hs. cbn [snd slot_session]. auto. Qed.

Lemma seg_frames_body sl d : slot_ok sl -> In d (seg_frames (oslot_of sl)) ->
  body_at (seg_frames (oslot_of sl)) (fst d) = f_body (snd d).
Proof. destruct sl as [[[[[id bits] init] se] sg] im]. intros (Hb & Hse & Hsg) H. unfold oslot_of, seg_frames in *.
  destruct sg as [[[[n soff] vis] claim] fs]. destruct Hsg as (_ & Hp & _). destruct d as [o f]. cbn [fst snd]. apply body_at_in; assumption. Qed.

(* the run judgement without the write trace holds for the exact result of an admissible run *)
Lemma judge_nw_run m l bits init pos fs limit sc k ab :
  ctx bits init pos l fs -> (k <= length fs)%nat ->
  adm (below None (pos - pos mod 2 ^ bits)) fs sc (pos mod 2 ^ bits) limit k ab = true ->
  judge_poll_nw limit sc pos (pos mod 2 ^ bits) fs
    (Ok (Z.of_nat (length (frags (pos mod 2 ^ bits) fs k))))
    (map (frag_obs m l) (frags (pos mod 2 ^ bits) fs k ++ aborted (pos mod 2 ^ bits) fs k ab))
    (pos + span_sum (consumed fs k)) = true.
Proof. intros Hc Hk Ha. unfold judge_poll_nw. apply (any_upto_intro _ _ k Hk).
  assert (Hj : judge_run_nw limit sc pos (pos mod 2 ^ bits) fs
     (Ok (Z.of_nat (length (frags (pos mod 2 ^ bits) fs k))))
     (map (frag_obs m l) (frags (pos mod 2 ^ bits) fs k ++ aborted (pos mod 2 ^ bits) fs k ab))
     (pos + span_sum (consumed fs k)) k ab = true).
  { unfold judge_run_nw. unfold reached.
    assert (E : pos + span_sum (consumed fs k) =? pos - pos mod 2 ^ bits + (pos mod 2 ^ bits + span_sum (consumed fs k)) = true) by lia.
    rewrite E, out_eqb_refl_ok, Ha. apply list_eqb_map_exp. intros d Hd. eapply handed_exp; eauto. }
  destruct ab; rewrite Hj; [apply orb_true_r|reflexivity]. Qed.

(* a call that did nothing is an admissible (empty) run *)
Lemma judge_nw_idle limit sc pos off fs : judge_poll_nw limit sc pos off fs (Ok 0) [] pos = true.
Proof. unfold judge_poll_nw. apply (any_upto_intro _ _ 0%nat ltac:(lia)). unfold judge_run_nw.
  rewrite reached_0, frags_0. cbn [length adm aborted app map list_eqb out_eqb].
  assert (E : pos =? pos - off + off = true) by lia. rewrite E. reflexivity. Qed.

(* ---- counts and progress of the loops, without any well-formedness ---- *)
Lemma read_loop_count cap limit : forall fs off n,
  let '(_, c, ds) := read_loop cap limit fs off n in c = n + Z.of_nat (length ds).
Proof. induction fs as [|f r IH]; intros off n; rewrite read_loop_eq.
  - destruct ((n <? limit) && (off <? cap)); cbn [length]; lia.
  - destruct ((n <? limit) && (off <? cap)); [|cbn [length]; lia]. cbv zeta. destruct (is_pad f).
    + apply IH.
    + specialize (IH (off + span f) (n + 1)). destruct (read_loop cap limit r (off + span f) (n + 1)) as [[o c] ds].
      cbn [length]. lia. Qed.

(* with the handler answering by frame offset (g), the count of a controlled loop is the number of handed fragments
   whose answer is not Abort *)
Lemma cloop_count endo limit (g : Z -> action) : forall fs off n ipos ioff,
  let '(st, ds, _) := cloop endo limit fs (map (fun d => g (fst d)) (data_of (place off fs))) off n ipos ioff in
  let '(_, c, _, _) := st in
  c = n + Z.of_nat (length (filter (fun d => negb (is_abort (g (fst d)))) ds)).
Proof. induction fs as [|f r IH]; intros off n ipos ioff; rewrite cloop_eq.
  - destruct ((n <? limit) && (off <? endo)); cbn [filter length]; lia.
  - destruct ((n <? limit) && (off <? endo)); [|cbn [filter length]; lia]. cbv zeta.
    cbn [place data_of filter snd]. destruct (is_pad f) eqn:Ep; cbn [negb].
    + apply IH.
    + cbn [map hd tl fst]. fold (data_of (place (off + span f) r)).
      destruct (g off) eqn:Eg.
      * cbn [filter fst length]. rewrite Eg. cbn [is_abort negb length]. lia.
      * cbn [filter fst length]. rewrite Eg. cbn [is_abort negb length]. lia.
      * specialize (IH (off + span f) (n + 1) (ipos + (off + span f - ioff)) (off + span f)).
        destruct (cloop endo limit r (map (fun d => g (fst d)) (data_of (place (off + span f) r))) (off + span f) (n + 1)
                   (ipos + (off + span f - ioff)) (off + span f)) as [[[[[a c] b] e] ds] ws].
        cbn [filter fst]. rewrite Eg. cbn [is_abort negb length]. lia.
      * specialize (IH (off + span f) (n + 1) ipos ioff).
        destruct (cloop endo limit r (map (fun d => g (fst d)) (data_of (place (off + span f) r))) (off + span f) (n + 1) ipos ioff)
          as [[[[[a c] b] e] ds] ws].
        cbn [filter fst]. rewrite Eg. cbn [is_abort negb length]. lia. Qed.

(* progress: when the budget is positive and a data frame is visible inside the term, something is handed over *)
Lemma cloop_progress endo limit : forall fs sc off n ipos ioff,
  frames_pos fs -> off + span_sum fs <= endo -> n < limit -> has_data fs = true ->
  snd (fst (cloop endo limit fs sc off n ipos ioff)) <> [].
Proof. induction fs as [|f r IH]; intros sc off n ipos ioff Hp Hfit Hn Hd; [discriminate|].
  apply frames_pos_inv in Hp as [Hf Hr]. pose proof (span_bounds f Hf). pose proof (span_sum_nonneg r Hr).
  cbn [span_sum] in Hfit. rewrite cloop_eq.
  assert (E : (n <? limit) && (off <? endo) = true) by lia. rewrite E. cbv zeta.
  unfold has_data in Hd. cbn [existsb] in Hd. destruct (is_pad f) eqn:Ep; cbn [negb orb] in Hd.
  - apply IH; try assumption; lia.
  - destruct (hd Continue sc); cbn [fst snd]; try discriminate.
    + destruct (cloop endo limit r (tl sc) (off + span f) (n + 1) (ipos + (off + span f - ioff)) (off + span f)) as [[st ds] ws].
      cbn [fst snd]. discriminate.
    + destruct (cloop endo limit r (tl sc) (off + span f) (n + 1) ipos ioff) as [[st ds] ws]. cbn [fst snd]. discriminate. Qed.

(* the offset a loop run reaches: never before its start; at least one frame further when the first visible frame is
   padding or a data frame that is not answered Abort (budget positive, inside the term) *)
Definition cl_roff (r : (Z * Z * Z * Z) * list dlv * list Z) : Z := let '((a, _, _, _), _, _) := r in a.

Lemma cloop_roff_ge endo limit : forall fs sc off n ipos ioff,
  frames_pos fs -> off <= cl_roff (cloop endo limit fs sc off n ipos ioff).
Proof. induction fs as [|f r IH]; intros sc off n ipos ioff Hp; rewrite cloop_eq.
  - destruct ((n <? limit) && (off <? endo)); cbn [cl_roff]; lia.
  - apply frames_pos_inv in Hp as [Hf Hr]. pose proof (span_bounds f Hf).
    destruct ((n <? limit) && (off <? endo)); [|cbn [cl_roff]; lia]. cbv zeta.
    destruct (is_pad f).
    + specialize (IH sc (off + span f) n ipos ioff Hr). lia.
    + destruct (hd Continue sc).
      * cbn [cl_roff]. lia.
      * cbn [cl_roff]. lia.
      * pose proof (IH (tl sc) (off + span f) (n + 1) (ipos + (off + span f - ioff)) (off + span f) Hr) as H1.
        destruct (cloop endo limit r (tl sc) (off + span f) (n + 1) (ipos + (off + span f - ioff)) (off + span f)) as [[[[[a b] c] d] ds] ws].
        cbn [cl_roff] in *. lia.
      * pose proof (IH (tl sc) (off + span f) (n + 1) ipos ioff Hr) as H1.
        destruct (cloop endo limit r (tl sc) (off + span f) (n + 1) ipos ioff) as [[[[[a b] c] d] ds] ws].
        cbn [cl_roff] in *. lia. Qed.

Lemma cloop_first_advance endo limit fs sc off n ipos ioff :
  frames_pos fs -> n < limit -> off < endo -> must_advance sc fs = true ->
  off < cl_roff (cloop endo limit fs sc off n ipos ioff).
Proof. intros Hp Hn Ho Hm. destruct fs as [|f r]; [discriminate|]. apply frames_pos_inv in Hp as [Hf Hr].
  pose proof (span_bounds f Hf). rewrite cloop_eq.
  assert (E : (n <? limit) && (off <? endo) = true) by lia. rewrite E. cbv zeta.
  cbn [must_advance] in Hm. destruct (is_pad f); cbn [orb] in Hm.
  - pose proof (cloop_roff_ge endo limit r sc (off + span f) n ipos ioff Hr). lia.
  - destruct (hd Continue sc); cbn [is_abort negb] in Hm; try discriminate.
    + cbn [cl_roff]. lia.
    + pose proof (cloop_roff_ge endo limit r (tl sc) (off + span f) (n + 1) (ipos + (off + span f - ioff)) (off + span f) Hr) as H1.
      destruct (cloop endo limit r (tl sc) (off + span f) (n + 1) (ipos + (off + span f - ioff)) (off + span f)) as [[[[[a b] c] d] ds] ws].
      cbn [cl_roff] in *. lia.
    + pose proof (cloop_roff_ge endo limit r (tl sc) (off + span f) (n + 1) ipos ioff Hr) as H1.
      destruct (cloop endo limit r (tl sc) (off + span f) (n + 1) ipos ioff) as [[[[[a b] c] d] ds] ws].
      cbn [cl_roff] in *. lia. Qed.

Lemma cres_roff fs sc off n ioff base k ab : cl_roff (cres fs sc off n ioff base k ab) = reached off fs k.
Proof. reflexivity. Qed.

(* ---- what poll_inner's image step gives, for Image::poll and Image::controlled_poll ---- *)
Definition pk_of (sl : slot) (r : outcome call_result) : Z * slot * list dlv :=
  match r with Ok (Ok n, ds, _, im') => (n, slot_with sl im', ds) | _ => (0, sl, []) end.

Lemma os_wf_ctx id bits init se sg im : os_wf (oslot_of (id, bits, init, se, sg, im)) = true ->
  ctx bits init (im_pos im) (mk_log bits init se [sg]) (frames_at bits [sg] (im_pos im)).
Proof. unfold os_wf, oslot_of. intros H. apply andb_prop in H as [H _]. apply ctx_of_case. exact H. Qed.

Lemma wf_frames_fit' tid cap : forall gs o, wf_frames tid cap o gs = true -> o <= cap -> o + span_sum gs <= cap.
Proof. induction gs as [|f r IH]; intros o H Ho; cbn [span_sum]; [lia|]. cbn [wf_frames] in H.
  repeat (apply andb_prop in H as [H ?]). specialize (IH _ H0 ltac:(lia)). lia. Qed.

Definition img_facts (m : mode) (sl : slot) (lim : Z) (sc : list action) (res : Z * slot * list dlv) : Prop :=
  let o := oslot_of sl in
  let '(n, sl', ds) := res in
  slot_ok sl' /\ oslot_of sl' = os_with_pos o (im_pos (slot_image sl')) /\ im_closed (slot_image sl') = false /\
  slot_log sl' = slot_log sl /\ slot_session sl' = slot_session sl /\ slot_id sl' = slot_id sl /\
  (forall d, In d ds -> In d (seg_frames o)) /\
  (os_wf o = true ->
     judge_poll_nw lim sc (os_pos o) (os_off o) (os_frames o) (Ok n) (map (frag_obs m (slot_log sl)) ds) (im_pos (slot_image sl')) = true
     /\ (0 < lim -> has_data (os_frames o) = true -> ds <> [])
     /\ (0 < lim -> must_advance sc (os_frames o) = true -> os_pos o < im_pos (slot_image sl'))).

Lemma img_facts_idle m sl lim sc : slot_ok sl -> im_closed (slot_image sl) = false ->
  (os_wf (oslot_of sl) = true -> False) -> img_facts m sl lim sc (0, sl, []).
Proof. intros Hok Hopen Hnwf. unfold img_facts. destruct sl as [[[[[id bits] init] se] sg] im].
  cbn [slot_image slot_log slot_session slot_id oslot_of os_with_pos] in *.
  split; [exact Hok|]. split; [reflexivity|]. split; [exact Hopen|]. split; [reflexivity|]. split; [reflexivity|].
  split; [reflexivity|]. split; [intros d []|]. intros Hwf. destruct (Hnwf Hwf). Qed.

Lemma controlled_facts m sl lim sc : slot_ok sl -> im_closed (slot_image sl) = false ->
  img_facts m sl lim sc (pk_of sl (image_controlled_poll (slot_log sl) (slot_image sl) lim sc)).
Proof. intros Hok Hopen.
  destruct (image_controlled_poll (slot_log sl) (slot_image sl) lim sc) as [[[[ret ds] ws] im']| | | |] eqn:E.
  2-5: (cbn [pk_of]; apply img_facts_idle; try assumption; intros Hwf;
        destruct sl as [[[[[id bits] init] se] sg] im]; pose proof (os_wf_ctx _ _ _ _ _ _ Hwf) as Hc;
        destruct (poll_run bits init _ im _ Hc Hopen lim (FControlled sc)) as (k & ab & _ & _ & He); cbn [run_poll] in He;
        cbn [slot_log slot_image] in E; rewrite He in E; discriminate).
  pose proof (controlled_ds_in_seg sl lim sc ret ds ws im' Hok E) as Hin.
  pose proof (controlled_static _ _ _ _ _ E) as (S1 & S2 & S3).
  destruct sl as [[[[[id bits] init] se] sg] im]. cbn [slot_image slot_log slot_session slot_id] in *.
  assert (Hwfcase : os_wf (oslot_of (id, bits, init, se, sg, im)) = true ->
            exists k ab, (k <= length (frames_at bits [sg] (im_pos im)))%nat /\
              adm (below None (im_pos im - im_pos im mod 2 ^ bits)) (frames_at bits [sg] (im_pos im)) sc (im_pos im mod 2 ^ bits) lim k ab = true /\
              ret = Ok (Z.of_nat (length (frags (im_pos im mod 2 ^ bits) (frames_at bits [sg] (im_pos im)) k))) /\
              ds = frags (im_pos im mod 2 ^ bits) (frames_at bits [sg] (im_pos im)) k ++ aborted (im_pos im mod 2 ^ bits) (frames_at bits [sg] (im_pos im)) k ab /\
              im_pos im' = im_pos im + span_sum (consumed (frames_at bits [sg] (im_pos im)) k) /\
              ctx bits init (im_pos im) (mk_log bits init se [sg]) (frames_at bits [sg] (im_pos im))).
  { intros Hwf. pose proof (os_wf_ctx _ _ _ _ _ _ Hwf) as Hc.
    destruct (poll_run bits init _ im _ Hc Hopen lim (FControlled sc)) as (k & ab & Hk & Ha & He). cbn [run_poll fl_bound fl_script] in He, Ha.
    rewrite He in E. inversion E; subst. exists k, ab. split; [assumption|]. split; [assumption|]. split; [reflexivity|].
    split; [reflexivity|]. split; [|exact Hc].
    apply (pos_after_writes bits im _ Hopen sc k). eapply fs_pos; eauto. }
  destruct ret as [n| | | |]; cbn [pk_of].
  2-5: (apply img_facts_idle; try assumption; intros Hwf; destruct (Hwfcase Hwf) as (k & ab & _ & _ & Hr & _); discriminate).
  unfold img_facts. cbn [slot_with slot_image slot_log slot_session slot_id oslot_of os_with_pos].
  destruct Hok as (Hb & Hse & Hsg).
  split; [split; [assumption|split; [congruence|assumption]]|]. split; [rewrite S1; reflexivity|]. split; [congruence|].
  split; [reflexivity|]. split; [reflexivity|]. split; [reflexivity|]. split; [exact Hin|].
  intros Hwf. destruct (Hwfcase Hwf) as (k & ab & Hk & Ha & Hr & Hds & Hp & Hc). inversion Hr; subst n.
  unfold os_pos, os_off, os_frames. split; [|split].
  - rewrite Hds, Hp. apply (judge_nw_run m _ bits init); assumption.
  - intros Hlim Hd.
    unfold image_controlled_poll in E. rewrite Hopen in E. rewrite (ctx_sel _ _ _ _ _ Hc) in E. cbn [bind] in E.
    pose proof Hc as [Htl _ Hwfc _]. destruct (wf_call_facts _ _ _ _ Hwfc) as (_ & _ & _ & _ & Ho & _ & Hf & _).
    pose proof (cloop_progress (l_tlen (mk_log bits init se [sg])) lim (frames_at bits [sg] (im_pos im)) sc (im_pos im mod 2 ^ bits) 0
                  (im_pos im) (im_pos im mod 2 ^ bits) (wf_frames_pos _ _ _ _ Hf)) as Hpr.
    rewrite Htl in Hpr. specialize (Hpr (wf_frames_fit' _ _ _ _ Hf ltac:(lia)) Hlim Hd).
    rewrite Htl in E. unfold cfinish in E.
    destruct (cloop (2 ^ bits) lim (frames_at bits [sg] (im_pos im)) sc (im_pos im mod 2 ^ bits) 0 (im_pos im) (im_pos im mod 2 ^ bits))
      as [[[[[a c] b] e] ds0] ws0]. cbn [fst snd] in Hpr. inversion E; subst. exact Hpr.
  - intros Hlim Hm.
    unfold image_controlled_poll in E. rewrite Hopen in E. rewrite (ctx_sel _ _ _ _ _ Hc) in E. cbn [bind] in E.
    pose proof Hc as [Htl _ Hwfc _]. destruct (wf_call_facts _ _ _ _ Hwfc) as (_ & _ & _ & _ & Ho & _ & Hf & _).
    pose proof (wf_frames_pos _ _ _ _ Hf) as Hfp.
    set (fs := frames_at bits [sg] (im_pos im)) in *. set (off := im_pos im mod 2 ^ bits) in *.
    destruct (cloop_spec (l_tlen (mk_log bits init se [sg])) lim (im_pos im - off) fs sc off 0 off) as (k' & ab' & Hk' & Ha' & He').
    replace (im_pos im - off + off) with (im_pos im) in He' by lia.
    pose proof (cloop_first_advance (l_tlen (mk_log bits init se [sg])) lim fs sc off 0 (im_pos im) off Hfp Hlim ltac:(rewrite Htl; lia) Hm) as Hadv.
    rewrite He', cres_roff in Hadv. rewrite He', cfinish_cres in E. inversion E; subst.
    pose proof (pos_after_writes bits im fs Hopen sc k' Hfp) as Hq. fold off in Hq. rewrite Hq. unfold reached, consumed in *. lia. Qed.

(* ---- one pass over the images, judged share by share ---- *)
Section Pass.
Variable m : mode.
Variable raw : dlv -> fobs.                      (* how the step prints a fragment *)
Variable pk : slot -> Z -> Z * slot * list dlv.  (* the image poll of the model *)
Variable sc_of : slot -> list action.            (* the script the image is polled with *)
Variable osc : oslot -> list action.             (* ... as the oracle computes it *)
Variable cnt : list fobs -> Z.                   (* fragments of a share that count as read *)

Definition jp_gen (o : oslot) (budget : Z) (share : list fobs) (p' : Z) : bool :=
  if os_wf o then judge_poll_nw budget (osc o) (os_pos o) (os_off o) (os_frames o) (Ok (cnt share)) share p' else true.

Hypothesis cnt_nil : cnt [] = 0.
Hypothesis pk_facts : forall sl lim, slot_ok sl -> im_closed (slot_image sl) = false ->
  img_facts m sl lim (sc_of sl) (pk sl lim) /\
  (let '(n, _, ds) := pk sl lim in cnt (map (frag_obs m (slot_log sl)) ds) = n).
Hypothesis osc_ok : forall sl, os_wf (oslot_of sl) = true -> osc (oslot_of sl) = sc_of sl.

Definition good (sl : slot) : Prop :=
  slot_ok sl /\ im_closed (slot_image sl) = false /\
  (forall d, f_session (snd d) = slot_session sl -> raw d = frag_obs m (slot_log sl) d).

Lemma fo_session_frag_obs l d : fo_session (frag_obs m l d) = f_session (snd d).
Proof. destruct d as [o f]. reflexivity. Qed.

Lemma pass_judged ps : forall imgs limit read rd imgs' shares,
  Forall good imgs -> NoDup (map slot_session imgs) ->
  poll_seq pk imgs limit read = (rd, imgs', shares) ->
  ((forall sl', In sl' imgs' -> pos_at ps (slot_id sl') = im_pos (slot_image sl')) ->
   judge_shares jp_gen cnt (map oslot_of imgs) (concat (map (map raw) shares)) limit read ps = (true, rd)) /\
  Forall2 (fun sl sh => forall d, In d sh -> In d (seg_frames (oslot_of sl))) imgs shares /\
  Forall2 (fun sl sl' => slot_ok sl' /\ im_closed (slot_image sl') = false /\ slot_log sl' = slot_log sl /\
                         slot_session sl' = slot_session sl /\ slot_id sl' = slot_id sl /\
                         oslot_of sl' = os_with_pos (oslot_of sl) (im_pos (slot_image sl'))) imgs imgs'.
Proof. induction imgs as [|sl r IH]; intros limit read rd imgs' shares Hg Hnd E; cbn [poll_seq] in E.
  - inversion E; subst. cbn [map concat judge_shares]. repeat split; constructor.
  - inversion Hg as [|? ? (Hok & Hopen & Hraw) Hgr]; subst. cbn [map] in Hnd. inversion Hnd as [|? ? Hnotin Hndr]; subst.
    destruct (pk_facts sl (limit - read) Hok Hopen) as [Hf Hc].
    (* the two branches are brought to one shape: a share `sh`, a count `n`, a new slot *)
    assert (Hstep : exists n sl1 sh rd1 r1 ys,
              poll_seq pk r limit (read + n) = (rd1, r1, ys) /\ rd = rd1 /\ imgs' = sl1 :: r1 /\ shares = sh :: ys /\
              cnt (map (frag_obs m (slot_log sl)) sh) = n /\
              (forall d, In d sh -> In d (seg_frames (oslot_of sl))) /\
              jp_gen (oslot_of sl) (limit - read) (map (frag_obs m (slot_log sl)) sh) (im_pos (slot_image sl1)) = true /\
              slot_ok sl1 /\ im_closed (slot_image sl1) = false /\ slot_log sl1 = slot_log sl /\
              slot_session sl1 = slot_session sl /\ slot_id sl1 = slot_id sl /\
              oslot_of sl1 = os_with_pos (oslot_of sl) (im_pos (slot_image sl1))).
    { destruct (read <? limit) eqn:El.
      - destruct (pk sl (limit - read)) as [[n sl1] sh]. unfold img_facts in Hf.
        destruct Hf as (A1 & A2 & A3 & A4 & A5 & A6 & A7 & A8).
        destruct (poll_seq pk r limit (read + n)) as [[rd1 r1] ys] eqn:E1. inversion E.
        exists n, sl1, sh, rd1, r1, ys. repeat split; try assumption; try reflexivity; try congruence.
        unfold jp_gen. destruct (os_wf (oslot_of sl)) eqn:Ew; [|reflexivity]. rewrite (osc_ok sl Ew), Hc. apply (proj1 (A8 eq_refl)).
      - destruct (poll_seq pk r limit read) as [[rd1 r1] ys] eqn:E1. inversion E.
        exists 0, sl, [], rd1, r1, ys. rewrite Z.add_0_r. cbn [map]. repeat split; try assumption; try reflexivity; try congruence.
        + intros d [].
        + unfold jp_gen. destruct (os_wf (oslot_of sl)); [|reflexivity]. rewrite cnt_nil.
          destruct sl as [[[[[id bits] init] se] sg] im]. cbn [oslot_of os_pos slot_image]. apply judge_nw_idle.
        + destruct sl as [[[[[id bits] init] se] sg] im]. reflexivity. }
    destruct Hstep as (n & sl1 & sh & rd1 & r1 & ys & E1 & -> & -> & -> & Hcn & Hin & Hjp & B1 & B2 & B3 & B4 & B5 & B6).
    destruct (IH limit (read + n) rd1 r1 ys Hgr Hndr E1) as (J1 & J2 & J3).
    assert (Hsess : forall d, In d sh -> f_session (snd d) = slot_session sl).
    { intros d Hd. apply seg_frames_session; auto. }
    split; [|split].
    + intros Hps.
      assert (Hps' : forall sl', In sl' r1 -> pos_at ps (slot_id sl') = im_pos (slot_image sl')) by (intros; apply Hps; right; assumption).
      specialize (J1 Hps'). cbn [map concat judge_shares].
      assert (Hmap : map raw sh = map (frag_obs m (slot_log sl)) sh).
      { apply map_ext_in. intros d Hd. apply Hraw. apply Hsess. assumption. }
      assert (Hse : os_session (oslot_of sl) = slot_session sl) by (destruct sl as [[[[[? ?] ?] ?] ?] ?]; reflexivity).
      rewrite Hse, take_session_app.
      * assert (Hid : os_id (oslot_of sl) = slot_id sl) by (destruct sl as [[[[[? ?] ?] ?] ?] ?]; reflexivity).
        rewrite Hid, <- B5, (Hps sl1 (or_introl eq_refl)), Hmap, Hjp, Hcn, J1. reflexivity.
      * intros x Hx. apply in_map_iff in Hx as (d & <- & Hd). rewrite Hraw by (apply Hsess; assumption).
        rewrite fo_session_frag_obs. apply Hsess. assumption.
      * (* what follows belongs to later images, whose sessions differ *)
        destruct (concat (map (map raw) ys)) as [|x rest] eqn:Ec; [exact I|].
        assert (Hx : In x (concat (map (map raw) ys))) by (rewrite Ec; left; reflexivity).
        apply in_concat in Hx as (l0 & Hl0 & Hx). apply in_map_iff in Hl0 as (sh2 & <- & Hsh2).
        apply in_map_iff in Hx as (d & <- & Hd).
        clear -J2 Hsh2 Hd Hnotin Hgr. revert ys J2 Hsh2 Hgr Hnotin. induction r as [|s2 r IHr]; intros ys J2 Hsh2 Hgr Hnotin.
        { inversion J2; subst. destruct Hsh2. }
        inversion J2 as [|? ? ? ? Hhead Htail]; subst. inversion Hgr as [|? ? (Hok2 & Hop2 & Hraw2) Hgr2]; subst.
        cbn [map] in Hnotin. destruct Hsh2 as [->|Hsh2].
        -- assert (Hsd : f_session (snd d) = slot_session s2) by (apply seg_frames_session; [assumption|apply Hhead; assumption]).
           rewrite Hraw2 by assumption. rewrite fo_session_frag_obs, Hsd.
           intros Heq. apply Hnotin. left. exact Heq.
        -- apply (IHr l'); try assumption. intros Hc. apply Hnotin. right. exact Hc.
    + constructor; assumption.
    + constructor; [|assumption]. repeat split; assumption. Qed.

End Pass.

(* ---- the two image polls of a subscription satisfy the hypotheses of the pass ---- *)
Lemma pk_poll_is sl lim : pk_poll sl lim = pk_of sl (image_controlled_poll (slot_log sl) (slot_image sl) lim []).
Proof. unfold pk_poll, pk_of. rewrite poll_as_controlled. reflexivity. Qed.

Lemma pk_cpoll_is salt tab sl lim :
  pk_cpoll salt tab sl lim = pk_of sl (image_controlled_poll (slot_log sl) (slot_image sl) lim (script_for salt tab sl)).
Proof. reflexivity. Qed.

Definition cnt_len (sh : list fobs) : Z := Z.of_nat (length sh).

Lemma pk_poll_facts m sl lim : slot_ok sl -> im_closed (slot_image sl) = false ->
  img_facts m sl lim [] (pk_poll sl lim) /\
  (let '(n, _, ds) := pk_poll sl lim in cnt_len (map (frag_obs m (slot_log sl)) ds) = n).
Proof. intros Hok Hopen. split; [rewrite pk_poll_is; apply controlled_facts; assumption|].
  unfold pk_poll, image_poll, cnt_len. rewrite Hopen.
  destruct (sel (slot_log sl) (im_pos (slot_image sl))) as [[fs off]| | | |]; cbn [bind]; try reflexivity.
  unfold term_read. pose proof (read_loop_count (l_tlen (slot_log sl)) lim fs off 0) as Hc.
  destruct (read_loop (l_tlen (slot_log sl)) lim fs off 0) as [[o c] ds]. rewrite map_length. lia. Qed.

Lemma filter_map_frag_obs m l (g : Z -> action) ds :
  length (filter (fun r => negb (is_abort (g (fo_offset r - HDR)))) (map (frag_obs m l) ds))
  = length (filter (fun d => negb (is_abort (g (fst d)))) ds).
Proof. induction ds as [|[o f] r IH]; [reflexivity|]. cbn [map filter fst].
  assert (E : fo_offset (frag_obs m l (o, f)) - HDR = o) by (unfold frag_obs, fo_offset; lia). rewrite E.
  destruct (negb (is_abort (g o))); cbn [length]; rewrite IH; reflexivity. Qed.

Lemma pk_cpoll_facts m salt tab sl lim : slot_ok sl -> im_closed (slot_image sl) = false ->
  img_facts m sl lim (script_for salt tab sl) (pk_cpoll salt tab sl lim) /\
  (let '(n, _, ds) := pk_cpoll salt tab sl lim in consumed_count salt tab (map (frag_obs m (slot_log sl)) ds) = n).
Proof. intros Hok Hopen. split; [rewrite pk_cpoll_is; apply controlled_facts; assumption|].
  unfold pk_cpoll, image_controlled_poll, script_for, consumed_count. rewrite Hopen.
  destruct (sel (slot_log sl) (im_pos (slot_image sl))) as [[fs off]| | | |]; cbn [bind]; try reflexivity.
  pose proof (cloop_count (l_tlen (slot_log sl)) lim (answer salt tab) fs off 0 (im_pos (slot_image sl)) off) as Hc.
  unfold cfinish.
  destruct (cloop (l_tlen (slot_log sl)) lim fs (map (fun d => answer salt tab (fst d)) (data_of (place off fs))) off 0
              (im_pos (slot_image sl)) off) as [[[[[a c] b] e] ds] ws].
  rewrite filter_map_frag_obs. lia. Qed.

Lemma os_script_ok salt tab sl : os_wf (oslot_of sl) = true -> os_script salt tab (oslot_of sl) = script_for salt tab sl.
Proof. destruct sl as [[[[[id bits] init] se] sg] im]. intros Hwf. pose proof (os_wf_ctx _ _ _ _ _ _ Hwf) as Hc.
  unfold script_for, os_script. cbn [slot_log slot_image]. rewrite (ctx_sel _ _ _ _ _ Hc). reflexivity. Qed.

(* ---- fairness: the image the rotation starts with is served first ---- *)
Lemma fair_first_pass m raw pk sc_of imgs limit rd imgs' shares :
  (forall sl lim, slot_ok sl -> im_closed (slot_image sl) = false -> img_facts m sl lim (sc_of sl) (pk sl lim)) ->
  Forall (good m raw) imgs ->
  poll_seq pk imgs limit 0 = (rd, imgs', shares) ->
  fair_first (map oslot_of imgs) (concat (map (map raw) shares)) limit = true.
Proof. intros Hfacts Hg E. destruct imgs as [|sl r]; [reflexivity|]. cbn [map fair_first].
  destruct ((0 <? limit) && os_wf (oslot_of sl) && has_data (os_frames (oslot_of sl))) eqn:Ec; [|reflexivity].
  apply andb_prop in Ec as [Ec Hd]. apply andb_prop in Ec as [Hl Hw].
  inversion Hg as [|? ? (Hok & Hopen & Hraw) _]; subst. cbn [poll_seq] in E. rewrite Hl in E. rewrite Z.sub_0_r in E.
  pose proof (Hfacts sl limit Hok Hopen) as Hf. destruct (pk sl limit) as [[n sl1] sh]. unfold img_facts in Hf.
  destruct Hf as (_ & _ & _ & _ & _ & _ & A7 & A8). destruct (A8 Hw) as (_ & Hpr & _). specialize (Hpr ltac:(lia) Hd).
  destruct (poll_seq pk r limit (0 + n)) as [[rd1 r1] ys]. inversion E; subst.
  destruct sh as [|d sh']; [contradiction|]. cbn [map concat app].
  assert (Hs : f_session (snd d) = slot_session sl) by (apply seg_frames_session; [assumption|apply A7; left; reflexivity]).
  rewrite (Hraw d Hs), fo_session_frag_obs, Hs. destruct sl as [[[[[? ?] ?] ?] ?] ?]. cbn. apply Z.eqb_refl. Qed.

(* ---- Image::poll / Image::controlled_poll leave a committed frame behind whenever they are given a positive limit ---- *)
Theorem poll_advances sl lim : slot_ok sl -> im_closed (slot_image sl) = false -> os_wf (oslot_of sl) = true ->
  0 < lim -> os_frames (oslot_of sl) <> [] ->
  let '(n, sl', ds) := pk_poll sl lim in im_pos (slot_image sl) < im_pos (slot_image sl').
Proof. intros Hok Hopen Hwf Hlim Hne. pose proof (proj1 (pk_poll_facts Debug sl lim Hok Hopen)) as Hf.
  destruct (pk_poll sl lim) as [[n sl'] ds]. unfold img_facts in Hf. destruct Hf as (_ & _ & _ & _ & _ & _ & _ & A8).
  destruct (A8 Hwf) as (_ & _ & Hadv).
  assert (Hm : must_advance [] (os_frames (oslot_of sl)) = true).
  { destruct (os_frames (oslot_of sl)) as [|f r]; [contradiction|]. cbn [must_advance hd is_abort negb]. apply orb_true_r. }
  specialize (Hadv Hlim Hm). destruct sl as [[[[[? ?] ?] ?] ?] ?]. exact Hadv. Qed.

Theorem cpoll_advances salt tab sl lim : slot_ok sl -> im_closed (slot_image sl) = false -> os_wf (oslot_of sl) = true ->
  0 < lim -> must_advance (script_for salt tab sl) (os_frames (oslot_of sl)) = true ->
  let '(n, sl', ds) := pk_cpoll salt tab sl lim in im_pos (slot_image sl) < im_pos (slot_image sl').
Proof. intros Hok Hopen Hwf Hlim Hm. pose proof (proj1 (pk_cpoll_facts Debug salt tab sl lim Hok Hopen)) as Hf.
  destruct (pk_cpoll salt tab sl lim) as [[n sl'] ds]. unfold img_facts in Hf. destruct Hf as (_ & _ & _ & _ & _ & _ & _ & A8).
  destruct (A8 Hwf) as (_ & _ & Hadv). specialize (Hadv Hlim Hm). destruct sl as [[[[[? ?] ?] ?] ?] ?]. exact Hadv. Qed.

(* ---- progress: the image the rotation starts with moves forward when it sees a committed frame ---- *)
Lemma fair_progress_pass m raw pk sc_of osc imgs limit rd imgs' shares ps :
  (forall sl lim, slot_ok sl -> im_closed (slot_image sl) = false -> img_facts m sl lim (sc_of sl) (pk sl lim)) ->
  (forall sl, os_wf (oslot_of sl) = true -> osc (oslot_of sl) = sc_of sl) ->
  Forall (good m raw) imgs ->
  poll_seq pk imgs limit 0 = (rd, imgs', shares) ->
  (forall sl', In sl' imgs' -> pos_at ps (slot_id sl') = im_pos (slot_image sl')) ->
  fair_progress osc (map oslot_of imgs) limit ps = true.
Proof. intros Hfacts Hosc Hg E Hps. destruct imgs as [|sl r]; [reflexivity|]. cbn [map fair_progress].
  destruct ((0 <? limit) && os_wf (oslot_of sl) && must_advance (osc (oslot_of sl)) (os_frames (oslot_of sl))) eqn:Ec; [|reflexivity].
  apply andb_prop in Ec as [Ec Hm]. apply andb_prop in Ec as [Hl Hw]. rewrite (Hosc sl Hw) in Hm.
  inversion Hg as [|? ? (Hok & Hopen & Hraw) _]; subst. cbn [poll_seq] in E. rewrite Hl in E. rewrite Z.sub_0_r in E.
  pose proof (Hfacts sl limit Hok Hopen) as Hf. destruct (pk sl limit) as [[n sl1] sh]. unfold img_facts in Hf.
  destruct Hf as (_ & _ & _ & _ & _ & A6 & _ & A8). destruct (A8 Hw) as (_ & _ & Hadv). specialize (Hadv ltac:(lia) Hm).
  destruct (poll_seq pk r limit (0 + n)) as [[rd1 r1] ys]. inversion E; subst.
  assert (Hid : os_id (oslot_of sl) = slot_id sl) by (destruct sl as [[[[[? ?] ?] ?] ?] ?]; reflexivity).
  rewrite Hid, <- A6, (Hps sl1 (or_introl eq_refl)). lia. Qed.

(* ---- the assembler part ---- *)
Lemma run1_none : forall xs st, fst (run1 st xs) = None -> st = None.
Proof. induction xs as [|[fl p] r IH]; intros st H; [exact H|]. cbn [run1] in H.
  destruct (step1 st fl p) as [st1 o1] eqn:E1. destruct (run1 st1 r) as [st2 o2] eqn:E2. cbn [fst] in H.
  assert (st1 = None) by (apply IH; rewrite E2; exact H). subst st1.
  unfold step1 in E1. destruct (has_flags fl F_UNFRAG); [inversion E1; reflexivity|].
  destruct (has_flags fl F_BEGIN); [inversion E1|]. destruct st as [acc|]; [|reflexivity].
  destruct (length acc =? 0)%nat; [inversion E1|]. destruct (has_flags fl F_END); inversion E1. Qed.

Lemma assemble_sessions_subset : forall xs bs s mm, In (s, mm) (snd (assemble bs xs)) -> exists x, In x xs /\ fr_session x = s.
Proof. induction xs as [|x r IH]; intros bs s mm H; [destruct H|]. cbn [assemble] in H.
  destruct (on_fragment bs x) as [bs1 out1] eqn:E1. destruct (assemble bs1 r) as [bs2 out2] eqn:E2. cbn [snd] in H.
  apply in_app_or in H as [H|H].
  - exists x. split; [left; reflexivity|]. unfold on_fragment in E1.
    destruct (has_flags (fr_flags x) F_UNFRAG); [inversion E1; subst; destruct H as [H|[]]; inversion H; reflexivity|].
    destruct (has_flags (fr_flags x) F_BEGIN); [inversion E1; subst; destruct H|].
    destruct (bget bs (fr_session x)) as [acc|]; [|inversion E1; subst; destruct H].
    destruct (HDR + Z.of_nat (length acc) =? HDR); [inversion E1; subst; destruct H|].
    destruct (has_flags (fr_flags x) F_END); inversion E1; subst; [destruct H as [H|[]]; inversion H; reflexivity|destruct H].
  - assert (H' : In (s, mm) (snd (assemble bs1 r))) by (rewrite E2; exact H).
    destruct (IH _ _ _ H') as (y & Hy & Hs). exists y. split; [right; assumption|assumption]. Qed.

Lemma filter_msg_obs se out :
  filter (fun d : mobs => let '(s, _, _) := d in s =? se) (map msg_obs out) = map msg_obs (of_session se out).
Proof. induction out as [|[s mm] r IH]; [reflexivity|]. cbn [map filter of_session fst msg_obs].
  destruct (s =? se); cbn [map]; rewrite IH; reflexivity. Qed.

Lemma mobs_list_refl l : list_eqb mobs_eqb l l = true.
Proof. induction l as [|[[a b] c] r IH]; [reflexivity|]. cbn [list_eqb mobs_eqb]. rewrite !Z.eqb_refl, IH. reflexivity. Qed.

Lemma nodup_session_inj (l : list slot) a b : NoDup (map slot_session l) -> In a l -> In b l -> slot_session a = slot_session b -> a = b.
Proof. induction l as [|x r IH]; intros Hnd Ha Hb He; [destruct Ha|]. cbn [map] in Hnd. inversion Hnd as [|? ? Hni Hr]; subst.
  destruct Ha as [->|Ha]; destruct Hb as [->|Hb]; auto.
  - exfalso. apply Hni. rewrite He. apply in_map. assumption.
  - exfalso. apply Hni. rewrite <- He. apply in_map. assumption. Qed.

Section Sessions.
Variable m : mode.
Variable raw : dlv -> fobs.
Variable present : list slot.
Hypothesis Hgood : Forall (good m raw) present.
Hypothesis Hnd : NoDup (map slot_session present).
Variable ds : list dlv.
(* every fragment comes from the segment of a present image *)
Hypothesis Hds : forall d, In d ds -> exists sl, In sl present /\ In d (seg_frames (oslot_of sl)).

Lemma ds_session d : In d ds -> exists sl, In sl present /\ f_session (snd d) = slot_session sl /\ In d (seg_frames (oslot_of sl))
                                  /\ raw d = frag_obs m (slot_log sl) d.
Proof. intros Hd. destruct (Hds d Hd) as (sl & Hsl & Hin). rewrite Forall_forall in Hgood. destruct (Hgood sl Hsl) as (Hok & _ & Hraw).
  exists sl. pose proof (seg_frames_session sl d Hok Hin). repeat split; auto. Qed.

Lemma session_frags_proj sl : In sl present ->
  session_frags (oslot_of sl) (map raw ds) = proj (slot_session sl) (map frag_of ds).
Proof. intros Hsl. unfold session_frags, proj.
  assert (Hse : os_session (oslot_of sl) = slot_session sl) by (destruct sl as [[[[[? ?] ?] ?] ?] ?]; reflexivity). rewrite Hse.
  assert (Hall : forall d, In d ds -> In d ds) by auto. revert Hall. generalize ds at 1 3 4 as l.
  induction l as [|d r IH]; intros Hall; [reflexivity|]. cbn [map filter].
  destruct (ds_session d (Hall d (or_introl eq_refl))) as (sl2 & Hsl2 & Hs2 & Hin2 & Hraw2).
  assert (Hfs : fo_session (raw d) = f_session (snd d)) by (rewrite Hraw2; apply fo_session_frag_obs).
  rewrite Hfs. cbn [frag_of fr_session].
  assert (IH' := IH (fun x Hx => Hall x (or_intror Hx))).
  destruct (f_session (snd d) =? slot_session sl) eqn:E; [|exact IH'].
  cbn [map]. rewrite IH'. f_equal.
  assert (sl2 = sl) by (apply (nodup_session_inj present); auto; lia). subst sl2.
  rewrite Hraw2. destruct d as [o f]. unfold frag_obs, fo_flags, fo_offset. cbn [fr_flags fr_payload frag_of snd].
  replace (o + HDR - HDR) with o by lia.
  rewrite Forall_forall in Hgood. destruct (Hgood sl Hsl) as (Hok & _ & _).
  pose proof (seg_frames_body sl (o, f) Hok Hin2) as Hb. cbn [fst snd] in Hb. rewrite Hb. reflexivity. Qed.

Lemma sessions_judged bs : forall (L : list slot) spec,
  (forall sl, In sl L -> In sl present) -> NoDup (map slot_session L) ->
  (forall sl, In sl L -> bget spec (slot_session sl) = bget bs (slot_session sl)) ->
  let out := snd (assemble bs (map frag_of ds)) in
  let bs' := fst (assemble bs (map frag_of ds)) in
  fst (judge_sessions (map oslot_of L) (map raw ds) (map msg_obs out) spec) = true /\
  (forall se, bget (snd (judge_sessions (map oslot_of L) (map raw ds) (map msg_obs out) spec)) se
              = if existsb (fun sl => slot_session sl =? se) L then bget bs' se else bget spec se).
Proof. cbv zeta. induction L as [|sl r IH]; intros spec Hsub HndL Hspec; [split; reflexivity|].
  cbn [map judge_sessions]. cbn [map] in HndL. inversion HndL as [|? ? Hni HndR]; subst.
  assert (Hse : os_session (oslot_of sl) = slot_session sl) by (destruct sl as [[[[[? ?] ?] ?] ?] ?]; reflexivity). rewrite Hse.
  remember (slot_session sl) as se eqn:Ese.
  rewrite (session_frags_proj sl (Hsub sl (or_introl eq_refl))). rewrite <- Ese.
  assert (Hsp0 : bget spec se = bget bs se) by (rewrite Ese; apply Hspec; left; reflexivity). rewrite Hsp0.
  destruct (assemble_session se (map frag_of ds) bs) as [Hout Hst].
  destruct (run1 (bget bs se) (proj se (map frag_of ds))) as [st' outs] eqn:Er. cbn [fst snd] in Hout, Hst.
  set (spec' := match st' with Some acc => bset spec se acc | None => spec end).
  assert (Hspec_se : bget spec' se = st').
  { unfold spec'. destruct st' as [acc|]; [apply bget_bset_same|].
    rewrite Hsp0. apply (run1_none (proj se (map frag_of ds))). rewrite Er. reflexivity. }
  assert (Hspec_other : forall t, t <> se -> bget spec' t = bget spec t).
  { intros t Ht. unfold spec'. destruct st'; [apply bget_bset_other; auto|reflexivity]. }
  assert (Hspec' : forall s2, In s2 r -> bget spec' (slot_session s2) = bget bs (slot_session s2)).
  { intros s2 Hs2. rewrite Hspec_other; [apply Hspec; right; assumption|].
    intros Heq. apply Hni. rewrite <- Heq. apply in_map. assumption. }
  destruct (IH spec' (fun s Hs => Hsub s (or_intror Hs)) HndR Hspec') as [IH1 IH2].
  destruct (judge_sessions (map oslot_of r) (map raw ds) (map msg_obs (snd (assemble bs (map frag_of ds)))) spec') as [okr spec''].
  cbn [fst snd] in *. split.
  - rewrite filter_msg_obs, Hout, IH1, map_map. cbn [msg_obs]. rewrite andb_true_r.
    replace (map (fun x : list Z => msg_obs (se, x)) outs) with (map (fun m0 : list Z => msg_obs (se, m0)) outs) by reflexivity.
    apply mobs_list_refl.
  - intros t. rewrite IH2. cbn [existsb]. rewrite <- Ese.
    destruct (existsb (fun s => slot_session s =? t) r) eqn:Ee.
    + rewrite orb_true_r. reflexivity.
    + rewrite orb_false_r. destruct (se =? t) eqn:Et.
      * assert (se = t) by lia. subst t. rewrite Hspec_se. symmetry. exact Hst.
      * apply Hspec_other. lia. Qed.

Lemma known_sessions_ok bs :
  forallb (known_session (map oslot_of present)) (map msg_obs (snd (assemble bs (map frag_of ds)))) = true.
Proof. apply forallb_forall. intros x Hx. apply in_map_iff in Hx as ([s mm] & <- & Hin).
  destruct (assemble_sessions_subset _ _ _ _ Hin) as (fr & Hfr & Hs). apply in_map_iff in Hfr as (d & <- & Hd).
  destruct (ds_session d Hd) as (sl & Hsl & Hse & _). cbn [msg_obs fst known_session]. apply existsb_exists.
  exists (oslot_of sl). split; [apply in_map; assumption|]. cbn [frag_of fr_session] in Hs.
  destruct sl as [[[[[? ?] ?] ?] ?] ?]. cbn [oslot_of os_session slot_session] in *. lia. Qed.

End Sessions.

(* ---- bookkeeping: ids, positions, rotation ---- *)
Lemma distinct_nodup : forall l, distinct l = true -> NoDup l.
Proof. induction l as [|x r IH]; intros H; [constructor|]. cbn [distinct] in H. apply andb_prop in H as [H1 H2].
  constructor; [|apply IH; assumption]. intros Hin. assert (existsb (Z.eqb x) r = true).
  { apply existsb_exists. exists x. split; [assumption|apply Z.eqb_refl]. } rewrite H in H1. discriminate. Qed.

Lemma map_os_session l : map os_session (map oslot_of l) = map slot_session l.
Proof. induction l as [|[[[[[? ?] ?] ?] ?] ?] r IH]; [reflexivity|]. cbn [map]. rewrite IH. reflexivity. Qed.

Lemma slot_of_session_in : forall all sl, NoDup (map slot_session all) -> In sl all -> slot_of_session (slot_session sl) all = Some sl.
Proof. induction all as [|x r IH]; intros sl Hnd Hin; [destruct Hin|]. cbn [map] in Hnd. inversion Hnd as [|? ? Hni Hr]; subst.
  cbn [slot_of_session]. destruct Hin as [->|Hin]; [rewrite Z.eqb_refl; reflexivity|].
  destruct (slot_session x =? slot_session sl) eqn:E; [|apply IH; assumption].
  exfalso. apply Hni. assert (slot_session x = slot_session sl) by lia. rewrite H. apply in_map. assumption. Qed.

Lemma raw_obs_good m all sl : NoDup (map slot_session all) -> In sl all ->
  forall d, f_session (snd d) = slot_session sl -> raw_obs m all d = frag_obs m (slot_log sl) d.
Proof. intros Hnd Hin d Hd. unfold raw_obs. rewrite Hd, (slot_of_session_in all sl Hnd Hin). reflexivity. Qed.

Lemma find_slot_in : forall all sl, NoDup (map slot_id all) -> In sl all -> find_slot (slot_id sl) all = Some sl.
Proof. induction all as [|x r IH]; intros sl Hnd Hin; [destruct Hin|]. cbn [map] in Hnd. inversion Hnd as [|? ? Hni Hr]; subst.
  cbn [find_slot]. destruct Hin as [->|Hin]; [rewrite Z.eqb_refl; reflexivity|].
  destruct (slot_id x =? slot_id sl) eqn:E; [|apply IH; assumption].
  exfalso. apply Hni. assert (slot_id x = slot_id sl) by lia. rewrite H. apply in_map. assumption. Qed.

Lemma positions_nth all : forall n id0 id, id0 <= id < id0 + Z.of_nat n ->
  nth (Z.to_nat (id - id0)) (positions n id0 all) 0
  = match find_slot id all with Some sl => im_pos (slot_image sl) | None => 0 end.
Proof. induction n; intros id0 id H; [lia|]. cbn [positions]. destruct (Z.eq_dec id id0).
  - subst. rewrite Z.sub_diag. reflexivity.
  - replace (Z.to_nat (id - id0)) with (S (Z.to_nat (id - (id0 + 1)))) by lia. cbn [nth]. apply IHn. lia. Qed.

Lemma pos_at_positions nslots all sl : NoDup (map slot_id all) -> In sl all -> 0 <= slot_id sl < Z.of_nat nslots ->
  pos_at (positions nslots 0 all) (slot_id sl) = im_pos (slot_image sl).
Proof. intros Hnd Hin Hr. unfold pos_at. pose proof (positions_nth all nslots 0 (slot_id sl) ltac:(lia)) as H.
  rewrite Z.sub_0_r in H. rewrite H, (find_slot_in all sl Hnd Hin). reflexivity. Qed.

Lemma Forall2_app_split {A B} (R : A -> B -> Prop) : forall a1 a2 b1 b2, length a1 = length b1 ->
  Forall2 R (a1 ++ a2) (b1 ++ b2) -> Forall2 R a1 b1 /\ Forall2 R a2 b2.
Proof. induction a1 as [|x a1 IH]; intros a2 b1 b2 Hl H; destruct b1 as [|y b1]; try discriminate; cbn [app] in *.
  - split; [constructor|assumption].
  - inversion H; subst. destruct (IH a2 b1 b2 ltac:(cbn in Hl; lia) H5) as [IH1 IH2]. split; [constructor; assumption|assumption]. Qed.

Lemma Forall2_rotation {A B} (R : A -> B -> Prop) k (a : list A) (b : list B) :
  length a = length b -> Forall2 R (rotation k a) (rotation k b) -> Forall2 R a b.
Proof. unfold rotation. intros Hl H. apply Forall2_app_split in H as [H1 H2]; [|rewrite !skipn_length; lia].
  rewrite <- (firstn_skipn (Z.to_nat k) a), <- (firstn_skipn (Z.to_nat k) b). apply Forall2_app; assumption. Qed.

Lemma rotation_perm_in {A} k (l : list A) x : In x (rotation k l) <-> In x l.
Proof. unfold rotation. rewrite in_app_iff. rewrite <- (firstn_skipn (Z.to_nat k) l) at 3. rewrite in_app_iff. tauto. Qed.

Lemma map_rotation {A B} (f : A -> B) k l : map f (rotation k l) = rotation k (map f l).
Proof. unfold rotation. rewrite map_app, skipn_map, firstn_map. reflexivity. Qed.

Lemma NoDup_rotation {A} k (l : list A) : NoDup l -> NoDup (rotation k l).
Proof. unfold rotation. intros H. rewrite <- (firstn_skipn (Z.to_nat k) l) in H.
  eapply Permutation.Permutation_NoDup; [apply Permutation.Permutation_app_comm|exact H]. Qed.

(* ---- the state the oracle keeps agrees with the model's ---- *)
Definition st_rel (ost : ostate20) (st : sstate) : Prop :=
  let '(oa, op, orr, spec) := ost in
  let '(absent, s, bs) := st in
  oa = map oslot_of absent /\ op = map oslot_of (s_images s) /\ orr = s_rr s /\ (forall se, bget spec se = bget bs se).

Definition st_inv (nslots : nat) (st : sstate) : Prop :=
  let '(absent, s, bs) := st in
  Forall slot_ok (absent ++ s_images s) /\
  Forall (fun sl => im_closed (slot_image sl) = false) (s_images s) /\
  NoDup (map slot_id (absent ++ s_images s)) /\
  Forall (fun sl => 0 <= slot_id sl < Z.of_nat nslots) (absent ++ s_images s) /\
  0 <= s_rr s.

Lemma update_positions_rel ps : forall l l',
  Forall2 (fun sl sl' => slot_id sl' = slot_id sl /\ oslot_of sl' = os_with_pos (oslot_of sl) (im_pos (slot_image sl'))) l l' ->
  (forall sl', In sl' l' -> pos_at ps (slot_id sl') = im_pos (slot_image sl')) ->
  update_positions (map oslot_of l) ps = map oslot_of l'.
Proof. induction 1 as [|sl sl' l l' [Hid Ho] _ IH]; intros Hps; [reflexivity|]. cbn [map update_positions].
  rewrite IH by (intros; apply Hps; right; assumption). f_equal.
  assert (E : os_id (oslot_of sl) = slot_id sl) by (destruct sl as [[[[[? ?] ?] ?] ?] ?]; reflexivity).
  rewrite E, <- Hid, (Hps sl' (or_introl eq_refl)). symmetry. exact Ho. Qed.

Lemma update_positions_same ps l :
  (forall sl, In sl l -> pos_at ps (slot_id sl) = im_pos (slot_image sl)) -> update_positions (map oslot_of l) ps = map oslot_of l.
Proof. intros H. apply update_positions_rel; [|assumption]. induction l as [|[[[[[? ?] ?] ?] ?] ?] r IH]; constructor.
  - split; reflexivity.
  - apply IH. intros; apply H; right; assumption. Qed.

Lemma unmoved_same ps l :
  (forall sl, In sl l -> pos_at ps (slot_id sl) = im_pos (slot_image sl)) -> unmoved (map oslot_of l) ps = true.
Proof. intros H. unfold unmoved. apply forallb_forall. intros o Ho. apply in_map_iff in Ho as (sl & <- & Hsl).
  specialize (H sl Hsl). destruct sl as [[[[[? ?] ?] ?] ?] ?]. cbn [oslot_of os_id os_pos slot_id slot_image] in *. lia. Qed.

Lemma nodup_app_r {A} (a b : list A) : NoDup (a ++ b) -> NoDup b.
Proof. induction a; cbn [app]; intros H; [assumption|]. inversion H; subst. auto. Qed.

Section PollStep.
Variable m : mode.
Variable nslots : nat.
(* the flavour: Image::poll or Image::controlled_poll with the harness' answers *)
Variable pk : slot -> Z -> Z * slot * list dlv.
Variable sc_of : slot -> list action.
Variable osc : oslot -> list action.
Variable cnt : list fobs -> Z.
Hypothesis cnt_nil : cnt [] = 0.
Hypothesis pk_facts : forall sl lim, slot_ok sl -> im_closed (slot_image sl) = false ->
  img_facts m sl lim (sc_of sl) (pk sl lim) /\
  (let '(n, _, ds) := pk sl lim in cnt (map (frag_obs m (slot_log sl)) ds) = n).
Hypothesis osc_ok : forall sl, os_wf (oslot_of sl) = true -> osc (oslot_of sl) = sc_of sl.

Definition slot_rel (sl sl' : slot) : Prop :=
  slot_ok sl' /\ im_closed (slot_image sl') = false /\ slot_log sl' = slot_log sl /\
  slot_session sl' = slot_session sl /\ slot_id sl' = slot_id sl /\
  oslot_of sl' = os_with_pos (oslot_of sl) (im_pos (slot_image sl')).

Lemma Forall2_map_eq {A B} (f : A -> B) (R : A -> A -> Prop) l l' :
  (forall a a', R a a' -> f a' = f a) -> Forall2 R l l' -> map f l' = map f l.
Proof. intros H. induction 1; [reflexivity|]. cbn [map]. rewrite (H _ _ H0), IHForall2. reflexivity. Qed.

Lemma Forall2_concat_in {A B} (R : A -> B -> Prop) : forall (l : list A) (ss : list (list B)),
  Forall2 (fun a sh => forall d, In d sh -> R a d) l ss -> forall d, In d (concat ss) -> exists a, In a l /\ R a d.
Proof. induction 1 as [|a sh l ss Ha _ IH]; intros d Hd; [destruct Hd|]. cbn [concat] in Hd. apply in_app_or in Hd as [Hd|Hd].
  - exists a. split; [left; reflexivity|apply Ha; assumption].
  - destruct (IH d Hd) as (a2 & Ha2 & Hr). exists a2. split; [right; assumption|assumption]. Qed.

(* everything the oracle checks about the fragments of one subscription poll, and the state afterwards *)
Lemma poll_core absent (s : sub slot) bs limit :
  st_inv nslots (absent, s, bs) -> NoDup (map slot_session (absent ++ s_images s)) ->
  let raw := raw_obs m (absent ++ s_images s) in
  let '(total, s', ds, _) := poll_inner pk s limit in
  let ps := positions nslots 0 (absent ++ s_images s') in
  let start := fst (rr_next (Z.of_nat (length (s_images s))) (s_rr s)) in
  let order := rotation start (map oslot_of (s_images s)) in
  judge_shares (jp_gen osc cnt) cnt order (map raw ds) limit 0 ps = (true, total) /\
  fair_first order (map raw ds) limit = true /\
  fair_progress osc order limit ps = true /\
  unmoved (map oslot_of absent) ps = true /\
  update_positions (map oslot_of absent) ps = map oslot_of absent /\
  update_positions (map oslot_of (s_images s)) ps = map oslot_of (s_images s') /\
  s_rr s' = snd (rr_next (Z.of_nat (length (s_images s))) (s_rr s)) /\
  st_inv nslots (absent, s', bs) /\
  Forall (good m raw) (s_images s) /\
  (forall d, In d ds -> exists sl, In sl (s_images s) /\ In d (seg_frames (oslot_of sl))) /\
  map slot_session (absent ++ s_images s') = map slot_session (absent ++ s_images s).
Proof. intros (Hok & Hopen & Hids & Hrange & Hrr) Hnd. cbv zeta.
  pose proof (poll_inner_seq pk s limit) as Hseq. cbv zeta in Hseq.
  destruct (poll_inner pk s limit) as [[[total s'] ds] polled].
  set (start := fst (rr_next (Z.of_nat (length (s_images s))) (s_rr s))) in *.
  destruct (poll_seq pk (rotation start (s_images s)) limit 0) as [[rd imgs'] shares] eqn:Eseq.
  destruct Hseq as (-> & -> & Hrr' & Hrot & Hlen). subst imgs'.
  set (raw := raw_obs m (absent ++ s_images s)).
  assert (Hgood : Forall (good m raw) (s_images s)).
  { apply Forall_forall. intros sl Hsl. rewrite Forall_forall in Hok, Hopen. split; [apply Hok; apply in_or_app; right; assumption|].
    split; [apply Hopen; assumption|]. apply raw_obs_good; [assumption|apply in_or_app; right; assumption]. }
  assert (Hgood_rot : Forall (good m raw) (rotation start (s_images s))).
  { apply Forall_forall. intros sl Hsl. rewrite Forall_forall in Hgood. apply Hgood. apply rotation_perm_in in Hsl. assumption. }
  assert (Hnd_imgs : NoDup (map slot_session (s_images s))).
  { rewrite map_app in Hnd. apply nodup_app_r in Hnd. assumption. }
  assert (Hnd_rot : NoDup (map slot_session (rotation start (s_images s)))) by (rewrite map_rotation; apply NoDup_rotation; assumption).
  set (ps := positions nslots 0 (absent ++ s_images s')).
  destruct (pass_judged m raw pk sc_of osc cnt cnt_nil pk_facts osc_ok ps _ _ _ _ _ _ Hgood_rot Hnd_rot Eseq) as (J1 & J2 & J3).
  fold slot_rel in J3.
  assert (Hrel : Forall2 slot_rel (s_images s) (s_images s')) by (eapply Forall2_rotation; [symmetry; exact Hlen|exact J3]).
  assert (Hid_eq : map slot_id (s_images s') = map slot_id (s_images s))
    by (apply (Forall2_map_eq slot_id slot_rel); [intros a a' (_ & _ & _ & _ & H & _); exact H|exact Hrel]).
  assert (Hse_eq : map slot_session (s_images s') = map slot_session (s_images s))
    by (apply (Forall2_map_eq slot_session slot_rel); [intros a a' (_ & _ & _ & H & _); exact H|exact Hrel]).
  assert (Hinv' : st_inv nslots (absent, s', bs)).
  { unfold st_inv. rewrite Forall_app in Hok, Hrange. destruct Hok as [Hoka Hokp]. destruct Hrange as [Hra Hrp].
    split; [apply Forall_app; split; [assumption|]|].
    { clear -Hrel. induction Hrel as [|a b l l' (H & _) _ IH]; constructor; assumption. }
    split. { clear -Hrel. induction Hrel as [|a b l l' (_ & H & _) _ IH]; constructor; assumption. }
    split. { rewrite map_app, Hid_eq, <- map_app. assumption. }
    split. { apply Forall_app. split; [assumption|].
             clear -Hrel Hrp. induction Hrel as [|a b l l' (_ & _ & _ & _ & H & _) _ IH]; [constructor|].
             inversion Hrp; subst. constructor; [rewrite H; assumption|apply IH; assumption]. }
    rewrite Hrr'. pose proof (rr_next_range (Z.of_nat (length (s_images s))) (s_rr s) ltac:(lia) Hrr) as Hn.
    destruct (rr_next (Z.of_nat (length (s_images s))) (s_rr s)). cbn [snd]. lia. }
  destruct Hinv' as (Hok' & Hopen' & Hids' & Hrange' & Hrr2).
  assert (Hps_all : forall sl, In sl (absent ++ s_images s') -> pos_at ps (slot_id sl) = im_pos (slot_image sl)).
  { intros sl Hsl. apply pos_at_positions; [assumption|assumption|]. rewrite Forall_forall in Hrange'. apply Hrange'. assumption. }
  assert (Hps_new : forall sl', In sl' (rotation start (s_images s')) -> pos_at ps (slot_id sl') = im_pos (slot_image sl')).
  { intros sl' Hsl'. apply Hps_all. apply in_or_app. right. apply rotation_perm_in in Hsl'. assumption. }
  specialize (J1 Hps_new).
  rewrite <- map_rotation, concat_map.
  split; [exact J1|]. split.
  { apply (fair_first_pass m raw pk sc_of (rotation start (s_images s)) limit rd (rotation start (s_images s')) shares);
      [intros; apply pk_facts; assumption|assumption|].
    exact Eseq. }
  split.
  { apply (fair_progress_pass m raw pk sc_of osc (rotation start (s_images s)) limit rd (rotation start (s_images s')) shares ps);
      [intros; apply pk_facts; assumption|exact osc_ok|assumption|exact Eseq|exact Hps_new]. }
  split. { apply unmoved_same. intros sl Hsl. apply Hps_all. apply in_or_app. left. assumption. }
  split. { apply update_positions_same. intros sl Hsl. apply Hps_all. apply in_or_app. left. assumption. }
  split. { apply update_positions_rel.
           - clear -Hrel. induction Hrel as [|a b l l' (_ & _ & _ & _ & H1 & H2) _ IH]; constructor; [split; assumption|assumption].
           - intros sl' Hsl'. apply Hps_all. apply in_or_app. right. assumption. }
  split; [exact Hrr'|]. split; [repeat split; assumption|]. split; [exact Hgood|]. split.
  { intros d Hd. destruct (Forall2_concat_in (fun sl d => In d (seg_frames (oslot_of sl))) _ _ J2 d Hd) as (sl & Hsl & Hin).
    exists sl. split; [apply rotation_perm_in in Hsl; assumption|assumption]. }
  rewrite !map_app, Hse_eq. reflexivity. Qed.

End PollStep.

(* ---- the steps ---- *)
Lemma nodup_distinct : forall l, NoDup l -> distinct l = true.
Proof. induction 1 as [|x r Hni _ IH]; [reflexivity|]. cbn [distinct]. rewrite IH, andb_true_r.
  destruct (existsb (Z.eqb x) r) eqn:E; [|reflexivity]. apply existsb_exists in E as (y & Hy & Hxy).
  assert (x = y) by lia. subst. contradiction. Qed.

Definition sessions_distinct (st : sstate) : Prop :=
  let '(absent, s, _) := st in NoDup (map slot_session (absent ++ s_images s)).

Lemma sessions_ok_true absent (imgs : list slot) :
  NoDup (map slot_session (absent ++ imgs)) -> distinct (map os_session (map oslot_of absent ++ map oslot_of imgs)) = true.
Proof. intros H. rewrite <- map_app, map_os_session. apply nodup_distinct. assumption. Qed.

Lemma proj_nil_of_absent se xs : (forall x, In x xs -> fr_session x <> se) -> proj se xs = [].
Proof. intros H. unfold proj. induction xs as [|x r IH]; [reflexivity|]. cbn [filter].
  destruct (fr_session x =? se) eqn:E; [exfalso; apply (H x (or_introl eq_refl)); lia|]. apply IH. intros; apply H; right; assumption. Qed.

Theorem spoll_step m nslots ost st limit :
  st_rel ost st -> st_inv nslots st -> sessions_distinct st ->
  let '(ob, st') := sstep m nslots st (SPoll limit) in
  judge_sop ost (SPoll limit) ob = true /\ st_rel (onext20 ost (SPoll limit) ob) st' /\ st_inv nslots st' /\ sessions_distinct st'.
Proof. destruct st as [[absent s] bs]. destruct ost as [[[oa op] orr] spec]. intros (-> & -> & -> & Hspec) Hinv Hnd.
  unfold sessions_distinct in Hnd. cbn [sstep].
  pose proof (poll_core m nslots pk_poll (fun _ => []) (fun _ => []) cnt_len eq_refl (pk_poll_facts m) (fun _ _ => eq_refl)
                absent s bs limit Hinv Hnd) as Hcore. cbv zeta in Hcore.
  destruct (poll_inner pk_poll s limit) as [[[total s'] ds] polled].
  destruct Hcore as (C1 & C2 & C2b & C3 & C4 & C5 & C6 & C7 & C8 & C9 & C10).
  destruct (assemble bs (map frag_of ds)) as [bs' out] eqn:Ea. cbn [all_slots].
  set (raw := raw_obs m (absent ++ s_images s)) in *.
  set (ps := positions nslots 0 (absent ++ s_images s')) in *.
  assert (Hnd_imgs : NoDup (map slot_session (s_images s))) by (rewrite map_app in Hnd; apply nodup_app_r in Hnd; assumption).
  pose proof (sessions_judged m raw (s_images s) C8 Hnd_imgs ds C9 bs (s_images s) spec (fun _ H => H) Hnd_imgs
                (fun sl _ => Hspec (slot_session sl))) as Hsj. cbv zeta in Hsj. rewrite Ea in Hsj. cbn [fst snd] in Hsj.
  destruct Hsj as [Hs1 Hs2].
  pose proof (known_sessions_ok m raw (s_images s) C8 ds C9 bs) as Hk. rewrite Ea in Hk. cbn [snd] in Hk.
  split; [|split; [|split]].
  - cbn [judge_sop]. rewrite (sessions_ok_true absent (s_images s) Hnd). cbn [negb]. rewrite C3. cbn [andb].
    rewrite map_length.
    destruct (rr_next (Z.of_nat (length (s_images s))) (s_rr s)) as [start rr1] eqn:Er. cbn [fst] in C1, C2, C2b.
    change jp_poll with (jp_gen (fun _ : oslot => []) cnt_len).
    change (fun sh : list fobs => Z.of_nat (length sh)) with cnt_len.
    rewrite C1, C2, C2b, Hs1, Hk. cbn [out_eqb]. rewrite Z.eqb_refl. reflexivity.
  - unfold st_rel, onext20. rewrite C4, C5, map_length. split; [reflexivity|]. split; [reflexivity|]. split; [symmetry; exact C6|].
    intros se. rewrite Hs2. destruct (existsb (fun sl => slot_session sl =? se) (s_images s)) eqn:Ee; [reflexivity|].
    rewrite Hspec. destruct (assemble_session se (map frag_of ds) bs) as [_ Hst]. rewrite Ea in Hst. cbn [fst] in Hst.
    rewrite Hst, proj_nil_of_absent; [reflexivity|].
    intros x Hx Heq. apply in_map_iff in Hx as (d & <- & Hd). destruct (C9 d Hd) as (sl & Hsl & Hin).
    rewrite Forall_forall in C8. destruct (C8 sl Hsl) as (Hok & _ & _).
    pose proof (seg_frames_session sl d Hok Hin) as Hse. cbn [frag_of fr_session] in Heq.
    assert (existsb (fun sl0 => slot_session sl0 =? se) (s_images s) = true).
    { apply existsb_exists. exists sl. split; [assumption|lia]. } congruence.
  - exact C7.
  - unfold sessions_distinct. rewrite C10. exact Hnd. Qed.

Theorem scpoll_step m nslots ost st limit salt tab :
  st_rel ost st -> st_inv nslots st -> sessions_distinct st ->
  let '(ob, st') := sstep m nslots st (SCPoll limit salt tab) in
  judge_sop ost (SCPoll limit salt tab) ob = true /\ st_rel (onext20 ost (SCPoll limit salt tab) ob) st' /\
  st_inv nslots st' /\ sessions_distinct st'.
Proof. destruct st as [[absent s] bs]. destruct ost as [[[oa op] orr] spec]. intros (-> & -> & -> & Hspec) Hinv Hnd.
  unfold sessions_distinct in Hnd. cbn [sstep].
  pose proof (poll_core m nslots (pk_cpoll salt tab) (script_for salt tab) (os_script salt tab) (consumed_count salt tab) eq_refl
                (pk_cpoll_facts m salt tab) (os_script_ok salt tab) absent s bs limit Hinv Hnd) as Hcore. cbv zeta in Hcore.
  destruct (poll_inner (pk_cpoll salt tab) s limit) as [[[total s'] ds] polled].
  destruct Hcore as (C1 & C2 & C2b & C3 & C4 & C5 & C6 & C7 & C8 & C9 & C10). cbn [all_slots].
  set (raw := raw_obs m (absent ++ s_images s)) in *.
  set (ps := positions nslots 0 (absent ++ s_images s')) in *.
  split; [|split; [|split]].
  - cbn [judge_sop]. rewrite (sessions_ok_true absent (s_images s) Hnd). cbn [negb]. rewrite C3. cbn [andb].
    rewrite map_length.
    destruct (rr_next (Z.of_nat (length (s_images s))) (s_rr s)) as [start rr1] eqn:Er. cbn [fst] in C1, C2, C2b.
    change (jp_cpoll salt tab) with (jp_gen (os_script salt tab) (consumed_count salt tab)).
    rewrite C1, C2, C2b. cbn [out_eqb]. rewrite Z.eqb_refl. reflexivity.
  - unfold st_rel, onext20. rewrite C4, C5, map_length. split; [reflexivity|]. split; [reflexivity|]. split; [symmetry; exact C6|exact Hspec].
  - exact C7.
  - unfold sessions_distinct. rewrite C10. exact Hnd. Qed.

(* ---- grow / add / remove ---- *)
Lemma find_os_map id : forall l, find_os id (map oslot_of l) = option_map oslot_of (find_slot id l).
Proof. induction l as [|sl r IH]; [reflexivity|]. cbn [map find_os find_slot].
  assert (E : os_id (oslot_of sl) = slot_id sl) by (destruct sl as [[[[[? ?] ?] ?] ?] ?]; reflexivity). rewrite E.
  destruct (slot_id sl =? id); [reflexivity|exact IH]. Qed.

Lemma remove_first_map id : forall l,
  remove_first (fun x => os_id x =? id) (map oslot_of l) = map oslot_of (remove_first (fun x => slot_id x =? id) l).
Proof. induction l as [|sl r IH]; [reflexivity|]. cbn [map remove_first].
  assert (E : os_id (oslot_of sl) = slot_id sl) by (destruct sl as [[[[[? ?] ?] ?] ?] ?]; reflexivity). rewrite E.
  destruct (slot_id sl =? id); [reflexivity|]. cbn [map]. rewrite IH. reflexivity. Qed.

Lemma map_os_map id (f : slot -> slot) (g : oslot -> oslot) : (forall sl, oslot_of (f sl) = g (oslot_of sl)) ->
  forall l, map_os id g (map oslot_of l) = map oslot_of (map_slot id f l).
Proof. intros H. induction l as [|sl r IH]; [reflexivity|]. cbn [map map_os map_slot].
  assert (E : os_id (oslot_of sl) = slot_id sl) by (destruct sl as [[[[[? ?] ?] ?] ?] ?]; reflexivity). rewrite E.
  destruct (slot_id sl =? id); cbn [map]; [rewrite H; reflexivity|rewrite IH; reflexivity]. Qed.

Lemma find_slot_some id : forall l sl, find_slot id l = Some sl -> In sl l /\ slot_id sl = id.
Proof. induction l as [|x r IH]; intros sl H; [discriminate|]. cbn [find_slot] in H. destruct (slot_id x =? id) eqn:E.
  - inversion H; subst. split; [left; reflexivity|lia].
  - destruct (IH sl H). split; [right; assumption|assumption]. Qed.

Lemma remove_first_perm id : forall l sl, find_slot id l = Some sl ->
  Permutation l (sl :: remove_first (fun x => slot_id x =? id) l).
Proof. induction l as [|x r IH]; intros sl H; [discriminate|]. cbn [find_slot remove_first] in *. destruct (slot_id x =? id).
  - inversion H; subst. apply Permutation_refl.
  - eapply perm_trans; [apply perm_skip; apply IH; exact H|apply perm_swap]. Qed.

(* the invariant only depends on the multiset of slots, apart from the images being open *)
Lemma st_inv_perm nslots absent imgs rr bs absent2 imgs2 rr2 bs2 :
  st_inv nslots (absent, mkSub imgs rr, bs) -> Permutation (absent ++ imgs) (absent2 ++ imgs2) ->
  Forall (fun sl => im_closed (slot_image sl) = false) imgs2 -> 0 <= rr2 ->
  st_inv nslots (absent2, mkSub imgs2 rr2, bs2).
Proof. intros (H1 & H2 & H3 & H4 & H5) Hp Ho Hr. cbn [s_images s_rr] in *. unfold st_inv. cbn [s_images s_rr].
  split; [eapply Permutation_Forall; eassumption|]. split; [assumption|].
  split; [eapply Permutation_NoDup; [apply Permutation_map; eassumption|assumption]|].
  split; [eapply Permutation_Forall; eassumption|assumption]. Qed.

Lemma sessions_perm (a b : list slot) : Permutation a b -> NoDup (map slot_session a) -> NoDup (map slot_session b).
Proof. intros Hp H. eapply Permutation_NoDup; [apply Permutation_map; eassumption|assumption]. Qed.

(* positions only look at ids and images *)
Lemma find_slot_perm id : forall a b, Permutation a b -> NoDup (map slot_id a) ->
  option_map (fun sl => im_pos (slot_image sl)) (find_slot id a) = option_map (fun sl => im_pos (slot_image sl)) (find_slot id b).
Proof. intros a b Hp Hnd.
  assert (Hb : NoDup (map slot_id b)) by (eapply Permutation_NoDup; [apply Permutation_map; eassumption|assumption]).
  destruct (find_slot id a) as [sl|] eqn:Ea.
  - apply find_slot_some in Ea as [Hin Hid]. subst id. rewrite (find_slot_in b sl Hb); [reflexivity|]. eapply Permutation_in; eassumption.
  - destruct (find_slot id b) as [sl|] eqn:Eb; [|reflexivity]. apply find_slot_some in Eb as [Hin Hid]. subst id.
    rewrite (find_slot_in a sl Hnd) in Ea; [discriminate|]. eapply Permutation_in; [apply Permutation_sym; eassumption|assumption]. Qed.

Lemma positions_ext all1 all2 : (forall id, option_map (fun sl => im_pos (slot_image sl)) (find_slot id all1)
                                        = option_map (fun sl => im_pos (slot_image sl)) (find_slot id all2)) ->
  forall n id0, positions n id0 all1 = positions n id0 all2.
Proof. intros H. induction n; intros id0; [reflexivity|]. cbn [positions]. rewrite IHn. f_equal.
  specialize (H id0). destruct (find_slot id0 all1); destruct (find_slot id0 all2); cbn in H; congruence. Qed.

(* no poll: nothing handed over, nothing moves *)
Lemma idle_judged nslots absent imgs (ost_spec : builders) rr o (all' : list slot) :
  (match o with SPoll _ | SCPoll _ _ _ | SBlock _ => False | _ => True end) ->
  NoDup (map slot_session (absent ++ imgs)) ->
  (forall sl, In sl (absent ++ imgs) -> pos_at (positions nslots 0 all') (slot_id sl) = im_pos (slot_image sl)) ->
  judge_sop (map oslot_of absent, map oslot_of imgs, rr, ost_spec) o (Ok 0, [], [], positions nslots 0 all') = true.
Proof. intros Ho Hnd Hps. cbn [judge_sop]. rewrite (sessions_ok_true absent imgs Hnd). cbn [negb].
  rewrite (unmoved_same _ absent) by (intros; apply Hps; apply in_or_app; left; assumption).
  assert (Hu : unmoved (map oslot_of imgs) (positions nslots 0 all') = true)
    by (apply unmoved_same; intros; apply Hps; apply in_or_app; right; assumption).
  destruct o; try destruct Ho; cbn [out_eqb andb]; rewrite Hu; reflexivity. Qed.

Lemma map_slot_ids id f : (forall sl, slot_id (f sl) = slot_id sl) -> forall l, map slot_id (map_slot id f l) = map slot_id l.
Proof. intros H. induction l as [|x r IH]; [reflexivity|]. cbn [map_slot]. destruct (slot_id x =? id); cbn [map]; [rewrite H; reflexivity|rewrite IH; reflexivity]. Qed.

Lemma map_slot_sessions id f : (forall sl, slot_session (f sl) = slot_session sl) -> forall l, map slot_session (map_slot id f l) = map slot_session l.
Proof. intros H. induction l as [|x r IH]; [reflexivity|]. cbn [map_slot]. destruct (slot_id x =? id); cbn [map]; [rewrite H; reflexivity|rewrite IH; reflexivity]. Qed.

Lemma map_slot_Forall (P : slot -> Prop) id f : (forall sl, P sl -> P (f sl)) -> forall l, Forall P l -> Forall P (map_slot id f l).
Proof. intros H. induction 1 as [|x r Hx Hr IH]; [constructor|]. cbn [map_slot]. destruct (slot_id x =? id); constructor; auto. Qed.

Lemma map_slot_in id f : forall l sl, In sl l -> In sl (map_slot id f l) \/ In (f sl) (map_slot id f l).
Proof. induction l as [|x r IH]; intros sl H; [destruct H|]. cbn [map_slot]. destruct (slot_id x =? id).
  - destruct H as [->|H]; [right; left; reflexivity|left; right; assumption].
  - destruct H as [->|H]; [left; left; reflexivity|]. destruct (IH sl H); [left; right; assumption|right; right; assumption]. Qed.

Lemma slot_grow_facts sl j :
  slot_id (slot_grow sl j) = slot_id sl /\ slot_session (slot_grow sl j) = slot_session sl /\
  slot_image (slot_grow sl j) = slot_image sl /\ oslot_of (slot_grow sl j) = os_grow (oslot_of sl) j /\
  (slot_ok sl -> slot_ok (slot_grow sl j)).
Proof. destruct sl as [[[[[id bits] init] se] sg] im].
  split; [reflexivity|]. split; [reflexivity|]. split; [reflexivity|]. split; [reflexivity|].
  intros (Hb & Hs & Hsg). cbn [slot_grow slot_ok]. split; [assumption|]. split; [assumption|].
  destruct sg as [[[[n off] vis] claim] fs]. cbn [grow_seg]. rewrite Z.eqb_refl. exact Hsg. Qed.

Theorem sgrow_step m nslots ost st id j :
  st_rel ost st -> st_inv nslots st -> sessions_distinct st ->
  let '(ob, st') := sstep m nslots st (SGrow id j) in
  judge_sop ost (SGrow id j) ob = true /\ st_rel (onext20 ost (SGrow id j) ob) st' /\ st_inv nslots st' /\ sessions_distinct st'.
Proof. destruct st as [[absent s] bs]. destruct ost as [[[oa op] orr] spec]. intros (-> & -> & -> & Hspec) Hinv Hnd.
  unfold sessions_distinct in Hnd. cbn [sstep all_slots s_images s_rr].
  set (g := fun sl => slot_grow sl j).
  destruct Hinv as (H1 & H2 & H3 & H4 & H5).
  assert (Hinv' : st_inv nslots (map_slot id g absent, mkSub (map_slot id g (s_images s)) (s_rr s), bs)).
  { unfold st_inv. cbn [s_images s_rr]. rewrite Forall_app in H1, H4. destruct H1 as [H1a H1b]. destruct H4 as [H4a H4b].
    split; [apply Forall_app; split; apply map_slot_Forall; auto; intros sl; apply (slot_grow_facts sl j)|].
    split; [apply map_slot_Forall; [|assumption]; intros sl Hsl; unfold g; rewrite (proj1 (proj2 (proj2 (slot_grow_facts sl j)))); assumption|].
    split; [rewrite map_app, !map_slot_ids, <- map_app by (intros sl; apply (slot_grow_facts sl j)); assumption|].
    split; [|assumption]. apply Forall_app. split; apply map_slot_Forall; auto; intros sl Hsl; unfold g; rewrite (proj1 (slot_grow_facts sl j)); assumption. }
  set (all' := map_slot id g absent ++ map_slot id g (s_images s)).
  assert (Hps : forall sl, In sl (absent ++ s_images s) -> pos_at (positions nslots 0 all') (slot_id sl) = im_pos (slot_image sl)).
  { intros sl Hsl. destruct Hinv' as (_ & _ & I3 & I4 & _). cbn [s_images] in I3, I4. fold all' in I3, I4.
    assert (Hcase : In sl all' \/ In (g sl) all').
    { apply in_app_or in Hsl as [Hsl|Hsl]; destruct (map_slot_in id g _ sl Hsl); [left|right|left|right]; apply in_or_app; auto. }
    rewrite Forall_forall in I4. destruct Hcase as [Hc|Hc].
    - apply pos_at_positions; auto.
    - pose proof (pos_at_positions nslots all' (g sl) I3 Hc (I4 _ Hc)) as Hp. unfold g in Hp.
      rewrite (proj1 (slot_grow_facts sl j)), (proj1 (proj2 (proj2 (slot_grow_facts sl j)))) in Hp. exact Hp. }
  split; [|split; [|split]].
  - apply idle_judged; [exact I|assumption|exact Hps].
  - unfold st_rel, onext20. cbn [s_images s_rr].
    rewrite (update_positions_same _ absent) by (intros; apply Hps; apply in_or_app; left; assumption).
    rewrite (update_positions_same _ (s_images s)) by (intros; apply Hps; apply in_or_app; right; assumption).
    rewrite !(map_os_map id g (fun o => os_grow o j)) by (intros sl; apply (slot_grow_facts sl j)). repeat split; auto.
  - exact Hinv'.
  - unfold sessions_distinct. cbn [s_images]. rewrite map_app, !map_slot_sessions, <- map_app by (intros sl; apply (slot_grow_facts sl j)). exact Hnd. Qed.

Lemma mk_frames_ok init se n : forall ss off,
  Forall (fun s : fspec => let '(typ, flags, flen, k, dtid) := s in 1 <= flen) ss ->
  frames_pos (mk_frames init se n off ss) /\ Forall (fun f => f_session f = se) (mk_frames init se n off ss).
Proof. induction ss as [|[[[[typ flags] flen] k] dtid] r IH]; intros off H; [split; constructor|].
  inversion H; subst. cbn [mk_frames]. destruct (IH (off + span (mk_frame init se n off (typ, flags, flen, k, dtid))) H3) as [A B].
  split; constructor; auto. Qed.

Lemma slot_roll_facts sl vis claim ss :
  Forall (fun s : fspec => let '(typ, flags, flen, k, dtid) := s in 1 <= flen) ss ->
  slot_id (slot_roll sl vis claim ss) = slot_id sl /\ slot_session (slot_roll sl vis claim ss) = slot_session sl /\
  slot_image (slot_roll sl vis claim ss) = slot_image sl /\ oslot_of (slot_roll sl vis claim ss) = os_roll (oslot_of sl) vis claim ss /\
  (slot_ok sl -> slot_ok (slot_roll sl vis claim ss)).
Proof. intros Hss. destruct sl as [[[[[id bits] init] se] sg] im]. cbn [slot_roll oslot_of os_roll].
  destruct (im_pos im =? (seg_n sg + 1) * 2 ^ bits).
  - split; [reflexivity|]. split; [reflexivity|]. split; [reflexivity|]. split; [reflexivity|].
    intros (Hb & Hs & Hsg). cbn [slot_ok build_seg]. split; [assumption|]. split; [assumption|].
    destruct (mk_frames_ok init se (seg_n sg + 1) ss 0 Hss) as [P Q]. cbn [seg_ok]. repeat split; try assumption. lia.
  - split; [reflexivity|]. split; [reflexivity|]. split; [reflexivity|]. split; [reflexivity|]. intros H; exact H. Qed.

Theorem sroll_step m nslots ost st id vis claim ss :
  Forall (fun s : fspec => let '(typ, flags, flen, k, dtid) := s in 1 <= flen) ss ->
  st_rel ost st -> st_inv nslots st -> sessions_distinct st ->
  let '(ob, st') := sstep m nslots st (SRoll id vis claim ss) in
  judge_sop ost (SRoll id vis claim ss) ob = true /\ st_rel (onext20 ost (SRoll id vis claim ss) ob) st' /\ st_inv nslots st' /\ sessions_distinct st'.
Proof. intros Hss. destruct st as [[absent s] bs]. destruct ost as [[[oa op] orr] spec]. intros (-> & -> & -> & Hspec) Hinv Hnd.
  unfold sessions_distinct in Hnd. cbn [sstep all_slots s_images s_rr].
  set (g := fun sl => slot_roll sl vis claim ss).
  pose proof (fun sl => slot_roll_facts sl vis claim ss Hss) as Hfacts.
  destruct Hinv as (H1 & H2 & H3 & H4 & H5).
  assert (Hinv' : st_inv nslots (map_slot id g absent, mkSub (map_slot id g (s_images s)) (s_rr s), bs)).
  { unfold st_inv. cbn [s_images s_rr]. rewrite Forall_app in H1, H4. destruct H1 as [H1a H1b]. destruct H4 as [H4a H4b].
    split; [apply Forall_app; split; apply map_slot_Forall; auto; intros sl; apply (Hfacts sl)|].
    split; [apply map_slot_Forall; [|assumption]; intros sl Hsl; unfold g; rewrite (proj1 (proj2 (proj2 (Hfacts sl)))); assumption|].
    split; [rewrite map_app, !map_slot_ids, <- map_app by (intros sl; apply (Hfacts sl)); assumption|].
    split; [|assumption]. apply Forall_app. split; apply map_slot_Forall; auto; intros sl Hsl; unfold g; rewrite (proj1 (Hfacts sl)); assumption. }
  set (all' := map_slot id g absent ++ map_slot id g (s_images s)).
  assert (Hps : forall sl, In sl (absent ++ s_images s) -> pos_at (positions nslots 0 all') (slot_id sl) = im_pos (slot_image sl)).
  { intros sl Hsl. destruct Hinv' as (_ & _ & I3 & I4 & _). cbn [s_images] in I3, I4. fold all' in I3, I4.
    assert (Hcase : In sl all' \/ In (g sl) all').
    { apply in_app_or in Hsl as [Hsl|Hsl]; destruct (map_slot_in id g _ sl Hsl); [left|right|left|right]; apply in_or_app; auto. }
    rewrite Forall_forall in I4. destruct Hcase as [Hc|Hc].
    - apply pos_at_positions; auto.
    - pose proof (pos_at_positions nslots all' (g sl) I3 Hc (I4 _ Hc)) as Hp. unfold g in Hp.
      rewrite (proj1 (Hfacts sl)), (proj1 (proj2 (proj2 (Hfacts sl)))) in Hp. exact Hp. }
  split; [|split; [|split]].
  - apply idle_judged; [exact I|assumption|exact Hps].
  - unfold st_rel, onext20. cbn [s_images s_rr].
    rewrite (update_positions_same _ absent) by (intros; apply Hps; apply in_or_app; left; assumption).
    rewrite (update_positions_same _ (s_images s)) by (intros; apply Hps; apply in_or_app; right; assumption).
    rewrite !(map_os_map id g (fun o => os_roll o vis claim ss)) by (intros sl; apply (Hfacts sl)). repeat split; auto.
  - exact Hinv'.
  - unfold sessions_distinct. cbn [s_images]. rewrite map_app, !map_slot_sessions, <- map_app by (intros sl; apply (Hfacts sl)). exact Hnd. Qed.

Lemma positions_perm nslots a b : Permutation a b -> NoDup (map slot_id a) -> positions nslots 0 a = positions nslots 0 b.
Proof. intros Hp Hnd. apply positions_ext. intros id. apply find_slot_perm; assumption. Qed.

Lemma positions_head nslots x y l : slot_id x = slot_id y -> im_pos (slot_image x) = im_pos (slot_image y) ->
  positions nslots 0 (x :: l) = positions nslots 0 (y :: l).
Proof. intros Hi Hp. apply positions_ext. intros id. cbn [find_slot]. rewrite Hi. destruct (slot_id y =? id); cbn [option_map]; congruence. Qed.

Lemma st_inv_positions nslots absent s bs :
  st_inv nslots (absent, s, bs) ->
  forall sl, In sl (absent ++ s_images s) -> pos_at (positions nslots 0 (absent ++ s_images s)) (slot_id sl) = im_pos (slot_image sl).
Proof. intros (_ & _ & H3 & H4 & _) sl Hsl. apply pos_at_positions; auto. rewrite Forall_forall in H4. auto. Qed.

Theorem sadd_step m nslots ost st id :
  st_rel ost st -> st_inv nslots st -> sessions_distinct st ->
  let '(ob, st') := sstep m nslots st (SAdd id) in
  judge_sop ost (SAdd id) ob = true /\ st_rel (onext20 ost (SAdd id) ob) st' /\ st_inv nslots st' /\ sessions_distinct st'.
Proof. destruct st as [[absent s] bs]. destruct ost as [[[oa op] orr] spec]. intros (-> & -> & -> & Hspec) Hinv Hnd.
  unfold sessions_distinct in Hnd. cbn [sstep]. pose proof (st_inv_positions _ _ _ _ Hinv) as Hps.
  assert (Hsame : judge_sop (map oslot_of absent, map oslot_of (s_images s), s_rr s, spec) (SAdd id)
                    (Ok 0, [], [], positions nslots 0 (absent ++ s_images s)) = true)
    by (apply idle_judged; [exact I|assumption|exact Hps]).
  assert (Hupd_a : update_positions (map oslot_of absent) (positions nslots 0 (absent ++ s_images s)) = map oslot_of absent)
    by (apply update_positions_same; intros; apply Hps; apply in_or_app; left; assumption).
  assert (Hupd_p : update_positions (map oslot_of (s_images s)) (positions nslots 0 (absent ++ s_images s)) = map oslot_of (s_images s))
    by (apply update_positions_same; intros; apply Hps; apply in_or_app; right; assumption).
  destruct (find_slot id absent) as [sl|] eqn:Ef.
  2:{ cbn [all_slots]. split; [exact Hsame|]. split; [|split; assumption].
      unfold st_rel, onext20. rewrite Hupd_a, Hupd_p, find_os_map, Ef. cbn [option_map]. repeat split; auto. }
  destruct (im_closed (slot_image sl)) eqn:Ec.
  { cbn [all_slots]. split; [exact Hsame|]. split; [|split; assumption].
    unfold st_rel, onext20. rewrite Hupd_a, Hupd_p, find_os_map, Ef. cbn [option_map].
    assert (os_removed (oslot_of sl) = true) by (destruct sl as [[[[[? ?] ?] ?] ?] ?]; exact Ec). rewrite H. repeat split; auto. }
  (* the slot joins the list *)
  cbn [all_slots add_image s_images s_rr].
  set (rf := remove_first (fun x => slot_id x =? id) absent).
  assert (Hperm : Permutation (absent ++ s_images s) (rf ++ (s_images s ++ [sl]))).
  { eapply perm_trans; [apply Permutation_app_tail; apply (remove_first_perm id absent sl Ef)|]. fold rf. cbn [app].
    eapply perm_trans; [apply Permutation_cons_append|]. rewrite <- app_assoc. apply Permutation_refl. }
  destruct Hinv as (H1 & H2 & H3 & H4 & H5).
  assert (Hpos : positions nslots 0 (rf ++ (s_images s ++ [sl])) = positions nslots 0 (absent ++ s_images s))
    by (symmetry; apply positions_perm; assumption).
  rewrite Hpos. split; [exact Hsame|]. split; [|split].
  - unfold st_rel, onext20. rewrite Hupd_a, Hupd_p, find_os_map, Ef. cbn [option_map].
    assert (os_removed (oslot_of sl) = false) by (destruct sl as [[[[[? ?] ?] ?] ?] ?]; exact Ec). rewrite H.
    rewrite remove_first_map. unfold add_image. cbn [s_images s_rr]. rewrite map_app. cbn [map]. repeat split; auto.
  - apply (st_inv_perm nslots absent (s_images s) (s_rr s) bs); [repeat split; assumption|exact Hperm| |assumption].
    apply Forall_app. split; [assumption|constructor; [assumption|constructor]].
  - unfold sessions_distinct. cbn [s_images]. eapply sessions_perm; eassumption. Qed.

Lemma image_close_open im : im_closed im = false ->
  im_pos (image_close im) = im_pos im /\ im_closed (image_close im) = true /\ im_session (image_close im) = im_session im.
Proof. intros H. unfold image_close. rewrite H. repeat split. Qed.

Theorem sremove_step m nslots ost st id :
  st_rel ost st -> st_inv nslots st -> sessions_distinct st ->
  let '(ob, st') := sstep m nslots st (SRemove id) in
  judge_sop ost (SRemove id) ob = true /\ st_rel (onext20 ost (SRemove id) ob) st' /\ st_inv nslots st' /\ sessions_distinct st'.
Proof. destruct st as [[absent s] bs]. destruct ost as [[[oa op] orr] spec]. intros (-> & -> & -> & Hspec) Hinv Hnd.
  unfold sessions_distinct in Hnd. cbn [sstep]. pose proof (st_inv_positions _ _ _ _ Hinv) as Hps.
  assert (Hsame : judge_sop (map oslot_of absent, map oslot_of (s_images s), s_rr s, spec) (SRemove id)
                    (Ok 0, [], [], positions nslots 0 (absent ++ s_images s)) = true)
    by (apply idle_judged; [exact I|assumption|exact Hps]).
  assert (Hupd_a : update_positions (map oslot_of absent) (positions nslots 0 (absent ++ s_images s)) = map oslot_of absent)
    by (apply update_positions_same; intros; apply Hps; apply in_or_app; left; assumption).
  assert (Hupd_p : update_positions (map oslot_of (s_images s)) (positions nslots 0 (absent ++ s_images s)) = map oslot_of (s_images s))
    by (apply update_positions_same; intros; apply Hps; apply in_or_app; right; assumption).
  destruct (find_slot id (s_images s)) as [sl|] eqn:Ef.
  2:{ cbn [all_slots]. split; [exact Hsame|]. split; [|split; assumption].
      unfold st_rel, onext20. rewrite Hupd_a, Hupd_p, find_os_map, Ef. cbn [option_map]. repeat split; auto. }
  cbn [all_slots remove_image s_images s_rr].
  set (rf := remove_first (fun x => slot_id x =? id) (s_images s)).
  set (slc := slot_with sl (image_close (slot_image sl))).
  destruct Hinv as (H1 & H2 & H3 & H4 & H5).
  destruct (find_slot_some _ _ _ Ef) as [Hin Hid].
  assert (Hopen : im_closed (slot_image sl) = false) by (rewrite Forall_forall in H2; apply H2; assumption).
  destruct (image_close_open _ Hopen) as (Cp & Cc & Cs).
  assert (Hslc : slot_id slc = slot_id sl /\ im_pos (slot_image slc) = im_pos (slot_image sl) /\ slot_session slc = slot_session sl
                 /\ (slot_ok sl -> slot_ok slc)).
  { unfold slc. destruct sl as [[[[[i b] it] se] sg] im]. cbn [slot_with slot_id slot_image slot_session slot_ok] in *.
    split; [reflexivity|]. split; [assumption|]. split; [reflexivity|]. intros (A & B & C).
    split; [assumption|]. split; [congruence|assumption]. }
  destruct Hslc as (Si & Sp & Ss & Sok).
  (* old: sl :: X, new: slc :: X with X = absent ++ rf *)
  assert (Hp_old : Permutation (absent ++ s_images s) (sl :: absent ++ rf)).
  { eapply perm_trans; [apply Permutation_app_head; apply (remove_first_perm id _ sl Ef)|]. fold rf.
    apply Permutation_sym. apply Permutation_middle. }
  assert (Hp_new : Permutation ((absent ++ [slc]) ++ rf) (slc :: absent ++ rf)).
  { rewrite <- app_assoc. cbn [app]. apply Permutation_sym. apply Permutation_middle. }
  assert (Hnd_old : NoDup (map slot_id (sl :: absent ++ rf))) by (eapply Permutation_NoDup; [apply Permutation_map; exact Hp_old|assumption]).
  assert (Hnd_new : NoDup (map slot_id ((absent ++ [slc]) ++ rf))).
  { eapply Permutation_NoDup; [apply Permutation_map; apply Permutation_sym; exact Hp_new|]. cbn [map] in *. rewrite Si. exact Hnd_old. }
  assert (Hpos : positions nslots 0 ((absent ++ [slc]) ++ rf) = positions nslots 0 (absent ++ s_images s)).
  { rewrite (positions_perm nslots _ _ Hp_new Hnd_new), (positions_perm nslots _ _ Hp_old H3). apply positions_head; assumption. }
  rewrite Hpos. split; [exact Hsame|]. split; [|split].
  - unfold st_rel, onext20. rewrite Hupd_a, Hupd_p, find_os_map, Ef. cbn [option_map s_images s_rr].
    rewrite remove_first_map, map_app. cbn [map]. split; [|repeat split; auto]. f_equal. f_equal.
    unfold slc. destruct sl as [[[[[i b] it] se] sg] im]. cbn [oslot_of slot_with slot_image] in *. rewrite Cp, Cc. reflexivity.
  - unfold st_inv. cbn [s_images s_rr].
    assert (HX1 : Forall slot_ok (sl :: absent ++ rf)) by (eapply Permutation_Forall; eassumption).
    assert (HX4 : Forall (fun x => 0 <= slot_id x < Z.of_nat nslots) (sl :: absent ++ rf)) by (eapply Permutation_Forall; eassumption).
    inversion HX1; subst. inversion HX4; subst.
    split; [eapply Permutation_Forall; [apply Permutation_sym; exact Hp_new|constructor; auto]|].
    split. { (* the remaining images are still open *)
             assert (Hsub : forall x, In x rf -> In x (s_images s)).
             { intros x Hx. eapply Permutation_in; [apply Permutation_sym; apply (remove_first_perm _ _ sl Ef)|right; exact Hx]. }
             apply Forall_forall. intros x Hx. rewrite Forall_forall in H2. apply H2. apply Hsub. assumption. }
    split; [exact Hnd_new|]. split; [|assumption].
    eapply Permutation_Forall; [apply Permutation_sym; exact Hp_new|constructor; [rewrite Si; assumption|assumption]].
  - unfold sessions_distinct. cbn [s_images].
    eapply Permutation_NoDup; [apply Permutation_map; apply Permutation_sym; exact Hp_new|]. cbn [map]. rewrite Ss.
    change (slot_session sl :: map slot_session (absent ++ rf)) with (map slot_session (sl :: absent ++ rf)).
    eapply Permutation_NoDup; [apply Permutation_map; exact Hp_old|assumption]. Qed.

(* ---- block_poll over all images ---- *)
Lemma avail_pos : forall es, frames_pos (avail es).
Proof. induction es as [|e r IH]; [constructor|]. destruct e; cbn [avail]; try constructor.
  destruct (f_len f <=? 0) eqn:E; constructor; [lia|exact IH]. Qed.

Lemma scan_ge start limit : forall fs off, frames_pos fs -> off <= scan_loop start limit fs off.
Proof. induction fs as [|f r IH]; intros off Hp; rewrite scan_loop_eq.
  - destruct (off <? limit); lia.
  - apply frames_pos_inv in Hp as [Hf Hr]. pose proof (span_bounds f Hf).
    destruct (off <? limit); [|lia]. destruct (is_pad f); [destruct (start =? off); lia|].
    destruct (off + span f >? limit); [lia|]. specialize (IH (off + span f) Hr). lia. Qed.

Definition blk_obs (b : Z * Z * Z * Z) : fobs := let '(se, o, n, tid) := b in (o, n, -1, Ok tid, se, 0).

Lemma slot_rel_refl sl : slot_ok sl -> im_closed (slot_image sl) = false -> slot_rel sl sl.
Proof. intros H1 H2. destruct sl as [[[[[? ?] ?] ?] ?] ?]. unfold slot_rel.
  split; [exact H1|]. split; [exact H2|]. repeat split. Qed.

Lemma span_sum_zero fs k : frames_pos fs -> span_sum (firstn k fs) = 0 -> k = 0%nat \/ fs = [].
Proof. intros Hp H. destruct k; [left; reflexivity|]. destruct fs as [|f r]; [right; reflexivity|].
  apply frames_pos_inv in Hp as [Hf Hr]. cbn [firstn span_sum] in H. pose proof (span_bounds f Hf).
  pose proof (span_sum_nonneg _ (frames_pos_firstn k r Hr)). lia. Qed.

Lemma block_advances m bits init l im f r bl :
  ctx bits init (im_pos im) l (f :: r) -> im_closed im = false -> in_i32 bl = true ->
  must_block_advance bl (f :: r) = true ->
  exists ret ds ws im', image_block_poll m l im bl = Ok (ret, ds, ws, im') /\ im_pos im < im_pos im'.
Proof. intros Hc Hcl Hbl Hm. pose proof Hc as [Htl Hi Hwf _].
  destruct (wf_call_facts _ _ _ _ Hwf) as (Hb & Hii & Hp & Hn & Ho & Hal & Hf & Hbase).
  pose proof (wf_frames_pos _ _ _ _ Hf) as Hfp. set (off := im_pos im mod 2 ^ bits) in *.
  assert (H30 : 2 ^ bits <= 2 ^ 30) by (apply Z.pow_le_mono_r; lia). change (2 ^ 30) with 1073741824 in H30.
  pose proof (wf_frames_fit' _ _ _ _ Hf ltac:(lia)) as Hfit. cbn [span_sum] in Hfit.
  apply frames_pos_inv in Hfp as [Hf1 Hr]. pose proof (span_bounds f Hf1) as Hsp. pose proof (span_sum_nonneg r Hr) as Hrs.
  cbn [must_block_advance] in Hm. apply andb_prop in Hm as [Hpos Hfits].
  unfold image_block_poll. rewrite Hcl, (ctx_sel _ _ _ _ _ Hc). cbn [bind]. fold off.
  rewrite Htl. rewrite (block_lo off bl (2 ^ bits)) by (unfold two31; lia || (right; assumption)).
  set (lo := Z.min (off + bl) (2 ^ bits)).
  unfold term_scan. rewrite scan_loop_eq.
  assert (E1 : off <? lo = true) by (unfold lo; lia). rewrite E1.
  assert (Hge : off + span f <= (if is_pad f then (if off =? off then off + span f else off)
                                 else if off + span f >? lo then off else scan_loop off lo r (off + span f))).
  { destruct (is_pad f) eqn:Ep; [rewrite Z.eqb_refl; lia|]. cbn [orb] in Hfits.
    assert (E2 : off + span f >? lo = false) by (unfold lo; lia). rewrite E2. apply scan_ge. assumption. }
  set (ro := if is_pad f then (if off =? off then off + span f else off)
             else if off + span f >? lo then off else scan_loop off lo r (off + span f)) in *.
  assert (E3 : ro >? off = true) by lia. rewrite E3. do 4 eexists. split; [reflexivity|].
  unfold after_writes, set_pos. cbn [last im_pos]. lia. Qed.

Lemma block_facts m bl sl : slot_ok sl -> im_closed (slot_image sl) = false -> in_i32 bl = true ->
  let o := oslot_of sl in
  let '(n, sl', blocks) := bk_block m bl sl in
  slot_rel sl sl' /\ (forall b, In b blocks -> fo_session (blk_obs b) = slot_session sl) /\
  n = im_pos (slot_image sl') - im_pos (slot_image sl) /\
  (os_wf o = true ->
     judge_block (os_session o) bl (os_pos o) (os_off o) (os_frames o)
       (Ok n, map blk_obs blocks, synth_ws (os_pos o) (im_pos (slot_image sl')), im_pos (slot_image sl')) = true /\
     (must_block_advance bl (os_frames o) = true -> os_pos o < im_pos (slot_image sl'))).
Proof. intros Hok Hopen Hbl. cbv zeta. destruct sl as [[[[[id bits] init] se] sg] im].
  cbn [slot_image slot_log slot_session oslot_of os_session os_pos os_off os_frames] in *.
  destruct Hok as (Hb & Hse & Hsg).
  (* when the property speaks, use the exact description of the call *)
  destruct (os_wf (id, bits, init, se, sg, im_pos im, im_closed im)) eqn:Ew.
  - pose proof (os_wf_ctx id bits init se sg im Ew) as Hc.
    + destruct (block_run_all m bits init _ im _ bl Hc Hopen (or_intror Hbl)) as (k & ds & ws & im' & Hk & Hbadm & E & Hp & Hpos & Hzero).
      unfold bk_block. cbn [slot_log slot_image]. rewrite E. cbn [slot_with slot_image].
      pose proof (block_static _ _ _ _ _ E) as (S1 & S2 & S3).
      set (fs := frames_at bits [sg] (im_pos im)) in *. set (len := span_sum (consumed fs k)) in *.
      pose proof (fs_pos _ _ _ _ _ Hc) as Hfp.
      pose proof (span_sum_nonneg _ (frames_pos_firstn k fs Hfp)) as Hlen0. change (firstn k fs) with (consumed fs k) in Hlen0. fold len in Hlen0.
      split; [|split; [|split]].
      * unfold slot_rel. cbn [slot_ok slot_image slot_log slot_session slot_id oslot_of os_with_pos].
        split; [repeat split; auto; congruence|]. split; [congruence|]. repeat split; try reflexivity. rewrite S1. reflexivity.
      * intros b Hb'. apply in_map_iff in Hb' as (d & <- & _). cbn [blk_obs fo_session]. exact Hse.
      * lia.
      * intros _. split.
        2:{ intros Hm. destruct fs as [|f0 r0] eqn:Efs; [discriminate|].
            destruct (block_advances m bits init _ im f0 r0 bl Hc Hopen Hbl Hm) as (ret2 & ds2 & ws2 & im2 & E2 & Hadv).
            rewrite E in E2. inversion E2; subst. exact Hadv. }
        unfold judge_block. apply (any_upto_intro _ _ k Hk). unfold judge_block_run. fold len.
        rewrite out_eqb_refl_ok, Hbadm. cbn [andb].
        assert (Hw : writes_ok (im_pos im) (im_pos im + len) [] (synth_ws (im_pos im) (im_pos im')) (im_pos im') = true).
        { unfold writes_ok, synth_ws. rewrite Hp. destruct (im_pos im + len =? im_pos im) eqn:Ez; cbn [nondecr last forallb].
          - assert (im_pos im =? im_pos im + len = true) by lia. rewrite H, Z.eqb_refl. reflexivity.
          - assert (im_pos im <=? im_pos im + len = true) by lia. rewrite H, !Z.eqb_refl. reflexivity. }
        rewrite Hw, andb_true_r.
        destruct (Z_lt_le_dec 0 len) as [Hl|Hl].
        -- destruct (Hpos Hl) as (f & Hf0 & Hds1 & _). rewrite Hds1. destruct fs as [|f0 r]; [discriminate|]. cbn [nth_error] in Hf0. inversion Hf0; subst f0.
           destruct k as [|k']; [unfold len, consumed in Hl; cbn [firstn span_sum] in Hl; lia|].
           cbn [map blk_obs list_eqb fst snd]. unfold fobs_eqb. rewrite !Z.eqb_refl, out_eqb_refl_ok, Hse, Z.eqb_refl. reflexivity.
        -- assert (Hl0 : len = 0) by lia. destruct (Hzero Hl0) as (Hds0 & _). rewrite Hds0. cbn [map].
           destruct (span_sum_zero fs k Hfp Hl0) as [Hk0|Hfs0]; [rewrite Hk0; reflexivity|rewrite Hfs0; destruct k; reflexivity].
  - (* nothing to judge: only the shape of the result matters *)
    unfold bk_block, image_block_poll. cbn [slot_log slot_image]. rewrite Hopen.
    set (l := mk_log bits init se [sg]).
    assert (Hidle : slot_rel (id, bits, init, se, sg, im) (id, bits, init, se, sg, im)) by (apply slot_rel_refl; [repeat split; auto|assumption]).
    destruct (sel l (im_pos im)) as [[fs off]| | | |] eqn:Es; cbn [bind];
      try (split; [exact Hidle|]; split; [intros b []|]; split; [cbn; lia|intros; discriminate]).
    set (s0 := sat_add32 off bl).
    assert (Hfp : frames_pos fs).
    { unfold sel in Es. destruct ((0 <=? index_by_position (im_pos im) (bits_of (l_tlen l))) && (index_by_position (im_pos im) (bits_of (l_tlen l)) <? PARTITION_COUNT));
        [|discriminate]. inversion Es. apply avail_pos. }
    pose proof (scan_ge off (Z.min s0 (l_tlen l)) fs off Hfp) as Hge. unfold term_scan.
    destruct (scan_loop off (Z.min s0 (l_tlen l)) fs off >? off) eqn:Eg.
    + cbn [slot_with slot_image after_writes set_pos last im_pos].
      split; [unfold slot_rel; cbn [slot_ok slot_image slot_log slot_session slot_id oslot_of os_with_pos im_session im_closed im_pos];
              repeat split; auto|].
      split; [intros b Hb'; apply in_map_iff in Hb' as (d & <- & _); cbn [blk_obs fo_session]; exact Hse|].
      split; [lia|intros; discriminate].
    + split; [exact Hidle|]. split; [intros b []|]. split; [cbn [slot_image slot_with]; lia|intros; discriminate]. Qed.

Definition jb_of (bl : Z) (sl : oslot) (_ : Z) (share : list fobs) (p' : Z) : bool :=
  if os_wf sl then
    let '(_, bits, _, _, _, pos, _) := sl in
    let ob1 := (Ok (p' - pos), share, synth_ws pos p', p') in
    judge_block (os_session sl) bl pos (os_off sl) (os_frames sl) ob1
    && (if must_block_advance bl (os_frames sl) then pos <? p' else true)
  else true.

Lemma block_pass m bl ps : in_i32 bl = true -> forall imgs read,
  Forall slot_ok imgs -> Forall (fun sl => im_closed (slot_image sl) = false) imgs -> NoDup (map slot_session imgs) ->
  let '(total, imgs', blocks) := block_all (bk_block m bl) imgs in
  Forall2 slot_rel imgs imgs' /\
  (forall b, In b blocks -> exists sl, In sl imgs /\ fo_session (blk_obs b) = slot_session sl) /\
  ((forall sl', In sl' imgs' -> pos_at ps (slot_id sl') = im_pos (slot_image sl')) ->
   fst (judge_shares (jb_of bl) (fun _ => 0) (map oslot_of imgs) (map blk_obs blocks) 0 read ps) = true /\
   total = fold_right Z.add 0 (map (fun sl => pos_at ps (os_id sl) - os_pos sl) (map oslot_of imgs))).
Proof. intros Hbl. induction imgs as [|sl r IH]; intros read Hok Hop Hnd; cbn [block_all].
  - split; [constructor|]. split; [intros b []|]. intros _. split; reflexivity.
  - inversion Hok as [|? ? Hok1 Hokr]; subst. inversion Hop as [|? ? Hop1 Hopr]; subst.
    cbn [map] in Hnd. inversion Hnd as [|? ? Hni Hndr]; subst.
    pose proof (block_facts m bl sl Hok1 Hop1 Hbl) as Hf. cbv zeta in Hf.
    destruct (bk_block m bl sl) as [[n sl1] bs1]. destruct Hf as (F1 & F2 & F3 & F4).
    specialize (IH (read + 0) Hokr Hopr Hndr). destruct (block_all (bk_block m bl) r) as [[total r1] bs2].
    destruct IH as (I1 & I2 & I3).
    split; [constructor; assumption|]. split.
    { intros b Hb'. apply in_app_or in Hb' as [Hb'|Hb'].
      - exists sl. split; [left; reflexivity|apply F2; assumption].
      - destruct (I2 b Hb') as (s2 & Hs2 & E). exists s2. split; [right; assumption|assumption]. }
    intros Hps. destruct (I3 (fun x Hx => Hps x (or_intror Hx))) as [I3a I3b].
    assert (Hid : os_id (oslot_of sl) = slot_id sl) by (destruct sl as [[[[[? ?] ?] ?] ?] ?]; reflexivity).
    assert (Hse : os_session (oslot_of sl) = slot_session sl) by (destruct sl as [[[[[? ?] ?] ?] ?] ?]; reflexivity).
    assert (Hpo : os_pos (oslot_of sl) = im_pos (slot_image sl)) by (destruct sl as [[[[[? ?] ?] ?] ?] ?]; reflexivity).
    destruct F1 as (_ & _ & _ & _ & Fid & _).
    assert (Hp1 : pos_at ps (slot_id sl) = im_pos (slot_image sl1)) by (rewrite <- Fid; apply Hps; left; reflexivity).
    split.
    + cbn [map judge_shares]. rewrite map_app, Hse, take_session_app.
      * rewrite Hid, Hp1.
        destruct (judge_shares (jb_of bl) (fun _ => 0) (map oslot_of r) (map blk_obs bs2) 0 (read + 0) ps) as [okr tot] eqn:Ej.
        cbn [fst] in *. rewrite I3a, andb_true_r.
        unfold jb_of. destruct (os_wf (oslot_of sl)) eqn:Ew; [|reflexivity].
        destruct sl as [[[[[id bits] init] se] sg] im]. cbn [oslot_of] in *.
        cbn [os_session os_pos os_off os_frames slot_image] in *. rewrite <- F3. destruct (F4 eq_refl) as [F4a F4b]. rewrite F4a. cbn [andb].
        destruct (must_block_advance bl (frames_at bits [sg] (im_pos im))); [|reflexivity]. specialize (F4b eq_refl). lia.
      * intros x Hx. apply in_map_iff in Hx as (b & <- & Hb'). apply F2. assumption.
      * destruct (map blk_obs bs2) as [|x rest] eqn:Em; [exact I|].
        assert (Hx : In x (map blk_obs bs2)) by (rewrite Em; left; reflexivity). apply in_map_iff in Hx as (b & <- & Hb').
        destruct (I2 b Hb') as (s2 & Hs2 & E). rewrite E. intros Heq. apply Hni. rewrite <- Heq. apply in_map. assumption.
    + cbn [map fold_right]. rewrite Hid, Hpo, Hp1, <- I3b. lia. Qed.

Lemma st_inv_rel nslots absent imgs rr bs imgs' rr' bs' :
  st_inv nslots (absent, mkSub imgs rr, bs) -> Forall2 slot_rel imgs imgs' -> 0 <= rr' ->
  st_inv nslots (absent, mkSub imgs' rr', bs') /\ map slot_session imgs' = map slot_session imgs /\
  Forall2 (fun sl sl' => slot_id sl' = slot_id sl /\ oslot_of sl' = os_with_pos (oslot_of sl) (im_pos (slot_image sl'))) imgs imgs'.
Proof. intros (Hok & Hopen & Hids & Hrange & Hrr) Hrel Hr'. cbn [s_images s_rr] in *.
  assert (Hid_eq : map slot_id imgs' = map slot_id imgs)
    by (apply (Forall2_map_eq slot_id slot_rel); [intros a a' (_ & _ & _ & _ & H & _); exact H|exact Hrel]).
  assert (Hse_eq : map slot_session imgs' = map slot_session imgs)
    by (apply (Forall2_map_eq slot_session slot_rel); [intros a a' (_ & _ & _ & H & _); exact H|exact Hrel]).
  split; [|split; [exact Hse_eq|]].
  - unfold st_inv. cbn [s_images s_rr]. rewrite Forall_app in Hok, Hrange. destruct Hok as [Hoka Hokp]. destruct Hrange as [Hra Hrp].
    split; [apply Forall_app; split; [assumption|]|].
    { clear -Hrel. induction Hrel as [|a b l l' (H & _) _ IH]; constructor; assumption. }
    split. { clear -Hrel. induction Hrel as [|a b l l' (_ & H & _) _ IH]; constructor; assumption. }
    split. { rewrite map_app, Hid_eq, <- map_app. assumption. }
    split; [|assumption]. apply Forall_app. split; [assumption|].
    clear -Hrel Hrp. induction Hrel as [|a b l l' (_ & _ & _ & _ & H & _) _ IH]; [constructor|].
    inversion Hrp; subst. constructor; [rewrite H; assumption|apply IH; assumption].
  - clear -Hrel. induction Hrel as [|a b l l' (_ & _ & _ & _ & H1 & H2) _ IH]; constructor; [split; assumption|assumption]. Qed.

Theorem sblock_step m nslots ost st bl : in_i32 bl = true ->
  st_rel ost st -> st_inv nslots st -> sessions_distinct st ->
  let '(ob, st') := sstep m nslots st (SBlock bl) in
  judge_sop ost (SBlock bl) ob = true /\ st_rel (onext20 ost (SBlock bl) ob) st' /\ st_inv nslots st' /\ sessions_distinct st'.
Proof. intros Hbl. destruct st as [[absent s] bs]. destruct ost as [[[oa op] orr] spec]. intros (-> & -> & -> & Hspec) Hinv Hnd.
  unfold sessions_distinct in Hnd. cbn [sstep]. destruct s as [imgs rr]. cbn [s_images s_rr] in *.
  pose proof Hinv as (H1 & H2 & H3 & H4 & H5). cbn [s_images s_rr] in *.
  assert (Hokp : Forall slot_ok imgs) by (rewrite Forall_app in H1; apply H1).
  assert (Hnd_imgs : NoDup (map slot_session imgs)) by (rewrite map_app in Hnd; apply nodup_app_r in Hnd; assumption).
  set (ps0 := fun imgs' => positions nslots 0 (absent ++ imgs')).
  pose proof (fun ps => block_pass m bl ps Hbl imgs 0 Hokp H2 Hnd_imgs) as Hbp.
  destruct (block_all (bk_block m bl) imgs) as [[total imgs'] blocks]. cbn [all_slots s_images].
  set (ps := positions nslots 0 (absent ++ imgs')).
  destruct (Hbp ps) as (B1 & B2 & B3).
  destruct (st_inv_rel nslots absent imgs rr bs imgs' rr bs Hinv B1 H5) as (Hinv' & Hse_eq & Hrel2).
  assert (Hps_all : forall sl, In sl (absent ++ imgs') -> pos_at ps (slot_id sl) = im_pos (slot_image sl))
    by (apply (st_inv_positions nslots absent (mkSub imgs' rr) bs Hinv')).
  destruct (B3 (fun x Hx => Hps_all x (in_or_app _ _ _ (or_intror Hx)))) as [B3a B3b].
  split; [|split; [|split]].
  - cbn [judge_sop]. rewrite (sessions_ok_true absent imgs Hnd). cbn [negb].
    rewrite (unmoved_same ps absent) by (intros; apply Hps_all; apply in_or_app; left; assumption). cbn [andb].
    change (fun b : Z * Z * Z * Z => let '(se, o, n, tid) := b in (o, n, -1, Ok tid, se, 0)) with blk_obs.
    match goal with |- context [judge_shares ?f _ _ _ _ _ _] => change f with (jb_of bl) end.
    match goal with |- context [match ?X with pair _ _ => _ end] =>
      change X with (judge_shares (jb_of bl) (fun _ => 0) (map oslot_of imgs) (map blk_obs blocks) 0 0 ps) end.
    set (js := judge_shares (jb_of bl) (fun _ => 0) (map oslot_of imgs) (map blk_obs blocks) 0 0 ps) in *.
    destruct js as [ok tot]. cbn [fst] in B3a. subst ok. rewrite <- B3b. cbv beta iota. cbn [out_eqb andb]. rewrite Z.eqb_refl. reflexivity.
  - unfold st_rel, onext20. cbn [s_images s_rr].
    rewrite (update_positions_same ps absent) by (intros; apply Hps_all; apply in_or_app; left; assumption).
    rewrite (update_positions_rel ps imgs imgs' Hrel2) by (intros; apply Hps_all; apply in_or_app; right; assumption).
    repeat split; auto.
  - exact Hinv'.
  - unfold sessions_distinct. cbn [s_images]. rewrite map_app, Hse_eq, <- map_app. exact Hnd. Qed.

(* ---- any operation, any history ---- *)
Definition sop_ok (o : sop) : Prop :=
  match o with
  | SBlock bl => in_i32 bl = true
  | SRoll _ _ _ ss => Forall (fun s : fspec => let '(typ, flags, flen, k, dtid) := s in 1 <= flen) ss
  | _ => True
  end.

Theorem sstep_judged m nslots ost st o : sop_ok o ->
  st_rel ost st -> st_inv nslots st -> sessions_distinct st ->
  let '(ob, st') := sstep m nslots st o in
  judge_sop ost o ob = true /\ st_rel (onext20 ost o ob) st' /\ st_inv nslots st' /\ sessions_distinct st'.
Proof. intros Ho. destruct o.
  - apply spoll_step.
  - apply scpoll_step.
  - apply sblock_step. exact Ho.
  - apply sgrow_step.
  - apply sadd_step.
  - apply sremove_step.
  - apply sroll_step. exact Ho. Qed.

Theorem srun_judged m nslots : forall ops ost st, Forall sop_ok ops ->
  st_rel ost st -> st_inv nslots st -> sessions_distinct st ->
  judge_all20 ost ops (srun m nslots st ops) = true.
Proof. induction ops as [|o r IH]; intros ost st Hok Hrel Hinv Hnd; [reflexivity|].
  inversion Hok as [|? ? Ho Hr]; subst. cbn [srun].
  pose proof (sstep_judged m nslots ost st o Ho Hrel Hinv Hnd) as Hs.
  destruct (sstep m nslots st o) as [ob st']. destruct Hs as (Hj & Hrel' & Hinv' & Hnd').
  cbn [judge_all20]. rewrite Hj. cbn [andb]. apply IH; assumption. Qed.

(* ---- the initial state of a case ---- *)
Definition sslot_ok (x : sslot) : Prop :=
  let '(bits, init, se, pos0, sg) := x in
  let '(n, off, vis, claim, ss) := sg in
  0 <= bits /\ 0 <= off /\ Forall (fun s => let '(typ, flags, flen, k, dtid) := s in 1 <= flen) ss.
Definition sslot_session (x : sslot) : Z := let '(_, _, se, _, _) := x in se.

Lemma build_slots_facts : forall ss id0, Forall sslot_ok ss ->
  Forall slot_ok (build_slots id0 ss) /\
  Forall (fun sl => im_closed (slot_image sl) = false) (build_slots id0 ss) /\
  map slot_id (build_slots id0 ss) = zseq id0 (length ss) /\
  map slot_session (build_slots id0 ss) = map sslot_session ss /\
  build_oslots id0 ss = map oslot_of (build_slots id0 ss).
Proof. induction ss as [|[[[[bits init] se] pos0] sg] r IH]; intros id0 H; [repeat split; constructor|].
  inversion H as [|? ? Hx Hr]; subst. destruct (IH (id0 + 1) Hr) as (A & B & C & D & E).
  cbn [build_slots build_oslots map length zseq]. rewrite C, D, E.
  split; [|repeat split; try constructor; auto].
  constructor; [|assumption]. destruct sg as [[[[n off] vis] claim] ss]. destruct Hx as (Hb & Hoff & Hfl).
  cbn [slot_ok build_seg]. split; [assumption|]. split; [reflexivity|].
  destruct (mk_frames_ok init se n ss off Hfl) as [P Q]. repeat split; assumption. Qed.

Lemma zseq_nodup : forall c from, NoDup (zseq from c) /\ (forall x, In x (zseq from c) -> from <= x < from + Z.of_nat c).
Proof. induction c; intros from; cbn [zseq]; [split; [constructor|intros x []]|].
  destruct (IHc (from + 1)) as [A B]. split.
  - constructor; [|assumption]. intros Hin. apply B in Hin. lia.
  - intros x [->|Hx]; [lia|]. apply B in Hx. lia. Qed.

(* adding the initial images keeps the relation; all images are still open *)
Lemma add_initial_rel nslots : forall ids oa op absent imgs,
  oa = map oslot_of absent -> op = map oslot_of imgs ->
  st_inv nslots (absent, mkSub imgs 0, []) -> Forall (fun sl => im_closed (slot_image sl) = false) (absent ++ imgs) ->
  NoDup (map slot_session (absent ++ imgs)) ->
  let '(oa', op') := oadd_initial oa op ids in
  let st' := add_initial (absent, mkSub imgs 0, []) ids in
  st_rel (oa', op', 0, []) st' /\ st_inv nslots st' /\ sessions_distinct st'.
Proof. induction ids as [|id r IH]; intros oa op absent imgs -> -> Hinv Hopen Hnd; cbn [oadd_initial add_initial].
  - split; [repeat split; auto|]. split; [exact Hinv|exact Hnd].
  - rewrite find_os_map. destruct (find_slot id absent) as [sl|] eqn:Ef; cbn [option_map].
    2:{ apply IH; auto. }
    rewrite remove_first_map. unfold add_image. cbn [s_images s_rr].
    replace (map oslot_of imgs ++ [oslot_of sl]) with (map oslot_of (imgs ++ [sl])) by (rewrite map_app; reflexivity).
    set (rf := remove_first (fun x => slot_id x =? id) absent).
    assert (Hperm : Permutation (absent ++ imgs) (rf ++ (imgs ++ [sl]))).
    { eapply perm_trans; [apply Permutation_app_tail; apply (remove_first_perm id absent sl Ef)|]. fold rf. cbn [app].
      eapply perm_trans; [apply Permutation_cons_append|]. rewrite <- app_assoc. apply Permutation_refl. }
    assert (Hopen' : Forall (fun x => im_closed (slot_image x) = false) (rf ++ (imgs ++ [sl]))) by (eapply Permutation_Forall; eassumption).
    apply IH; auto.
    + apply (st_inv_perm nslots absent imgs 0 [] rf (imgs ++ [sl]) 0 []); [assumption|assumption| |lia].
      rewrite Forall_app in Hopen'. apply Hopen'.
    + eapply sessions_perm; eassumption. Qed.

Definition case_ok (slots : list sslot) (ops : list sop) : Prop :=
  Forall sslot_ok slots /\ NoDup (map sslot_session slots) /\ Forall sop_ok ops.

(* the oracle accepts every history of the model, for every case whose sessions are distinct *)
Theorem sub_case_judged m slots initial ops : case_ok slots ops ->
  holds_sub_case slots initial ops (run_sub_case m slots initial ops) = true.
Proof. intros (Hs & Hnd & Hops). unfold holds_sub_case, run_sub_case.
  destruct (build_slots_facts slots 0 Hs) as (A & B & C & D & E).
  assert (Hinv0 : st_inv (length slots) (build_slots 0 slots, mkSub [] 0, [])).
  { unfold st_inv. cbn [s_images s_rr]. rewrite app_nil_r. destruct (zseq_nodup (length slots) 0) as [N R].
    split; [assumption|]. split; [constructor|]. split; [rewrite C; assumption|]. split; [|lia].
    apply Forall_forall. intros sl Hsl. apply R. rewrite <- C. apply in_map. assumption. }
  pose proof (add_initial_rel (length slots) initial (build_oslots 0 slots) [] (build_slots 0 slots) [] E eq_refl Hinv0) as Hi.
  rewrite app_nil_r in Hi. specialize (Hi B). rewrite D in Hi. specialize (Hi Hnd).
  destruct (oadd_initial (build_oslots 0 slots) [] initial) as [oa' op']. cbv zeta in Hi. destruct Hi as (R1 & R2 & R3).
  apply srun_judged; assumption. Qed.
