(* Coherence between the structured data area of Model/Ring.v and its rendering to memory words:
   for slots that tile a window of at most one capacity, the word found in `render` at the index
   of a slot's header is the slot's header word, claimed-but-unwritten space reads as zero, every
   rendered word of the data area lies inside the index range of its slot, and the trailer words
   are the counters. *)
Require Import V.Base.MachineInt.
Require Import V.Generated.GenConsts.
Require Import V.Model.LogBase.
Require Import V.Model.Ring.
Require Import V.Spec.Fifo.
Require Import V.Proofs.RingArith.
From Coq Require Import ZifyBool Lia.
Open Scope Z_scope.

(* geometry of one slot *)
Definition geo (cp : Z) (s : slot) : Prop :=
  0 <= s_pos s /\ s_pos s mod 8 = 0 /\ 8 <= s_span s /\ s_span s mod 8 = 0 /\
  s_pos s mod cp + s_span s <= cp /\ 8 + Z.of_nat (length (s_body s)) <= s_span s.

Inductive tiled (cp : Z) : Z -> Z -> list slot -> Prop :=
| tiled_nil p : tiled cp p p []
| tiled_cons h t s sl : s_pos s = h -> geo cp s -> tiled cp (h + s_span s) t sl -> tiled cp h t (s :: sl).

Lemma tiled_le cp h t sl : tiled cp h t sl -> h <= t.
Proof. induction 1; [lia |]. destruct H0 as (_ & _ & ? & _). lia. Qed.

Lemma tiled_range cp h t sl : tiled cp h t sl ->
  Forall (fun s => h <= s_pos s /\ s_pos s + s_span s <= t /\ geo cp s) sl.
Proof. induction 1; constructor.
  - pose proof (tiled_le _ _ _ _ H1). split; [lia | split; [lia | assumption]].
  - eapply Forall_impl; [| exact IHtiled]. cbn. intros a (A & B & C). destruct H0 as (_ & _ & ? & _).
    split; [lia | split; [lia | assumption]]. Qed.

Lemma tiled_app_inv cp h t l1 l2 : tiled cp h t (l1 ++ l2) -> exists p, tiled cp h p l1 /\ tiled cp p t l2.
Proof. revert h. induction l1 as [| s l1 IH]; intros h H; cbn [app] in H.
  - exists h. split; [constructor | assumption].
  - inversion H as [| h0 t0 s0 sl0 Hp Hg Ht]; subst. destruct (IH _ Ht) as (p & A & B).
    exists p. split; [constructor; auto | assumption]. Qed.

Lemma tiled_app cp h p t l1 l2 : tiled cp h p l1 -> tiled cp p t l2 -> tiled cp h t (l1 ++ l2).
Proof. induction 1; intros; cbn [app]; [assumption |]. constructor; auto. Qed.

(* ---- generic facts about word lists ---- *)
Definition no_off (ws : list (Z * Z)) (i : Z) : Prop := Forall (fun e => fst e <> i) ws.

Lemma word_at_skip l1 l2 i : no_off l1 i -> word_at (l1 ++ l2) i = word_at l2 i.
Proof. induction 1; cbn [app word_at]; [reflexivity |]. destruct x as [o v]. cbn [fst] in H.
  replace (o =? i) with false by lia. assumption. Qed.

Lemma word_at_none l i : no_off l i -> word_at l i = 0.
Proof. intros H. rewrite <- (app_nil_r l). rewrite word_at_skip by assumption. reflexivity. Qed.

Lemma no_off_app l1 l2 i : no_off l1 i -> no_off l2 i -> no_off (l1 ++ l2) i.
Proof. intros. apply Forall_app; split; assumption. Qed.

Lemma nz_off o v i : o <> i -> no_off (nz o v) i.
Proof. intros. unfold nz, no_off. destruct (v =? 0); [constructor |]. constructor; [cbn; assumption | constructor]. Qed.

Lemma word_at_nz o v l : word_at (nz o v ++ l) o = if v =? 0 then word_at l o else v.
Proof. unfold nz. destruct (v =? 0); cbn [app word_at]; [reflexivity |]. rewrite Z.eqb_refl. reflexivity. Qed.

(* offsets produced by words_of_bytes *)
Lemma words_of_bytes_offsets : forall n bs off, (length bs <= n)%nat ->
  Forall (fun e => off <= fst e < off + Z.of_nat (length bs)) (words_of_bytes off bs).
Proof. induction n as [| n IH]; intros bs off Hn.
  - destruct bs; [constructor | cbn in Hn; lia].
  - destruct bs as [| b0 [| b1 [| b2 [| b3 r]]]]; cbn [words_of_bytes length]; repeat constructor; cbn [fst]; try lia.
    assert (L : (length r <= n)%nat) by (cbn [length] in Hn; lia).
    specialize (IH r (off + 4) L). eapply Forall_impl; [| exact IH]. cbn. intros a Ha. lia. Qed.

Lemma nonzero_sub (ws : list (Z * Z)) (P : Z * Z -> Prop) : Forall P ws -> Forall P (nonzero ws).
Proof. intros H. unfold nonzero. induction H; cbn [filter]; [constructor |].
  destruct (negb (snd x =? 0)); [constructor |]; assumption. Qed.

(* every rendered word of a slot lies inside the slot's index range *)
Lemma render_slot_range cp s : cap_ok cp -> geo cp s ->
  Forall (fun e => s_pos s mod cp <= fst e < s_pos s mod cp + s_span s) (render_slot cp s).
Proof. intros Hc (G0 & G8 & Gs & Gs8 & Gstr & Gb). unfold render_slot. rewrite mask_idx_mod by assumption.
  rewrite HL_eq.
  apply Forall_app; split; [| apply Forall_app; split].
  - unfold nz. destruct (s_len s =? 0); constructor; cbn [fst]; [lia | constructor].
  - unfold nz. destruct (s_type s =? 0); constructor; cbn [fst]; [lia | constructor].
  - apply nonzero_sub. pose proof (words_of_bytes_offsets (length (s_body s)) (s_body s) (s_pos s mod cp + 8) (le_n _)) as F.
    eapply Forall_impl; [| exact F]. cbn. intros a Ha. lia. Qed.

Lemma render_slot_body_off cp s i : i < s_pos s mod cp + 8 ->
  no_off (nonzero (words_of_bytes (s_pos s mod cp + 8) (s_body s))) i.
Proof. intros Hi. apply nonzero_sub.
  pose proof (words_of_bytes_offsets (length (s_body s)) (s_body s) (s_pos s mod cp + 8) (le_n _)) as F.
  eapply Forall_impl; [| exact F]. cbn. intros a Ha. lia. Qed.

(* ---- index ranges of different slots of a tiling inside one window are disjoint ---- *)
Lemma idx_disjoint cp p1 x1 p2 x2 d1 d2 :
  0 < cp -> 0 <= x1 -> 0 <= x2 -> p1 mod cp + x1 <= cp -> p2 mod cp + x2 <= cp ->
  p1 + x1 <= p2 -> p2 + x2 <= p1 + cp ->
  0 <= d1 < x1 -> 0 <= d2 < x2 -> p1 mod cp + d1 <> p2 mod cp + d2.
Proof. intros Hc H1 H2 S1 S2 Hord Hwin Hd1 Hd2.
  pose proof (Z.mod_pos_bound p1 cp Hc). pose proof (Z.mod_pos_bound p2 cp Hc).
  rewrite <- (idx_inner cp p2 d2) by lia.
  destruct (mod_window cp p1 (p2 + d2) Hc ltac:(lia)) as [(E & L) | (E & L)]; rewrite E; lia. Qed.

Lemma other_slot_no_off cp x y i :
  cap_ok cp -> geo cp x -> geo cp y ->
  (s_pos x + s_span x <= s_pos y /\ s_pos y + s_span y <= s_pos x + cp \/
   s_pos y + s_span y <= s_pos x /\ s_pos x + s_span x <= s_pos y + cp) ->
  s_pos y mod cp <= i < s_pos y mod cp + s_span y ->
  no_off (render_slot cp x) i.
Proof. intros Hc Gx Gy Hord Hi. pose proof (cap_ok_range _ Hc).
  pose proof (render_slot_range cp x Hc Gx) as R. eapply Forall_impl; [| exact R]. cbn. intros e He.
  destruct Gx as (_ & _ & Gxs & _ & Gxstr & _). destruct Gy as (_ & _ & Gys & _ & Gystr & _).
  intro Eq.
  destruct Hord as [(O1 & O2) | (O1 & O2)].
  - apply (idx_disjoint cp (s_pos x) (s_span x) (s_pos y) (s_span y) (fst e - s_pos x mod cp) (i - s_pos y mod cp)); lia.
  - apply (idx_disjoint cp (s_pos y) (s_span y) (s_pos x) (s_span x) (i - s_pos y mod cp) (fst e - s_pos x mod cp)); lia. Qed.

(* a slot of a tiling inside a window: all other slots are clear of its index range *)
Lemma others_no_off cp h t pre s suf i :
  cap_ok cp -> tiled cp h t (pre ++ s :: suf) -> t - h <= cp ->
  s_pos s mod cp <= i < s_pos s mod cp + s_span s ->
  no_off (flat_map (render_slot cp) pre) i /\ no_off (flat_map (render_slot cp) suf) i.
Proof. intros Hc T Hw Hi.
  destruct (tiled_app_inv _ _ _ _ _ T) as (p & T1 & T2).
  inversion T2 as [| h0 t0 s0 sl0 Hp Hg Ht]; subst.
  pose proof (tiled_range _ _ _ _ T1) as R1. pose proof (tiled_range _ _ _ _ Ht) as R2.
  pose proof (tiled_le _ _ _ _ T1) as L1. pose proof (tiled_le _ _ _ _ Ht) as L2.
  split.
  - clear R2 T T1 T2 Ht. induction R1 as [| x l Hx R1 IH1]; cbn [flat_map]; [constructor |].
    apply no_off_app; [| apply IH1].
    destruct Hx as (A & B & G). apply (other_slot_no_off cp x s i Hc G Hg); auto. left. lia.
  - clear R1 T T1 T2 Ht. induction R2 as [| x l Hx R2 IH2]; cbn [flat_map]; [constructor |].
    apply no_off_app; [| apply IH2].
    destruct Hx as (A & B & G). apply (other_slot_no_off cp x s i Hc G Hg); auto. right. lia. Qed.

(* ---- the trailer ---- *)
Lemma trailer_no_off st i : i < r_cap st + TAIL_OFF -> no_off (render_trailer st) i.
Proof. intros Hi. unfold render_trailer, counter_words, TAIL_OFF, HC_OFF, HEAD_OFF, CORR_OFF, HB_OFF in *.
  cbn [GenConsts.RB_TAIL_POSITION_OFFSET GenConsts.RB_HEAD_CACHE_POSITION_OFFSET GenConsts.RB_HEAD_POSITION_OFFSET
       GenConsts.RB_CORRELATION_COUNTER_OFFSET GenConsts.RB_CONSUMER_HEARTBEAT_OFFSET] in *.
  unfold GenConsts.RB_TAIL_POSITION_OFFSET, GenConsts.RB_HEAD_CACHE_POSITION_OFFSET, GenConsts.RB_HEAD_POSITION_OFFSET,
         GenConsts.RB_CORRELATION_COUNTER_OFFSET, GenConsts.RB_CONSUMER_HEARTBEAT_OFFSET in *.
  repeat first [apply no_off_app | apply nz_off; lia]. Qed.

Lemma data_below_cap cp h t sl : cap_ok cp -> tiled cp h t sl ->
  Forall (fun e => 0 <= fst e < cp) (flat_map (render_slot cp) sl).
Proof. intros Hc T. pose proof (tiled_range _ _ _ _ T) as R. clear T. induction R; cbn [flat_map]; [constructor |].
  apply Forall_app; split; [| assumption]. destruct H as (_ & _ & G).
  pose proof (render_slot_range cp x Hc G) as F. eapply Forall_impl; [| exact F]. cbn. intros e He.
  pose proof (mod_range cp (s_pos x) Hc). destruct G as (_ & _ & _ & _ & ? & _). lia. Qed.

Lemma counter_word_lo l off v : (forall k, k = off \/ k = off + 4 -> True) ->
  no_off l off -> word_at (l ++ counter_words off v ++ []) off = lo32 v.
Proof. intros _ H. rewrite word_at_skip by assumption. unfold counter_words. rewrite <- app_assoc.
  rewrite word_at_nz. destruct (lo32 v =? 0) eqn:E; [| reflexivity].
  rewrite word_at_none; [lia |]. apply no_off_app; [apply nz_off; lia | constructor]. Qed.

(* the five counters in a rendering *)
Lemma word_at_trailer st : cap_ok (r_cap st) ->
  forall data, Forall (fun e => 0 <= fst e < r_cap st) data ->
  let ws := data ++ render_trailer st in
  let c := r_cap st in
  word_at ws (c + TAIL_OFF) = lo32 (r_tail st) /\ word_at ws (c + TAIL_OFF + 4) = hi32 (r_tail st) /\
  word_at ws (c + HEAD_OFF) = lo32 (r_head st) /\ word_at ws (c + HEAD_OFF + 4) = hi32 (r_head st) /\
  word_at ws (c + HC_OFF) = lo32 (r_hc st) /\ word_at ws (c + HC_OFF + 4) = hi32 (r_hc st).
Proof. intros Hc data Hd ws c. subst ws c.
  assert (D : forall i, r_cap st <= i -> no_off data i).
  { intros i Hi. eapply Forall_impl; [| exact Hd]. cbn. intros; lia. }
  unfold render_trailer, counter_words, TAIL_OFF, HC_OFF, HEAD_OFF, CORR_OFF, HB_OFF.
  unfold GenConsts.RB_TAIL_POSITION_OFFSET, GenConsts.RB_HEAD_CACHE_POSITION_OFFSET, GenConsts.RB_HEAD_POSITION_OFFSET,
         GenConsts.RB_CORRELATION_COUNTER_OFFSET, GenConsts.RB_CONSUMER_HEARTBEAT_OFFSET.
  repeat rewrite <- app_assoc.
  repeat split; rewrite word_at_skip by (apply D; lia);
  repeat first [ rewrite word_at_nz;
                 match goal with |- (if ?v =? 0 then _ else _) = ?v =>
                   destruct (v =? 0) eqn:?E; [| reflexivity];
                   rewrite word_at_none; [lia | repeat (apply no_off_app; [apply nz_off; lia |]); try (apply nz_off; lia); try constructor]
                 end
               | rewrite word_at_skip by (apply nz_off; lia) ].
Qed.

(* ---- the header words of a slot, and blank slots, as `render` shows them ---- *)
Section Lookup.
Variables (cp h t : Z) (pre suf : list slot) (s : slot) (tr : list (Z * Z)).
Hypothesis Hc : cap_ok cp.
Hypothesis T : tiled cp h t (pre ++ s :: suf).
Hypothesis Hw : t - h <= cp.
Hypothesis Htr : forall i, i < cp -> no_off tr i.

Let ws := flat_map (render_slot cp) (pre ++ s :: suf) ++ tr.

Lemma geo_s : geo cp s.
Proof. destruct (tiled_app_inv _ _ _ _ _ T) as (p & _ & T2).
  inversion T2 as [| h0 t0 s0 sl0 Hp Hg Ht]; assumption. Qed.

Lemma lookup_split i : s_pos s mod cp <= i < s_pos s mod cp + s_span s ->
  word_at ws i = word_at (render_slot cp s) i.
Proof. intros Hi. unfold ws. rewrite flat_map_app. cbn [flat_map].
  destruct (others_no_off cp h t pre s suf i Hc T Hw Hi) as (N1 & N2).
  rewrite <- !app_assoc. rewrite word_at_skip by assumption.
  pose proof geo_s as G. pose proof (mod_range cp (s_pos s) Hc). pose proof G as (_ & _ & _ & _ & Gstr & _).
  (* either the slot has the word, or nobody has *)
  assert (E : forall l, no_off l i -> word_at (render_slot cp s ++ l) i = word_at (render_slot cp s) i).
  { intros l Hl. induction (render_slot cp s) as [| [o v] r IH]; cbn [app word_at].
    - apply word_at_none. assumption.
    - destruct (o =? i); [reflexivity | assumption]. }
  apply E. apply no_off_app; [assumption | apply Htr; lia]. Qed.

Lemma word_at_len : word_at ws (s_pos s mod cp) = s_len s.
Proof. pose proof geo_s as (_ & _ & Gs & _). rewrite lookup_split by lia.
  unfold render_slot. rewrite mask_idx_mod by assumption. rewrite HL_eq. rewrite word_at_nz.
  destruct (s_len s =? 0) eqn:E; [| reflexivity].
  rewrite word_at_none; [lia |]. apply no_off_app; [apply nz_off; lia |].
  apply render_slot_body_off; lia. Qed.

Lemma word_at_type : word_at ws (s_pos s mod cp + 4) = s_type s.
Proof. pose proof geo_s as (_ & _ & Gs & _). rewrite lookup_split by lia.
  unfold render_slot. rewrite mask_idx_mod by assumption. rewrite HL_eq.
  rewrite word_at_skip by (apply nz_off; lia). rewrite word_at_nz.
  destruct (s_type s =? 0) eqn:E; [| reflexivity].
  rewrite word_at_none; [lia |].
  apply render_slot_body_off; lia. Qed.

(* space that was claimed and not written yet reads as zero *)
Lemma word_at_blank i : s_len s = 0 -> s_type s = 0 -> s_body s = [] ->
  s_pos s mod cp <= i < s_pos s mod cp + s_span s -> word_at ws i = 0.
Proof. intros E1 E2 E3 Hi. rewrite lookup_split by assumption.
  unfold render_slot. rewrite E1, E2, E3. reflexivity. Qed.
End Lookup.

(* offsets of the data area outside every slot read as zero *)
Lemma word_at_outside cp h t sl tr i : cap_ok cp -> tiled cp h t sl ->
  (forall s, In s sl -> ~ (s_pos s mod cp <= i < s_pos s mod cp + s_span s)) -> no_off tr i ->
  word_at (flat_map (render_slot cp) sl ++ tr) i = 0.
Proof. intros Hc T Hout Htr. apply word_at_none. apply no_off_app; [| assumption].
  pose proof (tiled_range _ _ _ _ T) as R. clear T.
  induction R; cbn [flat_map]; [constructor |]. apply no_off_app.
  - destruct H as (_ & _ & G). pose proof (render_slot_range cp x Hc G) as F.
    eapply Forall_impl; [| exact F]. cbn. intros e He Eq. apply (Hout x); [left; reflexivity | lia].
  - apply IHR. intros s Hs. apply Hout. right. assumption. Qed.
