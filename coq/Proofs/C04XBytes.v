(* The bytes part of the C04 oracle on the ExclusivePublication model, and the complete oracle over whole histories. *)
Require Import V.Base.MachineInt.
Require Import V.Generated.GenConsts.
Require Import V.Model.Descriptor.
Require Import V.Model.LogBase.
Require Import V.Model.LogDelta.
Require Import V.Model.Appender.
Require Import V.Model.ExclAppender.
Require Import V.Model.Publication.
Require Import V.Model.ExclPublication.
Require Import V.Proofs.DescriptorProofs.
Require Import V.Proofs.AppenderProofs.
Require Import V.Proofs.PublicationProofs.
Require Import V.Proofs.BulkProofs.
Require Import V.Proofs.C04Proofs.
Require Import V.Proofs.ExclPublicationProofs.
Require Import V.Oracle.C04Oracle.
Require Import V.Proofs.C04OracleProofs.
Require Import V.Proofs.C04Statements.
Require Import V.Proofs.C04XOracleProofs.
Require Import V.Proofs.RenderWords.
Require Import V.Proofs.C04Bytes.
From Coq Require Import ZifyBool.
Open Scope Z_scope.

(* ---- the frames each flavour of the exclusive appender lays down when the message fits ---- *)
Section XFrames.
Variables (m : mode) (rv : Z -> Z -> list Z -> Z) (l : log) (idx tid off : Z).
Hypothesis Hl : legal l.
Hypothesis Ho : 0 <= off <= l_tlen l.

Definition xwrote (req : Z) (r : outcome appended) : Prop :=
  exists a es, r = Ok a /\ Forall entry_wf es /\ term_end es = req /\
    a_log a = set_part (put_raw_tail l idx tid (off + req)) idx (term_put (part l idx) off es).

Lemma eta_claim_frames len : 0 <= len <= max_payload_length l -> off + align (len + 32) 32 <= l_tlen l ->
  xwrote (align (len + 32) 32) (eta_claim m l idx tid off len).
Proof. intros Hlen Hfit. pose proof (legal_mpl l Hl) as (Hm1 & Hm2 & Hm3 & Hm4). pose proof (legal_tlen l Hl) as [Htl _].
  assert (Hd : l_tlen l / 8 <= l_tlen l) by (apply Z.div_le_upper_bound; lia).
  unfold eta_claim. rewrite unfrag_lengths_ok by lia. cbn [bind].
  pose proof (align_bounds (len + 32) ltac:(lia)) as [Ha _].
  rewrite add32_ok by (unfold in_i32, two31; lia). cbn [bind].
  change (l_tlen (put_raw_tail l idx tid (off + align (len + 32) 32))) with (l_tlen l).
  assert (E2 : (l_tlen l <? off + align (len + 32) 32) = false) by lia. rewrite E2.
  assert (E3 : (off + (len + 32) <=? l_tlen l) = true) by lia. rewrite E3.
  eexists. eexists. split; [reflexivity|]. cbn [a_log]. unfold put_raw_tail at 2. rewrite part_set_tail.
  split; [|split; [|reflexivity]].
  - constructor; [|constructor]. cbn [entry_wf data_frame f_len f_body]. rewrite HDR_eq. rewrite zlen_nil. lia.
  - cbn [term_end entry_span data_frame f_len]. rewrite FA_eq. lia. Qed.

Lemma eta_unfrag_frames msg : zlen msg <= max_payload_length l -> off + align (zlen msg + 32) 32 <= l_tlen l ->
  xwrote (align (zlen msg + 32) 32) (eta_append_unfragmented m rv l idx tid off msg).
Proof. intros Hlen Hfit. pose proof (zlen_nonneg msg) as H0.
  pose proof (legal_mpl l Hl) as (Hm1 & Hm2 & Hm3 & Hm4). pose proof (legal_tlen l Hl) as [Htl _].
  assert (Hd : l_tlen l / 8 <= l_tlen l) by (apply Z.div_le_upper_bound; lia).
  unfold eta_append_unfragmented. rewrite unfrag_lengths_ok by lia. cbn [bind].
  pose proof (align_bounds (zlen msg + 32) ltac:(lia)) as [Ha _].
  rewrite add32_ok by (unfold in_i32, two31; lia). cbn [bind].
  change (l_tlen (put_raw_tail l idx tid (off + align (zlen msg + 32) 32))) with (l_tlen l).
  assert (E2 : (l_tlen l <? off + align (zlen msg + 32) 32) = false) by lia. rewrite E2.
  eexists. eexists. split; [reflexivity|]. cbn [a_log]. unfold put_raw_tail at 2. rewrite part_set_tail.
  split; [|split; [|reflexivity]].
  - constructor; [|constructor]. cbn [entry_wf data_frame f_len f_body]. rewrite HDR_eq. lia.
  - cbn [term_end entry_span data_frame f_len]. rewrite FA_eq. lia. Qed.

Lemma eta_frag_frames msg : mtu_aligned l -> max_payload_length l < zlen msg <= max_message_length l ->
  off + frag_required_spec (zlen msg) (max_payload_length l) <= l_tlen l ->
  xwrote (frag_required_spec (zlen msg) (max_payload_length l)) (eta_append_fragmented m rv l idx tid off msg (max_payload_length l)).
Proof. intros Hal Hlen Hfit.
  pose proof (legal_mpl l Hl) as (Hm1 & Hm2 & Hm3 & Hm4). pose proof (legal_tlen l Hl) as [Htl _].
  assert (Hd : l_tlen l / 8 <= l_tlen l) by (apply Z.div_le_upper_bound; lia).
  unfold eta_append_fragmented. rewrite frag_required_ok by lia. cbn [bind].
  pose proof (frag_required_bounds (zlen msg) (max_payload_length l) Hm1 ltac:(lia)) as Hb.
  rewrite add32_ok by (unfold in_i32, two31; lia). cbn [bind].
  change (l_tlen (put_raw_tail l idx tid (off + frag_required_spec (zlen msg) (max_payload_length l)))) with (l_tlen l).
  assert (E2 : (l_tlen l <? off + frag_required_spec (zlen msg) (max_payload_length l)) = false) by lia. rewrite E2.
  eexists. eexists. split; [reflexivity|]. cbn [a_log]. unfold put_raw_tail at 2. rewrite part_set_tail.
  match goal with |- context [frag_loop ?fu ?lg rv tid ?mp ?le msg ?fl ?re off] =>
    destruct (frag_loop_wf lg rv tid mp le msg ltac:(lia) fu fl re off ltac:(lia)) as [W1 W2] end.
  split; [exact W1|]. split; [|reflexivity]. rewrite W2.
  apply frag_span_required; [lia|apply mpl_aligned; assumption|lia|]. unfold frag_fuel. lia. Qed.
End XFrames.

(* ---- what xpub_try hands back when the answer is a position ---- *)
Lemma xpub_try_ok_log m x len act x' p : xpub_try m x len act = (x', Ok p) ->
  exists a, act (xlog x) = Ok a /\ xlog x' = a_log a.
Proof. unfold xpub_try. destruct (ps_closed (x_pub x)); [discriminate|].
  destruct ((x_idx x <? 0) || (2 <? x_idx x)); [discriminate|].
  destruct (add64 m (x_begin x) (x_off x)) as [position| | | |]; try discriminate.
  destruct (position <? l_limit (ps_log (x_pub x))).
  - fold (xlog x). destruct (act (xlog x)) as [a|e| | |]; try discriminate.
    unfold xpub_new_position. destruct (0 <? a_result a).
    + destruct (add64 m (x_begin x) (a_result a)); intros H; inversion H; subst. exists a. split; reflexivity.
    + destruct (add64 m (x_begin x) (l_tlen (a_log a))) as [e| | | |]; try discriminate.
      destruct (max_possible_position (a_log a) <=? e); [discriminate|].
      destruct (next_partition_index m (x_idx x)); discriminate.
  - destruct (back_pressure_status m (ps_log (x_pub x)) position len) as [v|e| | |]; discriminate. Qed.

Theorem xpub_step_wrote m rv x n o x' p :
  xpub_inv n x -> mtu_aligned (xlog x) -> op_ok (xlog x) o -> is_xappend o = true -> xpub_step m rv x o = (x', Ok p) ->
  exists es, Forall entry_wf es /\ term_end es = op_required (xlog x) o /\
    xlog x' = set_part (put_raw_tail (xlog x) (x_idx x) (x_tid x) (x_off x + op_required (xlog x) o)) (x_idx x)
                       (term_put (part (xlog x) (x_idx x)) (x_off x) es) /\
    x_off x + op_required (xlog x) o <= l_tlen (xlog x).
Proof. intros Hinv Hal Hok Ha Hs. pose proof (xi_legal _ _ Hinv) as Hleg. pose proof (legal_mpl _ Hleg) as (Hm1 & Hm2 & Hm3 & Hm4).
  pose proof (xi_off _ _ Hinv) as Hoff.
  destruct (xpub_step_cases m rv x n Hinv o Hok Ha) as [(len & _ & _ & E) | T]; [rewrite E in Hs; discriminate|].
  rewrite Hs in T.
  assert (Hfit : x_off x + op_required (xlog x) o <= l_tlen (xlog x) /\ op_too_long (xlog x) o = false).
  { inversion T; subst. split; [assumption|congruence]. }
  destruct Hfit as [Hfit Htl]. clear T.
  destruct o; try discriminate; cbn [xpub_step op_ok op_too_long op_len] in *.
  - pose proof (zlen_nonneg msg) as H0. unfold xpub_offer in Hs. apply xpub_try_ok_log in Hs. destruct Hs as (a & Hact & Hlog).
    unfold op_required, op_len, required_spec in *.
    destruct (zlen msg <=? max_payload_length (xlog x)) eqn:E1.
    + unfold unfrag_required_spec in *. rewrite HDR_eq, FA_eq in *.
      destruct (eta_unfrag_frames m rv (xlog x) (x_idx x) (x_tid x) (x_off x) Hleg Hoff msg ltac:(lia) Hfit) as (a2 & es & Ha2 & W1 & W2 & W3).
      rewrite Ha2 in Hact. inversion Hact; subst a2. exists es. rewrite Hlog. auto.
    + assert (E2 : (max_message_length (xlog x) <? zlen msg) = false) by lia. rewrite E2 in Hact.
      destruct (eta_frag_frames m rv (xlog x) (x_idx x) (x_tid x) (x_off x) Hleg Hoff msg Hal ltac:(lia) Hfit) as (a2 & es & Ha2 & W1 & W2 & W3).
      rewrite Ha2 in Hact. inversion Hact; subst a2. exists es. rewrite Hlog. auto.
  - unfold xpub_claim in Hs. assert (E1 : (max_payload_length (xlog x) <? len) = false) by lia. rewrite E1 in Hs.
    apply xpub_try_ok_log in Hs. destruct Hs as (a & Hact & Hlog).
    unfold op_required, op_len, required_spec in *.
    assert (E1' : (len <=? max_payload_length (xlog x)) = true) by lia. rewrite E1' in *.
    unfold unfrag_required_spec in *. rewrite HDR_eq, FA_eq in *.
    destruct (eta_claim_frames m (xlog x) (x_idx x) (x_tid x) (x_off x) Hleg Hoff len ltac:(lia) Hfit) as (a2 & es & Ha2 & W1 & W2 & W3).
    rewrite Ha2 in Hact. inversion Hact; subst a2. exists es. rewrite Hlog. auto. Qed.

(* ---- invariants of histories: content of the active partition, and the tail counter in the last term ---- *)
Definition xcontent_inv (x : xpub) : Prop :=
  x_off x mod 32 = 0 /\ term_end (part (xlog x) (x_idx x)) = x_off x /\ spans_nonneg (part (xlog x) (x_idx x)).

(* the active tail counter: (publication's term id, publication's offset), or - after a message did not fit into the very
   last term - an offset beyond the term while the publication stands at its end *)
Definition xtail2 (n : Z) (x : xpub) : Prop :=
  exists t, tail (xlog x) (n mod 3) = x_tid x * two32 + t /\ 0 <= t < two32 /\
            (t = x_off x \/ (n = two31 - 1 /\ x_off x = l_tlen (xlog x) /\ l_tlen (xlog x) <= t)).

Lemma xtail2_ok n x : xtail2 n x -> xtail_ok n x.
Proof. intros (t & H1 & H2 & H3). exists t. split; [assumption|]. split; [assumption|]. destruct H3 as [-> | (Hn & _)]; auto. Qed.

Record xall (n : Z) (x : xpub) : Prop := mkXAll {
  xa_inv : xpub_inv n x; xa_tail : xtail2 n x; xa_content : xcontent_inv x; xa_mtu : mtu_aligned (xlog x) }.

Lemma xrequired_ok x n o : xpub_inv n x -> op_ok (xlog x) o -> is_xappend o = true -> op_too_long (xlog x) o = false ->
  0 < op_required (xlog x) o <= l_tlen (xlog x) / 2.
Proof. intros Hinv Hok Ha Htl. pose proof (xi_legal _ _ Hinv) as Hleg. pose proof (legal_mpl _ Hleg) as (Hm1 & Hm2 & Hm3 & Hm4).
  unfold op_required. destruct o; try discriminate; cbn [op_len op_too_long op_ok] in *.
  - apply required_half_term; auto; [apply zlen_nonneg|right; lia].
  - apply required_half_term; auto; [lia|left; lia]. Qed.

Lemma xrequired_aligned x n o : xpub_inv n x -> mtu_aligned (xlog x) -> op_ok (xlog x) o -> is_xappend o = true ->
  op_required (xlog x) o mod 32 = 0.
Proof. intros Hinv Hal Hok Ha. pose proof (legal_mpl _ (xi_legal _ _ Hinv)) as (Hm1 & _).
  apply required_spec_aligned; [|assumption|apply mpl_aligned; assumption].
  destruct o; try discriminate; cbn [op_len op_ok] in *; try lia. apply zlen_nonneg. Qed.

Lemma xbumped_parts l idx tid off req : 0 <= idx < 3 ->
  part (xbumped l idx tid off req) idx =
    (if off <? l_tlen l then term_put (part l idx) off [Committed (data_frame l off (l_tlen l - off) tid F_UNFRAG T_PAD 0 [])]
     else part l idx) /\
  forall j, 0 <= j < 3 -> j <> idx -> part (xbumped l idx tid off req) j = part l j.
Proof. intros Hi. unfold xbumped, put_padding, put_raw_tail. cbn [l_tlen set_tail]. destruct (off <? l_tlen l) eqn:E.
  - split.
    + rewrite part_set_part_same by assumption. unfold padding_entries. cbn [l_tlen set_tail]. rewrite E. reflexivity.
    + intros j Hj Hne. rewrite part_set_part_other by auto. reflexivity.
  - split; [reflexivity|]. intros j Hj Hne. reflexivity. Qed.

Lemma xtail_of_bumped l idx tid off req j : 0 <= idx < 3 -> 0 <= j < 3 -> 0 <= off + req ->
  tail (xbumped l idx tid off req) j = if j =? idx then tid * two32 + (off + req) else tail l j.
Proof. intros Hi Hj Hp. unfold xbumped. rewrite <- (same_meta_tail _ _ _ (same_meta_put_padding _ _ _ _)). unfold put_raw_tail.
  destruct (j =? idx) eqn:E.
  - assert (j = idx) by lia. subst j. rewrite tail_set_tail_same by assumption. apply excl_raw_tail_nonneg. assumption.
  - apply tail_set_tail_other; lia. Qed.

Theorem xall_step m rv x n o : xall n x -> op_ok (xlog x) o ->
  (snd (xpub_step m rv x o) = Err AdminAction -> part (xlog x) (next_index (xlog x)) = []) ->
  exists n', xall n' (fst (xpub_step m rv x o)) /\ same_geom (xlog x) (xlog (fst (xpub_step m rv x o))).
Proof. intros [Hinv Ht Hc Hal] Hok Hclean.
  pose proof Hinv as [Hleg Hn Hidx Htid Hbeg Hoff Hcnt].
  pose proof (legal_tlen _ Hleg) as [Htl _]. pose proof (legal_tlen32 _ Hleg) as Ht32.
  pose proof (mod3_range n) as M0. pose proof (mod3_range (n+1)) as M1. pose proof (mod3_range (n+2)) as M2.
  pose proof (mod3_distinct n) as (D1 & D2 & D3).
  assert (Hstay : fst (xpub_step m rv x o) = x ->
            exists n', xall n' (fst (xpub_step m rv x o)) /\ same_geom (xlog x) (xlog (fst (xpub_step m rv x o)))).
  { intros ->. exists n. split; [constructor; assumption|apply same_geom_refl]. }
  destruct (is_xappend o) eqn:Ea.
  2:{ (* environment operations, and Bulk (a no-op on the exclusive publication) *)
      assert (E : xpub_step m rv x o = (x, Ok 0) \/
                  (xpub_step m rv x o = (let '(p, r) := env_step (x_pub x) o in (x_with_pub x p, r)) /\ is_append o = false)).
      { destruct o; try discriminate; auto. }
      destruct E as [E | [E Hna]]; [apply Hstay; rewrite E; reflexivity|].
      destruct (xpub_step_inv m rv x n o Hinv Hok) as (n' & Hinv' & Hg').
      rewrite E in *. pose proof (env_step_tail (x_pub x) o) as Htails. pose proof (env_step_log (x_pub x) o) as [Hcn _].
      assert (Hparts : term_end (part (ps_log (fst (env_step (x_pub x) o))) (x_idx x)) = term_end (part (xlog x) (x_idx x)) /\
                       (spans_nonneg (part (xlog x) (x_idx x)) -> spans_nonneg (part (ps_log (fst (env_step (x_pub x) o))) (x_idx x)))).
      { assert (Hupd : forall i o0 g, (forall e, entry_span (g e) = entry_span e) ->
                  term_end (part (set_part (xlog x) i (term_update (part (xlog x) i) o0 g)) (x_idx x)) = term_end (part (xlog x) (x_idx x)) /\
                  (spans_nonneg (part (xlog x) (x_idx x)) -> spans_nonneg (part (set_part (xlog x) i (term_update (part (xlog x) i) o0 g)) (x_idx x)))).
        { intros i o0 g Hg. rewrite Hidx.
          destruct (part_set_part_any (xlog x) i (term_update (part (xlog x) i) o0 g) (n mod 3) M0) as [-> | [-> Hp]]; [auto|].
          rewrite Hp. apply term_update_span. exact Hg. }
        unfold xlog in *. destruct o; try discriminate; cbn [env_step fst]; auto.
        - unfold pub_commit, claim_apply. destruct (ps_claim (x_pub x)) as [[[i o0] fl]|]; [|auto].
          destruct (fl - HDR <? zlen body); [auto|]. cbn [fst ps_log]. apply Hupd. apply commit_entry_span.
        - unfold claim_apply. destruct (ps_claim (x_pub x)) as [[[i o0] fl]|]; [|auto]. cbn [fst ps_log]. apply Hupd. apply abort_entry_span.
        - cbn [with_log ps_log]. fold (xlog x). rewrite Hidx.
          assert (Hni : next_index (xlog x) = (n + 1) mod 3).
          { unfold next_index, xlog in *. rewrite Hcnt. rewrite index_by_term_count_nonneg by assumption. apply Zplus_mod_idemp_l. }
          rewrite Hni. rewrite part_set_part_other by auto. auto. }
      destruct (env_step (x_pub x) o) as [p r]. cbn [fst] in *.
      assert (Hn' : n' = n).
      { pose proof (xi_count _ _ Hinv') as C1. unfold x_with_pub, xlog in *. cbn [x_pub] in *. lia. }
      subst n'. exists n. split; [|assumption]. constructor.
      - assumption.
      - destruct Ht as (t & Ht1 & Ht2 & Ht3). exists t. unfold x_with_pub, xlog in *. cbn [x_pub x_tid x_off]. rewrite Htails.
        destruct Hg' as (_ & G2 & _). cbn [x_pub] in G2. rewrite <- G2. auto.
      - destruct Hc as (C1 & C2 & C3). destruct Hparts as [P1 P2]. unfold xcontent_inv, x_with_pub, xlog in *. cbn [x_pub x_off x_idx].
        rewrite P1. auto.
      - destruct Hg' as (_ & _ & G3 & _). unfold mtu_aligned, x_with_pub, xlog in *. cbn [x_pub] in *. rewrite <- G3. exact Hal. }
  destruct (xpub_step_cases m rv x n Hinv o Hok Ea) as [(len & _ & _ & E) | T].
  { apply Hstay. rewrite E. reflexivity. }
  destruct (xpub_step m rv x o) as [x' r] eqn:Es. cbn [fst snd] in *.
  destruct (op_too_long (xlog x) o) eqn:Etl.
  { apply Hstay. inversion T; subst; try discriminate; reflexivity. }
  assert (Hreq := xrequired_ok x n o Hinv Hok Ea Etl).
  pose proof (xrequired_aligned x n o Hinv Hal Hok Ea) as Hr32.
  assert (Hhalf : l_tlen (xlog x) / 2 <= l_tlen (xlog x)) by (apply Z.div_le_upper_bound; lia).
  destruct (xtry_result_inv x n _ _ _ x' r Hinv Hreq T) as (Hg & _ & _ & Hr).
  assert (Hal' : mtu_aligned (xlog x')) by (destruct Hg as (_ & _ & G3 & _); unfold mtu_aligned; rewrite <- G3; exact Hal).
  destruct Hc as (C1 & C2 & C3). destruct Ht as (t & Ht1 & Ht2 & Ht3).
  assert (Hcnt2 : l_count (xlog x) - n = 0) by lia. clear Hcnt.
  inversion T; subst; try (apply Hstay; reflexivity).
  - (* accepted *)
    destruct (xpub_step_wrote m rv x n o _ _ Hinv Hal Hok Ea Es) as (es & W1 & W2 & W3 & Hfit).
    rewrite xlog_mk in W3. exists n. split; [|exact Hg]. constructor; [exact Hr| | |exact Hal'].
    + exists (x_off x + op_required (xlog x) o). rewrite xlog_mk. cbn [x_tid x_off]. rewrite tail_set_part. unfold put_raw_tail.
      rewrite Hidx. rewrite tail_set_tail_same by assumption. rewrite excl_raw_tail_nonneg by lia.
      split; [reflexivity|]. split; [unfold two32; lia|left; reflexivity].
    + unfold xcontent_inv. rewrite xlog_mk. cbn [x_off x_idx]. rewrite W3. rewrite Hidx in *. rewrite part_set_part_same by assumption.
      rewrite (term_put_at _ _ es C2 C3). rewrite term_end_app, C2, W2. split; [|split].
      * rewrite Z.add_mod by lia. rewrite C1, Hr32. reflexivity.
      * reflexivity.
      * apply spans_nonneg_app; [assumption|apply wf_spans; assumption].
  - (* rotation *)
    exists (n + 1). split; [|exact Hg]. constructor; [exact Hr| | |exact Hal'].
    + exists 0. rewrite xlog_mk. cbn [x_tid x_off]. rewrite tail_rotated by assumption. rewrite Z.eqb_refl.
      destruct (same_meta_xbumped_geom (xlog x) (x_idx x) (x_tid x) (x_off x) (op_required (xlog x) o)) as (G1 & _). rewrite <- G1.
      rewrite Htid. rewrite wrap32_add_wrap32. rewrite Z.add_0_r. split; [reflexivity|]. split; [unfold two32; lia|left; reflexivity].
    + specialize (Hclean eq_refl).
      assert (Hni : next_index (xlog x) = (n + 1) mod 3).
      { unfold next_index. replace (l_count (xlog x)) with n by lia. rewrite index_by_term_count_nonneg by assumption. apply Zplus_mod_idemp_l. }
      rewrite Hni in Hclean.
      unfold xcontent_inv. rewrite xlog_mk. cbn [x_off x_idx]. change (part (rotated ?a n) ?i) with (part a i).
      destruct (xbumped_parts (xlog x) (x_idx x) (x_tid x) (x_off x) (op_required (xlog x) o) ltac:(lia)) as [_ Hoth].
      rewrite Hoth by (rewrite ?Hidx; auto). rewrite Hclean. repeat split. constructor.
  - (* last term *)
    destruct Hr as [Hsame | (Hlast & Hinv' & _)]; [apply Hstay; exact Hsame|].
    exists n. split; [|exact Hg]. constructor; [exact Hinv'| | |exact Hal'].
    + exists (x_off x + op_required (xlog x) o). rewrite xlog_mk. cbn [x_tid x_off].
      rewrite xtail_of_bumped by (rewrite ?Hidx; lia). rewrite Hidx, Z.eqb_refl.
      split; [reflexivity|]. split; [unfold two32; lia|]. right.
      destruct (same_meta_xbumped_geom (xlog x) (n mod 3) (x_tid x) (x_off x) (op_required (xlog x) o)) as (_ & G2 & _).
      rewrite <- G2. repeat split; lia.
    + unfold xcontent_inv. rewrite xlog_mk. cbn [x_off x_idx]. split; [exact Ht32|].
      destruct (xbumped_parts (xlog x) (x_idx x) (x_tid x) (x_off x) (op_required (xlog x) o) ltac:(lia)) as [Hact _]. rewrite Hact.
      destruct (x_off x <? l_tlen (xlog x)) eqn:Eoff.
      * rewrite (term_put_at _ _ _ C2 C3). rewrite term_end_app, C2. cbn [term_end entry_span data_frame f_len]. rewrite FA_eq.
        rewrite align_exact by (rewrite Zminus_mod, Ht32, C1; reflexivity). split; [lia|].
        apply spans_nonneg_app; [assumption|]. constructor; [|constructor]. cbn [entry_span data_frame f_len]. rewrite FA_eq.
        rewrite align_exact by (rewrite Zminus_mod, Ht32, C1; reflexivity). lia.
      * split; [lia|assumption].
Qed.

(* ---- words_append on the exclusive publication's observations ---- *)
Lemma xd_part m x x' r i : 0 <= i < 3 ->
  d_part (o_dump (xpub_obs m x x' r)) i = words_diff (render_term (part (xlog x) i)) (render_term (part (xlog x') i)).
Proof. intros Hi. unfold xpub_obs, o_dump. cbn [fst snd]. apply d_part_delta. assumption. Qed.

Lemma xp_active m x n x0 r0 : xpub_inv n x -> active (o_dump (xpub_obs m x0 x r0)) = n mod 3.
Proof. intros Hinv. unfold active. rewrite (xp_count m x n Hinv). reflexivity. Qed.

Lemma xp_tail_off m x n x0 r0 t : xpub_inv n x -> tail (xlog x) (n mod 3) = x_tid x * two32 + t -> 0 <= t < two32 ->
  tail_off (o_dump (xpub_obs m x0 x r0)) = t /\ tail_tid (o_dump (xpub_obs m x0 x r0)) = x_tid x.
Proof. intros Hinv Ht Hr. pose proof (mod3_range n) as M0. unfold tail_off, tail_tid. rewrite (xp_active m x n x0 r0 Hinv).
  rewrite (xp_tail m x) by assumption. rewrite Ht. split; [apply raw_mod; assumption|].
  pose proof (raw_tid (x_tid x) t ltac:(rewrite (xi_tid _ _ Hinv); apply wrap32_range) Hr) as Hq.
  unfold term_id_of, shr64 in Hq. change (2 ^ 32) with two32 in Hq. exact Hq. Qed.

Theorem xoracle_words_accept m rv x n o x0 r0 n0 off0 x' p :
  xall n x -> op_ok (xlog x) o -> is_xappend o = true -> xpub_step m rv x o = (x', Ok p) ->
  words_append (geom_of (xlog x) n0 off0) (kind_of o) (op_len o) (xpub_obs m x0 x r0) (xpub_obs m x x' (Ok p)) = true.
Proof. intros [Hinv Ht Hc Hal] Hok Ha Hs.
  destruct (xpub_step_wrote m rv x n o x' p Hinv Hal Hok Ha Hs) as (es & W1 & W2 & W3 & Hfit).
  destruct (xpub_accept m rv x n o x' p Hinv Hok Ha Hs) as (Hcl & Htl & _).
  pose proof (xi_idx _ _ Hinv) as Hidx.
  pose proof (mod3_range n) as M0. pose proof (mod3_range (n+1)) as M1. pose proof (mod3_range (n+2)) as M2.
  pose proof (mod3_distinct n) as (D1 & D2 & D3). destruct (mod3_succ n) as [S1 S2].
  unfold words_append. change (o_res (xpub_obs m x x' (Ok p))) with (@Ok Z p).
  rewrite (xp_pos m x n Hinv x0 r0 Hcl). unfold appended_words. rewrite (xp_active m x n x0 r0 Hinv).
  rewrite (xp_pos_off m x n Hinv). rewrite S1, S2. rewrite !xd_part by assumption.
  rewrite W3. rewrite Hidx in *. rewrite part_set_part_same by assumption. rewrite !part_set_part_other by auto.
  unfold put_raw_tail. rewrite !part_set_tail. rewrite !words_eqb_nil_same. rewrite !Bool.andb_true_r.
  destruct Hc as (C1 & C2 & C3). rewrite Hidx in C2, C3.
  destruct (appended_render _ _ es C2 C3 W1) as [E1 E2]. rewrite E1.
  rewrite required_geom. fold (op_required (xlog x) o). rewrite <- W2. apply offs_in_forallb. exact E2. Qed.

(* the log after a message did not fit: at most the padding frame at the publication's offset *)
Lemma xtripped m x n x0 r0 n0 off0 x' r req :
  xall n x -> 0 <= x_off x + req ->
  (forall i, 0 <= i < 3 -> part (xlog x') i = part (xbumped (xlog x) (x_idx x) (x_tid x) (x_off x) req) i) ->
  tripped_words (geom_of (xlog x) n0 off0) (o_dump (xpub_obs m x0 x r0)) (o_dump (xpub_obs m x x' r)) = true.
Proof. intros [Hinv (t & Ht1 & Ht2 & Ht3) (C1 & C2 & C3) Hal] Hp Hparts. pose proof (xi_idx _ _ Hinv) as Hidx.
  pose proof (mod3_range n) as M0. pose proof (mod3_range (n+1)) as M1. pose proof (mod3_range (n+2)) as M2.
  pose proof (mod3_distinct n) as (D1 & D2 & D3). destruct (mod3_succ n) as [S1 S2].
  destruct (xp_tail_off m x n x0 r0 t Hinv Ht1 Ht2) as [Hto Htt].
  unfold tripped_words. rewrite Hto, Htt. rewrite (xp_active m x n x0 r0 Hinv). rewrite S1, S2.
  rewrite !xd_part by assumption. rewrite !Hparts by assumption.
  destruct (xbumped_parts (xlog x) (x_idx x) (x_tid x) (x_off x) req ltac:(lia)) as [Hact Hoth].
  rewrite Hidx in *. rewrite Hact. rewrite !Hoth by auto. rewrite !words_eqb_nil_same. rewrite !Bool.andb_true_r.
  unfold geom_of at 1. cbn [g_tlen].
  destruct Ht3 as [-> | (Hlast & Hx & Hle)].
  - destruct (x_off x <? l_tlen (xlog x)) eqn:Eoff.
    + rewrite (term_put_at _ _ _ C2 C3). unfold render_term. rewrite render_from_app. rewrite words_diff_appended.
      rewrite Z.add_0_l, C2. cbn [render_from]. rewrite !app_nil_r. apply list_eqb_refl_words.
    + rewrite words_diff_same. reflexivity.
  - assert (E1 : (x_off x <? l_tlen (xlog x)) = false) by lia. assert (E2 : (t <? l_tlen (xlog x)) = false) by lia.
    rewrite E1, E2. rewrite words_diff_same. reflexivity. Qed.

Theorem xoracle_words m rv x n o x0 r0 n0 off0 :
  xall n x -> op_ok (xlog x) o -> is_xappend o = true ->
  words_append (geom_of (xlog x) n0 off0) (kind_of o) (op_len o)
               (xpub_obs m x0 x r0) (xpub_obs m x (fst (xpub_step m rv x o)) (snd (xpub_step m rv x o))) = true.
Proof. intros Hall Hok Ha. pose proof Hall as [Hinv Ht Hc Hal].
  pose proof Hinv as [Hleg Hn Hidx Htid Hbeg Hoff Hcnt]. pose proof (mod3_range n) as M0.
  assert (Hsame : forall e, e <> AdminAction ->
            words_append (geom_of (xlog x) n0 off0) (kind_of o) (op_len o) (xpub_obs m x0 x r0) (xpub_obs m x x (Err e)) = true).
  { intros e He. unfold words_append. change (o_res (xpub_obs m x x (Err e))) with (@Err Z e).
    assert (Hnw : no_words (o_dump (xpub_obs m x x (Err e))) = true) by (unfold xpub_obs, o_dump; cbn [fst snd]; apply no_words_same).
    change (snd (fst (o_dump (xpub_obs m x0 x r0)))) with [l_t0 (xlog x); l_t1 (xlog x); l_t2 (xlog x)].
    change (snd (fst (o_dump (xpub_obs m x x (Err e))))) with [l_t0 (xlog x); l_t1 (xlog x); l_t2 (xlog x)].
    rewrite list3_eqb_refl. destruct e; try exact Hnw. exfalso. apply He. reflexivity. }
  destruct (xpub_step_cases m rv x n Hinv o Hok Ha) as [(len & _ & _ & E) | T].
  { rewrite E. cbn [fst snd]. apply Hsame. discriminate. }
  destruct (xpub_step m rv x o) as [x' r] eqn:Es. cbn [fst snd].
  destruct (op_too_long (xlog x) o) eqn:Etl.
  { inversion T; subst; try discriminate.
    - apply Hsame. discriminate.
    - apply Hsame. unfold status_of. destruct (_ <=? _); [discriminate|]. destruct (l_connected _); discriminate.
    - apply Hsame. discriminate. }
  assert (Hreq := xrequired_ok x n o Hinv Hok Ha Etl).
  assert (Hcnt2 : l_count (xlog x) - n = 0) by lia. clear Hcnt.
  inversion T; subst.
  - apply Hsame. discriminate.
  - apply Hsame. unfold status_of. destruct (_ <=? _); [discriminate|]. destruct (l_connected _); discriminate.
  - apply Hsame. discriminate.
  - eapply xoracle_words_accept; eassumption.
  - (* rotation *) unfold words_append. match goal with |- context [o_res (xpub_obs m x ?y ?z)] => change (o_res (xpub_obs m x y z)) with z end.
    apply (xtripped m x n x0 r0 n0 off0 _ _ (op_required (xlog x) o) Hall); [lia|]. intros i Hi. rewrite xlog_mk. reflexivity.
  - (* last term *) unfold words_append. match goal with |- context [o_res (xpub_obs m x ?y ?z)] => change (o_res (xpub_obs m x y z)) with z end.
    match goal with |- context [xpub_obs m x ?y (Err MaxPositionExceeded)] => set (x' := y) end.
    assert (Htr : tripped_words (geom_of (xlog x) n0 off0) (o_dump (xpub_obs m x0 x r0)) (o_dump (xpub_obs m x x' (Err MaxPositionExceeded))) = true).
    { apply (xtripped m x n x0 r0 n0 off0 _ _ (op_required (xlog x) o) Hall); [lia|]. intros i Hi. unfold x'. rewrite xlog_mk. reflexivity. }
    change (snd (fst (o_dump (xpub_obs m x0 x r0)))) with [l_t0 (xlog x); l_t1 (xlog x); l_t2 (xlog x)].
    change (snd (fst (o_dump (xpub_obs m x x' (Err MaxPositionExceeded))))) with [l_t0 (xlog x'); l_t1 (xlog x'); l_t2 (xlog x')].
    destruct Ht as (t & Ht1 & Ht2 & Ht3). destruct Ht3 as [-> | (Hlast & Hx & Hle)].
    + rewrite (tails_differ (xlog x) (xlog x') (n mod 3) M0); [exact Htr|].
      unfold x'. rewrite xlog_mk. rewrite xtail_of_bumped by (rewrite ?Hidx; lia). rewrite Hidx, Z.eqb_refl. rewrite Ht1. lia.
    + destruct (list_eqb Z.eqb _ _); [|exact Htr].
      unfold xpub_obs, o_dump. cbn [fst snd]. unfold x'. rewrite xlog_mk.
      destruct (xbumped_parts (xlog x) (x_idx x) (x_tid x) (x_off x) (op_required (xlog x) o) ltac:(lia)) as [Hact Hoth].
      assert (E1 : (x_off x <? l_tlen (xlog x)) = false) by lia. rewrite E1 in Hact.
      assert (Hall3 : forall i, 0 <= i < 3 -> part (xbumped (xlog x) (x_idx x) (x_tid x) (x_off x) (op_required (xlog x) o)) i = part (xlog x) i).
      { intros i Hi. destruct (Z.eq_dec i (x_idx x)) as [-> | Hne]; [exact Hact|apply Hoth; assumption]. }
      apply no_words_same_parts; symmetry; [apply (Hall3 0)|apply (Hall3 1)|apply (Hall3 2)]; lia.
Qed.

Theorem xoracle_step m rv x n o x0 r0 n0 off0 :
  xall n x -> op_ok (xlog x) o -> is_xappend o = true ->
  holds_append (geom_of (xlog x) n0 off0) (env_of (x_pub x)) (kind_of o) (op_len o)
               (xpub_obs m x0 x r0) (xpub_obs m x (fst (xpub_step m rv x o)) (snd (xpub_step m rv x o))) = true.
Proof. intros Hall Hok Ha. unfold holds_append.
  rewrite (oracle_flow_exclusive m rv x n o x0 r0 n0 off0 (xa_inv _ _ Hall) (xtail2_ok _ _ (xa_tail _ _ Hall)) Hok Ha).
  rewrite (xoracle_words m rv x n o x0 r0 n0 off0 Hall Hok Ha). reflexivity. Qed.

(* ---- operations that are not offers, whole histories ---- *)
Definition xoop_of (o : op) : oop := match o with Bulk _ => OCommit | _ => oop_of o end.

Fixpoint xclean_before_reuse (m : mode) (rv : Z -> Z -> list Z -> Z) (x : xpub) (ops : list op) : Prop :=
  match ops with
  | [] => True
  | o :: r => (snd (xpub_step m rv x o) = Err AdminAction -> part (xlog x) (next_index (xlog x)) = []) /\
              xclean_before_reuse m rv (fst (xpub_step m rv x o)) r
  end.

Lemma out_eqb_xposition m x n : xpub_inv n x -> out_eqb (xpub_position m x) (xpub_position m x) = true.
Proof. intros Hinv. destruct (ps_closed (x_pub x)) eqn:Ec.
  - unfold xpub_position. rewrite Ec. reflexivity.
  - rewrite (xpub_position_spec m x n Hinv Ec). apply out_eqb_ok. Qed.

Lemma xoracle_other m x n o x0 r0 n0 off0 :
  xpub_inv n x -> is_append o = false ->
  holds_other (geom_of (xlog x) n0 off0) (env_of (x_pub x)) (oop_of o)
              (xpub_obs m x0 x r0)
              (xpub_obs m x (x_with_pub x (fst (env_step (x_pub x) o))) (snd (env_step (x_pub x) o))) = true.
Proof. intros Hinv Hna. pose proof (out_eqb_xposition m x n Hinv) as Hpp.
  pose proof Hinv as [Hleg Hn Hidx Htid Hbeg Hoff Hcnt].
  pose proof (mod3_range n) as M0. pose proof (mod3_range (n+1)) as M1. pose proof (mod3_range (n+2)) as M2.
  pose proof (mod3_distinct n) as (D1 & D2 & D3). destruct (mod3_succ n) as [S1 S2].
  assert (Hpos : forall p, ps_closed p = ps_closed (x_pub x) -> xpub_position m (x_with_pub x p) = xpub_position m x).
  { intros p Hc. unfold xpub_position, x_with_pub. cbn [x_pub x_begin x_off]. rewrite Hc. reflexivity. }
  assert (Hmeta : forall l2 c cl, same_meta (xlog x) l2 -> c = ps_closed (x_pub x) -> forall r,
            (d_count (o_dump (xpub_obs m x (x_with_pub x (mkPub l2 c cl)) r)) =? d_count (o_dump (xpub_obs m x0 x r0))) &&
            list_eqb Z.eqb (snd (fst (o_dump (xpub_obs m x0 x r0)))) (snd (fst (o_dump (xpub_obs m x (x_with_pub x (mkPub l2 c cl)) r)))) &&
            out_eqb (o_pos (xpub_obs m x0 x r0)) (o_pos (xpub_obs m x (x_with_pub x (mkPub l2 c cl)) r)) = true).
  { intros l2 c cl Hm -> r. unfold xpub_obs, o_dump, o_pos. cbn [fst snd]. rewrite !d_count_delta, !tails_delta.
    rewrite (Hpos (mkPub l2 (ps_closed (x_pub x)) cl) eq_refl). rewrite Hpp.
    destruct Hm as (T0 & T1 & T2 & Tc & _). unfold x_with_pub, xlog in *. cbn [x_pub ps_log]. rewrite <- T0, <- T1, <- T2, <- Tc.
    rewrite Z.eqb_refl, list3_eqb_refl. reflexivity. }
  assert (Hself : forall r, (d_count (o_dump (xpub_obs m x (x_with_pub x (x_pub x)) r)) =? d_count (o_dump (xpub_obs m x0 x r0))) &&
            list_eqb Z.eqb (snd (fst (o_dump (xpub_obs m x0 x r0)))) (snd (fst (o_dump (xpub_obs m x (x_with_pub x (x_pub x)) r)))) &&
            out_eqb (o_pos (xpub_obs m x0 x r0)) (o_pos (xpub_obs m x (x_with_pub x (x_pub x)) r)) = true).
  { intros r. destruct (x_pub x) as [l c cl] eqn:Ep. replace l with (xlog x) by (unfold xlog; rewrite Ep; reflexivity).
    apply Hmeta; [repeat split|first [reflexivity | rewrite Ep; reflexivity]]. }
  destruct o; try discriminate; cbn [env_step oop_of holds_other].
  - (* Commit *) unfold pub_commit, claim_apply. destruct (ps_claim (x_pub x)) as [[[i o0] fl]|] eqn:Ecl; cbn [fst snd].
    + destruct (fl - HDR <? zlen body); cbn [fst snd]; [apply Hself|]. apply Hmeta; [apply same_meta_set_part|reflexivity].
    + apply Hself.
  - (* Abort *) unfold claim_apply. destruct (ps_claim (x_pub x)) as [[[i o0] fl]|] eqn:Ecl; cbn [fst snd].
    + apply Hmeta; [apply same_meta_set_part|reflexivity].
    + apply Hself.
  - (* SetLimit *) cbn [fst snd]. unfold with_log, dump_eqb.
    assert (Hnw : no_words (o_dump (xpub_obs m x (x_with_pub x (mkPub (set_limit (ps_log (x_pub x)) v) (ps_closed (x_pub x)) (ps_claim (x_pub x)))) (Ok 0))) = true).
    { unfold xpub_obs, o_dump. cbn [fst snd]. apply no_words_same_parts; reflexivity. }
    rewrite Hnw. unfold xpub_obs, o_dump, o_pos, o_res. cbn [fst snd]. rewrite !d_count_delta, !tails_delta.
    rewrite Hpos by reflexivity. rewrite Hpp. unfold x_with_pub, xlog. cbn [x_pub ps_log set_limit l_count l_t0 l_t1 l_t2].
    rewrite Z.eqb_refl, list3_eqb_refl. reflexivity.
  - (* SetConnected *) cbn [fst snd]. unfold with_log, dump_eqb.
    assert (Hnw : no_words (o_dump (xpub_obs m x (x_with_pub x (mkPub (set_connected (ps_log (x_pub x)) b) (ps_closed (x_pub x)) (ps_claim (x_pub x)))) (Ok 0))) = true).
    { unfold xpub_obs, o_dump. cbn [fst snd]. apply no_words_same_parts; reflexivity. }
    rewrite Hnw. unfold xpub_obs, o_dump, o_pos, o_res. cbn [fst snd]. rewrite !d_count_delta, !tails_delta.
    rewrite Hpos by reflexivity. rewrite Hpp. unfold x_with_pub, xlog. cbn [x_pub ps_log set_connected l_count l_t0 l_t1 l_t2].
    rewrite Z.eqb_refl, list3_eqb_refl. reflexivity.
  - (* Close *) cbn [fst snd]. unfold dump_eqb.
    assert (Hnw : no_words (o_dump (xpub_obs m x (x_with_pub x (mkPub (ps_log (x_pub x)) true (ps_claim (x_pub x)))) (Ok 0))) = true).
    { unfold xpub_obs, o_dump. cbn [fst snd]. apply no_words_same_parts; reflexivity. }
    rewrite Hnw. unfold xpub_obs, o_dump, o_pos. cbn [fst snd]. rewrite !d_count_delta, !tails_delta.
    unfold x_with_pub, xlog. cbn [x_pub ps_log]. rewrite Z.eqb_refl, list3_eqb_refl. reflexivity.
  - (* Clean *) cbn [fst snd]. unfold with_log. rewrite (xp_active m x n x0 r0 Hinv). rewrite S1, S2.
    assert (Hni : next_index (ps_log (x_pub x)) = (n + 1) mod 3).
    { unfold next_index. fold (xlog x). rewrite Hcnt. rewrite index_by_term_count_nonneg by assumption. apply Zplus_mod_idemp_l. }
    rewrite Hni. rewrite !xd_part by assumption.
    unfold xpub_obs, o_dump, o_pos. cbn [fst snd]. rewrite !d_count_delta, !tails_delta.
    rewrite Hpos by reflexivity. rewrite Hpp. unfold x_with_pub. rewrite !xlog_mk || idtac.
    unfold xlog. cbn [x_pub ps_log set_part l_count l_t0 l_t1 l_t2]. rewrite Z.eqb_refl, list3_eqb_refl.
    fold (xlog x). rewrite part_set_part_same by assumption. rewrite !part_set_part_other by auto. rewrite !words_eqb_nil_same.
    cbn [andb]. rewrite !Bool.andb_true_r. apply forallb_forall. intros w Hw.
    pose proof (words_diff_nil_r (render_term (part (xlog x) ((n + 1) mod 3)))) as Hz. rewrite Forall_forall in Hz.
    change (render_term []) with (@nil (Z * Z)) in Hw. specialize (Hz w Hw). lia.
Qed.

Lemma xstep_env m rv x o : is_append o = false ->
  xpub_step m rv x o = (x_with_pub x (fst (env_step (x_pub x) o)), snd (env_step (x_pub x) o)).
Proof. intros H. destruct o; try discriminate; cbn [xpub_step]; destruct (env_step (x_pub x) _); reflexivity. Qed.

Lemma xenv_after_step m rv x n o : xpub_inv n x -> op_ok (xlog x) o ->
  env_after (env_of (x_pub x)) (xoop_of o) = env_of (x_pub (fst (xpub_step m rv x o))).
Proof. intros Hinv Hok. destruct (is_xappend o) eqn:Ea.
  - assert (E : env_after (env_of (x_pub x)) (xoop_of o) = env_of (x_pub x)) by (destruct o; try discriminate; reflexivity). rewrite E.
    destruct (xpub_step_cases m rv x n Hinv o Hok Ea) as [(len & _ & _ & E2) | T]; [rewrite E2; reflexivity|].
    destruct (xpub_step m rv x o) as [x' r] eqn:Es. cbn [fst].
    destruct (op_too_long (xlog x) o) eqn:Etl.
    { inversion T; subst; try discriminate; reflexivity. }
    assert (Hreq := xrequired_ok x n o Hinv Hok Ea Etl).
    destruct (xtry_result_inv x n _ _ _ x' r Hinv Hreq T) as (_ & Hl & Hcn & _).
    assert (Hcl : ps_closed (x_pub x') = ps_closed (x_pub x)) by (inversion T; subst; cbn [x_pub ps_closed]; congruence).
    unfold env_of. unfold xlog in Hl, Hcn. rewrite Hl, Hcn, Hcl. reflexivity.
  - destruct o; try discriminate; cbn [xpub_step xoop_of oop_of env_after fst]; try reflexivity.
    + cbn [env_step]. unfold pub_commit, claim_apply. destruct (ps_claim (x_pub x)) as [[[i o0] fl]|]; [|reflexivity]. destruct (fl - HDR <? zlen body); reflexivity.
    + cbn [env_step]. unfold claim_apply. destruct (ps_claim (x_pub x)) as [[[i o0] fl]|]; reflexivity.
Qed.

Theorem xoracle_history_from m rv ops : forall x n x0 r0 n0 off0,
  xall n x -> hist_ok (xlog x) ops -> xclean_before_reuse m rv x ops ->
  holds_from (geom_of (xlog x) n0 off0) (env_of (x_pub x)) (xpub_obs m x0 x r0) (map xoop_of ops) (xpub_trace m rv x ops) = true.
Proof. induction ops as [|o r IH]; intros x n x0 r0 n0 off0 Hall Hok Hcl; [reflexivity|].
  inversion Hok as [|? ? Ho Hr]; subst. destruct Hcl as [Hcl1 Hcl2]. pose proof (xa_inv _ _ Hall) as Hinv.
  destruct (xall_step m rv x n o Hall Ho Hcl1) as (n' & Hall' & Hg').
  pose proof (xenv_after_step m rv x n o Hinv Ho) as Henv.
  assert (Hstep : holds_step (geom_of (xlog x) n0 off0) (env_of (x_pub x)) (xoop_of o) (xpub_obs m x0 x r0)
                             (xpub_obs m x (fst (xpub_step m rv x o)) (snd (xpub_step m rv x o))) = true).
  { destruct (is_xappend o) eqn:Ea.
    - pose proof (xoracle_step m rv x n o x0 r0 n0 off0 Hall Ho Ea) as H. destruct o; try discriminate; exact H.
    - destruct (is_append o) eqn:Eapp.
      + (* Bulk: nothing happens *)
        destruct o; try discriminate. cbn [xoop_of holds_step xpub_step fst snd holds_other].
        unfold xpub_obs, o_dump, o_pos. cbn [fst snd]. rewrite !d_count_delta, !tails_delta.
        rewrite Z.eqb_refl, list3_eqb_refl. rewrite (out_eqb_xposition m x n Hinv). reflexivity.
      + rewrite (xstep_env m rv x o Eapp). cbn [fst snd].
        pose proof (xoracle_other m x n o x0 r0 n0 off0 Hinv Eapp) as H.
        destruct o; try discriminate; exact H. }
  cbn [map xpub_trace]. destruct (xpub_step m rv x o) as [x' res] eqn:Es. cbn [fst snd] in *. cbn [holds_from].
  rewrite Hstep. cbn [andb]. rewrite Henv. rewrite <- (geom_of_same _ _ n0 off0 Hg').
  apply (IH x' n'); auto.
  eapply Forall_impl; [|exact Hr]. intros a. apply op_ok_same. destruct Hg' as (_ & H & _). exact H.
Qed.

(* ---- from the constructor on a handed-over log ---- *)
Lemma xhandover_all h x0 : handover_ok h -> handover_aligned h -> xpub_new (handover_log h) = Ok x0 ->
  xall (h_n0 h) x0 /\ xlog x0 = handover_log h /\ xspec_pos x0 = h_n0 h * h_tlen h + h_off0 h.
Proof. intros Hh Hal Hnew. pose proof Hh as (Hg & Hn & Ho).
  destruct (xpub_new_handed_over (h_init h) (h_tlen h) (h_mtu h) (h_session h) (h_stream h) (h_n0 h) (h_off0 h) Hg Hn Ho)
    as (x1 & Hnew1 & Hinv1 & Hlog1 & Hpos1).
  unfold handover_log in Hnew. rewrite Hnew1 in Hnew. inversion Hnew; subst x1. fold (handover_log h) in *.
  split; [|split; assumption].
  destruct (handover_content h Hh Hal) as [(C1 & C2 & C3) Hma].
  pose proof (xi_begin _ _ Hinv1) as Hbeg. rewrite Hlog1 in Hbeg. change (l_tlen (handover_log h)) with (h_tlen h) in *.
  assert (Hxoff : x_off x0 = h_off0 h) by (unfold xspec_pos in Hpos1; lia).
  constructor.
  - exact Hinv1.
  - pose proof (handed_over_inv (h_init h) (h_tlen h) (h_mtu h) (h_session h) (h_stream h) (h_n0 h) (h_off0 h) Hg Hn Ho) as Hp.
    pose proof (pi_tail _ _ _ Hp) as Htl. cbn [ps_log pub_init] in Htl. fold (handover_log h) in Htl.
    exists (h_off0 h). rewrite Hlog1, Htl. rewrite (xi_tid _ _ Hinv1). rewrite Hlog1.
    pose proof (legal_tlen _ (xi_legal _ _ Hinv1)) as [Htlen _]. rewrite Hlog1 in Htlen. change (l_tlen (handover_log h)) with (h_tlen h) in Htlen.
    split; [reflexivity|]. split; [unfold two32; lia|]. left. symmetry. exact Hxoff.
  - unfold xcontent_inv. rewrite Hlog1, Hxoff. rewrite (xi_idx _ _ Hinv1). rewrite Z.min_l in C2 by lia. auto.
  - rewrite Hlog1. exact Hma. Qed.

Lemma xhandover_obs0 m h x0 : handover_ok h -> handover_aligned h -> xpub_new (handover_log h) = Ok x0 ->
  obs0 (geom_of_handover h) = xpub_obs m x0 x0 (Ok 0).
Proof. intros Hh Hal Hnew. destruct (xhandover_all h x0 Hh Hal Hnew) as (Hall & Hlog & Hpos).
  unfold obs0, xpub_obs, geom_of_handover. cbn [g_init g_tlen g_mtu g_session g_stream g_n0 g_off0]. fold (handover_log h).
  assert (Hc : ps_closed (x_pub x0) = false).
  { unfold xpub_new in Hnew. destruct (index_by_term_count (l_count (handover_log h)) <? 0); [discriminate|]. inversion Hnew. reflexivity. }
  rewrite (xpub_position_spec m x0 _ (xa_inv _ _ Hall) Hc). rewrite Hpos, Hlog.
  unfold log_delta. rewrite !words_diff_same. reflexivity. Qed.

Theorem xoracle_history m rv h ops x0 :
  handover_ok h -> handover_aligned h -> hist_ok (handover_log h) ops -> xpub_new (handover_log h) = Ok x0 ->
  xclean_before_reuse m rv x0 ops ->
  holds_history (geom_of_handover h) (map xoop_of ops) (xpub_trace m rv x0 ops) = true.
Proof. intros Hh Hal Hok Hnew Hcl. unfold holds_history. rewrite (xhandover_obs0 m h x0 Hh Hal Hnew).
  destruct (xhandover_all h x0 Hh Hal Hnew) as (Hall & Hlog & _).
  pose proof (xoracle_history_from m rv ops x0 (h_n0 h) x0 (Ok 0) (h_n0 h) (h_off0 h) Hall) as H.
  rewrite Hlog in H. unfold geom_of, geom_of_handover in *. cbn [handover_log] in H.
  assert (Henv : env_of (x_pub x0) = env0).
  { unfold xpub_new in Hnew. destruct (index_by_term_count (l_count (handover_log h)) <? 0); [discriminate|]. inversion Hnew. reflexivity. }
  rewrite Henv in H. apply H; assumption. Qed.

(* the syntactic cleaning contract implies the contract on the run *)
Theorem xcleaned_between_ok m rv ops : forall x n pending,
  xpub_inv n x -> hist_ok (xlog x) ops ->
  (pending = false -> part (xlog x) (next_index (xlog x)) = []) ->
  cleaned_between pending ops -> xclean_before_reuse m rv x ops.
Proof. induction ops as [|o r IH]; intros x n pending Hinv Hok HJ Hcb; [exact I|].
  inversion Hok as [|? ? Ho Hr]; subst. cbn [xclean_before_reuse cleaned_between] in *.
  destruct (xpub_step_inv m rv x n o Hinv Ho) as (n' & Hinv' & Hg').
  assert (Hok' : hist_ok (xlog (fst (xpub_step m rv x o))) r).
  { eapply Forall_impl; [|exact Hr]. intros a. apply op_ok_same. destruct Hg' as (_ & H & _). exact H. }
  destruct (is_append o) eqn:Ea.
  - destruct Hcb as [Hp Hcb]. split; [intros _; apply HJ; exact Hp|].
    apply (IH _ n' true Hinv' Hok'); [discriminate|exact Hcb].
  - assert (E : xpub_step m rv x o = (let '(p, r) := env_step (x_pub x) o in (x_with_pub x p, r))) by (destruct o; try discriminate; reflexivity).
    assert (Hres : snd (xpub_step m rv x o) = snd (env_step (x_pub x) o) /\ xlog (fst (xpub_step m rv x o)) = ps_log (fst (env_step (x_pub x) o))).
    { rewrite E. destruct (env_step (x_pub x) o). split; reflexivity. }
    destruct Hres as [Hr1 Hr2].
    split; [rewrite Hr1; intros H; exfalso; exact (env_step_not_admin (x_pub x) o Ea H)|].
    destruct o; try discriminate;
      try (apply (IH _ n' pending Hinv' Hok'); [|exact Hcb]; intros Hp; rewrite Hr2; apply env_step_next_empty; [reflexivity|apply HJ; exact Hp]).
    apply (IH _ n' false Hinv' Hok'); [|exact Hcb]. intros _. rewrite Hr2. cbn [env_step fst with_log ps_log]. fold (xlog x).
    change (next_index (set_part (xlog x) (next_index (xlog x)) [])) with (next_index (xlog x)).
    apply part_set_part_same. apply next_index_range. Qed.

Theorem xoracle_history_cleaned m rv h ops x0 :
  handover_ok h -> handover_aligned h -> hist_ok (handover_log h) ops -> xpub_new (handover_log h) = Ok x0 ->
  cleaned_between false ops ->
  holds_history (geom_of_handover h) (map xoop_of ops) (xpub_trace m rv x0 ops) = true.
Proof. intros Hh Hal Hok Hnew Hcb. apply (xoracle_history m rv h ops x0); auto.
  destruct (xhandover_all h x0 Hh Hal Hnew) as (Hall & Hlog & _).
  apply (xcleaned_between_ok m rv ops x0 (h_n0 h) false (xa_inv _ _ Hall)); [rewrite Hlog; exact Hok| |exact Hcb].
  intros _. rewrite Hlog. apply handover_next_empty. exact Hh. Qed.
