(* claim + commit on the ExclusivePublication: the oracle's claim rule on the model's own traces. *)
Require Import V.Base.MachineInt.
Require Import V.Generated.GenConsts.
Require Import V.Model.Descriptor.
Require Import V.Model.LogBase.
Require Import V.Model.LogDelta.
Require Import V.Model.Appender.
Require Import V.Model.ExclAppender.
Require Import V.Model.Publication.
Require Import V.Model.ExclPublication.
Require Import V.Proofs.DescriptorProofs.
Require Import V.Proofs.AppenderProofs.
Require Import V.Proofs.PublicationProofs.
Require Import V.Proofs.BulkProofs.
Require Import V.Proofs.C04Proofs.
Require Import V.Proofs.ExclPublicationProofs.
Require Import V.Oracle.C04Oracle.
Require Import V.Proofs.C04OracleProofs.
Require Import V.Proofs.C04Statements.
Require Import V.Proofs.C04XOracleProofs.
Require Import V.Proofs.RenderWords.
Require Import V.Proofs.C04Bytes.
Require Import V.Proofs.C04XBytes.
Require Import V.Proofs.C04Claims.
From Coq Require Import ZifyBool.
Open Scope Z_scope.

(* ---- which claim the exclusive publication's BufferClaim holds after a step ---- *)
Lemma eta_unfrag_noclaim m rv l idx tid off msg a : eta_append_unfragmented m rv l idx tid off msg = Ok a -> a_claim a = None.
Proof. unfold eta_append_unfragmented. destruct (unfrag_lengths m (zlen msg)) as [[fl al]| | | |]; cbn [bind]; try discriminate.
  destruct (add32 m off al) as [res| | | |]; cbn [bind]; try discriminate.
  destruct (l_tlen _ <? res); intros H; inversion H; reflexivity. Qed.

Lemma eta_frag_noclaim m rv l idx tid off msg mpl a : eta_append_fragmented m rv l idx tid off msg mpl = Ok a -> a_claim a = None.
Proof. unfold eta_append_fragmented. destruct (frag_required m (zlen msg) mpl) as [req| | | |]; cbn [bind]; try discriminate.
  destruct (add32 m off req) as [res| | | |]; cbn [bind]; try discriminate.
  destruct (l_tlen _ <? res); intros H; inversion H; reflexivity. Qed.

Lemma eta_claim_claim m l idx tid off len a : eta_claim m l idx tid off len = Ok a ->
  a_result a = TERM_APPENDER_FAILED \/ exists fl al, unfrag_lengths m len = Ok (fl, al) /\ a_claim a = Some (idx, off, fl).
Proof. unfold eta_claim. destruct (unfrag_lengths m len) as [[fl al]| | | |] eqn:El; cbn [bind]; try discriminate.
  destruct (add32 m off al) as [res| | | |]; cbn [bind]; try discriminate.
  destruct (l_tlen _ <? res).
  - intros H; inversion H. left. reflexivity.
  - destruct (off + fl <=? l_tlen _); intros H; inversion H. right. exists fl, al. auto. Qed.

Lemma xpub_try_ok_claim m x len act x' p : xpub_try m x len act = (x', Ok p) ->
  exists a, act (xlog x) = Ok a /\ 0 < a_result a /\
            ps_claim (x_pub x') = match a_claim a with Some c => Some c | None => ps_claim (x_pub x) end.
Proof. unfold xpub_try. destruct (ps_closed (x_pub x)); [discriminate|].
  destruct ((x_idx x <? 0) || (2 <? x_idx x)); [discriminate|].
  destruct (add64 m (x_begin x) (x_off x)) as [position| | | |]; try discriminate.
  destruct (position <? l_limit (ps_log (x_pub x))).
  - fold (xlog x). destruct (act (xlog x)) as [a|e| | |]; try discriminate.
    unfold xpub_new_position. destruct (0 <? a_result a) eqn:E.
    + destruct (add64 m (x_begin x) (a_result a)); intros H; inversion H; subst. exists a. split; [reflexivity|]. split; [lia|reflexivity].
    + destruct (add64 m (x_begin x) (l_tlen (a_log a))) as [e| | | |]; try discriminate.
      destruct (max_possible_position (a_log a) <=? e); [discriminate|].
      destruct (next_partition_index m (x_idx x)); discriminate.
  - destruct (back_pressure_status m (ps_log (x_pub x)) position len) as [v|e| | |]; discriminate. Qed.

Theorem xstep_claim_new m rv x n len x' p : xpub_inv n x -> op_ok (xlog x) (Claim len) ->
  xpub_step m rv x (Claim len) = (x', Ok p) -> ps_claim (x_pub x') = Some (x_idx x, x_off x, len + 32).
Proof. intros Hinv Hok Es. cbn [xpub_step] in Es. unfold xpub_claim in Es. destruct (max_payload_length (xlog x) <? len); [discriminate|].
  apply xpub_try_ok_claim in Es. destruct Es as (a & Hact & Hpos & ->).
  destruct (eta_claim_claim _ _ _ _ _ _ _ Hact) as [Hf | (fl & al & Hl & ->)].
  { rewrite Hf in Hpos. unfold TERM_APPENDER_FAILED, GenConsts.TERM_APPENDER_FAILED in Hpos. lia. }
  cbn [op_ok] in Hok. rewrite unfrag_lengths_ok in Hl by lia. inversion Hl; subst. reflexivity. Qed.

Theorem xstep_claim_same m rv x n o x' r : xpub_inv n x -> op_ok (xlog x) o ->
  xpub_step m rv x o = (x', r) -> (forall len p, o = Claim len -> r <> Ok p) -> ps_claim (x_pub x') = ps_claim (x_pub x).
Proof. intros Hinv Hok Es Hnc. destruct (is_xappend o) eqn:Ea.
  2:{ destruct (is_append o) eqn:Eapp.
      - destruct o; try discriminate. cbn [xpub_step] in Es. inversion Es. reflexivity.
      - rewrite (xstep_env m rv x o Eapp) in Es. inversion Es; subst. unfold x_with_pub. cbn [x_pub].
        destruct o; try discriminate; cbn [env_step fst]; try reflexivity.
        + unfold pub_commit, claim_apply. destruct (ps_claim (x_pub x)) as [[[i o0] fl]|] eqn:Ec; [|cbn [fst]; exact Ec].
          destruct (fl - HDR <? zlen body); cbn [fst ps_claim]; first [reflexivity | exact Ec].
        + unfold claim_apply. destruct (ps_claim (x_pub x)) as [[[i o0] fl]|] eqn:Ec; cbn [fst ps_claim]; first [reflexivity | exact Ec]. }
  assert (Hnon : (forall p, r <> Ok p) -> ps_claim (x_pub x') = ps_claim (x_pub x)).
  { intros Hr. destruct (xpub_step_cases m rv x n Hinv o Hok Ea) as [(len & _ & _ & E) | T]; [rewrite E in Es; inversion Es; reflexivity|].
    rewrite Es in T. inversion T; subst; try reflexivity. exfalso. eapply Hr. reflexivity. }
  destruct r as [p|e| | |]; try (apply Hnon; discriminate).
  destruct o; try discriminate; cbn [xpub_step] in Es.
  - unfold xpub_offer in Es. apply xpub_try_ok_claim in Es. destruct Es as (a & Hact & _ & ->).
    destruct (zlen msg <=? max_payload_length (xlog x)).
    + rewrite (eta_unfrag_noclaim _ _ _ _ _ _ _ _ Hact). reflexivity.
    + destruct (max_message_length (xlog x) <? zlen msg); [discriminate|]. rewrite (eta_frag_noclaim _ _ _ _ _ _ _ _ _ Hact). reflexivity.
  - exfalso. apply (Hnc len p eq_refl). reflexivity.
Qed.

(* ---- every partition keeps non-negative extents ---- *)
Lemma xspans_step m rv x n o : xall n x -> all_spans (xlog x) -> op_ok (xlog x) o -> all_spans (xlog (fst (xpub_step m rv x o))).
Proof. intros [Hinv Ht (C1 & C2 & C3) Hal] Hsp Hok. pose proof Hinv as [Hleg Hn Hidx Htid Hbeg Hoff Hcnt].
  pose proof (mod3_range n) as M0. pose proof (legal_tlen _ Hleg) as [Htl _].
  destruct (is_xappend o) eqn:Ea.
  2:{ destruct (is_append o) eqn:Eapp.
      - destruct o; try discriminate. exact Hsp.
      - rewrite (xstep_env m rv x o Eapp). cbn [fst]. unfold x_with_pub, xlog in *. cbn [x_pub].
        assert (Hupd : forall i0 o0 g, (forall e, entry_span (g e) = entry_span e) ->
                  all_spans (set_part (ps_log (x_pub x)) i0 (term_update (part (ps_log (x_pub x)) i0) o0 g))).
        { intros i0 o0 g Hg j Hj. destruct (part_set_part_any (ps_log (x_pub x)) i0 (term_update (part (ps_log (x_pub x)) i0) o0 g) j Hj) as [-> | [-> Hp]]; [apply Hsp; assumption|].
          rewrite Hp. apply term_update_span; [exact Hg|apply Hsp; assumption]. }
        destruct o; try discriminate; cbn [env_step fst]; try exact Hsp.
        + unfold pub_commit, claim_apply. destruct (ps_claim (x_pub x)) as [[[i0 o0] fl]|]; [|exact Hsp].
          destruct (fl - HDR <? zlen body); [exact Hsp|]. cbn [fst ps_log]. apply Hupd. apply commit_entry_span.
        + unfold claim_apply. destruct (ps_claim (x_pub x)) as [[[i0 o0] fl]|]; [|exact Hsp]. cbn [fst ps_log]. apply Hupd. apply abort_entry_span.
        + cbn [with_log ps_log]. intros j Hj.
          destruct (part_set_part_any (ps_log (x_pub x)) (next_index (ps_log (x_pub x))) [] j Hj) as [-> | [-> _]]; [apply Hsp; assumption|constructor]. }
  destruct (xpub_step_cases m rv x n Hinv o Hok Ea) as [(len & _ & _ & E) | T]; [rewrite E; exact Hsp|].
  destruct (xpub_step m rv x o) as [x' r] eqn:Es. cbn [fst].
  assert (Hpad : forall req, all_spans (xbumped (xlog x) (x_idx x) (x_tid x) (x_off x) req)).
  { intros req j Hj. destruct (xbumped_parts (xlog x) (x_idx x) (x_tid x) (x_off x) req ltac:(lia)) as [Hact Hoth].
    destruct (Z.eq_dec j (x_idx x)) as [-> | Hne]; [|rewrite Hoth by assumption; apply Hsp; assumption].
    rewrite Hact. destruct (x_off x <? l_tlen (xlog x)) eqn:Eoff; [|apply Hsp; lia].
    rewrite (term_put_at _ _ _ C2 C3). apply spans_nonneg_app; [assumption|]. constructor; [|constructor].
    cbn [entry_span data_frame f_len]. rewrite FA_eq. pose proof (align_bounds (l_tlen (xlog x) - x_off x) ltac:(lia)). lia. }
  destruct (op_too_long (xlog x) o) eqn:Etl.
  { inversion T; subst; try discriminate; exact Hsp. }
  assert (Hcnt2 : l_count (xlog x) - n = 0) by lia. clear Hcnt.
  inversion T; subst; try exact Hsp.
  - destruct (xpub_step_wrote m rv x n o _ _ Hinv Hal Hok Ea Es) as (es & W1 & W2 & W3 & Hfit).
    rewrite xlog_mk in *. rewrite W3. intros j Hj. destruct (Z.eq_dec j (x_idx x)) as [-> | Hne].
    + rewrite part_set_part_same by lia. rewrite (term_put_at _ _ es C2 C3). apply spans_nonneg_app; [assumption|apply wf_spans; assumption].
    + rewrite part_set_part_other by (auto; lia). unfold put_raw_tail. rewrite part_set_tail. apply Hsp. assumption.
  - rewrite xlog_mk. intros j Hj. change (part (rotated ?a n) j) with (part a j). apply Hpad. assumption.
  - rewrite xlog_mk. apply Hpad.
Qed.

(* ---- the claim rule over whole histories ---- *)
Fixpoint xcommits_in_place (m : mode) (rv : Z -> Z -> list Z -> Z) (x : xpub) (ops : list op) : Prop :=
  match ops with
  | [] => True
  | o :: r => (match o with Commit _ | Abort => claim_in_place (x_pub x) | _ => True end) /\
              xcommits_in_place m rv (fst (xpub_step m rv x o)) r
  end.

Lemma xclaim_rel_step m rv x n o cl x0 r0 n0 off0 :
  xpub_inv n x -> op_ok (xlog x) o -> claim_rel cl (ps_claim (x_pub x)) ->
  claim_rel (claim_of (geom_of (xlog x) n0 off0) cl (xoop_of o) (xpub_obs m x0 x r0)
                      (xpub_obs m x (fst (xpub_step m rv x o)) (snd (xpub_step m rv x o))))
            (ps_claim (x_pub (fst (xpub_step m rv x o)))).
Proof. intros Hinv Hok Hrel. destruct (xpub_step m rv x o) as [x' r] eqn:Es. cbn [fst snd].
  assert (Hcase : (exists len p, o = Claim len /\ r = Ok p) \/ (forall len p, o = Claim len -> r <> Ok p)).
  { destruct o; try (right; intros; discriminate). destruct r as [p| | | |]; try (right; intros; discriminate). left. eauto. }
  destruct Hcase as [(len & p & -> & ->) | Hnc].
  - rewrite (xstep_claim_new m rv x n len x' p Hinv Hok Es).
    destruct (xpub_accept m rv x n (Claim len) x' p Hinv Hok eq_refl Es) as (Hcl & Htl & _).
    pose proof (mod3_range n) as M0. pose proof (xi_idx _ _ Hinv) as Hidx.
    cbn [xoop_of oop_of claim_of]. change (o_res (xpub_obs m x x' (Ok p))) with (@Ok Z p).
    rewrite (xp_pos m x n Hinv x0 r0 Hcl). rewrite (xp_active m x n x0 r0 Hinv). rewrite (xp_pos_off m x n Hinv).
    cbn [op_too_long] in Htl. cbn [op_ok] in Hok.
    unfold claim_rel. split; [|split; [rewrite Hidx; assumption|rewrite HDR_eq; lia]].
    f_equal. f_equal; [f_equal; symmetry; exact Hidx|].
    unfold required, g_mpl, geom_of. cbn [g_mtu]. fold (max_payload_length (xlog x)).
    assert (E : (len <=? max_payload_length (xlog x)) = true) by lia. rewrite E. rewrite HDR_eq. reflexivity.
  - rewrite (xstep_claim_same m rv x n o x' r Hinv Hok Es Hnc).
    assert (E : claim_of (geom_of (xlog x) n0 off0) cl (xoop_of o) (xpub_obs m x0 x r0) (xpub_obs m x x' r) = cl).
    { destruct o; try reflexivity. cbn [xoop_of oop_of claim_of]. change (o_res (xpub_obs m x x' r)) with r.
      destruct r as [p| | | |]; try reflexivity. exfalso. apply (Hnc len p eq_refl). reflexivity. }
    rewrite E. exact Hrel. Qed.

Theorem xoracle_claims_from m rv ops : forall x n cl x0 r0 n0 off0,
  xall n x -> all_spans (xlog x) -> claim_rel cl (ps_claim (x_pub x)) -> hist_ok (xlog x) ops ->
  xclean_before_reuse m rv x ops -> xcommits_in_place m rv x ops ->
  holds_claims_from (geom_of (xlog x) n0 off0) cl (xpub_obs m x0 x r0) (map xoop_of ops) (xpub_trace m rv x ops) = true.
Proof. induction ops as [|o r IH]; intros x n cl x0 r0 n0 off0 Hall Hsp Hrel Hok Hcl Hcp; [reflexivity|].
  inversion Hok as [|? ? Ho Hr]; subst. destruct Hcl as [Hcl1 Hcl2]. destruct Hcp as [Hcp1 Hcp2]. pose proof (xa_inv _ _ Hall) as Hinv.
  pose proof (xclaim_rel_step m rv x n o cl x0 r0 n0 off0 Hinv Ho Hrel) as Hrel'.
  pose proof (xspans_step m rv x n o Hall Hsp Ho) as Hsp'.
  destruct (xall_step m rv x n o Hall Ho Hcl1) as (n' & Hall' & Hg').
  assert (Hwords : match xoop_of o with
                   | OCommit | OAbort => claim_words cl (o_dump (xpub_obs m x (fst (xpub_step m rv x o)) (snd (xpub_step m rv x o))))
                   | _ => true end = true).
  { destruct o; try reflexivity; cbn [xoop_of oop_of].
    - rewrite (xstep_env m rv x (Commit body) eq_refl). cbn [fst snd].
      apply (oracle_claim_words m (x_pub x) (Commit body) cl (snd (env_step (x_pub x) (Commit body)))); auto. right. eexists. reflexivity.
    - rewrite (xstep_env m rv x Abort eq_refl). cbn [fst snd].
      apply (oracle_claim_words m (x_pub x) Abort cl (snd (env_step (x_pub x) Abort))); auto.
    - (* Bulk: nothing happens *) cbn [xpub_step fst snd]. unfold xpub_obs, o_dump. cbn [fst snd]. apply claim_words_same. }
  cbn [map xpub_trace]. destruct (xpub_step m rv x o) as [x' res] eqn:Es. cbn [fst snd] in *. cbn [holds_claims_from].
  rewrite Hwords. cbn [andb]. rewrite <- (geom_of_same _ _ n0 off0 Hg').
  apply (IH x' n'); auto.
  - rewrite (geom_of_same _ _ n0 off0 Hg'). exact Hrel'.
  - eapply Forall_impl; [|exact Hr]. intros a. apply op_ok_same. destruct Hg' as (_ & H & _). exact H.
Qed.

Theorem xoracle_history2 m rv h ops x0 :
  handover_ok h -> handover_aligned h -> hist_ok (handover_log h) ops -> xpub_new (handover_log h) = Ok x0 ->
  xclean_before_reuse m rv x0 ops -> xcommits_in_place m rv x0 ops ->
  holds_history2 (geom_of_handover h) (map xoop_of ops) (xpub_trace m rv x0 ops) = true.
Proof. intros Hh Hal Hok Hnew Hcl Hcp. unfold holds_history2. rewrite (xoracle_history m rv h ops x0 Hh Hal Hok Hnew Hcl). cbn [andb].
  rewrite (xhandover_obs0 m h x0 Hh Hal Hnew). destruct (xhandover_all h x0 Hh Hal Hnew) as (Hall & Hlog & _).
  pose proof (handover_spans h Hh) as Hsp.
  pose proof (xoracle_claims_from m rv ops x0 (h_n0 h) None x0 (Ok 0) (h_n0 h) (h_off0 h) Hall) as H.
  rewrite Hlog in H. apply H; auto.
  unfold xpub_new in Hnew. destruct (index_by_term_count (l_count (handover_log h)) <? 0); [discriminate|]. inversion Hnew. reflexivity. Qed.
