(* C07 with unblock() interleaved (Model/RingAgent.v): the consumer-side agent runs reads and unblock()
   calls as a thread among the producers.  `dead` is a set of producers that take no step any more (a dead
   producer is a thread that is never scheduled again); every other producer may be anywhere inside write
   while unblock scans, between its scan and its store, and afterwards.

   XInv = the invariant of Proofs/RingConc.v for the embedded configuration + what unblock has established
   at each of its program counters, phrased over the present state only:
     - forward scan at index i / backward scan with hit at index i: every slot that starts in front of i and
       belongs to a dead producer is still blank (its length word was read as zero; nobody will ever write it);
     - after the hit: the slot that contains the hit position starts there, or belongs to a live producer;
     - before the store of a negative-branch padding: if the owner of the head slot is dead, the header it
       wrote is still the one unblock read.
   Every step of every thread preserves XInv, the store of the padding header included whenever the slots the
   padding covers belong to dead producers and are uncommitted (`put_safe`; this is what the algorithm assumes
   of producers blocked for longer than its timeout); then the memory after the store is the memory of a
   configuration that satisfies XInv again with the swept claims described as one padding slot (`agent_put`).
   When a covered slot belongs to a live producer nothing of the kind holds: RingAgentLimits.v. *)
Require Import V.Base.MachineInt.
Require Import V.Generated.GenConsts.
Require Import V.Model.LogBase.
Require Import V.Model.Ring.
Require Import V.Model.RingThreads.
Require Import V.Model.RingAgent.
Require Import V.Spec.Fifo.
Require Import V.Proofs.RingArith.
Require Import V.Proofs.RingSeq.
Require Import V.Proofs.RingRender.
Require Import V.Proofs.RingSeqRun.
Require Import V.Proofs.RingConc.
Require Import V.Proofs.RingConcThm.
Require Import V.Proofs.RingUnblock.
Require Import V.Proofs.RingSweep.
Require Import V.Proofs.RingTrace.
Require Import V.Proofs.RingQuiet.
From Coq Require Import ZifyBool Lia.
Open Scope Z_scope.

Definition cs_of (a : astate) : cstate := match a_mode a with AReading cs => cs | _ => idle_cs end.
Definition cfg_of (x : aconfig) : config := mkCfg (ag_ring x) (cs_of (ag_agent x)) (ag_prods x).

Section Agent.
Variable lo : Z.
Variable dead : nat -> Prop.

Definition owner_dead (s : slot) : Prop := exists j, s_owner s = Z.of_nat (S j) /\ dead j.

(* byte index of position p, seen from the consumer position hd (no wrap: only used below the capacity) *)
Definition idx (R : ring) (hd p : Z) : Z := hd mod r_cap R + (p - hd).

Definition scanned_ok (R : ring) (hd upto : Z) : Prop :=
  forall s, In s (r_slots R) -> idx R hd (s_pos s) < upto -> owner_dead s -> blank s.

Definition hit_ok (R : ring) (hd hit : Z) : Prop :=
  exists s, In s (r_slots R) /\ idx R hd (s_pos s) <= hit < idx R hd (s_pos s) + s_span s /\
            (idx R hd (s_pos s) = hit \/ ~ owner_dead s).

Definition put_pre (R : ring) (hd L : Z) : Prop :=
  (forall s1, In s1 (r_slots R) -> s_pos s1 = hd -> owner_dead s1 -> s_len s1 = - L) \/
  (L mod 8 = 0 /\ 8 <= L /\ hd mod r_cap R + L < r_cap R /\ scanned_ok R hd (hd mod r_cap R + L) /\ hit_ok R hd (hd mod r_cap R + L)).

Definition unb_ok (R : ring) (u : upc) : Prop :=
  let cp := r_cap R in
  match u with
  | UReadHead => True
  | UReadTail hd => hd = r_head R
  | UReadLen hd tl => hd = r_head R /\ hd < tl <= r_tail R
  | UScan hd limit i =>
      hd = r_head R /\ hd < r_tail R /\ hd mod cp + 8 <= i /\ (i - hd mod cp) mod 8 = 0 /\ limit <= cp /\
      (i < limit \/ i = hd mod cp + 8) /\ scanned_ok R hd i
  | UBack hd hit j =>
      hd = r_head R /\ hd < r_tail R /\ hd mod cp <= j < hit /\ (hit - hd mod cp) mod 8 = 0 /\ (j - hd mod cp) mod 8 = 0 /\
      hit < cp /\ scanned_ok R hd hit /\ hit_ok R hd hit
  | UPut hd L => hd = r_head R /\ hd < r_tail R /\ 0 < L /\ put_pre R hd L
  end.

Definition agent_ok (x : aconfig) : Prop :=
  match a_mode (ag_agent x) with
  | AUnblocking u => unb_ok (ag_ring x) u
  | APanic => False
  | _ => True
  end.

Definition XInv (x : aconfig) : Prop := Inv lo (cfg_of x) /\ agent_ok x.

(* ---- a producer step leaves the slots of dead producers alone and keeps every slot's place ---- *)
Lemma owner_dead_not i s : ~ dead i -> s_owner s = Z.of_nat (S i) -> ~ owner_dead s.
Proof. intros Hn Ho (j & Ej & Dj). assert (j = i) by lia. subst j. contradiction. Qed.

Lemma pstep_frame m cfg i ps R' ps' e :
  Inv lo cfg -> nth_error (g_prods cfg) i = Some ps -> ~ dead i ->
  pstep m (g_ring cfg) (Z.of_nat (S i)) ps = (R', ps', Some e) ->
  let R := g_ring cfg in
  r_cap R' = r_cap R /\ r_head R' = r_head R /\ r_tail R <= r_tail R' /\
  (forall s', In s' (r_slots R') -> owner_dead s' -> In s' (r_slots R)) /\
  (forall s, In s (r_slots R) -> exists s', In s' (r_slots R') /\ s_pos s' = s_pos s /\ s_span s' = s_span s /\
                                          s_owner s' = s_owner s /\ (owner_dead s -> s' = s)).
Proof.
  intros HI Hi Hnd Hstep. cbn zeta.
  destruct (pstep_cases lo m cfg i ps R' ps' e HI Hi Hstep) as (typ & body & Aw & Ep & Ec & Eh & Hcase).
  cbn zeta in Hcase. split; [exact Ec |]. split; [exact Eh |].
  pose proof (rq_of_bounds body) as (Rq8 & _).
  destruct (i_prods _ _ HI i ps Hi) as (_ & _ & Pex). pose proof (i_tiled _ _ HI) as Itl.
  pose proof Aw as (Aw1 & _).
  assert (SAME : r_slots R' = r_slots (g_ring cfg) ->
            (forall s', In s' (r_slots R') -> owner_dead s' -> In s' (r_slots (g_ring cfg))) /\
            (forall s, In s (r_slots (g_ring cfg)) -> exists s', In s' (r_slots R') /\ s_pos s' = s_pos s /\ s_span s' = s_span s /\
                                          s_owner s' = s_owner s /\ (owner_dead s -> s' = s))).
  { intros E. rewrite E. split; [auto |]. intros s Hs. exists s. auto. }
  (* a store into the slot s0 this producer owns *)
  assert (STORE : forall p f s0, In s0 (expect (Z.of_nat (S i)) ps) -> s_pos s0 = p ->
            (forall s, s_pos (f s) = s_pos s /\ s_span (f s) = s_span s /\ s_owner (f s) = s_owner s) ->
            r_slots R' = upd_slot (r_slots (g_ring cfg)) p f ->
            (forall s', In s' (r_slots R') -> owner_dead s' -> In s' (r_slots (g_ring cfg))) /\
            (forall s, In s (r_slots (g_ring cfg)) -> exists s', In s' (r_slots R') /\ s_pos s' = s_pos s /\ s_span s' = s_span s /\
                                          s_owner s' = s_owner s /\ (owner_dead s -> s' = s))).
  { intros p f s0 Hin0 Hp0 Hf E. rewrite E. destruct (expect_owner _ _ _ Hin0) as (O0 & _). split.
    - intros s' Hs' Hd. destruct (upd_slot_in _ _ _ _ Hs') as [H | (sx & Hsx & Hpx & ->)]; [exact H |].
      exfalso. destruct (Hf sx) as (_ & _ & Fo).
      assert (sx = s0) by (eapply tiled_pos_unique; [exact Itl | exact Hsx | apply Pex; exact Hin0 | lia]). subst sx.
      apply (owner_dead_not i (f s0) Hnd); [rewrite Fo; exact O0 | exact Hd].
    - intros s Hs. destruct (Z.eq_dec (s_pos s) p) as [Ep0 | Np].
      + assert (s = s0) by (eapply tiled_pos_unique; [exact Itl | exact Hs | apply Pex; exact Hin0 | lia]). subst s.
        destruct (Hf s0) as (F1 & F2 & F3). exists (f s0). split.
        { destruct (upd_slot_split _ _ _ _ p f Itl s0 Hs Ep0) as (pre & suf & _ & E2). rewrite E2. apply in_or_app. right. left. reflexivity. }
        repeat split; auto. intros Hd. exfalso. apply (owner_dead_not i s0 Hnd O0 Hd).
      + exists s. split; [apply upd_slot_other; assumption |]. auto. }
  destruct Hcase as [(Q & Et & Es & Ek & Er & A1 & A2) | [(Q & ER & Eps & A1) | [(hd & tl & pd & t2 & Epc & Ee & Hne & ER & Eps) |
      [(hd & tl & pd & Epc & Et & Hpd & Hfit & Ee & ER & Eps) | [(tl & pd & Epc & Hm & Ee & ER & Eps) | [(p & Epc & Hm & Ee & ER & Eps) |
      [(p & Epc & Ee & ER & Eps) | (p & Epc & Hm & Ee & ER & Eps)]]]]]]].
  - split; [lia | apply SAME; exact Es].
  - subst R'. split; [lia | apply SAME; reflexivity].
  - subst R'. split; [lia | apply SAME; reflexivity].
  - subst R'. cbn [set_slots set_tail r_tail r_slots]. split; [lia |]. split.
    + intros s' Hs' Hd. apply in_app_or in Hs'. destruct Hs' as [H | H]; [exact H |]. exfalso.
      apply (owner_dead_not i s' Hnd); [| exact Hd]. unfold claim_slots in H. destruct (pd =? 0); cbn [app In] in H;
        repeat destruct H as [H | H]; try contradiction; subst s'; reflexivity.
    + intros s Hs. exists s. split; [apply in_or_app; left; exact Hs | auto].
  - subst R'. cbn [set_slots r_tail r_slots]. split; [lia |]. unfold put_hdr.
    apply (STORE tl (set_hdr pd PAD) (mkSlot tl pd 0 0 [] (Z.of_nat (S i)) (- 1 - Z.of_nat (p_k ps)))); [| reflexivity | intros s; repeat split | reflexivity].
    unfold expect. rewrite Aw1, Epc. left. reflexivity.
  - subst R'. cbn [set_slots r_tail r_slots]. split; [lia |]. unfold put_hdr.
    apply (STORE p (set_hdr (- rl_of body) typ) (mkSlot p (rq_of body) 0 0 [] (Z.of_nat (S i)) (Z.of_nat (p_k ps)))); [| reflexivity | intros s; repeat split | reflexivity].
    unfold expect. rewrite Aw1, Epc. left. reflexivity.
  - subst R'. cbn [set_slots r_tail r_slots]. split; [lia |].
    apply (STORE p (set_body body) (mkSlot p (rq_of body) (- rl_of body) typ [] (Z.of_nat (S i)) (Z.of_nat (p_k ps)))); [| reflexivity | intros s; repeat split | reflexivity].
    unfold expect. rewrite Aw1, Epc. left. reflexivity.
  - subst R'. cbn [set_slots r_tail r_slots]. split; [lia |].
    apply (STORE p (set_len (rl_of body)) (mkSlot p (rq_of body) (- rl_of body) typ body (Z.of_nat (S i)) (Z.of_nat (p_k ps)))); [| reflexivity | intros s; repeat split | reflexivity].
    unfold expect. rewrite Aw1, Epc. left. reflexivity.
Qed.

Lemma unb_ok_frame R R' u :
  r_cap R' = r_cap R -> r_head R' = r_head R -> r_tail R <= r_tail R' ->
  (forall s', In s' (r_slots R') -> owner_dead s' -> In s' (r_slots R)) ->
  (forall s, In s (r_slots R) -> exists s', In s' (r_slots R') /\ s_pos s' = s_pos s /\ s_span s' = s_span s /\
                                          s_owner s' = s_owner s /\ (owner_dead s -> s' = s)) ->
  unb_ok R u -> unb_ok R' u.
Proof.
  intros Ec Eh Et Hback Hfwd.
  assert (SC : forall hd upto, scanned_ok R hd upto -> scanned_ok R' hd upto).
  { intros hd upto H s' Hs' Hi Hd. unfold idx in *. rewrite Ec in Hi. apply (H s' (Hback s' Hs' Hd) Hi Hd). }
  assert (HO : forall hd hit, hit_ok R hd hit -> hit_ok R' hd hit).
  { intros hd hit (s & Hs & Hr & Hc). destruct (Hfwd s Hs) as (s' & Hs' & Ep & Esp & Eo & Hsame).
    exists s'. unfold idx in *. rewrite Ec, Ep, Esp. split; [exact Hs' |]. split; [exact Hr |].
    destruct Hc as [Hc | Hc]; [left; exact Hc | right]. intros (j & Ej & Dj). apply Hc. exists j. split; [congruence | exact Dj]. }
  unfold unb_ok. rewrite Ec, Eh. destruct u; auto.
  - intros (A & B). split; [exact A | lia].
  - intros (A & B & C & D & E & F & G).
    split; [exact A |]. split; [lia |]. split; [exact C |]. split; [exact D |]. split; [exact E |]. split; [exact F | apply SC; exact G].
  - intros (A & B & C & D & E & F & G & H).
    split; [exact A |]. split; [lia |]. split; [exact C |]. split; [exact D |]. split; [exact E |]. split; [exact F |].
    split; [apply SC; exact G | apply HO; exact H].
  - intros (A & B & C & D). split; [exact A |]. split; [lia |]. split; [exact C |].
    destruct D as [D | (D1 & D2 & D3 & D4 & D5)].
    + left. intros s1 Hs1 Hp Hd. apply (D s1 (Hback s1 Hs1 Hd) Hp Hd).
    + right. unfold put_pre. rewrite Ec. split; [exact D1 |]. split; [exact D2 |]. split; [exact D3 |]. split; [apply SC; exact D4 | apply HO; exact D5].
Qed.
End Agent.
