(* C07 with unblock() interleaved (Model/RingAgent.v): the consumer-side agent runs reads and unblock()
   calls as a thread among the producers.  `dead` is a set of producers that take no step any more (a dead
   producer is a thread that is never scheduled again); every other producer may be anywhere inside write
   while unblock scans, between its scan and its store, and afterwards.

   XInv = the invariant of Proofs/RingConc.v for the embedded configuration + what unblock has established
   at each of its program counters, phrased over the present state only:
     - forward scan at index i / backward scan with hit at index i: every slot that starts in front of i and
       belongs to a dead producer is still blank (its length word was read as zero; nobody will ever write it);
     - after the hit: the slot that contains the hit position starts there, or belongs to a live producer;
     - before the store of a negative-branch padding: if the owner of the head slot is dead, the header it
       wrote is still the one unblock read.
   Every step of every thread preserves XInv, the store of the padding header included whenever the slots the
   padding covers belong to dead producers and are uncommitted (`put_safe`; this is what the algorithm assumes
   of producers blocked for longer than its timeout); then the memory after the store is the memory of a
   configuration that satisfies XInv again with the swept claims described as one padding slot (`agent_put`).
   When a covered slot belongs to a live producer nothing of the kind holds: RingAgentLimits.v. *)
Require Import V.Base.MachineInt.
Require Import V.Generated.GenConsts.
Require Import V.Model.LogBase.
Require Import V.Model.Ring.
Require Import V.Model.RingThreads.
Require Import V.Model.RingAgent.
Require Import V.Spec.Fifo.
Require Import V.Proofs.RingArith.
Require Import V.Proofs.RingSeq.
Require Import V.Proofs.RingRender.
Require Import V.Proofs.RingSeqRun.
Require Import V.Proofs.RingConc.
Require Import V.Proofs.RingConcThm.
Require Import V.Proofs.RingUnblock.
Require Import V.Proofs.RingSweep.
Require Import V.Proofs.RingTrace.
Require Import V.Proofs.RingQuiet.
From Coq Require Import ZifyBool Lia.
Open Scope Z_scope.

Definition cs_of (a : astate) : cstate := match a_mode a with AReading cs => cs | _ => idle_cs end.
Definition cfg_of (x : aconfig) : config := mkCfg (ag_ring x) (cs_of (ag_agent x)) (ag_prods x).

Section Agent.
Variable lo : Z.
Variable dead : nat -> Prop.

Definition owner_dead (s : slot) : Prop := exists j, s_owner s = Z.of_nat (S j) /\ dead j.

(* byte index of position p, seen from the consumer position hd (no wrap: only used below the capacity) *)
Definition idx (R : ring) (hd p : Z) : Z := hd mod r_cap R + (p - hd).

Definition scanned_ok (R : ring) (hd upto : Z) : Prop :=
  forall s, In s (r_slots R) -> idx R hd (s_pos s) < upto -> owner_dead s -> blank s.

Definition hit_ok (R : ring) (hd hit : Z) : Prop :=
  exists s, In s (r_slots R) /\ idx R hd (s_pos s) <= hit < idx R hd (s_pos s) + s_span s /\
            (idx R hd (s_pos s) = hit \/ ~ owner_dead s).

Definition put_pre (R : ring) (hd L : Z) : Prop :=
  (forall s1, In s1 (r_slots R) -> s_pos s1 = hd -> owner_dead s1 -> s_len s1 = - L) \/
  (L mod 8 = 0 /\ 8 <= L /\ hd mod r_cap R + L < r_cap R /\ scanned_ok R hd (hd mod r_cap R + L) /\ hit_ok R hd (hd mod r_cap R + L)).

Definition unb_ok (R : ring) (u : upc) : Prop :=
  let cp := r_cap R in
  match u with
  | UReadHead => True
  | UReadTail hd => hd = r_head R
  | UReadLen hd tl => hd = r_head R /\ hd < tl <= r_tail R
  | UScan hd limit i =>
      hd = r_head R /\ hd < r_tail R /\ hd mod cp + 8 <= i /\ (i - hd mod cp) mod 8 = 0 /\ limit <= cp /\
      (i < limit \/ i = hd mod cp + 8) /\ scanned_ok R hd i
  | UBack hd hit j =>
      hd = r_head R /\ hd < r_tail R /\ hd mod cp <= j < hit /\ (hit - hd mod cp) mod 8 = 0 /\ (j - hd mod cp) mod 8 = 0 /\
      hit < cp /\ scanned_ok R hd hit /\ hit_ok R hd hit
  | UPut hd L => hd = r_head R /\ hd < r_tail R /\ 0 < L /\ put_pre R hd L
  end.

Definition agent_ok (x : aconfig) : Prop :=
  match a_mode (ag_agent x) with
  | AUnblocking u => unb_ok (ag_ring x) u
  | APanic => False
  | _ => True
  end.

Definition XInv (x : aconfig) : Prop := Inv lo (cfg_of x) /\ agent_ok x.

(* ---- a producer step leaves the slots of dead producers alone and keeps every slot's place ---- *)
Lemma owner_dead_not i s : ~ dead i -> s_owner s = Z.of_nat (S i) -> ~ owner_dead s.
Proof. intros Hn Ho (j & Ej & Dj). assert (j = i) by lia. subst j. contradiction. Qed.

Lemma pstep_frame m cfg i ps R' ps' e :
  Inv lo cfg -> nth_error (g_prods cfg) i = Some ps -> ~ dead i ->
  pstep m (g_ring cfg) (Z.of_nat (S i)) ps = (R', ps', Some e) ->
  let R := g_ring cfg in
  r_cap R' = r_cap R /\ r_head R' = r_head R /\ r_tail R <= r_tail R' /\
  (forall s', In s' (r_slots R') -> owner_dead s' -> In s' (r_slots R)) /\
  (forall s, In s (r_slots R) -> exists s', In s' (r_slots R') /\ s_pos s' = s_pos s /\ s_span s' = s_span s /\
                                          s_owner s' = s_owner s /\ (owner_dead s -> s' = s)).
Proof.
  intros HI Hi Hnd Hstep. cbn zeta.
  destruct (pstep_cases lo m cfg i ps R' ps' e HI Hi Hstep) as (typ & body & Aw & Ep & Ec & Eh & Hcase).
  cbn zeta in Hcase. split; [exact Ec |]. split; [exact Eh |].
  pose proof (rq_of_bounds body) as (Rq8 & _).
  destruct (i_prods _ _ HI i ps Hi) as (_ & _ & Pex). pose proof (i_tiled _ _ HI) as Itl.
  pose proof Aw as (Aw1 & _).
  assert (SAME : r_slots R' = r_slots (g_ring cfg) ->
            (forall s', In s' (r_slots R') -> owner_dead s' -> In s' (r_slots (g_ring cfg))) /\
            (forall s, In s (r_slots (g_ring cfg)) -> exists s', In s' (r_slots R') /\ s_pos s' = s_pos s /\ s_span s' = s_span s /\
                                          s_owner s' = s_owner s /\ (owner_dead s -> s' = s))).
  { intros E. rewrite E. split; [auto |]. intros s Hs. exists s. auto. }
  (* a store into the slot s0 this producer owns *)
  assert (STORE : forall p f s0, In s0 (expect (Z.of_nat (S i)) ps) -> s_pos s0 = p ->
            (forall s, s_pos (f s) = s_pos s /\ s_span (f s) = s_span s /\ s_owner (f s) = s_owner s) ->
            r_slots R' = upd_slot (r_slots (g_ring cfg)) p f ->
            (forall s', In s' (r_slots R') -> owner_dead s' -> In s' (r_slots (g_ring cfg))) /\
            (forall s, In s (r_slots (g_ring cfg)) -> exists s', In s' (r_slots R') /\ s_pos s' = s_pos s /\ s_span s' = s_span s /\
                                          s_owner s' = s_owner s /\ (owner_dead s -> s' = s))).
  { intros p f s0 Hin0 Hp0 Hf E. rewrite E. destruct (expect_owner _ _ _ Hin0) as (O0 & _). split.
    - intros s' Hs' Hd. destruct (upd_slot_in _ _ _ _ Hs') as [H | (sx & Hsx & Hpx & ->)]; [exact H |].
      exfalso. destruct (Hf sx) as (_ & _ & Fo).
      assert (sx = s0) by (eapply tiled_pos_unique; [exact Itl | exact Hsx | apply Pex; exact Hin0 | lia]). subst sx.
      apply (owner_dead_not i (f s0) Hnd); [rewrite Fo; exact O0 | exact Hd].
    - intros s Hs. destruct (Z.eq_dec (s_pos s) p) as [Ep0 | Np].
      + assert (s = s0) by (eapply tiled_pos_unique; [exact Itl | exact Hs | apply Pex; exact Hin0 | lia]). subst s.
        destruct (Hf s0) as (F1 & F2 & F3). exists (f s0). split.
        { destruct (upd_slot_split _ _ _ _ p f Itl s0 Hs Ep0) as (pre & suf & _ & E2). rewrite E2. apply in_or_app. right. left. reflexivity. }
        repeat split; auto. intros Hd. exfalso. apply (owner_dead_not i s0 Hnd O0 Hd).
      + exists s. split; [apply upd_slot_other; assumption |]. auto. }
  destruct Hcase as [(Q & Et & Es & Ek & Er & A1 & A2) | [(Q & ER & Eps & A1) | [(hd & tl & pd & t2 & Epc & Ee & Hne & ER & Eps) |
      [(hd & tl & pd & Epc & Et & Hpd & Hfit & Ee & ER & Eps) | [(tl & pd & Epc & Hm & Ee & ER & Eps) | [(p & Epc & Hm & Ee & ER & Eps) |
      [(p & Epc & Ee & ER & Eps) | (p & Epc & Hm & Ee & ER & Eps)]]]]]]].
  - split; [lia | apply SAME; exact Es].
  - subst R'. split; [lia | apply SAME; reflexivity].
  - subst R'. split; [lia | apply SAME; reflexivity].
  - subst R'. cbn [set_slots set_tail r_tail r_slots]. split; [lia |]. split.
    + intros s' Hs' Hd. apply in_app_or in Hs'. destruct Hs' as [H | H]; [exact H |]. exfalso.
      apply (owner_dead_not i s' Hnd); [| exact Hd]. unfold claim_slots in H. destruct (pd =? 0); cbn [app In] in H;
        repeat destruct H as [H | H]; try contradiction; subst s'; reflexivity.
    + intros s Hs. exists s. split; [apply in_or_app; left; exact Hs | auto].
  - subst R'. cbn [set_slots r_tail r_slots]. split; [lia |]. unfold put_hdr.
    apply (STORE tl (set_hdr pd PAD) (mkSlot tl pd 0 0 [] (Z.of_nat (S i)) (- 1 - Z.of_nat (p_k ps)))); [| reflexivity | intros s; repeat split | reflexivity].
    unfold expect. rewrite Aw1, Epc. left. reflexivity.
  - subst R'. cbn [set_slots r_tail r_slots]. split; [lia |]. unfold put_hdr.
    apply (STORE p (set_hdr (- rl_of body) typ) (mkSlot p (rq_of body) 0 0 [] (Z.of_nat (S i)) (Z.of_nat (p_k ps)))); [| reflexivity | intros s; repeat split | reflexivity].
    unfold expect. rewrite Aw1, Epc. left. reflexivity.
  - subst R'. cbn [set_slots r_tail r_slots]. split; [lia |].
    apply (STORE p (set_body body) (mkSlot p (rq_of body) (- rl_of body) typ [] (Z.of_nat (S i)) (Z.of_nat (p_k ps)))); [| reflexivity | intros s; repeat split | reflexivity].
    unfold expect. rewrite Aw1, Epc. left. reflexivity.
  - subst R'. cbn [set_slots r_tail r_slots]. split; [lia |].
    apply (STORE p (set_len (rl_of body)) (mkSlot p (rq_of body) (- rl_of body) typ body (Z.of_nat (S i)) (Z.of_nat (p_k ps)))); [| reflexivity | intros s; repeat split | reflexivity].
    unfold expect. rewrite Aw1, Epc. left. reflexivity.
Qed.

(* where the slots of the new ring come from *)
Lemma pstep_origin m cfg i ps R' ps' e :
  Inv lo cfg -> nth_error (g_prods cfg) i = Some ps ->
  pstep m (g_ring cfg) (Z.of_nat (S i)) ps = (R', ps', Some e) ->
  forall s', In s' (r_slots R') ->
    (exists s, In s (r_slots (g_ring cfg)) /\ s_pos s = s_pos s' /\ s_owner s = s_owner s') \/ r_tail (g_ring cfg) <= s_pos s'.
Proof.
  intros HI Hi Hstep.
  destruct (pstep_cases lo m cfg i ps R' ps' e HI Hi Hstep) as (typ & body & Aw & Ep & Ec & Eh & Hcase).
  cbn zeta in Hcase.
  assert (SAME : r_slots R' = r_slots (g_ring cfg) -> forall s', In s' (r_slots R') ->
            (exists s, In s (r_slots (g_ring cfg)) /\ s_pos s = s_pos s' /\ s_owner s = s_owner s') \/ r_tail (g_ring cfg) <= s_pos s').
  { intros E s' Hs'. rewrite E in Hs'. left. exists s'. auto. }
  assert (STORE : forall p f, (forall s, s_pos (f s) = s_pos s /\ s_owner (f s) = s_owner s) ->
            r_slots R' = upd_slot (r_slots (g_ring cfg)) p f -> forall s', In s' (r_slots R') ->
            (exists s, In s (r_slots (g_ring cfg)) /\ s_pos s = s_pos s' /\ s_owner s = s_owner s') \/ r_tail (g_ring cfg) <= s_pos s').
  { intros p f Hf E s' Hs'. rewrite E in Hs'. left. destruct (upd_slot_in _ _ _ _ Hs') as [H | (sx & Hsx & _ & ->)].
    - exists s'. auto.
    - exists sx. destruct (Hf sx) as (A & B). auto. }
  destruct Hcase as [(Q & Et & Es & Ek & Er & A1 & A2) | [(Q & ER & Eps & A1) | [(hd & tl & pd & t2 & Epc & Ee & Hne & ER & Eps) |
      [(hd & tl & pd & Epc & Et & Hpd & Hfit & Ee & ER & Eps) | [(tl & pd & Epc & Hm & Ee & ER & Eps) | [(p & Epc & Hm & Ee & ER & Eps) |
      [(p & Epc & Ee & ER & Eps) | (p & Epc & Hm & Ee & ER & Eps)]]]]]]].
  - apply SAME. exact Es.
  - subst R'. apply SAME. reflexivity.
  - subst R'. apply SAME. reflexivity.
  - subst R'. cbn [set_slots set_tail r_slots]. intros s' Hs'. apply in_app_or in Hs'. destruct Hs' as [H | H]; [left; exists s'; auto | right].
    rewrite Et. unfold claim_slots in H. destruct (pd =? 0); cbn [app In] in H; repeat destruct H as [H | H]; try contradiction; subst s'; cbn [s_pos]; lia.
  - subst R'. apply (STORE tl (set_hdr pd PAD)); [intros s; split; reflexivity | reflexivity].
  - subst R'. apply (STORE p (set_hdr (- rl_of body) typ)); [intros s; split; reflexivity | reflexivity].
  - subst R'. apply (STORE p (set_body body)); [intros s; split; reflexivity | reflexivity].
  - subst R'. apply (STORE p (set_len (rl_of body))); [intros s; split; reflexivity | reflexivity].
Qed.

Lemma unb_ok_frame R R' u :
  r_cap R' = r_cap R -> r_head R' = r_head R -> r_tail R <= r_tail R' ->
  (forall s', In s' (r_slots R') -> owner_dead s' -> In s' (r_slots R)) ->
  (forall s, In s (r_slots R) -> exists s', In s' (r_slots R') /\ s_pos s' = s_pos s /\ s_span s' = s_span s /\
                                          s_owner s' = s_owner s /\ (owner_dead s -> s' = s)) ->
  unb_ok R u -> unb_ok R' u.
Proof.
  intros Ec Eh Et Hback Hfwd.
  assert (SC : forall hd upto, scanned_ok R hd upto -> scanned_ok R' hd upto).
  { intros hd upto H s' Hs' Hi Hd. unfold idx in *. rewrite Ec in Hi. apply (H s' (Hback s' Hs' Hd) Hi Hd). }
  assert (HO : forall hd hit, hit_ok R hd hit -> hit_ok R' hd hit).
  { intros hd hit (s & Hs & Hr & Hc). destruct (Hfwd s Hs) as (s' & Hs' & Ep & Esp & Eo & Hsame).
    exists s'. unfold idx in *. rewrite Ec, Ep, Esp. split; [exact Hs' |]. split; [exact Hr |].
    destruct Hc as [Hc | Hc]; [left; exact Hc | right]. intros (j & Ej & Dj). apply Hc. exists j. split; [congruence | exact Dj]. }
  unfold unb_ok. rewrite Ec, Eh. destruct u; auto.
  - intros (A & B). split; [exact A | lia].
  - intros (A & B & C & D & E & F & G).
    split; [exact A |]. split; [lia |]. split; [exact C |]. split; [exact D |]. split; [exact E |]. split; [exact F | apply SC; exact G].
  - intros (A & B & C & D & E & F & G & H).
    split; [exact A |]. split; [lia |]. split; [exact C |]. split; [exact D |]. split; [exact E |]. split; [exact F |].
    split; [apply SC; exact G | apply HO; exact H].
  - intros (A & B & C & D). split; [exact A |]. split; [lia |]. split; [exact C |].
    destruct D as [D | (D1 & D2 & D3 & D4 & D5)].
    + left. intros s1 Hs1 Hp Hd. apply (D s1 (Hback s1 Hs1 Hd) Hp Hd).
    + right. unfold put_pre. rewrite Ec. split; [exact D1 |]. split; [exact D2 |]. split; [exact D3 |]. split; [apply SC; exact D4 | apply HO; exact D5].
Qed.

(* ================================================================== unblock's own steps *)
Section Steps.
Variables (R : ring) (prods : list pstate).
Hypothesis HI : Inv lo (qcfg R prods).

Let cp := r_cap R.
Let hd := r_head R.
Let ci := hd mod cp.

Lemma st_cap : cap_ok cp. Proof. exact (i_cap _ _ HI). Qed.
Lemma st_tiled : tiled cp hd (r_tail R) (r_slots R). Proof. exact (i_tiled _ _ HI). Qed.
Lemma st_size : r_tail R - hd <= cp. Proof. exact (i_size _ _ HI). Qed.
Lemma st_ci : 0 <= ci < cp /\ ci mod 8 = 0.
Proof. split; [apply mod_range; exact st_cap | apply idx_mod8; [exact st_cap | exact (i_h8 _ _ HI)]]. Qed.

Lemma slot_geo s : In s (r_slots R) -> hd <= s_pos s /\ s_pos s + s_span s <= r_tail R /\ geo cp s.
Proof. intros Hs. pose proof (tiled_range _ _ _ _ st_tiled) as Rg. rewrite Forall_forall in Rg. exact (Rg s Hs). Qed.

Lemma slot_idx s : In s (r_slots R) ->
  ci <= idx R hd (s_pos s) /\ (idx R hd (s_pos s) - ci) mod 8 = 0 /\
  ((idx R hd (s_pos s) + s_span s <= cp /\ s_pos s mod cp = idx R hd (s_pos s)) \/
   (cp <= idx R hd (s_pos s) /\ s_pos s mod cp = idx R hd (s_pos s) - cp /\ idx R hd (s_pos s) - cp + s_span s <= ci)).
Proof. intros Hs. destruct (slot_geo s Hs) as (A & B & (G0 & G8 & Gs & Gs8 & Gstr & _)).
  pose proof (cap_ok_range _ st_cap) as Hcr. pose proof st_size as Hsz. fold cp in Gstr.
  unfold idx. fold cp hd ci. split; [lia |]. split.
  { replace (ci + (s_pos s - hd) - ci) with (s_pos s - hd) by lia. rewrite Zminus_mod, G8. pose proof (i_h8 _ _ HI) as H8. cbn [qcfg g_ring] in H8. fold hd in H8. rewrite H8. reflexivity. }
  destruct (mod_window cp hd (s_pos s) ltac:(lia) ltac:(lia)) as [(E & L) | (E & L)]; fold ci in E, L.
  - left. split; [lia | exact E].
  - right. split; [lia |]. split; [exact E | lia]. Qed.

Lemma word_start s : In s (r_slots R) -> idx R hd (s_pos s) < cp -> word_at (render R) (idx R hd (s_pos s)) = s_len s.
Proof. intros Hs Hi. destruct (slot_idx s Hs) as (_ & _ & [(_ & E) | (L & _)]); [| lia]. rewrite <- E.
  destruct (in_split _ _ Hs) as (pre & suf & Es).
  exact (word_len lo (qcfg R prods) HI eq_refl pre s suf Es). Qed.

Lemma word_blank_in s i : In s (r_slots R) -> blank s -> idx R hd (s_pos s) < cp ->
  idx R hd (s_pos s) <= i < idx R hd (s_pos s) + s_span s -> word_at (render R) i = 0.
Proof. intros Hs Hb Hi Hr. destruct (slot_idx s Hs) as (_ & _ & [(_ & E) | (L & _)]); [| lia].
  destruct (in_split _ _ Hs) as (pre & suf & Es).
  apply (word_blank lo (qcfg R prods) HI eq_refl pre s suf i Es Hb). cbn [qcfg g_ring]. fold cp. rewrite E. exact Hr. Qed.

(* a non-zero word of the data area at or behind the consumer index lies in a slot that did not wrap *)
Lemma word_nonzero i : ci + 8 <= i <= cp -> word_at (render R) i <> 0 ->
  i < cp /\ exists s, In s (r_slots R) /\ idx R hd (s_pos s) <= i < idx R hd (s_pos s) + s_span s /\ idx R hd (s_pos s) + s_span s <= cp.
Proof. intros Hi Hw. pose proof (cap_ok_range _ st_cap) as Hcr.
  destruct (existsb (fun s => (s_pos s mod cp <=? i) && (i <? s_pos s mod cp + s_span s)) (r_slots R)) eqn:Ex.
  - apply existsb_exists in Ex. destruct Ex as (s & Hs & Hr).
    destruct (slot_idx s Hs) as (_ & _ & [(L & E) | (L & E & W)]).
    + split; [lia |]. exists s. split; [exact Hs |]. split; [lia | exact L].
    + exfalso. lia.
  - exfalso. apply Hw. apply (word_outside lo (qcfg R prods) HI eq_refl); cbn [qcfg g_ring]; fold cp.
    + destruct st_ci. lia.
    + unfold TAIL_OFF, GenConsts.RB_TAIL_POSITION_OFFSET. lia.
    + intros s Hs Hr. assert (X : existsb (fun s => (s_pos s mod cp <=? i) && (i <? s_pos s mod cp + s_span s)) (r_slots R) = true).
      { apply existsb_exists. exists s. split; [exact Hs | lia]. }
      congruence. Qed.

Lemma head_slot : hd < r_tail R -> exists s1 rest, r_slots R = s1 :: rest /\ s_pos s1 = hd.
Proof. intros Hlt. pose proof st_tiled as T. destruct (r_slots R) as [| s1 rest]; [inversion T; lia |].
  inversion T; subst. exists s1, rest. auto. Qed.

Lemma slot_len_cases s : In s (r_slots R) -> 0 < s_len s \/ (s_len s < 0 /\ s_span s = align (- s_len s) 8) \/ blank s.
Proof. intros Hs. exact (slot_state lo (qcfg R prods) s HI Hs). Qed.

(* one access of unblock: either it goes on (same ring, the next pc is justified), or it returns false (same ring),
   or it is the store of the padding header *)
Lemma ustep_ok u R' nxt e : unb_ok R u -> ustep R u = (R', nxt, e) ->
  match nxt with
  | inl u' => R' = R /\ unb_ok R u'
  | inr false => R' = R
  | inr true => exists h L, u = UPut h L /\ R' = set_slots R (put_hdr (r_slots R) h L PAD)
  end.
Proof.
  pose proof st_cap as Hc. pose proof (cap_ok_range _ Hc) as Hcr. pose proof st_ci as (Hci & Hci8).
  pose proof st_size as Hsz. pose proof (tiled_le _ _ _ _ st_tiled) as Hle.
  assert (Hci8' : ci + 8 <= cp).
  { pose proof (cap_ok_mod8 _ Hc) as C8. pose proof (Z.div_mod cp 8 ltac:(lia)). pose proof (Z.div_mod ci 8 ltac:(lia)). lia. }
  destruct u as [| h | h tl | h limit i | h hit j | h L]; cbn [ustep unb_ok]; fold cp.
  - intros _ E. injection E as <- <- <-. split; [reflexivity |]. cbn [unb_ok]. reflexivity.
  - intros -> E. fold hd in E. destruct (r_tail R =? hd) eqn:Et; injection E as <- <- <-; [reflexivity |].
    split; [reflexivity |]. cbn [unb_ok]. fold hd. split; [reflexivity | lia].
  - intros (-> & Htl) E. fold hd in E, Htl. rewrite !mask_idx_mod in E by exact Hc. fold ci in E.
    destruct (head_slot ltac:(lia)) as (s1 & rest & Es & Ep1).
    assert (Hs1 : In s1 (r_slots R)) by (rewrite Es; left; reflexivity).
    assert (Hi1 : idx R hd (s_pos s1) = ci) by (unfold idx; fold cp hd ci; lia).
    pose proof (word_start s1 Hs1 ltac:(lia)) as W1. rewrite Hi1 in W1. rewrite W1 in E.
    destruct (slot_len_cases s1 Hs1) as [Pos | [(Neg & Nsp) | Bl]].
    + replace (s_len s1 <? 0) with false in E by lia. replace (s_len s1 =? 0) with false in E by lia. injection E as <- <- <-. reflexivity.
    + replace (s_len s1 <? 0) with true in E by lia. injection E as <- <- <-. split; [reflexivity |]. cbn [unb_ok]. fold hd.
      destruct (slot_geo s1 Hs1) as (_ & _ & (_ & _ & _ & _ & Gstr & _)). pose proof (align8_bounds (- s_len s1)). pose proof (mod_range cp (s_pos s1) Hc). fold cp in Gstr.
      rewrite wrap32_id by (apply in_i32_small; unfold two31, two30 in *; lia).
      split; [reflexivity |]. split; [lia |]. split; [lia |]. left.
      intros s Hs Hp _. assert (s = s1) by (eapply tiled_pos_unique; [exact st_tiled | exact Hs | exact Hs1 | lia]). subst s. lia.
    + destruct Bl as (B1 & B2 & B3). rewrite B1 in E. cbn [Z.ltb Z.eqb Z.compare] in E. injection E as <- <- <-. split; [reflexivity |].
      cbn [unb_ok]. fold cp hd ci. rewrite AL_eq. pose proof (mod_range cp tl Hc).
      split; [reflexivity |]. split; [lia |]. split; [lia |].
      split; [replace (ci + 8 - ci) with 8 by lia; reflexivity |].
      split; [destruct (tl mod cp >? ci); lia |]. split; [right; reflexivity |].
      intros s Hs Hi _. destruct (slot_idx s Hs) as (A & A8 & _).
      assert (idx R hd (s_pos s) = ci) by (pose proof (Z.div_mod (idx R hd (s_pos s) - ci) 8 ltac:(lia)); lia).
      assert (s = s1) by (eapply tiled_pos_unique; [exact st_tiled | exact Hs | exact Hs1 | unfold idx in *; lia]). subst s.
      repeat split; assumption.
  - intros (-> & Hlt & Hi0 & Hi8 & Hlim & Hil & Hsc) E. fold hd in Hlt, Hi0, Hi8, Hil, Hsc, E. fold ci in Hi0, Hi8, Hil, E. rewrite AL_eq in E.
    destruct (word_at (render R) i =? 0) eqn:W0.
    + destruct (i + 8 >=? limit) eqn:Lm; injection E as <- <- <-; [reflexivity |]. split; [reflexivity |].
      cbn [unb_ok]. fold cp hd ci. split; [reflexivity |]. split; [exact Hlt |]. split; [lia |].
      split; [replace (i + 8 - ci) with ((i - ci) + 1 * 8) by lia; rewrite Z_mod_plus_full; exact Hi8 |].
      split; [exact Hlim |]. split; [left; lia |].
      (* the slots that start at index i have just been read as zero *)
      intros s Hs Hidx Hd. destruct (Z_lt_dec (idx R hd (s_pos s)) i) as [Lt | Ge]; [exact (Hsc s Hs Lt Hd) |].
      destruct (slot_idx s Hs) as (A & A8 & _).
      assert (Ei : idx R hd (s_pos s) = i).
      { pose proof (Z.div_mod (idx R hd (s_pos s) - ci) 8 ltac:(lia)). pose proof (Z.div_mod (i - ci) 8 ltac:(lia)). lia. }
      pose proof (word_start s Hs ltac:(lia)) as Ws. rewrite Ei in Ws.
      destruct (slot_len_cases s Hs) as [P | [(N & _) | B]]; [lia | lia | exact B].
    + injection E as <- <- <-. split; [reflexivity |]. cbn [unb_ok]. fold cp hd ci.
      destruct (word_nonzero i ltac:(lia) ltac:(lia)) as (Hicp & s & Hs & Hr & Hfit).
      split; [reflexivity |]. split; [exact Hlt |]. split; [lia |]. split; [exact Hi8 |].
      split; [replace (i - 8 - ci) with ((i - ci) + (-1) * 8) by lia; rewrite Z_mod_plus_full; exact Hi8 |].
      split; [exact Hicp |]. split; [exact Hsc |].
      exists s. split; [exact Hs |]. split; [exact Hr |].
      destruct (Z.eq_dec (idx R hd (s_pos s)) i) as [Eq | Ne]; [left; exact Eq | right].
      intros Hd. assert (B : blank s) by (apply (Hsc s Hs); [lia | exact Hd]).
      pose proof (word_blank_in s i Hs B ltac:(lia) Hr). lia.
  - intros (-> & Hlt & Hj & Hh8 & Hj8 & Hhc & Hsc & Hho) E. fold hd in Hlt, Hj, Hh8, Hj8, Hsc, Hho, E. fold ci in Hj, Hh8, Hj8, E. rewrite AL_eq in E.
    rewrite mask_idx_mod in E by exact Hc. fold ci in E.
    destruct (word_at (render R) j =? 0); [| injection E as <- <- <-; reflexivity].
    destruct (j - 8 >=? ci) eqn:Jc; injection E as <- <- <-; (split; [reflexivity |]); cbn [unb_ok]; fold cp hd ci.
    + split; [reflexivity |]. split; [exact Hlt |]. split; [lia |]. split; [exact Hh8 |].
      split; [replace (j - 8 - ci) with ((j - ci) + (-1) * 8) by lia; rewrite Z_mod_plus_full; exact Hj8 |].
      split; [exact Hhc |]. split; [exact Hsc | exact Hho].
    + assert (j = ci) by (pose proof (Z.div_mod (j - ci) 8 ltac:(lia)); lia). subst j.
      assert (8 <= hit - ci) by (pose proof (Z.div_mod (hit - ci) 8 ltac:(lia)); lia).
      split; [reflexivity |]. split; [exact Hlt |]. split; [lia |]. right. unfold put_pre. fold cp hd ci.
      replace (ci + (hit - ci)) with hit by lia. split; [exact Hh8 |]. split; [lia |]. split; [lia |]. split; [exact Hsc | exact Hho].
  - intros _ E. injection E as <- <- <-. exists h, L. split; reflexivity.
Qed.
End Steps.

(* ================================================================== the store of the padding header *)
Definition put_safe (R : ring) (h L : Z) : Prop :=
  forall s, In s (r_slots R) -> s_pos s < h + align L 8 -> owner_dead s /\ s_len s <= 0.

Lemma put_facts R prods h L : Inv lo (qcfg R prods) -> unb_ok R (UPut h L) -> put_safe R h L ->
  exists s1 rest, pad_facts R s1 rest L /\ put_hdr (r_slots R) h L PAD = set_hdr L PAD s1 :: rest.
Proof.
  intros HI (-> & Hlt & HL & Hpre) Hsafe. unfold put_safe in Hsafe.
  pose proof (st_cap R prods HI) as Hc. pose proof (cap_ok_range _ Hc) as Hcr.
  pose proof (st_ci R prods HI) as (Hci & Hci8). pose proof (st_tiled R prods HI) as T. pose proof (st_size R prods HI) as Hsz.
  destruct (head_slot R prods HI Hlt) as (s1 & rest & Es & Ep1).
  assert (Hs1 : In s1 (r_slots R)) by (rewrite Es; left; reflexivity).
  pose proof (align8_bounds L) as HaL. pose proof (align8_pos L HL) as HaL8.
  destruct (Hsafe s1 Hs1 ltac:(lia)) as (D1 & Neg1).
  assert (Eput : put_hdr (r_slots R) (r_head R) L PAD = set_hdr L PAD s1 :: rest).
  { rewrite Es. unfold put_hdr. cbn [upd_slot]. replace (s_pos s1 =? r_head R) with true by lia. reflexivity. }
  exists s1, rest. split; [| exact Eput].
  rewrite Es in T. inversion T as [| h0 t0 s0 sl0 Hp1 G1 T2]; subst h0 t0 s0 sl0.
  pose proof G1 as (_ & _ & G1s & _ & G1str & _). rewrite Hp1 in G1str.
  pose proof (tiled_le _ _ _ _ T2) as Hle2.
  assert (Hnext : r_head R + s_span s1 = r_tail R \/ exists s, In s rest /\ s_pos s = r_head R + s_span s1).
  { destruct rest as [| s2 rest2]; [left; inversion T2; lia |]. right. exists s2. split; [left; reflexivity |]. inversion T2; subst. lia. }
  destruct Hpre as [Hn | (L8 & L8' & Lfit & Hsc & Hho)].
  - (* the negative branch *)
    pose proof (Hn s1 Hs1 Ep1 D1) as El.
    destruct (slot_len_cases R prods HI s1 Hs1) as [P | [(N & Nsp) | (B & _)]]; [lia | | lia].
    replace (- s_len s1) with L in Nsp by lia.
    unfold pad_facts. rewrite <- Nsp.
    split; [exact Es |]. split; [lia |]. split; [exact HL |]. split; [lia |]. split; [lia |]. split; [exact Hnext |].
    split; [| split; [intros; lia | intros; lia]].
    intros x Hx Hxp. pose proof (tiled_range _ _ _ _ T2) as Rg2. rewrite Forall_forall in Rg2. destruct (Rg2 x Hx). lia.
  - (* the zero branch *)
    rewrite (align8_id _ L8) in *.
    assert (B1 : blank s1).
    { apply (Hsc s1 Hs1); [unfold idx; lia | exact D1]. }
    destruct B1 as (B1 & _).
    destruct Hho as (s & Hs & Hr & Hcase).
    destruct (slot_geo R prods HI s Hs) as (Sa & Sb & _).
    assert (Hsq : s_pos s = r_head R + L).
    { destruct Hcase as [Eq | Nd]; [unfold idx in Eq; lia |].
      destruct (Z_lt_dec (s_pos s) (r_head R + L)) as [Lt | Ge]; [destruct (Hsafe s Hs Lt) as (Dd & _); contradiction | unfold idx in Hr; lia]. }
    unfold pad_facts. rewrite !(align8_id _ L8).
    split; [exact Es |]. split; [lia |]. split; [exact HL |]. split; [lia |]. split; [unfold idx in Hr; lia |].
    split.
    { right. exists s. split; [| exact Hsq]. rewrite Es in Hs. destruct Hs as [<- | Hs]; [lia | exact Hs]. }
    split; [| split; [intros; lia | intros _; lia]].
    intros x Hx Hxp. assert (Hxs : In x (r_slots R)) by (rewrite Es; right; exact Hx).
    destruct (Hsafe x Hxs Hxp) as (Dx & _).
    destruct (Hsc x Hxs ltac:(unfold idx; lia) Dx) as (Bx & _). exact Bx.
Qed.

(* the memory after the store is the memory of a configuration that satisfies the invariant again: the swept claims
   are one padding slot, their owners (dead) are out of the game *)
Theorem agent_put R prods h L : Inv lo (qcfg R prods) -> unb_ok R (UPut h L) -> put_safe R h L ->
  exists swept suffix pad,
    r_slots R = swept ++ suffix /\ swept <> [] /\ Forall (fun s => s_len s <= 0 /\ owner_dead s) swept /\
    s_type pad = PAD /\ s_pos pad = r_head R /\ s_span pad = span_sum swept /\
    Inv lo (qcfg (set_slots R (pad :: suffix)) (retire swept prods)) /\
    render (set_slots R (pad :: suffix)) = render (set_slots R (put_hdr (r_slots R) h L PAD)).
Proof.
  intros HI Hu Hsafe. destruct (put_facts R prods h L HI Hu Hsafe) as (s1 & rest & PF & Eput).
  destruct (after_pad lo (qcfg R prods) s1 rest L HI eq_refl (or_intror eq_refl) PF) as (swept & suffix & pad & Es & Hne & Hsw & Pt & Pp & Psp & _ & HI' & Er).
  cbn [qcfg g_ring g_cons g_prods] in *. destruct Hu as (-> & _).
  exists swept, suffix, pad. split; [exact Es |]. split; [exact Hne |]. split.
  { apply Forall_forall. intros s Hs. rewrite Forall_forall in Hsw. destruct (Hsw s Hs) as (A & B). split; [exact A |].
    apply (Hsafe s); [rewrite Es; apply in_or_app; left; exact Hs | exact B]. }
  split; [exact Pt |]. split; [exact Pp |]. split; [exact Psp |]. split; [exact HI' |].
  rewrite Er, Eput. reflexivity.
Qed.

(* ================================================================== every step of every thread *)
Lemma inv_switch R prods cs1 cs2 : Inv lo (mkCfg R cs1 prods) -> head' R cs1 = r_head R ->
  (cs2 = idle_cs \/ exists l, cs2 = cstart [l]) -> Inv lo (mkCfg R cs2 prods).
Proof. intros HI Hh Hc. apply (inv_cons_pure lo R cs1 cs2 prods HI).
  - rewrite Hh. destruct Hc as [-> | (l & ->)]; reflexivity.
  - destruct Hc as [-> | (l & ->)]; [exact I |]. unfold cons_ok, cstart, has_limit. cbn [c_pc c_limits c_k]. exists l. reflexivity. Qed.

Lemma cs_of_at ops k res : cs_of (a_at ops k res) = idle_cs \/ exists l, cs_of (a_at ops k res) = cstart [l].
Proof. unfold cs_of, a_at. cbn [a_mode]. destruct (nth_error ops k) as [[l |] |]; [right; exists l; reflexivity | left; reflexivity | left; reflexivity]. Qed.

Lemma agent_ok_at R ops k res prods : agent_ok (mkACfg R (a_at ops k res) prods).
Proof. unfold agent_ok, a_at. cbn [ag_agent a_mode]. destruct (nth_error ops k) as [[l |] |]; exact I. Qed.

Definition in_xwindow (x : aconfig) : Prop := r_tail (ag_ring x) + 2 * r_cap (ag_ring x) <= two62.

Theorem xstep_inv m x tid x' e :
  XInv x -> xstep m x tid = Some (x', e) -> (forall i, tid = S i -> ~ dead i) -> in_xwindow x' ->
  (forall h L, a_mode (ag_agent x) = AUnblocking (UPut h L) -> tid = O -> put_safe (ag_ring x) h L) ->
  XInv x' \/
  (exists h L swept suffix pad, a_mode (ag_agent x) = AUnblocking (UPut h L) /\ tid = O /\
     r_slots (ag_ring x) = swept ++ suffix /\ swept <> [] /\ Forall (fun s => s_len s <= 0 /\ owner_dead s) swept /\
     s_type pad = PAD /\ s_pos pad = r_head (ag_ring x) /\ s_span pad = span_sum swept /\
     ag_ring x' = set_slots (ag_ring x) (put_hdr (r_slots (ag_ring x)) h L PAD) /\ ag_prods x' = ag_prods x /\
     let xd := mkACfg (set_slots (ag_ring x) (pad :: suffix)) (ag_agent x') (retire swept (ag_prods x)) in
     XInv xd /\ render (ag_ring xd) = render (ag_ring x')).
Proof.
  intros (HI & HA) Hs Hlive Hw Hsafe. unfold xstep in Hs. destruct tid as [| i].
  - (* the agent *)
    destruct x as [R a prods]. cbn [ag_ring ag_agent ag_prods] in *. unfold astep in Hs. unfold cfg_of in HI. cbn [ag_ring ag_agent ag_prods] in HI.
    unfold agent_ok in HA. cbn [ag_agent] in HA. unfold cs_of in HI.
    destruct (a_mode a) as [| | cs | u] eqn:Em; try discriminate.
    + (* a read in progress *)
      destruct (cstep m R cs) as [[R1 cs1] [ev1 |]] eqn:Ec; [| discriminate].
      pose proof (cstep_inv lo m (mkCfg R cs prods) R1 cs1 ev1 HI Ec) as HI1. cbn [g_prods] in HI1.
      pose proof (proj1 (inv_no_panic _ _ HI1)) as Hnp. cbn [g_cons] in Hnp.
      destruct (c_pc cs1) eqn:Epc; try congruence; inversion Hs; subst x' e; left; split;
        try (unfold cfg_of, cs_of, a_set; cbn [ag_ring ag_agent ag_prods a_mode]; exact HI1);
        try (unfold agent_ok, a_set; cbn [ag_agent a_mode]; exact I).
      * unfold cfg_of. cbn [ag_ring ag_agent ag_prods]. apply (inv_switch R1 prods cs1); [exact HI1 | unfold head'; rewrite Epc; reflexivity | apply cs_of_at].
      * apply agent_ok_at.
    + (* unblock *)
      destruct (ustep R u) as [[R1 nxt] ev1] eqn:Eu.
      pose proof (ustep_ok R prods HI u R1 nxt ev1 HA Eu) as Hok.
      destruct nxt as [u' | [|]].
      * destruct Hok as (-> & Hu'). inversion Hs; subst x' e. left. split.
        -- unfold cfg_of, cs_of, a_set. cbn [ag_ring ag_agent ag_prods a_mode]. exact HI.
        -- unfold agent_ok, a_set. cbn [ag_agent a_mode ag_ring]. exact Hu'.
      * destruct Hok as (h & L & -> & ->). inversion Hs; subst x' e. right.
        specialize (Hsafe h L eq_refl eq_refl).
        destruct (agent_put R prods h L HI HA Hsafe) as (swept & suffix & pad & Es & Hne & Hsw & Pt & Pp & Psp & HI' & Er).
        exists h, L, swept, suffix, pad. cbn [ag_ring ag_agent ag_prods].
        split; [reflexivity |]. split; [reflexivity |]. split; [exact Es |]. split; [exact Hne |]. split; [exact Hsw |].
        split; [exact Pt |]. split; [exact Pp |]. split; [exact Psp |]. split; [reflexivity |]. split; [reflexivity |].
        split; [| exact Er]. split; [| apply agent_ok_at].
        unfold cfg_of. cbn [ag_ring ag_agent ag_prods].
        apply (inv_switch _ _ idle_cs); [exact HI' | reflexivity | apply cs_of_at].
      * subst R1. inversion Hs; subst x' e. left. split; [| apply agent_ok_at].
        unfold cfg_of. cbn [ag_ring ag_agent ag_prods]. apply (inv_switch R prods idle_cs); [exact HI | reflexivity | apply cs_of_at].
  - (* a producer that is alive *)
    destruct (nth_error (ag_prods x) i) as [ps |] eqn:Ei; [| discriminate].
    destruct (pstep m (ag_ring x) (Z.of_nat (S i)) ps) as [[R1 ps1] [ev1 |]] eqn:Ep; [| discriminate].
    inversion Hs; subst x' e. left.
    pose proof (pstep_inv lo m (cfg_of x) i ps R1 ps1 ev1 HI Ei Ep Hw) as HI1.
    split; [exact HI1 |].
    unfold agent_ok in *. cbn [ag_agent ag_ring]. destruct (a_mode (ag_agent x)) as [| | cs | u]; auto.
    destruct (pstep_frame m (cfg_of x) i ps R1 ps1 ev1 HI Ei (Hlive i eq_refl) Ep) as (Ec & Eh & Et & Hb & Hf).
    eapply unb_ok_frame; eassumption.
Qed.
End Agent.
