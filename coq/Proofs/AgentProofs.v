(* Proofs about Model/Agent.v: AgentInvoker over all call sequences, the loop of AgentRunner over all scripts. *)
From Coq Require Import ZArith List Bool Lia Arith.
From Coq Require Import ZifyBool.
Require Import V.Base.MachineInt V.Model.Connect V.Model.CncLayout V.Model.Agent V.Oracle.C10CncOracle.
Import ListNotations.
Open Scope Z_scope.

(* ------------------------------------------------------------------------------------------------------- *)
(* AgentInvoker *)

Definition inv_events (c : agent_cfg) (s : inv) (ops : list iop) : list gev := concat (map snd (inv_run c s ops)).

Lemma inv_events_cons c s o r :
  inv_events c s (o :: r) = snd (inv_step c s o) ++ inv_events c (fst (fst (inv_step c s o))) r.
Proof. unfold inv_events. cbn [inv_run]. destruct (inv_step c s o) as [[s' v] ev]. reflexivity. Qed.

Lemma count_app g a b : count_ev g (a ++ b) = (count_ev g a + count_ev g b)%nat.
Proof. unfold count_ev. rewrite filter_app, app_length. reflexivity. Qed.

(* single-step facts *)
Lemma invoke_not_running c s : i_running s = false -> inv_step c s IInvoke = (s, 0, []).
Proof. intros H. cbn. rewrite H. reflexivity. Qed.

Lemma invoke_error_keeps_running c s r : i_running s = true -> i_work s = WErr :: r ->
  inv_step c s IInvoke = (mkInv (i_started s) true (i_closed s) r, 0, [GWork; GErr]).
Proof. intros H Hw. cbn. rewrite H, Hw. reflexivity. Qed.

Lemma invoke_ok c s n r : i_running s = true -> i_work s = WOk n :: r ->
  inv_step c s IInvoke = (mkInv (i_started s) true (i_closed s) r, n, [GWork]).
Proof. intros H Hw. cbn. rewrite H, Hw. reflexivity. Qed.

(* flags only go up; on_start / on_close happen when their flag goes up *)
Lemma step_flags c s o :
  let s' := fst (fst (inv_step c s o)) in
  let ev := snd (inv_step c s o) in
  (i_started s = true -> i_started s' = true) /\ (i_closed s = true -> i_closed s' = true)
  /\ count_ev GStart ev = (if i_started s then 0 else if i_started s' then 1 else 0)%nat
  /\ count_ev GClose ev = (if i_closed s then 0 else if i_closed s' then 1 else 0)%nat.
Proof.
  destruct s as [st rn cl w], c as [se ce], o; cbn;
    destruct st, rn, cl, se, ce; try destruct w as [|[n|] w]; cbn; repeat split; auto.
Qed.

Lemma inv_start_at_most_once c : forall ops s,
  (count_ev GStart (inv_events c s ops) <= (if i_started s then 0 else 1))%nat.
Proof.
  induction ops as [|o r IH]; intros s; [destruct (i_started s); cbn; lia |].
  rewrite inv_events_cons, count_app.
  pose proof (step_flags c s o) as (H1 & _ & H3 & _). cbn zeta in *.
  specialize (IH (fst (fst (inv_step c s o)))). rewrite H3.
  destruct (i_started s); [rewrite H1 in IH by reflexivity; lia |].
  destruct (i_started (fst (fst (inv_step c s o)))); lia.
Qed.

Lemma inv_close_at_most_once c : forall ops s,
  (count_ev GClose (inv_events c s ops) <= (if i_closed s then 0 else 1))%nat.
Proof.
  induction ops as [|o r IH]; intros s; [destruct (i_closed s); cbn; lia |].
  rewrite inv_events_cons, count_app.
  pose proof (step_flags c s o) as (_ & H2 & _ & H4). cbn zeta in *.
  specialize (IH (fst (fst (inv_step c s o)))). rewrite H4.
  destruct (i_closed s); [rewrite H2 in IH by reflexivity; lia |].
  destruct (i_closed (fst (fst (inv_step c s o)))); lia.
Qed.

(* once closed and not running, nothing happens any more - unless a *first* start comes after the close *)
Definition dead (s : inv) : Prop := i_closed s = true /\ i_running s = false.

Lemma dead_silent c : forall ops s, dead s ->
  (i_started s = true \/ no_start_after_close ops true = true) -> inv_events c s ops = [].
Proof.
  induction ops as [|o r IH]; intros s [Hc Hr] Hs; [reflexivity |].
  rewrite inv_events_cons.
  assert (inv_step c s o = (s, snd (fst (inv_step c s o)), []) /\ (i_started s = true \/ no_start_after_close r true = true)) as [E Hs'].
  { destruct s as [st rn cl w]. cbn in Hc, Hr. subst cl rn. destruct o; cbn.
    - destruct st; [split; [reflexivity | left; reflexivity] |]. destruct Hs as [Hs|Hs]; cbn in Hs; discriminate.
    - split; [reflexivity |]. destruct Hs as [Hs|Hs]; [left | right]; assumption.
    - split; [reflexivity |]. destruct Hs as [Hs|Hs]; [left | right]; assumption.
    - split; [reflexivity |]. destruct Hs as [Hs|Hs]; [left | right]; assumption. }
  rewrite E. cbn [fst snd app]. apply IH; [split; assumption | exact Hs'].
Qed.

Lemma quiet_app_noclose a b : count_ev GClose a = 0%nat -> quiet_after_close (a ++ b) = quiet_after_close b.
Proof.
  induction a as [|x a IH]; intros H; [reflexivity |].
  destruct x; cbn [app quiet_after_close]; try (apply IH; unfold count_ev in *; cbn in H; exact H).
  unfold count_ev in H. cbn in H. discriminate.
Qed.

(* closed implies not running: broken only by a first start after a close *)
Definition tidy (s : inv) : Prop := i_closed s = true -> i_running s = false.

Theorem inv_quiet_after_close c : forall ops s, tidy s ->
  no_start_after_close ops (i_closed s) = true -> quiet_after_close (inv_events c s ops) = true.
Proof.
  induction ops as [|o r IH]; intros s Ht Hn; [reflexivity |].
  destruct (i_closed s) eqn:Ecl.
  - (* already closed: silent from here on *)
    rewrite dead_silent; [reflexivity | split; [assumption | apply Ht; assumption] | right; exact Hn].
  - rewrite inv_events_cons.
    destruct s as [st rn cl w]. cbn in Ecl. subst cl.
    destruct o; cbn [no_start_after_close negb andb] in Hn.
    + (* IStart *)
      cbn [inv_step i_started i_running i_closed i_work].
      destruct st.
      * cbn [fst snd app]. apply IH; [intros H; discriminate | exact Hn].
      * destruct (a_start_err c) eqn:Ee.
        -- cbn [close_inv i_closed i_started i_work]. cbn [fst snd].
           assert (Hd : inv_events c (mkInv true false true w) r = []).
           { apply dead_silent; [split; reflexivity | left; reflexivity]. }
           rewrite Hd. destruct (a_close_err c); reflexivity.
        -- cbn [fst snd app]. cbn [quiet_after_close]. apply IH; [intros H; discriminate | exact Hn].
    + (* IInvoke *)
      cbn [inv_step i_started i_running i_closed i_work].
      destruct rn; [destruct w as [|[n|] w] |]; cbn [fst snd app quiet_after_close];
        apply IH; try (intros H; discriminate); exact Hn.
    + (* IClose *)
      cbn [inv_step close_inv i_started i_running i_closed i_work]. cbn [fst snd].
      assert (Hd : inv_events c (mkInv st false true w) r = []).
      { apply dead_silent; [split; reflexivity | right; exact Hn]. }
      rewrite Hd. destruct (a_close_err c); reflexivity.
    + (* IQuery *)
      cbn [inv_step fst snd app]. apply IH; [intros H; discriminate | exact Hn].
Qed.

(* the monitor of the oracle follows the flags *)
Lemma inv_monitor_model c : forall ops s,
  (i_running s = true -> i_started s = true) ->
  inv_monitor ops (map (fun p => (Ok (fst p), snd p)) (inv_run c s ops)) (i_started s) (i_closed s) = true.
Proof.
  induction ops as [|o r IH]; intros s Hrs; [reflexivity |].
  cbn [inv_run]. destruct (inv_step c s o) as [[s' v] ev] eqn:E. cbn [map fst snd inv_monitor].
  assert (Hnext : i_started s' = i_started s || existsb (gev_eqb GStart) ev
                  /\ i_closed s' = i_closed s || existsb (gev_eqb GClose) ev
                  /\ (i_running s' = true -> i_started s' = true)).
  { destruct s as [st rn cl w], c as [se ce], o; cbn in E;
      destruct st, rn, cl, se, ce; try destruct w as [|[n|] w]; cbn in E; inversion E; subst; cbn;
      repeat split; auto; try discriminate; specialize (Hrs eq_refl); discriminate. }
  destruct Hnext as (Hs & Hc & Hr). rewrite <- Hs, <- Hc. rewrite (IH s' Hr), andb_true_r.
  destruct s as [st rn cl w], c as [se ce], o; cbn in E;
    destruct st, rn, cl, se, ce; try destruct w as [|[n|] w]; cbn in E; inversion E; subst; cbn; try reflexivity;
    try lia; specialize (Hrs eq_refl); discriminate.
Qed.

Theorem holds_inv_model c w ops : holds_inv ops (inv_obs c w ops) = true.
Proof.
  unfold holds_inv, inv_obs.
  pose proof (inv_monitor_model c ops (inv_init w) ltac:(cbn; discriminate)) as Hm.
  unfold inv_init in *. cbn [i_started i_closed] in Hm. rewrite Hm. fold (inv_init w).
  assert (Hev : all_events (map (fun p : Z * list gev => (Ok (A := Z) (fst p), snd p)) (inv_run c (inv_init w) ops)) = inv_events c (inv_init w) ops).
  { unfold all_events, inv_events. rewrite map_map. reflexivity. }
  rewrite Hev.
  pose proof (inv_start_at_most_once c ops (inv_init w)) as H1. pose proof (inv_close_at_most_once c ops (inv_init w)) as H2.
  cbn in H1, H2.
  assert ((count_ev GStart (inv_events c (inv_init w) ops) <=? 1)%nat = true) as -> by (apply Nat.leb_le; lia).
  assert ((count_ev GClose (inv_events c (inv_init w) ops) <=? 1)%nat = true) as -> by (apply Nat.leb_le; lia).
  cbn [andb]. destruct (no_start_after_close ops false) eqn:En; [| reflexivity].
  apply inv_quiet_after_close; [intros H; discriminate | exact En].
Qed.

(* the port keeps Agrona's behaviour: a first start() after close() runs the agent although it is closed *)
Example inv_start_after_close_runs :
  inv_obs (mkCfg false false) [WOk 3] [IClose; IStart; IInvoke; IQuery]
  = [(Ok 0, [GClose]); (Ok 0, [GStart]); (Ok 3, [GWork]); (Ok 7, [])].
Proof. reflexivity. Qed.

(* ------------------------------------------------------------------------------------------------------- *)
(* AgentRunner::run *)

Definition nfalse (q : list bool) : nat := length (filter negb q).

Lemma nfalse_app a b : nfalse (a ++ b) = (nfalse a + nfalse b)%nat.
Proof. unfold nfalse. rewrite filter_app, app_length. reflexivity. Qed.

Lemma nfalse_le_length q : (nfalse q <= length q)%nat.
Proof. unfold nfalse. induction q as [|[] q IH]; cbn; lia. Qed.

Definition body (ev : list gev) : Prop := body_ok ev = true /\ count_ev GClose ev = 0%nat.

Lemma body_cons_idle n ev : body ev -> body (GWork :: GIdle n :: ev).
Proof. intros [H1 H2]. split; [exact H1 | exact H2]. Qed.
Lemma body_cons_err ev : body ev -> body (GWork :: GErr :: ev).
Proof. intros [H1 H2]. split; [exact H1 | exact H2]. Qed.

(* after the script: the agent keeps asking for the stop; the loop ends once the queued `false`s are consumed *)
Lemma tail_phase : forall n q extra fuel, (nfalse q <= n)%nat -> (n + 2 <= extra)%nat -> (n + 3 <= fuel)%nat ->
  exists ev, run_loop fuel q [] extra = (Ok tt, ev) /\ body ev.
Proof.
  induction n as [|n IH]; intros q extra fuel Hq He Hf.
  - destruct fuel as [|f]; [lia |]. cbn [run_loop].
    destruct q as [|[] q].
    + (* empty queue: one more do_work, which sends the stop *)
      cbn [loop_head]. destruct extra as [|x]; [lia |]. cbn [app].
      destruct f as [|f2]; [lia |]. cbn [run_loop loop_head].
      exists [GWork; GIdle 0]. split; [reflexivity | split; reflexivity].
    + cbn [loop_head]. exists []. split; [reflexivity | split; reflexivity].
    + unfold nfalse in Hq. cbn in Hq. lia.
  - destruct fuel as [|f]; [lia |]. cbn [run_loop].
    destruct q as [|[] q].
    + cbn [loop_head]. destruct extra as [|x]; [lia |]. cbn [app].
      destruct f as [|f2]; [lia |]. cbn [run_loop loop_head].
      exists [GWork; GIdle 0]. split; [reflexivity | split; reflexivity].
    + cbn [loop_head]. exists []. split; [reflexivity | split; reflexivity].
    + cbn [loop_head]. destruct extra as [|x]; [lia |].
      assert (Hq' : (nfalse (q ++ [true]) <= n)%nat).
      { rewrite nfalse_app. unfold nfalse in *. cbn in *. lia. }
      destruct (IH (q ++ [true]) x f Hq' ltac:(lia) ltac:(lia)) as (ev & E & Hb).
      rewrite E. exists (GWork :: GIdle 0 :: ev). split; [reflexivity | apply body_cons_idle; exact Hb].
Qed.

Lemma sig_total_cons r sig w : sig_total ((r, sig) :: w) = (length sig + sig_total w)%nat.
Proof. reflexivity. Qed.

Lemma script_phase : forall w q extra fuel,
  (nfalse q + sig_total w + 2 <= extra)%nat -> (nfalse q + sig_total w + length w + 3 <= fuel)%nat ->
  exists ev, run_loop fuel q w extra = (Ok tt, ev) /\ body ev.
Proof.
  induction w as [|[r sig] w IH]; intros q extra fuel He Hf.
  - apply (tail_phase (nfalse q)); cbn in *; lia.
  - destruct fuel as [|f]; [cbn in Hf; lia |]. cbn [run_loop].
    rewrite sig_total_cons in He, Hf. cbn [length] in Hf.
    destruct (loop_head q) as [q1|] eqn:El.
    + assert (Hq1 : (nfalse q1 <= nfalse q)%nat).
      { destruct q as [|[] q]; cbn in El; inversion El; subst; unfold nfalse; cbn; lia. }
      assert (Hq2 : (nfalse (q1 ++ sig) <= nfalse q + length sig)%nat).
      { rewrite nfalse_app. pose proof (nfalse_le_length sig). lia. }
      destruct (IH (q1 ++ sig) extra f ltac:(lia) ltac:(lia)) as (ev & E & Hb).
      destruct r as [n|]; rewrite E.
      * exists (GWork :: GIdle n :: ev). split; [reflexivity | apply body_cons_idle; exact Hb].
      * exists (GWork :: GErr :: ev). split; [reflexivity | apply body_cons_err; exact Hb].
    + exists []. split; [reflexivity | split; reflexivity].
Qed.

Lemma split_close_body ev tail : count_ev GClose ev = 0%nat -> split_close (ev ++ GClose :: tail) = Some (ev, tail).
Proof.
  induction ev as [|x ev IH]; intros H; [reflexivity |].
  destruct x; cbn [app split_close]; try (rewrite IH; [reflexivity | unfold count_ev in *; cbn in H; exact H]).
  unfold count_ev in H. cbn in H. discriminate.
Qed.

Theorem holds_runner_model c pre w : holds_runner c pre w (runner_obs c pre w) = true.
Proof.
  unfold holds_runner. destruct (runner_pre pre w) eqn:Hp; [| reflexivity]. cbn [negb].
  unfold runner_pre in Hp. apply Nat.leb_le in Hp.
  pose proof (nfalse_le_length pre) as Hnf.
  destruct (script_phase w pre runner_extra (runner_fuel pre w) ltac:(lia) ltac:(unfold runner_fuel; lia)) as (ev & E & Hb1 & Hb2).
  unfold runner_obs. rewrite E.
  destruct (a_start_err c); cbn [app]; rewrite split_close_body by exact Hb2; rewrite Hb1; destruct (a_close_err c); reflexivity.
Qed.

(* a stop request at the head of the queue ends the loop before any further do_work; an error never ends it *)
Lemma runner_stop_honoured fuel q w extra : run_loop (S fuel) (true :: q) w extra = (Ok tt, []).
Proof. reflexivity. Qed.

Lemma runner_error_goes_on fuel q sig w extra :
  loop_head q <> None ->
  exists q1 o ev, loop_head q = Some q1 /\ run_loop fuel (q1 ++ sig) w extra = (o, ev)
                  /\ run_loop (S fuel) q ((WErr, sig) :: w) extra = (o, GWork :: GErr :: ev).
Proof.
  intros H. destruct (loop_head q) as [q1|] eqn:E; [| congruence].
  destruct (run_loop fuel (q1 ++ sig) w extra) as [o ev] eqn:E2.
  exists q1, o, ev. repeat split; auto. cbn [run_loop]. rewrite E, E2. reflexivity.
Qed.

Theorem holds_thr_model s w : holds_thr s w (thr_obs s w) = true.
Proof. destruct s, w; reflexivity. Qed.

Lemma inv_close_monitor_model c ops : forall s,
  inv_close_monitor ops (map (fun p : Z * list gev => (Ok (A := Z) (fst p), snd p)) (inv_run c s ops)) (i_closed s) = true.
Proof.
  induction ops as [|o r IH]; intros s; [reflexivity |].
  cbn [inv_run]. destruct (inv_step c s o) as [[s' v] ev] eqn:E. cbn [map fst snd inv_close_monitor].
  assert (Hc : i_closed s' = i_closed s || existsb (gev_eqb GClose) ev).
  { destruct s as [st rn cl w], c as [se ce], o; cbn in E;
      destruct st, rn, cl, se, ce; try destruct w as [|[n|] w]; cbn in E; inversion E; subst; cbn; reflexivity. }
  rewrite <- Hc. rewrite (IH s'), andb_true_r.
  destruct s as [st rn cl w], c as [se ce], o; cbn in E;
    destruct st, rn, cl, se, ce; try destruct w as [|[n|] w]; cbn in E; inversion E; subst; cbn; reflexivity.
Qed.

Theorem holds_inv_close_model c w ops : holds_inv_close ops (inv_obs c w ops) = true.
Proof. unfold holds_inv_close, inv_obs. exact (inv_close_monitor_model c ops (inv_init w)). Qed.
