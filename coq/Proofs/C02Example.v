(* A concrete, non-trivial instance of the hypotheses of C02_oracle: two publishers, one message each, an interleaved
   schedule run to quiescence.  `runb` is an executable run whose every step is checked against a decidable (stronger)
   form of the admissibility conditions; every configuration it returns is reachable (reacht). *)
Require Import V.Base.MachineInt.
Require Import V.Generated.GenConsts.
Require Import V.Model.LogBase.
Require Import V.Model.Descriptor.
Require Import V.Model.Sched.
Require Import V.Model.AppenderThreads.
Require Import V.Oracle.C02Oracle.
Require Import V.Proofs.TailArith.
Require Import V.Proofs.FragArith.
Require Import V.Proofs.AppenderInv.
Require Import V.Proofs.C02Proofs.
Require Import V.Proofs.AppenderMsgs.
Require Import V.Proofs.C02OracleProofs.
Require Import V.Proofs.C02Words.
Require Import V.Proofs.C02Trace.
Require Import V.Proofs.C02OracleFull.
Require Import V.Proofs.C02Solo.
Require Import V.Proofs.C02CollapseRun.
From Coq Require Import ZifyBool.
Open Scope Z_scope.

Section RunB.
  Variable c : cfg.
  Variable orig : nat -> list (list Z).

  (* decidable and stronger than sys_adm: no rotation CAS on a tail, no driver-side zeroing *)
  Definition adm_b (s : shared) (x : thread) : bool :=
    match x with
    | TPub l =>
        match p_pc l with
        | PFaa => (term_id_of (sh_tail s (r_idx l)) =? r_tid l) && (lo32u (sh_tail s (r_idx l)) + required c (mlen l) <? two32)
        | RCasTail => false
        | RCasCount => p_count l + 1 <=? GB
        | _ => true
        end
    | TEnv l => match e_ops l with Clean _ :: _ => false | _ => true end
    | TIdle => true
    end.

  Lemma adm_b_sound s th t : adm_b s (th t) = true -> sys_adm c s th t.
  Proof. unfold adm_b, sys_adm. destruct (th t) as [l | l |]; [| |auto].
    - unfold adm_pub. destruct (p_pc l); intros H; try exact I; try discriminate; lia.
    - destruct (e_ops l) as [|[v | p] r]; intros H; try exact I; discriminate. Qed.

  Lemma adm_b_pub s P l : adm_b s (TPub l) = true -> adm_pub c s P l.
  Proof. unfold adm_b, adm_pub. destruct (p_pc l); intros H; try exact I; try discriminate; lia. Qed.

  (* one machine alone, every step checked *)
  Fixpoint solob (fuel : nat) (t : nat) (s : shared) (l : plocal) : option (shared * plocal) :=
    match fuel with
    | O => Some (s, l)
    | S f => match pstep c t s l with
             | Some (s1, l1, _) => if adm_b s (TPub l) then solob f t s1 l1 else None
             | None => Some (s, l)
             end
    end.

  Lemma solob_ssteps t : forall fuel s l s' l', solob fuel t s l = Some (s', l') -> ssteps c t s l s' l'.
  Proof. induction fuel as [|f IH]; intros s l s' l' H; cbn [solob] in H.
    - inversion H; subst. constructor.
    - destruct (pstep c t s l) as [[[s1 l1] e]|] eqn:E; [|inversion H; subst; constructor].
      destruct (adm_b s (TPub l)) eqn:Ea; [|discriminate].
      eapply ssteps_cons; [apply adm_b_pub; exact Ea | exact E | apply IH; exact H]. Qed.

  Fixpoint runb (sched : list nat) (r : shared * (nat -> thread) * list event) : option (shared * (nat -> thread) * list event) :=
    match sched with
    | [] => Some r
    | t :: rest =>
        let '(s, th, tr) := r in
        if adm_b s (th t) then
          match tstep c t s (th t) with
          | Some (s', x', e) => runb rest (s', upd_thread th t x', tr ++ [e])
          | None => runb rest r
          end
        else None
    end.

  Lemma runb_reacht sched : forall s th gh tr, reacht c orig s th gh tr ->
    match runb sched (s, th, tr) with
    | Some (s', th', tr') => (exists gh', reacht c orig s' th' gh' tr') /\ (forall t, th t = TIdle -> th' t = TIdle)
    | None => True
    end.
  Proof. induction sched as [|t rest IH]; intros s th gh tr R; cbn [runb].
    - split; [eauto | auto].
    - destruct (adm_b s (th t)) eqn:Ea; [|exact I].
      destruct (tstep c t s (th t)) as [[[s1 x1] e1]|] eqn:Es; [|apply (IH _ _ _ _ R)].
      pose proof (reacht_step c orig s th gh tr t s1 x1 e1 R (adm_b_sound s th t Ea) Es) as R1.
      specialize (IH _ _ _ _ R1). destruct (runb rest _) as [[[s2 th2] tr2]|]; [|exact I].
      destruct IH as (H1 & H2). split; [assumption|]. intros t0 Ht0. apply H2. unfold upd_thread.
      destruct (Nat.eqb t0 t) eqn:E; [|assumption]. apply Nat.eqb_eq in E. subst t0. rewrite Ht0 in Es. discriminate. Qed.
End RunB.

Definition ex_cfg := mkCfg 2147483646 10 256 11 22 1 64.
Definition ex_orig (t : nat) : list (list Z) := match t with O => [payload 1 40] | S O => [payload 2 100] | _ => [] end.
Definition ex_threads := threads_of [pub 3 [payload 1 40]; pub 3 [payload 2 100]].
Definition ex_sched : list nat := [0; 1; 0; 1; 1; 1; 0; 0; 0; 0; 1; 1; 0; 0; 1; 1; 1; 0; 0; 1; 1; 0; 0; 1; 1; 1; 0; 0; 0; 1; 1; 1; 1]%nat.
Definition ex_offers := [[payload 1 40]; [payload 2 100]].

Lemma ex_wf : wf_cfg ex_cfg.
Proof. constructor; cbn; try (vm_compute; intuition congruence). Qed.

Lemma ex_bytes t m : In m (ex_orig t) -> Forall byte m.
Proof. assert (P : forall k len, Forall byte (payload k len)).
  { intros k len. unfold payload. generalize 0 at 1. induction (Z.to_nat len) as [|n IH]; intros i; cbn [payload_from]; constructor; [|apply IH].
    unfold byte, payload_byte. Z.div_mod_to_equations. lia. }
  destruct t as [|[|t]]; unfold ex_orig; [intros [<- | []]; apply P | intros [<- | []]; apply P | intros []]. Qed.

(* both publishers ran to completion, both messages were accepted, the two frames do not share a byte *)
Lemma ex_reach : exists s th gh tr,
  reacht ex_cfg ex_orig s th gh tr /\ all_done th /\
  (forall t l, th t = TPub l -> (t < 2)%nat /\ nth t ex_offers [] = ex_orig t) /\
  (exists l0 l1, th 0%nat = TPub l0 /\ th 1%nat = TPub l1 /\ p_res l0 = [Ok 1344] /\ p_res l1 = [Ok 1248]).
Proof.
  assert (R0 : reacht ex_cfg ex_orig (init_shared ex_cfg 4096) ex_threads ghost0 []).
  { apply reacht_init. intros t. unfold ex_threads, threads_of, pub. destruct t as [|[|t]]; cbn [nth ex_orig];
      [exists 3%nat; reflexivity | exists 3%nat; reflexivity | destruct t; exact I]. }
  assert (C : match runb ex_cfg ex_sched (init_shared ex_cfg 4096, ex_threads, []) with
              | Some (s, th, tr) =>
                  match th 0%nat, th 1%nat with
                  | TPub l0, TPub l1 => p_pc l0 = PDone /\ p_pc l1 = PDone /\ p_res l0 = [Ok 1344] /\ p_res l1 = [Ok 1248]
                  | _, _ => False
                  end
              | None => False
              end) by (vm_compute; repeat split; reflexivity).
  pose proof (runb_reacht ex_cfg ex_orig ex_sched _ _ _ _ R0) as H.
  destruct (runb ex_cfg ex_sched (init_shared ex_cfg 4096, ex_threads, [])) as [[[s th] tr]|]; [|contradiction].
  destruct H as ((gh & R) & Hidle).
  assert (Hi : forall t, (2 <= t)%nat -> th t = TIdle).
  { intros t Ht. apply Hidle. unfold ex_threads, threads_of. do 2 (destruct t as [|t]; [lia|]). cbn. destruct t; reflexivity. }
  destruct (th 0%nat) as [l0 | |] eqn:E0; try contradiction. destruct (th 1%nat) as [l1 | |] eqn:E1; try contradiction.
  destruct C as (C0 & C1 & C2 & C3).
  exists s, th, gh, tr. split; [assumption|]. split; [|split].
  - intros t. destruct t as [|[|t]]; [rewrite E0; assumption | rewrite E1; assumption | rewrite Hi by lia; exact I].
  - intros t l Ht. destruct t as [|[|t]]; [split; [lia | reflexivity] | split; [lia | reflexivity] | rewrite Hi in Ht by lia; discriminate].
  - exists l0, l1. auto. Qed.

(* one publisher alone: three messages (one fragmented), run to completion *)
Definition ex_solo_cfg := mkCfg 2147483646 10 128 11 22 1 64.
Definition ex_solo_msgs := [payload 1 40; payload 2 120; payload 3 0].

Lemma ex_solo_wf : wf_cfg ex_solo_cfg.
Proof. constructor; cbn; try (vm_compute; intuition congruence). Qed.

Lemma ex_solo : exists s' l',
  ssteps ex_solo_cfg 0 (init_shared ex_solo_cfg 4096) (p_start ex_solo_msgs 5 []) s' l' /\ p_pc l' = PDone /\ p_res l' = [Ok 1184; Ok 1376; Ok 1408].
Proof.
  assert (C : match solob ex_solo_cfg 200 0 (init_shared ex_solo_cfg 4096) (p_start ex_solo_msgs 5 []) with
              | Some (s', l') => p_pc l' = PDone /\ p_res l' = [Ok 1184; Ok 1376; Ok 1408]
              | None => False
              end) by (vm_compute; split; reflexivity).
  destruct (solob ex_solo_cfg 200 0 (init_shared ex_solo_cfg 4096) (p_start ex_solo_msgs 5 [])) as [[s' l']|] eqn:E; [|contradiction].
  exists s', l'. split; [apply (solob_ssteps ex_solo_cfg 0 200); exact E | exact C]. Qed.
