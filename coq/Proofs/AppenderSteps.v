(* Preservation of AppInv by every step of a publisher and of the environment. *)
Require Import V.Base.MachineInt.
Require Import V.Generated.GenConsts.
Require Import V.Model.LogBase.
Require Import V.Model.Descriptor.
Require Import V.Proofs.DescriptorProofs.
Require Import V.Model.Sched.
Require Import V.Model.AppenderThreads.
Require Import V.Proofs.TailArith.
Require Import V.Proofs.FragArith.
Require Import V.Proofs.AppenderInv.
Require Import V.Proofs.AppenderLemmas.
Require Import V.Proofs.AppenderFrame.
From Coq Require Import ZifyBool.
Open Scope Z_scope.

Section Steps.
  Variable c : cfg.
  Hypothesis W : wf_cfg c.

  Lemma thr_ok_start s gh t todo b res : thr_ok c s gh t (p_start todo b res).
  Proof. unfold p_start. destruct todo; destruct b; unfold thr_ok; cbn; repeat split; intros; discriminate. Qed.

  Lemma p_res_start todo b res : p_res (p_start todo b res) = res.
  Proof. unfold p_start. destruct todo; destruct b; reflexivity. Qed.
  Lemma p_res_finish r l : p_res (finish r l) = p_res l ++ [r].
  Proof. unfold finish. apply p_res_start. Qed.

  (* ---- steps that change no shared state ---- *)
  Lemma step_local s gh P t l l' :
    AppInv c s gh P -> P t = Some l -> p_res l' = p_res l ->
    (inflight (p_pc l) = true -> inflight (p_pc l') = true /\ my_entry c t l' = my_entry c t l /\ p_count l' = p_count l) ->
    thr_ok c s gh t l' ->
    AppInv c s gh (pupd P t l').
  Proof. intros I HP Hres Hinf HT. apply close; [apply AppInv_X; assumption | | assumption].
    intros g e He Ht. eapply own_ent_nofinish with (s := s) (gh := gh) (l := l); eauto.
    all: try (apply (iv_ent c s gh P I); assumption).
    all: try (intros _ Hl; split; [assumption | reflexivity]). Qed.

  Lemma step_finish s gh P t l r :
    AppInv c s gh P -> P t = Some l ->
    (inflight (p_pc l) = true ->
       r = (if f_off l + required c (mlen l) <=? TL c then Ok (p_count l * TL c + (f_off l + required c (mlen l))) else Err AdminAction) /\
       (live c s gh (p_count l) -> forall o sl, In (o, sl) (efrags c (p_count l) (my_entry c t l)) -> sh_mem s (p_count l mod 3) o = sl)) ->
    AppInv c s gh (pupd P t (finish r l)).
  Proof. intros I HP Hfin. apply close; [apply AppInv_X; assumption | | apply thr_ok_start].
    intros g e He Ht. eapply own_ent_finish with (s := s) (gh := gh) (l := l) (r := r); eauto.
    all: try (apply (iv_ent c s gh P I); assumption).
    all: try apply p_res_finish.
    all: try (intros _ Hl; split; [assumption | reflexivity]).
    intros _ Hi -> ->. apply Hfin. assumption. Qed.

  Lemma idx_of_count s gh t l : TailInv c s gh -> thr_ok c s gh t l -> after_count (p_pc l) = true ->
    r_idx l = p_count l mod 3 /\ 0 <= p_count l mod 3 < 3 /\ gen_ok (p_count l).
  Proof. intros A HT Hac. destruct HT as (H1 & _). specialize (H1 Hac).
    pose proof (iv_count c s gh A) as Hc. pose proof (wf_n0 c W) as Hn0. unfold GB in *.
    split; [|split].
    - unfold r_idx. apply idx_count. unfold two31. lia.
    - apply Z.mod_pos_bound. lia.
    - unfold gen_ok, GB. lia. Qed.

  Lemma step_PReadLimit s gh P t l :
    AppInv c s gh P -> P t = Some l -> p_pc l = PReadLimit -> AppInv c s gh (pupd P t (pl_limit l (sh_limit s))).
  Proof. intros I HP Hpc. apply (step_local s gh P t l); auto.
    - rewrite Hpc. discriminate.
    - unfold thr_ok; cbn. repeat split; intros; discriminate. Qed.

  Lemma step_PReadCount s gh P t l :
    AppInv c s gh P -> P t = Some l -> p_pc l = PReadCount -> AppInv c s gh (pupd P t (pl_count l (sh_count s))).
  Proof. intros I HP Hpc. apply (step_local s gh P t l); auto.
    - rewrite Hpc. discriminate.
    - pose proof (iv_count c s gh (iv_A c s gh P I)). unfold thr_ok; cbn. repeat split; intros; try discriminate; lia. Qed.

  Lemma step_PReadTail s gh P t l :
    AppInv c s gh P -> P t = Some l -> p_pc l = PReadTail ->
    AppInv c s gh (pupd P t (after_read_tail c (pl_raw l (sh_tail s (r_idx l))))).
  Proof. intros I HP Hpc. pose proof (iv_A c s gh P I) as A. pose proof (iv_thr c s gh P I t l HP) as HT.
    assert (Hac : after_count (p_pc l) = true) by (rewrite Hpc; reflexivity).
    destruct (idx_of_count s gh t l A HT Hac) as (Hidx & Hp & Hgok).
    destruct HT as (H1 & _). specialize (H1 Hac).
    set (raw := sh_tail s (r_idx l)). set (l1 := pl_raw l raw).
    assert (Hni : inflight (p_pc l) = false) by (rewrite Hpc; reflexivity).
    assert (Hfin : forall r, AppInv c s gh (pupd P t (finish r l1))).
    { intros r. unfold finish. subst l1. cbn [pl_raw p_todo p_budget p_res].
      change (p_start (match r with Ok _ => tl (p_todo l) | _ => p_todo l end) (p_budget l) (p_res l ++ [r])) with (finish r l).
      apply step_finish; auto. rewrite Hni. discriminate. }
    unfold after_read_tail.
    destruct (negb (p_count l1 =? wrap32 (r_tid l1 - c_init c))) eqn:Econs; [apply Hfin|].
    assert (Hgen : tg c s (p_count l mod 3) = p_count l).
    { subst l1. cbn [pl_raw p_count] in Econs. unfold r_tid in Econs. cbn [pl_raw p_raw] in Econs.
      unfold tg, gen_of. subst raw. rewrite Hidx in Econs. lia. }
    destruct (iv_tail c s gh A _ Hp) as (T1 & T2 & T3 & T4).
    assert (Hthr : forall pc, pc = PFaa \/ pc = PBackPressure -> thr_ok c s gh t (pl_pc l1 pc)).
    { intros pc Hpc'. unfold thr_ok. subst l1. cbn [pl_pc pl_raw p_pc p_count p_raw].
      split; [intros _; assumption|]. split.
      - intros _. exists (toff s (p_count l mod 3)). subst raw. rewrite Hidx. rewrite T1 at 1. rewrite Hgen.
        repeat split; try lia.
      - destruct Hpc' as [-> | ->]; cbn; repeat split; intros; discriminate. }
    assert (Hloc : forall pc, pc = PFaa \/ pc = PBackPressure -> AppInv c s gh (pupd P t (pl_pc l1 pc))).
    { intros pc Hpc'. apply (step_local s gh P t l); auto. rewrite Hni. discriminate. }
    destruct (r_pos c l1 <? p_limit l1).
    - destruct (is_fragmented c (mlen l1) && (max_msg c <? mlen l1)); [apply Hfin | apply Hloc; auto].
    - destruct (max_pos c <=? r_pos c l1 + mlen l1); [apply Hfin | apply Hloc; auto]. Qed.

  Lemma step_PBackPressure s gh P t l r :
    AppInv c s gh P -> P t = Some l -> p_pc l = PBackPressure -> AppInv c s gh (pupd P t (finish r l)).
  Proof. intros I HP Hpc. apply step_finish; auto. rewrite Hpc. discriminate. Qed.

  Ltac simpl_pl :=
    cbn [pl_pc pl_limit pl_count pl_raw pl_faa pl_frag pl_next p_pc p_todo p_budget p_res p_limit p_count p_raw p_faa
         p_foff p_rem p_flags p_next] in *.
  Ltac unfold_loc := unfold my_entry, f_off, f_tid, r_off, r_tid, mlen, cur_msg, next_index, next_tid in *.
  Ltac phases := cbn [after_count after_tail inflight writing padding rotating] in *.

  (* ---- rotate_log: steps that do not change the shared state ---- *)
  Lemma next_idx s gh t l : TailInv c s gh -> thr_ok c s gh t l -> after_count (p_pc l) = true ->
    next_index l = (p_count l + 1) mod 3 /\ 0 <= (p_count l + 1) mod 3 < 3.
  Proof. intros A HT Hac. destruct HT as (H1 & _). specialize (H1 Hac).
    pose proof (iv_count c s gh A) as Hc. pose proof (wf_n0 c W) as Hn0. unfold GB in *.
    split; [unfold next_index; apply idx_count; unfold two31; lia | apply Z.mod_pos_bound; lia]. Qed.

  (* moving between the program counters of rotate_log keeps the thread's part of the invariant *)
  Lemma thr_rot s gh t l pc v :
    rotating (p_pc l) = true -> rotating pc = true -> thr_ok c s gh t l ->
    (pc = RCasTail -> term_id_of v = tid_of c (p_count l - 2)) ->
    (pc = RCasCount -> p_count l < sh_count s \/ tg c s ((p_count l + 1) mod 3) = p_count l + 1) ->
    thr_ok c s gh t (pl_next l pc v).
  Proof. intros Hr Hr' HT Ha Hb. destruct l as [pc0 todo bud res lim cnt raw faa foff rem fl nxt].
    unfold thr_ok in *. unfold_loc. simpl_pl.
    destruct HT as (H1 & H2 & H3 & H4 & H5 & H6 & H7 & H8 & H9).
    destruct pc0; try discriminate Hr; destruct pc; try discriminate Hr'; phases;
      (split; [exact H1|]); (split; [exact H2|]); (split; [exact H3|]);
      (split; [intros; discriminate|]); (split; [intros; discriminate|]); (split; [exact H6|]);
      (split; [intros; try discriminate; auto | split; intros; try discriminate; auto]). Qed.

  Lemma rot_next_tid s gh t l : thr_ok c s gh t l -> after_tail (p_pc l) = true ->
    wrap32 (next_tid l - PARTITION_COUNT) = tid_of c (p_count l - 2) /\ next_tid l = tid_of c (p_count l + 1).
  Proof. intros (_ & H2 & _) Hat. destruct (H2 Hat) as (o & Hraw & Ho & _).
    unfold next_tid, r_tid. rewrite Hraw, term_id_mk_raw by assumption. rewrite tid_of_succ.
    split; [apply tid_of_expected | reflexivity]. Qed.

  Lemma step_RReadNext s gh P t l :
    AppInv c s gh P -> P t = Some l -> p_pc l = RReadNext ->
    let raw := sh_tail s (next_index l) in
    AppInv c s gh (pupd P t (pl_next l (if term_id_of raw =? wrap32 (next_tid l - PARTITION_COUNT) then RCasTail else RCasCount) raw)).
  Proof. intros I HP Hpc raw. pose proof (iv_A c s gh P I) as A. pose proof (iv_thr c s gh P I t l HP) as HT.
    assert (Hac : after_count (p_pc l) = true) by (rewrite Hpc; reflexivity).
    assert (Hat : after_tail (p_pc l) = true) by (rewrite Hpc; reflexivity).
    destruct (next_idx s gh t l A HT Hac) as (Hq & Hqr).
    destruct (rot_next_tid s gh t l HT Hat) as (Hnt & _). rewrite Hnt.
    apply (step_local s gh P t l); auto.
    { intros _. destruct (term_id_of raw =? _); repeat split; reflexivity. }
    apply thr_rot; auto.
    - rewrite Hpc. reflexivity.
    - destruct (_ =? _); reflexivity.
    - intros E. destruct (term_id_of raw =? tid_of c (p_count l - 2)) eqn:E2; [lia | discriminate].
    - intros E. destruct (term_id_of raw =? tid_of c (p_count l - 2)) eqn:E2; [discriminate|].
      destruct HT as (H1 & _). specialize (H1 Hac).
      destruct (Z.eq_dec (p_count l) (sh_count s)) as [Heq | Hne]; [right | left; lia].
      destruct (iv_tail c s gh A _ Hqr) as (T1 & T2 & _ & T4).
      assert (Hne2 : tg c s ((p_count l + 1) mod 3) <> p_count l - 2).
      { intros Hc. subst raw. rewrite Hq, T1, term_id_mk_raw, Hc in E2 by assumption. lia. }
      pose proof (iv_next c s gh A) as Hn. rewrite <- Heq in Hn. destruct Hn; [contradiction | assumption]. Qed.

  Lemma step_RCasTail_fail s gh P t l :
    AppInv c s gh P -> P t = Some l -> p_pc l = RCasTail -> AppInv c s gh (pupd P t (pl_pc l RReadNext)).
  Proof. intros I HP Hpc. pose proof (iv_thr c s gh P I t l HP) as HT.
    apply (step_local s gh P t l); auto.
    replace (pl_pc l RReadNext) with (pl_next l RReadNext (p_next l)) by (destruct l; reflexivity).
    apply thr_rot; auto; try (intros; discriminate). rewrite Hpc. reflexivity. Qed.

  Lemma step_RCasCount_fail s gh P t l :
    AppInv c s gh P -> P t = Some l -> p_pc l = RCasCount -> AppInv c s gh (pupd P t (finish (Err AdminAction) l)).
  Proof. intros I HP Hpc. pose proof (iv_thr c s gh P I t l HP) as HT.
    apply step_finish; auto. intros _.
    unfold thr_ok in HT. rewrite Hpc in HT. phases.
    destruct HT as (_ & _ & _ & _ & _ & H6 & _). destruct (H6 eq_refl) as (H6a & H6b).
    split; [|assumption]. replace (f_off l + required c (mlen l) <=? TL c) with false by lia. reflexivity. Qed.

  (* ---- a write into the thread's own claim ---- *)
  Lemma TailInv_mem s gh m : TailInv c s gh -> TailInv c (with_mem s m) gh.
  Proof. intros H. destruct H. constructor; assumption. Qed.

  Lemma live_mem s gh m g : live c (with_mem s m) gh g <-> live c s gh g.
  Proof. unfold live, tg. cbn. tauto. Qed.

  Lemma rest_frags_cons l :
    exists r, rest_frags c l = (p_foff l, st6 c (f_tid l) (cur_msg l) (p_foff l) (p_rem l) (p_flags l)) :: r.
  Proof. unfold rest_frags. pose proof (mp_pos c W) as [Hmp _]. rewrite frags_from_step by lia. eexists. reflexivity. Qed.

  (* the offsets a thread in flight may touch all belong to the frames of its claim *)
  Lemma wr_offsets s t l : wr_ok c s t l ->
    In (p_foff l) (map fst (efrags c (p_count l) (my_entry c t l))).
  Proof. intros (_ & done & Hsplit & _). rewrite Hsplit. destruct (rest_frags_cons l) as (r & ->).
    rewrite map_app. apply in_or_app. right. left. reflexivity. Qed.

  Section Write.
    Variables (s : shared) (gh : ghost) (P : nat -> option plocal) (t : nat) (l : plocal) (o : Z) (sl : slot).
    Hypothesis I : AppInv c s gh P.
    Hypothesis HP : P t = Some l.
    Hypothesis Hinf : inflight (p_pc l) = true.
    Hypothesis Hlive : live c s gh (p_count l).
    Hypothesis Ho : In o (map fst (efrags c (p_count l) (my_entry c t l))).
    Let p := p_count l mod 3.
    Let s' := with_mem s (mupd (sh_mem s) p o sl).

    Lemma write_my_claim : In (my_entry c t l) (g_claims gh (p_count l)) /\ c_n0 c <= p_count l /\ 0 <= p < 3.
    Proof. pose proof (iv_thr c s gh P I t l HP) as (_ & _ & H3 & _). destruct (H3 Hinf) as (_ & _ & _ & Hin).
      destruct (iv_ent c s gh P I _ _ Hin) as (Hn0 & _). pose proof (wf_n0 c W).
      repeat split; try assumption; apply Z.mod_pos_bound; lia. Qed.

    Lemma write_mem_other g e o' sl' :
      In e (g_claims gh g) -> live c s gh g -> e <> my_entry c t l -> In (o', sl') (efrags c g e) ->
      sh_mem s' (g mod 3) o' = sh_mem s (g mod 3) o'.
    Proof. intros He Hl Hne Hin. subst s'. cbn [with_mem sh_mem].
      destruct (Z.eq_dec (g mod 3) p) as [Hp | Hp]; [|apply mupd_other_part; assumption].
      rewrite Hp. apply mupd_other_off. intros ->.
      destruct Hl as (Hl1 & _). destruct Hlive as (Hv1 & _). rewrite Hp in Hl1. unfold p in Hl1.
      assert (Hg : g = p_count l) by congruence. clear Hl1 Hp. subst g.
      destruct write_my_claim as (Hmine & _).
      apply (offs_disjoint c W s gh P (p_count l) e (my_entry c t l) o (iv_A c s gh P I) (iv_ent c s gh P I) Hv1 He Hmine Hne).
      - apply in_map_iff. exists (o, sl'). auto.
      - assumption. Qed.

    Lemma write_frame : AppInvX c s' gh P t.
    Proof. pose proof (iv_A c s gh P I) as A. destruct write_my_claim as (Hmine & Hn0 & Hp).
      constructor.
      - apply TailInv_mem. assumption.
      - intros g e He Hne. destruct (iv_ent c s gh P I g e He) as (H1 & H2 & H3 & H4 & l0 & HP0 & Hj & Hin & Hdone).
        repeat (split; [assumption|]). exists l0. repeat (split; [assumption|]).
        intros Hlt. destruct (Hdone Hlt) as (D1 & D2). split; [assumption|].
        intros Hl o' sl' Hin'. pose proof (proj1 (live_mem _ _ _ _) Hl) as Hl0; clear Hl; rename Hl0 into Hl. rewrite (write_mem_other g e o' sl'); auto.
        intros ->. apply Hne. reflexivity.
      - intros t' l' Hne HP'. pose proof (iv_thr c s gh P I t' l' HP') as HT.
        unfold thr_ok in *. destruct HT as (H1 & H2 & H3 & H4 & H5 & H6 & H7 & H8 & H9).
        assert (Hmine' : inflight (p_pc l') = true -> In (my_entry c t' l') (g_claims gh (p_count l')) /\ my_entry c t' l' <> my_entry c t l).
        { intros Hi. destruct (H3 Hi) as (_ & _ & _ & Hin). split; [assumption|]. intros E.
          apply (f_equal e_t) in E. cbn in E. contradiction. }
        split; [exact H1|]. split; [exact H2|]. split; [exact H3|].
        split; [|split; [|split; [|split; [exact H7 | split; [exact H8 | exact H9]]]]].
        + intros Hw. destruct (H4 Hw) as (L & B & (R0 & done & Hsplit & Hd & Hc & Hr)).
          assert (Hi : inflight (p_pc l') = true) by (destruct (p_pc l'); try discriminate; reflexivity).
          destruct (Hmine' Hi) as (M1 & M2).
          split; [apply live_mem; assumption|]. split; [assumption|]. split; [assumption|].
          exists done. split; [assumption|].
          assert (Hall : forall o' sl', In (o', sl') (efrags c (p_count l') (my_entry c t' l')) ->
                     sh_mem s' (p_count l' mod 3) o' = sh_mem s (p_count l' mod 3) o').
          { intros. eapply write_mem_other; eauto. }
          destruct (rest_frags_cons l') as (r & Hrest). rewrite Hrest in *. cbn [tl] in *.
          split; [|split].
          * intros o' sl' Hin. rewrite (Hall o' sl'); [apply Hd; assumption | rewrite Hsplit; apply in_or_app; left; assumption].
          * rewrite (Hall (p_foff l') (st6 c (f_tid l') (cur_msg l') (p_foff l') (p_rem l') (p_flags l'))); [assumption | rewrite Hsplit; apply in_or_app; right; left; reflexivity].
          * intros o' sl' Hin. rewrite (Hall o' sl'); [apply (Hr o' sl'); assumption | rewrite Hsplit; apply in_or_app; right; right; assumption].
        + intros Hw. destruct (H5 Hw) as (L & B & Hc).
          assert (Hi : inflight (p_pc l') = true) by (destruct (p_pc l'); try discriminate; reflexivity).
          destruct (Hmine' Hi) as (M1 & M2).
          split; [apply live_mem; assumption|]. split; [assumption|].
          rewrite (write_mem_other (p_count l') (my_entry c t' l') (f_off l') (pd4 c (tid_of c (p_count l')) (f_off l'))); auto.
          unfold efrags. cbn [my_entry e_a e_b].
          replace (f_off l' + required c (mlen l') <=? TL c) with false by lia.
          replace (f_off l' <? TL c) with true by lia. left. reflexivity.
        + intros Hw. destruct (H6 Hw) as (B & Hc). split; [assumption|].
          assert (Hi : inflight (p_pc l') = true) by (destruct (p_pc l'); try discriminate; reflexivity).
          destruct (Hmine' Hi) as (M1 & M2).
          intros Hl o' sl' Hin. pose proof (proj1 (live_mem _ _ _ _) Hl) as Hl0; clear Hl; rename Hl0 into Hl. rewrite (write_mem_other (p_count l') (my_entry c t' l') o' sl'); auto.
      - intros p' Hp'. destruct (iv_mem c s gh P I p' Hp') as (M1 & M2). unfold mem_ok. subst s'.
        cbn [with_mem sh_mem]. change (tg c (with_mem s (mupd (sh_mem s) p o sl)) p') with (tg c s p').
        destruct Hlive as (Hv1 & Hv2). fold p in Hv1.
        split.
        + intros Hc o'. destruct (Z.eq_dec p' p) as [-> | Hpp]; [|rewrite mupd_other_part by assumption; apply M1; assumption].
          rewrite Hv1 in Hc. destruct Hc as [Hc | Hc]; [lia | congruence].
        + intros Hg Hcl o' Hnz.
          destruct (Z.eq_dec p' p) as [-> | Hpp]; [|rewrite mupd_other_part in Hnz by assumption; apply M2; assumption].
          destruct (Z.eq_dec o' o) as [-> | Hoo]; [|rewrite mupd_other_off in Hnz by assumption; apply M2; assumption].
          rewrite Hv1. exists (my_entry c t l). split; assumption. Qed.

    (* the thread's own finished claims are not touched by the write *)
    Lemma write_own_done g e :
      In e (g_claims gh g) -> e_t e = t -> (e_j e < length (p_res l))%nat -> live c s' gh g ->
      live c s gh g /\ forall o' sl', In (o', sl') (efrags c g e) -> sh_mem s' (g mod 3) o' = sh_mem s (g mod 3) o'.
    Proof. intros He Ht Hlt Hl. pose proof (proj1 (live_mem _ _ _ _) Hl) as Hl0; clear Hl; rename Hl0 into Hl. split; [assumption|]. intros o' sl' Hin.
      eapply write_mem_other; eauto. intros ->. cbn in Hlt. lia. Qed.
  End Write.

  Lemma step_write s gh P t l o sl l' :
    AppInv c s gh P -> P t = Some l -> inflight (p_pc l) = true -> live c s gh (p_count l) ->
    In o (map fst (efrags c (p_count l) (my_entry c t l))) ->
    p_res l' = p_res l -> inflight (p_pc l') = true -> my_entry c t l' = my_entry c t l -> p_count l' = p_count l ->
    thr_ok c (with_mem s (mupd (sh_mem s) (p_count l mod 3) o sl)) gh t l' ->
    AppInv c (with_mem s (mupd (sh_mem s) (p_count l mod 3) o sl)) gh (pupd P t l').
  Proof. intros I HP Hinf Hl Ho Hres Hinf' Hme Hcnt HT.
    apply close; [apply write_frame; assumption | | assumption].
    intros g e He Ht. eapply own_ent_nofinish with (s := s) (gh := gh) (l := l); eauto.
    - apply (iv_ent c s gh P I); assumption.
    - intros Hlt Hlv. eapply write_own_done; eauto. Qed.

  (* the thread's clauses that do not look at the term memory, under a memory update and a move inside the writing phase *)
  Lemma wr_clauses s gh t l : thr_ok c s gh t l -> writing (p_pc l) = true ->
    c_n0 c <= p_count l <= sh_count s /\
    (exists o, p_raw l = mk_raw c (p_count l) o /\ 0 <= o < two32 /\ (tg c s (p_count l mod 3) = p_count l -> o <= toff s (p_count l mod 3))) /\
    (f_tid l = tid_of c (p_count l) /\ 0 <= f_off l < two32 /\ r_off l <= f_off l /\ In (my_entry c t l) (g_claims gh (p_count l))) /\
    live c s gh (p_count l) /\ f_off l + required c (mlen l) <= TL c /\ wr_ok c s t l.
  Proof. intros (H1 & H2 & H3 & H4 & _) Hw.
    assert (A1 : after_count (p_pc l) = true) by (destruct (p_pc l); try discriminate; reflexivity).
    assert (A2 : after_tail (p_pc l) = true) by (destruct (p_pc l); try discriminate; reflexivity).
    assert (A3 : inflight (p_pc l) = true) by (destruct (p_pc l); try discriminate; reflexivity).
    destruct (H4 Hw) as (L & B & Wr). auto. Qed.

  Lemma my_entry_laid s gh t l : thr_ok c s gh t l -> writing (p_pc l) = true ->
    laid c (f_off l) (efrags c (p_count l) (my_entry c t l)) (f_off l + required c (mlen l)).
  Proof. intros HT Hw. destruct (wr_clauses s gh t l HT Hw) as (_ & _ & _ & _ & B & _).
    apply (efrags_data_laid c (p_count l) (my_entry c t l) W); cbn [my_entry e_a e_b e_msg]; [assumption | reflexivity]. Qed.

  (* one access of the data-frame burst that does not commit the frame *)
  Lemma step_write_data s gh P t l pc' sl :
    AppInv c s gh P -> P t = Some l -> writing (p_pc l) = true -> writing pc' = true ->
    stage c (pl_pc l pc') = sl ->
    (pc' = PFlags -> is_fragmented c (mlen l) = true) ->
    AppInv c (with_mem s (mupd (sh_mem s) (r_idx l) (p_foff l) sl)) gh (pupd P t (pl_pc l pc')).
  Proof. intros I HP Hw Hw' Hst Hfl. pose proof (iv_thr c s gh P I t l HP) as HT. pose proof (iv_A c s gh P I) as A.
    assert (A1 : after_count (p_pc l) = true) by (destruct (p_pc l); try discriminate; reflexivity).
    assert (A3 : inflight (p_pc l) = true) by (destruct (p_pc l); try discriminate; reflexivity).
    destruct (idx_of_count s gh t l A HT A1) as (Hidx & Hp & _). rewrite Hidx.
    destruct (wr_clauses s gh t l HT Hw) as (C1 & C2 & C3 & L & B & Wr).
    pose proof (my_entry_laid s gh t l HT Hw) as Hlaid.
    apply (step_write s gh P t l); auto.
    - apply (wr_offsets s t l Wr).
    - destruct pc'; try discriminate; reflexivity.
    - destruct Wr as (R0 & done & Hsplit & Hd & Hc & Hr).
      destruct (rest_frags_cons l) as (r & Hrest).
      rewrite Hsplit, Hrest in Hlaid. destruct (laid_mid_distinct _ _ _ _ _ _ _ Hlaid) as (D1 & D2).
      unfold thr_ok.
      assert (E1 : p_count (pl_pc l pc') = p_count l) by (destruct l; reflexivity).
      assert (E2 : my_entry c t (pl_pc l pc') = my_entry c t l) by (destruct l; reflexivity).
      assert (E3 : rest_frags c (pl_pc l pc') = rest_frags c l) by (destruct l; reflexivity).
      assert (E4 : p_pc (pl_pc l pc') = pc') by (destruct l; reflexivity).
      assert (E5 : p_raw (pl_pc l pc') = p_raw l /\ f_tid (pl_pc l pc') = f_tid l /\ f_off (pl_pc l pc') = f_off l /\
                   r_off (pl_pc l pc') = r_off l /\ mlen (pl_pc l pc') = mlen l /\ p_rem (pl_pc l pc') = p_rem l /\
                   p_foff (pl_pc l pc') = p_foff l)
        by (destruct l; repeat split; reflexivity).
      destruct E5 as (E5 & E6 & E7 & E8 & E9 & E10 & E11).
      rewrite E1, E2, E4, E5, E6, E7, E8, E9.
      assert (B1 : after_count pc' = true) by (destruct pc'; try discriminate; reflexivity).
      assert (B2 : after_tail pc' = true) by (destruct pc'; try discriminate; reflexivity).
      assert (B3 : inflight pc' = true) by (destruct pc'; try discriminate; reflexivity).
      assert (B5 : padding pc' = false) by (destruct pc'; try discriminate; reflexivity).
      assert (B6 : rotating pc' = false) by (destruct pc'; try discriminate; reflexivity).
      rewrite B5, B6.
      split; [intros _; exact C1|]. split; [intros _; exact C2|]. split; [intros _; exact C3|].
      split; [|split; [intros; discriminate | split; [intros; discriminate | split; [intros ->; discriminate | split; [intros ->; discriminate | assumption]]]]].
      intros _. split; [apply live_mem; assumption|]. split; [assumption|].
      unfold wr_ok. rewrite E1, E2, E3, E10, E11. split; [assumption|]. exists done. split; [assumption|].
      rewrite Hrest. cbn [tl with_mem sh_mem].
      split; [|split].
      + intros o sl0 Hin. rewrite mupd_other_off; [apply Hd; assumption | specialize (D1 o sl0 Hin); lia].
      + rewrite mupd_same. symmetry. assumption.
      + intros o sl0 Hin. rewrite mupd_other_off; [apply (Hr o sl0); rewrite Hrest; assumption | specialize (D2 o sl0 Hin); lia]. Qed.

  (* ---- arithmetic of positions ---- *)
  Lemma r_pos_val l g o : 0 <= g <= GB -> p_raw l = mk_raw c g o -> 0 <= o < two32 ->
    r_pos c l = g * TL c + o /\ r_off l = o /\ r_tid l = tid_of c g.
  Proof. intros Hg Hraw Ho. unfold r_pos, r_tid, r_off. rewrite Hraw, term_id_mk_raw, lo32u_mk_raw by assumption.
    rewrite begin_pos; [auto | apply (wf_init c W) | unfold GB, two31 in *; lia | pose proof (wf_bits c W); lia]. Qed.

  Lemma wrap32_le o : 0 <= o < two32 -> wrap32 o <= o /\ (o < two31 -> wrap32 o = o).
  Proof. intros Ho. unfold wrap32, two31, two32 in *. split.
    - destruct (Z_lt_ge_dec o 2147483648).
      + rewrite Z.mod_small by lia. lia.
      + replace (o + 2147483648) with ((o - 2147483648) + 1 * 4294967296) by ring.
        rewrite Z_mod_plus_full, Z.mod_small by lia. lia.
    - intros. rewrite Z.mod_small by lia. lia. Qed.

  Lemma after_eol_rot l g o : 0 <= g <= GB -> p_raw l = mk_raw c g o -> 0 <= o < two32 ->
    after_eol c l = pl_pc l RReadNext.
  Proof. intros Hg Hraw Ho. unfold after_eol. destruct (r_pos_val l g o Hg Hraw Ho) as (-> & -> & _).
    destruct (wrap32_le o Ho) as (Hw & _). destruct (TL_bounds c W) as (T1 & _).
    unfold max_pos. replace (TL c * two31 <? g * TL c + o + wrap32 o) with false; [reflexivity|].
    unfold GB, two31, two32 in *. symmetry. apply Z.ltb_ge. nia. Qed.

  Lemma ok_position_val l g o : 0 <= g <= GB -> p_raw l = mk_raw c g o -> 0 <= o <= f_off l -> f_off l < TL c ->
    0 <= required c (mlen l) ->
    ok_position c l = Ok (g * TL c + (f_off l + required c (mlen l))).
  Proof. intros Hg Hraw Ho Hf Hr. destruct (TL_bounds c W) as (T1 & _).
    assert (Ho2 : 0 <= o < two32) by (unfold two32; lia).
    unfold ok_position. destruct (r_pos_val l g o Hg Hraw Ho2) as (-> & -> & _).
    destruct (wrap32_le o Ho2) as (_ & Hw). rewrite Hw by (unfold two31; lia).
    replace (g * TL c + o - o + (f_off l + required c (mlen l))) with (g * TL c + (f_off l + required c (mlen l))) by ring.
    replace (0 <=? g * TL c + (f_off l + required c (mlen l))) with true by (symmetry; apply Z.leb_le; nia). reflexivity. Qed.

  (* ---- committing a data frame ---- *)
  Lemma step_PPosLen s gh P t l :
    AppInv c s gh P -> P t = Some l -> p_pc l = PPosLen ->
    let m := sh_mem s in
    AppInv c (with_mem s (mupd m (r_idx l) (p_foff l) (set_len (m (r_idx l) (p_foff l)) (frag_len c l)))) gh
           (pupd P t (after_commit c l)).
  Proof. intros I HP Hpc m. pose proof (iv_thr c s gh P I t l HP) as HT. pose proof (iv_A c s gh P I) as A.
    assert (Hw : writing (p_pc l) = true) by (rewrite Hpc; reflexivity).
    assert (A1 : after_count (p_pc l) = true) by (rewrite Hpc; reflexivity).
    assert (A3 : inflight (p_pc l) = true) by (rewrite Hpc; reflexivity).
    destruct (idx_of_count s gh t l A HT A1) as (Hidx & Hp & _). rewrite Hidx.
    destruct (wr_clauses s gh t l HT Hw) as (C1 & C2 & C3 & L & B & Wr).
    pose proof (my_entry_laid s gh t l HT Hw) as Hlaid.
    pose proof (wr_offsets s t l Wr) as Hoff.
    destruct Wr as (R0 & done & Hsplit & Hd & Hc & Hr).
    pose proof (mp_pos c W) as [Hmp _].
    assert (Hnew : set_len (m (p_count l mod 3) (p_foff l)) (frag_len c l) =
                   st6 c (f_tid l) (cur_msg l) (p_foff l) (p_rem l) (p_flags l)).
    { subst m. rewrite Hc. unfold stage. rewrite Hpc. reflexivity. }
    rewrite Hnew. clear Hnew.
    set (sl := st6 c (f_tid l) (cur_msg l) (p_foff l) (p_rem l) (p_flags l)) in *.
    assert (Hstep := frags_from_step c (f_tid l) (cur_msg l) (p_foff l) (p_rem l) (p_flags l) ltac:(lia)).
    fold (rest_frags c l) in Hstep. fold sl in Hstep.
    unfold after_commit. change (frag_bytes c l) with (fbytes c (p_rem l)). change (frag_len c l) with (flen c (p_rem l)).
    destruct (p_rem l - fbytes c (p_rem l) <=? 0) eqn:Elast.
    - (* last fragment: the offer returns its position *)
      rewrite Hstep in Hsplit, Hr. cbn [tl] in Hr.
      set (s' := with_mem s (mupd m (p_count l mod 3) (p_foff l) sl)).
      apply close; [apply write_frame; assumption | | apply thr_ok_start].
      intros g e He Ht.
      eapply own_ent_finish with (s := s) (gh := gh) (l := l) (r := ok_position c l); eauto.
      + apply (iv_ent c s gh P I); assumption.
      + apply p_res_finish.
      + intros Hlt Hlv. eapply write_own_done; eauto.
      + intros _ _ -> ->. cbn [my_entry e_b].
        destruct C2 as (o & Hraw & Ho & Hle). destruct C3 as (_ & Hf & Hrf & _).
        destruct (r_pos_val l (p_count l) o ltac:(pose proof (iv_count c s gh A); pose proof (wf_n0 c W); lia) Hraw Ho) as (_ & Hro & _).
        pose proof (required_pos c (mlen l) W ltac:(unfold mlen; lia)) as (Rq & _).
        destruct (TL_bounds c W) as (T1 & _).
        split.
        * replace (f_off l + required c (mlen l) <=? TL c) with true by lia.
          apply ok_position_val with (o := o); try assumption; try lia.
          pose proof (iv_count c s gh A). pose proof (wf_n0 c W). lia.
        * intros _ o' sl' Hin. fold (my_entry c t l) in Hin. rewrite Hsplit in Hin.
          rewrite Hsplit in Hlaid. destruct (laid_mid_distinct _ _ _ _ _ _ _ Hlaid) as (D1 & _).
          subst s'. cbn [with_mem sh_mem]. apply in_app_or in Hin. destruct Hin as [Hin | [Hin | []]].
          -- rewrite mupd_other_off; [apply Hd; assumption | specialize (D1 o' sl' Hin); lia].
          -- inversion Hin; subst. apply mupd_same.
    - (* more fragments follow *)
      rewrite Hstep in Hsplit, Hr. cbn [tl] in Hr.
      set (foff' := p_foff l + align (flen c (p_rem l)) FA) in *. set (rem' := p_rem l - fbytes c (p_rem l)) in *.
      set (l' := pl_frag l PNegLen foff' rem' 0).
      assert (Hrest' : rest_frags c l' = frags_from c (f_tid l) (cur_msg l) (Z.to_nat rem') foff' rem' 0) by (destruct l; reflexivity).
      rewrite <- Hrest' in Hsplit, Hr.
      rewrite Hsplit in Hlaid. destruct (laid_mid_distinct _ _ _ _ _ _ _ Hlaid) as (D1 & D2).
      destruct (rest_frags_cons l') as (r' & Hr').
      assert (Hfo : p_foff l' = foff') by (destruct l; reflexivity).
      apply (step_write s gh P t l); auto.
      unfold thr_ok.
      assert (E1 : p_count l' = p_count l) by (destruct l; reflexivity).
      assert (E2 : my_entry c t l' = my_entry c t l) by (destruct l; reflexivity).
      assert (E5 : p_raw l' = p_raw l /\ f_tid l' = f_tid l /\ f_off l' = f_off l /\
                   r_off l' = r_off l /\ mlen l' = mlen l /\ p_rem l' = rem' /\ p_pc l' = PNegLen)
        by (destruct l; repeat split; reflexivity).
      destruct E5 as (E5 & E6 & E7 & E8 & E9 & E10 & E11).
      rewrite E1, E2, E5, E6, E7, E8, E9, E11. phases.
      split; [intros _; exact C1|]. split; [intros _; exact C2|]. split; [intros _; exact C3|].
      split; [|split; [intros; discriminate | split; [intros; discriminate | split; [intros; discriminate | split; intros; discriminate]]]].
      intros _. split; [apply live_mem; assumption|]. split; [assumption|].
      unfold wr_ok. rewrite E1, E2, E10, Hfo. split; [lia|]. exists (done ++ [(p_foff l, sl)]).
      split; [rewrite <- app_assoc; assumption|]. cbn [with_mem sh_mem].
      split; [|split].
      + intros o sl0 Hin. apply in_app_or in Hin. destruct Hin as [Hin | [Hin | []]].
        * rewrite mupd_other_off; [apply Hd; assumption | specialize (D1 o sl0 Hin); lia].
        * inversion Hin; subst. apply mupd_same.
      + rewrite Hr' in Hr, D2. rewrite Hfo in *.
        rewrite mupd_other_off; [|specialize (D2 foff' _ (or_introl eq_refl)); lia].
        unfold stage. rewrite E11. apply (Hr foff' _ (or_introl eq_refl)).
      + intros o sl0 Hin. rewrite Hr' in *. cbn [tl] in Hin.
        rewrite mupd_other_off; [apply (Hr o sl0); right; assumption | specialize (D2 o sl0 (or_intror Hin)); lia]. Qed.

  (* ---- the padding frame ---- *)
  Lemma pad_clauses s gh t l : thr_ok c s gh t l -> padding (p_pc l) = true ->
    c_n0 c <= p_count l <= sh_count s /\
    (exists o, p_raw l = mk_raw c (p_count l) o /\ 0 <= o < two32 /\ (tg c s (p_count l mod 3) = p_count l -> o <= toff s (p_count l mod 3))) /\
    (f_tid l = tid_of c (p_count l) /\ 0 <= f_off l < two32 /\ r_off l <= f_off l /\ In (my_entry c t l) (g_claims gh (p_count l))) /\
    live c s gh (p_count l) /\ f_off l < TL c < f_off l + required c (mlen l) /\
    sh_mem s (p_count l mod 3) (f_off l) = stage c l.
  Proof. intros (H1 & H2 & H3 & _ & H5 & _) Hw.
    assert (A1 : after_count (p_pc l) = true) by (destruct (p_pc l); try discriminate; reflexivity).
    assert (A2 : after_tail (p_pc l) = true) by (destruct (p_pc l); try discriminate; reflexivity).
    assert (A3 : inflight (p_pc l) = true) by (destruct (p_pc l); try discriminate; reflexivity).
    destruct (H5 Hw) as (L & B & Wr). auto. Qed.

  Lemma pad_efrags t l : f_off l < TL c < f_off l + required c (mlen l) ->
    efrags c (p_count l) (my_entry c t l) = [(f_off l, pd4 c (tid_of c (p_count l)) (f_off l))].
  Proof. intros B. unfold efrags. cbn [my_entry e_a e_b].
    replace (f_off l + required c (mlen l) <=? TL c) with false by lia.
    replace (f_off l <? TL c) with true by lia. reflexivity. Qed.

  Lemma step_write_pad s gh P t l pc' sl :
    AppInv c s gh P -> P t = Some l -> padding (p_pc l) = true -> (padding pc' = true \/ pc' = RReadNext) ->
    (padding pc' = true -> stage c (pl_pc l pc') = sl) ->
    (pc' = RReadNext -> sl = pd4 c (f_tid l) (f_off l)) ->
    AppInv c (with_mem s (mupd (sh_mem s) (r_idx l) (f_off l) sl)) gh (pupd P t (pl_pc l pc')).
  Proof. intros I HP Hw Hw' Hst Hst2. pose proof (iv_thr c s gh P I t l HP) as HT. pose proof (iv_A c s gh P I) as A.
    assert (A1 : after_count (p_pc l) = true) by (destruct (p_pc l); try discriminate; reflexivity).
    assert (A3 : inflight (p_pc l) = true) by (destruct (p_pc l); try discriminate; reflexivity).
    destruct (idx_of_count s gh t l A HT A1) as (Hidx & Hp & _). rewrite Hidx.
    destruct (pad_clauses s gh t l HT Hw) as (C1 & C2 & C3 & L & B & Hc).
    pose proof (pad_efrags t l B) as Hef.
    apply (step_write s gh P t l); auto.
    - rewrite Hef. left. reflexivity.
    - destruct Hw' as [Hw' | ->]; [destruct pc'; try discriminate; reflexivity | reflexivity].
    - unfold thr_ok.
      assert (E1 : p_count (pl_pc l pc') = p_count l) by (destruct l; reflexivity).
      assert (E2 : my_entry c t (pl_pc l pc') = my_entry c t l) by (destruct l; reflexivity).
      assert (E4 : p_pc (pl_pc l pc') = pc') by (destruct l; reflexivity).
      assert (E5 : p_raw (pl_pc l pc') = p_raw l /\ f_tid (pl_pc l pc') = f_tid l /\ f_off (pl_pc l pc') = f_off l /\
                   r_off (pl_pc l pc') = r_off l /\ mlen (pl_pc l pc') = mlen l)
        by (destruct l; repeat split; reflexivity).
      destruct E5 as (E5 & E6 & E7 & E8 & E9).
      rewrite E1, E2, E4, E5, E6, E7, E8, E9.
      assert (B1 : after_count pc' = true) by (destruct Hw' as [Hw' | ->]; [destruct pc'; try discriminate; reflexivity | reflexivity]).
      assert (B2 : after_tail pc' = true) by (destruct Hw' as [Hw' | ->]; [destruct pc'; try discriminate; reflexivity | reflexivity]).
      assert (B3 : inflight pc' = true) by (destruct Hw' as [Hw' | ->]; [destruct pc'; try discriminate; reflexivity | reflexivity]).
      assert (B4 : writing pc' = false) by (destruct Hw' as [Hw' | ->]; [destruct pc'; try discriminate; reflexivity | reflexivity]).
      rewrite B4.
      split; [intros _; exact C1|]. split; [intros _; exact C2|]. split; [intros _; exact C3|].
      split; [intros; discriminate|].
      split; [|split; [|split; [|split; [|]]]].
      + intros Hpd. split; [apply live_mem; assumption|]. split; [assumption|].
        cbn [with_mem sh_mem]. rewrite mupd_same. symmetry. apply Hst. assumption.
      + intros Hrot. split; [lia|]. intros _ o sl0 Hin. rewrite Hef in Hin. destruct Hin as [Hin | []].
        inversion Hin; subst. cbn [with_mem sh_mem]. rewrite mupd_same.
        destruct Hw' as [Hw' | ->]; [destruct pc'; discriminate|].
        rewrite (Hst2 eq_refl). destruct C3 as (-> & _). reflexivity.
      + intros ->. destruct Hw' as [Hw' | Hw']; discriminate.
      + intros ->. destruct Hw' as [Hw' | Hw']; discriminate.
      + intros ->. destruct Hw' as [Hw' | Hw']; discriminate. Qed.
End Steps.
