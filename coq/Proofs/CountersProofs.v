(* Lemmas about the counters model (Model/Counters.v): buffer accesses inside the covered geometry,
   the effect of allocate_opt / next_counter_id / write_record, and "an allocation that returns an
   error has changed nothing". *)
Require Import V.Base.MachineInt.
Require Import V.Generated.GenConsts.
Require Import V.Model.Counters.
Require Import V.Oracle.C15Oracle.
From Coq Require Import ZifyBool Lia.
Open Scope Z_scope.

Ltac cs := unfold CL, ML, MAXLAB, MAXKEY, ST_UNUSED, ST_ALLOCATED, ST_RECLAIMED, NOT_FREE, OFF_TYPE, OFF_DEADLINE,
  OFF_KEY, OFF_LLEN, GenConsts.COUNTER_LENGTH, GenConsts.METADATA_LENGTH, GenConsts.MAX_LABEL_LENGTH,
  GenConsts.MAX_KEY_LENGTH, GenConsts.RECORD_UNUSED, GenConsts.RECORD_ALLOCATED, GenConsts.RECORD_RECLAIMED,
  GenConsts.NOT_FREE_TO_REUSE, GenConsts.TYPE_ID_OFFSET, GenConsts.FREE_TO_REUSE_DEADLINE_OFFSET,
  GenConsts.KEY_OFFSET, GenConsts.LABEL_LENGTH_OFFSET in *.

Lemma in_i32_true z : - two31 <= z < two31 -> in_i32 z = true.
Proof. unfold in_i32. lia. Qed.

(* the buffers' geometry the theorems cover *)
Definition geom (s : mgr) : Prop :=
  0 <= nm s /\ nm s * 512 + 512 < two31 /\ 0 <= nv s /\ nv s * 128 + 128 < two31.

Lemma meta_access_ok s id fo len :
  geom s -> 0 <= id < nm s -> 0 <= fo -> 0 <= len -> fo + len <= 512 ->
  meta_access s id fo len = COk (meta s id).
Proof.
  intros (G1 & G2 & _) Hid Hfo Hlen Hfl.
  unfold meta_access, metadata_offset, bcheck, imul, iadd, mcap, bindC. cs. unfold two31 in *.
  rewrite (in_i32_true (id * 512)) by (unfold two31; lia). cbv beta iota.
  rewrite (in_i32_true (id * 512 + fo)) by (unfold two31; lia). cbv beta iota.
  rewrite (in_i32_true (id * 512 + fo + len)) by (unfold two31; lia). cbv beta iota.
  replace ((0 <=? id * 512 + fo) && (0 <=? len) && (id * 512 + fo + len <=? nm s * 512)) with true by lia.
  reflexivity.
Qed.

Lemma val_access_ok s id :
  geom s -> 0 <= id < nv s -> val_access s id = COk (vals s id).
Proof.
  intros (_ & _ & G1 & G2) Hid.
  unfold val_access, counter_offset, bcheck, imul, iadd, vcap, bindC. cs. unfold two31 in *.
  rewrite (in_i32_true (id * 128)) by (unfold two31; lia). cbv beta iota.
  rewrite (in_i32_true (id * 128 + 8)) by (unfold two31; lia). cbv beta iota.
  replace ((0 <=? id * 128) && (0 <=? 8) && (id * 128 + 8 <=? nv s * 128)) with true by lia.
  reflexivity.
Qed.

Lemma max_counter_id_min s : max_counter_id s = Z.min (nv s) (nm s).
Proof. unfold max_counter_id, vcap, mcap. cs. rewrite !Z.div_mul by lia. reflexivity. Qed.

Lemma upd_eq {A} (f : Z -> A) i x : upd f i x i = x.
Proof. unfold upd. rewrite Z.eqb_refl. reflexivity. Qed.
Lemma upd_neq {A} (f : Z -> A) i x j : j <> i -> upd f i x j = f j.
Proof. unfold upd. intros. destruct (j =? i) eqn:E; [lia | reflexivity]. Qed.


Lemma geom_set_meta s id r : geom (set_meta s id r) <-> geom s.
Proof. unfold geom. cbn. tauto. Qed.
Lemma geom_set_val s id v : geom (set_val s id v) <-> geom s.
Proof. unfold geom. cbn. tauto. Qed.
Lemma geom_set_free_list s l : geom (set_free_list s l) <-> geom s.
Proof. unfold geom. cbn. tauto. Qed.
Lemma geom_set_hwm s h : geom (set_hwm s h) <-> geom s.
Proof. unfold geom. cbn. tauto. Qed.
Lemma geom_set_now s h : geom (set_now s h) <-> geom s.
Proof. unfold geom. cbn. tauto. Qed.

Lemma meta_set_meta_eq s id r : meta (set_meta s id r) id = r.
Proof. cbn. apply upd_eq. Qed.
Lemma meta_set_meta_neq s id r j : j <> id -> meta (set_meta s id r) j = meta s j.
Proof. cbn. apply upd_neq. Qed.

Lemma put_meta_ok s id fo len f :
  geom s -> 0 <= id < nm s -> 0 <= fo -> 0 <= len -> fo + len <= 512 ->
  put_meta id fo len f s = (COk tt, set_meta s id (f (meta s id))).
Proof. intros. unfold put_meta. rewrite meta_access_ok by assumption. reflexivity. Qed.

Lemma put_val_ok s id v :
  geom s -> 0 <= id < nv s -> put_val id v s = (COk tt, set_val s id v).
Proof. intros. unfold put_val. rewrite val_access_ok by assumption. reflexivity. Qed.

Definition key_apply (ks : keysrc) (r : rec) : rec :=
  match ks with KOpt k => with_key r k | KFunc k => with_key r k | _ => r end.
Definition newrec (r : rec) (t : Z) (ks : keysrc) (label : list Z) : rec :=
  with_state (with_label (key_apply ks (with_type_deadline r t NOT_FREE)) label) ST_ALLOCATED.

(* everything but the metadata record [id] is as before *)
Definition frame_meta (s s1 : mgr) (id : Z) : Prop :=
  (forall j, j <> id -> meta s1 j = meta s j) /\ vals s1 = vals s /\ free_list s1 = free_list s /\
  hwm s1 = hwm s /\ now s1 = now s /\ timeout s1 = timeout s /\ nm s1 = nm s /\ nv s1 = nv s.

Definition key_fits (ks : keysrc) : Prop :=
  match ks with KOpt k => zlen k <= 112 | KFunc k => zlen k <= 112 | KNone => True | KBoth _ _ => False end.

Lemma write_record_ok s id t ks label :
  geom s -> 0 <= id < nm s -> zlen label <= 380 -> key_fits ks ->
  exists s1, write_record id t ks label s = (COk id, s1) /\
             meta s1 id = newrec (meta s id) t ks label /\ frame_meta s s1 id.
Proof.
  intros G Hid Hl Hk. unfold write_record, bindM.
  rewrite put_meta_ok by (auto; cs; lia).
  set (s1 := set_meta s id _).
  assert (G1 : geom s1) by (apply geom_set_meta; exact G).
  assert (N1 : nm s1 = nm s) by reflexivity.
  assert (Hz : 0 <= zlen label) by (unfold zlen; lia).
  destruct ks as [|k|k|k1 k2]; cbn [key_fits] in Hk; try contradiction.
  - unfold retM.
    rewrite put_meta_ok by (auto; cs; lia).
    set (s2 := set_meta s1 id _).
    assert (G2 : geom s2) by (apply geom_set_meta; exact G1).
    rewrite put_meta_ok by (auto; cs; lia).
    eexists. split; [reflexivity|]. split.
    + cbn [meta set_meta]. rewrite upd_eq. subst s2. cbn [meta set_meta]. rewrite upd_eq.
      subst s1. cbn [meta set_meta]. rewrite upd_eq. reflexivity.
    + unfold frame_meta. cbn. repeat split; try reflexivity.
      intros j Hj. rewrite !upd_neq by assumption. reflexivity.
  - assert (Hzk : 0 <= zlen k) by (unfold zlen; lia).
    rewrite put_meta_ok by (auto; cs; lia).
    set (s2 := set_meta s1 id _).
    assert (G2 : geom s2) by (apply geom_set_meta; exact G1).
    rewrite put_meta_ok by (auto; cs; lia).
    set (s3 := set_meta s2 id _).
    assert (G3 : geom s3) by (apply geom_set_meta; exact G2).
    rewrite put_meta_ok by (auto; cs; lia).
    eexists. split; [reflexivity|]. split.
    + cbn [meta set_meta]. rewrite upd_eq. subst s3. cbn [meta set_meta]. rewrite upd_eq.
      subst s2. cbn [meta set_meta]. rewrite upd_eq. subst s1. cbn [meta set_meta]. rewrite upd_eq. reflexivity.
    + unfold frame_meta. cbn. repeat split; try reflexivity.
      intros j Hj. rewrite !upd_neq by assumption. reflexivity.
  - assert (Hzk : 0 <= zlen k) by (unfold zlen; lia).
    unfold readM. rewrite meta_access_ok by (auto; cs; lia).
    replace (zlen k >? MAXKEY) with false by (cs; lia).
    rewrite put_meta_ok by (auto; cs; lia).
    set (s2 := set_meta s1 id _).
    assert (G2 : geom s2) by (apply geom_set_meta; exact G1).
    rewrite put_meta_ok by (auto; cs; lia).
    set (s3 := set_meta s2 id _).
    assert (G3 : geom s3) by (apply geom_set_meta; exact G2).
    rewrite put_meta_ok by (auto; cs; lia).
    eexists. split; [reflexivity|]. split.
    + cbn [meta set_meta]. rewrite upd_eq. subst s3. cbn [meta set_meta]. rewrite upd_eq.
      subst s2. cbn [meta set_meta]. rewrite upd_eq. subst s1. cbn [meta set_meta]. rewrite upd_eq. reflexivity.
    + unfold frame_meta. cbn. repeat split; try reflexivity.
      intros j Hj. rewrite !upd_neq by assumption. reflexivity.
Qed.


(* ---- the free-list search, as a pure function ---- *)
Fixpoint find_split (p : Z -> bool) (l : list Z) : option (Z * list Z) :=
  match l with
  | [] => None
  | id :: tl => if p id then Some (id, tl) else
                match find_split p tl with Some (x, rest) => Some (x, id :: rest) | None => None end
  end.

Definition cooled_m (s : mgr) (id : Z) : bool := wrap64 (r_deadline (meta s id)) <=? wrap64 (now s).

Lemma find_reusable_pure s l :
  geom s -> (forall id, In id l -> 0 <= id < nm s) ->
  find_reusable s l = COk (find_split (cooled_m s) l).
Proof.
  intros G. induction l as [|id tl IH]; intros Hin; cbn [find_reusable find_split].
  - reflexivity.
  - unfold reusable. rewrite meta_access_ok by (auto; try (cs; lia); apply Hin; left; reflexivity).
    cbn [bindC]. fold (cooled_m s id). destruct (cooled_m s id); [reflexivity|].
    rewrite IH by (intros; apply Hin; right; assumption). cbn [bindC]. reflexivity.
Qed.

Lemma find_split_some p l x rest :
  find_split p l = Some (x, rest) -> p x = true /\ In x l /\ rest = remove_first x l.
Proof.
  revert x rest. induction l as [|id tl IH]; intros x rest H; cbn [find_split] in H; [discriminate|].
  destruct (p id) eqn:E.
  - inversion H; subst. cbn [remove_first]. rewrite Z.eqb_refl. auto with datatypes.
  - destruct (find_split p tl) as [[y r]|] eqn:F; [|discriminate]. inversion H; subst.
    destruct (IH _ _ eq_refl) as (A & B & C). split; [exact A|]. split; [right; exact B|].
    cbn [remove_first]. destruct (id =? x) eqn:Q.
    + assert (id = x) by lia. subst. congruence.
    + rewrite C. reflexivity.
Qed.

Lemma find_split_none p l : find_split p l = None -> existsb p l = false.
Proof.
  induction l as [|id tl IH]; intros H; cbn [find_split existsb] in *; [reflexivity|].
  destruct (p id); [discriminate|]. destruct (find_split p tl) as [[y r]|]; [discriminate|].
  rewrite IH by reflexivity. reflexivity.
Qed.

Lemma existsb_ext_in (p q : Z -> bool) l : (forall x, In x l -> p x = q x) -> existsb p l = existsb q l.
Proof. induction l; intros H; cbn; [reflexivity|]. rewrite H by (left; reflexivity). rewrite IHl; auto with datatypes. Qed.

Lemma in_remove_first x l y : NoDup l -> (In y (remove_first x l) <-> In y l /\ y <> x).
Proof.
  induction l as [|a t IH]; intros ND; cbn [remove_first].
  - cbn. tauto.
  - inversion ND; subst. destruct (a =? x) eqn:E.
    + assert (a = x) by lia. subst. cbn. split.
      * intros Hy. split; [right; exact Hy|]. intro; subst. contradiction.
      * intros [[H|H] N]; [congruence|exact H].
    + cbn. rewrite IH by assumption. split.
      * intros [H|[H N]]; [subst; split; [left; reflexivity|lia]|split; [right; exact H|exact N]].
      * intros [[H|H] N]; [left; exact H|right; split; assumption].
Qed.

Lemma nodup_remove_first x l : NoDup l -> NoDup (remove_first x l).
Proof.
  induction l as [|a t IH]; intros ND; cbn [remove_first]; [constructor|].
  inversion ND; subst. destruct (a =? x); [assumption|].
  constructor; [|apply IH; assumption]. rewrite in_remove_first by assumption. tauto.
Qed.

Lemma in_remove_all x l y : In y (remove_all x l) <-> In y l /\ y <> x.
Proof.
  induction l as [|a t IH]; cbn [remove_all]; [cbn; tauto|].
  destruct (a =? x) eqn:E.
  - rewrite IH. cbn. split; [tauto|]. intros [[H|H] N]; [lia|tauto].
  - cbn. rewrite IH. split.
    + intros [H|[H N]]; [subst; split; [left; reflexivity|lia]|tauto].
    + tauto.
Qed.

Lemma memb_in x l : memb x l = true <-> In x l.
Proof.
  unfold memb. rewrite existsb_exists. split.
  - intros (y & H & E). assert (x = y) by lia. subst. exact H.
  - intros H. exists x. split; [exact H|lia].
Qed.
Lemma memb_false x l : memb x l = false <-> ~ In x l.
Proof. rewrite <- memb_in. destruct (memb x l); split; congruence. Qed.

(* ---- next_counter_id ---- *)
Lemma next_id_reuse s id rest :
  geom s -> (forall x, In x (free_list s) -> 0 <= x < nm s) ->
  find_split (cooled_m s) (free_list s) = Some (id, rest) -> 0 <= id < nv s ->
  next_counter_id s = (COk id, set_val (set_free_list s rest) id 0).
Proof.
  intros G Hin F Hid. unfold next_counter_id, bindM, readM.
  rewrite find_reusable_pure by assumption. rewrite F. unfold modM, retM.
  rewrite put_val_ok by (try apply geom_set_free_list; assumption). reflexivity.
Qed.

Lemma next_id_fresh s :
  geom s -> (forall x, In x (free_list s) -> 0 <= x < nm s) ->
  find_split (cooled_m s) (free_list s) = None -> 0 <= hwm s < Z.min (nm s) (nv s) ->
  next_counter_id s = (COk (hwm s), set_hwm s (hwm s + 1)).
Proof.
  intros G Hin F Hh. unfold next_counter_id, bindM, readM.
  rewrite find_reusable_pure by assumption. rewrite F. unfold modM, retM.
  destruct G as (G1 & G2 & G3 & G4).
  unfold check_counters_capacity, check_meta_data_capacity, counter_offset, metadata_offset, imul, iadd, vcap, mcap, bindC.
  cs. unfold two31 in *.
  rewrite (in_i32_true (hwm s * 128)) by (unfold two31; lia). cbv beta iota.
  rewrite (in_i32_true (hwm s * 128 + 128)) by (unfold two31; lia). cbv beta iota.
  replace (hwm s * 128 + 128 >? nv s * 128) with false by lia. cbv beta iota.
  rewrite (in_i32_true (hwm s * 512)) by (unfold two31; lia). cbv beta iota.
  rewrite (in_i32_true (hwm s * 512 + 512)) by (unfold two31; lia). cbv beta iota.
  replace (hwm s * 512 + 512 >? nm s * 512) with false by lia. cbv beta iota.
  rewrite (in_i32_true (hwm s + 1)) by (unfold two31; lia). reflexivity.
Qed.

Lemma next_id_full s :
  geom s -> (forall x, In x (free_list s) -> 0 <= x < nm s) ->
  find_split (cooled_m s) (free_list s) = None -> hwm s = Z.min (nm s) (nv s) ->
  exists e, next_counter_id s = (CErr e, s).
Proof.
  intros G Hin F Hh. unfold next_counter_id, bindM, readM.
  rewrite find_reusable_pure by assumption. rewrite F. unfold modM, retM.
  destruct G as (G1 & G2 & G3 & G4).
  unfold check_counters_capacity, check_meta_data_capacity, counter_offset, metadata_offset, imul, iadd, vcap, mcap, bindC.
  cs. unfold two31 in *.
  rewrite (in_i32_true (hwm s * 128)) by (unfold two31; lia). cbv beta iota.
  rewrite (in_i32_true (hwm s * 128 + 128)) by (unfold two31; lia). cbv beta iota.
  destruct (hwm s * 128 + 128 >? nv s * 128) eqn:E1; cbv beta iota; [eexists; reflexivity|].
  rewrite (in_i32_true (hwm s * 512)) by (unfold two31; lia). cbv beta iota.
  rewrite (in_i32_true (hwm s * 512 + 512)) by (unfold two31; lia). cbv beta iota.
  replace (hwm s * 512 + 512 >? nm s * 512) with true by lia. cbv beta iota. eexists; reflexivity.
Qed.

(* ---- fail closed: whatever the state, an allocation that returns an error has changed nothing ---- *)
Lemma val_access_no_err s id e : val_access s id <> CErr e.
Proof.
  unfold val_access, counter_offset, bcheck, imul, iadd, bindC.
  repeat (match goal with |- context [if ?c then _ else _] => destruct c end; cbv beta iota); discriminate.
Qed.

Lemma next_counter_id_err_unchanged s e s1 : next_counter_id s = (CErr e, s1) -> s1 = s.
Proof.
  unfold next_counter_id, bindM, readM, modM, retM.
  destruct (find_reusable s (free_list s)) as [[[id rest]|]|e0|] eqn:F.
  - unfold put_val. destruct (val_access (set_free_list s rest) id) eqn:V; cbn; intros H; inversion H.
    exfalso. eapply val_access_no_err; eassumption.
  - destruct (check_counters_capacity s (hwm s)); cbv beta iota; try (intros H; inversion H; reflexivity).
    destruct (metadata_offset (hwm s)); cbv beta iota; try (intros H; inversion H; reflexivity).
    destruct (check_meta_data_capacity s a0); cbv beta iota; try (intros H; inversion H; reflexivity).
    destruct (iadd (hwm s) 1); cbv beta iota; intros H; inversion H; reflexivity.
  - intros H; inversion H; reflexivity.
  - intros H; inversion H.
Qed.

Lemma put_meta_no_err id fo len f s e s1 : put_meta id fo len f s = (CErr e, s1) -> False.
Proof.
  unfold put_meta, meta_access, metadata_offset, bcheck, imul, iadd, bindC.
  repeat (match goal with |- context [if ?c then _ else _] => destruct c end; cbv beta iota); intros H; inversion H.
Qed.

Lemma bindM_err {A B} (x : M A) (f : A -> M B) s e s1 :
  bindM x f s = (CErr e, s1) ->
  x s = (CErr e, s1) \/ exists a s2, x s = (COk a, s2) /\ f a s2 = (CErr e, s1).
Proof.
  unfold bindM. destruct (x s) as [[a|e0|] s2]; intros H.
  - right. eauto.
  - left. inversion H. reflexivity.
  - inversion H.
Qed.

Lemma write_record_no_err id t ks label s e s1 : write_record id t ks label s = (CErr e, s1) -> False.
Proof.
  unfold write_record. intros H.
  apply bindM_err in H as [H|(a & s2 & _ & H)]; [eapply put_meta_no_err; eassumption|].
  apply bindM_err in H as [H|(a2 & s3 & _ & H)].
  - destruct ks as [|k|k|k1 k2].
    + inversion H.
    + eapply put_meta_no_err; eassumption.
    + apply bindM_err in H as [H|(a3 & s4 & _ & H)].
      * unfold readM in H. inversion H as [[H1 H2]].
        revert H1. unfold meta_access, metadata_offset, bcheck, imul, iadd, bindC.
        repeat (match goal with |- context [if ?c then _ else _] => destruct c end; cbv beta iota); discriminate.
      * destruct (zlen k >? MAXKEY); [inversion H|eapply put_meta_no_err; eassumption].
    + inversion H.
  - apply bindM_err in H as [H|(a3 & s4 & _ & H)]; [eapply put_meta_no_err; eassumption|].
    apply bindM_err in H as [H|(a4 & s5 & _ & H)]; [eapply put_meta_no_err; eassumption|].
    inversion H.
Qed.

Theorem allocate_err_unchanged t ks label s e s1 :
  allocate_opt t ks label s = (CErr e, s1) -> s1 = s.
Proof.
  unfold allocate_opt.
  destruct (has_nul label); [intros H; inversion H; reflexivity|].
  destruct (zlen label >? MAXLAB); [intros H; inversion H; reflexivity|].
  destruct (key_ambiguous ks); [intros H; inversion H; reflexivity|].
  destruct (key_too_long ks); [intros H; inversion H; reflexivity|].
  unfold bindM. destruct (next_counter_id s) as [[id|e1|] s2] eqn:N.
  - intros H. exfalso. eapply write_record_no_err; eassumption.
  - intros H. inversion H; subst. eapply next_counter_id_err_unchanged; eassumption.
  - intros H; inversion H.
Qed.

(* ---- the allocation seen in two halves: up to the key callback, and the rest ---- *)
Lemma allocate_opt_via_mid t ks label s :
  allocate_opt t ks label s = bindM (alloc_mid t ks label) (fun id => write_tail id label) s.
Proof.
  unfold allocate_opt, alloc_mid.
  destruct (has_nul label); [reflexivity|].
  destruct (zlen label >? MAXLAB); [reflexivity|].
  destruct (key_ambiguous ks); [reflexivity|].
  destruct (key_too_long ks); [reflexivity|].
  unfold bindM at 1 2 3. destruct (next_counter_id s) as [[id|e|] s']; try reflexivity.
  unfold write_record, write_head, write_tail, bindM, retM.
  destruct (put_meta id 0 ML _ s') as [[[]|e|] s2]; try reflexivity.
  destruct ks as [|k|k|k1 k2].
  - reflexivity.
  - destruct (put_meta id OFF_KEY (zlen k) _ s2) as [[[]|e|] s3]; reflexivity.
  - unfold readM. destruct (meta_access s2 id OFF_KEY MAXKEY); try reflexivity.
    destruct (zlen k >? MAXKEY); [reflexivity|].
    destruct (put_meta id OFF_KEY (zlen k) _ s2) as [[[]|e|] s3]; reflexivity.
  - reflexivity.
Qed.

Lemma write_head_ok s id t ks :
  geom s -> 0 <= id < nm s -> key_fits ks ->
  exists sm, write_head id t ks s = (COk tt, sm) /\
             meta sm id = key_apply ks (with_type_deadline (meta s id) t NOT_FREE) /\ frame_meta s sm id.
Proof.
  intros G Hid Hk. unfold write_head, bindM.
  rewrite put_meta_ok by (auto; cs; lia).
  set (s1 := set_meta s id _).
  assert (G1 : geom s1) by (apply geom_set_meta; exact G).
  assert (N1 : nm s1 = nm s) by reflexivity.
  destruct ks as [|k|k|k1 k2]; cbn [key_fits] in Hk; try contradiction.
  - unfold retM. eexists. split; [reflexivity|]. split.
    + subst s1. cbn [meta set_meta key_apply]. rewrite upd_eq. reflexivity.
    + unfold frame_meta. subst s1. cbn. repeat split; try reflexivity.
      intros j Hj. rewrite !upd_neq by assumption. reflexivity.
  - assert (Hzk : 0 <= zlen k) by (unfold zlen; lia).
    rewrite put_meta_ok by (auto; cs; lia).
    eexists. split; [reflexivity|]. split.
    + cbn [meta set_meta key_apply]. rewrite upd_eq. subst s1. cbn [meta set_meta]. rewrite upd_eq. reflexivity.
    + unfold frame_meta. subst s1. cbn. repeat split; try reflexivity.
      intros j Hj. rewrite !upd_neq by assumption. reflexivity.
  - assert (Hzk : 0 <= zlen k) by (unfold zlen; lia).
    unfold readM. rewrite meta_access_ok by (auto; cs; lia).
    replace (zlen k >? MAXKEY) with false by (cs; lia).
    rewrite put_meta_ok by (auto; cs; lia).
    eexists. split; [reflexivity|]. split.
    + cbn [meta set_meta key_apply]. rewrite upd_eq. subst s1. cbn [meta set_meta]. rewrite upd_eq. reflexivity.
    + unfold frame_meta. subst s1. cbn. repeat split; try reflexivity.
      intros j Hj. rewrite !upd_neq by assumption. reflexivity.
Qed.

(* a metadata access depends on the state only through the slot count and the record it returns *)
Lemma meta_access_cong s s1 id fo len :
  nm s1 = nm s -> meta_access s1 id fo len = (_ <~ meta_access s id fo len ;; COk (meta s1 id)).
Proof.
  intros E. unfold meta_access, mcap. rewrite E.
  destruct (metadata_offset id); try reflexivity. cbn [bindC].
  destruct (iadd a fo); try reflexivity. cbn [bindC].
  destruct (bcheck (nm s * ML) a0 len); reflexivity.
Qed.
Lemma meta_access_val s id fo len r : meta_access s id fo len = COk r -> r = meta s id.
Proof.
  unfold meta_access.
  destruct (metadata_offset id); try discriminate. cbn [bindC].
  destruct (iadd a fo); try discriminate. cbn [bindC].
  destruct (bcheck (mcap s) a0 len); try discriminate. cbn [bindC]. congruence.
Qed.
