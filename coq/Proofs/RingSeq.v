(* Sequential theory of the command ring (Model/Ring.v run by one thread):
   the invariant `wf`, what claim / write / read compute on well-formed states, and the
   abstraction to the FIFO of Spec/Fifo.v. *)
Require Import V.Base.MachineInt.
Require Import V.Generated.GenConsts.
Require Import V.Model.LogBase.
Require Import V.Model.Ring.
Require Import V.Spec.Fifo.
Require Import V.Proofs.RingArith.
From Coq Require Import ZifyBool Lia.
Open Scope Z_scope.

(* ---------------------------------------------------------------- record updates *)
Lemma set_hc_id st : set_hc st (r_hc st) = st.
Proof. destruct st; reflexivity. Qed.
Lemma set_hc_twice st a b : set_hc (set_hc st a) b = set_hc st b.
Proof. destruct st; reflexivity. Qed.

(* ---------------------------------------------------------------- claim *)
Definition pad_of (cp tl rq : Z) : Z := if rq >? cp - tl mod cp then cp - tl mod cp else 0.

Lemma pad_of_wrap_pad cp tl n : pad_of cp tl (rec_bytes n) = wrap_pad cp tl n.
Proof. reflexivity. Qed.

Ltac norm := cbn [bind]; rewrite ?lacks_front_ok, ?wrap_needed_ok, ?set_hc_twice by assumption.

Lemma claim_spec m st rq :
  cap_ok (r_cap st) -> 0 <= r_hc st <= r_head st -> r_head st <= r_tail st ->
  r_tail st - r_head st <= r_cap st -> r_tail st < two62 ->
  8 <= rq <= two30 ->
  exists hc', (hc' = r_hc st \/ hc' = r_head st) /\
    ((r_tail st - r_head st) + rq + pad_of (r_cap st) (r_tail st) rq <= r_cap st ->
     r_tail st + rq + pad_of (r_cap st) (r_tail st) rq - hc' <= r_cap st) /\
    claim m st rq =
    Ok (if (r_tail st - r_head st) + rq + pad_of (r_cap st) (r_tail st) rq >? r_cap st
        then (set_hc st hc', None)
        else (set_tail (set_hc st hc') (r_tail st + rq + pad_of (r_cap st) (r_tail st) rq),
              Some (r_tail st, pad_of (r_cap st) (r_tail st) rq))).
Proof.
  intros Hcap Hhc Hht Hsz Hb Hrq.
  pose proof (cap_ok_range _ Hcap) as Hcr.
  pose proof (mod_range (r_cap st) (r_tail st) Hcap) as Htm.
  unfold claim.
  rewrite (lacks_ok m (r_cap st) rq (r_tail st) (r_hc st)) by (unfold two62, two31, two30 in *; lia).
  cbn [bind].
  rewrite (lacks_ok m (r_cap st) rq (r_tail st) (r_head st)) by (unfold two62, two31, two30 in *; lia).
  unfold pad_of.
  assert (NT : forall pd, 0 <= pd <= r_cap st -> new_tail m (r_tail st) rq pd = Ok (r_tail st + rq + pd)).
  { intros pd Hpd. apply new_tail_ok; unfold two62, two31, two30 in *; lia. }
  destruct (rq >? r_cap st - (r_tail st - r_hc st)) eqn:L1; norm.
  - (* the cached head does not suffice: head is read *)
    destruct (rq >? r_cap st - (r_tail st - r_head st)) eqn:L2; norm.
    + exists (r_hc st). split; [auto |]. split; [unfold pad_of; destruct (rq >? r_cap st - r_tail st mod r_cap st); lia |]. rewrite set_hc_id.
      destruct (rq >? r_cap st - r_tail st mod r_cap st);
        match goal with |- context [if ?c then _ else _] => replace c with true by lia end; reflexivity.
    + destruct (rq >? r_cap st - r_tail st mod r_cap st) eqn:W; norm.
      * assert (FI : r_head st mod r_cap st = r_head st - (r_tail st - r_tail st mod r_cap st))
          by (apply front_index; lia).
        rewrite FI.
        destruct (rq >? r_head st - (r_tail st - r_tail st mod r_cap st)) eqn:F.
        -- exists (r_head st). split; [auto |]. split; [unfold pad_of; try rewrite W; lia |].
           match goal with |- context [if ?c >? ?d then _ else _] => replace (c >? d) with true by lia end.
           reflexivity.
        -- exists (r_head st). split; [auto |]. split; [unfold pad_of; try rewrite W; lia |].
           match goal with |- context [if ?c >? ?d then _ else _] => replace (c >? d) with false by lia end.
           rewrite NT by lia. reflexivity.
      * exists (r_head st). split; [auto |]. split; [unfold pad_of; try rewrite W; lia |].
        match goal with |- context [if ?c >? ?d then _ else _] => replace (c >? d) with false by lia end.
        rewrite NT by lia. reflexivity.
  - (* the cached head suffices for the first check *)
    destruct (rq >? r_cap st - r_tail st mod r_cap st) eqn:W; norm.
    + assert (FI1 : r_hc st mod r_cap st = r_hc st - (r_tail st - r_tail st mod r_cap st))
        by (apply front_index; lia).
      assert (FI2 : r_head st mod r_cap st = r_head st - (r_tail st - r_tail st mod r_cap st))
        by (apply front_index; lia).
      rewrite FI1, FI2.
      destruct (rq >? r_hc st - (r_tail st - r_tail st mod r_cap st)) eqn:F1.
      * destruct (rq >? r_head st - (r_tail st - r_tail st mod r_cap st)) eqn:F2.
        -- exists (r_hc st). split; [auto |]. split; [unfold pad_of; try rewrite W; lia |]. rewrite set_hc_id.
           match goal with |- context [if ?c >? ?d then _ else _] => replace (c >? d) with true by lia end.
           reflexivity.
        -- exists (r_head st). split; [auto |]. split; [unfold pad_of; try rewrite W; lia |].
           match goal with |- context [if ?c >? ?d then _ else _] => replace (c >? d) with false by lia end.
           rewrite NT by lia. reflexivity.
      * exists (r_hc st). split; [auto |]. split; [unfold pad_of; try rewrite W; lia |]. rewrite set_hc_id.
        match goal with |- context [if ?c >? ?d then _ else _] => replace (c >? d) with false by lia end.
        rewrite NT by lia. reflexivity.
    + exists (r_hc st). split; [auto |]. split; [unfold pad_of; try rewrite W; lia |]. rewrite set_hc_id.
      match goal with |- context [if ?c >? ?d then _ else _] => replace (c >? d) with false by lia end.
      rewrite NT by lia. reflexivity.
Qed.

(* ---------------------------------------------------------------- well-formed states *)
Definition is_pad (s : slot) : bool := s_type s =? PAD.

(* a committed slot as write leaves it *)
Definition good_slot (cp : Z) (s : slot) : Prop :=
  0 <= s_pos s /\ s_pos s mod 8 = 0 /\
  0 < s_len s /\ s_span s = align (s_len s) 8 /\
  s_pos s mod cp + s_span s <= cp /\
  (if is_pad s
   then s_body s = [] /\ s_len s = s_span s /\ (s_pos s + s_span s) mod cp = 0
   else valid_cmd (s_type s) = true /\ s_len s = Z.of_nat (length (s_body s)) + 8) /\
  (* ghost fields of a slot written by the sequential write: owner 0, padding pieces numbered -1 *)
  s_owner s = 0 /\ s_seq s = (if is_pad s then -1 else 0).

(* the slots tile [h, t); a padding slot is always followed by the record it was claimed with *)
Inductive chain (cp : Z) : Z -> Z -> list slot -> Prop :=
| chain_nil p : chain cp p p []
| chain_cons h t s sl :
    s_pos s = h -> good_slot cp s -> (is_pad s = true -> sl <> []) ->
    chain cp (h + s_span s) t sl -> chain cp h t (s :: sl).

Record wf (st : ring) : Prop := mkWf {
  wf_cap : cap_ok (r_cap st);
  wf_hc : 0 <= r_hc st <= r_head st;
  wf_h8 : r_head st mod 8 = 0;
  wf_chain : chain (r_cap st) (r_head st) (r_tail st) (r_slots st);
  wf_size : r_tail st - r_head st <= r_cap st
}.

Definition abs_slots (sl : list slot) : fifo :=
  flat_map (fun s => if is_pad s then [] else [(s_type s, s_body s)]) sl.
Definition abs (st : ring) : fifo := abs_slots (r_slots st).

Lemma good_span cp s : good_slot cp s -> 8 <= s_span s /\ s_span s mod 8 = 0.
Proof. intros (_ & _ & Hl & Hs & _). rewrite Hs. split; [apply align8_pos; lia | apply align8_mod]. Qed.

Lemma chain_le cp h t sl : chain cp h t sl -> h <= t.
Proof. induction 1; [lia |]. pose proof (good_span _ _ H0). lia. Qed.

Lemma chain_mod8 cp h t sl : chain cp h t sl -> h mod 8 = 0 -> t mod 8 = 0.
Proof. induction 1; intros Hh; [assumption |]. apply IHchain.
  pose proof (good_span _ _ H0) as (_ & Hm).
  rewrite Z.add_mod by lia. rewrite Hh, Hm. reflexivity. Qed.

Lemma chain_nil_inv cp h t : chain cp h t [] -> h = t.
Proof. inversion 1; reflexivity. Qed.

Lemma chain_lt cp h t sl : chain cp h t sl -> sl <> [] -> h < t.
Proof. destruct 1; intros Hne; [congruence |].
  pose proof (chain_le _ _ _ _ H2). pose proof (good_span _ _ H0). lia. Qed.

Lemma chain_empty_iff cp h t sl : chain cp h t sl -> (sl = [] <-> h = t).
Proof. intros H. split.
  - intros ->. apply (chain_nil_inv _ _ _ H).
  - intros E. destruct sl; [reflexivity |]. pose proof (chain_lt _ _ _ _ H ltac:(discriminate)). lia. Qed.

Lemma chain_app cp h p t l1 l2 :
  chain cp h p l1 -> chain cp p t l2 -> l2 <> [] -> chain cp h t (l1 ++ l2).
Proof. induction 1; intros Hc2 Hne; cbn [app]; [assumption |].
  apply chain_cons; auto.
  intros _. destruct sl; cbn [app]; [assumption | discriminate]. Qed.

Lemma chain_single cp s : good_slot cp s -> is_pad s = false -> chain cp (s_pos s) (s_pos s + s_span s) [s].
Proof. intros G P. apply chain_cons; auto.
  - rewrite P. discriminate.
  - apply chain_nil. Qed.

Lemma chain_pad_rec cp p s : good_slot cp p -> good_slot cp s -> s_pos s = s_pos p + s_span p ->
  is_pad s = false -> chain cp (s_pos p) (s_pos s + s_span s) [p; s].
Proof. intros Gp Gs E P. apply chain_cons; auto.
  - discriminate.
  - rewrite <- E. apply chain_single; auto. Qed.

(* the abstraction of a non-empty chain is non-empty: the last slot is a record *)
Lemma chain_abs_nonempty cp h t sl : chain cp h t sl -> sl <> [] -> abs_slots sl <> [].
Proof. induction 1; intros Hne; [congruence |]. cbn [abs_slots flat_map].
  destruct (is_pad s) eqn:P; cbn [app].
  - apply IHchain. auto.
  - discriminate. Qed.

Lemma abs_slots_app a b : abs_slots (a ++ b) = abs_slots a ++ abs_slots b.
Proof. unfold abs_slots. apply flat_map_app. Qed.

(* ---------------------------------------------------------------- write *)
Lemma pad_slot_good cp tl pd : cap_ok cp -> 0 <= tl -> tl mod 8 = 0 -> pd = cp - tl mod cp ->
  good_slot cp (pad_slot tl pd 0 (-1)).
Proof. intros Hc H0 H8 ->. pose proof (mod_range cp tl Hc) as Hm. pose proof (cap_ok_range cp Hc).
  pose proof (cap_ok_mod8 cp Hc) as Hc8. pose proof (idx_mod8 cp tl Hc H8) as Hi8.
  assert (P8 : (cp - tl mod cp) mod 8 = 0).
  { rewrite Zminus_mod. rewrite Hc8, Hi8. reflexivity. }
  unfold good_slot, pad_slot, is_pad. cbn [s_pos s_span s_len s_type s_body s_owner s_seq].
  rewrite PAD_eq. replace (-1 =? -1) with true by reflexivity.
  repeat split; try lia.
  - symmetry. apply align8_id. assumption.
  - pose proof (Z.div_mod tl cp ltac:(lia)).
    replace (tl + (cp - tl mod cp)) with ((tl / cp + 1) * cp) by lia. apply Z_mod_mult. Qed.

Lemma valid_cmd_not_pad ty : valid_cmd ty = true -> (ty =? PAD) = false.
Proof. unfold valid_cmd. rewrite PAD_eq. lia. Qed.

Lemma write_spec m st typ body :
  wf st -> r_tail st < two62 -> (typ < 1 \/ valid_cmd typ = true) ->
  exists st' r, write m st typ body = (st', r) /\ wf st' /\
    r_cap st' = r_cap st /\ r_head st' = r_head st /\ r_corr st' = r_corr st /\ r_hb st' = r_hb st /\
    let n := Z.of_nat (length body) in
    let cp := r_cap st in
    ( (typ < 1 /\ r = Err IllegalArg /\ st' = st) \/
      (1 <= typ /\ n > cp / 8 /\ r = Err TooLong /\ st' = st) \/
      (1 <= typ /\ n <= cp / 8 /\ no_room cp (r_head st) (r_tail st) n = true /\ r = Err InsufficientCapacity /\
         r_tail st' = r_tail st /\ r_slots st' = r_slots st) \/
      (1 <= typ /\ n <= cp / 8 /\ no_room cp (r_head st) (r_tail st) n = false /\ r = Ok 0 /\
         r_tail st' = r_tail st + rec_bytes n + wrap_pad cp (r_tail st) n /\
         r_slots st' = r_slots st ++ pad_slots (r_tail st) (wrap_pad cp (r_tail st) n) 0 (-1) ++
                       [mkSlot (r_tail st + wrap_pad cp (r_tail st) n) (rec_bytes n) (n + 8) typ body 0 0]) ).
Proof.
  intros W Hb Hty. destruct W as [Hcap Hhc Hh8 Hch Hsz].
  pose proof (cap_ok_range _ Hcap) as Hcr.
  pose proof (chain_le _ _ _ _ Hch) as Hle.
  pose proof (chain_mod8 _ _ _ _ Hch Hh8) as Ht8.
  unfold write, write_as. change (- 1 - 0) with (-1).
  destruct (typ <? 1) eqn:T1.
  { exists st, (Err IllegalArg). repeat split; auto; try lia. left. repeat split; auto. lia. }
  set (n := Z.of_nat (length body)).
  destruct (n >? r_cap st / 8) eqn:T2.
  { exists st, (Err TooLong). repeat split; auto; try lia. right; left. repeat split; auto; lia. }
  assert (Hn : 0 <= n <= r_cap st / 8) by lia.
  assert (Hn2 : n <= 134217728).
  { pose proof (Z.div_le_mono (r_cap st) two30 8 ltac:(lia) ltac:(lia)) as Hd.
    change (two30 / 8) with 134217728 in Hd. lia. }
  unfold add32. rewrite chk32_ok by (apply in_i32_small; unfold two31, two30, HL, GenConsts.RB_HEADER_LENGTH in *; lia).
  cbn [bind]. rewrite HL_eq.
  rewrite ralign_ok by (unfold two30 in *; lia). cbn [bind].
  pose proof (rec_bytes_bounds n ltac:(lia)) as (Hr8 & Hrb & Hrm).
  change (align (n + 8) 8) with (rec_bytes n).
  destruct (claim_spec m st (rec_bytes n) Hcap Hhc Hle Hsz Hb ltac:(unfold two30 in *; lia))
    as (hc' & Hhc' & Hstale & ->).
  cbn [bind]. rewrite pad_of_wrap_pad in *.
  pose proof (wrap_pad_bounds (r_cap st) (r_tail st) n Hcap) as Hpb.
  assert (Hhcr : 0 <= hc' <= r_head st) by (destruct Hhc'; subst; lia).
  unfold no_room.
  destruct (r_tail st - r_head st + rec_bytes n + wrap_pad (r_cap st) (r_tail st) n >? r_cap st) eqn:NR.
  - (* refused *)
    eexists; eexists. split; [reflexivity |].
    split. { constructor; cbn [set_hc r_cap r_head r_tail r_hc r_slots]; auto; lia. }
    cbn [set_hc r_cap r_head r_tail r_hc r_slots r_corr r_hb].
    repeat split; auto. right; right; left. repeat split; auto; lia.
  - (* accepted *)
    eexists; eexists. split; [reflexivity |].
    assert (Hpd : wrap_pad (r_cap st) (r_tail st) n = 0 \/
                  (wrap_pad (r_cap st) (r_tail st) n = r_cap st - r_tail st mod r_cap st /\
                   rec_bytes n > r_cap st - r_tail st mod r_cap st)).
    { unfold wrap_pad. destruct (rec_bytes n >? r_cap st - r_tail st mod r_cap st) eqn:E; [right | left]; lia. }
    pose proof (mod_range (r_cap st) (r_tail st) Hcap) as Htm.
    assert (Hrec : good_slot (r_cap st)
              (mkSlot (r_tail st + wrap_pad (r_cap st) (r_tail st) n) (rec_bytes n) (n + 8) typ body 0 0)).
    { unfold good_slot, is_pad. cbn [s_pos s_span s_len s_type s_body s_owner s_seq].
      destruct Hty as [Hty | Hty]; [lia |].
      rewrite (valid_cmd_not_pad _ Hty).
      assert (P8 : (r_tail st + wrap_pad (r_cap st) (r_tail st) n) mod 8 = 0).
      { destruct Hpd as [-> | (-> & _)]; [rewrite Z.add_0_r; assumption |].
        rewrite Z.add_mod by lia. rewrite Ht8.
        rewrite (Zminus_mod (r_cap st)). rewrite (cap_ok_mod8 _ Hcap), (idx_mod8 _ _ Hcap Ht8). reflexivity. }
      repeat split; auto; try lia.
      destruct Hpd as [E | (E & G)]; rewrite E.
      - rewrite Z.add_0_r. unfold wrap_pad in E.
        destruct (rec_bytes n >? r_cap st - r_tail st mod r_cap st) eqn:E2; lia.
      - pose proof (Z.div_mod (r_tail st) (r_cap st) ltac:(lia)).
        replace (r_tail st + (r_cap st - r_tail st mod r_cap st)) with ((r_tail st / r_cap st + 1) * r_cap st) by lia.
        rewrite Z_mod_mult. lia. }
    assert (NP : is_pad (mkSlot (r_tail st + wrap_pad (r_cap st) (r_tail st) n) (rec_bytes n) (n + 8) typ body 0 0) = false).
    { unfold is_pad. cbn [s_type]. destruct Hty as [? | Hty]; [lia |]. apply valid_cmd_not_pad; assumption. }
    split.
    { constructor; cbn [set_tail set_hc set_slots r_cap r_head r_tail r_hc r_slots]; auto; try lia.
      eapply chain_app; [eassumption | | ].
      - unfold pad_slots. destruct Hpd as [E | (E & G)]; rewrite E in *.
        + cbn [Z.eqb app]. rewrite ?Z.add_0_r in *.
          pose proof (chain_single _ _ Hrec NP) as C. cbn [s_pos s_span] in C. exact C.
        + replace (r_cap st - r_tail st mod r_cap st =? 0) with false by lia. cbn [app].
          assert (Gp : good_slot (r_cap st) (pad_slot (r_tail st) (r_cap st - r_tail st mod r_cap st) 0 (-1)))
            by (apply pad_slot_good; auto; lia).
          pose proof (chain_pad_rec _ _ _ Gp Hrec eq_refl NP) as C. cbn [pad_slot s_pos s_span] in C.
          replace (r_tail st + rec_bytes n + (r_cap st - r_tail st mod r_cap st))
            with (r_tail st + (r_cap st - r_tail st mod r_cap st) + rec_bytes n) by lia.
          exact C.
      - destruct (pad_slots (r_tail st) (wrap_pad (r_cap st) (r_tail st) n) 0 (-1)); discriminate. }
    cbn [set_tail set_hc set_slots r_cap r_head r_tail r_hc r_slots r_corr r_hb].
    repeat split; auto. right; right; right. repeat split; auto; lia.
Qed.

(* ---------------------------------------------------------------- looking slots up *)
Lemma chain_range cp h t sl : chain cp h t sl ->
  Forall (fun s => h <= s_pos s /\ s_pos s + s_span s <= t /\ 8 <= s_span s) sl.
Proof. induction 1; constructor.
  - pose proof (good_span _ _ H0). pose proof (chain_le _ _ _ _ H2). lia.
  - eapply Forall_impl; [| exact IHchain]. cbn. intros a Ha. pose proof (good_span _ _ H0). lia. Qed.

Lemma chain_length cp h t sl : chain cp h t sl -> 8 * Z.of_nat (length sl) <= t - h.
Proof. induction 1; cbn [length]; [lia |]. pose proof (good_span _ _ H0). lia. Qed.

Lemma chain_good cp h t sl : chain cp h t sl -> Forall (good_slot cp) sl.
Proof. induction 1; constructor; auto. Qed.

Lemma find_slot_skip pre s suf p :
  Forall (fun x => s_pos x + s_span x <= s_pos s) pre -> s_pos s <= p < s_pos s + s_span s ->
  find_slot (pre ++ s :: suf) p = Some s.
Proof. induction pre as [| x pre IH]; intros F Hp; cbn [app find_slot].
  - replace ((s_pos s <=? p) && (p <? s_pos s + s_span s)) with true by lia. reflexivity.
  - inversion F; subst. replace ((s_pos x <=? p) && (p <? s_pos x + s_span x)) with false by lia. auto. Qed.

Lemma find_slot_none sl p : Forall (fun x => s_pos x + s_span x <= p) sl -> find_slot sl p = None.
Proof. induction 1; cbn [find_slot]; [reflexivity |].
  replace ((s_pos x <=? p) && (p <? s_pos x + s_span x)) with false by lia. assumption. Qed.

Lemma pos_word_len pre s suf :
  Forall (fun x => s_pos x + s_span x <= s_pos s) pre -> 0 < s_span s ->
  pos_word (pre ++ s :: suf) (s_pos s) = s_len s.
Proof. intros F Hs. unfold pos_word. rewrite find_slot_skip by (auto; lia).
  replace (s_pos s - s_pos s) with 0 by lia. reflexivity. Qed.

Lemma pos_word_type pre s suf :
  Forall (fun x => s_pos x + s_span x <= s_pos s) pre -> 4 < s_span s ->
  pos_word (pre ++ s :: suf) (s_pos s + 4) = s_type s.
Proof. intros F Hs. unfold pos_word. rewrite find_slot_skip by (auto; lia).
  replace (s_pos s + 4 - s_pos s) with 4 by lia. reflexivity. Qed.

Lemma pos_bytes_body cp pre s suf :
  Forall (fun x => s_pos x + s_span x <= s_pos s) pre -> good_slot cp s -> is_pad s = false ->
  pos_bytes (pre ++ s :: suf) (s_pos s + HL) (s_len s - HL) = s_body s.
Proof. intros F G P. destruct G as (_ & _ & Hl & Hs & _ & Hk & _). rewrite P in Hk. destruct Hk as (_ & Hlen).
  rewrite HL_eq. rewrite Hlen. replace (Z.of_nat (length (s_body s)) + 8 - 8) with (Z.of_nat (length (s_body s))) by lia.
  unfold pos_bytes. rewrite !Nat2Z.id.
  destruct (s_body s) as [| b bs] eqn:B.
  - cbn [length firstn]. destruct (find_slot (pre ++ s :: suf) (s_pos s + 8)); reflexivity.
  - rewrite find_slot_skip; auto.
    + rewrite HL_eq. replace (s_pos s + 8 - s_pos s - 8) with 0 by lia. cbn [Z.to_nat skipn].
      rewrite B. rewrite firstn_app. rewrite Nat.sub_diag. cbn [firstn]. rewrite app_nil_r. apply firstn_all.
    + pose proof (align8_bounds (s_len s)). rewrite Hlen in *. cbn [length] in *. lia. Qed.

(* ---------------------------------------------------------------- read *)
(* what the read loop does, told on the list of slots in front of the consumer *)
Fixpoint take (contiguous limit : Z) (sl : list slot) (bytes msgs : Z) : Z * Z * list msg * list slot :=
  match sl with
  | [] => (bytes, msgs, [], [])
  | s :: r =>
      if (bytes <? contiguous) && (msgs <? limit) then
        if is_pad s then take contiguous limit r (bytes + s_span s) msgs
        else let '(b, n, l, rest) := take contiguous limit r (bytes + s_span s) (msgs + 1) in
             (b, n, (s_type s, s_body s) :: l, rest)
      else (bytes, msgs, [], sl)
  end.

Lemma read_loop_take m cp hd t contiguous limit : cap_ok cp -> t - hd <= cp ->
  forall suf fuel pre bytes msgs,
    chain cp (hd + bytes) t suf -> Forall (fun x => s_pos x + s_span x <= hd + bytes) pre ->
    (length suf < fuel)%nat -> 0 <= bytes -> 0 <= msgs -> msgs + Z.of_nat (length suf) <= two30 ->
    read_loop m fuel (pre ++ suf) hd contiguous limit bytes msgs =
    Ok (let '(b, n, l, _) := take contiguous limit suf bytes msgs in (b, n, l)).
Proof.
  intros Hcap Hsz. pose proof (cap_ok_range _ Hcap) as Hcr.
  induction suf as [| s r IH]; intros fuel pre bytes msgs Hch Hpre Hf Hb Hm Hmb.
  - destruct fuel as [| f]; [inversion Hf |]. cbn [read_loop take].
    destruct ((bytes <? contiguous) && (msgs <? limit)); [| reflexivity].
    rewrite app_nil_r. unfold pos_word. rewrite find_slot_none by assumption. reflexivity.
  - destruct fuel as [| f]; [inversion Hf |]. cbn [read_loop take].
    destruct ((bytes <? contiguous) && (msgs <? limit)) eqn:C; [| reflexivity].
    inversion Hch as [| h0 t0 s0 sl0 Hpos G Hnp Hrest]; subst.
    assert (Hpre' : Forall (fun x => s_pos x + s_span x <= s_pos s) pre) by (rewrite Hpos; assumption).
    pose proof (good_span _ _ G) as (Hsp8 & _).
    pose proof (chain_le _ _ _ _ Hrest) as Hle.
    pose proof G as (Hp0 & Hp8 & Hl & Hs & Hstr & Hk & _).
    pose proof (mod_range cp (s_pos s) Hcap) as Hpm.
    rewrite <- Hpos. rewrite !pos_word_len by (auto; lia). rewrite !pos_word_type by (auto; lia).
    replace (s_len s <=? 0) with false by lia.
    assert (Hlb : s_len s <= s_span s) by (rewrite Hs; apply align8_bounds).
    rewrite ralign_ok by (unfold two30 in *; lia). cbn [bind]. rewrite <- Hs.
    unfold add32 at 1. rewrite chk32_ok by (apply in_i32_small; unfold two31, two30 in *; lia). cbn [bind].
    assert (Hpre2 : Forall (fun x => s_pos x + s_span x <= hd + (bytes + s_span s)) (pre ++ [s])).
    { apply Forall_app. split.
      - eapply Forall_impl; [| exact Hpre]. cbn. intros; lia.
      - constructor; [lia | constructor]. }
    assert (Happ : pre ++ s :: r = (pre ++ [s]) ++ r) by (rewrite <- app_assoc; reflexivity).
    assert (Hch2 : chain cp (hd + (bytes + s_span s)) t r).
    { replace (hd + (bytes + s_span s)) with (hd + bytes + s_span s) by lia. exact Hrest. }
    cbn [length] in Hf, Hmb.
    fold (is_pad s). destruct (is_pad s) eqn:P.
    + rewrite Happ. rewrite IH; auto; try lia.
    + destruct Hk as (Hv & Hlen). rewrite Hv.
      unfold add32 at 1. rewrite chk32_ok by (apply in_i32_small; unfold two31, two30 in *; lia). cbn [bind].
      unfold sub32. rewrite chk32_ok by (apply in_i32_small; unfold two31, two30, HL, GenConsts.RB_HEADER_LENGTH in *; lia).
      cbn [bind].
      rewrite (pos_bytes_body cp pre s r Hpre' G P).
      rewrite Happ. rewrite IH; auto; try lia. cbn [bind].
      destruct (take contiguous limit r (bytes + s_span s) (msgs + 1)) as [[[b n] l] rest]. reflexivity.
Qed.

Lemma take_spec cp hd t contiguous limit :
  forall suf bytes msgs b n l rest,
    chain cp (hd + bytes) t suf -> take contiguous limit suf bytes msgs = (b, n, l, rest) ->
    exists used,
      suf = used ++ rest /\
      Forall (fun s => hd + bytes <= s_pos s /\ s_pos s + s_span s <= hd + b /\ 8 <= s_span s) used /\
      chain cp (hd + b) t rest /\
      l = abs_slots used /\ n = msgs + Z.of_nat (length l) /\ bytes <= b /\
      n <= Z.max msgs limit /\
      (suf <> [] -> bytes < contiguous -> msgs < limit -> bytes < b).
Proof.
  induction suf as [| s r IH]; intros bytes msgs b n l rest Hch Ht.
  - cbn [take] in Ht. inversion Ht; subst. exists []. cbn. repeat split; auto; try lia. congruence.
  - cbn [take] in Ht.
    inversion Hch as [| h0 t0 s0 sl0 Hpos G Hnp Hrest]; subst.
    pose proof (good_span _ _ G) as (Hsp8 & _).
    destruct ((bytes <? contiguous) && (msgs <? limit)) eqn:C.
    + assert (Hch2 : chain cp (hd + (bytes + s_span s)) t r).
      { replace (hd + (bytes + s_span s)) with (hd + bytes + s_span s) by lia. exact Hrest. }
      destruct (is_pad s) eqn:P.
      * destruct (IH _ _ _ _ _ _ Hch2 Ht) as (used & E & F & Hc & Hl & Hn & Hb & Hm & _).
        exists (s :: used). subst. cbn [app]. repeat split; auto; try lia.
        -- constructor; [lia |]. eapply Forall_impl; [| exact F]. cbn. intros; lia.
        -- cbn [abs_slots flat_map]. rewrite P. reflexivity.
      * destruct (take contiguous limit r (bytes + s_span s) (msgs + 1)) as [[[b1 n1] l1] rest1] eqn:T.
        inversion Ht; subst.
        destruct (IH _ _ _ _ _ _ Hch2 T) as (used & E & F & Hc & Hl & Hn & Hb & Hm & _).
        exists (s :: used). subst. cbn [app]. repeat split; auto; try lia.
        -- constructor; [lia |]. eapply Forall_impl; [| exact F]. cbn. intros; lia.
        -- cbn [abs_slots flat_map]. rewrite P. reflexivity.
        -- cbn [length]. lia.
    + inversion Ht; subst. exists []. cbn [app abs_slots flat_map length]. repeat split; auto; try lia.
Qed.

Lemma filter_consumed hd b used rest :
  Forall (fun s => hd <= s_pos s /\ s_pos s + s_span s <= hd + b /\ 8 <= s_span s) used ->
  Forall (fun s => hd + b <= s_pos s) rest ->
  filter (fun s => negb (consumed hd b s)) (used ++ rest) = rest.
Proof. intros Fu Fr. rewrite filter_app.
  replace (filter (fun s => negb (consumed hd b s)) used) with (@nil slot).
  - cbn [app]. induction Fr; cbn [filter]; [reflexivity |].
    unfold consumed at 1. replace (negb ((hd <=? s_pos x) && (s_pos x <? hd + b))) with true by lia.
    f_equal. assumption.
  - induction Fu; cbn [filter]; [reflexivity |].
    unfold consumed at 1. replace (negb ((hd <=? s_pos x) && (s_pos x <? hd + b))) with false by lia. assumption. Qed.

Lemma read_spec m st limit :
  wf st -> r_tail st < two62 ->
  exists st' n l, read m st limit = (st', Ok (n, l)) /\ wf st' /\
    r_cap st' = r_cap st /\ r_tail st' = r_tail st /\ r_hc st' = r_hc st /\ r_corr st' = r_corr st /\ r_hb st' = r_hb st /\
    n = Z.of_nat (length l) /\ n <= Z.max 0 limit /\
    abs st = l ++ abs st' /\
    r_head st <= r_head st' <= r_tail st /\
    (1 <= limit -> r_head st <> r_tail st -> r_head st < r_head st') /\
    (exists used, r_slots st = used ++ r_slots st' /\
        Forall (fun s => r_head st <= s_pos s /\ s_pos s + s_span s <= r_head st') used).
Proof.
  intros W Hb. destruct W as [Hcap Hhc Hh8 Hch Hsz].
  pose proof (cap_ok_range _ Hcap) as Hcr.
  pose proof (chain_le _ _ _ _ Hch) as Hle.
  pose proof (mod_range (r_cap st) (r_head st) Hcap) as Hhm.
  unfold read. rewrite mask_idx_mod by assumption.
  unfold sub32 at 1. rewrite chk32_ok by (apply in_i32_small; unfold two31, two30 in *; lia). cbn [bind].
  pose proof (chain_length _ _ _ _ Hch) as Hlen.
  assert (Hfuel : (length (r_slots st) < read_fuel (r_cap st))%nat).
  { unfold read_fuel. pose proof (Z.div_le_mono (8 * Z.of_nat (length (r_slots st))) (r_cap st) 8 ltac:(lia) ltac:(lia)) as D.
    rewrite Z.mul_comm in D. rewrite Z_div_mult in D by lia. lia. }
  assert (Hch0 : chain (r_cap st) (r_head st + 0) (r_tail st) (r_slots st)) by (rewrite Z.add_0_r; assumption).
  pose proof (read_loop_take m (r_cap st) (r_head st) (r_tail st) (r_cap st - r_head st mod r_cap st) limit Hcap Hsz
                (r_slots st) (read_fuel (r_cap st)) [] 0 0 Hch0 (Forall_nil _) Hfuel ltac:(lia) ltac:(lia)
                ltac:(unfold two30 in *; lia)) as RL.
  cbn [app] in RL. rewrite RL. clear RL.
  destruct (take (r_cap st - r_head st mod r_cap st) limit (r_slots st) 0 0) as [[[b n] l] rest] eqn:T.
  destruct (take_spec _ _ _ _ _ _ _ _ _ _ _ _ Hch0 T) as (used & E & Fu & Hc & Hl & Hn & Hb0 & Hm & Hprog).
  cbn [bind].
  pose proof (chain_le _ _ _ _ Hc) as Hle2.
  unfold add64. rewrite chk64_ok by (apply in_i64_small; unfold two63, two62 in *; lia). cbn [bind].
  destruct (b =? 0) eqn:B0.
  - (* nothing consumed *)
    assert (b = 0) by lia. subst b.
    assert (used = []).
    { destruct used as [| x u]; [reflexivity |]. inversion Fu; subst. lia. }
    subst used. cbn [app] in E. cbn [abs_slots flat_map] in Hl. subst l. cbn [length] in Hn.
    exists st, n, []. split; [reflexivity |]. split; [constructor; assumption |].
    repeat split; auto; try lia.
    + intros H1 Hne. exfalso. assert (r_slots st <> []).
      { intro Em. apply (chain_empty_iff _ _ _ _ Hch) in Em. lia. }
      specialize (Hprog H ltac:(lia) ltac:(lia)). lia.
    + exists []. split; [reflexivity | constructor].
  - eexists; eexists; eexists. split; [reflexivity |].
    assert (Ff : filter (fun s => negb (consumed (r_head st) b s)) (r_slots st) = rest).
    { rewrite E. apply filter_consumed.
      - eapply Forall_impl; [| exact Fu]. cbn. intros; lia.
      - pose proof (chain_range _ _ _ _ Hc) as R. eapply Forall_impl; [| exact R]. cbn. intros; lia. }
    rewrite Ff.
    split.
    { constructor; cbn [set_head set_slots r_cap r_head r_tail r_hc r_slots]; auto; try lia.
      assert (U8 : Forall (fun s => s_span s mod 8 = 0 /\ s_pos s mod 8 = 0) used).
      { pose proof (chain_good _ _ _ _ Hch) as Gd. rewrite E in Gd. apply Forall_app in Gd. destruct Gd as [Gd _].
        eapply Forall_impl; [| exact Gd]. intros a Ga. pose proof (good_span _ _ Ga). destruct Ga as (_ & ? & _). tauto. }
      (* the new head is 8-aligned: it is where the chain of the rest starts *)
      destruct rest as [| r0 rest'].
      - apply chain_nil_inv in Hc. rewrite Hc. exact (chain_mod8 _ _ _ _ Hch Hh8).
      - inversion Hc; subst. match goal with H : good_slot _ r0 |- _ => destruct H as (_ & H8 & _) end.
        match goal with H : s_pos r0 = _ |- _ => rewrite <- H end. assumption. }
    cbn [set_head set_slots r_cap r_head r_tail r_hc r_slots r_corr r_hb].
    repeat split; auto; try lia.
    + unfold abs. rewrite E. rewrite abs_slots_app. cbn [r_slots]. rewrite Hl. reflexivity.
    + exists used. split; [assumption |]. eapply Forall_impl; [| exact Fu]. cbn. intros; lia.
Qed.
