(* Proofs about Generated/GenSrcPub.v: the decision functions and set-up arithmetic of src/publication.rs,
   src/exclusive_publication.rs and the length arithmetic of term_appender.rs as they are in the source today
   (tools/props/src_translate.py), against Model/Publication.v, Model/ExclPublication.v and Model/Appender.v.

   A translated function that returns Result / an error value yields an `sres`: the effects it has on state it does
   not own (rotate_log, the tail / term-count stores of the exclusive publication, assignments to fields of self),
   then Ok v or the error variant by name.  `run_pub` / `run_xpub` give those names their meaning in the model's
   state; the theorems say that running the translated function is the model's function. *)
Require Import V.Base.MachineInt V.Base.MachineInt2 V.Base.MachineIntT V.Generated.GenConsts
               V.Model.Descriptor V.Model.LogBase V.Model.LogDelta V.Model.Appender V.Model.ExclAppender
               V.Model.Publication V.Model.ExclPublication
               V.Proofs.SrcNorm V.Proofs.SrcNormT V.Proofs.DescriptorProofs
               V.Generated.GenDescriptor V.Proofs.GenDescriptorProofs V.Generated.GenSrcBits V.Generated.GenSrcPub.
From Coq Require Import ZifyBool String.
Open Scope Z_scope.

(* ---- error variants by name ---- *)
Definition err_of (name : string) (args : list Z) : err :=
  if String.eqb name "AeronError::UnknownCode" then (match args with [v] => UnknownCode v | _ => OtherErr end)
  else if String.eqb name "AeronError::MaxPositionExceeded" then MaxPositionExceeded
  else if String.eqb name "AeronError::AdminAction" then AdminAction
  else if String.eqb name "AeronError::BackPressured" then BackPressured
  else if String.eqb name "AeronError::NotConnected" then NotConnected
  else if String.eqb name "AeronError::PublicationClosed" then Closed
  else if String.eqb name "IllegalArgumentError::EncodedMessageExceedsMaxMessageLength" then TooLong
  else if String.eqb name "IllegalArgumentError::EncodedMessageExceedsMaxPayloadLength" then TooLong
  else OtherErr.

(* the final result of an sres, effects dropped *)
Fixpoint out_of_sres (r : sres) : outcome Z :=
  match r with ROk v => Ok v | RErr n a => Err (err_of n a) | RStruct _ => Crash | RDo _ _ k => out_of_sres k end.

Ltac src_simpl_hook ::= cbn [out_of_sres err_of String.eqb Ascii.eqb Bool.eqb].

(* ---- Publication ---- *)
Fixpoint run_pub (m : mode) (l : log) (r : sres) : log * outcome Z :=
  match r with
  | RDo n args k =>
      if String.eqb n "rotate_log" then
        match args with
        | [c; t] => match rotate_log m (meta_of l) c t with Ok s' => run_pub m (with_meta l s') k | _ => (l, Panic) end
        | _ => (l, Crash)
        end
      else (l, Crash)
  | other => (l, out_of_sres other)
  end.
Definition run_pub_o (m : mode) (l : log) (r : outcome sres) : log * outcome Z :=
  match r with Ok s => run_pub m l s | Err e => (l, Err e) | Panic => (l, Panic) | Hang => (l, Hang) | Crash => (l, Crash) end.

Lemma chk64_cases m z : (exists a, chk64 m z = Ok a) \/ chk64 m z = Panic.
Proof. unfold chk64. destruct (in_i64 z); [left; eexists; reflexivity|]. destruct m; [right; reflexivity|left; eexists; reflexivity]. Qed.
Ltac case_chk64 m z a E := destruct (chk64_cases m z) as [(a & E)|E]; rewrite E; cbn [bind]; try reflexivity.

Lemma gtb_ltb a b : (a >? b) = (b <? a). Proof. apply Z.gtb_ltb. Qed.
Lemma geb_leb a b : (a >=? b) = (b <=? a). Proof. apply Z.geb_leb. Qed.

Theorem src_pub_new_position_eq m l term_count term_offset tid position resulting :
  run_pub_o m l (src_pub_new_position m (max_possible_position l) term_count term_offset tid position resulting)
  = pub_new_position m l term_count term_offset tid position resulting.
Proof. unfold src_pub_new_position, pub_new_position. generalize (max_possible_position l); intros mpp.
  cbv zeta. srcT_unfold_ops. cbn [bind]. cmp_norm. repeat unify_chk.
  repeat (split_chk1; cmp_norm; repeat unify_chk); if_split;
    cbn [bind do_ run_pub_o run_pub out_of_sres String.eqb Ascii.eqb Bool.eqb] in *;
    try solve [src_leaf]; try (destruct (rotate_log m (meta_of l) term_count tid); reflexivity). Qed.

Theorem src_pub_back_pressure_status_eq m l position len :
  (r <- src_pub_back_pressure_status m (max_possible_position l) (l_connected l) position len ;; out_of_sres r)
  = back_pressure_status m l position len.
Proof. unfold src_pub_back_pressure_status, back_pressure_status. generalize (max_possible_position l); intros mpp.
  destruct (l_connected l); src_robust. Qed.

(* the two length checks: refused exactly when the model answers TooLong *)
Lemma src_pub_check_max_message_length_eq m maxl len :
  (r <- src_pub_check_max_message_length m maxl len ;; out_of_sres r) = if maxl <? len then Err TooLong else Ok 0.
Proof. unfold src_pub_check_max_message_length. src_robust. Qed.
Lemma src_pub_check_payload_length_eq m maxl len :
  (r <- src_pub_check_payload_length m maxl len ;; out_of_sres r) = if maxl <? len then Err TooLong else Ok 0.
Proof. unfold src_pub_check_payload_length. src_robust. Qed.

(* ---- geometry computed by Publication::new / ExclusivePublication::new ---- *)
Lemma src_pub_max_possible_position_eq m l : src_pub_max_possible_position m (l_tlen l) = Ok (max_possible_position l).
Proof. unfold src_pub_max_possible_position, max_possible_position. srcT_norm. reflexivity. Qed.
Lemma src_pub_max_payload_length_eq m l : src_pub_max_payload_length m (l_mtu l) = sub32 m (l_mtu l) HDR.
Proof. unfold src_pub_max_payload_length, HDR, GenConsts.DFH_LENGTH. src_robust. Qed.
Lemma src_pub_max_payload_length_ok m l : in_i32 (l_mtu l - HDR) = true ->
  src_pub_max_payload_length m (l_mtu l) = Ok (max_payload_length l).
Proof. intros H. rewrite src_pub_max_payload_length_eq. unfold sub32, max_payload_length. apply chk32_ok. assumption. Qed.
Lemma src_pub_max_message_length_eq m l : src_pub_max_message_length m (l_tlen l) = Ok (Appender.max_message_length l).
Proof. unfold src_pub_max_message_length. rewrite src_compute_max_message_length_eq.
  unfold GenDescriptorProofs.max_message_length, Appender.max_message_length, MAX_MESSAGE_LENGTH. reflexivity. Qed.

Lemma tz_pos_ntz p : tz_pos p = ntz_pos p.
Proof. induction p; cbn [tz_pos ntz_pos]; congruence. Qed.
Lemma tzT_ntz z : tzT TI32 z = ntz z.
Proof. destruct z; cbn [tzT ntz]; try apply tz_pos_ntz. reflexivity. Qed.
Lemma ntz_range z : 0 <= ntz z.
Proof. assert (P : forall p, 0 <= ntz_pos p) by (induction p; cbn [ntz_pos]; lia). destruct z; cbn [ntz]; try apply P. lia. Qed.
Lemma ntz_pos_le p : 2 ^ ntz_pos p <= Zpos p.
Proof. induction p; cbn [ntz_pos]; try (change (2 ^ 0) with 1; lia).
  assert (0 <= ntz_pos p) by (clear; induction p; cbn [ntz_pos]; lia).
  rewrite Z.pow_add_r by lia. change (2 ^ 1) with 2. lia. Qed.

Lemma src_number_of_trailing_zeroes_eq m z : in_i32 z = true -> src_number_of_trailing_zeroes m z = Ok (ntz z).
Proof. intros H. unfold src_number_of_trailing_zeroes. rewrite tzT_ntz. f_equal. apply wrap32_id.
  pose proof (ntz_range z). unfold in_i32, two31 in *.
  assert (ntz z <= 32).
  { destruct z as [|p|p]; cbn [ntz]; try lia;
      (destruct (Z.le_gt_cases (ntz_pos p) 32) as [L|G]; [assumption|exfalso];
       pose proof (ntz_pos_le p); assert (2 ^ 33 <= 2 ^ ntz_pos p) by (apply Z.pow_le_mono_r; lia);
       change (2 ^ 33) with 8589934592 in *; lia). }
  lia. Qed.

Lemma src_pub_position_bits_to_shift_eq m l : in_i32 (l_tlen l) = true ->
  src_pub_position_bits_to_shift m (l_tlen l) = Ok (bits_of l).
Proof. intros H. unfold src_pub_position_bits_to_shift, bits_of. apply src_number_of_trailing_zeroes_eq; assumption. Qed.

(* ---- the position test of offer_opt / try_claim (pub_try) ---- *)
Lemma src_pub_offer_term_offset_eq m raw : src_pub_offer_term_offset m raw = Ok (raw mod two32).
Proof. unfold src_pub_offer_term_offset. srcT_norm. reflexivity. Qed.

Lemma src_pub_offer_position_eq m l tid term_offset : 0 <= bits_of l < 64 ->
  src_pub_offer_position m (bits_of l) (l_init l) tid term_offset =
  add64 m (compute_term_begin_position tid (bits_of l) (l_init l)) term_offset.
Proof. intros H. unfold src_pub_offer_position. rewrite src_compute_term_begin_position_eq by assumption. src_robust. Qed.

Lemma src_pub_claim_position_eq m l tid term_offset : 0 <= bits_of l < 64 ->
  src_pub_claim_position m (bits_of l) (l_init l) tid term_offset =
  add64 m (compute_term_begin_position tid (bits_of l) (l_init l)) term_offset.
Proof. intros H. unfold src_pub_claim_position. rewrite src_compute_term_begin_position_eq by assumption. src_robust. Qed.

Lemma src_pub_offer_decisions_eq m l term_count tid position limit len toff :
  src_pub_offer_term_mismatch m (l_init l) term_count tid = Ok (negb (term_count =? wrap32 (tid - l_init l))) /\
  src_pub_claim_term_mismatch m (l_init l) term_count tid = Ok (negb (term_count =? wrap32 (tid - l_init l))) /\
  src_pub_offer_below_limit m position limit = Ok (position <? limit) /\
  src_pub_claim_below_limit m position limit = Ok (position <? limit) /\
  src_pub_offer_unfragmented m (max_payload_length l) len = Ok (len <=? max_payload_length l) /\
  src_pub_offer_term_offset_arg m toff = Ok (wrap32 toff).
Proof. unfold src_pub_offer_term_mismatch, src_pub_claim_term_mismatch, src_pub_offer_below_limit, src_pub_claim_below_limit,
    src_pub_offer_unfragmented, src_pub_offer_term_offset_arg.
  generalize (max_payload_length l); intros mpl. generalize (l_init l); intros init.
  split; [|split; [|split; [|split; [|split]]]]; first [ reflexivity | solve [src_robust] | f_equal; f_equal; apply Z.eqb_sym ]. Qed.

(* ---- ExclusivePublication ---- *)
Definition x_set_off (x : xpub) v := mkX (x_pub x) v (x_tid x) (x_idx x) (x_begin x).
Definition x_set_tid (x : xpub) v := mkX (x_pub x) (x_off x) v (x_idx x) (x_begin x).
Definition x_set_idx (x : xpub) v := mkX (x_pub x) (x_off x) (x_tid x) v (x_begin x).
Definition x_set_begin (x : xpub) v := mkX (x_pub x) (x_off x) (x_tid x) (x_idx x) v.
Definition x_set_log (x : xpub) (l : log) :=
  mkX (mkPub l (ps_closed (x_pub x)) (ps_claim (x_pub x))) (x_off x) (x_tid x) (x_idx x) (x_begin x).

Definition x_effect (x : xpub) (n : string) (args : list Z) : option xpub :=
  if String.eqb n "self.term_offset" then (match args with [v] => Some (x_set_off x v) | _ => None end)
  else if String.eqb n "self.term_id" then (match args with [v] => Some (x_set_tid x v) | _ => None end)
  else if String.eqb n "self.active_partition_index" then (match args with [v] => Some (x_set_idx x v) | _ => None end)
  else if String.eqb n "self.term_begin_position" then (match args with [v] => Some (x_set_begin x v) | _ => None end)
  else if String.eqb n "initialize_tail_with_term_id" then
    (match args with [i; t] => Some (x_set_log x (set_tail (xlog x) i (t * two32))) | _ => None end)
  else if String.eqb n "set_active_term_count_ordered" then
    (match args with [c] => Some (x_set_log x (set_count (xlog x) c)) | _ => None end)
  else None.

Fixpoint run_xpub (x : xpub) (r : sres) : xpub * outcome Z :=
  match r with
  | RDo n args k => match x_effect x n args with Some x' => run_xpub x' k | None => (x, Crash) end
  | other => (x, out_of_sres other)
  end.

Ltac src_simpl_hook ::= cbn [out_of_sres run_pub_o run_pub run_xpub err_of String.eqb Ascii.eqb Bool.eqb].

(* the publication as new_position finds it: the log as the appender left it, the claim the appender handed out *)
Definition x_entry (x : xpub) (l : log) (claim : option (Z * Z * Z)) : xpub :=
  mkX (mkPub l (ps_closed (x_pub x)) (match claim with Some c => Some c | None => ps_claim (x_pub x) end))
      (x_off x) (x_tid x) (x_idx x) (x_begin x).

Theorem src_xpub_new_position_eq m x l claim resulting :
  let r := src_xpub_new_position m (x_begin x) (max_possible_position l) (x_idx x) (x_tid x) (l_init l) (x_off x)
             (l_tlen l) resulting in
  match r with
  | Ok s => run_xpub (x_entry x l claim) s = xpub_new_position m x l claim resulting
  | _ => snd (xpub_new_position m x l claim resulting) = Panic
  end.
Proof. cbv zeta. unfold src_xpub_new_position, xpub_new_position. rewrite gtb_ltb.
  destruct (0 <? resulting).
  - cbv zeta. unfold add64. case_chk64 m (x_begin x + resulting) np E.
  - cbv zeta. unfold add64. case_chk64 m (x_begin x + l_tlen l) e E.
    rewrite geb_leb. destruct (max_possible_position l <=? e); [reflexivity|].
    rewrite src_next_partition_index_eq.
    destruct (next_partition_index m (x_idx x)) as [ni| | | |] eqn:N; cbn [bind]; reflexivity. Qed.

Theorem src_xpub_back_pressure_status_eq m l position len :
  (r <- src_xpub_back_pressure_status m (max_possible_position l) (l_connected l) position len ;; out_of_sres r)
  = back_pressure_status m l position len.
Proof. unfold src_xpub_back_pressure_status, back_pressure_status. generalize (max_possible_position l); intros mpp.
  destruct (l_connected l); src_robust. Qed.

Lemma src_xpub_checks_eq m maxl len :
  (r <- src_xpub_check_max_message_length m maxl len ;; out_of_sres r) = (if maxl <? len then Err TooLong else Ok 0) /\
  (r <- src_xpub_check_payload_length m maxl len ;; out_of_sres r) = (if maxl <? len then Err TooLong else Ok 0) /\
  src_xpub_offer_too_long m maxl len = Ok (maxl <? len) /\
  src_xpub_offer_unfragmented m maxl len = Ok (len <=? maxl).
Proof. unfold src_xpub_check_max_message_length, src_xpub_check_payload_length, src_xpub_offer_too_long, src_xpub_offer_unfragmented.
  split; [|split; [|split]]; src_robust. Qed.

Lemma src_xpub_geometry_eq m l : in_i32 (l_tlen l) = true ->
  src_xpub_max_possible_position m (l_tlen l) = Ok (max_possible_position l) /\
  src_xpub_max_payload_length m (l_mtu l) = sub32 m (l_mtu l) HDR /\
  src_xpub_position_bits_to_shift m (l_tlen l) = Ok (bits_of l).
Proof. intros H. split; [|split].
  - unfold src_xpub_max_possible_position, max_possible_position. srcT_norm. reflexivity.
  - unfold src_xpub_max_payload_length, HDR, GenConsts.DFH_LENGTH. src_robust.
  - unfold src_xpub_position_bits_to_shift, bits_of. apply src_number_of_trailing_zeroes_eq; assumption. Qed.

Lemma src_xpub_position_eq m x :
  src_xpub_offer_position m (x_begin x) (x_off x) = add64 m (x_begin x) (x_off x) /\
  src_xpub_position m (x_begin x) (x_off x) = add64 m (x_begin x) (x_off x).
Proof. unfold src_xpub_offer_position, src_xpub_position. split; src_robust. Qed.

Lemma src_xpub_offer_below_limit_eq m position limit : src_xpub_offer_below_limit m position limit = Ok (position <? limit).
Proof. unfold src_xpub_offer_below_limit. src_robust. Qed.

(* ---- TermAppender lengths ---- *)
Lemma src_align_FA m v : src_align m v GenConsts.FRAME_ALIGNMENT = align32 m v.
Proof. apply src_align_frame. Qed.

Lemma src_ta_unfrag_lengths_eq m len :
  (fl <- src_ta_frame_length m len ;; al <- src_ta_aligned_length m fl ;; Ok (fl, al)) = unfrag_lengths m len.
Proof. unfold src_ta_frame_length, src_ta_aligned_length, unfrag_lengths.
  replace (add32 m len GenConsts.DFH_LENGTH) with (add32 m len HDR) by reflexivity.
  first [ apply bind_ext; intros fl _; rewrite src_align_FA; reflexivity
        | (replace (add32 m GenConsts.DFH_LENGTH len) with (add32 m len HDR) by (unfold add32; f_equal; unfold HDR; lia));
          apply bind_ext; intros fl _; rewrite src_align_FA; reflexivity ]. Qed.

Lemma src_ta_last_frame_length_eq m rp :
  src_ta_last_frame_length m rp = (if 0 <? rp then (s <- add32 m rp HDR ;; align32 m s) else Ok 0).
Proof. unfold src_ta_last_frame_length. rewrite gtb_ltb. destruct (0 <? rp); [|reflexivity].
  apply bind_ext; intros s _. apply src_align_FA. Qed.

(* the required length of a fragmented message; `length / max_payload_length` panics on i32::MIN / -1, which the
   model's frag_required (Z.quot) does not describe - no message length is negative *)
Lemma src_ta_frag_required_eq m len mpl : ~ (len = - two31 /\ mpl = -1) ->
  (nmp <- src_ta_num_max_payloads m len mpl ;; rp <- src_ta_remaining_payload m len mpl ;;
   last <- src_ta_last_frame_length m rp ;; src_ta_required_length m nmp mpl last) = frag_required m len mpl.
Proof. intros Hn. unfold src_ta_num_max_payloads, src_ta_remaining_payload, frag_required, div32, rem32, rem_t.
  destruct (mpl =? 0) eqn:Z0; [reflexivity|].
  replace ((len =? - two31) && (mpl =? -1)) with false by lia. cbn [bind].
  rewrite src_ta_last_frame_length_eq. reflexivity. Qed.

Lemma src_ta_tail_eq m raw al tl :
  src_ta_term_offset m raw = Ok (raw mod two32) /\
  src_ta_resulting_offset m (raw mod two32) al = add64 m (raw mod two32) al /\
  src_ta_trips m al tl = Ok (al >? tl).
Proof. unfold src_ta_term_offset, src_ta_resulting_offset, src_ta_trips. srcT_norm. split; [reflexivity|split]; src_robust. Qed.

Lemma src_ta_padding_eq m off tl :
  src_ta_pads m off tl = Ok (off <? tl) /\ src_ta_padding_length m tl off = sub32 m tl off.
Proof. unfold src_ta_pads, src_ta_padding_length. split; src_robust. Qed.

(* ---- ExclusiveTermAppender lengths (ExclAppender.eta_claim and the eta_append functions) ---- *)
Lemma src_xta_unfrag_eq m len term_offset :
  (fl <- src_xta_frame_length m len ;; al <- src_xta_aligned_length m fl ;; r <- src_xta_resulting_offset m term_offset al ;;
   Ok (fl, al, r)) = ('(fl, al) <- unfrag_lengths m len ;; r <- add32 m term_offset al ;; Ok (fl, al, r)).
Proof. unfold src_xta_frame_length, src_xta_aligned_length, src_xta_resulting_offset, unfrag_lengths. cbv zeta.
  rewrite !bind_assoc.
  replace (add32 m len GenConsts.DFH_LENGTH) with (add32 m len HDR) by reflexivity.
  first [ apply bind_ext; intros fl _
        | (replace (add32 m GenConsts.DFH_LENGTH len) with (add32 m len HDR) by (unfold add32; f_equal; unfold HDR; lia));
          apply bind_ext; intros fl _ ].
  rewrite src_align_FA, bind_assoc. apply bind_ext; intros al _. cbn [bind].
  apply bind_ext; intros r _. reflexivity. Qed.

Lemma src_xta_required_length_eq m len mpl : ~ (len = - two31 /\ mpl = -1) ->
  src_xta_required_length m len mpl = frag_required m len mpl.
Proof. intros Hn. unfold src_xta_required_length, frag_required, div32, rem32, rem_t. cbv zeta.
  destruct (mpl =? 0) eqn:Z0; [reflexivity|].
  replace ((len =? - two31) && (mpl =? -1)) with false by lia. cbn [bind].
  rewrite <- (src_ta_last_frame_length_eq m (Z.rem len mpl)). unfold src_ta_last_frame_length.
  first [ reflexivity | src_robust ]. Qed.

Lemma src_xta_decisions_eq m term_offset required resulting tl :
  src_xta_frag_resulting_offset m term_offset required = add32 m term_offset required /\
  src_xta_trips m resulting tl = Ok (tl <? resulting) /\
  src_xta_pads m term_offset tl = Ok (term_offset <? tl) /\
  src_xta_padding_length m tl term_offset = sub32 m tl term_offset.
Proof. unfold src_xta_frag_resulting_offset, src_xta_trips, src_xta_pads, src_xta_padding_length.
  split; [|split; [|split]]; src_robust. Qed.
