(* C03, exclusive publisher: the state between two attempts, arithmetic of the fragment loop. *)
Require Import V.Base.MachineInt.
Require Import V.Generated.GenConsts.
Require Import V.Model.LogBase.
Require Import V.Model.Descriptor.
Require Import V.Model.Sched.
Require Import V.Model.AppenderThreads.
Require Import V.Model.ReaderThreads.
Require Import V.Model.ExclThreads.
Require Import V.Model.PollThreads.
Require Import V.Model.ClaimThreads.
Require Import V.Proofs.TailArith.
Require Import V.Proofs.FragArith.
Require Import V.Proofs.ExclDefs V.Proofs.ExclPub1.
From Coq Require Import ZifyBool.
Open Scope Z_scope.

Section P.
  Variable c : cfg.
  Hypothesis W : wf_cfg c.

  (* the publisher's position in the generations *)
  Definition xgeom (gh : xghost) (tbp idx tid : Z) : Prop :=
    exists g, c_n0 c <= g <= c_n0 c + 2 /\ tbp = g * TL c /\ idx = g mod 3 /\ tid = tid_of c g /\
              (forall g', g < g' <= c_n0 c + 2 -> xg_fr gh (g' mod 3) = [] /\ xg_hi gh (g' mod 3) = 0).

  (* between two attempts *)
  Lemma begin_inv gh todo b : forall res toff tid idx tbp,
    xgeom gh tbp idx tid -> 0 <= toff <= TL c -> toff mod 32 = 0 -> xg_hi gh idx = toff ->
    XPInv c gh (x_begin c todo b res toff tid idx tbp).
  Proof. induction b as [|b IH]; intros res toff tid idx tbp G T1 T2 Hh.
    - assert (E : x_begin c todo O res toff tid idx tbp = mkXL XDone todo O res toff tid idx tbp 0 0 0 0 0 []) by (destruct todo; reflexivity).
      rewrite E. constructor; cbn; try assumption; try (intros; discriminate); try (intros; congruence); auto.
      split; intros; discriminate.
    - destruct todo as [|it todo].
      + cbn [x_begin]. constructor; cbn; try assumption; try (intros; discriminate); try (intros; congruence); auto.
        split; intros; discriminate.
      + cbn [x_begin]. destruct (is_claim it && (max_payload c <? item_len it)) eqn:E; [apply IH; assumption|].
        constructor; cbn; try assumption; try (intros; discriminate); try (intros; congruence); auto.
        * intros Hc _. unfold x_len, x_item. cbn. rewrite Hc in E. split; [lia | intros; discriminate].
        * split; intros; discriminate. Qed.

  Lemma finish_inv gh r l : xgeom gh (x_tbp l) (x_idx l) (x_tid l) -> 0 <= x_toff l <= TL c -> x_toff l mod 32 = 0 ->
    xg_hi gh (x_idx l) = x_toff l -> XPInv c gh (x_finish c r l).
  Proof. intros. unfold x_finish. apply begin_inv; assumption. Qed.

  Lemma cur_begin todo b : forall res toff tid idx tbp, cur c (x_begin c todo b res toff tid idx tbp) = None.
  Proof. induction b as [|b IH]; intros; destruct todo as [|it todo]; cbn [x_begin]; try reflexivity.
    destruct (_ && _); [apply IH | reflexivity]. Qed.
  Lemma cur_finish r l : cur c (x_finish c r l) = None.
  Proof. apply cur_begin. Qed.

  (* a commit only changes the ghost state of the publisher's own partition *)
  Lemma xgeom_add gh tbp idx tid o sl : xgeom gh tbp idx tid -> xgeom (xg_add gh idx o sl) tbp idx tid.
  Proof. intros (g & G1 & G2 & G3 & G4 & G5). exists g. repeat (split; [assumption|]).
    intros g' Hg. cbn [xg_add xg_fr xg_hi]. pose proof (mod3_eq_diff g' g). destruct (g' mod 3 =? idx) eqn:E; [lia | apply G5; assumption]. Qed.

  Lemma span_ge rem : 0 <= rem -> align (flen c rem) FA <= span c (Z.to_nat rem) rem /\
    (rem - fbytes c rem <= 0 -> span c (Z.to_nat rem) rem = align (flen c rem) FA) /\
    (0 < rem - fbytes c rem -> span c (Z.to_nat rem) rem = align (flen c rem) FA + span c (Z.to_nat (rem - fbytes c rem)) (rem - fbytes c rem)).
  Proof. intros Hr. pose proof (mp_pos c W) as [Hmp _]. rewrite span_step by lia.
    destruct (rem - fbytes c rem <=? 0) eqn:E.
    - repeat split; lia.
    - pose proof (span_pos c W (Z.to_nat (rem - fbytes c rem)) (rem - fbytes c rem) ltac:(lia)). repeat split; lia. Qed.

  Lemma align_flen rem : 0 <= rem -> 32 <= align (flen c rem) FA /\ align (flen c rem) FA mod 32 = 0 /\ 32 <= flen c rem.
  Proof. intros Hr. pose proof (mp_pos c W) as [Hmp _]. unfold flen, fbytes. rewrite HDR_32, FA_32.
    pose proof (align_pos (Z.min rem (max_payload c) + 32) ltac:(lia)). lia. Qed.
End P.
