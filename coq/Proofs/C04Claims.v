(* claim + commit on the shared Publication: which claim the model's BufferClaim holds after every operation, what commit / abort
   change in the rendered partitions (only words of the claimed frame), and the oracle's claim rule (`holds_claims_from`,
   `holds_history2`) on the model's own traces. *)
Require Import V.Base.MachineInt.
Require Import V.Generated.GenConsts.
Require Import V.Model.Descriptor.
Require Import V.Model.LogBase.
Require Import V.Model.LogDelta.
Require Import V.Model.Appender.
Require Import V.Model.Publication.
Require Import V.Proofs.DescriptorProofs.
Require Import V.Proofs.AppenderProofs.
Require Import V.Proofs.PublicationProofs.
Require Import V.Proofs.BulkProofs.
Require Import V.Proofs.C04Proofs.
Require Import V.Oracle.C04Oracle.
Require Import V.Proofs.C04OracleProofs.
Require Import V.Proofs.C04Statements.
Require Import V.Proofs.RenderWords.
Require Import V.Proofs.C04Bytes.
From Coq Require Import ZifyBool.
Open Scope Z_scope.

(* ---- the entry a claim points at ---- *)
Fixpoint entry_at (t : term) (off : Z) : option entry :=
  match t with
  | [] => None
  | e :: r => if off =? 0 then Some e else if entry_span e <=? off then entry_at r (off - entry_span e) else None
  end.

Lemma term_update_at t : forall off g,
  match entry_at t off with
  | None => term_update t off g = t
  | Some e => exists p s, t = p ++ e :: s /\ term_end p = off /\ term_update t off g = p ++ g e :: s
  end.
Proof. induction t as [|e r IH]; intros off g; [reflexivity|]. cbn [entry_at term_update].
  destruct (off =? 0) eqn:E0.
  - exists [], r. cbn [app term_end]. repeat split. lia.
  - destruct (entry_span e <=? off) eqn:E1; [|reflexivity].
    specialize (IH (off - entry_span e) g). destruct (entry_at r (off - entry_span e)) as [e1|].
    + destruct IH as (p & s & Ht & Hend & Hup). exists (e :: p), s. cbn [app term_end]. rewrite Hup, Ht. repeat split. lia.
    + rewrite IH. reflexivity. Qed.

(* the claimed frame is still the one the claim was made for: same frame length, payload inside it *)
Definition claim_in_place (s : pubstate) : Prop :=
  match ps_claim s with
  | None => True
  | Some (i, off, fl) =>
      match entry_at (part (ps_log s) i) off with
      | None => True
      | Some e => exists f, (e = Claimed f \/ e = Committed f) /\ f_len f = fl /\ zlen (f_body f) <= fl - HDR
      end
  end.

(* ---- what commit / abort change ---- *)
Lemma update_words t off fl g : spans_nonneg t -> HDR <= fl ->
  match entry_at t off with
  | None => True
  | Some e => (exists f, (e = Claimed f \/ e = Committed f) /\ f_len f = fl /\ zlen (f_body f) <= fl - HDR) /\
              entry_wf (g e) /\ entry_span (g e) = entry_span e
  end ->
  offs_in off (off + align fl FA) (words_diff (render_term t) (render_term (term_update t off g))).
Proof. intros Hsp Hfl H. pose proof (term_update_at t off g) as Hu. destruct (entry_at t off) as [e|].
  - destruct Hu as (p & s & -> & Hend & ->). destruct H as ((f & Hf & Hlen & Hbody) & Hwf' & Hspan).
    assert (Hwf : entry_wf e) by (destruct Hf as [-> | ->]; cbn [entry_wf]; rewrite Hlen; auto).
    assert (Hse : entry_span e = align fl FA) by (destruct Hf as [-> | ->]; cbn [entry_span]; rewrite Hlen; reflexivity).
    pose proof (updated_render p e (g e) s Hsp Hspan Hwf Hwf') as Hr. rewrite Hend, Hse in Hr. exact Hr.
  - rewrite Hu. rewrite words_diff_same. constructor. Qed.

Definition claim_rel (cl : option (Z * Z * Z)) (c : option (Z * Z * Z)) : Prop :=
  match c with
  | None => cl = None
  | Some (i, off, fl) => cl = Some (i, off, align fl FA) /\ 0 <= i < 3 /\ HDR <= fl
  end.

Definition all_spans (l : log) : Prop := forall i, 0 <= i < 3 -> spans_nonneg (part l i).

Lemma claim_words_same cl l : claim_words cl (log_delta l l) = true.
Proof. unfold claim_words. destruct cl as [[[i off] req]|]; [|apply no_words_same].
  assert (H : forall j, d_part (log_delta l l) (j mod 3) = []).
  { intros j. rewrite d_part_delta by (apply Z.mod_pos_bound; lia). apply words_diff_same. }
  rewrite !H. assert (Hi : d_part (log_delta l l) i = []).
  { unfold d_part, log_delta. cbn [snd]. destruct (Z.to_nat i) as [|[|[|k]]]; cbn [nth]; try apply words_diff_same. destruct k; reflexivity. }
  rewrite Hi. reflexivity. Qed.

(* commit / abort: every changed word lies in the claimed frame; no claim: nothing changes *)
Theorem oracle_claim_words m s o cl r0 :
  (o = Abort \/ exists body, o = Commit body) -> all_spans (ps_log s) -> claim_in_place s -> claim_rel cl (ps_claim s) ->
  claim_words cl (o_dump (pub_obs m s (fst (env_step s o)) r0)) = true.
Proof. intros Ho Hsp Hin Hrel. unfold pub_obs, o_dump. cbn [fst snd].
  assert (Hupd : forall i off fl g, ps_claim s = Some (i, off, fl) ->
            (forall e f, (e = Claimed f \/ e = Committed f) -> f_len f = fl -> zlen (f_body f) <= fl - HDR -> entry_wf (g e) /\ entry_span (g e) = entry_span e) ->
            claim_words cl (log_delta (ps_log s) (set_part (ps_log s) i (term_update (part (ps_log s) i) off g))) = true).
  { intros i off fl g Hc Hg. unfold claim_rel in Hrel. rewrite Hc in Hrel. destruct Hrel as (-> & Hi & Hfl).
    unfold claim_in_place in Hin. rewrite Hc in Hin.
    pose proof (Z.mod_pos_bound (i + 1) 3 ltac:(lia)) as I1. pose proof (Z.mod_pos_bound (i + 2) 3 ltac:(lia)) as I2.
    assert (N1 : (i + 1) mod 3 <> i) by (pose proof (Z.div_mod (i + 1) 3 ltac:(lia)); lia).
    assert (N2 : (i + 2) mod 3 <> i) by (pose proof (Z.div_mod (i + 2) 3 ltac:(lia)); lia).
    unfold claim_words. rewrite !d_part_delta by assumption.
    rewrite part_set_part_same by assumption. rewrite !part_set_part_other by auto. rewrite !words_eqb_nil_same. rewrite !Bool.andb_true_r.
    apply offs_in_forallb. apply update_words; [apply Hsp; assumption|assumption|].
    destruct (entry_at (part (ps_log s) i) off) as [e|]; [|exact I].
    destruct Hin as (f & Hf & Hlen & Hbody). split; [exists f; auto|]. apply (Hg e f); assumption. }
  destruct Ho as [-> | (body & ->)]; cbn [env_step].
  - unfold claim_apply. destruct (ps_claim s) as [[[i off] fl]|] eqn:Ec; cbn [fst ps_log]; [|apply claim_words_same].
    apply (Hupd i off fl abort_entry eq_refl). intros e f Hf Hlen Hbody. split; [|apply abort_entry_span].
    destruct Hf as [-> | ->]; cbn [abort_entry entry_wf f_len f_body]; rewrite Hlen; unfold claim_rel in Hrel; try rewrite Ec in Hrel; lia.
  - unfold pub_commit. destruct (ps_claim s) as [[[i off] fl]|] eqn:Ec; cbn [fst ps_log]; [|apply claim_words_same].
    destruct (fl - HDR <? zlen body) eqn:Eb; cbn [fst ps_log]; [apply claim_words_same|].
    unfold claim_apply. rewrite Ec. cbn [fst ps_log].
    apply (Hupd i off fl (commit_entry body) eq_refl). intros e f Hf Hlen Hbody. split; [|apply commit_entry_span].
    destruct Hf as [-> | ->]; cbn [commit_entry entry_wf f_len f_body]; rewrite Hlen; unfold claim_rel in Hrel; try rewrite Ec in Hrel; lia.
Qed.

(* ---- which claim the model holds after a step ---- *)
Lemma ta_unfrag_noclaim m rv l idx msg tid a : ta_append_unfragmented m rv l idx msg tid = Ok a -> a_claim a = None.
Proof. unfold ta_append_unfragmented. destruct (unfrag_lengths m (zlen msg)) as [[fl al]| | | |]; cbn [bind]; try discriminate.
  destruct (tail_claim l idx al tid) as [c| | | |]; cbn [bind]; try discriminate.
  destruct (l_tlen l <? c_off c + al); intros H; inversion H; reflexivity. Qed.

Lemma ta_frag_noclaim m rv l idx msg mpl tid a : ta_append_fragmented m rv l idx msg mpl tid = Ok a -> a_claim a = None.
Proof. unfold ta_append_fragmented. destruct (frag_required m (zlen msg) mpl) as [req| | | |]; cbn [bind]; try discriminate.
  destruct (tail_claim l idx req tid) as [c| | | |]; cbn [bind]; try discriminate.
  destruct (l_tlen l <? c_off c + req); intros H; inversion H; reflexivity. Qed.

Lemma ta_claim_claim m l idx len tid a : ta_claim m l idx len tid = Ok a ->
  a_result a = TERM_APPENDER_FAILED \/
  exists c fl al, unfrag_lengths m len = Ok (fl, al) /\ tail_claim l idx al tid = Ok c /\ a_claim a = Some (idx, c_off c, fl).
Proof. unfold ta_claim. destruct (unfrag_lengths m len) as [[fl al]| | | |] eqn:El; cbn [bind]; try discriminate.
  destruct (tail_claim l idx al tid) as [c| | | |] eqn:Et; cbn [bind]; try discriminate.
  destruct (l_tlen l <? c_off c + al).
  - intros H; inversion H. left. reflexivity.
  - destruct (c_off c + fl <=? l_tlen l); intros H; inversion H. right. exists c, fl, al. auto. Qed.

Lemma pub_try_ok_claim m s len act s' p : pub_try m s len act = (s', Ok p) ->
  exists a, act (ps_log s) (index_by_term_count (l_count (ps_log s)))
                (term_id_of (tail (ps_log s) (index_by_term_count (l_count (ps_log s))))) = Ok a /\
            0 < a_result a /\
            ps_claim s' = match a_claim a with Some c => Some c | None => ps_claim s end.
Proof. unfold pub_try. destruct (ps_closed s); [discriminate|].
  destruct (index_by_term_count (l_count (ps_log s)) <? 0); [discriminate|].
  destruct (add64 m _ _) as [position| | | |]; try discriminate.
  destruct (negb _); [discriminate|].
  destruct (position <? l_limit (ps_log s)).
  - destruct (act _ _ _) as [a|e| | |]; try discriminate.
    + destruct (pub_new_position m (a_log a) _ _ _ _ _) as [l2 r] eqn:En. intros H. inversion H; subst.
      exists a. split; [reflexivity|]. split; [|reflexivity].
      unfold pub_new_position in En. destruct (0 <? a_result a) eqn:E; [lia|].
      destruct (add64 m position _) as [v| | | |]; try (inversion En; fail).
      destruct (max_possible_position (a_log a) <? v); [inversion En|].
      destruct (rotate_log m _ _ _); inversion En.
    + destruct e; discriminate.
  - destruct (back_pressure_status m (ps_log s) position len) as [v|e| | |]; discriminate. Qed.

Theorem step_claim_new m rv s n off len s' p : pub_inv n off s -> op_ok (ps_log s) (Claim len) ->
  pub_step m rv s (Claim len) = (s', Ok p) -> ps_claim s' = Some (n mod 3, off, len + 32).
Proof. intros Hinv Hok Es.
  pose proof (pi_count _ _ _ Hinv) as Hcount. pose proof (pi_n _ _ _ Hinv) as Hn. pose proof (pi_tail _ _ _ Hinv) as Htail.
  pose proof (inv_off_bound s n off Hinv) as [Hob _]. pose proof (inv_tid_i32 s n) as Htid. pose proof (mod3_range n) as M0.
  cbn [pub_step] in Es. unfold pub_claim in Es. destruct (max_payload_length (ps_log s) <? len); [discriminate|].
  apply pub_try_ok_claim in Es. destruct Es as (a & Hact & Hpos & ->).
  rewrite Hcount in Hact. rewrite index_by_term_count_nonneg in Hact by assumption. rewrite Htail in Hact.
  rewrite raw_tid in Hact by (auto; unfold two32; lia).
  destruct (ta_claim_claim _ _ _ _ _ _ Hact) as [Hf | (c & fl & al & Hl & Ht & ->)].
  { rewrite Hf in Hpos. unfold TERM_APPENDER_FAILED, GenConsts.TERM_APPENDER_FAILED in Hpos. lia. }
  cbn [op_ok] in Hok. rewrite unfrag_lengths_ok in Hl by lia. inversion Hl; subst fl al.
  pose proof (align_bounds (len + 32) ltac:(lia)) as [Ha _].
  rewrite (tail_claim_ok (ps_log s) (n mod 3) _ off) in Ht by (auto; unfold two32; lia). inversion Ht; subst c. reflexivity. Qed.

Theorem step_claim_same m rv s n off o s' r : pub_inv n off s -> op_ok (ps_log s) o ->
  pub_step m rv s o = (s', r) -> (forall len p, o = Claim len -> r <> Ok p) -> ps_claim s' = ps_claim s.
Proof. intros Hinv Hok Es Hnc. destruct (is_append o) eqn:Ea.
  2:{ assert (E : pub_step m rv s o = env_step s o) by (destruct o; try discriminate; reflexivity). rewrite E in Es.
      destruct o; try discriminate; cbn [env_step] in Es; try (inversion Es; reflexivity).
      - unfold pub_commit, claim_apply in Es. destruct (ps_claim s) as [[[i o0] fl]|] eqn:Ec; [|inversion Es; subst; exact Ec].
        destruct (fl - HDR <? zlen body); inversion Es; subst; cbn [ps_claim]; first [reflexivity | exact Ec].
      - unfold claim_apply in Es. destruct (ps_claim s) as [[[i o0] fl]|] eqn:Ec; inversion Es; subst; cbn [ps_claim]; first [reflexivity | exact Ec]. }
  assert (Hnon : (forall p, r <> Ok p) -> ps_claim s' = ps_claim s).
  { intros Hr. destruct (pub_step_cases m rv s n off o Hinv Hok Ea) as [(len & _ & _ & E) | T]; [rewrite E in Es; inversion Es; reflexivity|].
    rewrite Es in T. inversion T; subst; try reflexivity; try assumption. exfalso. eapply Hr. reflexivity. }
  destruct r as [p|e| | |]; try (apply Hnon; discriminate).
  destruct o; try discriminate; cbn [pub_step] in Es.
  - (* Offer *) unfold pub_offer in Es. apply pub_try_ok_claim in Es. destruct Es as (a & Hact & _ & ->).
    destruct (zlen msg <=? max_payload_length (ps_log s)).
    + rewrite (ta_unfrag_noclaim _ _ _ _ _ _ _ Hact). reflexivity.
    + destruct (max_message_length (ps_log s) <? zlen msg); [discriminate|]. rewrite (ta_frag_noclaim _ _ _ _ _ _ _ _ Hact). reflexivity.
  - exfalso. apply (Hnc len p eq_refl). reflexivity.
  - (* Bulk *) pose proof (pi_legal _ _ _ Hinv) as Hleg. pose proof (legal_mpl _ Hleg) as (Hm1 & _). cbn [op_ok] in Hok.
    rewrite pub_bulk_eq_offer in Es by (auto; lia). unfold pub_offer in Es. apply pub_try_ok_claim in Es. destruct Es as (a & Hact & _ & ->).
    destruct (zlen (concat bufs) <=? max_payload_length (ps_log s)).
    + rewrite (ta_unfrag_noclaim _ _ _ _ _ _ _ Hact). reflexivity.
    + destruct (max_message_length (ps_log s) <? zlen (concat bufs)); [discriminate|]. rewrite (ta_frag_noclaim _ _ _ _ _ _ _ _ Hact). reflexivity.
Qed.

(* ---- every partition keeps non-negative extents over a history ---- *)
Lemma mod3_cover n i : 0 <= i < 3 -> i = n mod 3 \/ i = (n + 1) mod 3 \/ i = (n + 2) mod 3.
Proof. intros Hi. pose proof (Z.div_mod n 3 ltac:(lia)). pose proof (Z.div_mod (n+1) 3 ltac:(lia)). pose proof (Z.div_mod (n+2) 3 ltac:(lia)).
  pose proof (mod3_range n). pose proof (mod3_range (n+1)). pose proof (mod3_range (n+2)). lia. Qed.

Lemma spans_step m rv s n off o :
  pub_inv n off s -> content_inv (ps_log s) n off -> mtu_aligned (ps_log s) -> all_spans (ps_log s) -> op_ok (ps_log s) o ->
  all_spans (ps_log (fst (pub_step m rv s o))).
Proof. intros Hinv Hc Hal Hsp Hok. pose proof Hc as (H32 & Hend & Hspa).
  pose proof (mod3_range n) as M0. pose proof (mod3_range (n+1)) as M1. pose proof (mod3_range (n+2)) as M2.
  pose proof (mod3_distinct n) as (D1 & D2 & D3). pose proof (pi_n _ _ _ Hinv) as Hn.
  destruct (is_append o) eqn:Ea.
  2:{ assert (E : pub_step m rv s o = env_step s o) by (destruct o; try discriminate; reflexivity). rewrite E.
      assert (Hupd : forall i0 o0 g, (forall e, entry_span (g e) = entry_span e) ->
                all_spans (set_part (ps_log s) i0 (term_update (part (ps_log s) i0) o0 g))).
      { intros i0 o0 g Hg j Hj. destruct (part_set_part_any (ps_log s) i0 (term_update (part (ps_log s) i0) o0 g) j Hj) as [-> | [-> Hp]]; [apply Hsp; assumption|].
        rewrite Hp. apply term_update_span; [exact Hg|apply Hsp; assumption]. }
      destruct o; try discriminate; cbn [env_step fst]; try exact Hsp.
      - unfold pub_commit, claim_apply. destruct (ps_claim s) as [[[i0 o0] fl]|]; [|exact Hsp].
        destruct (fl - HDR <? zlen body); [exact Hsp|]. cbn [fst ps_log]. apply Hupd. apply commit_entry_span.
      - unfold claim_apply. destruct (ps_claim s) as [[[i0 o0] fl]|]; [|exact Hsp]. cbn [fst ps_log]. apply Hupd. apply abort_entry_span.
      - cbn [with_log ps_log]. intros j Hj.
        destruct (part_set_part_any (ps_log s) (next_index (ps_log s)) [] j Hj) as [-> | [-> _]]; [apply Hsp; assumption|constructor]. }
  destruct (pub_step_cases m rv s n off o Hinv Hok Ea) as [(len & _ & _ & E) | T]; [rewrite E; exact Hsp|].
  destruct (pub_step m rv s o) as [s' r] eqn:Es. cbn [fst].
  assert (Hpad : forall req, all_spans (bumped (ps_log s) n off req)).
  { intros req j Hj. destruct (bumped_spec (ps_log s) n off req ltac:(lia)) as (_ & _ & _ & _ & B1 & B2 & B0).
    destruct (mod3_cover n j Hj) as [-> | [-> | ->]]; [|rewrite B1; apply Hsp; assumption|rewrite B2; apply Hsp; assumption].
    rewrite B0. destruct (off <? l_tlen (ps_log s)) eqn:Eoff; [|apply Hsp; assumption].
    assert (Hend' : term_end (part (ps_log s) (n mod 3)) = off) by (rewrite Hend; lia).
    rewrite (term_put_at _ off _ Hend' Hspa). apply spans_nonneg_app; [assumption|]. constructor; [|constructor].
    cbn [entry_span data_frame f_len]. rewrite FA_eq. pose proof (align_bounds (l_tlen (ps_log s) - off) ltac:(lia)). lia. }
  inversion T; subst; try exact Hsp.
  - destruct (pub_step_wrote m rv s n off o s' _ Hinv Hal Hok Ea Es) as (es & W1 & W2 & W3 & Hfit).
    pose proof (term_end_nonneg es (wf_spans es W1)) as Hes. rewrite W2 in Hes.
    rewrite W3. intros j Hj. destruct (Z.eq_dec j (n mod 3)) as [-> | Hne].
    + rewrite part_set_part_same by assumption.
      assert (Hend' : term_end (part (ps_log s) (n mod 3)) = off) by (rewrite Hend; lia).
      rewrite (term_put_at _ off es Hend' Hspa). apply spans_nonneg_app; [assumption|apply wf_spans; assumption].
    + rewrite part_set_part_other by auto. rewrite part_set_tail. apply Hsp. assumption.
  - match goal with H : ps_log s' = rotated _ _ |- _ => rewrite H end. intros j Hj. change (part (rotated ?x n) j) with (part x j). apply Hpad. assumption.
  - match goal with H : ps_log s' = bumped _ _ _ _ |- _ => rewrite H end. apply Hpad.
Qed.

(* ---- the claim rule over whole histories ---- *)
Fixpoint commits_in_place (m : mode) (rv : Z -> Z -> list Z -> Z) (s : pubstate) (ops : list op) : Prop :=
  match ops with
  | [] => True
  | o :: r => (match o with Commit _ | Abort => claim_in_place s | _ => True end) /\
              commits_in_place m rv (fst (pub_step m rv s o)) r
  end.

Lemma claim_rel_step m rv s n off o cl s0 r0 n0 off0 :
  pub_inv n off s -> op_ok (ps_log s) o -> claim_rel cl (ps_claim s) ->
  claim_rel (claim_of (geom_of (ps_log s) n0 off0) cl (oop_of o) (pub_obs m s0 s r0)
                      (pub_obs m s (fst (pub_step m rv s o)) (snd (pub_step m rv s o))))
            (ps_claim (fst (pub_step m rv s o))).
Proof. intros Hinv Hok Hrel. destruct (pub_step m rv s o) as [s' r] eqn:Es. cbn [fst snd].
  assert (Hcase : (exists len p, o = Claim len /\ r = Ok p) \/ (forall len p, o = Claim len -> r <> Ok p)).
  { destruct o; try (right; intros; discriminate). destruct r as [p| | | |]; try (right; intros; discriminate). left. eauto. }
  destruct Hcase as [(len & p & -> & ->) | Hnc].
  - rewrite (step_claim_new m rv s n off len s' p Hinv Hok Es).
    destruct (pub_accept m rv s n off (Claim len) s' p Hinv Hok eq_refl Es) as (Hcl & Htl & Hpos & _).
    pose proof (mod3_range n) as M0. pose proof (inv_off_bound s n off Hinv) as [Hob Htlen]. pose proof (pi_n _ _ _ Hinv) as Hn.
    assert (Hfit : off <= l_tlen (ps_log s)).
    { destruct (pub_step_cases m rv s n off (Claim len) Hinv Hok eq_refl) as [(len' & _ & _ & E) | T]; [rewrite E in Es; discriminate|].
      rewrite Es in T. assert (Hreq := required_ok s n off (Claim len) Hinv Hok eq_refl Htl). inversion T; subst. lia. }
    cbn [oop_of claim_of]. change (o_res (pub_obs m s s' (Ok p))) with (@Ok Z p).
    assert (Hp : o_pos (pub_obs m s0 s r0) = Ok (spec_pos (ps_log s) n off)) by (unfold pub_obs, o_pos; cbn [snd]; exact Hpos).
    rewrite Hp. rewrite (p_active m s n off Hinv). unfold pos_off. rewrite (p_count m s n off Hinv).
    cbn [op_too_long] in Htl. cbn [op_ok] in Hok.
    unfold claim_rel. split; [|split; [assumption|rewrite HDR_eq; lia]].
    f_equal. f_equal; [f_equal|].
    + unfold spec_pos, geom_of. cbn [g_tlen]. rewrite Z.min_l by lia. ring.
    + unfold required, g_mpl, geom_of. cbn [g_mtu]. fold (max_payload_length (ps_log s)).
      assert (E : (len <=? max_payload_length (ps_log s)) = true) by lia. rewrite E. rewrite HDR_eq. reflexivity.
  - rewrite (step_claim_same m rv s n off o s' r Hinv Hok Es Hnc).
    assert (E : claim_of (geom_of (ps_log s) n0 off0) cl (oop_of o) (pub_obs m s0 s r0) (pub_obs m s s' r) = cl).
    { destruct o; try reflexivity. cbn [oop_of claim_of]. change (o_res (pub_obs m s s' r)) with r.
      destruct r as [p| | | |]; try reflexivity. exfalso. apply (Hnc len p eq_refl). reflexivity. }
    rewrite E. exact Hrel. Qed.

Theorem oracle_claims_from m rv ops : forall s n off cl s0 r0 n0 off0,
  pub_inv n off s -> content_inv (ps_log s) n off -> mtu_aligned (ps_log s) -> all_spans (ps_log s) ->
  claim_rel cl (ps_claim s) -> hist_ok (ps_log s) ops ->
  clean_before_reuse m rv s ops -> commits_in_place m rv s ops ->
  holds_claims_from (geom_of (ps_log s) n0 off0) cl (pub_obs m s0 s r0) (map oop_of ops) (pub_trace m rv s ops) = true.
Proof. induction ops as [|o r IH]; intros s n off cl s0 r0 n0 off0 Hinv Hc Hal Hsp Hrel Hok Hcl Hcp; [reflexivity|].
  inversion Hok as [|? ? Ho Hr]; subst. destruct Hcl as [Hcl1 Hcl2]. destruct Hcp as [Hcp1 Hcp2].
  pose proof (claim_rel_step m rv s n off o cl s0 r0 n0 off0 Hinv Ho Hrel) as Hrel'.
  pose proof (spans_step m rv s n off o Hinv Hc Hal Hsp Ho) as Hsp'.
  destruct (content_step m rv s n off o Hinv Hc Hal Ho Hcl1) as (n' & off' & Hinv' & Hc' & Hg').
  assert (Hwords : match oop_of o with
                   | OCommit | OAbort => claim_words cl (o_dump (pub_obs m s (fst (pub_step m rv s o)) (snd (pub_step m rv s o))))
                   | _ => true end = true).
  { destruct o; try reflexivity; cbn [oop_of pub_step].
    - apply oracle_claim_words; auto. right. eexists. reflexivity.
    - apply oracle_claim_words; auto. }
  cbn [map pub_trace]. destruct (pub_step m rv s o) as [s' res] eqn:Es. cbn [fst snd] in *. cbn [holds_claims_from].
  rewrite Hwords. cbn [andb]. rewrite <- (geom_of_same _ _ n0 off0 Hg').
  apply (IH s' n' off'); auto.
  - destruct Hg' as (_ & _ & G3 & _). unfold mtu_aligned. rewrite <- G3. exact Hal.
  - rewrite (geom_of_same _ _ n0 off0 Hg'). exact Hrel'.
  - eapply Forall_impl; [|exact Hr]. intros a. apply op_ok_same. destruct Hg' as (_ & H & _). exact H.
Qed.

Lemma handover_spans h : handover_ok h -> all_spans (handover_log h).
Proof. intros (Hg & Hn & Ho) i Hi. unfold handover_log, handed_over. cbv zeta.
  assert (Hp : forall b : bool, spans_nonneg (if b then [Unknown (h_off0 h)] else [])).
  { intros [|]; repeat constructor. cbn [entry_span]. lia. }
  assert (Hc : i = 0 \/ i = 1 \/ i = 2) by lia. destruct Hc as [-> | [-> | ->]]; unfold part; cbn [l_p0 l_p1 l_p2 Z.eqb]; apply Hp. Qed.

(* the history predicate with the claim rule, on the model's trace *)
Theorem oracle_history2_shared m rv h ops :
  handover_ok h -> handover_aligned h -> hist_ok (handover_log h) ops ->
  clean_before_reuse m rv (pub_init (handover_log h)) ops -> commits_in_place m rv (pub_init (handover_log h)) ops ->
  holds_history2 (geom_of_handover h) (map oop_of ops) (pub_trace m rv (pub_init (handover_log h)) ops) = true.
Proof. intros Hh Hal Hok Hcl Hcp. unfold holds_history2. rewrite (oracle_history_shared m rv h ops Hh Hal Hok Hcl). cbn [andb].
  rewrite (handover_obs0 m h Hh). destruct (handover_content h Hh Hal) as [Hc Hma]. pose proof (handover_spans h Hh) as Hsp.
  destruct Hh as (Hg & Hn & Ho).
  pose proof (handed_over_inv (h_init h) (h_tlen h) (h_mtu h) (h_session h) (h_stream h) (h_n0 h) (h_off0 h) Hg Hn Ho) as Hinv.
  apply (oracle_claims_from m rv ops (pub_init (handover_log h)) (h_n0 h) (h_off0 h) None); try assumption. reflexivity. Qed.

