(* Proofs about Generated/GenSrcImage.v and Generated/GenSrcFrame.v: the position / offset arithmetic of src/image.rs
   (poll, bounded_poll, validate_position, create), of Subscription::poll_inner, of term_reader::read, term_scan::scan
   and the helper functions of frame_descriptor.rs / term_scan.rs as they are in the source today
   (tools/props/src_translate.py), against Model/Image.v, Model/Reader.v and Model/Subscription.v.
   The reader-side models compute in unbounded Z (their theorems bound the values); the statements here say that the
   checked / truncating arithmetic of the source yields the model's value whenever that value fits the source's type,
   which is the case on the domain of the C05 / C20 theorems (positions below 2^62, offsets within a term). *)
Require Import V.Base.MachineInt V.Base.MachineInt2 V.Base.MachineIntT V.Generated.GenConsts
               V.Model.Descriptor V.Model.LogBase V.Model.Reader V.Model.Image
               V.Proofs.SrcNorm V.Proofs.SrcNormT V.Proofs.DescriptorProofs
               V.Generated.GenDescriptor V.Proofs.GenDescriptorProofs V.Generated.GenSrcBits
               V.Generated.GenSrcFrame V.Generated.GenSrcImage.
From Coq Require Import ZifyBool String.
Open Scope Z_scope.

Ltac iconsts := unfold FA, HDR, GenConsts.FRAME_ALIGNMENT, GenConsts.DFH_LENGTH in *.

Lemma gtb_ltb a b : (a >? b) = (b <? a). Proof. apply Z.gtb_ltb. Qed.

(* ---- masks ---- *)
Lemma land_wrap32_mask pos bits : 0 <= bits <= 32 -> Z.land (wrap32 pos) (2 ^ bits - 1) = pos mod 2 ^ bits.
Proof. intros Hb. rewrite Z.sub_1_r, <- Z.ones_equiv, Z.land_ones by lia.
  destruct (wrap32_eqm pos) as [k Hk]. rewrite Hk.
  assert (E : two32 = 2 ^ (32 - bits) * 2 ^ bits).
  { rewrite <- Z.pow_add_r by lia. replace (32 - bits + bits) with 32 by lia. reflexivity. }
  rewrite E. replace (pos + k * (2 ^ (32 - bits) * 2 ^ bits)) with (pos + (k * 2 ^ (32 - bits)) * 2 ^ bits) by ring.
  apply Z_mod_plus_full. Qed.

Lemma land_mask_pow2 pos bits : 0 <= bits -> Z.land pos (2 ^ bits - 1) = pos mod 2 ^ bits.
Proof. intros Hb. rewrite Z.sub_1_r, <- Z.ones_equiv, Z.land_ones by lia. reflexivity. Qed.

(* ---- Image::create ---- *)
Lemma src_img_term_length_mask_eq m tl : in_i32 (tl - 1) = true -> src_img_term_length_mask m tl = Ok (tl - 1).
Proof. intros H. unfold src_img_term_length_mask. src_robust. Qed.

(* position_bits_to_shift = number_of_trailing_zeroes(capacity) is the model's bits_of (log2) for a term length 2^bits *)
Lemma tz_pow2 k : 0 <= k -> tzT TI32 (2 ^ k) = k.
Proof. intros Hk. pattern k. apply natlike_ind; [reflexivity| |assumption].
  intros x Hx IH. rewrite Z.pow_succ_r by assumption.
  assert (P : 0 < 2 ^ x) by (apply Z.pow_pos_nonneg; lia).
  destruct (2 ^ x) as [|p|p] eqn:E; try lia.
  change (2 * Z.pos p) with (Z.pos p~0). cbn [tzT tz_pos] in *. lia. Qed.

Lemma src_img_position_bits_to_shift_eq m bits : 0 <= bits <= 30 ->
  src_img_position_bits_to_shift m (2 ^ bits) = Ok (bits_of (2 ^ bits)).
Proof. intros Hb. unfold src_img_position_bits_to_shift, src_number_of_trailing_zeroes, bits_of. cbv zeta.
  rewrite tz_pow2 by lia. rewrite Z.log2_pow2 by lia. f_equal. apply wrap32_id. unfold in_i32, two31. lia. Qed.

(* ---- poll ---- *)
Lemma src_img_poll_term_offset_eq m tl pos :
  src_img_poll_term_offset m (tl - 1) pos = Ok (term_offset_of_pos tl pos).
Proof. unfold src_img_poll_term_offset, term_offset_of_pos. first [ reflexivity | rewrite Z.land_comm; reflexivity | src_robust ]. Qed.

Lemma src_img_poll_index_eq m pos bits : 0 <= bits < 64 ->
  src_img_poll_index m bits pos = Ok (index_by_position pos bits).
Proof. intros H. unfold src_img_poll_index. apply src_index_by_position_eq; assumption. Qed.

(* position + (read_outcome.offset - term_offset) as i64 *)
Lemma src_img_poll_new_position_eq m pos o off : in_i32 (o - off) = true -> in_i64 (pos + (o - off)) = true ->
  src_img_poll_new_position m o pos off = Ok (pos + (o - off)).
Proof. intros H1 H2. unfold src_img_poll_new_position. src_robust. Qed.

Lemma src_img_poll_advances_eq m np pos : src_img_poll_advances m np pos = Ok (np >? pos).
Proof. unfold src_img_poll_advances. src_robust. Qed.

(* ---- bounded_poll ---- *)
(* (position & mask as i64) as i32 is the same term offset as (position as i32) & mask *)
Lemma src_img_bounded_initial_offset_eq m bits pos : 0 <= bits <= 31 ->
  src_img_bounded_initial_offset m (2 ^ bits - 1) pos = Ok (term_offset_of_pos (2 ^ bits) pos).
Proof. intros Hb. unfold src_img_bounded_initial_offset, term_offset_of_pos. cbv zeta. f_equal.
  rewrite ?(Z.land_comm (2 ^ bits - 1)). rewrite land_wrap32_mask by lia. rewrite land_mask_pow2 by lia. apply wrap32_id.
  pose proof (Z.mod_pos_bound pos (2 ^ bits) ltac:(apply Z.pow_pos_nonneg; lia)).
  assert (2 ^ bits <= 2 ^ 31) by (apply Z.pow_le_mono_r; lia). change (2 ^ 31) with 2147483648 in *.
  unfold in_i32, two31. lia. Qed.

Lemma satT_sat64 z : satT TI64 z = sat64 z.
Proof. reflexivity. Qed.

Lemma src_img_bounded_limit_offset_eq m cap bound pos off : 0 <= cap ->
  src_img_bounded_limit_offset m bound pos off cap = Ok (limit_offset cap bound pos off).
Proof. intros Hc. unfold src_img_bounded_limit_offset, limit_offset. cbv zeta. rewrite !satT_sat64.
  rewrite clampT_ok by assumption. cbn [bind]. first [ reflexivity | f_equal; f_equal; f_equal; f_equal; f_equal; f_equal; lia ]. Qed.

Lemma src_img_bounded_loop_eq m n limit off lo len :
  src_img_bounded_continue m n limit off lo = Ok ((n <? limit) && (off <? lo)) /\
  src_img_bounded_stop m len = Ok (len <=? 0).
Proof. unfold src_img_bounded_continue, src_img_bounded_stop. split; src_robust. Qed.

(* the aligned length of a frame is the model's span *)
Lemma align32_span m len : 0 <= len -> in_i32 (len + 31) = true -> align32 m len = Ok (align len 32).
Proof. intros H0 H. unfold align32, Descriptor.FRAME_ALIGNMENT, GenConsts.FRAME_ALIGNMENT, add32.
  replace (32 - 1) with 31 by lia. rewrite chk32_ok by assumption. cbn [bind]. unfold align.
  replace (32 - 1) with 31 by lia. reflexivity. Qed.

Lemma src_img_bounded_aligned_length_eq m f : 0 <= f_len f -> in_i32 (f_len f + 31) = true ->
  src_img_bounded_aligned_length m (f_len f) = Ok (span f).
Proof. intros H0 H. unfold src_img_bounded_aligned_length. rewrite src_align_frame.
  rewrite align32_span by assumption. reflexivity. Qed.

Lemma src_img_bounded_advance_eq m off sp : in_i32 (off + sp) = true -> src_img_bounded_advance m off sp = Ok (off + sp).
Proof. intros H. unfold src_img_bounded_advance. src_robust. Qed.

(* what the handler is given: payload offset and payload length (Image.handler_args) *)
Lemma src_img_bounded_data_eq m o len : in_i32 (o + HDR) = true -> in_i32 (len - HDR) = true ->
  src_img_bounded_data_offset m o = Ok (o + HDR) /\ src_img_bounded_data_length m len = Ok (len - HDR).
Proof. intros H1 H2. unfold src_img_bounded_data_offset, src_img_bounded_data_length. iconsts. split; src_robust. Qed.

Lemma src_img_bounded_resulting_position_eq m pos o off : in_i32 (o - off) = true -> in_i64 (pos + (o - off)) = true ->
  src_img_bounded_resulting_position m pos o off = Ok (pos + (o - off)).
Proof. intros H1 H2. unfold src_img_bounded_resulting_position. src_robust. Qed.

Lemma src_img_bounded_advances_eq m rp pos : src_img_bounded_advances m rp pos = Ok (rp >? pos).
Proof. unfold src_img_bounded_advances. src_robust. Qed.

(* ---- controlled_poll (Image.cloop / cfinish) ---- *)
Lemma src_img_controlled_initial_offset_eq m tl pos :
  src_img_controlled_initial_offset m (tl - 1) pos = Ok (term_offset_of_pos tl pos).
Proof. unfold src_img_controlled_initial_offset, term_offset_of_pos. first [ reflexivity | rewrite Z.land_comm; reflexivity | src_robust ]. Qed.

Lemma src_img_controlled_loop_eq m n limit off cap sp : in_i32 off = true -> in_i32 (off + sp) = true ->
  src_img_controlled_continue m n limit off cap = Ok ((n <? limit) && (off <? cap)) /\
  src_img_controlled_advance m off sp = Ok (off + sp) /\
  src_img_controlled_abort m (off + sp) sp = Ok (off + sp - sp).
Proof. intros H0 H. unfold src_img_controlled_continue, src_img_controlled_advance, src_img_controlled_abort.
  split; [|split]; src_robust. Qed.

Lemma src_img_controlled_positions_eq m ipos off ioff : in_i32 (off - ioff) = true -> in_i64 (ipos + (off - ioff)) = true ->
  src_img_controlled_commit m ipos off ioff = Ok (ipos + (off - ioff)) /\
  src_img_controlled_resulting_position m ipos off ioff = Ok (ipos + (off - ioff)).
Proof. intros H1 H2. unfold src_img_controlled_commit, src_img_controlled_resulting_position. split; src_robust. Qed.

(* ---- block_poll (Image.image_block_poll) ---- *)
Lemma src_img_block_term_offset_eq m tl pos : src_img_block_term_offset m (tl - 1) pos = Ok (term_offset_of_pos tl pos).
Proof. unfold src_img_block_term_offset, term_offset_of_pos. first [ reflexivity | rewrite Z.land_comm; reflexivity | src_robust ]. Qed.

Lemma satT_i32 z : satT TI32 z = Z.max (- two31) (Z.min (two31 - 1) z).
Proof. reflexivity. Qed.

(* min(term_offset.saturating_add(block_length_limit), capacity)   (fix 90179aa: the sum saturates) *)
Lemma src_img_block_limit_offset_eq m tl off blimit :
  src_img_block_limit_offset m tl off blimit = Ok (Z.min (sat_add32 off blimit) tl).
Proof. unfold src_img_block_limit_offset, sat_add32. cbv zeta. rewrite ?satT_i32. cbn [bind].
  first [ reflexivity | f_equal; src_lia ]. Qed.

Lemma src_img_block_result_eq m pos ro off : in_i32 (ro - off) = true -> in_i64 (pos + (ro - off)) = true ->
  src_img_block_length m ro off = Ok (ro - off) /\
  src_img_block_nonempty m ro off = Ok (ro >? off) /\
  src_img_block_new_position m pos (ro - off) = Ok (pos + (ro - off)).
Proof. intros H1 H2. unfold src_img_block_length, src_img_block_nonempty, src_img_block_new_position.
  split; [|split]; src_robust. Qed.

(* ---- validate_position ---- *)
Theorem src_img_validate_position_eq m bits tl cur newp :
  0 <= bits <= 30 -> tl = 2 ^ bits -> 0 <= cur -> cur + tl < two63 ->
  exists r, src_img_validate_position m (tl - 1) cur newp = Ok r /\
            ((exists v, r = ROk v) <-> validate_position tl cur newp = true).
Proof. intros Hb Htl Hc0 Hlim. unfold src_img_validate_position, validate_position. cbv zeta.
  assert (T : 1 <= tl <= 1073741824).
  { subst tl. split; [change 1 with (2 ^ 0)|change 1073741824 with (2 ^ 30)]; apply Z.pow_le_mono_r; lia. }
  assert (L : 0 <= Z.land cur (tl - 1) <= tl - 1).
  { subst tl. rewrite land_mask_pow2 by lia. pose proof (Z.mod_pos_bound cur (2 ^ bits) ltac:(lia)). lia. }
  rewrite ?(Z.land_comm (tl - 1) cur). set (lo := Z.land cur (tl - 1)) in *.
  iconsts. rewrite ?(Z.land_comm (32 - 1) newp). change (32 - 1) with 31. set (al := Z.land newp 31).
  srcT_unfold_ops. cbn [bind]. cmp_norm.
  repeat (rewrite chk64_ok by src_lia; cbn [bind]). repeat (rewrite chk32_ok by src_lia; cbn [bind]).
  cmp_norm. change (32 - 1) with 31. rewrite ?(Z.land_comm 31 newp), ?(Z.eqb_sym 0 (Z.land newp 31)). fold al.
  if_split; cbn [negb andb orb bind] in *; eexists; (split; [reflexivity|]);
    (split; [ intros (v & Hv) | intros Hv ]);
    destruct (al =? 0) eqn:A; cbn [negb] in *;
    first [ discriminate | reflexivity | eexists; reflexivity ]. Qed.

(* ---- term_reader::read (poll) ---- *)
Lemma src_read_loop_eq m n limit off cap len :
  src_read_continue m n n limit off cap = Ok ((n <? limit) && (off <? cap)) /\
  src_read_stop m len = Ok (len <=? 0).
Proof. unfold src_read_continue, src_read_stop. split; src_robust. Qed.

Lemma src_read_advance_eq m off f : 0 <= f_len f -> in_i32 (f_len f + 31) = true -> in_i32 (off + span f) = true ->
  src_read_advance m off (f_len f) = Ok (off + span f).
Proof. intros H0 H1 H2. unfold src_read_advance. rewrite src_align_frame, align32_span by assumption.
  cbn [bind]. unfold span, FA, GenConsts.FRAME_ALIGNMENT in *. generalize dependent (align (f_len f) 32); intros sp ?. src_robust. Qed.

Lemma src_read_data_eq m o len : in_i32 (o + HDR) = true -> in_i32 (len - HDR) = true ->
  src_read_data_offset m o = Ok (o + HDR) /\ src_read_data_length m len = Ok (len - HDR).
Proof. intros H1 H2. unfold src_read_data_offset, src_read_data_length. iconsts. split; src_robust. Qed.

(* ---- term_scan::scan (block_poll) ---- *)
Lemma src_scan_decisions_eq m off limit len start sp :
  src_scan_continue m off limit = Ok (off <? limit) /\
  src_scan_stop m len = Ok (len <=? 0) /\
  src_scan_padding_first m start off = Ok (start =? off) /\
  (in_i32 (off + sp) = true -> src_scan_over_limit m off sp limit = Ok (off + sp >? limit)) /\
  (in_i32 (off + sp) = true -> src_scan_advance m off sp = Ok (off + sp)).
Proof. unfold src_scan_continue, src_scan_stop, src_scan_padding_first, src_scan_over_limit, src_scan_advance.
  split; [|split; [|split; [|split]]]; try intros H; first [ solve [src_robust] | f_equal; first [ reflexivity | apply Z.eqb_sym ] ]. Qed.

Lemma src_scan_aligned_frame_length_eq m f : 0 <= f_len f -> in_i32 (f_len f + 31) = true ->
  src_scan_aligned_frame_length m (f_len f) = Ok (span f).
Proof. intros H0 H. unfold src_scan_aligned_frame_length. rewrite src_align_frame, align32_span by assumption. reflexivity. Qed.

(* ---- frame_descriptor.rs / term_scan.rs helpers ---- *)
Lemma src_fd_offsets_eq m o :
  src_fd_type_offset m o = add32 m o GenConsts.DFH_TYPE_FIELD_OFFSET /\
  src_fd_flags_offset m o = add32 m o GenConsts.DFH_FLAGS_FIELD_OFFSET /\
  src_fd_length_offset m o = add32 m o GenConsts.DFH_FRAME_LENGTH_FIELD_OFFSET /\
  src_fd_term_offset_offset m o = add32 m o GenConsts.DFH_TERM_OFFSET_FIELD_OFFSET.
Proof. unfold src_fd_type_offset, src_fd_flags_offset, src_fd_length_offset, src_fd_term_offset_offset,
    GenConsts.DFH_FRAME_LENGTH_FIELD_OFFSET, GenConsts.DFH_FLAGS_FIELD_OFFSET, GenConsts.DFH_TYPE_FIELD_OFFSET,
    GenConsts.DFH_TERM_OFFSET_FIELD_OFFSET.
  split; [|split; [|split]]; src_robust. Qed.

(* the layout header_words of Model/LogBase.v assumes: length at 0, flags at 5, type at 6, term offset at 8 *)
Lemma src_fd_offsets_layout m o : in_i32 (o + 8) = true -> in_i32 o = true ->
  src_fd_length_offset m o = Ok o /\ src_fd_flags_offset m o = Ok (o + 5) /\
  src_fd_type_offset m o = Ok (o + 6) /\ src_fd_term_offset_offset m o = Ok (o + 8).
Proof. intros H H0. unfold src_fd_length_offset, src_fd_flags_offset, src_fd_type_offset, src_fd_term_offset_offset,
    GenConsts.DFH_FRAME_LENGTH_FIELD_OFFSET, GenConsts.DFH_FLAGS_FIELD_OFFSET, GenConsts.DFH_TYPE_FIELD_OFFSET,
    GenConsts.DFH_TERM_OFFSET_FIELD_OFFSET.
  split; [|split; [|split]]; src_robust. Qed.

Lemma src_fd_check_max_frame_length_eq m len :
  src_fd_check_max_frame_length m len =
  Ok (if Z.land len 31 =? 0 then ROk 0
      else RErr "IllegalStateError::MaxFrameLengthMustBeMultipleOfFrameAlignment" [GenConsts.FRAME_ALIGNMENT; len]).
Proof. unfold src_fd_check_max_frame_length. iconsts. cbv zeta. srcT_unfold_ops. rewrite chk32_ok by reflexivity. cbn [bind].
  change (32 - 1) with 31. rewrite ?(Z.land_comm 31 len), ?(Z.eqb_sym 0 (Z.land len 31)).
  destruct (Z.land len 31 =? 0); reflexivity. Qed.

Lemma src_fd_check_header_length_eq m len :
  src_fd_check_header_length m len =
  Ok (if len =? HDR then ROk 0 else RErr "IllegalStateError::FrameHeaderLengthMustBeEqualToDataOffset" [GenConsts.DFH_LENGTH; len]).
Proof. unfold src_fd_check_header_length, HDR, GenConsts.DFH_LENGTH. src_robust. Qed.

(* scan_outcome packs (padding, available); available / padding unpack them *)
Lemma src_scan_pack_roundtrip m pad av : in_i32 pad = true -> in_i32 av = true -> 0 <= av ->
  (s <- src_scan_outcome m pad av ;; src_scan_available m s) = Ok av /\
  (s <- src_scan_outcome m pad av ;; src_scan_padding m s) = Ok pad.
Proof. intros Hp Ha Ha0. unfold src_scan_outcome, src_scan_available, src_scan_padding. srcT_norm.
  assert (D : shl64 pad 32 mod 2 ^ 32 = 0).
  { unfold shl64. destruct (wrap64_eqm (pad * 2 ^ 32)) as (k & ->). unfold two64.
    replace (pad * 2 ^ 32 + k * 18446744073709551616) with ((pad + k * 4294967296) * 2 ^ 32) by (change (2 ^ 32) with 4294967296; lia).
    apply Z_mod_mult. }
  assert (S : shl64 pad 32 = pad * two32).
  { unfold shl64. change (2 ^ 32) with two32. apply wrap64_id. unfold in_i32, in_i64, two31, two32, two63 in *. lia. }
  rewrite (lor_disjoint _ av 32) by (try assumption; unfold in_i32, two31 in *; change (2 ^ 32) with 4294967296; lia).
  rewrite S. split; f_equal.
  - destruct (wrap32_eqm (pad * two32 + av)) as (k & E). unfold wrap32 at 1, two31.
    replace (pad * two32 + av + 2147483648) with ((av + 2147483648) + pad * two32) by lia.
    rewrite Z_mod_plus_full. fold two31. fold (wrap32 av). apply wrap32_id; assumption.
  - unfold shr64. change (2 ^ 32) with two32. rewrite Z.add_comm, Z_div_plus by (unfold two32; lia).
    rewrite Z.div_small by (unfold in_i32, two31, two32 in *; lia). rewrite Z.add_0_l. apply wrap32_id; assumption. Qed.
