(* Sequential runs of the command ring: every operation keeps the state well-formed, the rendered
   memory shows exactly the queue (headers) and zero outside the unconsumed region, unblock
   answers false when nobody died, correlation ids never repeat. *)
Require Import V.Base.MachineInt.
Require Import V.Generated.GenConsts.
Require Import V.Model.LogBase.
Require Import V.Model.Ring.
Require Import V.Spec.Fifo.
Require Import V.Oracle.C06Oracle.
Require Import V.Proofs.RingArith.
Require Import V.Proofs.RingSeq.
Require Import V.Proofs.RingRender.
From Coq Require Import ZifyBool Lia.
Open Scope Z_scope.

Lemma good_geo cp s : cap_ok cp -> good_slot cp s -> geo cp s.
Proof. intros Hc G. pose proof (good_span _ _ G) as (A & B).
  destruct G as (G0 & G8 & Gl & Gs & Gstr & Gk & _). unfold geo. repeat split; auto.
  destruct (is_pad s).
  - destruct Gk as (-> & _). cbn [length]. lia.
  - destruct Gk as (_ & E). pose proof (align8_bounds (s_len s)). lia. Qed.

Lemma chain_tiled cp h t sl : cap_ok cp -> chain cp h t sl -> tiled cp h t sl.
Proof. intros Hc. induction 1; constructor; auto. apply good_geo; assumption. Qed.

Lemma wf_tiled st : wf st -> tiled (r_cap st) (r_head st) (r_tail st) (r_slots st).
Proof. intros W. apply chain_tiled; [apply (wf_cap _ W) | apply (wf_chain _ W)]. Qed.

(* ---- unblock when nobody died ---- *)
Lemma unblock_seq st : wf st -> unblock st = (st, false).
Proof. intros W. pose proof (wf_cap _ W) as Hc. unfold unblock, unblock_lim.
  destruct (r_tail st =? r_head st) eqn:E; [reflexivity |].
  pose proof (wf_chain _ W) as Hch.
  destruct (r_slots st) as [| s sl] eqn:Es.
  { apply chain_nil_inv in Hch. lia. }
  inversion Hch as [| h0 t0 s0 sl0 Hp G Hnp Hrest]; subst.
  rewrite mask_idx_mod by assumption.
  unfold render. rewrite Es.
  pose proof (wf_tiled _ W) as T. rewrite Es in T.
  rewrite <- Hp.
  pose proof (word_at_len (r_cap st) (r_head st) (r_tail st) [] sl s (render_trailer st) Hc T (wf_size _ W)) as WL.
  cbn [app] in WL. rewrite WL.
  - destruct G as (_ & _ & Gl & _). replace (s_len s <? 0) with false by lia.
    replace (s_len s =? 0) with false by lia. reflexivity.
  - intros i Hi. apply trailer_no_off. unfold TAIL_OFF, GenConsts.RB_TAIL_POSITION_OFFSET. lia. Qed.

(* ---- size ---- *)
Lemma size_seq m st : wf st -> r_tail st < two62 -> size m st = Ok (r_tail st - r_head st).
Proof. intros W Hb. pose proof (cap_ok_range _ (wf_cap _ W)). pose proof (chain_le _ _ _ _ (wf_chain _ W)).
  pose proof (wf_size _ W). pose proof (wf_hc _ W).
  unfold size, sub64. rewrite chk64_ok by (apply in_i64_small; unfold two63, two62 in *; lia). cbn [bind].
  rewrite wrap32_id by (apply in_i32_small; unfold two31, two30 in *; lia). reflexivity. Qed.

(* ---- live region ---- *)
Lemma live_idx cp h t p x d : cap_ok cp -> h <= p -> p + x <= t -> t - h <= cp -> p mod cp + x <= cp ->
  0 <= d < x -> live cp h t (p mod cp + d) = true.
Proof. intros Hc Hp Hx Hw Hs Hd. pose proof (cap_ok_range _ Hc).
  unfold live. destruct (t - h >=? cp) eqn:E; [reflexivity |].
  assert (Hc0 : 0 < cp) by lia.
  pose proof (Z.mod_pos_bound h cp Hc0). pose proof (Z.mod_pos_bound t cp Hc0).
  rewrite <- (idx_inner cp p d) by lia.
  destruct (mod_window cp h (p + d) Hc0 ltac:(lia)) as [(E1 & L1) | (E1 & L1)];
  destruct (mod_window cp h t Hc0 ltac:(lia)) as [(E2 & L2) | (E2 & L2)]; rewrite E1, E2.
  - replace (h mod cp <=? h mod cp + (t - h)) with true by lia. lia.
  - destruct (h mod cp <=? h mod cp + (t - h) - cp) eqn:F; lia.
  - lia.
  - destruct (h mod cp <=? h mod cp + (t - h) - cp) eqn:F; lia. Qed.

Lemma trailer_above st : Forall (fun e => r_cap st <= fst e) (render_trailer st).
Proof. unfold render_trailer, counter_words, nz, TAIL_OFF, HC_OFF, HEAD_OFF, CORR_OFF, HB_OFF.
  unfold GenConsts.RB_TAIL_POSITION_OFFSET, GenConsts.RB_HEAD_CACHE_POSITION_OFFSET, GenConsts.RB_HEAD_POSITION_OFFSET,
         GenConsts.RB_CORRELATION_COUNTER_OFFSET, GenConsts.RB_CONSUMER_HEARTBEAT_OFFSET.
  repeat (apply Forall_app; split);
    match goal with |- Forall _ (if ?c then _ else _) => destruct c; [constructor | constructor; [cbn; lia | constructor]] end. Qed.

(* every non-zero word of the data area lies in the unconsumed region *)
Lemma render_live st : wf st ->
  forallb (fun e => (r_cap st <=? fst e) || live (r_cap st) (r_head st) (r_tail st) (fst e)) (render st) = true.
Proof. intros W. pose proof (wf_cap _ W) as Hc. apply forallb_forall. intros e He.
  unfold render in He. apply in_app_or in He. destruct He as [He | He].
  - apply in_flat_map in He. destruct He as (s & Hs & He).
    pose proof (tiled_range _ _ _ _ (wf_tiled _ W)) as R. rewrite Forall_forall in R.
    destruct (R s Hs) as (A & B & G).
    pose proof (render_slot_range _ s Hc G) as F. rewrite Forall_forall in F. specialize (F e He).
    destruct G as (_ & _ & Gs & _ & Gstr & _).
    replace (fst e) with (s_pos s mod r_cap st + (fst e - s_pos s mod r_cap st)) by lia.
    pose proof (wf_size _ W) as Hsz.
    assert (L : live (r_cap st) (r_head st) (r_tail st) (s_pos s mod r_cap st + (fst e - s_pos s mod r_cap st)) = true)
      by (apply (live_idx (r_cap st) (r_head st) (r_tail st) (s_pos s) (s_span s)); auto; lia).
    rewrite L. apply Bool.orb_true_r.
  - pose proof (trailer_above st) as F. rewrite Forall_forall in F. specialize (F e He).
    replace (r_cap st <=? fst e) with true by lia. reflexivity. Qed.

(* ---- the headers in memory are the queue ---- *)
Lemma trailer_clear st i : i < r_cap st -> no_off (render_trailer st) i.
Proof. intros. apply trailer_no_off. unfold TAIL_OFF, GenConsts.RB_TAIL_POSITION_OFFSET. lia. Qed.

Lemma headers_match_render st : wf st -> forall suf pre p fuel,
  r_slots st = pre ++ suf -> chain (r_cap st) p (r_tail st) suf -> (length suf < fuel)%nat ->
  headers_match fuel (render st) (r_cap st) p (r_tail st) (abs_slots suf) = true.
Proof. intros W. pose proof (wf_cap _ W) as Hc. pose proof (wf_tiled _ W) as T. pose proof (wf_size _ W) as Hsz.
  induction suf as [| s r IH]; intros pre p fuel E Hch Hf; (destruct fuel as [| f]; [inversion Hf |]); cbn [headers_match].
  - apply chain_nil_inv in Hch. subst p. rewrite Z.eqb_refl. reflexivity.
  - pose proof (chain_lt _ _ _ _ Hch ltac:(discriminate)) as Hlt.
    replace (p =? r_tail st) with false by lia. replace (r_tail st <? p) with false by lia.
    inversion Hch as [| h0 t0 s0 sl0 Hp G Hnp Hrest]; subst.
    rewrite E in T. unfold render. rewrite E.
    rewrite (word_at_len (r_cap st) (r_head st) (r_tail st) pre r s (render_trailer st) Hc T Hsz (trailer_clear st)).
    rewrite (word_at_type (r_cap st) (r_head st) (r_tail st) pre r s (render_trailer st) Hc T Hsz (trailer_clear st)).
    pose proof G as (_ & _ & Gl & Gs & _ & Gk & _).
    replace (s_len s <=? 0) with false by lia. rewrite <- Gs.
    assert (E2 : r_slots st = (pre ++ [s]) ++ r) by (rewrite <- app_assoc; exact E).
    cbn [length] in Hf.
    specialize (IH (pre ++ [s]) (s_pos s + s_span s) f E2 Hrest ltac:(lia)).
    unfold render in IH. rewrite E in IH.
    cbn [abs_slots flat_map]. fold (is_pad s). destruct (is_pad s) eqn:P.
    + cbn [app]. exact IH.
    + cbn [app fst]. destruct Gk as (_ & Gk). rewrite Z.eqb_refl. unfold len_of. cbn [snd].
      replace (s_len s =? Z.of_nat (length (s_body s)) + 8) with true by lia. cbn [andb]. exact IH. Qed.

Lemma dump_ok_render st : wf st ->
  dump_ok (r_cap st) (mkOst (abs st) (r_head st) (r_tail st) []) (render st) = true.
Proof. intros W. pose proof (wf_cap _ W) as Hc. unfold dump_ok. cbn [o_q o_h o_t].
  pose proof (data_below_cap _ _ _ _ Hc (wf_tiled _ W)) as Db.
  destruct (word_at_trailer st Hc _ Db) as (A1 & A2 & A3 & A4 & _).
  unfold counter_ok. fold (render st) in A1, A2, A3, A4. rewrite A1, A2, A3, A4. rewrite !Z.eqb_refl. cbn [andb].
  rewrite (render_live st W). cbn [andb].
  apply (headers_match_render st W (r_slots st) [] (r_head st)); [reflexivity | apply (wf_chain _ W) |].
  pose proof (chain_length _ _ _ _ (wf_chain _ W)) as Hlen. pose proof (wf_size _ W). pose proof (cap_ok_range _ Hc).
  pose proof (Z.div_le_mono (8 * Z.of_nat (length (r_slots st))) (r_cap st) 8 ltac:(lia) ltac:(lia)) as D.
  rewrite Z.mul_comm in D. rewrite Z_div_mult in D by lia. lia. Qed.

(* ---- correlation ids ---- *)
Lemma wrap64_inj a b : wrap64 a = wrap64 b -> - two64 < a - b < two64 -> a = b.
Proof. intros E Hd. destruct (wrap64_eqm a) as (k1 & E1). destruct (wrap64_eqm b) as (k2 & E2).
  rewrite E1, E2 in E. unfold two64 in *. nia. Qed.

Definition ids_from (c0 : Z) (k : nat) : list Z := map (fun j => wrap64 (c0 + Z.of_nat j)) (seq 0 k).

Lemma ids_fresh c0 k : Z.of_nat k < two64 -> ~ In (wrap64 (c0 + Z.of_nat k)) (ids_from c0 k).
Proof. intros Hk Hin. unfold ids_from in Hin. apply in_map_iff in Hin. destruct Hin as (j & E & Hj).
  apply in_seq in Hj. apply wrap64_inj in E; [lia | unfold two64 in *; lia]. Qed.

Lemma wrap64_succ c : wrap64 (wrap64 c + 1) = wrap64 (c + 1).
Proof. destruct (wrap64_eqm c) as (k & E). rewrite E. unfold wrap64, two63, two64.
  replace (c + k * 18446744073709551616 + 1 + 9223372036854775808) with (c + 1 + 9223372036854775808 + k * 18446744073709551616) by lia.
  rewrite Z_mod_plus_full. reflexivity. Qed.

Lemma mem_z_false x l : ~ In x l -> mem_z x l = false.
Proof. intros H. unfold mem_z. destruct (existsb (fun y => y =? x) l) eqn:E; [| reflexivity].
  apply existsb_exists in E. destruct E as (y & Hy & Ey). exfalso. apply H. replace x with y by lia. assumption. Qed.

(* ---- one step of a run against one step of the specification interpreter ---- *)
Definition op_ok (o : op) : Prop :=
  match o with OpWrite typ _ => typ < 1 \/ valid_cmd typ = true | _ => True end.

Record rel (c0 : Z) (n : nat) (st : ring) (s : ost) : Prop := mkRel {
  rel_q : o_q s = abs st;
  rel_h : o_h s = r_head st;
  rel_t : o_t s = r_tail st;
  rel_ids : exists k, (k <= n)%nat /\ (forall x, In x (o_ids s) <-> In x (ids_from c0 k)) /\
                      r_corr st = wrap64 (c0 + Z.of_nat k)
}.

Lemma cmsgs_eqb_refl l : cmsgs_eqb l l = true.
Proof. induction l as [| [[t n] p] l IH]; cbn [cmsgs_eqb cmsg_eqb]; [reflexivity |].
  rewrite !Z.eqb_refl, IH. cbn [andb].
  assert (Z : forall q, zs_eqb q q = true) by (induction q; cbn [zs_eqb]; [reflexivity | rewrite Z.eqb_refl; assumption]).
  rewrite Z. reflexivity. Qed.

Lemma abs_pad_slots tl pd ow sq : abs_slots (pad_slots tl pd ow sq) = [].
Proof. unfold pad_slots. destruct (pd =? 0); [reflexivity |]. cbn [abs_slots flat_map].
  unfold is_pad, pad_slot. cbn [s_type]. rewrite Z.eqb_refl. reflexivity. Qed.

Lemma rel_keep c0 n st st' s : rel c0 n st s ->
  abs st' = abs st -> r_head st' = r_head st -> r_tail st' = r_tail st -> r_corr st' = r_corr st ->
  rel c0 (S n) st' s.
Proof. intros [Rq Rh Rt (k & Hk & Hids & Hcorr)] E1 E2 E3 E4. constructor; try congruence.
  exists k. split; [lia |]. split; [exact Hids | congruence]. Qed.

Lemma step_ok m c0 n st s o :
  wf st -> rel c0 n st s -> r_tail st + 2 * r_cap st <= two62 -> op_ok o -> Z.of_nat n < two64 ->
  exists s', check_step (r_cap st) s o (snd (step m st o)) = Some s' /\
    wf (fst (step m st o)) /\ rel c0 (S n) (fst (step m st o)) s' /\
    r_cap (fst (step m st o)) = r_cap st /\ r_tail (fst (step m st o)) <= r_tail st + 2 * r_cap st.
Proof.
  intros W R Hb Hok Hn. pose proof R as [Rq Rh Rt (k & Hk & Hids & Hcorr)].
  assert (KEEP : exists s', Some s = Some s' /\ wf st /\ rel c0 (S n) st s' /\ r_cap st = r_cap st /\ r_tail st <= r_tail st + 2 * r_cap st).
  { exists s. split; [reflexivity |]. split; [assumption |]. split; [apply (rel_keep c0 n st st s R); reflexivity |].
    pose proof (cap_ok_range _ (wf_cap _ W)). lia. }
  pose proof (wf_cap _ W) as Hc. pose proof (cap_ok_range _ Hc) as Hcr.
  pose proof (chain_le _ _ _ _ (wf_chain _ W)) as Hle. pose proof (wf_size _ W) as Hsz.
  assert (Hb2 : r_tail st < two62) by lia.
  assert (RI : forall st', r_corr st' = r_corr st ->
             exists k0, (k0 <= S n)%nat /\ (forall x, In x (o_ids s) <-> In x (ids_from c0 k0)) /\ r_corr st' = wrap64 (c0 + Z.of_nat k0)).
  { intros st' E. exists k. rewrite E. repeat split; auto; try lia; apply Hids. }
  destruct o as [typ body | limit | | | | t | ]; cbn [step check_step op_ok] in *.
  - (* write *)
    destruct (write_spec m st typ body W Hb2 Hok) as (st' & r & E & W' & Ecap & Ehd & Ecorr & Ehb & Hcase).
    rewrite E. cbn [fst snd]. rewrite Rh, Rt, Ehd.
    destruct Hcase as [(T1 & -> & ->) | [(T1 & T2 & -> & ->) | [(T1 & T2 & NR & -> & Et & Es) | (T1 & T2 & NR & -> & Et & Es)]]].
    + replace (typ <? 1) with true by lia. cbn [is_err err_eqb]. rewrite !Z.eqb_refl. cbn [andb]. exact KEEP.
    + replace (typ <? 1) with false by lia.
      replace (Z.of_nat (length body) >? r_cap st / 8) with true by lia.
      cbn [is_err err_eqb]. rewrite !Z.eqb_refl. cbn [andb]. exact KEEP.
    + replace (typ <? 1) with false by lia.
      replace (Z.of_nat (length body) >? r_cap st / 8) with false by lia.
      rewrite NR. cbn [is_err err_eqb]. rewrite Et. rewrite !Z.eqb_refl. cbn [andb].
      exists s. split; [reflexivity |]. split; [assumption |]. split; [| lia].
      apply (rel_keep c0 n st st' s R); auto. unfold abs. rewrite Es. reflexivity.
    + replace (typ <? 1) with false by lia.
      replace (Z.of_nat (length body) >? r_cap st / 8) with false by lia.
      rewrite NR. cbn [is_okz]. rewrite Et. rewrite !Z.eqb_refl. cbn [andb].
      eexists. split; [reflexivity |]. split; [assumption |].
      pose proof (wrap_pad_bounds (r_cap st) (r_tail st) (Z.of_nat (length body)) Hc).
      unfold no_room in NR.
      split; [| lia].
      constructor; cbn [o_q o_h o_t o_ids]; [| lia | lia | apply RI; assumption].
      * unfold abs, enqueue. rewrite Es. rewrite !abs_slots_app. rewrite abs_pad_slots. cbn [app].
        rewrite Rq. unfold abs. f_equal. cbn [abs_slots flat_map]. unfold is_pad. cbn [s_type s_body].
        destruct Hok as [? | Hv]; [lia |]. rewrite (valid_cmd_not_pad _ Hv). reflexivity.
  - (* read *)
    destruct (read_spec m st limit W Hb2) as (st' & cnt & l & E & W' & Ecap & Et & Ehc & Ecorr & Ehb & Hcnt & Hlim & Habs & Hhd & Hprog & _).
    rewrite E. cbn [fst snd omap]. rewrite map_length.
    unfold dequeue. rewrite Rq, Rh, Rt, Habs.
    rewrite firstn_app, Nat.sub_diag, firstn_all. cbn [firstn]. rewrite app_nil_r.
    rewrite skipn_app, Nat.sub_diag, skipn_all. cbn [skipn app].
    rewrite cmsgs_eqb_refl. rewrite Et. rewrite app_length.
    replace (cnt =? Z.of_nat (length l)) with true by lia.
    replace (cnt <=? Z.max 0 limit) with true by lia.
    match goal with |- context [(?a <=? ?b)%nat] =>
      replace (a <=? b)%nat with true by (symmetry; apply Nat.leb_le; lia) end.
    rewrite Z.eqb_refl.
    replace (r_head st <=? r_head st') with true by lia. replace (r_head st' <=? r_tail st) with true by lia.
    cbn [andb].
    assert (P : (if (1 <=? limit) && negb (r_head st =? r_tail st) then (1 <=? cnt) || (r_head st <? r_head st') else true) = true).
    { destruct ((1 <=? limit) && negb (r_head st =? r_tail st)) eqn:C; [| reflexivity].
      specialize (Hprog ltac:(lia) ltac:(lia)). replace (r_head st <? r_head st') with true by lia. apply Bool.orb_true_r. }
    rewrite P. cbn [andb].
    assert (Q : Bool.eqb (match abs st' with [] => true | _ :: _ => false end) (r_head st' =? r_tail st) = true).
    { pose proof (wf_chain _ W') as Hch'. rewrite Et in Hch'.
      pose proof (chain_empty_iff _ _ _ _ Hch') as Hemp.
      destruct (r_slots st') as [| s0 sl0] eqn:Es.
      - unfold abs. rewrite Es. cbn [abs_slots flat_map]. replace (r_head st' =? r_tail st) with true by (destruct Hemp as [A _]; specialize (A eq_refl); lia). reflexivity.
      - pose proof (chain_abs_nonempty _ _ _ _ Hch' ltac:(discriminate)) as Hne.
        unfold abs. rewrite Es. destruct (abs_slots (s0 :: sl0)); [congruence |].
        replace (r_head st' =? r_tail st) with false; [reflexivity |].
        symmetry. apply Z.eqb_neq. intro Eq. destruct Hemp as [_ B]. specialize (B Eq). discriminate. }
    rewrite Q.
    eexists. split; [reflexivity |]. split; [assumption |]. split; [| lia].
    constructor; cbn [o_q o_h o_t o_ids]; auto; try lia; try (apply RI; assumption).
  - (* unblock *)
    rewrite (unblock_seq st W). cbn [fst snd b2z is_okz]. rewrite Rh, Rt, !Z.eqb_refl. cbn [andb]. exact KEEP.
  - (* size *)
    cbn [fst snd]. rewrite (size_seq m st W Hb2). cbn [is_okz]. rewrite Rh, Rt, Z.eqb_refl. exact KEEP.
  - (* next id *)
    cbn [next_correlation_id fst snd]. rewrite Hcorr.
    rewrite mem_z_false.
    + eexists. split; [reflexivity |]. split.
      { destruct W. constructor; cbn [set_corr r_cap r_head r_tail r_hc r_slots]; assumption. }
      split; [| cbn [set_corr r_cap r_tail]; lia].
      constructor; cbn [set_corr o_q o_h o_t o_ids r_head r_tail r_slots r_corr abs]; auto.
      exists (S k). split; [lia |]. split.
      * intros x. unfold ids_from. rewrite seq_S, map_app. cbn [map plus]. rewrite in_app_iff. cbn [In].
        rewrite <- (Hids x). tauto.
      * rewrite wrap64_succ. f_equal. lia.
    + intro Hin. apply Hids in Hin. apply (ids_fresh c0 k); [lia | assumption].
  - (* heartbeat *)
    cbn [fst snd set_heartbeat heartbeat set_hb r_hb is_okz]. rewrite Z.eqb_refl.
    exists s. split; [reflexivity |]. split.
    { destruct W. constructor; cbn [set_hb r_cap r_head r_tail r_hc r_slots]; assumption. }
    split; [| unfold set_heartbeat; cbn [set_hb r_cap r_tail]; lia].
    apply (rel_keep c0 n st _ s R); reflexivity.
  - (* dump *)
    cbn [fst snd].
    assert (D : dump_ok (r_cap st) s (render st) = true).
    { pose proof (dump_ok_render st W) as D. unfold dump_ok in *. cbn [o_q o_h o_t] in D. rewrite Rq, Rh, Rt. exact D. }
    rewrite D. exact KEEP.
Qed.
