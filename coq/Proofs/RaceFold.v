(* C03, race detector soundness, part 1: vector clocks, the location map, and the detector (Sched.stamp / races_in) as a left-to-right fold. *)
Require Import V.Base.MachineInt.
Require Import V.Model.Sched.
From Coq Require Import Arith.PeanoNat ZifyBool.
Open Scope Z_scope.

(* ---- vector clocks ---- *)
Lemma vc_get_nil t : vc_get [] t = O.
Proof. unfold vc_get. destruct t; reflexivity. Qed.

Lemma vc_get_set_same v t x : vc_get (vc_set v t x) t = x.
Proof. unfold vc_get. revert v. induction t as [|t IH]; intros v; destruct v; cbn; auto. Qed.

Lemma vc_get_set_other v t t' x : t' <> t -> vc_get (vc_set v t x) t' = vc_get v t'.
Proof. unfold vc_get. revert v t'. induction t as [|t IH]; intros v t' Hne; destruct v; destruct t'; cbn; try congruence; auto.
  - destruct t'; reflexivity.
  - rewrite IH by congruence. destruct t'; reflexivity. Qed.

Lemma vc_get_join a b t : vc_get (vc_join a b) t = Nat.max (vc_get a t) (vc_get b t).
Proof. unfold vc_get. revert b t. induction a as [|x a IH]; intros b t.
  - cbn. destruct t; reflexivity.
  - destruct b as [|y b]; cbn.
    + destruct t; cbn; lia.
    + destruct t; cbn; [reflexivity | apply IH]. Qed.

Lemma nth_set_nth_same l t x : nth t (set_nth_vc l t x) [] = x.
Proof. revert l. induction t as [|t IH]; intros l; destruct l; cbn; auto. Qed.

Lemma nth_set_nth_other l t t' x : t' <> t -> nth t' (set_nth_vc l t x) [] = nth t' l [].
Proof. revert l t'. induction t as [|t IH]; intros l t' Hne; destruct l; destruct t'; cbn; try congruence; auto.
  - destruct t'; reflexivity.
  - rewrite IH by congruence. destruct t'; reflexivity. Qed.

(* ---- the location map ---- *)
Lemma loc_get_filter (k : Z -> Z -> bool) m r o :
  loc_get (filter (fun x => negb (k (fst (fst x)) (snd (fst x)))) m) r o = if k r o then None else loc_get m r o.
Proof. induction m as [|[[r' o'] v] m IH]; cbn [filter loc_get fst snd].
  - destruct (k r o); reflexivity.
  - destruct (k r' o') eqn:Ek; cbn [negb].
    + rewrite IH. destruct ((r' =? r) && (o' =? o)) eqn:E; [|reflexivity].
      assert (r' = r /\ o' = o) as [-> ->] by lia. rewrite Ek. reflexivity.
    + cbn [loc_get]. destruct ((r' =? r) && (o' =? o)) eqn:E.
      * assert (r' = r /\ o' = o) as [-> ->] by lia. rewrite Ek. reflexivity.
      * exact IH. Qed.

Lemma loc_get_set_same m r o v : loc_get (loc_set m r o v) r o = Some v.
Proof. unfold loc_set. cbn [loc_get]. rewrite !Z.eqb_refl. reflexivity. Qed.

Lemma loc_get_set_other m r o v r' o' : (r', o') <> (r, o) -> loc_get (loc_set m r o v) r' o' = loc_get m r' o'.
Proof. intros Hne. unfold loc_set. cbn [loc_get].
  destruct ((r =? r') && (o =? o')) eqn:E; [exfalso; apply Hne; f_equal; lia|].
  rewrite (loc_get_filter (fun a b => (a =? r) && (b =? o))).
  destruct ((r' =? r) && (o' =? o)) eqn:E2; [exfalso; apply Hne; f_equal; lia | reflexivity]. Qed.

Lemma loc_get_kill m r o len r' o' :
  loc_get (loc_kill m r o len) r' o' = if (r' =? r) && (o <? o' + 8) && (o' <? o + len) then None else loc_get m r' o'.
Proof. unfold loc_kill. apply (loc_get_filter (fun a b => (a =? r) && (o <? b + 8) && (b <? o + len))). Qed.

(* ---- the detector as a fold ---- *)
Section Fold.
  Variable cls : accessor -> aclass.
  Variable watch : Z -> bool.

  Definition mine_of (e : event) (clocks : list vc) (locs : locmap) : vc :=
    let t := e_tid e in
    let mine0 := nth t clocks [] in
    let mine1 := vc_set mine0 t (S (vc_get mine0 t)) in
    if is_acquire_class (cls (e_acc e))
    then match loc_get locs (e_reg e) (e_off e) with Some v => vc_join mine1 v | None => mine1 end
    else mine1.
  Definition locs_of (e : event) (locs : locmap) (mine : vc) : locmap :=
    if is_release_class (cls (e_acc e)) then loc_set locs (e_reg e) (e_off e) mine
    else if is_write_class (cls (e_acc e)) then loc_kill locs (e_reg e) (e_off e) (e_len e)
    else locs.
  Definition dnext (e : event) (d : list vc * locmap) : list vc * locmap :=
    let mine := mine_of e (fst d) (snd d) in (set_nth_vc (fst d) (e_tid e) mine, locs_of e (snd d) mine).
  Fixpoint dfold (tr : list event) (d : list vc * locmap) : list vc * locmap :=
    match tr with [] => d | e :: r => dfold r (dnext e d) end.

  Lemma stamp_cons e rest clocks locs :
    stamp cls (e :: rest) clocks locs =
    (e, mine_of e clocks locs) :: stamp cls rest (fst (dnext e (clocks, locs))) (snd (dnext e (clocks, locs))).
  Proof. reflexivity. Qed.

  Lemma stamp_app a b : forall clocks locs,
    stamp cls (a ++ b) clocks locs =
    stamp cls a clocks locs ++ stamp cls b (fst (dfold a (clocks, locs))) (snd (dfold a (clocks, locs))).
  Proof. induction a as [|e a IH]; intros clocks locs; [reflexivity|].
    rewrite <- app_comm_cons, !stamp_cons, IH. cbn [dfold app]. 
    destruct (dnext e (clocks, locs)) as [c1 l1] eqn:E. reflexivity. Qed.

  Lemma dfold_app a b d : dfold (a ++ b) d = dfold b (dfold a d).
  Proof. revert d. induction a as [|e a IH]; intros d; [reflexivity | cbn; apply IH]. Qed.

  Definition bad (a x : event * vc) : bool := conflict cls watch (fst a) (fst x) && negb (hb_before a x).

  Lemma races_with_snoc a later x :
    races_with cls watch a (later ++ [x]) = [] <-> races_with cls watch a later = [] /\ bad a x = false.
  Proof. induction later as [|b later IH]; cbn [races_with app].
    - unfold bad. destruct (conflict cls watch (fst a) (fst x) && negb (hb_before a x)); cbn; split; intros H; try tauto; try discriminate; destruct H; discriminate.
    - destruct (conflict cls watch (fst a) (fst b) && negb (hb_before a b)); cbn [app].
      + split; [discriminate | intros [H _]; discriminate].
      + exact IH. Qed.

  Lemma races_in_snoc st x :
    races_in cls watch (st ++ [x]) = [] <-> races_in cls watch st = [] /\ forall a, In a st -> bad a x = false.
  Proof. induction st as [|a st IH]; cbn [races_in app].
    - split; [intros _; split; [reflexivity | intros a []] | reflexivity].
    - split.
      + intros H. apply app_eq_nil in H. destruct H as [H1 H2]. apply races_with_snoc in H1. destruct H1 as [H1 Hb].
        apply IH in H2. destruct H2 as [H2 Hall]. split; [rewrite H1, H2; reflexivity|].
        intros a' [<- | Hin]; auto.
      + intros [H Hall]. apply app_eq_nil in H. destruct H as [H1 H2].
        assert (X1 : races_with cls watch a (st ++ [x]) = []) by (apply races_with_snoc; split; [assumption | apply Hall; left; reflexivity]).
        assert (X2 : races_in cls watch (st ++ [x]) = []) by (apply IH; split; [assumption | intros a' Hin; apply Hall; right; assumption]).
        rewrite X1, X2. reflexivity. Qed.
End Fold.
