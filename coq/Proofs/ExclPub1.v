(* C03, exclusive publisher: list / memory lemmas for the invariant (lookup, laid frames, expected memory after a step). *)
Require Import V.Base.MachineInt.
Require Import V.Generated.GenConsts.
Require Import V.Model.LogBase.
Require Import V.Model.Descriptor.
Require Import V.Model.Sched.
Require Import V.Model.AppenderThreads.
Require Import V.Model.ReaderThreads.
Require Import V.Model.ExclThreads.
Require Import V.Model.PollThreads.
Require Import V.Model.ClaimThreads.
Require Import V.Proofs.TailArith.
Require Import V.Proofs.FragArith.
Require Import V.Proofs.ExclDefs.
From Coq Require Import ZifyBool.
Open Scope Z_scope.

Lemma lookup_app o fr o' sl : lookup o (fr ++ [(o', sl)]) = match lookup o fr with Some x => Some x | None => if o' =? o then Some sl else None end.
Proof. induction fr as [|[a b] fr IH]; cbn [lookup app]; [reflexivity|]. destruct (a =? o); [reflexivity | exact IH]. Qed.

Lemma lookup_in o fr sl : lookup o fr = Some sl -> In (o, sl) fr.
Proof. induction fr as [|[a b] fr IH]; cbn [lookup]; [discriminate|]. destruct (a =? o) eqn:E.
  - intros H. inversion H; subst. left. f_equal. lia.
  - intros H. right. auto. Qed.

Lemma lookup_none o fr : (forall sl, ~ In (o, sl) fr) -> lookup o fr = None.
Proof. intros H. destruct (lookup o fr) eqn:E; [|reflexivity]. exfalso. eapply H. eapply lookup_in. eassumption. Qed.

Lemma laid_snoc c b fr h sl : laid c b fr h -> 0 < s_len sl -> laid c b (fr ++ [(h, sl)]) (h + align (s_len sl) FA).
Proof. induction 1; intros Hl; cbn [app]; constructor; auto. constructor. Qed.

(* offsets of laid frames are distinct: each one is below the end *)
Lemma laid_lookup_end c b fr h : laid c b fr h -> lookup h fr = None.
Proof. intros L. apply lookup_none. intros sl Hin. destruct (laid_bounds c b fr h L) as (_ & Hb). destruct (Hb _ _ Hin) as (_ & H2 & H3).
  pose proof (align_pos (s_len sl) ltac:(lia)). rewrite FA_32 in *. lia. Qed.

Lemma laid_in_lookup c b fr h o sl : laid c b fr h -> In (o, sl) fr -> lookup o fr = Some sl.
Proof. induction 1 as [x | x s0 r e Hl Hr IH]; intros Hin; [destruct Hin|]. cbn [lookup]. destruct Hin as [Heq | Hin].
  - inversion Heq; subst. rewrite Z.eqb_refl. reflexivity.
  - destruct (laid_bounds c _ _ _ Hr) as (_ & Hb). destruct (Hb _ _ Hin) as (H1 & _).
    pose proof (align_pos (s_len s0) ltac:(lia)). rewrite FA_32 in *. replace (x =? o) with false by lia. auto. Qed.

Lemma apply_sets_fields sl sets :
  s_len (apply_sets sl sets) = s_len sl /\ s_ver (apply_sets sl sets) = s_ver sl /\ s_toff (apply_sets sl sets) = s_toff sl /\
  s_sess (apply_sets sl sets) = s_sess sl /\ s_strm (apply_sets sl sets) = s_strm sl /\ s_tid (apply_sets sl sets) = s_tid sl /\
  s_body (apply_sets sl sets) = s_body sl.
Proof. revert sl. induction sets as [|x sets IH]; intros sl; [repeat split|]. cbn [apply_sets fold_left].
  destruct (IH (apply_set sl x)) as (A1 & A2 & A3 & A4 & A5 & A6 & A7). unfold apply_sets in *.
  rewrite A1, A2, A3, A4, A5, A6, A7. destruct x; repeat split. Qed.

Lemma apply_sets_app sl a b : apply_sets sl (a ++ b) = apply_sets (apply_sets sl a) b.
Proof. unfold apply_sets. apply fold_left_app. Qed.

(* the current item does not change inside an attempt *)
Lemma x_item_pc l pc : x_item (xl_pc l pc) = x_item l. Proof. reflexivity. Qed.
Lemma x_item_limit l pc a b : x_item (xl_limit l pc a b) = x_item l. Proof. reflexivity. Qed.
Lemma x_item_frag l pc a b d : x_item (xl_frag l pc a b d) = x_item l. Proof. reflexivity. Qed.
Lemma x_item_toff l a : x_item (xl_toff l a) = x_item l. Proof. reflexivity. Qed.
Lemma x_item_sets l pc a : x_item (xl_sets l pc a) = x_item l. Proof. reflexivity. Qed.
Lemma x_item_term l pc a b d e : x_item (xl_term l pc a b d e) = x_item l. Proof. reflexivity. Qed.
Lemma x_len_pc l pc : x_len (xl_pc l pc) = x_len l. Proof. reflexivity. Qed.
Lemma x_len_limit l pc a b : x_len (xl_limit l pc a b) = x_len l. Proof. reflexivity. Qed.
Lemma x_len_frag l pc a b d : x_len (xl_frag l pc a b d) = x_len l. Proof. reflexivity. Qed.
Lemma x_len_toff l a : x_len (xl_toff l a) = x_len l. Proof. reflexivity. Qed.
Lemma x_len_sets l pc a : x_len (xl_sets l pc a) = x_len l. Proof. reflexivity. Qed.
Lemma x_len_term l pc a b d e : x_len (xl_term l pc a b d e) = x_len l. Proof. reflexivity. Qed.
Ltac xn := rewrite ?x_item_pc, ?x_item_limit, ?x_item_frag, ?x_item_toff, ?x_item_sets, ?x_item_term,
                   ?x_len_pc, ?x_len_limit, ?x_len_frag, ?x_len_toff, ?x_len_sets, ?x_len_term.

Section P.
  Variable c : cfg.
  Hypothesis W : wf_cfg c.

  Definition laidinv (gh : xghost) : Prop :=
    forall p, laid c (xbase c p) (xg_fr gh p) (xg_hi gh p) /\ xg_hi gh p <= TL c /\ xg_hi gh p mod 32 = 0 /\
              (forall o sl, In (o, sl) (xg_fr gh p) -> xwf_slot c (tid_of c (pgen c p)) o sl).

  Definition memok (s : shared) (gh : xghost) (ol : option xlocal) : Prop := forall p o, sh_mem s p o = expect c gh ol p o.

  Lemma pgen_mod g : c_n0 c <= g <= c_n0 c + 2 -> pgen c (g mod 3) = g.
  Proof. intros H. unfold pgen. rewrite Zminus_mod_idemp_l. rewrite Z.mod_small by lia. lia. Qed.

  (* ---- memory ---- *)
  Lemma mem_stage s gh l l' o v : memok s gh (Some l) -> x_idx l' = x_idx l -> lookup o (xg_fr gh (x_idx l)) = None ->
    (cur c l = None \/ exists sl, cur c l = Some (o, sl)) -> cur c l' = Some (o, v) ->
    memok (with_mem s (mupd (sh_mem s) (x_idx l) o v)) gh (Some l').
  Proof. intros M Hi Hl Hc Hc' p' o'. cbn [with_mem sh_mem]. unfold mupd. rewrite M. unfold expect. rewrite Hc', Hi.
    destruct ((p' =? x_idx l) && (o' =? o)) eqn:E.
    - assert (p' = x_idx l /\ o' = o) as [-> ->] by lia. rewrite Hl. reflexivity.
    - destruct (lookup o' (xg_fr gh p')); [reflexivity|]. destruct Hc as [-> | (sl & ->)]; [reflexivity|]. rewrite E. reflexivity. Qed.

  Lemma mem_commit s gh l l' o sl v : memok s gh (Some l) -> lookup o (xg_fr gh (x_idx l)) = None ->
    cur c l = Some (o, sl) -> cur c l' = None ->
    memok (with_mem s (mupd (sh_mem s) (x_idx l) o v)) (xg_add gh (x_idx l) o v) (Some l').
  Proof. intros M Hl Hc Hc' p' o'. cbn [with_mem sh_mem]. unfold mupd. rewrite M. unfold expect. rewrite Hc, Hc'. cbn [xg_add xg_fr].
    destruct (p' =? x_idx l) eqn:Ep; cbn [andb].
    - assert (p' = x_idx l) as -> by lia. rewrite lookup_app. destruct (o' =? o) eqn:Eo.
      + assert (o' = o) as -> by lia. rewrite Hl, Z.eqb_refl. reflexivity.
      + destruct (lookup o' (xg_fr gh (x_idx l))); [reflexivity|]. replace (o =? o') with false by lia. reflexivity.
    - destruct (lookup o' (xg_fr gh p')); reflexivity. Qed.

  Lemma mem_same s s' gh l l' : memok s gh (Some l) -> sh_mem s' = sh_mem s ->
    (cur c l' = cur c l /\ x_idx l' = x_idx l \/ cur c l' = None /\ cur c l = None) -> memok s' gh (Some l').
  Proof. intros M Hm Hc p o. rewrite Hm, M. unfold expect. destruct (lookup o (xg_fr gh p)); [reflexivity|].
    destruct Hc as [(-> & ->) | (-> & ->)]; reflexivity. Qed.

  (* the value the publisher's current frame holds *)
  Lemma mem_cur s gh l o sl : memok s gh (Some l) -> lookup o (xg_fr gh (x_idx l)) = None -> cur c l = Some (o, sl) ->
    sh_mem s (x_idx l) o = sl.
  Proof. intros M Hl Hc. rewrite M. unfold expect. rewrite Hl, Hc, !Z.eqb_refl. reflexivity. Qed.
  Lemma mem_fresh s gh l o : memok s gh (Some l) -> lookup o (xg_fr gh (x_idx l)) = None -> cur c l = None ->
    sh_mem s (x_idx l) o = zslot.
  Proof. intros M Hl Hc. rewrite M. unfold expect. rewrite Hl, Hc. reflexivity. Qed.

  (* ---- the ghost state after a commit ---- *)
  Lemma laidinv_add gh p sl : laidinv gh -> 0 < s_len sl -> xg_hi gh p + align (s_len sl) FA <= TL c ->
    xwf_slot c (tid_of c (pgen c p)) (xg_hi gh p) sl ->
    laidinv (xg_add gh p (xg_hi gh p) sl).
  Proof. intros L Hl Hfit Hw q. destruct (L q) as (L1 & L2 & L3 & L4). cbn [xg_add xg_fr xg_hi].
    destruct (q =? p) eqn:E; [|split; [assumption|]; split; [assumption|]; split; assumption]. assert (q = p) as -> by lia.
    split; [apply laid_snoc; assumption|]. split; [assumption|]. split.
    - pose proof (align_pos (s_len sl) ltac:(lia)) as (_ & A). rewrite FA_32 in *. rewrite Z.add_mod, L3, A by lia. reflexivity.
    - intros o s0 Hin. apply in_app_or in Hin. destruct Hin as [Hin | [Heq | []]]; [auto|]. inversion Heq; subst. assumption. Qed.
End P.
