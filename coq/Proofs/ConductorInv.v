(* The invariant of the conductor model and its preservation by every operation (all histories). *)
Require Import V.Base.MachineInt.
Require Import V.Generated.GenConsts.
Require Import V.Model.Conductor.
Require Import V.Proofs.ConductorBase.
From Coq Require Import ZifyBool.
Open Scope Z_scope.

Definition entry_ok (e : entry) : Prop :=
  (e_status e = Awaiting -> e_obj e = None) /\
  (forall o, e_obj e = Some o -> o_closed o = false).

Definition map_ok (n : Z) (m : amap) : Prop :=
  NoDup (keys m) /\ Forall (fun p => fst p < n /\ entry_ok (snd p)) m.

Definition orphan_ok (p : kind * Z * obj) : Prop :=
  o_closed (snd p) = true /\ (fst (fst p) = KSub -> o_images (snd p) = []).

(* a handle the conductor has closed and forgotten while the user still holds it: its registration is gone for good (the id is
   never handed out again); while the client is open these are the subscriptions / publications hit by a channel endpoint error *)
Definition orphan_free (s : st) (p : kind * Z * obj) : Prop :=
  lookup (snd (fst p)) (getm (fst (fst p)) s) = None /\ snd (fst p) < next_corr s /\
  (closed s = false -> fst (fst p) <> KCtr /\ fst (fst p) <> KDest).

Definition inv (s : st) : Prop :=
  (forall k, map_ok (next_corr s) (getm k s)) /\
  client_id s < next_corr s /\
  (closed s = true -> forall k, k <> KDest -> getm k s = []) /\
  Forall (orphan_free s) (orphans s) /\
  Forall orphan_ok (orphans s).

Lemma map_ok_nil n : map_ok n [].
Proof. split; constructor. Qed.

Lemma map_ok_mono n n' m : n <= n' -> map_ok n m -> map_ok n' m.
Proof. intros H [A B]. split; auto. eapply Forall_impl; [|exact B]. cbn. intros p [C D]. split; auto. lia. Qed.

Lemma NoDup_keys_remove id m : NoDup (keys m) -> NoDup (keys (remove id m)).
Proof. unfold keys, remove. induction m as [|[k e] m IH]; cbn; intros H; auto.
  inversion H; subst. destruct (k =? id); cbn; auto. constructor; auto.
  intros Hin. apply H2. apply in_map_iff in Hin. destruct Hin as (p & <- & Hp). apply filter_In in Hp. apply in_map. tauto. Qed.

Lemma map_ok_remove n id m : map_ok n m -> map_ok n (remove id m).
Proof. intros [A B]. split. apply NoDup_keys_remove; auto.
  unfold remove. apply Forall_forall. intros p Hp. apply filter_In in Hp. rewrite Forall_forall in B. apply B. tauto. Qed.

Lemma map_ok_upd n id f m : (forall e, entry_ok e -> entry_ok (f e)) -> map_ok n m -> map_ok n (upd id f m).
Proof. intros Hf [A B]. split. rewrite keys_upd; auto.
  unfold upd. rewrite Forall_forall in *. intros p Hp. apply in_map_iff in Hp. destruct Hp as ([k e] & <- & Hin).
  specialize (B _ Hin). cbn in *. destruct (k =? id); cbn; intuition. Qed.

(* updating one entry with a function that is only required to keep a well-formed *found* entry well-formed *)
Lemma map_ok_upd_at n id f m e :
  lookup id m = Some e -> (entry_ok e -> entry_ok (f e)) -> map_ok n m -> map_ok n (upd id f m).
Proof. intros Hl Hf [A B]. split. rewrite keys_upd; auto.
  unfold upd. rewrite Forall_forall in *. intros p Hp. apply in_map_iff in Hp. destruct Hp as ([k e'] & <- & Hin).
  pose proof (B _ Hin) as Hb. cbn in *. destruct (k =? id) eqn:E; cbn; auto.
  assert (e' = e).
  { clear - A Hl Hin E. assert (k = id) by lia. subst k. clear E.
    induction m as [|[k2 e2] m IH]; cbn in *; [tauto|].
    inversion A; subst. destruct Hin as [Hin|Hin].
    - inversion Hin; subst. rewrite Z.eqb_refl in Hl. congruence.
    - destruct (k2 =? id) eqn:E2.
      + exfalso. apply H1. assert (k2 = id) by lia. subst. apply in_map_iff. exists (id, e'). auto.
      + apply IH; auto. }
  subst. intuition. Qed.

Lemma NoDup_snoc (l : list Z) x : NoDup l -> ~ In x l -> NoDup (l ++ [x]).
Proof. induction l as [|a l IH]; cbn; intros H Hx.
  - constructor; auto; constructor.
  - inversion H; subst. constructor.
    + intros Hin. apply in_app_or in Hin. destruct Hin as [Hin|[Hin|[]]]; [tauto|]. subst. apply Hx. left. reflexivity.
    + apply IH; auto. Qed.

Lemma map_ok_ins n id e m : id < n -> entry_ok e -> map_ok n m -> map_ok n (ins id e m).
Proof. intros Hid He Hm. pose proof (map_ok_remove n id m Hm) as [A B]. split.
  - unfold ins, keys. rewrite map_app. cbn. apply NoDup_snoc; auto.
    change (map fst (remove id m)) with (keys (remove id m)).
    apply lookup_none_keys. apply lookup_remove_same.
  - unfold ins. apply Forall_app. split; [exact B|]. constructor; [|constructor]. cbn. split; assumption. Qed.

(* ---- states that agree on everything the invariant mentions ---- *)
Definition same_core (s s' : st) : Prop :=
  (forall k, getm k s' = getm k s) /\ next_corr s' = next_corr s /\ client_id s' = client_id s /\
  closed s' = closed s /\ orphans s' = orphans s.

Lemma inv_same_core s s' : same_core s s' -> inv s -> inv s'.
Proof. intros (A & B & C & D & E) (I1 & I2 & I3 & I4 & I5). unfold inv. rewrite B, C, D, E.
  split; [|split; [|split; [|split]]]; auto.
  - intros k. rewrite A. apply I1.
  - intros Hc k Hk. rewrite A. apply I3; auto.
  - eapply Forall_impl; [|exact I4]. intros p (P1 & P2 & P3). unfold orphan_free. rewrite A, B, D. auto. Qed.

Ltac core := unfold same_core; repeat split; try (let k := fresh "k" in intros k; destruct k; reflexivity).

Lemma core_set_next_h v s : same_core s (set_next_h v s). Proof. core. Qed.
Lemma core_set_now v s : same_core s (set_now v s). Proof. core. Qed.
Lemma core_set_t_work v s : same_core s (set_t_work v s). Proof. core. Qed.
Lemma core_set_t_keep v s : same_core s (set_t_keep v s). Proof. core. Qed.
Lemma core_set_t_res v s : same_core s (set_t_res v s). Proof. core. Qed.
Lemma core_set_driver_hb v s : same_core s (set_driver_hb v s). Proof. core. Qed.
Lemma core_set_hb_env v s : same_core s (set_hb_env v s). Proof. core. Qed.
Lemma core_set_hb_bound v s : same_core s (set_hb_bound v s). Proof. core. Qed.
Lemma core_set_driver_active v s : same_core s (set_driver_active v s). Proof. core. Qed.
Lemma core_set_close_sent v s : same_core s (set_close_sent v s). Proof. core. Qed.
Lemma core_set_ring_full v s : same_core s (set_ring_full v s). Proof. core. Qed.
Lemma core_set_uclosed v s : same_core s (set_uclosed v s). Proof. core. Qed.

Ltac inv_split := unfold inv; split; [|split; [|split; [|split]]].

Lemma inv_set_next_corr n s : next_corr s <= n -> inv s -> inv (set_next_corr n s).
Proof. intros H (I1 & I2 & I3 & I4 & I5). inv_split; auto.
  - intros k. rewrite getm_set_next_corr. cbn. eapply map_ok_mono; [|apply I1]. exact H.
  - cbn. lia.
  - cbn [orphans set_next_corr]. eapply Forall_impl; [|exact I4]. intros p (P1 & P2 & P3). unfold orphan_free.
    rewrite getm_set_next_corr. cbn [next_corr closed set_next_corr]. split; [exact P1|]. split; [lia|exact P3]. Qed.

(* the new map of kind k must not bring back a registration whose handle is an orphan *)
Definition no_orphan_key (k : kind) (m : amap) (s : st) : Prop :=
  forall r o, In (k, r, o) (orphans s) -> lookup r m = None.

Lemma inv_setm k m s :
  map_ok (next_corr s) m -> (closed s = true -> k <> KDest -> m = []) -> no_orphan_key k m s -> inv s -> inv (setm k m s).
Proof. intros Hm Hc Hno (I1 & I2 & I3 & I4 & I5). unfold inv.
  rewrite setm_next_corr, setm_client_id, setm_closed, setm_orphans. inv_split; auto.
  - intros k'. rewrite getm_setm. destruct (kind_eqb k' k); auto.
  - intros Hcl k' Hk'. rewrite getm_setm. destruct (kind_eqb k' k) eqn:E; auto.
    apply kind_eqb_eq in E. subst. auto.
  - apply Forall_forall. intros [[k' r'] o'] Hp. rewrite Forall_forall in I4. destruct (I4 _ Hp) as (P1 & P2 & P3).
    unfold orphan_free. cbn [fst snd] in *. rewrite getm_setm, setm_next_corr, setm_closed. split; [|split; [exact P2|exact P3]].
    destruct (kind_eqb k' k) eqn:E; auto. apply kind_eqb_eq in E. subst. eapply Hno; eauto. Qed.

Lemma inv_orphan s k r o : inv s -> In (k, r, o) (orphans s) -> lookup r (getm k s) = None /\ r < next_corr s.
Proof. intros (_ & _ & _ & I4 & _) H. rewrite Forall_forall in I4. destruct (I4 _ H) as (P1 & P2 & _). auto. Qed.

Lemma inv_set_orphans l s : Forall (orphan_free s) l -> Forall orphan_ok l -> inv s -> inv (set_orphans l s).
Proof. intros H1 H2 (I1 & I2 & I3 & I4 & I5). inv_split; auto. Qed.

Lemma inv_lookup s k r e : inv s -> lookup r (getm k s) = Some e -> r < next_corr s /\ entry_ok e.
Proof. intros (I1 & _) H. destruct (I1 k) as [_ F]. rewrite Forall_forall in F.
  assert (Hin : In (r, e) (getm k s)).
  { clear - H. induction (getm k s) as [|[k2 e2] m IH]; cbn in *; [discriminate|].
    destruct (k2 =? r) eqn:E; auto. inversion H; subst. left. f_equal. lia. }
  apply (F _ Hin). Qed.

Lemma inv_open_maps s k r e : inv s -> lookup r (getm k s) = Some e -> k <> KDest -> closed s = false.
Proof. intros (_ & _ & I3 & _) H Hk. destruct (closed s) eqn:E; auto. rewrite (I3 eq_refl k Hk) in H. discriminate. Qed.

(* ---- entry updates keep entries well formed ---- *)
Lemma entry_ok_new t a1 a2 a3 : entry_ok (new_entry t a1 a2 a3).
Proof. split; cbn; intros; congruence. Qed.
Lemma entry_ok_set_error c e : entry_ok e -> entry_ok (set_error c e).
Proof. intros [A B]. unfold set_error. destruct (e_status e) eqn:E; split; cbn; try congruence; auto. Qed.
Lemma entry_ok_set_status_reg e : entry_ok e -> entry_ok (set_status Registered e).
Proof. intros [A B]. split; cbn; [congruence|auto]. Qed.
Lemma entry_ok_set_ready d1 d2 d3 d4 o e :
  (forall o', o = Some o' -> o_closed o' = false) -> entry_ok (set_ready d1 d2 d3 d4 o e).
Proof. intros H. split; cbn; [congruence|auto]. Qed.
Lemma entry_ok_set_obj o o' e :
  e_obj e = Some o -> o_closed o' = false -> entry_ok e -> entry_ok (set_obj (Some o') e).
Proof. intros H Hc [A B]. split; cbn.
  - intros Hs. rewrite (A Hs) in H. discriminate.
  - intros o2 Heq. inversion Heq; subst. auto. Qed.
Lemma entry_ok_set_obj_reg o' e :
  e_status e = Registered -> o_closed o' = false -> entry_ok (set_obj (Some o') e).
Proof. intros H Hc. split; cbn.
  - congruence.
  - intros o2 Heq. inversion Heq; subst. auto. Qed.

(* ---- every operation preserves the invariant ---- *)
Ltac dmatch := match goal with |- context [match ?x with _ => _ end] => destruct x eqn:? end.

Lemma inv_map_ok s k : inv s -> map_ok (next_corr s) (getm k s).
Proof. intros (I1 & _). apply I1. Qed.

Lemma do_add_inv k a1 a2 a3 s : inv s -> inv (fst (do_add k a1 a2 a3 s)).
Proof. intros I. unfold do_add. destruct (negb (driver_active s)); [exact I|].
  destruct (closed s) eqn:Ec; [exact I|]. dmatch; [exact I|].
  destruct (ring_full s); cbn [fst]; [apply inv_set_next_corr; [lia|exact I]|].
  apply inv_setm.
  - rewrite getm_set_next_corr. cbn [next_corr set_next_corr].
    apply map_ok_ins; [lia|apply entry_ok_new|]. eapply map_ok_mono; [|apply inv_map_ok; exact I]. lia.
  - cbn. congruence.
  - intros r o Ho. cbn [orphans set_next_corr] in Ho. destruct (inv_orphan s k r o I Ho) as [P1 P2].
    rewrite getm_set_next_corr, lookup_ins_other by lia. exact P1.
  - apply inv_set_next_corr; [lia|exact I]. Qed.

Lemma inv_upd_entry s k r e f :
  inv s -> lookup r (getm k s) = Some e -> (entry_ok e -> entry_ok (f e)) -> inv (setm k (upd r f (getm k s)) s).
Proof. intros I Hl Hf. apply inv_setm; auto.
  - eapply map_ok_upd_at; eauto. apply inv_map_ok; auto.
  - intros Hc Hk. destruct I as (_ & _ & I3 & _). rewrite (I3 Hc k Hk). reflexivity.
  - intros r' o Ho. destruct (inv_orphan s k r' o I Ho) as [P1 _].
    destruct (Z.eq_dec r' r) as [->|Hne]; [rewrite lookup_upd_same, P1; reflexivity|rewrite lookup_upd_other by auto; exact P1]. Qed.

Lemma inv_remove_entry s k r : inv s -> inv (setm k (remove r (getm k s)) s).
Proof. intros I. apply inv_setm; auto.
  - apply map_ok_remove. apply inv_map_ok; auto.
  - intros Hc Hk. destruct I as (_ & _ & I3 & _). rewrite (I3 Hc k Hk). reflexivity.
  - intros r' o Ho. destruct (inv_orphan s k r' o I Ho) as [P1 _].
    destruct (Z.eq_dec r' r) as [->|Hne]; [apply lookup_remove_same|rewrite lookup_remove_other by auto; exact P1]. Qed.

Lemma do_find_inv c k r s : inv s -> inv (fst (do_find c k r s)).
Proof. intros I. unfold do_find. destruct (closed s); [exact I|].
  destruct (lookup r (getm k s)) as [e|] eqn:El; [|exact I].
  pose proof (inv_lookup _ _ _ _ I El) as [Hr He].
  assert (Hnh : forall h, inv (set_next_h h s)) by (intros; eapply inv_same_core; [apply core_set_next_h|exact I]).
  destruct k.
  - (* KPub *) destruct (e_obj e) as [o|] eqn:Eo.
    + destruct (o_user o); [exact I|]. cbn [fst].
      eapply (inv_upd_entry (set_next_h (next_h s + 1) s) KPub); [apply Hnh|rewrite getm_set_next_h; exact El|].
      intros _. eapply entry_ok_set_obj; eauto. cbn. destruct He as [_ B]. apply B; auto.
    + destruct (e_status e) eqn:Es.
      * destruct (timed_out c s e); exact I.
      * cbn [fst]. eapply (inv_upd_entry (set_next_h (next_h s + 1) s) KPub); [apply Hnh|rewrite getm_set_next_h; exact El|].
        intros _. apply entry_ok_set_obj_reg; auto.
      * cbn [fst]. apply inv_remove_entry; auto.
      * exact I.
  - (* KXPub *) destruct (e_obj e) as [o|] eqn:Eo.
    + destruct (o_user o); [exact I|]. cbn [fst].
      eapply (inv_upd_entry (set_next_h (next_h s + 1) s) KXPub); [apply Hnh|rewrite getm_set_next_h; exact El|].
      intros _. eapply entry_ok_set_obj; eauto. cbn. destruct He as [_ B]. apply B; auto.
    + destruct (e_status e) eqn:Es.
      * destruct (timed_out c s e); exact I.
      * cbn [fst]. eapply (inv_upd_entry (set_next_h (next_h s + 1) s) KXPub); [apply Hnh|rewrite getm_set_next_h; exact El|].
        intros _. apply entry_ok_set_obj_reg; auto.
      * cbn [fst]. apply inv_remove_entry; auto.
      * exact I.
  - (* KSub *) destruct (e_obj e) as [o|] eqn:Eo.
    + destruct (o_user o); [exact I|]. cbn [fst].
      eapply (inv_upd_entry (set_next_h (next_h s + 1) s) KSub); [apply Hnh|rewrite getm_set_next_h; exact El|].
      intros _. eapply entry_ok_set_obj; eauto. cbn. destruct He as [_ B]. apply B; auto.
    + destruct (e_status e) eqn:Es.
      * destruct (timed_out c s e); exact I.
      * exact I.
      * cbn [fst]. apply inv_remove_entry; auto.
      * exact I.
  - (* KCtr *) destruct (e_obj e) as [o|] eqn:Eo.
    + destruct (o_user o); [exact I|]. cbn [fst].
      eapply (inv_upd_entry (set_next_h (next_h s + 1) s) KCtr); [apply Hnh|rewrite getm_set_next_h; exact El|].
      intros _. eapply entry_ok_set_obj; eauto. cbn. destruct He as [_ B]. apply B; auto.
    + destruct (e_status e) eqn:Es.
      * destruct (timed_out c s e); exact I.
      * exact I.
      * cbn [fst]. apply inv_remove_entry; auto.
      * exact I.
  - (* KDest *) destruct (e_status e); [destruct (timed_out c s e)| | |]; exact I. Qed.

Lemma do_release_inv k r imgs s : inv s -> inv (fst (do_release k r imgs s)).
Proof. intros I. unfold do_release. destruct (lookup r (getm k s)) as [e0|] eqn:El0; [|exact I].
  assert (Hrem : inv (setm k (remove r (getm k (set_next_corr (next_corr s + 1) s))) (set_next_corr (next_corr s + 1) s))).
  { apply inv_setm.
    - rewrite getm_set_next_corr. cbn [next_corr set_next_corr]. apply map_ok_remove.
      eapply map_ok_mono; [|apply inv_map_ok; exact I]. lia.
    - intros Hc Hk. cbn in Hc. rewrite getm_set_next_corr. destruct I as (_ & _ & I3 & _). rewrite (I3 Hc k Hk). reflexivity.
    - intros r' o Ho. cbn [orphans set_next_corr] in Ho. destruct (inv_orphan s k r' o I Ho) as [P1 _]. rewrite getm_set_next_corr.
      destruct (Z.eq_dec r' r) as [->|Hne]; [apply lookup_remove_same|rewrite lookup_remove_other by auto; exact P1].
    - apply inv_set_next_corr; [lia|exact I]. }
  assert (Hdead : inv (setm k (upd r (fun e => set_obj None (set_status Dropped e)) (getm k (set_next_corr (next_corr s + 1) s))) (set_next_corr (next_corr s + 1) s))).
  { apply (inv_upd_entry (set_next_corr (next_corr s + 1) s) k r e0); [apply inv_set_next_corr; [lia|exact I]|rewrite getm_set_next_corr; exact El0|].
    intros [A B]. split; cbn; intros; congruence. }
  destruct (ring_full s); [destruct k|]; cbn [fst]; try exact Hrem; try exact Hdead. Qed.

Lemma do_release_closed k r imgs s : closed (fst (do_release k r imgs s)) = closed s.
Proof. unfold do_release. destruct (lookup r (getm k s)); auto. destruct (ring_full s); [destruct k|]; cbn [fst]; rewrite ?setm_closed; reflexivity. Qed.
Lemma do_release_orphans k r imgs s : orphans (fst (do_release k r imgs s)) = orphans s.
Proof. unfold do_release. destruct (lookup r (getm k s)); auto. destruct (ring_full s); [destruct k|]; cbn [fst]; rewrite ?setm_orphans; reflexivity. Qed.

Lemma dtor_user_inv k r o s : inv s -> inv (fst (dtor_user k r o s)).
Proof. intros I. unfold dtor_user. destruct k; try apply do_release_inv; auto;
  destruct (o_closed o); auto; apply do_release_inv; auto. Qed.
Lemma dtor_user_closed k r o s : closed (fst (dtor_user k r o s)) = closed s.
Proof. unfold dtor_user. destruct k; try apply do_release_closed; destruct (o_closed o); auto; apply do_release_closed. Qed.
Lemma dtor_user_orphans k r o s : orphans (fst (dtor_user k r o s)) = orphans s.
Proof. unfold dtor_user. destruct k; try apply do_release_orphans; destruct (o_closed o); auto; apply do_release_orphans. Qed.

Lemma remove_orphan_ok k r l : Forall orphan_ok l -> Forall orphan_ok (remove_orphan k r l).
Proof. unfold remove_orphan. intros H. apply Forall_forall. intros p Hp. apply filter_In in Hp.
  rewrite Forall_forall in H. apply H. tauto. Qed.

Lemma remove_orphan_incl k r l p : In p (remove_orphan k r l) -> In p l.
Proof. unfold remove_orphan. intros H. apply filter_In in H. tauto. Qed.

Lemma do_drop_inv k r s : inv s -> inv (fst (do_drop k r s)).
Proof. intros I. unfold do_drop. destruct k; try exact I;
  (destruct (user_obj _ r s) as [o|]; [|exact I]);
  match goal with |- context [dtor_user ?k r o s] =>
    pose proof (dtor_user_inv k r o s I) as I'; destruct (dtor_user k r o s) as [s1 [cbs cmds]] end;
  cbn [fst] in *; (apply inv_set_orphans; [| |exact I']);
  [ destruct I' as (_ & _ & _ & I4 & _) | destruct I' as (_ & _ & _ & _ & I4)
  | destruct I' as (_ & _ & _ & I4 & _) | destruct I' as (_ & _ & _ & _ & I4)
  | destruct I' as (_ & _ & _ & I4 & _) | destruct I' as (_ & _ & _ & _ & I4)
  | destruct I' as (_ & _ & _ & I4 & _) | destruct I' as (_ & _ & _ & _ & I4) ];
  apply Forall_forall; intros p Hp; apply remove_orphan_incl in Hp; rewrite Forall_forall in I4; apply I4; exact Hp. Qed.

Lemma do_peek_state k r s : fst (do_peek k r s) = s.
Proof. unfold do_peek. destruct (user_obj k r s); reflexivity. Qed.

(* close_all *)
Lemma objs_of_in m r o : In (r, o) (objs_of m) -> exists e, In (r, e) m /\ e_obj e = Some o.
Proof. unfold objs_of. intros H. apply in_flat_map in H. destruct H as ([r' e] & Hin & Hx). cbn in Hx.
  destruct (e_obj e) eqn:E; cbn in Hx; [|tauto]. destruct Hx as [Hx|[]]. inversion Hx; subst. eauto. Qed.

Lemma map_ok_obj_open n m r o : map_ok n m -> In (r, o) (objs_of m) -> o_closed o = false.
Proof. intros [_ F] H. apply objs_of_in in H. destruct H as (e & Hin & Ho). rewrite Forall_forall in F.
  destruct (F _ Hin) as [_ [_ B]]. cbn in B. auto. Qed.

Lemma objs_of_bound n m r o : map_ok n m -> In (r, o) (objs_of m) -> r < n.
Proof. intros [_ F] H. apply objs_of_in in H. destruct H as (e & Hin & _). rewrite Forall_forall in F. destruct (F _ Hin) as [B _]. exact B. Qed.

Lemma close_all_inv s : inv s -> inv (fst (fst (close_all s))).
Proof. intros I. unfold close_all. destruct (closed s) eqn:Ec; [exact I|].
  destruct (close_subs (subs s)) as [sl scbs] eqn:Es. destruct (close_ctrs (ctrs s)) as [cl ccbs] eqn:Ect.
  cbn [fst]. destruct I as (I1 & I2 & I3 & I4 & I5).
  assert (Hsl : forall r o, In (r, o) sl -> r < next_corr s).
  { intros r o Hin. unfold close_subs in Es. inversion Es; subst. rewrite map_map in Hin. cbn in Hin.
    apply in_map_iff in Hin. destruct Hin as ([r' o'] & Heq & Hin). cbn in Heq. inversion Heq; subst.
    eapply objs_of_bound; [apply (I1 KSub)|exact Hin]. }
  assert (Hcl : forall r o, In (r, o) cl -> r < next_corr s).
  { intros r o Hin. unfold close_ctrs in Ect. inversion Ect; subst.
    apply in_map_iff in Hin. destruct Hin as ([r' o'] & Heq & Hin). cbn in Heq. inversion Heq; subst.
    eapply objs_of_bound; [apply (I1 KCtr)|exact Hin]. }
  inv_split.
  - intros k. destruct k; cbn; try apply map_ok_nil. apply (I1 KDest).
  - exact I2.
  - intros _ k Hk. destruct k; cbn; auto. congruence.
  - cbn [orphans]. repeat (apply Forall_app; split).
    + eapply Forall_impl; [|exact I4]. intros [[k r] o] (P1 & P2 & P3). unfold orphan_free. cbn [fst snd] in *.
      split; [destruct k; cbn; auto|]. split; [exact P2|]. cbn. discriminate.
    + unfold close_pubs. apply Forall_forall. intros p Hp. apply in_map_iff in Hp. destruct Hp as ([r o] & <- & Hin).
      unfold orphan_free. cbn. split; [reflexivity|]. split; [|discriminate]. eapply objs_of_bound; [apply (I1 KPub)|exact Hin].
    + unfold close_pubs. apply Forall_forall. intros p Hp. apply in_map_iff in Hp. destruct Hp as ([r o] & <- & Hin).
      unfold orphan_free. cbn. split; [reflexivity|]. split; [|discriminate]. eapply objs_of_bound; [apply (I1 KXPub)|exact Hin].
    + unfold kept. apply Forall_forall. intros p Hp. apply in_map_iff in Hp. destruct Hp as ([r o] & <- & Hf).
      apply filter_In in Hf. destruct Hf as [Hf _]. unfold orphan_free. cbn. split; [reflexivity|]. split; [|discriminate]. eapply Hsl; eauto.
    + unfold kept. apply Forall_forall. intros p Hp. apply in_map_iff in Hp. destruct Hp as ([r o] & <- & Hf).
      apply filter_In in Hf. destruct Hf as [Hf _]. unfold orphan_free. cbn. split; [reflexivity|]. split; [|discriminate]. eapply Hcl; eauto.
  - cbn [orphans]. repeat (apply Forall_app; split); [exact I5| | | |].
    + unfold close_pubs. apply Forall_forall. intros p Hp. apply in_map_iff in Hp. destruct Hp as ([r o] & <- & _).
      split; cbn; [reflexivity|congruence].
    + unfold close_pubs. apply Forall_forall. intros p Hp. apply in_map_iff in Hp. destruct Hp as ([r o] & <- & _).
      split; cbn; [reflexivity|congruence].
    + unfold kept. apply Forall_forall. intros p Hp. apply in_map_iff in Hp. destruct Hp as ([r o] & <- & Hf).
      apply filter_In in Hf. destruct Hf as [Hf _]. split; cbn.
      * pose proof (close_subs_closed (subs s) r o) as Hc. rewrite Es in Hc. auto.
      * intros _. unfold close_subs in Es. inversion Es; subst. rewrite map_map in Hf. cbn in Hf.
        apply in_map_iff in Hf. destruct Hf as ([r' o'] & Heq & Hin). cbn in Heq. inversion Heq; subst.
        pose proof (map_ok_obj_open _ _ _ _ (I1 KSub) Hin) as Hop. unfold close_sub_obj. cbn in Hop. rewrite Hop. reflexivity.
    + unfold kept. apply Forall_forall. intros p Hp. apply in_map_iff in Hp. destruct Hp as ([r o] & <- & Hf).
      apply filter_In in Hf. destruct Hf as [Hf _]. split; cbn.
      * pose proof (close_ctrs_closed (ctrs s) r o) as Hc. rewrite Ect in Hc. auto.
      * congruence. Qed.

Lemma do_close_inv s : inv s -> inv (fst (do_close s)).
Proof. intros I. unfold do_close. pose proof (close_all_inv s I) as I'. pose proof (close_all_no_hang s) as Hh.
  destruct (close_all s) as [[s1 cbs] hang]. cbn in *. subst hang.
  destruct (close_sent s1); [exact I'|]. cbn [fst].
  eapply inv_same_core; [apply core_set_close_sent|]. apply inv_set_next_corr; [lia|exact I']. Qed.

Lemma on_error_inv corr code s : inv s -> inv (on_error corr code s).
Proof. intros I. unfold on_error.
  destruct (lookup corr (subs s)) eqn:E1. { apply (inv_upd_entry s KSub corr e); auto. apply entry_ok_set_error. }
  destruct (lookup corr (pubs s)) eqn:E2. { apply (inv_upd_entry s KPub corr e); auto. apply entry_ok_set_error. }
  destruct (lookup corr (xpubs s)) eqn:E3. { apply (inv_upd_entry s KXPub corr e); auto. apply entry_ok_set_error. }
  destruct (lookup corr (ctrs s)) eqn:E4. { apply (inv_upd_entry s KCtr corr e); auto. apply entry_ok_set_error. }
  destruct (lookup corr (dests s)) eqn:E5. { apply (inv_upd_entry s KDest corr e); auto. apply entry_ok_set_error. }
  exact I. Qed.

(* ---- on_channel_endpoint_error_response ---- *)
Lemma chan_hit_some k x e o : chan_hit k x e = Some o -> e_obj e = Some o /\ chan_id k o = wrap32 x.
Proof. unfold chan_hit. destruct (e_obj e) as [o'|]; [|discriminate]. destruct (chan_id k o' =? wrap32 x) eqn:E; [|discriminate].
  intros H. inversion H; subst. split; [reflexivity|lia]. Qed.

Lemma map_ok_chan_keep n k x m : map_ok n m -> map_ok n (chan_keep k x m).
Proof. intros [A B]. unfold chan_keep. split.
  - unfold keys. clear B. induction m as [|[r e] m IH]; cbn; [constructor|]. inversion A; subst.
    destruct (negb (chan_removed k x (r, e))); cbn; auto. constructor; auto.
    intros Hin. apply H1. apply in_map_iff in Hin. destruct Hin as (p & <- & Hp). apply filter_In in Hp. apply in_map. tauto.
  - apply Forall_forall. intros p Hp. apply filter_In in Hp. rewrite Forall_forall in B. apply B. tauto. Qed.

Lemma chan_closed_obj_closed k r o : o_closed (chan_closed_obj k r o) = true.
Proof. unfold chan_closed_obj. destruct k; try reflexivity. apply close_sub_obj_closed. Qed.

Lemma chan_orphans_in k x m p : In p (chan_orphans k x m) ->
  exists r e o, In (r, e) m /\ chan_hit k x e = Some o /\ p = (k, r, chan_closed_obj k r o).
Proof. unfold chan_orphans. intros Hp. apply in_flat_map in Hp. destruct Hp as ([r e] & Hin & Hx). cbn [fst snd] in Hx.
  destruct (chan_hit k x e) as [o|] eqn:Eh; [|destruct Hx].
  destruct (chan_removed k x (r, e) && (o_user o || negb (kind_eqb k KSub))); [|destruct Hx].
  destruct Hx as [<-|[]]. exists r, e, o. auto. Qed.

Lemma chan_orphans_ok k x m : (k = KSub -> forall r e o, In (r, e) m -> e_obj e = Some o -> o_closed o = false) ->
  Forall orphan_ok (chan_orphans k x m).
Proof. intros Hop. apply Forall_forall; intros p Hp; apply chan_orphans_in in Hp;
  destruct Hp as (r & e & o & Hin & Eh & ->).
  split; cbn [fst snd]; [apply chan_closed_obj_closed|]. intros ->. unfold chan_closed_obj, close_sub_obj.
  apply chan_hit_some in Eh. destruct Eh as [Eo _]. rewrite (Hop eq_refl r e o Hin Eo). reflexivity. Qed.

Lemma in_map_entry (m : amap) r e : In (r, e) m -> NoDup (keys m) -> lookup r m = Some e.
Proof. induction m as [|[k2 e2] m IH]; cbn; [tauto|]. intros [H|H] N; inversion N; subst.
  - inversion H; subst. rewrite Z.eqb_refl. reflexivity.
  - destruct (k2 =? r) eqn:E; [|auto]. exfalso. apply H2. assert (k2 = r) by lia. subst. apply in_map_iff. exists (r, e). auto. Qed.

(* lookup in a filtered map without duplicate keys *)
Lemma lookup_filter (f : Z * entry -> bool) (m : amap) r : NoDup (keys m) ->
  lookup r (filter f m) = match lookup r m with Some e => if f (r, e) then Some e else None | None => None end.
Proof. induction m as [|[k e] m IH]; cbn; auto. intros N. inversion N; subst.
  destruct (k =? r) eqn:E.
  - assert (k = r) by lia. subst k. destruct (f (r, e)) eqn:Ef; cbn; [rewrite Z.eqb_refl; reflexivity|].
    rewrite IH by auto. assert (Hl : lookup r m = None) by (apply lookup_none_keys; exact H1). rewrite Hl. reflexivity.
  - destruct (f (k, e)); cbn; [rewrite E|]; apply IH; auto. Qed.

Lemma lookup_chan_keep k x m r : NoDup (keys m) ->
  lookup r (chan_keep k x m) = match lookup r m with Some e => if chan_removed k x (r, e) then None else Some e | None => None end.
Proof. intros N. unfold chan_keep. rewrite lookup_filter by auto. destruct (lookup r m) as [e|]; auto. destruct (chan_removed k x (r, e)); reflexivity. Qed.

Lemma chan_orphans_removed k x m p : In p (chan_orphans k x m) ->
  exists r e o, In (r, e) m /\ chan_removed k x (r, e) = true /\ p = (k, r, chan_closed_obj k r o).
Proof. unfold chan_orphans. intros Hp. apply in_flat_map in Hp. destruct Hp as ([r e] & Hin & Hx). cbn [fst snd] in Hx.
  destruct (chan_hit k x e) as [o|] eqn:Eh; [|destruct Hx].
  destruct (chan_removed k x (r, e)) eqn:Er; cbn [andb] in Hx; [|destruct Hx].
  destruct (o_user o || negb (kind_eqb k KSub)); [|destruct Hx]. destruct Hx as [<-|[]]. exists r, e, o. auto. Qed.

(* the three maps after a channel endpoint error, orphans not yet added *)
Definition chan_maps (x : Z) (s : st) : st :=
  setm KXPub (chan_keep KXPub x (xpubs s)) (setm KPub (chan_keep KPub x (pubs s)) (setm KSub (chan_keep KSub x (subs s)) s)).

Lemma getm_chan_maps k x s : getm k (chan_maps x s) = match k with KSub | KPub | KXPub => chan_keep k x (getm k s) | _ => getm k s end.
Proof. destruct k; reflexivity. Qed.

Lemma chan_maps_inv x s : inv s -> inv (chan_maps x s).
Proof. intros I. unfold chan_maps.
  assert (Hm : forall k s0, inv s0 -> inv (setm k (chan_keep k x (getm k s0)) s0)).
  { intros k s0 I0. apply inv_setm; auto.
    - apply map_ok_chan_keep. apply inv_map_ok; auto.
    - intros Hc Hk. destruct I0 as (_ & _ & J3 & _). rewrite (J3 Hc k Hk). reflexivity.
    - intros r o Ho. destruct (inv_orphan s0 k r o I0 Ho) as [P1 _].
      rewrite lookup_chan_keep by (apply inv_map_ok; auto). rewrite P1. reflexivity. }
  pose proof (Hm KSub s I) as J1. pose proof (Hm KPub _ J1) as J2. pose proof (Hm KXPub _ J2) as J3. exact J3. Qed.

Lemma on_chan_error_state x s :
  fst (fst (on_chan_error x s)) =
  set_orphans (orphans s ++ chan_orphans KSub x (subs s) ++ chan_orphans KPub x (pubs s) ++ chan_orphans KXPub x (xpubs s)) (chan_maps x s).
Proof. reflexivity. Qed.

Lemma on_chan_error_inv x s : inv s -> inv (fst (fst (on_chan_error x s))).
Proof. intros I. rewrite on_chan_error_state.
  assert (Hopen : forall r e o, In (r, e) (subs s) -> e_obj e = Some o -> o_closed o = false).
  { intros r e o Hin Ho. destruct I as (I1 & _). destruct (I1 KSub) as [N F]. rewrite Forall_forall in F.
    destruct (F _ Hin) as [_ [_ B]]. cbn in B. auto. }
  pose proof (chan_maps_inv x s I) as I'. pose proof I as (I1 & I2 & I3 & I4 & I5).
  assert (Hnew : forall k, k = KSub \/ k = KPub \/ k = KXPub -> Forall (orphan_free (chan_maps x s)) (chan_orphans k x (getm k s))).
  { intros k Hk. apply Forall_forall. intros p Hp. apply chan_orphans_removed in Hp. destruct Hp as (r & e & o & Hin & Hrm & ->).
    destruct (I1 k) as [N F]. pose proof (in_map_entry _ _ _ Hin N) as Hl.
    rewrite Forall_forall in F. destruct (F _ Hin) as [Hb _]. cbn [fst] in Hb.
    unfold orphan_free. cbn [fst snd]. rewrite getm_chan_maps. split; [|split].
    - destruct Hk as [ -> | [ -> | -> ] ]; cbn [getm] in *; rewrite lookup_chan_keep by exact N; rewrite Hl, Hrm; reflexivity.
    - exact Hb.
    - intros _. destruct Hk as [ -> | [ -> | -> ] ]; split; congruence. }
  apply inv_set_orphans; [| |exact I'].
  - repeat (apply Forall_app; split).
    + destruct I' as (_ & _ & _ & J4 & _). exact J4.
    + apply (Hnew KSub). auto.
    + apply (Hnew KPub). auto.
    + apply (Hnew KXPub). auto.
  - repeat (apply Forall_app; split); [exact I5| | |]; apply chan_orphans_ok; try congruence; auto. Qed.

Lemma is_awaiting_obj e : entry_ok e -> is_awaiting e = true -> e_obj e = None.
Proof. intros [A _] H. apply A. unfold is_awaiting in H. destruct (e_status e); congruence. Qed.

Lemma on_event_inv ev s : inv s -> inv (fst (fst (on_event ev s))).
Proof. intros I. destruct ev; cbn [on_event].
  - destruct (lookup corr (pubs s)) as [e|] eqn:El; [|exact I]. destruct (is_awaiting e) eqn:Ea; [|exact I]. cbn [fst].
    apply (inv_upd_entry s KPub corr e); auto. intros He. apply entry_ok_set_ready. rewrite (is_awaiting_obj e He Ea). congruence.
  - destruct (lookup id (xpubs s)) as [e|] eqn:El; [|exact I]. destruct (is_awaiting e) eqn:Ea; [|exact I]. cbn [fst].
    apply (inv_upd_entry s KXPub id e); auto. intros He. apply entry_ok_set_ready. rewrite (is_awaiting_obj e He Ea). congruence.
  - destruct (lookup corr (subs s)) as [e|] eqn:El; [|exact I]. destruct (is_awaiting e) eqn:Ea; [|exact I]. cbn [fst].
    apply (inv_upd_entry s KSub corr e); auto. intros He. apply entry_ok_set_ready. intros o' Ho. inversion Ho; subst. reflexivity.
  - destruct (lookup corr (dests s)) as [e|] eqn:El; [|exact I]. destruct (is_awaiting e) eqn:Ea; [|exact I]. cbn [fst].
    apply (inv_upd_entry s KDest corr e); auto. apply entry_ok_set_status_reg.
  - cbn [fst]. apply on_error_inv; auto.
  - destruct (lookup subreg (subs s)) as [e|] eqn:El; [|exact I]. destruct (e_obj e) as [o|] eqn:Eo; [|exact I]. cbn [fst].
    apply (inv_upd_entry s KSub subreg e); auto. intros He. eapply entry_ok_set_obj; eauto. cbn. destruct He as [_ B]. auto.
  - destruct (lookup subreg (subs s)) as [e|] eqn:El; [|exact I]. destruct (e_obj e) as [o|] eqn:Eo; [|exact I].
    destruct (remove_first corr (o_images o)); [|exact I]. cbn [fst].
    apply (inv_upd_entry s KSub subreg e); auto. intros He. eapply entry_ok_set_obj; eauto. cbn. destruct He as [_ B]. auto.
  - destruct (lookup corr (ctrs s)) as [e|] eqn:El; [|exact I]. destruct (is_awaiting e) eqn:Ea; [|exact I]. cbn [fst].
    apply (inv_upd_entry s KCtr corr e); auto. intros He. apply entry_ok_set_ready. intros o' Ho. inversion Ho; subst. reflexivity.
  - exact I.
  - destruct ((cid =? client_id s) && negb (closed s)); [|exact I].
    pose proof (close_all_inv s I) as I'. destruct (close_all s) as [[s1 cbs] hang]. exact I'.
  - apply on_chan_error_inv; auto. Qed.

Lemma close_all_inv' s : inv s -> forall s1 cbs hang, close_all s = (s1, cbs, hang) -> inv s1.
Proof. intros I s1 cbs hang H. pose proof (close_all_inv s I) as I'. rewrite H in I'. exact I'. Qed.

Lemma hc_service_inv c t s : inv s -> inv (fst (fst (hc_service c t s))).
Proof. intros I. unfold hc_service. destruct (t_work s + c_tis c <? t); [|exact I].
  destruct (close_all s) as [[s1 cbs] hang] eqn:E. cbn [fst]. eapply close_all_inv'; eauto. Qed.
Lemma hc_driver_inv c t s : inv s -> inv (fst (hc_driver c t s)).
Proof. intros I. unfold hc_driver. dmatch; [|exact I]. eapply inv_same_core; [apply core_set_driver_active|exact I]. Qed.
Lemma hc_heartbeat_inv s : inv s -> inv (fst (fst (hc_heartbeat s))).
Proof. intros I. unfold hc_heartbeat. destruct (hb_bound s); destruct (hb_env s =? 1); try exact I.
  destruct (close_all s) as [[s1 cbs] hang] eqn:E. cbn [fst]. eapply close_all_inv'; eauto. Qed.
Lemma hc_keepalive_inv c t s : inv s -> inv (fst (fst (fst (hc_keepalive c t s)))).
Proof. intros I. unfold hc_keepalive. destruct (t_keep s + KEEPALIVE_TIMEOUT_MS <? t); [|exact I].
  pose proof (hc_driver_inv c t s I) as I1. destruct (hc_driver c t s) as [s' cbs']. cbn [fst] in I1.
  pose proof (hc_heartbeat_inv s' I1) as I2. destruct (hc_heartbeat s') as [[s'' cbs''] hang'']. cbn [fst] in *.
  eapply inv_same_core; [apply core_set_t_keep|exact I2]. Qed.
Lemma hc_resources_inv t s : inv s -> inv (fst (hc_resources t s)).
Proof. intros I. unfold hc_resources. dmatch; [|exact I]. eapply inv_same_core; [apply core_set_t_res|exact I]. Qed.

Lemma heartbeat_check_inv c s : inv s -> inv (fst (fst (fst (heartbeat_check c s)))).
Proof. intros I. unfold heartbeat_check.
  pose proof (hc_service_inv c (now s) s I) as I1. destruct (hc_service c (now s) s) as [[s1 cbs1] hang1]. cbn [fst] in I1.
  assert (I2 : inv (set_t_work (now s) s1)) by (eapply inv_same_core; [apply core_set_t_work|exact I1]).
  pose proof (hc_keepalive_inv c (now s) _ I2) as I3. destruct (hc_keepalive c (now s) (set_t_work (now s) s1)) as [[[s3 cbs3] hang3] r3].
  cbn [fst] in I3. pose proof (hc_resources_inv (now s) s3 I3) as I4. destruct (hc_resources (now s) s3) as [s4 r4]. exact I4. Qed.

Lemma do_work_inv c b s : inv s -> inv (fst (do_work c b s)).
Proof. intros I. unfold do_work. destruct b; try exact I.
  - pose proof (heartbeat_check_inv c s I) as I'. cbn. destruct (heartbeat_check c s) as [[[s2 cbs2] hang2] r].
    destruct hang2; exact I'.
  - pose proof (on_event_inv e s I) as I1. destruct (on_event e s) as [[s1 cbs1] hang1]. cbn [fst] in I1.
    destruct hang1; [exact I1|].
    pose proof (heartbeat_check_inv c s1 I1) as I'. destruct (heartbeat_check c s1) as [[[s2 cbs2] hang2] r].
    destruct hang2; exact I'. Qed.

Lemma step_inv c s o : inv s -> inv (fst (step c s o)).
Proof. intros I. destruct o; cbn [step].
  - apply do_add_inv; auto.
  - apply do_find_inv; auto.
  - apply do_drop_inv; auto.
  - rewrite do_peek_state. exact I.
  - apply do_close_inv; auto.
  - cbn [fst]. eapply inv_same_core; [apply core_set_now|exact I].
  - cbn [fst]. eapply inv_same_core; [apply core_set_driver_hb|exact I].
  - cbn [fst]. eapply inv_same_core; [apply core_set_hb_env|exact I].
  - cbn [fst]. eapply inv_same_core; [apply core_set_ring_full|exact I].
  - apply do_work_inv; auto.
  - unfold do_close_handle. destruct k; try exact I; destruct (user_obj _ r s); try exact I; cbn [fst];
      (eapply inv_same_core; [apply core_set_uclosed|exact I]). Qed.

Lemma init_inv c0 now0 : inv (init c0 now0).
Proof. inv_split.
  - intros k. destruct k; apply map_ok_nil.
  - cbn. lia.
  - cbn. discriminate.
  - constructor.
  - constructor. Qed.

Lemma run_inv c ops : forall s, inv s -> inv (fst (run c s ops)).
Proof. induction ops as [|o ops IH]; intros s I; cbn; auto.
  pose proof (step_inv c s o I) as I1. destruct (step c s o) as [s1 x]. cbn [fst] in I1.
  specialize (IH s1 I1). destruct (run c s1 ops) as [s2 xs]. exact IH. Qed.
