(* The flow part of the C04 oracle (results, positions, term count, tail counters) is true on the observations the
   model itself produces, for every offer / claim / bulk offer from every state satisfying the invariant. *)
Require Import V.Base.MachineInt.
Require Import V.Generated.GenConsts.
Require Import V.Model.Descriptor.
Require Import V.Model.LogBase.
Require Import V.Model.LogDelta.
Require Import V.Model.Appender.
Require Import V.Model.Publication.
Require Import V.Proofs.DescriptorProofs.
Require Import V.Proofs.AppenderProofs.
Require Import V.Proofs.PublicationProofs.
Require Import V.Proofs.BulkProofs.
Require Import V.Proofs.C04Proofs.
Require Import V.Oracle.C04Oracle.
From Coq Require Import ZifyBool.
Open Scope Z_scope.

Definition geom_of (l : log) (n0 off0 : Z) : geom := mkGeom (l_tlen l) (l_mtu l) (l_init l) n0 off0 (l_session l) (l_stream l).
Definition env_of (s : pubstate) : env := mkEnv (l_limit (ps_log s)) (l_connected (ps_log s)) (ps_closed s).
Definition kind_of (o : op) : akind := match o with Claim _ => KClaim | Bulk _ => KBulk | _ => KOffer end.

(* ---- reading a delta observation ---- *)
Lemma d_count_delta a b : d_count (log_delta a b) = l_count b. Proof. reflexivity. Qed.
Lemma d_tail_delta a b i : 0 <= i < 3 -> d_tail (log_delta a b) i = tail b i.
Proof. intros H. assert (Hc : i = 0 \/ i = 1 \/ i = 2) by lia. destruct Hc as [-> | [-> | ->]]; reflexivity. Qed.
Lemma tails_delta a b : snd (fst (log_delta a b)) = [l_t0 b; l_t1 b; l_t2 b]. Proof. reflexivity. Qed.

Lemma list3_eqb_refl a b c : list_eqb Z.eqb [a; b; c] [a; b; c] = true.
Proof. cbn. rewrite !Z.eqb_refl. reflexivity. Qed.

Lemma out_eqb_ok a : out_eqb (Ok a) (Ok a) = true. Proof. cbn. apply Z.eqb_refl. Qed.

(* ---- the oracle's numbers are the model's numbers ---- *)
Lemma required_geom l n0 off0 len : required (geom_of l n0 off0) len = required_spec len (max_payload_length l).
Proof. reflexivity. Qed.

Lemma too_long_geom l n0 off0 o : legal l -> is_append o = true ->
  too_long (geom_of l n0 off0) (kind_of o) (op_len o) = op_too_long l o.
Proof. intros Hl Ha. pose proof (legal_tlen l Hl) as [Htl _].
  destruct o; try discriminate; cbn [kind_of op_len op_too_long too_long]; try reflexivity;
    unfold g_maxmsg, max_message_length, geom_of; cbn [g_tlen]; rewrite Z.quot_div_nonneg by lia; reflexivity. Qed.

Section Flow.
Variables (m : mode) (rv : Z -> Z -> list Z -> Z) (s : pubstate) (n off : Z).
Hypothesis Hinv : pub_inv n off s.
Variables (s0 : pubstate) (r0 : outcome Z) (n0 off0 : Z).
Local Notation l := (ps_log s).
Local Notation g := (geom_of (ps_log s) n0 off0).
Local Notation P := (pub_obs m s0 s r0).

Lemma p_count : d_count (o_dump P) = n.
Proof. unfold pub_obs, o_dump. cbn [fst snd]. rewrite d_count_delta. apply (pi_count _ _ _ Hinv). Qed.
Lemma p_active : active (o_dump P) = n mod 3.
Proof. unfold active. rewrite p_count. reflexivity. Qed.
Lemma p_tail i : 0 <= i < 3 -> d_tail (o_dump P) i = tail l i.
Proof. intros H. unfold pub_obs, o_dump. cbn [fst snd]. apply d_tail_delta. assumption. Qed.
Lemma p_tail_off : tail_off (o_dump P) = off.
Proof. unfold tail_off. rewrite p_active. rewrite p_tail by apply mod3_range. rewrite (pi_tail _ _ _ Hinv).
  pose proof (inv_off_bound s n off Hinv) as [Hob _]. apply raw_mod. unfold two32. lia. Qed.
Lemma p_tail_tid : tail_tid (o_dump P) = wrap32 (l_init l + n).
Proof. unfold tail_tid. rewrite p_active. rewrite p_tail by apply mod3_range. rewrite (pi_tail _ _ _ Hinv).
  pose proof (inv_off_bound s n off Hinv) as [Hob _].
  pose proof (raw_tid (wrap32 (l_init l + n)) off (wrap32_range _) ltac:(unfold two32; lia)) as H.
  unfold term_id_of, shr64 in H. change (2 ^ 32) with two32 in H. exact H. Qed.

Lemma flow_positions c b q : o_pos P = Ok b -> o_pos c = Ok q -> b <= q <= l_tlen l * two31 ->
  match o_pos P, o_pos c with
  | Ok b, Ok q => (b <=? q) && (q <=? g_maxpos g)
  | Err Closed, Err Closed => e_closed (env_of s)
  | _, _ => false
  end = true.
Proof. intros -> -> H. unfold g_maxpos, geom_of. cbn [g_tlen]. lia. Qed.

(* the state did not change (refusals): result r *)
Lemma flow_same_state o r : op_ok l o -> is_append o = true ->
  (ps_closed s = true /\ (r = Err Closed \/ (r = Err TooLong /\ op_too_long l o = true /\ kind_of o = KClaim))) \/
  (ps_closed s = false /\
   ((r = Err TooLong /\ op_too_long l o = true /\ (kind_of o = KClaim \/ n * l_tlen l + off < l_limit l)) \/
    (l_limit l <= n * l_tlen l + off /\ r = Err (status_of l (n * l_tlen l + off) (op_len o)) /\
     (kind_of o = KClaim -> op_too_long l o = false)))) ->
  flow_append g (env_of s) (kind_of o) (op_len o) P (pub_obs m s s r) = true.
Proof. intros Hok Ha Hcase.
  pose proof (pi_legal _ _ _ Hinv) as Hleg. pose proof (inv_off_bound s n off Hinv) as [Hob Htl].
  pose proof (pi_n _ _ _ Hinv) as Hn. pose proof (pi_off _ _ _ Hinv) as Hoff.
  assert (Hlen : 0 <= op_len o).
  { destruct o; cbn [op_len op_ok] in *; try lia; [apply zlen_nonneg|apply total_nonneg]. }
  assert (Hmeta : forall r', same_meta_obs P (pub_obs m s s r') = true).
  { intros r'. unfold same_meta_obs, pub_obs, o_dump, o_pos. cbn [fst snd]. rewrite !d_count_delta, !tails_delta.
    rewrite Z.eqb_refl, list3_eqb_refl. cbn [andb].
    destruct (ps_closed s) eqn:Ec.
    - unfold pub_position. rewrite Ec. reflexivity.
    - rewrite (pub_position_spec m s n off Hinv Ec). apply out_eqb_ok. }
  assert (Hpc : o_pos (pub_obs m s s r) = o_pos P) by reflexivity.
  assert (Hres : o_res (pub_obs m s s r) = r) by reflexivity.
  unfold flow_append. rewrite Hres, Hpc. rewrite (too_long_geom l n0 off0 o Hleg Ha).
  destruct Hcase as [(Hc & Hr) | (Hc & Hr)].
  - (* closed *)
    assert (Hp : o_pos P = Err Closed) by (unfold pub_obs, o_pos; cbn [snd]; unfold pub_position; rewrite Hc; reflexivity).
    rewrite Hp. cbn [env_of e_closed]. rewrite Hc.
    destruct Hr as [-> | (-> & Htl2 & Hk)]; cbn [andb]; rewrite (Hmeta _); [reflexivity|]. rewrite Htl2, Hk. reflexivity.
  - assert (Hp : o_pos P = Ok (spec_pos l n off)).
    { unfold pub_obs, o_pos. cbn [snd]. apply pub_position_spec; assumption. }
    rewrite Hp. cbn [env_of e_closed e_limit e_connected]. rewrite Hc.
    pose proof (spec_pos_range s n off Hinv) as Hsr.
    assert (Hfin : (spec_pos l n off <=? spec_pos l n off) && (spec_pos l n off <=? g_maxpos g) = true).
    { unfold g_maxpos, geom_of. cbn [g_tlen]. lia. }
    rewrite Hfin.
    destruct Hr as [(-> & Htl2 & Hk) | (Hlim & -> & Hk)].
    + rewrite (Hmeta _), Htl2. cbn [andb negb]. destruct Hk as [-> | Hk]; [reflexivity|].
      assert (E : (spec_pos l n off <? l_limit l) = true) by (unfold spec_pos; lia). rewrite E.
      destruct (kind_of o); reflexivity.
    + rewrite (status_of_spec s n off _ Hinv Hlen).
      assert (Href : refusal g (env_of s) (kind_of o) (op_len o) (spec_pos l n off) = status_of l (spec_pos l n off) (op_len o)).
      { unfold refusal. destruct (kind_of o) eqn:Ek; try reflexivity.
        rewrite <- Ek. rewrite (too_long_geom l n0 off0 o Hleg Ha). rewrite (Hk eq_refl). reflexivity. }
      unfold status_of at 1.
      destruct (l_tlen l * two31 <=? spec_pos l n off + op_len o) eqn:Emax.
      * (* MaxPositionExceeded *)
        cbn [negb andb]. destruct (l_limit l <=? spec_pos l n off) eqn:El.
        -- rewrite (Hmeta _), Href. unfold status_of. rewrite Emax. reflexivity.
        -- (* position() below the limit, raw tail beyond it: only in the last term, after a trip *)
           assert (Hlast : n = two31 - 1 /\ l_tlen l < off) by (unfold spec_pos in *; lia).
           rewrite p_count, p_tail_off. rewrite (Hmeta _).
           assert (E1 : (n =? two31 - 1) = true) by lia. assert (E2 : (l_tlen l <? off) = true) by lia.
           unfold geom_of at 1. cbn [g_tlen]. rewrite E1, E2. reflexivity.
      * assert (Hin : off <= l_tlen l) by (unfold spec_pos, two31 in *; nia).
        assert (El : (l_limit l <=? spec_pos l n off) = true) by (unfold spec_pos; lia).
        destruct (l_connected l) eqn:Ecn; cbn [negb andb]; rewrite (Hmeta _), El, Href; unfold status_of; rewrite Emax, Ecn; reflexivity.
Qed.

(* observations of a following state s' *)
Lemma c_tail s' r i : 0 <= i < 3 -> d_tail (o_dump (pub_obs m s s' r)) i = tail (ps_log s') i.
Proof. intros H. unfold pub_obs, o_dump. cbn [fst snd]. apply d_tail_delta. assumption. Qed.
Lemma c_count s' r : d_count (o_dump (pub_obs m s s' r)) = l_count (ps_log s'). Proof. reflexivity. Qed.

Lemma mod3_succ : (n mod 3 + 1) mod 3 = (n + 1) mod 3 /\ (n mod 3 + 2) mod 3 = (n + 2) mod 3.
Proof. split; rewrite Zplus_mod_idemp_l; reflexivity. Qed.

Lemma c_pos s' r : o_pos (pub_obs m s s' r) = pub_position m s'. Proof. reflexivity. Qed.
Lemma c_res s' r : o_res (pub_obs m s s' r) = r. Proof. reflexivity. Qed.
End Flow.

(* ---- the three state-changing cases, on abstract observations ---- *)
Lemma flow_accept_abs g e k len p c b np :
  o_res c = Ok np -> o_pos p = Ok b -> o_pos c = Ok np -> e_closed e = false -> too_long g k len = false ->
  b < e_limit e -> np = b + required g len -> b <= np <= g_maxpos g ->
  pos_off g (o_dump p) b + required g len <= g_tlen g ->
  tails_advanced (o_dump p) (o_dump c) (pos_off g (o_dump p) b) (required g len) = true ->
  d_count (o_dump c) = d_count (o_dump p) ->
  flow_append g e k len p c = true.
Proof. intros Hr Hp Hc Hcl Htl Hlim Hnp Hmax Hfit Hta Hcnt.
  unfold flow_append. rewrite Hr, Hp, Hc, Hcl, Htl, Hta, Hcnt. cbn [negb andb out_eqb]. lia. Qed.

Lemma flow_trip_abs g e k len p c b :
  o_res c = Err AdminAction -> o_pos p = Ok b -> o_pos c = Ok ((d_count (o_dump p) + 1) * g_tlen g) ->
  e_closed e = false -> too_long g k len = false -> b < e_limit e ->
  pos_off g (o_dump p) b = tail_off (o_dump p) -> g_tlen g < tail_off (o_dump p) + required g len ->
  d_count (o_dump c) = d_count (o_dump p) + 1 -> d_count (o_dump p) < two31 - 1 ->
  d_tail (o_dump c) (active (o_dump p)) = d_tail (o_dump p) (active (o_dump p)) + required g len ->
  d_tail (o_dump c) ((active (o_dump p) + 1) mod 3) = wrap32 (tail_tid (o_dump p) + 1) * two32 ->
  d_tail (o_dump c) ((active (o_dump p) + 2) mod 3) = d_tail (o_dump p) ((active (o_dump p) + 2) mod 3) ->
  b <= (d_count (o_dump p) + 1) * g_tlen g <= g_maxpos g ->
  flow_append g e k len p c = true.
Proof. intros Hr Hp Hc Hcl Htl Hlim Hpo Htrip Hcnt Hn Ht0 Ht1 Ht2 Hmax.
  unfold flow_append. rewrite Hr, Hp, Hc, Hcl, Htl, Hpo, Hcnt, Ht0, Ht1, Ht2. cbn [negb andb out_eqb]. lia. Qed.

Lemma flow_last_abs g e k len p c b q :
  o_res c = Err MaxPositionExceeded -> o_pos p = Ok b -> o_pos c = Ok q -> (q = g_maxpos g \/ q = b) ->
  e_closed e = false -> too_long g k len = false -> b < e_limit e ->
  d_count (o_dump p) = two31 - 1 -> g_tlen g < pos_off g (o_dump p) b + required g len ->
  d_count (o_dump c) = d_count (o_dump p) ->
  (d_tail (o_dump c) (active (o_dump p)) = d_tail (o_dump p) (active (o_dump p)) + required g len \/
   d_tail (o_dump c) (active (o_dump p)) = d_tail (o_dump p) (active (o_dump p)) - tail_off (o_dump p) + pos_off g (o_dump p) b + required g len) ->
  d_tail (o_dump c) ((active (o_dump p) + 1) mod 3) = d_tail (o_dump p) ((active (o_dump p) + 1) mod 3) ->
  d_tail (o_dump c) ((active (o_dump p) + 2) mod 3) = d_tail (o_dump p) ((active (o_dump p) + 2) mod 3) ->
  b <= q <= g_maxpos g ->
  flow_append g e k len p c = true.
Proof. intros Hr Hp Hc Hq Hcl Htl Hlim Hlast Htrip Hcnt Ht0 Ht1 Ht2 Hmax.
  unfold flow_append. rewrite Hr, Hp, Hc, Hcl, Htl, Hcnt, Ht1, Ht2. cbn [negb andb out_eqb].
  assert (E : (e_limit e <=? b) = false) by lia. rewrite E.
  destruct Ht0 as [Ht0 | Ht0]; rewrite Ht0; destruct Hq as [-> | ->]; lia. Qed.

(* ---- every offer / claim / bulk offer of the shared publication ---- *)
Lemma pub_step_cases2 m rv s n off o : pub_inv n off s -> op_ok (ps_log s) o -> is_append o = true ->
  (exists len, o = Claim len /\ max_payload_length (ps_log s) < len /\ pub_step m rv s o = (s, Err TooLong)) \/
  (try_result s n off (op_required (ps_log s) o) (op_len o) (op_too_long (ps_log s) o) (pub_step m rv s o) /\
   (kind_of o = KClaim -> op_too_long (ps_log s) o = false)).
Proof. intros Hinv Hok Ha. destruct o; try discriminate; cbn [pub_step op_ok] in *.
  - right. split; [apply pub_offer_cases; assumption|discriminate].
  - pose proof (pub_claim_cases m s n off Hinv len Hok) as T. cbn [op_too_long].
    destruct (max_payload_length (ps_log s) <? len) eqn:E.
    + left. exists len. repeat split; [lia|exact T].
    + right. split; [exact T|reflexivity].
  - right. split; [apply pub_bulk_cases; assumption|discriminate]. Qed.

Theorem oracle_flow_shared m rv s n off o s0 r0 n0 off0 :
  pub_inv n off s -> op_ok (ps_log s) o -> is_append o = true ->
  flow_append (geom_of (ps_log s) n0 off0) (env_of s) (kind_of o) (op_len o)
              (pub_obs m s0 s r0) (pub_obs m s (fst (pub_step m rv s o)) (snd (pub_step m rv s o))) = true.
Proof. intros Hinv Hok Ha.
  pose proof (pi_legal _ _ _ Hinv) as Hleg. pose proof (inv_off_bound s n off Hinv) as [Hob Htlen].
  pose proof (pi_n _ _ _ Hinv) as Hn. pose proof (pi_off _ _ _ Hinv) as Hoff.
  pose proof (mod3_range n) as M0. pose proof (mod3_range (n+1)) as M1. pose proof (mod3_range (n+2)) as M2.
  pose proof (mod3_distinct n) as (D1 & D2 & D3).
  destruct (mod3_succ n) as [S1 S2].
  destruct (pub_step_cases2 m rv s n off o Hinv Hok Ha) as [(len & -> & Hgt & E) | [T Hclaim]].
  { rewrite E. cbn [fst snd]. apply (flow_same_state m s n off Hinv s0 r0 n0 off0 (Claim len) (Err TooLong) Hok Ha).
    assert (Htl : op_too_long (ps_log s) (Claim len) = true) by (cbn; lia).
    destruct (ps_closed s) eqn:Ec; [left|right]; (split; [reflexivity|]).
    - right. auto.
    - left. split; [reflexivity|]. split; [exact Htl|]. left. reflexivity. }
  remember (pub_step m rv s o) as sr eqn:Esr.
  assert (Hlen : 0 <= op_len o).
  { destruct o; cbn [op_len op_ok] in *; try lia; [apply zlen_nonneg|apply total_nonneg]. }
  inversion T; subst sr; match goal with H : _ = pub_step m rv s o |- _ => try rewrite <- H in T; try rewrite <- H end; cbn [fst snd].
  - (* closed *) apply (flow_same_state m s n off Hinv s0 r0 n0 off0 o _ Hok Ha). left. auto.
  - (* refused *) apply (flow_same_state m s n off Hinv s0 r0 n0 off0 o _ Hok Ha). right. split; [assumption|]. right. auto.
  - (* too long *) apply (flow_same_state m s n off Hinv s0 r0 n0 off0 o _ Hok Ha). right. split; [assumption|]. left.
    split; [reflexivity|]. split; [congruence|]. right. assumption.
  - (* accepted *)
    pose proof (p_count m s n off Hinv s0 r0) as Pc. pose proof (p_active m s n off Hinv s0 r0) as Pa.
    pose proof (p_tail_off m s n off Hinv s0 r0) as Pto. pose proof (p_tail_tid m s n off Hinv s0 r0) as Ptt.
    pose proof (pi_count _ _ _ Hinv) as Hcount. pose proof (pi_tail _ _ _ Hinv) as Htail.
    match goal with H : op_too_long _ _ = false |- _ => rename H into Htl end.
    assert (Hreq := required_ok s n off o Hinv Hok Ha Htl).
    destruct (try_result_inv s n off _ _ _ s' _ Hinv Hreq T) as (Hg & _ & _ & Hinv').
    assert (Hpos' : pub_position m s' = Ok (n * l_tlen (ps_log s) + off + op_required (ps_log s) o)).
    { rewrite (pub_position_spec m s' n _ Hinv') by assumption. destruct Hg as (_ & G2 & _). unfold spec_pos. rewrite <- G2. f_equal. lia. }
    assert (Hp : o_pos (pub_obs m s0 s r0) = Ok (n * l_tlen (ps_log s) + off)).
    { unfold pub_obs, o_pos. cbn [snd]. rewrite (pub_position_spec m s n off Hinv) by assumption. unfold spec_pos. f_equal. lia. }
    apply (flow_accept_abs _ _ _ _ _ _ (n * l_tlen (ps_log s) + off) (n * l_tlen (ps_log s) + off + op_required (ps_log s) o)).
    + reflexivity.
    + exact Hp.
    + rewrite c_pos. exact Hpos'.
    + assumption.
    + rewrite (too_long_geom _ n0 off0 o Hleg Ha). exact Htl.
    + cbn [env_of e_limit]. lia.
    + rewrite required_geom. reflexivity.
    + unfold g_maxpos, geom_of. cbn [g_tlen]. unfold two31 in *. nia.
    + unfold pos_off. rewrite Pc. rewrite required_geom. fold (op_required (ps_log s) o). unfold geom_of. cbn [g_tlen]. lia.
    + unfold tails_advanced, pos_off. rewrite Pa, Pc, Pto. rewrite S1, S2.
      rewrite !p_tail by assumption.
      rewrite required_geom. fold (op_required (ps_log s) o).
      match goal with Hlog : ps_log s' = _ |- _ => rewrite Hlog end.
      rewrite !tail_set_part. rewrite tail_set_tail_same by assumption. rewrite !tail_set_tail_other by auto.
      rewrite Htail. unfold geom_of. cbn [g_tlen]. lia.
    + rewrite c_count, Pc. apply (pi_count _ _ _ Hinv').
  - (* end of term, rotation *)
    pose proof (p_count m s n off Hinv s0 r0) as Pc. pose proof (p_active m s n off Hinv s0 r0) as Pa.
    pose proof (p_tail_off m s n off Hinv s0 r0) as Pto. pose proof (p_tail_tid m s n off Hinv s0 r0) as Ptt.
    pose proof (pi_count _ _ _ Hinv) as Hcount. pose proof (pi_tail _ _ _ Hinv) as Htail.
    match goal with H : op_too_long _ _ = false |- _ => rename H into Htl end.
    assert (Hreq := required_ok s n off o Hinv Hok Ha Htl).
    destruct (try_result_inv s n off _ _ _ s' _ Hinv Hreq T) as (Hg & _ & _ & Hinv').
    assert (Hoffle : off <= l_tlen (ps_log s)) by lia.
    assert (Hp : o_pos (pub_obs m s0 s r0) = Ok (n * l_tlen (ps_log s) + off)).
    { unfold pub_obs, o_pos. cbn [snd]. rewrite (pub_position_spec m s n off Hinv) by assumption. unfold spec_pos. f_equal. lia. }
    match goal with Hlog : ps_log s' = _ |- _ => rename Hlog into Hlog' end.
    apply (flow_trip_abs _ _ _ _ _ _ (n * l_tlen (ps_log s) + off)).
    + reflexivity.
    + exact Hp.
    + rewrite c_pos, Pc. rewrite (pub_position_spec m s' (n + 1) 0 Hinv') by assumption. destruct Hg as (_ & G2 & _).
      unfold spec_pos, geom_of. cbn [g_tlen]. rewrite <- G2. f_equal. lia.
    + assumption.
    + rewrite (too_long_geom _ n0 off0 o Hleg Ha). exact Htl.
    + cbn [env_of e_limit]. lia.
    + unfold pos_off. rewrite Pc, Pto. unfold geom_of. cbn [g_tlen]. ring.
    + rewrite Pto, required_geom. unfold geom_of. cbn [g_tlen]. assumption.
    + rewrite c_count, Pc. apply (pi_count _ _ _ Hinv').
    + rewrite Pc. assumption.
    + rewrite Pa. rewrite !p_tail by assumption. rewrite required_geom. fold (op_required (ps_log s) o).
      rewrite Hlog'. rewrite tail_rotated by assumption. assert (E0 : (n mod 3 =? (n + 1) mod 3) = false) by lia. rewrite E0.
      rewrite tail_bumped by assumption. rewrite Z.eqb_refl. rewrite Htail. ring.
    + rewrite Pa, Ptt, S1. rewrite !p_tail by assumption. rewrite Hlog'. rewrite tail_rotated by assumption. rewrite Z.eqb_refl.
      destruct (bumped_fields (ps_log s) n off (op_required (ps_log s) o)) as (_ & _ & _ & (B1 & _)). rewrite <- B1.
      rewrite wrap32_add_wrap32. reflexivity.
    + rewrite Pa, S2. rewrite !p_tail by assumption. rewrite Hlog'. rewrite tail_rotated by assumption.
      assert (E0 : ((n + 2) mod 3 =? (n + 1) mod 3) = false) by lia. rewrite E0.
      rewrite tail_bumped by assumption. assert (E1 : ((n + 2) mod 3 =? n mod 3) = false) by lia. rewrite E1. reflexivity.
    + rewrite Pc. unfold g_maxpos, geom_of. cbn [g_tlen]. unfold two31 in *. nia.
  - (* end of the last term *)
    pose proof (p_count m s n off Hinv s0 r0) as Pc. pose proof (p_active m s n off Hinv s0 r0) as Pa.
    pose proof (p_tail_off m s n off Hinv s0 r0) as Pto. pose proof (p_tail_tid m s n off Hinv s0 r0) as Ptt.
    pose proof (pi_count _ _ _ Hinv) as Hcount. pose proof (pi_tail _ _ _ Hinv) as Htail.
    match goal with H : op_too_long _ _ = false |- _ => rename H into Htl end.
    assert (Hreq := required_ok s n off o Hinv Hok Ha Htl).
    destruct (try_result_inv s n off _ _ _ s' _ Hinv Hreq T) as (Hg & _ & _ & [Hsame | (Hlast & Hinv')]).
    { (* s' = s cannot be: the tail moved *) exfalso. subst s'.
      match goal with Hlog : ps_log s = bumped _ _ _ _ |- _ => pose proof (f_equal (fun x => tail x (n mod 3)) Hlog) as Hc end.
      cbn beta in Hc. rewrite tail_bumped in Hc by assumption. rewrite Z.eqb_refl in Hc. rewrite Htail in Hc. lia. }
    match goal with Hlog : ps_log s' = _ |- _ => rename Hlog into Hlog' end.
    assert (Hp : o_pos (pub_obs m s0 s r0) = Ok (spec_pos (ps_log s) n off)).
    { unfold pub_obs, o_pos. cbn [snd]. apply pub_position_spec; assumption. }
    destruct Hg as (_ & G2 & _).
    assert (Hq : pub_position m s' = Ok (l_tlen (ps_log s) * two31)).
    { rewrite (pub_position_spec m s' n _ Hinv') by assumption. unfold spec_pos. rewrite <- G2. f_equal. unfold two31 in *. lia. }
    pose proof (spec_pos_range s n off Hinv) as Hsr.
    apply (flow_last_abs _ _ _ _ _ _ (spec_pos (ps_log s) n off) (l_tlen (ps_log s) * two31)).
    + reflexivity.
    + exact Hp.
    + rewrite c_pos. exact Hq.
    + left. reflexivity.
    + assumption.
    + rewrite (too_long_geom _ n0 off0 o Hleg Ha). exact Htl.
    + cbn [env_of e_limit]. unfold spec_pos. lia.
    + rewrite Pc. lia.
    + unfold pos_off. rewrite Pc, required_geom. fold (op_required (ps_log s) o). unfold geom_of, spec_pos. cbn [g_tlen]. lia.
    + rewrite c_count, Pc. apply (pi_count _ _ _ Hinv').
    + left. rewrite Pa. rewrite !p_tail by assumption. rewrite required_geom. fold (op_required (ps_log s) o).
      rewrite Hlog'. rewrite tail_bumped by assumption. rewrite Z.eqb_refl. rewrite Htail. ring.
    + rewrite Pa, S1. rewrite !p_tail by assumption. rewrite Hlog'. rewrite tail_bumped by assumption.
      assert (E1 : ((n + 1) mod 3 =? n mod 3) = false) by lia. rewrite E1. reflexivity.
    + rewrite Pa, S2. rewrite !p_tail by assumption. rewrite Hlog'. rewrite tail_bumped by assumption.
      assert (E1 : ((n + 2) mod 3 =? n mod 3) = false) by lia. rewrite E1. reflexivity.
    + unfold g_maxpos, geom_of. cbn [g_tlen]. lia.
Qed.

(* ---- the words part on refusals: nothing changed, so no word of any partition is reported ---- *)
Lemma words_diff_refl w : words_diff w w = [].
Proof. induction w as [|[o v] w IH]; [reflexivity|]. cbn [words_diff]. rewrite !Z.eqb_refl. exact IH. Qed.

Lemma no_words_same l : no_words (log_delta l l) = true.
Proof. unfold no_words, log_delta. cbn [snd forallb]. rewrite !words_diff_refl. reflexivity. Qed.

Theorem oracle_words_refusal m rv s n off o s0 r0 n0 off0 e :
  pub_inv n off s -> op_ok (ps_log s) o -> is_append o = true ->
  snd (pub_step m rv s o) = Err e -> (e = BackPressured \/ e = NotConnected \/ e = Closed \/ e = TooLong) ->
  words_append (geom_of (ps_log s) n0 off0) (kind_of o) (op_len o)
               (pub_obs m s0 s r0) (pub_obs m s (fst (pub_step m rv s o)) (snd (pub_step m rv s o))) = true.
Proof. intros Hinv Hok Ha Hr He. destruct (pub_step m rv s o) as [s' r] eqn:Es. cbn [fst snd] in *. subst r.
  assert (Hs : s' = s) by (eapply pub_refuse_pure; eassumption). subst s'.
  unfold words_append. rewrite c_res. unfold pub_obs at 2. unfold o_dump. cbn [fst snd].
  destruct He as [-> | [-> | [-> | ->]]]; apply no_words_same. Qed.

(* a whole refusal step satisfies the complete per-step predicate *)
Theorem oracle_step_refusal m rv s n off o s0 r0 n0 off0 e :
  pub_inv n off s -> op_ok (ps_log s) o -> is_append o = true ->
  snd (pub_step m rv s o) = Err e -> (e = BackPressured \/ e = NotConnected \/ e = Closed \/ e = TooLong) ->
  holds_append (geom_of (ps_log s) n0 off0) (env_of s) (kind_of o) (op_len o)
               (pub_obs m s0 s r0) (pub_obs m s (fst (pub_step m rv s o)) (snd (pub_step m rv s o))) = true.
Proof. intros Hinv Hok Ha Hr He. unfold holds_append.
  rewrite (oracle_flow_shared m rv s n off o s0 r0 n0 off0 Hinv Hok Ha).
  rewrite (oracle_words_refusal m rv s n off o s0 r0 n0 off0 e Hinv Hok Ha Hr He). reflexivity. Qed.

(* ---- the words part on the end-of-term trip: exactly one padding frame ----
   needs the active partition's content to end where its tail counter says (true at hand-over and kept by every append
   as long as the driver cleans a partition before the log rotates into it) *)
Definition spans_nonneg (t : term) : Prop := Forall (fun e => 0 <= entry_span e) t.
Definition content_ok (l : log) (n off : Z) : Prop :=
  term_end (part l (n mod 3)) = off /\ spans_nonneg (part l (n mod 3)).

Lemma render_from_app t : forall o es, render_from o (t ++ es) = render_from o t ++ render_from (o + term_end t) es.
Proof. induction t as [|e t IH]; intros o es.
  - cbn. rewrite Z.add_0_r. reflexivity.
  - destruct e as [f|f|k]; cbn [app render_from term_end entry_span]; rewrite IH; rewrite ?app_assoc_reverse; rewrite Z.add_assoc; reflexivity. Qed.

Lemma words_diff_app a b : words_diff a (a ++ b) = b.
Proof. induction a as [|[o v] a IH]; [destruct b; reflexivity|]. cbn [app words_diff]. rewrite !Z.eqb_refl. exact IH. Qed.

Lemma term_truncate_all t : spans_nonneg t -> term_truncate t (term_end t) = t.
Proof. induction t as [|e t IH]; intros H; [reflexivity|]. inversion H as [|? ? He Ht]; subst. cbn [term_truncate term_end].
  assert (Hte : 0 <= term_end t). { clear IH H. induction Ht as [|x r Hx Hr IHr]; cbn [term_end]; lia. }
  assert (E : (entry_span e <=? entry_span e + term_end t) = true) by lia. rewrite E.
  replace (entry_span e + term_end t - entry_span e) with (term_end t) by ring. rewrite IH by assumption. reflexivity. Qed.

Lemma term_put_end t es : spans_nonneg t -> term_put t (term_end t) es = t ++ es.
Proof. intros H. unfold term_put. rewrite term_truncate_all by assumption. rewrite Z.sub_diag. reflexivity. Qed.

Lemma term_put_at t off es : term_end t = off -> spans_nonneg t -> term_put t off es = t ++ es.
Proof. intros <- H. apply term_put_end. assumption. Qed.

Lemma part_cases l i : 0 <= i < 3 -> part l i = nth (Z.to_nat i) [l_p0 l; l_p1 l; l_p2 l] [].
Proof. intros H. assert (Hc : i = 0 \/ i = 1 \/ i = 2) by lia. destruct Hc as [-> | [-> | ->]]; reflexivity. Qed.

Lemma d_part_delta a b i : 0 <= i < 3 -> d_part (log_delta a b) i = words_diff (render_term (part a i)) (render_term (part b i)).
Proof. intros H. assert (Hc : i = 0 \/ i = 1 \/ i = 2) by lia. destruct Hc as [-> | [-> | ->]]; reflexivity. Qed.

Lemma list_eqb_refl_words (w : words) : words_eqb w w = true.
Proof. induction w as [|[a b] w IH]; [reflexivity|]. cbn. unfold pair_eqb. cbn. rewrite !Z.eqb_refl. exact IH. Qed.

Theorem oracle_words_trip m rv s n off o s0 r0 n0 off0 e :
  pub_inv n off s -> content_ok (ps_log s) n off -> op_ok (ps_log s) o -> is_append o = true ->
  snd (pub_step m rv s o) = Err e -> fst (pub_step m rv s o) <> s ->
  tripped_words (geom_of (ps_log s) n0 off0) (o_dump (pub_obs m s0 s r0))
                (o_dump (pub_obs m s (fst (pub_step m rv s o)) (snd (pub_step m rv s o)))) = true.
Proof. intros Hinv (Hend & Hsp) Hok Ha Hr Hne.
  destruct (pub_step m rv s o) as [s' r] eqn:Es. cbn [fst snd] in *. subst r.
  destruct (pub_trip m rv s n off o s' e Hinv Hok Ha Es Hne) as (_ & _ & _ & _ & _ & _ & Hcase).
  pose proof (pi_n _ _ _ Hinv) as Hn.
  pose proof (mod3_range n) as M0. pose proof (mod3_range (n+1)) as M1. pose proof (mod3_range (n+2)) as M2.
  pose proof (mod3_distinct n) as (D1 & D2 & D3). destruct (mod3_succ n) as [S1 S2].
  destruct (bumped_spec (ps_log s) n off (op_required (ps_log s) o) ltac:(lia)) as (_ & _ & _ & _ & B1 & B2 & B0).
  assert (Hparts : part (ps_log s') (n mod 3) = part (bumped (ps_log s) n off (op_required (ps_log s) o)) (n mod 3) /\
                   part (ps_log s') ((n + 1) mod 3) = part (ps_log s) ((n + 1) mod 3) /\
                   part (ps_log s') ((n + 2) mod 3) = part (ps_log s) ((n + 2) mod 3)).
  { destruct Hcase as [(_ & _ & Hlog & _) | (_ & _ & Hlog)]; rewrite Hlog; [|auto].
    change (part (rotated ?x n) ?i) with (part x i). auto. }
  destruct Hparts as (P0 & P1 & P2).
  unfold tripped_words. rewrite (p_active m s n off Hinv), (p_tail_off m s n off Hinv), (p_tail_tid m s n off Hinv). rewrite S1, S2.
  unfold pub_obs at 1 2 3. unfold o_dump. cbn [fst snd]. rewrite !d_part_delta by assumption.
  rewrite P0, P1, P2, B0. rewrite !words_diff_refl.
  assert (E0 : words_eqb [] [] = true) by reflexivity. rewrite E0, Bool.andb_true_r.
  unfold geom_of at 1. cbn [g_tlen].
  destruct (off <? l_tlen (ps_log s)) eqn:Eoff.
  - rewrite (term_put_at _ off _ Hend Hsp). unfold render_term. rewrite render_from_app. rewrite words_diff_app.
    rewrite Z.add_0_l, Hend. cbn [render_from]. rewrite !app_nil_r.
    rewrite Bool.andb_true_r. apply list_eqb_refl_words.
  - rewrite words_diff_refl. reflexivity.
Qed.
