(* C03, shared publishers + Image::poll subscriber: every trace follows the frame discipline; the executable race detector
   finds no race in it. *)
Require Import V.Base.MachineInt.
Require Import V.Generated.GenConsts.
Require Import V.Generated.GenOrdering.
Require Import V.Model.LogBase.
Require Import V.Model.Descriptor.
Require Import V.Proofs.DescriptorProofs.
Require Import V.Model.Sched.
Require Import V.Model.AppenderThreads.
Require Import V.Model.ReaderThreads.
Require Import V.Oracle.C03Oracle.
Require Import V.Proofs.OrderingProofs.
Require Import V.Proofs.TailArith.
Require Import V.Proofs.FragArith.
Require Import V.Proofs.AppenderInv.
Require Import V.Proofs.AppenderLemmas.
Require Import V.Proofs.AppenderFrame.
Require Import V.Proofs.AppenderSteps.
Require Import V.Proofs.AppenderSystem.
Require Import V.Proofs.C02Proofs.
Require Import V.Proofs.C02Quiescent.
Require Import V.Proofs.ReaderInv.
Require Import V.Proofs.C03Proofs.
Require Import V.Proofs.ReaderHb.
Require Import V.Proofs.RaceFold V.Proofs.RaceDisc V.Proofs.RaceFree.
Require Import V.Proofs.ExclDefs V.Proofs.ExclPub1 V.Proofs.ExclEv.
Require Import V.Proofs.ShGeom V.Proofs.ShEv V.Proofs.ShCoupl V.Proofs.ShPub V.Proofs.ShRd.
From Coq Require Import ZifyBool.
Open Scope Z_scope.

Section SRace.
  Variable c : cfg.
  Hypothesis W : wf_cfg c.

  Notation role_ok := (role_ok cls term_region).
  Notation disc := (disc cls term_region).

  (* frames of the generation of partition p start at or after its base, which is not negative *)
  Lemma frame_after_base s gh P p e o sl : AppInv c s gh P -> 0 <= p < 3 -> In e (g_claims gh (pgen c p)) -> In (o, sl) (efrags c (pgen c p) e) ->
    base c (pgen c p) <= o /\ 0 <= base c (pgen c p).
  Proof. intros I Hp He Ho. pose proof (iv_A c s gh P I) as A.
    destruct (iv_ent c s gh P I _ _ He) as (Hn0 & Ha & Ham & Hb & _).
    destruct (iv_chain_all c s gh A _ Hn0) as (hi & Hc & _). destruct (chain_le _ _ _ Hc) as (_ & CL). destruct (CL e He) as (C1 & _).
    pose proof (efrags_range c _ e o sl W Ha Ham Hb Ho) as (R1 & _).
    pose proof (wf_off0 c W) as (Ho0 & _). unfold base in *. destruct (_ =? _); lia. Qed.

  Lemma pgen_range p : 0 <= p < 3 -> c_n0 c <= pgen c p <= c_n0 c + 2 /\ pgen c p mod 3 = p.
  Proof. intros Hp. unfold pgen. pose proof (Z.mod_pos_bound (p - c_n0 c) 3 ltac:(lia)). split; [lia|].
    rewrite Zplus_mod_idemp_r. replace (c_n0 c + (p - c_n0 c)) with p by ring. apply Z.mod_small. assumption. Qed.

  Theorem rd_step_disc dg s th gh tr t l s' l' e :
    reach3t c s th gh tr -> th t = RRd l -> adm3 c s gh th t -> gens_ok c s -> rstep c t s l = Some (s', l', e) ->
    SCoupl c dg s gh th ->
    exists r, role_ok dg (narrow e) r /\ SCoupl c (role_upd dg (narrow e) r) s' gh (upd_thread th t (RRd l')).
  Proof. intros Hreach Eth Hadm Hg Er [C1 Cz C3 C4 C7 C8].
    pose proof (reach3t_reach3 c s th gh tr Hreach) as Hr. pose proof (reach3t_nc c s th gh tr Hreach) as NC.
    destruct (reach3_inv c W s th gh Hr) as [I Isub Ird Ione]. pose proof (Ird t l Eth) as (R1 & R2 & R3 & R4).
    destruct (rstep_event c t s l s' l' e Er) as (Htid & Hnar & Hmem & Hf). rewrite Hnar.
    set (th' := upd_thread th t (RRd l')).
    assert (Hoth : forall t0, t0 <> t -> th' t0 = th t0) by (intros; unfold th'; apply upd_other; assumption).
    (* everything about frames and writers is untouched by a subscriber step *)
    assert (Keep : forall dg', dg_slot dg' = dg_slot dg ->
              (forall p oa, dg_acq dg' p oa = true -> 0 <= p < 3 /\ 0 <= oa /\
                 (forall hi, chain (base c (pgen c p)) (g_claims gh (pgen c p)) hi -> oa <= hi) /\
                 (forall e0 o sl, In e0 (g_claims gh (pgen c p)) -> In (o, sl) (efrags c (pgen c p) e0) -> ~ (o < oa < o + align (s_len sl) FA))) ->
              (forall t0 l0, th' t0 = RRd l0 -> on_frame (r_pc l0) = true -> dg_seen dg' t0 (rd_gen c l0 mod 3) (r_foff l0) = true) ->
              SCoupl c dg' s' gh th').
    { intros dg' Es Ka Ks. constructor; try assumption.
      - intros p0 o0 d0 Hs0. rewrite Es in Hs0. rewrite Hmem. eauto.
      - intros p0 o0 d0 Hs0. rewrite Es in Hs0. rewrite Hmem. eauto.
      - intros p0 o0 Hp0 Hl0. rewrite Es. rewrite Hmem in Hl0. auto.
      - intros t0 l0 k0 p0 o0 Ht0 Ha0 Hk0. destruct (Nat.eq_dec t0 t) as [-> | Hne]; [unfold th' in Ht0; rewrite upd_same in Ht0; discriminate|].
        rewrite Hoth in Ht0 by assumption. rewrite Es. eauto. }
    assert (Hseen' : forall dg', (forall t0 p o, dg_seen dg t0 p o = true -> dg_seen dg' t0 p o = true) ->
              (on_frame (r_pc l') = true -> dg_seen dg' t (rd_gen c l' mod 3) (r_foff l') = true) ->
              forall t0 l0, th' t0 = RRd l0 -> on_frame (r_pc l0) = true -> dg_seen dg' t0 (rd_gen c l0 mod 3) (r_foff l0) = true).
    { intros dg' E1 E2 t0 l0 Ht0 Hon. destruct (Nat.eq_dec t0 t) as [-> | Hne].
      - unfold th' in Ht0. rewrite upd_same in Ht0. inversion Ht0; subst l0. auto.
      - rewrite Hoth in Ht0 by assumption. apply E1. eauto. }
    (* a plain read of the frame the subscriber is on *)
    assert (OnF : on_frame (r_pc l) = true -> forall acc, e_acc e = acc -> cls acc = CPlainR -> e_reg e = ReaderThreads.r_idx c l ->
              (32 <= r_flen l -> r_flen l <= align (r_flen l) FA -> 0 <= e_len e /\ r_foff l <= e_off e /\ e_off e + e_len e <= r_foff l + align (r_flen l) FA) ->
              (on_frame (r_pc l') = true -> r_pos l' = r_pos l /\ r_foff l' = r_foff l) ->
              exists r, role_ok dg e r /\ SCoupl c (role_upd dg e r) s' gh th').
    { intros Hon0 acc Hacc Hcls Hreg Hrng Hnext.
      destruct (R1 (on_frame_in_poll _ Hon0)) as (A1 & A2 & A3 & A4 & A5 & Hgu). rewrite Hon0 in Hgu. destruct Hgu as (G1 & _).
      destruct (R2 Hon0) as (L & B2 & B3 & B4 & B5 & B6 & e0 & He0 & Hin0).
      set (g := rd_gen c l) in *. set (p := ReaderThreads.r_idx c l) in *.
      assert (Hp : 0 <= p < 3) by (rewrite A3; apply Z.mod_pos_bound; lia).
      assert (Epg : pgen c p = g) by (rewrite A3; apply (live_pgen c s gh); [assumption | assumption | lia]).
      rewrite <- A3 in *.
      destruct (iv_ent c s gh _ I _ _ He0) as (_ & Ha0 & Ham0 & _). pose proof (efrags_len c W _ _ _ _ Ha0 Ham0 Hin0) as Hl32. rewrite B3 in Hl32.
      pose proof (align_pos (r_flen l) ltac:(lia)) as (Al & _). rewrite <- FA_32 in Al.
      destruct (Hrng Hl32 (proj1 Al)) as (Q1 & Q2 & Q3).
      destruct (dg_slot dg p (r_foff l)) as [d|] eqn:Es; [|exfalso; apply (C3 p (r_foff l) Hp ltac:(lia)); assumption].
      destruct (C1 _ _ _ Es) as (_ & e1 & sl1 & X1 & X2 & X3 & _). rewrite Epg in X1, X2.
      assert (Esl : s_len sl1 = r_flen l).
      { destruct (frames_disjoint c W s gh _ g e1 e0 _ sl1 _ _ I X1 He0 X2 Hin0) as [(_ & E) | [D | D]]; [rewrite E; assumption | exfalso | exfalso];
          rewrite ?B3 in D;
          (destruct (iv_ent c s gh _ I _ _ X1) as (_ & Ha & Ham & _); pose proof (efrags_len c W _ _ _ _ Ha Ham X2);
           pose proof (align_pos (s_len sl1) ltac:(lia)); rewrite FA_32 in *; lia). }
      rewrite Esl in X3.
      pose proof (C8 t l Eth Hon0) as Hseen. fold g in Hseen. rewrite <- A3 in Hseen.
      exists DRead. split.
      - cbn [RaceDisc.role_ok]. rewrite Hacc, Hreg, Htid. split; [apply region_of_part; assumption|]. split; [assumption|].
        split; [assumption|]. split.
        + intros b Hb. exists (r_foff l), d. rewrite X3. split; [assumption|]. split; [assumption | lia].
        + intros _. exists (r_foff l), d. rewrite X3. split; [assumption|]. split; [assumption | lia].
      - cbn [role_upd]. apply Keep; [reflexivity | exact C7|]. apply Hseen'; [auto|]. intros Hon. destruct (Hnext Hon) as (E1 & E2).
        unfold rd_gen. rewrite E1, E2. fold (rd_gen c l). fold g. rewrite <- A3. assumption. }
    unfold rfacts in Hf. destruct (r_pc l) eqn:Hpc.
    - (* RPos *) destruct Hf as (F1 & F2). exists DOther. split; [exact F1|]. cbn [role_upd].
      apply Keep; [reflexivity | exact C7 | apply Hseen'; [auto | rewrite F2; discriminate]].
    - (* RLen: the acquire read of a length word *)
      destruct Hf as (F1 & F2 & F3 & F4 & F5).
      destruct (R1 eq_refl) as (A1 & A2 & A3 & A4 & A5 & Hgu). cbn [on_frame] in Hgu.
      set (g := rd_gen c l) in *. set (p := ReaderThreads.r_idx c l) in *. set (o := r_off l) in *.
      destruct Hgu as (G1 & G2 & G3 & G4 & G5).
      assert (Hp : 0 <= p < 3) by (rewrite A3; apply Z.mod_pos_bound; lia).
      destruct (pgen_range p Hp) as (Pg1 & Pg2).
      assert (Hb0 : 0 <= base c g) by (pose proof (wf_off0 c W) as (X & _); unfold base; destruct (_ =? _); lia).
      (* the read is at a frame boundary: not strictly inside any frame of the partition, at or below the end of the claims *)
      assert (Hout : forall e0 o' sl', In e0 (g_claims gh (pgen c p)) -> In (o', sl') (efrags c (pgen c p) e0) -> ~ (o' < o < o' + align (s_len sl') FA)).
      { intros e0 o' sl' He0 Ho'. destruct (frame_after_base s gh _ p e0 o' sl' I Hp He0 Ho') as (B1 & B2).
        destruct (Z_lt_ge_dec (base c g) o) as [Hlt | Hge].
        - pose proof (G4 Hlt) as L. assert (Epg : pgen c p = g) by (rewrite A3; apply (live_pgen c s gh); [assumption | assumption | lia]).
          rewrite Epg in *. apply (tiles_not_inside c W s gh _ g o e0 o' sl' I L ltac:(lia) (base c g)); try assumption.
          apply G5. assumption.
        - assert (o = base c g) by lia. destruct (Z.eq_dec (pgen c p) g) as [Epg | Npg]; [rewrite Epg in *; lia|].
          assert (Hgn : g <> c_n0 c) by (intros E; apply Npg; rewrite A3; apply pgen_mod; lia).
          assert (base c g = 0) by (unfold base; destruct (g =? c_n0 c) eqn:E; [lia | reflexivity]). lia. }
      assert (Hhi : forall hi, chain (base c (pgen c p)) (g_claims gh (pgen c p)) hi -> o <= hi).
      { intros hi Hc. destruct (chain_le _ _ _ Hc) as (Cb & _).
        assert (Hbp : 0 <= base c (pgen c p)) by (pose proof (wf_off0 c W) as (X & _); unfold base; destruct (_ =? _); lia).
        destruct (Z_lt_ge_dec (base c g) o) as [Hlt | Hge].
        - pose proof (G4 Hlt) as L. assert (Epg : pgen c p = g) by (rewrite A3; apply (live_pgen c s gh); [assumption | assumption | lia]).
          rewrite Epg in *. apply (tiles_below_hi c W s gh _ g hi I L ltac:(lia) Hc (base c g) o); [apply G5; assumption | assumption].
        - assert (o = base c g) by lia. destruct (Z.eq_dec (pgen c p) g) as [Epg | Npg]; [rewrite Epg in *; lia|].
          assert (Hgn : g <> c_n0 c) by (intros E; apply Npg; rewrite A3; apply pgen_mod; lia).
          assert (base c g = 0) by (unfold base; destruct (g =? c_n0 c) eqn:E; [lia | reflexivity]). lia. }
      set (sees := 0 <? s_len (sh_mem s p o)).
      exists (DAcq sees). split.
      + cbn [RaceDisc.role_ok]. rewrite F1, F2, F3. split; [apply region_of_part; assumption|]. split; [apply get_volatile_is_acquire|].
        split; [assumption|]. split.
        * intros o' d Hs. destruct (C1 _ _ _ Hs) as (_ & e0 & sl0 & X1 & X2 & X3 & _). rewrite X3. eapply Hout; eauto.
        * intros Hsees. unfold sees in Hsees. destruct (dg_slot dg p o) as [d|] eqn:Es; [|exfalso; apply (C3 p o Hp ltac:(lia)); assumption].
          exists d. split; [reflexivity|]. destruct (C1 _ _ _ Es) as (_ & e0 & sl0 & _ & _ & _ & _ & X5). apply X5. lia.
      + cbn [role_upd]. rewrite F2, F3, Htid. apply Keep; [reflexivity | |].
        * intros p0 oa. cbn [dg_acq]. unfold upd2o. destruct ((p0 =? p) && (oa =? o)) eqn:E; [|apply C7].
          assert (p0 = p /\ oa = o) as [-> ->] by lia. intros _. split; [assumption|]. split; [lia|]. split; assumption.
        * apply Hseen'.
          -- intros t0 p0 o0 Hs. cbn [dg_seen]. rewrite Hs. destruct (_ && _); reflexivity.
          -- intros Hon. cbn [dg_seen]. destruct F5 as [(X1 & X2 & X3 & X4) | (X1 & X2)]; [|congruence].
             unfold rd_gen. rewrite X3, X4. fold (rd_gen c l). fold g. rewrite <- A3. unfold sees.
             replace (0 <? s_len (sh_mem s p o)) with true by lia. rewrite Nat.eqb_refl, !Z.eqb_refl. reflexivity.
    - (* RType *) destruct Hf as (F1 & F2 & F3 & F4 & F5).
      apply (OnF eq_refl Get F1 plainr_get F2); [intros; rewrite F3, F4; lia | exact F5].
    - (* RFlags *) destruct Hf as (F1 & F2 & F3 & F4 & F5).
      apply (OnF eq_refl Get F1 plainr_get F2); [intros; rewrite F3, F4; lia | exact F5].
    - (* RBody *) destruct Hf as (F1 & F2 & F3 & F4 & F5).
      apply (OnF eq_refl RegionRead F1 plainr_region F2); [intros; rewrite F3, F4; lia | rewrite F5; discriminate].
    - (* RSet *) destruct Hf as (F1 & F2). exists DOther. split; [exact F1|]. cbn [role_upd].
      apply Keep; [reflexivity | exact C7 | apply Hseen'; [auto | rewrite F2; discriminate]].
    - (* RDone *) exfalso. unfold rstep in Er. rewrite Hpc in Er. discriminate.
  Qed.

  (* every trace of the system follows the frame discipline *)
  Theorem reach3t_disc s th gh tr : reach3t c s th gh tr -> exists dg, disc dg (map narrow tr) /\ SCoupl c dg s gh th.
  Proof. induction 1 as [limit th Hinit Hone | s th gh tr t s' x' e Hreach IH Hadm Hnc Hg Hstep].
    - exists dg0. split; [constructor|]. constructor.
      + intros p o d H. discriminate H.
      + intros p o d H. discriminate H.
      + intros p o Hp H. cbn in H. lia.
      + intros t l k p o Ht Ha Hk. specialize (Hinit t). rewrite Ht in Hinit. destruct Hinit as (msgs & b & ->).
        unfold pub_access, p_start in Ha. destruct msgs; destruct b; cbn in Ha; inversion Ha; subst; destruct Hk; discriminate.
      + intros p oa H. discriminate H.
      + intros t l Ht Hon. specialize (Hinit t). rewrite Ht in Hinit. destruct Hinit as (polls & lim & ->).
        unfold r_start in Hon. destruct polls; discriminate.
    - destruct IH as (dg & D & C). rewrite map_app. cbn [map]. unfold rtstep in Hstep. unfold gstep3.
      destruct (th t) as [x | rl] eqn:Eth.
      + destruct (tstep c t s x) as [[[s1 x1] e1]|] eqn:Et; [|discriminate]. inversion Hstep; subst s' x' e. clear Hstep.
        unfold tstep in Et. destruct x as [l | el |]; [| |discriminate].
        * (* a publisher *)
          destruct (pstep c t s l) as [[[s2 l2] e2]|] eqn:Ep; [|discriminate]. inversion Et; subst s1 x1 e1. clear Et.
          destruct (pub_step_disc c W dg s th gh tr t l s2 l2 e2 Hreach Eth Hadm Hg Ep C) as (r & Hr & C').
          exists (role_upd dg (narrow e2) r). split; [eapply disc_snoc; eauto | exact C'].
        * (* the environment moves the publication limit *)
          unfold estep in Et. destruct (e_ops el) as [|op r0] eqn:Eops; [discriminate|].
          destruct op as [v | pp]; [|cbn in Hnc; rewrite Eops in Hnc; destruct Hnc]. inversion Et; subst s1 x1 e1. clear Et.
          exists (role_upd dg (narrow (ev t PutOrdered R_CNT LIMIT_OFF 8 v 0 0)) DOther). split; [eapply disc_snoc; [exact D | reflexivity]|].
          cbn [role_upd]. unfold sys_gstep. rewrite Eops. cbn [gstep_env].
          destruct C as [C1 Cz C3 C4 C7 C8]. constructor; try assumption.
          -- intros t0 l0 k0 p0 o0 Ht0. destruct (Nat.eq_dec t0 t) as [-> | Hne]; [rewrite upd_same in Ht0; discriminate | rewrite upd_other in Ht0 by assumption; eauto].
          -- intros t0 l0 Ht0. destruct (Nat.eq_dec t0 t) as [-> | Hne]; [rewrite upd_same in Ht0; discriminate | rewrite upd_other in Ht0 by assumption; eauto].
      + (* the subscriber *)
        destruct (rstep c t s rl) as [[[s1 l1] e1]|] eqn:Er; [|discriminate]. inversion Hstep; subst s' x' e. clear Hstep.
        destruct (rd_step_disc dg s th gh tr t rl s1 l1 e1 Hreach Eth Hadm Hg Er C) as (r & Hr & C').
        exists (role_upd dg (narrow e1) r). split; [eapply disc_snoc; eauto | exact C']. Qed.

  (* the executable vector-clock race detector finds no race in any trace of the model *)
  Theorem race_free_model s th gh tr : reach3t c s th gh tr -> race_free cls term_region (map narrow tr) = true.
  Proof. intros H. destruct (reach3t_disc s th gh tr H) as (dg & D & _). eapply disc_race_free. exact D. Qed.
End SRace.

(* the executable run over a schedule with crash points stays inside reach3t, so its trace is race free *)
Section SRun.
  Variable c : cfg.
  Hypothesis W : wf_cfg c.

  Definition rs3t_ok (r : @rstate shared rthread) (gh : ghost) : Prop := let '(s, th, g, tr) := r in reach3t c s th gh (rev tr).

  Fixpoint adm_sched3t (stop : nat -> option nat) (sched : list nat) (r : @rstate shared rthread) (gh : ghost) : Prop :=
    match sched with
    | [] => True
    | t :: rest =>
        match grant (rtstep c) stop t r with
        | Some r' => (let '(s, th, g, tr) := r in
                      adm3 c s gh th t /\ no_clean (th t) /\ gens_ok c s /\ adm_sched3t stop rest r' (gstep3 c t s (th t) gh))
        | None => adm_sched3t stop rest r gh
        end
    end.

  Theorem run_sched_reach3t stop sched : forall r gh, rs3t_ok r gh -> adm_sched3t stop sched r gh ->
    exists gh', rs3t_ok (run_sched (rtstep c) stop sched r) gh'.
  Proof. induction sched as [|t rest IH]; intros r gh Hr Ha; cbn [run_sched adm_sched3t] in *.
    - exists gh. assumption.
    - destruct (grant (rtstep c) stop t r) as [r'|] eqn:E; [|eapply IH; eauto].
      destruct r as [[[s th] g] tr]. destruct Ha as (Ha1 & Ha2 & Ha3 & Ha4). eapply IH; [|exact Ha4].
      unfold grant, step_cfg in E. cbn [fst snd] in E. destruct (stopped stop g t); [discriminate|].
      destruct (rtstep c t s (th t)) as [[[s1 x1] e1]|] eqn:E2; [|discriminate]. inversion E; subst r'.
      unfold rs3t_ok in *. cbn [rev]. eapply reach3t_step; eauto. Qed.

  Theorem run_sched_race_free3 stop sched r gh : rs3t_ok r gh -> adm_sched3t stop sched r gh ->
    let '(s, th, g, tr) := run_sched (rtstep c) stop sched r in race_free cls term_region (map narrow (rev tr)) = true.
  Proof. intros Hr Ha. destruct (run_sched_reach3t stop sched r gh Hr Ha) as (gh' & H).
    destruct (run_sched (rtstep c) stop sched r) as [[[s th] g] tr]. unfold rs3t_ok in H. eapply race_free_model; eauto. Qed.
End SRun.
