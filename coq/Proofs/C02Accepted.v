(* The list side of the C02 oracle: insertion sort by position, strictly increasing lists are determined by
   their elements, the accepted offers of a result list, lists built per thread over seq 0 n. *)
Require Import V.Base.MachineInt.
Require Import V.Generated.GenConsts.
Require Import V.Model.LogBase.
Require Import V.Model.Descriptor.
Require Import V.Model.Sched.
Require Import V.Model.AppenderThreads.
Require Import V.Oracle.C02Oracle.
Require Import V.Proofs.AppenderMsgs.
Require Import V.Proofs.C02OracleProofs.
From Coq Require Import ZifyBool Sorting.Sorted Sorting.Permutation.
Open Scope Z_scope.

Definition P2 := (Z * list Z)%type.
Definition le2 (a b : P2) : Prop := fst a <= fst b.
Definition lt2 (a b : P2) : Prop := fst a < fst b.

Lemma insert_perm x l : Permutation (insert_sorted x l) (x :: l).
Proof. induction l as [|y r IH]; cbn [insert_sorted]; [apply Permutation_refl|].
  destruct (fst x <=? fst y); [apply Permutation_refl|].
  eapply Permutation_trans; [apply perm_skip; exact IH | apply perm_swap]. Qed.

Lemma insert_sorted_ss x l : StronglySorted le2 l -> StronglySorted le2 (insert_sorted x l).
Proof. induction 1 as [|y r Hr IH Hy]; cbn [insert_sorted]; [repeat constructor|].
  destruct (fst x <=? fst y) eqn:E.
  - constructor; [constructor; assumption|]. constructor; [unfold le2; lia|].
    rewrite Forall_forall in *. intros z Hz. specialize (Hy z Hz). unfold le2 in *. lia.
  - constructor; [assumption|]. rewrite Forall_forall in *. intros z Hz.
    apply (Permutation_in _ (insert_perm x r)) in Hz. destruct Hz as [<- | Hz]; [unfold le2; lia | auto]. Qed.

Lemma sort_perm l : Permutation (sort_by_pos l) l.
Proof. induction l as [|x r IH]; [constructor|]. unfold sort_by_pos in *. cbn [fold_right].
  eapply Permutation_trans; [apply insert_perm | apply perm_skip; exact IH]. Qed.

Lemma sort_ss l : StronglySorted le2 (sort_by_pos l).
Proof. induction l as [|x r IH]; [constructor|]. unfold sort_by_pos in *. cbn [fold_right]. apply insert_sorted_ss. assumption. Qed.

Lemma ss_le_lt l : StronglySorted le2 l -> NoDup (map fst l) -> StronglySorted lt2 l.
Proof. induction 1 as [|y r Hr IH Hy]; intros Hnd; [constructor|]. cbn [map] in Hnd. inversion Hnd as [|? ? Hnin Hnd']; subst.
  constructor; [auto|]. rewrite Forall_forall in *. intros z Hz. specialize (Hy z Hz). unfold le2, lt2 in *.
  assert (fst z <> fst y) by (intros E; apply Hnin; rewrite <- E; apply in_map; assumption). lia. Qed.

Lemma ss_increasing l : StronglySorted lt2 l -> increasing (map fst l) = true.
Proof. induction 1 as [|y r Hr IH Hy]; [reflexivity|]. destruct r as [|z r']; [reflexivity|].
  cbn [map] in *. change (increasing (fst y :: fst z :: map fst r')) with ((fst y <? fst z) && increasing (fst z :: map fst r')).
  rewrite IH. inversion Hy; subst. unfold lt2 in *. replace (fst y <? fst z) with true by lia. reflexivity. Qed.

Lemma ss_filter f l : StronglySorted lt2 l -> StronglySorted lt2 (filter f l).
Proof. induction 1 as [|y r Hr IH Hy]; cbn [filter]; [constructor|]. destruct (f y); [|assumption].
  constructor; [assumption|]. rewrite Forall_forall in *. intros z Hz. apply filter_In in Hz. apply Hy. tauto. Qed.

Lemma ss_map_shift k l : StronglySorted lt2 l -> StronglySorted lt2 (map (fun m : P2 => (k + fst m, snd m)) l).
Proof. induction 1 as [|y r Hr IH Hy]; cbn [map]; [constructor|]. constructor; [assumption|].
  rewrite Forall_forall in *. intros z Hz. apply in_map_iff in Hz. destruct Hz as (w & <- & Hw). specialize (Hy w Hw).
  unfold lt2 in *. cbn [fst]. lia. Qed.

(* strictly increasing lists with the same elements are equal *)
Lemma ss_unique l1 : forall l2, StronglySorted lt2 l1 -> StronglySorted lt2 l2 -> (forall x, In x l1 <-> In x l2) -> l1 = l2.
Proof. induction l1 as [|x r1 IH]; intros l2 S1 S2 H.
  - destruct l2 as [|y r2]; [reflexivity|]. exfalso. apply (proj2 (H y)). left. reflexivity.
  - destruct l2 as [|y r2]; [exfalso; apply (proj1 (H x)); left; reflexivity|].
    inversion S1 as [|? ? S1' F1]; subst. inversion S2 as [|? ? S2' F2]; subst. rewrite Forall_forall in F1, F2.
    assert (Exy : x = y).
    { destruct (proj1 (H x) (or_introl eq_refl)) as [E | Hx]; [auto|].
      destruct (proj2 (H y) (or_introl eq_refl)) as [E | Hy]; [auto|].
      specialize (F1 y Hy). specialize (F2 x Hx). unfold lt2 in *. lia. }
    subst y. f_equal. apply IH; try assumption. intros z. split; intros Hz.
    + destruct (proj1 (H z) (or_intror Hz)) as [E | Hz2]; [|assumption]. subst z. specialize (F1 x Hz). unfold lt2 in F1. lia.
    + destruct (proj2 (H z) (or_intror Hz)) as [E | Hz1]; [|assumption]. subst z. specialize (F2 x Hz). unfold lt2 in F2. lia. Qed.

Lemma list_eqb_refl a : list_eqb a a = true.
Proof. unfold list_eqb. rewrite Nat.eqb_refl. cbn [andb]. induction a as [|x r IH]; [reflexivity|].
  cbn [combine forallb fst snd]. rewrite Z.eqb_refl. exact IH. Qed.

Lemma plist_eqb_refl l : plist_eqb l l = true.
Proof. induction l as [|x r IH]; [reflexivity|]. cbn [plist_eqb]. unfold pair_eqb. rewrite Z.eqb_refl, list_eqb_refl. exact IH. Qed.

Lemma increasing_nodup l : increasing l = true -> NoDup l.
Proof. induction l as [|a r IH]; intros H; [constructor|].
  assert (Hr : increasing r = true /\ forall b, In b r -> a < b).
  { revert a H. clear IH. induction r as [|b r' IH']; intros a H; [split; [reflexivity | intros ? []]|].
    change (increasing (a :: b :: r')) with ((a <? b) && increasing (b :: r')) in H. apply andb_prop in H. destruct H as (H1 & H2).
    split; [assumption|]. intros x [<- | Hx]; [lia|]. destruct (IH' b H2) as (_ & L). specialize (L x Hx). lia. }
  destruct Hr as (H1 & H2). constructor; [|auto]. intros Hin. specialize (H2 a Hin). lia. Qed.

Lemma nodup_app {A} (a b : list A) : NoDup a -> NoDup b -> (forall x, In x a -> In x b -> False) -> NoDup (a ++ b).
Proof. induction 1 as [|x r Hn Hr IH]; intros Hb Hd; cbn [app]; [assumption|].
  constructor.
  - intros Hin. apply in_app_or in Hin. destruct Hin as [Hin | Hin]; [contradiction | apply (Hd x); [left; reflexivity | assumption]].
  - apply IH; [assumption|]. intros y Hy. apply Hd. right. assumption. Qed.

Lemma nodup_concat_seq {A} (f : nat -> list A) : (forall t, NoDup (f t)) ->
  (forall t t' x, t <> t' -> In x (f t) -> In x (f t') -> False) ->
  forall n s, NoDup (concat (map f (seq s n))).
Proof. intros H1 H2. induction n as [|n IH]; intros s; cbn [seq map concat]; [constructor|].
  apply nodup_app; [apply H1 | apply IH|]. intros x Hx Hc. apply in_concat in Hc. destruct Hc as (l & Hl & Hxl).
  apply in_map_iff in Hl. destruct Hl as (t' & <- & Ht'). apply in_seq in Ht'. apply (H2 s t' x); [lia | assumption | assumption]. Qed.

(* ---- accepted offers ---- *)
Lemma nth_hd {A} (d : A) l : nth 0 l d = hd d l.
Proof. destruct l; reflexivity. Qed.
Lemma nth_tl {A} (d : A) k l : nth k (tl l) d = nth (S k) l d.
Proof. destruct l; [destruct k; reflexivity | reflexivity]. Qed.

Lemma accepted_in res : forall msgs pos m,
  In (pos, m) (accepted msgs res) <-> exists j, nth_error res j = Some (Ok pos) /\ m = nth (count_ok (firstn j res)) msgs [].
Proof. induction res as [|x r IH]; intros msgs pos m.
  - cbn. split; [intros [] | intros (j & Hj & _); destruct j; discriminate].
  - destruct x as [p | e | | |].
    + cbn [accepted In]. rewrite IH. split.
      * intros [E | (j & Hj & Hm)].
        -- inversion E; subst. exists O. split; [reflexivity|]. cbn. symmetry. apply nth_hd.
        -- exists (S j). split; [exact Hj|]. cbn [firstn count_ok]. rewrite <- nth_tl. exact Hm.
      * intros (j & Hj & Hm). destruct j as [|j].
        -- left. cbn in Hj. inversion Hj; subst. cbn. f_equal. symmetry. apply nth_hd.
        -- right. exists j. split; [exact Hj|]. cbn [firstn count_ok] in Hm. rewrite <- nth_tl in Hm. exact Hm.
    + cbn [accepted]. rewrite IH. split; intros (j & Hj & Hm).
      * exists (S j). split; [exact Hj | exact Hm].
      * destruct j as [|j]; [discriminate|]. exists j. split; [exact Hj | exact Hm].
    + cbn [accepted]. rewrite IH. split; intros (j & Hj & Hm).
      * exists (S j). split; [exact Hj | exact Hm].
      * destruct j as [|j]; [discriminate|]. exists j. split; [exact Hj | exact Hm].
    + cbn [accepted]. rewrite IH. split; intros (j & Hj & Hm).
      * exists (S j). split; [exact Hj | exact Hm].
      * destruct j as [|j]; [discriminate|]. exists j. split; [exact Hj | exact Hm].
    + cbn [accepted]. rewrite IH. split; intros (j & Hj & Hm).
      * exists (S j). split; [exact Hj | exact Hm].
      * destruct j as [|j]; [discriminate|]. exists j. split; [exact Hj | exact Hm]. Qed.

(* lists built per thread *)
Lemma combine_map_seq {A B} (d : A) (f : nat -> B) : forall (l : list A) s,
  combine l (map f (seq s (length l))) = map (fun t => (nth (t - s) l d, f t)) (seq s (length l)).
Proof. induction l as [|x r IH]; intros s; [reflexivity|]. cbn [length seq map combine]. f_equal.
  - rewrite Nat.sub_diag. reflexivity.
  - rewrite IH. apply map_ext_in. intros t Ht. apply in_seq in Ht. replace (t - s)%nat with (S (t - S s)) by lia. reflexivity. Qed.
