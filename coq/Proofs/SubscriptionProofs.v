(* Proofs about Model/Subscription.v: the round-robin index, the two loops of poll_inner. *)
Require Import V.Base.MachineInt.
Require Import V.Model.Subscription.
From Coq Require Import ZifyBool Sorting.Sorted.
Open Scope Z_scope.

(* ---- round robin ---- *)
Lemma rr_next_range len rr : 0 <= len -> 0 <= rr ->
  let '(s, rr') := rr_next len rr in
  0 <= s /\ (0 < len -> s < len) /\ 0 <= rr' <= len /\ (len = 0 -> s = 0).
Proof. intros Hl Hr. unfold rr_next. destruct (rr >=? len) eqn:E; repeat split; lia. Qed.

(* the starting indices and the index afterwards over a number of calls with a fixed list length *)
Fixpoint rr_run (n rr : Z) (calls : nat) : list Z * Z :=
  match calls with
  | O => ([], rr)
  | S c => let '(s, rr') := rr_next n rr in let '(l, r) := rr_run n rr' c in (s :: l, r)
  end.

Fixpoint zseq (from : Z) (c : nat) : list Z :=
  match c with O => [] | S c' => from :: zseq (from + 1) c' end.

Lemma zseq_In from c i : from <= i < from + Z.of_nat c -> In i (zseq from c).
Proof. revert from. induction c; intros from H; [lia|]. cbn [zseq]. destruct (Z.eq_dec i from); [left; auto|].
  right. apply IHc. lia. Qed.

Lemma rr_run_app n rr a b :
  rr_run n rr (a + b) = let '(l1, r1) := rr_run n rr a in let '(l2, r2) := rr_run n r1 b in (l1 ++ l2, r2).
Proof. revert rr. induction a; intros rr; cbn [Nat.add rr_run].
  - destruct (rr_run n rr b). reflexivity.
  - destruct (rr_next n rr) as [s rr']. rewrite IHa. destruct (rr_run n rr' a) as [l1 r1].
    destruct (rr_run n r1 b). reflexivity. Qed.

(* while the index stays below n the starts are consecutive *)
Lemma rr_run_linear n : forall c rr, 0 <= rr -> rr + Z.of_nat c <= n -> rr_run n rr c = (zseq rr c, rr + Z.of_nat c).
Proof. induction c; intros rr H0 H; cbn [rr_run zseq].
  - f_equal. lia.
  - unfold rr_next. destruct (rr >=? n) eqn:E; [lia|]. rewrite IHc by lia. f_equal. lia. Qed.

(* fairness: with a fixed list of n images, among any n+1 consecutive calls every index is the starting index
   (the sequence is r, r+1, .., n-1, 0, 0, 1, ..) *)
Theorem rr_fair n rr i : 0 < n -> 0 <= rr <= n -> 0 <= i < n ->
  In i (fst (rr_run n rr (Z.to_nat (n + 1)))).
Proof. intros Hn Hr Hi.
  replace (Z.to_nat (n + 1)) with (Z.to_nat (n - rr) + (1 + Z.to_nat rr))%nat by lia.
  rewrite rr_run_app. rewrite rr_run_linear by lia.
  replace (rr + Z.of_nat (Z.to_nat (n - rr))) with n by lia.
  rewrite (rr_run_app n n 1 (Z.to_nat rr)). cbn [rr_run]. unfold rr_next at 1.
  assert (E : n >=? n = true) by lia. rewrite E.
  rewrite rr_run_linear by lia. cbn [fst].
  destruct (Z_lt_le_dec i rr).
  - apply in_or_app. right. right. apply zseq_In. lia.
  - apply in_or_app. left. apply zseq_In. lia. Qed.

(* the sequence from a fresh subscription: 0, 1, .., n-1, 0, 0, 1, .. *)
Example rr_sequence_example : fst (rr_run 3 0 8) = [0; 1; 2; 0; 0; 1; 2; 0].
Proof. reflexivity. Qed.

(* ---- the loops ---- *)
Section Loops.
Context {I X : Type}.
Variable pk : I -> Z -> Z * I * list X.
(* what C05 proves of every image poll flavour: between 0 and the limit it is given *)
Hypothesis pk_ok : forall im lim, 0 < lim -> 0 <= fst (fst (pk im lim)) <= lim.

Lemma poll_range_spec : forall imgs idx limit read,
  let '(read', imgs', xs, polled) := poll_range pk imgs idx limit read in
  read <= read' <= Z.max read limit /\ length imgs' = length imgs /\
  Forall (fun j => idx <= j < idx + Z.of_nat (length imgs)) polled /\
  StronglySorted Z.lt polled.
Proof. induction imgs as [|im r IH]; intros idx limit read; cbn [poll_range].
  - repeat split; try lia; constructor.
  - destruct (read <? limit) eqn:E.
    + pose proof (pk_ok im (limit - read) ltac:(lia)) as Hp.
      destruct (pk im (limit - read)) as [[n im'] xs]. cbn [fst] in Hp.
      specialize (IH (idx + 1) limit (read + n)).
      destruct (poll_range pk r (idx + 1) limit (read + n)) as [[[read' r'] ys] polled].
      destruct IH as (A & B & C & D). cbn [length]. repeat split; try lia.
      * constructor; [lia|]. eapply Forall_impl; [|exact C]. cbn. intros; lia.
      * constructor; [assumption|]. eapply Forall_impl; [|exact C]. cbn. intros; lia.
    + specialize (IH (idx + 1) limit read).
      destruct (poll_range pk r (idx + 1) limit read) as [[[read' r'] ys] polled].
      destruct IH as (A & B & C & D). cbn [length]. repeat split; try lia.
      * eapply Forall_impl; [|exact C]. cbn. intros; lia.
      * assumption. Qed.

Lemma nodup_app {A} (a b : list A) : NoDup a -> NoDup b -> (forall x, In x a -> In x b -> False) -> NoDup (a ++ b).
Proof. induction 1; intros Hb Hd; cbn [app]; [assumption|]. constructor.
  - intros Hin. apply in_app_or in Hin as [Hin|Hin]; [contradiction|]. apply (Hd x); [left; reflexivity|assumption].
  - apply IHNoDup; [assumption|]. intros y Hy. apply Hd. right. assumption. Qed.

Lemma sorted_nodup l : StronglySorted Z.lt l -> NoDup l.
Proof. induction 1; constructor; auto. intros Hin. rewrite Forall_forall in H0. specialize (H0 _ Hin). lia. Qed.

(* C20_bounded: a poll over any image list reads at most fragment_limit fragments in total and polls each image at
   most once; the list keeps its length, the index stays inside [0, len] *)
Theorem poll_inner_bounded (s : sub I) limit : 0 <= s_rr s ->
  let '(total, s', xs, polled) := poll_inner pk s limit in
  0 <= total <= Z.max 0 limit /\ NoDup polled /\
  Forall (fun j => 0 <= j < Z.of_nat (length (s_images s))) polled /\
  length (s_images s') = length (s_images s) /\ 0 <= s_rr s' <= Z.of_nat (length (s_images s)).
Proof. intros Hrr. unfold poll_inner.
  set (len := Z.of_nat (length (s_images s))).
  pose proof (rr_next_range len (s_rr s) ltac:(lia) Hrr) as Hn. destruct (rr_next len (s_rr s)) as [start rr'].
  destruct Hn as (Hs0 & Hs1 & Hr' & Hs2).
  assert (Hst : (Z.to_nat start <= length (s_images s))%nat) by lia.
  pose proof (poll_range_spec (skipn (Z.to_nat start) (s_images s)) start limit 0) as H1.
  destruct (poll_range pk (skipn (Z.to_nat start) (s_images s)) start limit 0) as [[[read1 back'] xs1] p1].
  destruct H1 as (A1 & B1 & C1 & D1).
  pose proof (poll_range_spec (firstn (Z.to_nat start) (s_images s)) 0 limit read1) as H2.
  destruct (poll_range pk (firstn (Z.to_nat start) (s_images s)) 0 limit read1) as [[[read2 front'] xs2] p2].
  destruct H2 as (A2 & B2 & C2 & D2).
  rewrite skipn_length in *. rewrite firstn_length in *. cbn [s_images s_rr].
  split; [lia|]. split; [|split; [|split]].
  - (* the two index ranges are disjoint and each is strictly increasing *)
    apply nodup_app; try (apply sorted_nodup; assumption).
    intros x Hx1 Hx2. rewrite Forall_forall in C1, C2. specialize (C1 _ Hx1). specialize (C2 _ Hx2). cbn in C1, C2. lia.
  - apply Forall_app. split; (eapply Forall_impl; [|eassumption]); cbn; intros; lia.
  - rewrite app_length. lia.
  - lia.
Qed.

(* the image the rotation starts with is polled first and is given the whole limit *)
Theorem poll_inner_first (s : sub I) limit im0 : 0 <= s_rr s -> 0 < limit ->
  nth_error (s_images s) (Z.to_nat (fst (rr_next (Z.of_nat (length (s_images s))) (s_rr s)))) = Some im0 ->
  let '(total, s', xs, polled) := poll_inner pk s limit in
  exists rest ys, polled = fst (rr_next (Z.of_nat (length (s_images s))) (s_rr s)) :: rest /\
                  xs = snd (pk im0 limit) ++ ys.
Proof. intros Hrr Hlim Hn. unfold poll_inner.
  destruct (rr_next (Z.of_nat (length (s_images s))) (s_rr s)) as [start rr']. cbn [fst] in Hn.
  destruct (nth_error_split _ _ Hn) as (l1 & l2 & El & Hl1).
  assert (Hsk : skipn (Z.to_nat start) (s_images s) = im0 :: l2).
  { rewrite El, <- Hl1. rewrite skipn_app, Nat.sub_diag, skipn_all. reflexivity. }
  rewrite Hsk. cbn [poll_range]. assert (E : 0 <? limit = true) by lia. rewrite E.
  rewrite Z.sub_0_r. destruct (pk im0 limit) as [[n im'] xs0].
  destruct (poll_range pk l2 (start + 1) limit (0 + n)) as [[[read1 back'] ys1] p1].
  destruct (poll_range pk (firstn (Z.to_nat start) (s_images s)) 0 limit read1) as [[[read2 front'] xs2] p2].
  exists (p1 ++ p2), (ys1 ++ xs2). cbn [snd]. split; [reflexivity|]. rewrite app_assoc. reflexivity. Qed.

End Loops.

(* add / remove between calls: the index is never out of range when it is used (rr_next resets it) *)
Theorem rr_after_change len rr : 0 <= len -> 0 <= rr ->
  let '(s, rr') := rr_next len rr in (0 < len -> 0 <= s < len) /\ 0 <= rr' <= len.
Proof. intros. pose proof (rr_next_range len rr H H0). destruct (rr_next len rr). intuition lia. Qed.
