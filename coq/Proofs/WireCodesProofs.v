(* C14: the type-code table.  The domain is the finite generated list `all_commands`
   (complete: `all_commands_complete`), so each statement is decided by vm_compute over the
   list and lifted to `forall c` with forallb_forall. *)
Require Import V.Base.MachineInt V.Model.WireCodes.
Open Scope Z_scope.

Lemma all_commands_complete : forall c : cmd, In c all_commands.
Proof. intros c. destruct c; vm_compute; tauto. Qed.

Lemma cmd_eqb_eq a b : cmd_eqb a b = true <-> a = b.
Proof. unfold cmd_eqb. destruct (cmd_eq_dec a b); split; intros; congruence. Qed.

Lemma roundtrip_table : forallb roundtrip_b all_commands = true.
Proof. vm_compute. reflexivity. Qed.
Lemma codes_table : forallb code_b all_commands = true.
Proof. vm_compute. reflexivity. Qed.
Lemma injective_table : forallb injective_b all_commands = true.
Proof. vm_compute. reflexivity. Qed.
Lemma rows_table : forallb row_b from_id_rows = true.
Proof. vm_compute. reflexivity. Qed.

Lemma codes_roundtrip : forall c, from_id (to_id c) = Ok c.
Proof. intros c. pose proof (proj1 (forallb_forall _ _) roundtrip_table c (all_commands_complete c)) as H.
  unfold roundtrip_b in H. destruct (from_id (to_id c)); try discriminate.
  apply cmd_eqb_eq in H. congruence. Qed.

Lemma codes_protocol : forall c, to_id c = protocol_code c.
Proof. intros c. pose proof (proj1 (forallb_forall _ _) codes_table c (all_commands_complete c)) as H.
  unfold code_b in H. apply Z.eqb_eq, H. Qed.

Lemma codes_injective : forall c1 c2, to_id c1 = to_id c2 -> c1 = c2.
Proof. intros c1 c2 E. pose proof (proj1 (forallb_forall _ _) injective_table c1 (all_commands_complete c1)) as H.
  unfold injective_b in H. pose proof (proj1 (forallb_forall _ _) H c2 (all_commands_complete c2)) as H2.
  cbv beta in H2. rewrite E, Z.eqb_refl in H2. cbn [implb] in H2. apply cmd_eqb_eq, H2. Qed.

(* from_command_id accepts an id only as the protocol's code of the type it returns *)
Lemma from_id_sound : forall id c, from_id id = Ok c -> id = protocol_code c.
Proof. intros id c. unfold from_id. destruct (find _ from_id_rows) as [r|] eqn:F; [|discriminate].
  intros E. inversion E; subst. apply find_some in F. destruct F as [Hin Hid].
  apply Z.eqb_eq in Hid. pose proof (proj1 (forallb_forall _ _) rows_table r Hin) as H.
  unfold row_b in H. apply Z.eqb_eq in H. congruence. Qed.

(* hence the two conversions are mutually inverse bijections between the types and the protocol's codes *)
Lemma from_id_protocol : forall c, from_id (protocol_code c) = Ok c.
Proof. intros c. rewrite <- codes_protocol. apply codes_roundtrip. Qed.

Lemma from_id_iff : forall id c, from_id id = Ok c <-> id = protocol_code c.
Proof. intros id c. split. - apply from_id_sound. - intros ->. apply from_id_protocol. Qed.
