(* Invariant relating the byte memory of Model/Broadcast.v to the abstract channel of Spec/Lossy.v,
   and its preservation by BroadcastTransmitter::transmit. *)
From Coq Require Import FMapPositive Znumtheory.
Require Import V.Base.MachineInt.
Require Import V.Generated.GenConsts.
Require Import V.Model.Broadcast.
Require Import V.Spec.Lossy.
Require Import V.Proofs.BroadcastMem.
From Coq Require Import ZifyBool.
Open Scope Z_scope.

Lemma mod_disjoint cap p l a n :
  0 < cap -> 0 <= l -> 0 <= n -> p + l <= a -> a + n <= p + cap ->
  p mod cap + l <= cap -> a mod cap + n <= cap ->
  p mod cap + l <= a mod cap \/ a mod cap + n <= p mod cap.
Proof.
  intros Hc Hl Hn H1 H2 H3 H4.
  pose proof (Z.div_mod p cap ltac:(lia)). pose proof (Z.div_mod a cap ltac:(lia)).
  pose proof (Z.mod_pos_bound p cap Hc). pose proof (Z.mod_pos_bound a cap Hc).
  assert (a / cap = p / cap \/ a / cap = p / cap + 1) by nia.
  nia.
Qed.

(* ---- chains of records ---- *)
Fixpoint chain (a : Z) (l : list ent) (b : Z) : Prop :=
  match l with [] => a = b | e :: r => e_pos e = a /\ chain (e_end e) r b end.

Lemma chain_app l1 : forall a l2 b, chain a (l1 ++ l2) b <-> exists c, chain a l1 c /\ chain c l2 b.
Proof.
  induction l1 as [|e r IH]; intros a l2 b; cbn [app chain].
  - split. + intros H. exists a. auto. + intros [c [-> H]]. auto.
  - rewrite IH. split.
    + intros [E [c [H1 H2]]]. exists c. auto.
    + intros [c [[E H1] H2]]. split; auto. exists c. auto.
Qed.

Fixpoint pads_ok (l : list ent) : Prop :=
  match l with
  | [] => True
  | e :: r => (is_pad e = true -> match r with e2 :: _ => is_pad e2 = false | [] => False end) /\ pads_ok r
  end.

Lemma pads_ok_app l1 : forall l2, pads_ok l1 -> pads_ok l2 -> pads_ok (l1 ++ l2).
Proof.
  induction l1 as [|e r IH]; intros l2 H1 H2; cbn [app]; auto.
  destruct H1 as [Hp Hr]. cbn [pads_ok]. split; [|now apply IH].
  intros P. specialize (Hp P). destruct r; [contradiction|]. exact Hp.
Qed.

Lemma pads_ok_suffix l1 : forall l2, pads_ok (l1 ++ l2) -> pads_ok l2.
Proof. induction l1; intros l2 H; cbn in *; auto. apply IHl1. tauto. Qed.

Section Inv.
Variables (cap k : Z).
Hypothesis Hcap : cap = 2 ^ k.
Hypothesis Hk : 5 <= k <= 30.

Lemma cap_bounds : 32 <= cap <= 1073741824.
Proof.
  subst cap. split.
  - change 32 with (2 ^ 5). apply Z.pow_le_mono_r; lia.
  - change 1073741824 with (2 ^ 30). apply Z.pow_le_mono_r; lia.
Qed.

Lemma cap_mod8 : cap mod 8 = 0.
Proof.
  subst cap. replace k with ((k - 3) + 3) by lia. rewrite Z.pow_add_r by lia.
  change (2 ^ 3) with 8. apply Z.mod_mul. lia.
Qed.

Lemma cap_div8 : (8 | cap).
Proof. apply Z.mod_divide; [lia|apply cap_mod8]. Qed.

Lemma mod_cap_mod8 x : (x mod cap) mod 8 = x mod 8.
Proof. symmetry. apply Zmod_div_mod; [lia | pose proof cap_bounds; lia | apply cap_div8]. Qed.

Lemma land_cap x : Z.land x (cap - 1) = x mod cap.
Proof. subst cap. apply land_mask. lia. Qed.

Lemma wrap32_land_cap x : Z.land (wrap32 x) (cap - 1) = x mod cap.
Proof. rewrite land_cap. subst cap. apply wrap32_mod_pow. lia. Qed.

Definition ent_wf (e : ent) : Prop :=
  0 <= e_pos e /\ e_pos e mod 8 = 0 /\ 8 <= e_len e <= cap - 8 /\
  e_pos e mod cap + align (e_len e) 8 <= cap /\
  8 + Z.of_nat (length (e_bs e)) <= e_len e /\ in_i32 (e_ty e) = true /\
  (is_pad e = false -> e_len e = 8 + Z.of_nat (length (e_bs e))) /\
  (is_pad e = true -> e_pos e mod cap + e_len e = cap).

Definition intact (mm : mem) (e : ent) : Prop :=
  let o := e_pos e mod cap in
  get32 mm o = e_len e /\ get32 mm (o + 4) = e_ty e /\
  get_bytes mm (o + 8) (length (e_bs e)) = e_bs e.

Lemma intact_ext mm mm' e :
  (forall a, e_pos e mod cap <= a < e_pos e mod cap + 8 + Z.of_nat (length (e_bs e)) -> rd mm' a = rd mm a) ->
  intact mm e -> intact mm' e.
Proof.
  intros H [A [B C]]. unfold intact. cbn zeta.
  rewrite <- A, <- B. rewrite <- C at 2. repeat split.
  - apply get32_ext. intros; apply H; lia.
  - apply get32_ext. intros; apply H; lia.
  - apply get_bytes_ext. intros; apply H; lia.
Qed.

Lemma e_end_gt e : ent_wf e -> e_pos e + 8 <= e_end e /\ e_end e <= e_pos e + cap.
Proof.
  intros (P0 & P8 & L & C & _). unfold e_end. pose proof (align8_bounds (e_len e)).
  pose proof (Z.mod_pos_bound (e_pos e) cap ltac:(pose proof cap_bounds; lia)). lia.
Qed.

Lemma e_end_lt e : ent_wf e -> e_end e < e_pos e + cap.
Proof. clear Hcap Hk. intros (P0 & P8 & L & _). unfold e_end. pose proof (align8_bounds (e_len e)). lia. Qed.

Lemma chain_bounds l : forall a b, Forall ent_wf l -> chain a l b ->
  a <= b /\ Forall (fun e => a <= e_pos e /\ e_end e <= b) l.
Proof.
  induction l as [|e r IH]; intros a b W C; cbn in C.
  - subst. split; [lia|constructor].
  - destruct C as [E C]. inversion W; subst. destruct (IH _ _ H2 C) as [Le F].
    pose proof (e_end_gt e H1). split; [lia|]. constructor; [lia|].
    eapply Forall_impl; [|exact F]. cbn. intros x ?. lia.
Qed.

Lemma chain_nonempty a l b : Forall ent_wf l -> chain a l b -> a < b -> exists e r, l = e :: r /\ e_pos e = a.
Proof. intros W C Lt. destruct l as [|e r]; cbn in C; [lia|]. exists e, r. tauto. Qed.

Record inv (c0 : Z) (mm : mem) (ch : chan) : Prop := {
  inv_tail : get64 mm (tail_idx cap) = c_tail ch;
  inv_intent : get64 mm (intent_idx cap) = c_tail ch;
  inv_latest : get64 mm (latest_idx cap) = c_latest ch;
  inv_chain : chain c0 (c_log ch) (c_tail ch);
  inv_wf : Forall ent_wf (c_log ch);
  inv_live : forall e, In e (c_log ch) -> c_tail ch <= e_pos e + cap -> intact mm e;
  inv_pads : pads_ok (c_log ch);
  inv_last : (c_log ch = [] /\ c_latest ch = c_tail ch) \/
             (exists done e, c_log ch = done ++ [e] /\ e_pos e = c_latest ch /\ is_pad e = false);
  inv_c0 : 0 <= c0 /\ c0 mod 8 = 0
}.

Lemma inv_tail_props c0 mm ch : inv c0 mm ch -> c0 <= c_tail ch /\ c_tail ch mod 8 = 0.
Proof.
  intros I. destruct (chain_bounds _ _ _ (inv_wf _ _ _ I) (inv_chain _ _ _ I)) as [Le _].
  split; auto. destruct (inv_last _ _ _ I) as [[E _]|[d [e [E [P N]]]]].
  - pose proof (inv_chain _ _ _ I) as C. rewrite E in C. cbn in C. rewrite <- C. apply (inv_c0 _ _ _ I).
  - pose proof (inv_chain _ _ _ I) as C. rewrite E in C. apply chain_app in C. destruct C as [c [_ C]].
    cbn in C. destruct C as [_ C]. rewrite <- C. unfold e_end.
    pose proof (inv_wf _ _ _ I) as W. rewrite E in W. apply Forall_app in W. destruct W as [_ W].
    inversion W; subst. destruct H1 as (_ & P8 & _). pose proof (align8_bounds (e_len e)).
    rewrite Z.add_mod by lia. rewrite P8. replace (align (e_len e) 8 mod 8) with 0 by lia. reflexivity.
Qed.

(* ------------------------------------------------------------------ transmit *)
Ltac offs := unfold intent_idx, tail_idx, latest_idx, buf_len, HL, RA,
  BC_TAIL_INTENT_COUNTER_OFFSET, BC_TAIL_COUNTER_OFFSET, BC_LATEST_COUNTER_OFFSET, BC_TRAILER_LENGTH,
  BC_HEADER_LENGTH, BC_RECORD_ALIGNMENT in *.

Definition write_rec (mm : mem) (ro rl ty : Z) (bs : list Z) (lat tl : Z) : mem :=
  put64 (put64 (put_bytes (put32 (put32 mm ro rl) (ro + 4) ty) (ro + 8) bs) (latest_idx cap) lat) (tail_idx cap) tl.

Lemma write_rec_props mm ro rl ty bs lat tl :
  0 <= ro -> ro + 8 + Z.of_nat (length bs) <= cap ->
  in_i32 rl = true -> in_i32 ty = true -> in_i64 lat = true -> in_i64 tl = true ->
  let m' := write_rec mm ro rl ty bs lat tl in
  get32 m' ro = rl /\ get32 m' (ro + 4) = ty /\ get_bytes m' (ro + 8) (length bs) = bs /\
  get64 m' (tail_idx cap) = tl /\ get64 m' (latest_idx cap) = lat /\
  get64 m' (intent_idx cap) = get64 mm (intent_idx cap) /\
  (forall a, a < ro \/ ro + 8 + Z.of_nat (length bs) <= a -> a < cap -> rd m' a = rd mm a).
Proof.
  intros H0 H1 Hrl Hty Hlat Htl m'. subst m'. unfold write_rec. offs.
  repeat split.
  - rewrite get32_put64_other, get32_put64_other, get32_put_other, get32_put32_other, get32_put32 by lia. reflexivity.
  - rewrite get32_put64_other, get32_put64_other, get32_put_other, get32_put32 by lia. reflexivity.
  - rewrite get_bytes_put64_other, get_bytes_put64_other by lia. apply get_put_same.
  - rewrite get64_put64 by auto. reflexivity.
  - rewrite get64_put64_other, get64_put64 by (auto; lia). reflexivity.
  - rewrite get64_put64_other, get64_put64_other, get64_put_other, get64_put32_other, get64_put32_other by lia. reflexivity.
  - intros a Ha Hc. unfold put64, put32.
    repeat (rewrite rd_put_bytes_out by (rewrite ?le_bytes_length; cbn [Z.of_nat]; lia)). reflexivity.
Qed.


Lemma add32_ok m a b : in_i32 (a + b) = true -> add32 m a b = Ok (a + b).
Proof. intros H. unfold add32, chk32. now rewrite H. Qed.
Lemma sub32_ok m a b : in_i32 (a - b) = true -> sub32 m a b = Ok (a - b).
Proof. intros H. unfold sub32, chk32. now rewrite H. Qed.
Lemma add64_ok m a b : in_i64 (a + b) = true -> add64 m a b = Ok (a + b).
Proof. intros H. unfold add64, chk64. now rewrite H. Qed.
Lemma align32_ok m v : in_i32 (v + 7) = true -> align32 m v RA = Ok (align v 8).
Proof.
  intros H. unfold align32. change (RA - 1) with 7. rewrite add32_ok by auto. cbn [bind].
  change 7 with (8 - 1) at 2. rewrite align_land. reflexivity.
Qed.

Definition out_of (a : Z) (w : Z * Z) : Prop := a < fst w mod cap \/ fst w mod cap + snd w <= a.

Lemma inv_extend c0 mm ch mm' es T' L' (W : list (Z * Z)) :
  inv c0 mm ch ->
  get64 mm' (tail_idx cap) = T' -> get64 mm' (intent_idx cap) = T' -> get64 mm' (latest_idx cap) = L' ->
  chain (c_tail ch) es T' -> Forall ent_wf es -> pads_ok es ->
  (exists d e, es = d ++ [e] /\ e_pos e = L' /\ is_pad e = false) ->
  Forall (intact mm') es ->
  Forall (fun w => c_tail ch <= fst w /\ fst w + snd w <= T' /\ 0 <= snd w /\ fst w mod cap + snd w <= cap) W ->
  (forall a, 0 <= a < cap -> Forall (out_of a) W -> rd mm' a = rd mm a) ->
  inv c0 mm' {| c_tail := T'; c_latest := L'; c_log := c_log ch ++ es |}.
Proof.
  intros I Ht Hi Hl C Wf P Last Int HW Fr.
  pose proof cap_bounds as CB.
  constructor; cbn [c_tail c_latest c_log]; auto.
  - apply chain_app. exists (c_tail ch). split; auto. apply (inv_chain _ _ _ I).
  - apply Forall_app. split; auto. apply (inv_wf _ _ _ I).
  - intros e In Live. apply in_app_or in In. destruct In as [In|In].
    + assert (Le : T' <= e_pos e + cap) by exact Live.
      destruct (chain_bounds _ _ _ (inv_wf _ _ _ I) (inv_chain _ _ _ I)) as [_ F].
      rewrite Forall_forall in F. specialize (F e In).
      pose proof (inv_wf _ _ _ I) as WF. rewrite Forall_forall in WF. specialize (WF e In).
      destruct WF as (P0 & P8 & Ln & Cr & Ex & _).
      pose proof (align8_bounds (e_len e)) as AB.
      assert (Old : intact mm e).
      { apply (inv_live _ _ _ I); auto. rewrite Forall_forall in HW.
        destruct (chain_bounds _ _ _ Wf C) as [LeT _]. lia. }
      eapply intact_ext; [|exact Old]. intros a Ha. apply Fr.
      * pose proof (Z.mod_pos_bound (e_pos e) cap ltac:(lia)). lia.
      * rewrite Forall_forall in *. intros w Hw. specialize (HW w Hw). unfold out_of.
        unfold e_end in F.
        destruct (mod_disjoint cap (e_pos e) (align (e_len e) 8) (fst w) (snd w)) as [D|D]; try lia.
    + rewrite Forall_forall in Int. auto.
  - apply pads_ok_app; auto. apply (inv_pads _ _ _ I).
  - right. destruct Last as [d [e [E [Pe Ne]]]]. exists (c_log ch ++ d), e. rewrite E, app_assoc. auto.
  - apply (inv_c0 _ _ _ I).
Qed.

Lemma transmit_refines m c0 mm ch ty bs :
  inv c0 mm ch -> c_tail ch + 2 * cap < 2 ^ 62 ->
  accepted cap ty bs = true -> in_i32 ty = true ->
  exists mm', transmit m cap mm ty bs = Ok mm' /\
              inv c0 mm' (fst (spec_transmit cap ch ty bs)) /\
              snd (spec_transmit cap ch ty bs) = TxOk /\
              c_tail (fst (spec_transmit cap ch ty bs)) <= c_tail ch + 2 * cap.
Proof.
  intros I Bd Acc Hty. pose proof cap_bounds as CB. pose proof cap_mod8 as C8.
  destruct (inv_tail_props _ _ _ I) as [T0 T8]. pose proof (inv_c0 _ _ _ I) as [C0 _].
  unfold accepted in Acc. apply andb_prop in Acc. destruct Acc as [A1 A2].
  apply negb_true_iff in A1. apply negb_true_iff in A2.
  set (len := Z.of_nat (length bs)) in *.
  set (T := c_tail ch) in *.
  assert (Hlen : 0 <= len <= cap / 8) by (subst len; lia).
  assert (Hc8 : cap / 8 * 8 = cap).
  { pose proof (Z.div_mod cap 8 ltac:(lia)). lia. }
  pose proof (Z.mod_pos_bound T cap ltac:(lia)) as Ho.
  pose proof (mod_cap_mod8 T) as Ho8. rewrite T8 in Ho8.
  set (o := T mod cap) in *.
  pose proof (align8_bounds (len + 8)) as AB. set (al := align (len + 8) 8) in *.
  assert (Hal : al <= cap / 8 + 15) by lia.
  assert (Ho_le : o + 8 <= cap).
  { pose proof (Z.div_mod o 8 ltac:(lia)). pose proof (Z.div_mod cap 8 ltac:(lia)). lia. }
  (* the model's arithmetic *)
  unfold transmit, spec_transmit. fold len. rewrite A1. unfold max_msg. rewrite A2.
  rewrite (inv_tail _ _ _ I). fold T. rewrite land_cap. fold o.
  rewrite (wrap32_id o) by (unfold in_i32, two31; lia).
  rewrite add32_ok by (unfold in_i32, two31, HL, BC_HEADER_LENGTH; lia). cbn [bind].
  change (len + HL) with (len + 8).
  rewrite align32_ok by (unfold in_i32, two31; lia). cbn [bind]. fold al.
  rewrite add64_ok by (unfold in_i64, two63; lia). cbn [bind].
  rewrite sub32_ok by (unfold in_i32, two31; lia). cbn [bind].
  unfold new_ents. fold len. fold T. fold o. fold al.
  destruct (cap - o <? al) eqn:Pad.
  - (* padding record, then the message at offset 0 *)
    set (te := cap - o) in *.
    rewrite add64_ok by (unfold in_i64, two63; lia). cbn [bind].
    rewrite add64_ok by (unfold in_i64, two63; lia). cbn [bind]. cbv beta iota zeta.
    rewrite add64_ok by (unfold in_i64, two63; lia). cbn [bind].
    cbn [last fst snd]. unfold e_end. cbn [e_pos e_len].
    set (m3 := put32 (put32 (put64 mm (intent_idx cap) (T + al + te)) o te) (o + 4) PADDING).
    set (mf := put64 _ (tail_idx cap) (T + te + al)).
    assert (Emf : mf = write_rec m3 0 (len + 8) ty bs (T + te) (T + te + al)) by reflexivity.
    destruct (write_rec_props m3 0 (len + 8) ty bs (T + te) (T + te + al)) as (G1 & G2 & G3 & G4 & G5 & G6 & G7);
      try (unfold in_i32, in_i64, two31, two63; lia); auto.
    rewrite <- Emf in *. fold al.
    exists mf. split; [reflexivity|]. split; [|split; [reflexivity|cbn [c_tail]; lia]].
    assert (Tte : (T + te) mod cap = 0).
    { subst te o. replace (T + (cap - T mod cap)) with (cap * (T / cap + 1)).
      - rewrite Z.mul_comm. apply Z.mod_mul. lia.
      - pose proof (Z.div_mod T cap ltac:(lia)). lia. }
    assert (Ate : align te 8 = te).
    { apply align8_id. subst te. rewrite Zminus_mod, C8, Ho8. reflexivity. }
    apply (inv_extend c0 mm ch mf _ (T + te + al) (T + te) [(T, 8); (T + te, 8 + len)]); auto.
    + rewrite G6. subst m3. offs. unfold PADDING.
      rewrite get64_put32_other, get64_put32_other, get64_put64 by (unfold in_i64, two63; lia). lia.
    + cbn [chain]. unfold e_end. cbn [e_pos e_len]. fold T. rewrite Ate. fold al. repeat split; lia.
    + constructor; [|constructor; [|constructor]]; unfold ent_wf, is_pad; cbn [e_pos e_len e_ty e_bs length Z.of_nat]; fold T; fold o.
      * rewrite Ate. repeat split; intros; auto; try lia.
      * fold len. fold al. rewrite Tte. rewrite Zplus_mod, T8. 
        replace (te mod 8) with 0 by (subst te; rewrite Zminus_mod, C8, Ho8; reflexivity).
        repeat split; intros; auto; try lia.
    + cbn [pads_ok]. unfold is_pad. cbn [e_ty]. repeat split; intros; auto; try lia.
    + exists [{| e_pos := T; e_len := te; e_ty := -1; e_bs := [] |}], {| e_pos := T + te; e_len := len + 8; e_ty := ty; e_bs := bs |}.
      unfold is_pad. cbn [e_pos e_ty app]. repeat split; intros; auto; try lia.
    + constructor; [|constructor; [|constructor]]; unfold intact; cbn [e_pos e_len e_ty e_bs length]; fold T; fold o.
      * (* padding header survives the record written at offset 0 *)
        assert (F : forall a, o <= a < o + 8 -> rd mf a = rd m3 a) by (intros; apply G7; lia).
        rewrite (get32_ext mf m3 o) by (intros; apply F; lia).
        rewrite (get32_ext mf m3 (o + 4)) by (intros; apply F; lia).
        subst m3. offs. unfold PADDING, CMD_Padding.
        rewrite get32_put32_other, get32_put32 by (unfold in_i32, two31; lia).
        rewrite get32_put32 by reflexivity. auto.
      * rewrite Tte. repeat split; [exact G1 | exact G2 | exact G3].
    + constructor; [|constructor; [|constructor]]; cbn [fst snd]; fold T; fold o; rewrite ?Tte; lia.
    + intros a Ha Out. apply Forall_cons_iff in Out. destruct Out as [O1 Out']. apply Forall_cons_iff in Out'. destruct Out' as [O2 _].
      unfold out_of in *. cbn [fst snd] in *. fold T in O1. fold o in O1. rewrite Tte in O2.
      rewrite G7 by lia. subst m3. unfold put32, put64. offs.
      repeat (rewrite rd_put_bytes_out by (rewrite ?le_bytes_length; cbn [Z.of_nat]; lia)). reflexivity.
  - (* the record fits before the end of the buffer *)
    cbn [bind]. cbv beta iota zeta.
    rewrite add64_ok by (unfold in_i64, two63; lia). cbn [bind].
    cbn [last fst snd]. unfold e_end. cbn [e_pos e_len].
    set (m1 := put64 mm (intent_idx cap) (T + al)).
    set (mf := put64 _ (tail_idx cap) (T + al)).
    assert (Emf : mf = write_rec m1 o (len + 8) ty bs T (T + al)) by reflexivity.
    destruct (write_rec_props m1 o (len + 8) ty bs T (T + al)) as (G1 & G2 & G3 & G4 & G5 & G6 & G7);
      try (unfold in_i32, in_i64, two31, two63; lia); auto.
    rewrite <- Emf in *. fold al.
    exists mf. split; [reflexivity|]. split; [|split; [reflexivity|cbn [c_tail]; lia]].
    apply (inv_extend c0 mm ch mf _ (T + al) T [(T, 8 + len)]); auto.
    + rewrite G6. subst m1. rewrite get64_put64 by (unfold in_i64, two63; lia). reflexivity.
    + cbn [chain]. unfold e_end. cbn [e_pos e_len]. fold T. fold len. fold al. auto.
    + constructor; [|constructor]. unfold ent_wf, is_pad; cbn [e_pos e_len e_ty e_bs]; fold T; fold o; fold len; fold al.
      repeat split; intros; auto; try lia.
    + cbn [pads_ok]. unfold is_pad. cbn [e_ty]. repeat split; intros; auto; try lia.
    + exists [], {| e_pos := T; e_len := len + 8; e_ty := ty; e_bs := bs |}.
      unfold is_pad. cbn [e_pos e_ty app]. repeat split; intros; auto; try lia.
    + constructor; [|constructor]. unfold intact; cbn [e_pos e_len e_ty e_bs]; fold T; fold o; fold len. auto.
    + constructor; [|constructor]. cbn [fst snd]. fold T. fold o. lia.
    + intros a Ha Out. apply Forall_cons_iff in Out. destruct Out as [O1 _].
      unfold out_of in *. cbn [fst snd] in *. fold T in O1. fold o in O1.
      rewrite G7 by lia. subst m1. unfold put64. offs.
      rewrite rd_put_bytes_out by (rewrite ?le_bytes_length; cbn [Z.of_nat]; lia). reflexivity.
Qed.

End Inv.
