(* The getters that expose the flow-control state (Model/PubGetters.v) against their oracle (Oracle/C04Oracle.v holds_gets):
   true on the model's own observations for every history of the shared and of the exclusive publication, and
   available_window() <= 0 iff offers and claims are refused for flow-control reasons. *)
Require Import V.Base.MachineInt.
Require Import V.Generated.GenConsts.
Require Import V.Model.Descriptor.
Require Import V.Model.LogBase.
Require Import V.Model.LogDelta.
Require Import V.Model.Appender.
Require Import V.Model.ExclAppender.
Require Import V.Model.Publication.
Require Import V.Model.ExclPublication.
Require Import V.Model.PubCases.
Require Import V.Model.PubGetters.
Require Import V.Proofs.DescriptorProofs.
Require Import V.Proofs.AppenderProofs.
Require Import V.Proofs.PublicationProofs.
Require Import V.Proofs.BulkProofs.
Require Import V.Proofs.C04Proofs.
Require Import V.Proofs.ExclPublicationProofs.
Require Import V.Oracle.C04Oracle.
Require Import V.Proofs.C04OracleProofs.
Require Import V.Proofs.C04Statements.
Require Import V.Proofs.C04XOracleProofs.
Require Import V.Proofs.RenderWords.
Require Import V.Proofs.C04Bytes.
Require Import V.Proofs.C04XBytes.
From Coq Require Import ZifyBool.
Open Scope Z_scope.

Lemma b2z_zb b : b2z b = zb b. Proof. reflexivity. Qed.

Lemma window_ok m limit p : in_i64 (limit - p) = true -> window_of m false limit (Ok p) = Ok (limit - p).
Proof. intros H. unfold window_of. cbn [bind]. apply sub64_ok. exact H. Qed.

(* ---- one state ---- *)
Lemma getters_ok m s n off n0 off0 : pub_inv n off s ->
  holds_getters (geom_of (ps_log s) n0 off0) false (env_of s) (pub_getters m s) = true.
Proof. intros Hinv. unfold holds_getters, pub_getters, env_of. cbn [e_closed e_connected e_limit].
  rewrite !b2z_zb. unfold pub_is_connected. rewrite !Z.eqb_refl. cbn [andb].
  destruct (ps_closed s) eqn:Ec.
  - unfold pub_limit, pub_window, window_of, pub_position. rewrite Ec. reflexivity.
  - unfold pub_limit, pub_window. rewrite Ec. rewrite (pub_position_spec m s n off Hinv Ec).
    pose proof (spec_pos_range s n off Hinv) as Hr. rewrite out_eqb_ok.
    assert (E : (0 <=? spec_pos (ps_log s) n off) && (spec_pos (ps_log s) n off <=? g_maxpos (geom_of (ps_log s) n0 off0)) = true).
    { unfold g_maxpos, geom_of. cbn [g_tlen]. lia. }
    rewrite E. cbn [andb]. destruct (in_i64 (l_limit (ps_log s) - spec_pos (ps_log s) n off)) eqn:Ei; [|reflexivity].
    rewrite window_ok by exact Ei. rewrite out_eqb_ok. reflexivity. Qed.

Lemma xgetters_ok m x n n0 off0 : xpub_inv n x ->
  holds_getters (geom_of (xlog x) n0 off0) true (env_of (x_pub x)) (xpub_getters m x) = true.
Proof. intros Hinv. pose proof Hinv as [Hleg Hn Hidx Htid Hbeg Hoff Hcnt].
  unfold holds_getters, xpub_getters, env_of. cbn [e_closed e_connected e_limit].
  rewrite !b2z_zb. unfold pub_is_connected. rewrite !Z.eqb_refl. cbn [andb].
  destruct (ps_closed (x_pub x)) eqn:Ec.
  - unfold pub_limit, xpub_window, window_of, xpub_position. rewrite Ec. reflexivity.
  - unfold pub_limit, xpub_window. rewrite Ec. rewrite (xpub_position_spec m x n Hinv Ec).
    pose proof (xspec_pos_range x n Hinv) as Hr. fold (xlog x). rewrite out_eqb_ok.
    assert (E : (0 <=? xspec_pos x) && (xspec_pos x <=? g_maxpos (geom_of (xlog x) n0 off0)) = true).
    { unfold g_maxpos, geom_of. cbn [g_tlen]. lia. }
    rewrite E. cbn [andb].
    assert (Ex : (xspec_pos x =? wrap32 (x_tid x - g_init (geom_of (xlog x) n0 off0)) * g_tlen (geom_of (xlog x) n0 off0) + x_off x) &&
                 (0 <=? x_off x) && (x_off x <=? g_tlen (geom_of (xlog x) n0 off0)) = true).
    { unfold geom_of. cbn [g_init g_tlen]. rewrite Htid. rewrite term_count_recovered by assumption. unfold xspec_pos. rewrite Hbeg. lia. }
    rewrite Ex. rewrite Bool.andb_true_r.
    destruct (in_i64 (l_limit (xlog x) - xspec_pos x)) eqn:Ei; [|reflexivity].
    rewrite window_ok by exact Ei. rewrite out_eqb_ok. reflexivity. Qed.

(* ---- the getters fixed at construction ---- *)
Lemma statics_ok l n0 off0 : legal l -> holds_statics (geom_of l n0 off0) (pub_statics l) = true.
Proof. intros Hl. destruct (legal_bits l Hl) as (bits & Hb & Ht & Hbo). pose proof (legal_tlen l Hl) as [Htl _].
  unfold holds_statics, pub_statics, geom_of, g_maxmsg, g_mpl. cbn [g_tlen g_mtu g_init g_session g_stream].
  unfold max_message_length, max_payload_length. rewrite Z.quot_div_nonneg by lia. rewrite Hbo, <- Ht. rewrite !Z.eqb_refl.
  assert (E : (0 <=? bits) = true) by lia. rewrite E. reflexivity. Qed.

(* ---- available_window() and the refusals ---- *)
(* open publication, window computed without overflow: window <= 0 exactly when the position has reached the limit *)
Theorem window_flow m s n off w : pub_inv n off s -> ps_closed s = false ->
  in_i64 (l_limit (ps_log s) - spec_pos (ps_log s) n off) = true ->
  pub_window m s = Ok w -> (w <= 0 <-> l_limit (ps_log s) <= spec_pos (ps_log s) n off).
Proof. intros Hinv Hc Hi Hw. unfold pub_window in Hw. rewrite Hc in Hw. rewrite (pub_position_spec m s n off Hinv Hc) in Hw.
  rewrite window_ok in Hw by exact Hi. inversion Hw. lia. Qed.

(* ... and then every offer / claim / bulk offer is refused with the prescribed status and changes nothing *)
Theorem window_refuses m rv s n off w o : pub_inv n off s -> ps_closed s = false ->
  in_i64 (l_limit (ps_log s) - spec_pos (ps_log s) n off) = true ->
  pub_window m s = Ok w -> w <= 0 -> op_ok (ps_log s) o -> is_append o = true ->
  fst (pub_step m rv s o) = s /\ exists e, snd (pub_step m rv s o) = Err e /\ e <> AdminAction.
Proof. intros Hinv Hc Hi Hw Hle Hok Ha. apply (window_flow m s n off w Hinv Hc Hi Hw) in Hle.
  rewrite (pub_refuse_at_limit m rv s n off o Hinv Hok Ha Hc Hle). split; [reflexivity|]. eexists. split; [reflexivity|].
  destruct o; try discriminate; cbn [op_len]; try (destruct (_ <? _); [discriminate|]);
    unfold status_of; destruct (_ <=? _); try discriminate; destruct (l_connected _); discriminate. Qed.

(* ---- whole histories, shared publication ---- *)
Lemma position_step m rv s n off o : pub_inv n off s -> op_ok (ps_log s) o ->
  exists n' off', pub_inv n' off' (fst (pub_step m rv s o)) /\
    (ps_closed s = false -> ps_closed (fst (pub_step m rv s o)) = false ->
     spec_pos (ps_log s) n off <= spec_pos (ps_log (fst (pub_step m rv s o))) n' off').
Proof. intros Hinv Hok. pose proof (inv_off_bound s n off Hinv) as [Hob Htl]. pose proof (pi_off _ _ _ Hinv) as Hoff.
  destruct (is_append o) eqn:Ea.
  - assert (Hstay : fst (pub_step m rv s o) = s -> exists n' off', pub_inv n' off' (fst (pub_step m rv s o)) /\
       (ps_closed s = false -> ps_closed (fst (pub_step m rv s o)) = false ->
        spec_pos (ps_log s) n off <= spec_pos (ps_log (fst (pub_step m rv s o))) n' off')).
    { intros ->. exists n, off. split; [assumption|]. intros _ _. lia. }
    destruct (pub_step_cases m rv s n off o Hinv Hok Ea) as [(len & _ & _ & E) | T]; [apply Hstay; rewrite E; reflexivity|].
    destruct (pub_step m rv s o) as [s' r] eqn:Es. cbn [fst] in *.
    destruct (op_too_long (ps_log s) o) eqn:Etl.
    { apply Hstay. inversion T; subst; try discriminate; reflexivity. }
    assert (Hreq := required_ok s n off o Hinv Hok Ea Etl).
    destruct (try_result_inv s n off _ _ _ s' r Hinv Hreq T) as ((_ & G2 & _) & _ & _ & Hr).
    pose proof (pi_n _ _ _ Hinv) as Hn.
    inversion T; subst; try (apply Hstay; reflexivity).
    + exists n, (off + op_required (ps_log s) o). split; [exact Hr|]. intros _ _. unfold spec_pos. rewrite <- G2. lia.
    + exists (n + 1), 0. split; [exact Hr|]. intros _ _. unfold spec_pos. rewrite <- G2. nia.
    + destruct Hr as [Hsame | (_ & Hr)]; [apply Hstay; exact Hsame|].
      exists n, (off + op_required (ps_log s) o). split; [exact Hr|]. intros _ _. unfold spec_pos. rewrite <- G2. lia.
  - destruct (env_step_inv n off s o Hinv Hok Ea) as [H1 (_ & G2 & _)].
    assert (E : pub_step m rv s o = env_step s o) by (destruct o; try discriminate; reflexivity). rewrite E.
    exists n, off. split; [exact H1|]. intros _ _. unfold spec_pos. rewrite <- G2. lia. Qed.

Lemma gets_link_shared m rv s n off o n' off' :
  pub_inv n off s -> op_ok (ps_log s) o -> pub_inv n' off' (fst (pub_step m rv s o)) ->
  (ps_closed s = false -> ps_closed (fst (pub_step m rv s o)) = false ->
     spec_pos (ps_log s) n off <= spec_pos (ps_log (fst (pub_step m rv s o))) n' off') ->
  gets_link (oop_of o) (pub_getters m s) (pub_getters m (fst (pub_step m rv s o))) = true.
Proof. intros Hinv Hok Hinv' Hmono. unfold gets_link, pub_getters, go_pos, go_win.
  destruct (ps_closed s) eqn:Ec; [unfold pub_position at 1; rewrite Ec; reflexivity|].
  rewrite (pub_position_spec m s n off Hinv Ec).
  destruct (ps_closed (fst (pub_step m rv s o))) eqn:Ec'; [unfold pub_position; rewrite Ec'; reflexivity|].
  rewrite (pub_position_spec m _ n' off' Hinv' Ec'). specialize (Hmono eq_refl eq_refl).
  assert (E : (spec_pos (ps_log s) n off <=? spec_pos (ps_log (fst (pub_step m rv s o))) n' off') = true) by lia. rewrite E. cbn [andb].
  destruct (is_append o) eqn:Ea.
  2:{ destruct o; try discriminate; reflexivity. }
  assert (Hgoal : match pub_window m s with
                  | Ok w => if w <=? 0 then spec_pos (ps_log (fst (pub_step m rv s o))) n' off' =? spec_pos (ps_log s) n off else true
                  | _ => true end = true).
  { destruct (pub_window m s) as [w| | | |] eqn:Ew; try reflexivity. destruct (w <=? 0) eqn:Ele; [|reflexivity].
    (* the window was computed from limit - position: when it is <= 0 and did not overflow the offer is refused; when it
       overflowed (release build, wrapped) the true difference is below -2^63, so the limit is below the position as well *)
    assert (Hlim : l_limit (ps_log s) <= spec_pos (ps_log s) n off).
    { unfold pub_window, window_of in Ew. rewrite Ec in Ew. rewrite (pub_position_spec m s n off Hinv Ec) in Ew. cbn [bind] in Ew.
      unfold sub64, chk64 in Ew. pose proof (spec_pos_range s n off Hinv) as Hr. pose proof (inv_off_bound s n off Hinv) as [_ Htl].
      destruct (in_i64 (l_limit (ps_log s) - spec_pos (ps_log s) n off)) eqn:Ei.
      - inversion Ew. lia.
      - destruct m; [discriminate|]. inversion Ew as [Hw]. clear Ew.
        (* wrapped: w = d + k * 2^64 with d outside i64 *)
        unfold in_i64 in Ei. destruct (Z.le_gt_cases (l_limit (ps_log s)) (spec_pos (ps_log s) n off)) as [Hle | Hgt]; [exact Hle|].
        exfalso. assert (Hd : two63 <= l_limit (ps_log s) - spec_pos (ps_log s) n off) by lia.
        (* then limit >= 2^63: but w = wrap64 d <= 0 means d - 2^64 ... the limit itself is an i64 in the implementation;
           in the model l_limit is any Z, so bound it through op_ok's limit contract *)
        pose proof (pi_limit _ _ _ Hinv) as Hlc. unfold limit_ok in Hlc. unfold two63, two31 in *.
        assert (l_tlen (ps_log s) / 2 <= l_tlen (ps_log s)) by (apply Z.div_le_upper_bound; lia). nia. }
    rewrite (pub_refuse_at_limit m rv s n off o Hinv Hok Ea Ec Hlim) in *. cbn [fst] in *.
    assert (Heq : spec_pos (ps_log s) n' off' = spec_pos (ps_log s) n off).
    { pose proof (pub_position_spec m s n off Hinv Ec) as P1. pose proof (pub_position_spec m s n' off' Hinv' Ec) as P2. congruence. }
    lia. }
  destruct o; try discriminate; exact Hgoal. Qed.

Theorem oracle_gets_from m rv ops : forall s n off n0 off0,
  pub_inv n off s -> hist_ok (ps_log s) ops ->
  holds_gets_from (geom_of (ps_log s) n0 off0) false (env_of s) (pub_getters m s) (map oop_of ops) (pub_gets_trace m rv s ops) = true.
Proof. induction ops as [|o r IH]; intros s n off n0 off0 Hinv Hok; [reflexivity|].
  inversion Hok as [|? ? Ho Hr]; subst. cbn [map pub_gets_trace holds_gets_from].
  destruct (position_step m rv s n off o Hinv Ho) as (n' & off' & Hinv' & Hmono).
  destruct (pub_step_inv m rv s n off o Hinv Ho) as (_ & _ & _ & Hg').
  rewrite (env_after_step m rv s n off o Hinv Ho). rewrite <- (geom_of_same _ _ n0 off0 Hg').
  rewrite (getters_ok m _ n' off' n0 off0 Hinv').
  rewrite (gets_link_shared m rv s n off o n' off' Hinv Ho Hinv' Hmono). cbn [andb].
  apply (IH _ n' off'); [exact Hinv'|].
  eapply Forall_impl; [|exact Hr]. intros a. apply op_ok_same. destruct Hg' as (_ & H & _). exact H. Qed.

Theorem oracle_gets_shared m rv h ops : handover_ok h -> hist_ok (handover_log h) ops ->
  holds_gets (geom_of_handover h) false (map oop_of ops)
             (pub_statics (handover_log h), pub_getters m (pub_init (handover_log h)) :: pub_gets_trace m rv (pub_init (handover_log h)) ops) = true.
Proof. intros (Hg & Hn & Ho) Hok.
  pose proof (handed_over_inv (h_init h) (h_tlen h) (h_mtu h) (h_session h) (h_stream h) (h_n0 h) (h_off0 h) Hg Hn Ho) as Hinv.
  fold (handover_log h) in Hinv. unfold holds_gets. cbn [fst snd].
  pose proof (statics_ok (handover_log h) (h_n0 h) (h_off0 h) (pi_legal _ _ _ Hinv)) as Hst.
  pose proof (getters_ok m _ _ _ (h_n0 h) (h_off0 h) Hinv) as Hg0.
  pose proof (oracle_gets_from m rv ops _ _ _ (h_n0 h) (h_off0 h) Hinv Hok) as Hrun.
  change (geom_of (ps_log (pub_init (handover_log h))) (h_n0 h) (h_off0 h)) with (geom_of_handover h) in *.
  change (geom_of (handover_log h) (h_n0 h) (h_off0 h)) with (geom_of_handover h) in *.
  change (env_of (pub_init (handover_log h))) with env0 in *.
  rewrite Hst, Hg0, Hrun. rewrite !Bool.andb_true_r. cbn [andb].
  unfold go_pos, pub_getters. rewrite (pub_position_spec m _ _ _ Hinv eq_refl). unfold spec_pos. cbn [ps_log pub_init].
  change (l_tlen (handover_log h)) with (h_tlen h). rewrite Z.min_l by lia.
  unfold geom_of_handover. cbn [g_n0 g_tlen g_off0]. apply out_eqb_ok. Qed.

(* ---- whole histories, exclusive publication ---- *)
Definition xlimit_small (x : xpub) : Prop := l_limit (xlog x) < two63.

Lemma xposition_step m rv x n o : xpub_inv n x -> xlimit_small x -> op_ok (xlog x) o ->
  exists n', xpub_inv n' (fst (xpub_step m rv x o)) /\ xlimit_small (fst (xpub_step m rv x o)) /\
    same_geom (xlog x) (xlog (fst (xpub_step m rv x o))) /\
    xspec_pos x <= xspec_pos (fst (xpub_step m rv x o)) /\
    (is_xappend o = true -> ps_closed (x_pub x) = false -> l_limit (xlog x) <= xspec_pos x -> fst (xpub_step m rv x o) = x).
Proof. intros Hinv Hlim Hok. pose proof Hinv as [Hleg Hn Hidx Htid Hbeg Hoff Hcnt]. pose proof (legal_tlen _ Hleg) as [Htl _].
  assert (Hstay : fst (xpub_step m rv x o) = x -> exists n', xpub_inv n' (fst (xpub_step m rv x o)) /\ xlimit_small (fst (xpub_step m rv x o)) /\
            same_geom (xlog x) (xlog (fst (xpub_step m rv x o))) /\ xspec_pos x <= xspec_pos (fst (xpub_step m rv x o)) /\
            (is_xappend o = true -> ps_closed (x_pub x) = false -> l_limit (xlog x) <= xspec_pos x -> fst (xpub_step m rv x o) = x)).
  { intros E. rewrite E. exists n. split; [assumption|]. split; [assumption|]. split; [apply same_geom_refl|]. split; [lia|auto]. }
  destruct (is_xappend o) eqn:Ea.
  - destruct (xpub_step_cases m rv x n Hinv o Hok Ea) as [(len & _ & _ & E) | T]; [apply Hstay; rewrite E; reflexivity|].
    destruct (xpub_step m rv x o) as [x' r] eqn:Es. cbn [fst] in *.
    destruct (op_too_long (xlog x) o) eqn:Etl.
    { apply Hstay. inversion T; subst; try discriminate; reflexivity. }
    assert (Hreq := xrequired_ok x n o Hinv Hok Ea Etl).
    destruct (xtry_result_inv x n _ _ _ x' r Hinv Hreq T) as (Hg & Hl & _ & Hr).
    assert (Hcnt2 : l_count (xlog x) - n = 0) by lia. clear Hcnt.
    assert (Hlim' : xlimit_small x') by (unfold xlimit_small; rewrite Hl; exact Hlim).
    inversion T; subst; try (apply Hstay; reflexivity).
    + exists n. split; [exact Hr|]. split; [exact Hlim'|]. split; [exact Hg|]. split; [unfold xspec_pos; cbn [x_begin x_off]; lia|]. intros _ _ Hle. lia.
    + exists (n + 1). split; [exact Hr|]. split; [exact Hlim'|]. split; [exact Hg|]. split; [unfold xspec_pos; cbn [x_begin x_off]; lia|]. intros _ _ Hle. lia.
    + destruct Hr as [Hsame | (_ & Hr & _)]; [apply Hstay; exact Hsame|].
      exists n. split; [exact Hr|]. split; [exact Hlim'|]. split; [exact Hg|]. split; [unfold xspec_pos; cbn [x_begin x_off]; lia|]. intros _ _ Hle. lia.
  - destruct (is_append o) eqn:Eapp.
    { apply Hstay. destruct o; try discriminate. reflexivity. }
    destruct (xpub_step_inv m rv x n o Hinv Hok) as (n' & Hinv' & Hg').
    rewrite (xstep_env m rv x o Eapp) in *. cbn [fst] in *.
    exists n'. split; [exact Hinv'|]. split; [|split; [exact Hg'|split; [|discriminate]]].
    + unfold xlimit_small, x_with_pub, xlog in *. cbn [x_pub].
      destruct o; try discriminate; cbn [env_step fst with_log ps_log]; try exact Hlim.
      * unfold pub_commit, claim_apply. destruct (ps_claim (x_pub x)) as [[[i o0] fl]|]; [|exact Hlim]. destruct (fl - HDR <? zlen body); exact Hlim.
      * unfold claim_apply. destruct (ps_claim (x_pub x)) as [[[i o0] fl]|]; exact Hlim.
      * cbn [set_limit l_limit]. cbn [op_ok] in Hok. unfold limit_ok in Hok.
        assert (l_tlen (ps_log (x_pub x)) / 2 <= l_tlen (ps_log (x_pub x))) by (apply Z.div_le_upper_bound; lia). unfold two63, two31 in *. nia.
    + unfold xspec_pos, x_with_pub. cbn [x_begin x_off]. lia. Qed.

Lemma xgets_link m rv x n o n' : xpub_inv n x -> xlimit_small x -> op_ok (xlog x) o -> xpub_inv n' (fst (xpub_step m rv x o)) ->
  xspec_pos x <= xspec_pos (fst (xpub_step m rv x o)) ->
  (is_xappend o = true -> ps_closed (x_pub x) = false -> l_limit (xlog x) <= xspec_pos x -> fst (xpub_step m rv x o) = x) ->
  gets_link (xoop_of o) (xpub_getters m x) (xpub_getters m (fst (xpub_step m rv x o))) = true.
Proof. intros Hinv Hlim Hok Hinv' Hmono Hstay. unfold gets_link, xpub_getters, go_pos, go_win.
  destruct (ps_closed (x_pub x)) eqn:Ec; [unfold xpub_position at 1; rewrite Ec; reflexivity|].
  rewrite (xpub_position_spec m x n Hinv Ec).
  destruct (ps_closed (x_pub (fst (xpub_step m rv x o)))) eqn:Ec'; [unfold xpub_position; rewrite Ec'; reflexivity|].
  rewrite (xpub_position_spec m _ n' Hinv' Ec').
  assert (E : (xspec_pos x <=? xspec_pos (fst (xpub_step m rv x o))) = true) by lia. rewrite E. cbn [andb].
  destruct (is_xappend o) eqn:Ea.
  2:{ destruct o; try discriminate; reflexivity. }
  assert (Hgoal : match xpub_window m x with
                  | Ok w => if w <=? 0 then xspec_pos (fst (xpub_step m rv x o)) =? xspec_pos x else true
                  | _ => true end = true).
  { destruct (xpub_window m x) as [w| | | |] eqn:Ew; try reflexivity. destruct (w <=? 0) eqn:Ele; [|reflexivity].
    assert (Hl : l_limit (xlog x) <= xspec_pos x).
    { unfold xpub_window, window_of in Ew. rewrite Ec in Ew. rewrite (xpub_position_spec m x n Hinv Ec) in Ew. cbn [bind] in Ew.
      unfold sub64, chk64 in Ew. pose proof (xspec_pos_range x n Hinv) as Hr.
      destruct (in_i64 (l_limit (xlog x) - xspec_pos x)) eqn:Ei.
      - inversion Ew. lia.
      - destruct m; [discriminate|]. unfold in_i64 in Ei. unfold xlimit_small in Hlim. lia. }
    rewrite (Hstay eq_refl eq_refl Hl). lia. }
  destruct o; try discriminate; exact Hgoal. Qed.

Theorem xoracle_gets_from m rv ops : forall x n n0 off0,
  xpub_inv n x -> xlimit_small x -> hist_ok (xlog x) ops ->
  holds_gets_from (geom_of (xlog x) n0 off0) true (env_of (x_pub x)) (xpub_getters m x) (map xoop_of ops) (xpub_gets_trace m rv x ops) = true.
Proof. induction ops as [|o r IH]; intros x n n0 off0 Hinv Hlim Hok; [reflexivity|].
  inversion Hok as [|? ? Ho Hr]; subst. cbn [map xpub_gets_trace holds_gets_from].
  destruct (xposition_step m rv x n o Hinv Hlim Ho) as (n' & Hinv' & Hlim' & Hg' & Hmono & Hstay).
  rewrite (xenv_after_step m rv x n o Hinv Ho). rewrite <- (geom_of_same _ _ n0 off0 Hg').
  rewrite (xgetters_ok m _ n' n0 off0 Hinv').
  rewrite (xgets_link m rv x n o n' Hinv Hlim Ho Hinv' Hmono Hstay). cbn [andb].
  apply (IH _ n'); auto.
  eapply Forall_impl; [|exact Hr]. intros a. apply op_ok_same. destruct Hg' as (_ & H & _). exact H. Qed.

Theorem oracle_gets_exclusive m rv h ops x0 : handover_ok h -> hist_ok (handover_log h) ops -> xpub_new (handover_log h) = Ok x0 ->
  holds_gets (geom_of_handover h) true (map xoop_of ops)
             (pub_statics (xlog x0), xpub_getters m x0 :: xpub_gets_trace m rv x0 ops) = true.
Proof. intros Hh Hok Hnew. pose proof Hh as (Hg & Hn & Ho).
  destruct (xpub_new_handed_over (h_init h) (h_tlen h) (h_mtu h) (h_session h) (h_stream h) (h_n0 h) (h_off0 h) Hg Hn Ho)
    as (x1 & Hnew1 & Hinv & Hlog & Hpos).
  unfold handover_log in Hnew. rewrite Hnew1 in Hnew. inversion Hnew; subst x1. fold (handover_log h) in *.
  assert (Hc : ps_closed (x_pub x0) = false /\ env_of (x_pub x0) = env0).
  { unfold xpub_new in Hnew1. destruct (index_by_term_count _ <? 0); [discriminate|]. inversion Hnew1. split; reflexivity. }
  destruct Hc as [Hc Henv].
  assert (Hlim : xlimit_small x0) by (unfold xlimit_small; rewrite Hlog; unfold two63; cbn; lia).
  unfold holds_gets. cbn [fst snd].
  pose proof (statics_ok (xlog x0) (h_n0 h) (h_off0 h) (xi_legal _ _ Hinv)) as Hst.
  pose proof (xgetters_ok m x0 _ (h_n0 h) (h_off0 h) Hinv) as Hg0.
  pose proof (xoracle_gets_from m rv ops x0 _ (h_n0 h) (h_off0 h) Hinv Hlim) as Hrun. rewrite Hlog in Hrun. specialize (Hrun Hok).
  rewrite Henv in *. rewrite Hlog in Hst, Hg0.
  change (geom_of (handover_log h) (h_n0 h) (h_off0 h)) with (geom_of_handover h) in *.
  rewrite Hlog. rewrite Hst, Hg0, Hrun. rewrite !Bool.andb_true_r. cbn [andb].
  unfold go_pos, xpub_getters. rewrite (xpub_position_spec m x0 _ Hinv Hc). rewrite Hpos.
  unfold geom_of_handover. cbn [g_n0 g_tlen g_off0]. apply out_eqb_ok. Qed.
