(* C13: every DriverProxy request that fits the 512-byte command buffer is written as the record the
   protocol prescribes, and the protocol-side decoder recovers exactly the caller's arguments;
   a request that does not fit is rejected and nothing is written. *)
Require Import V.Base.MachineInt V.Generated.GenConsts V.Generated.GenLayout.
Require Import V.Model.WireBytes V.Model.WireCodes V.Model.WireCommands V.Proofs.WireBytesProofs.
From Coq Require Import ZifyBool.
Open Scope Z_scope.

Lemma put_field' fs k g f off d :
  nth_error fs k = Some g -> fsize g = fsize f -> off = foff fs k -> d = fenc f ->
  put_bytes (fencs fs) off d = fencs (upd k f fs).
Proof. intros H E -> ->. apply (put_field fs k g f H E). Qed.

(* write field f over the blank number k of the buffer (a field list) *)
Ltac side := first [ reflexivity | cbn [foff fsize]; lia ].
Ltac wr k f :=
  match goal with |- context [put_bytes (fencs ?fs) ?off ?d] =>
    rewrite (put_field' fs k _ f off d eq_refl); [ cbn [upd] | side | side | reflexivity ]
  end.

Lemma bput_bytes_ok buf off d : off + Zlength d <= CMD_BUF -> bput_bytes buf off d = Ok (put_bytes buf off d).
Proof. intros H. unfold bput_bytes, bcheck. replace (off + Zlength d <=? CMD_BUF) with true by lia. reflexivity. Qed.
Lemma bput_i32_ok buf off v : off + 4 <= CMD_BUF -> bput_i32 buf off v = Ok (put_bytes buf off (enc_i32 v)).
Proof. intros H. unfold bput_i32. apply bput_bytes_ok. rewrite Zlength_enc_i32. exact H. Qed.
Lemma bput_string_ok buf off s :
  off + Zlength s + 4 <= CMD_BUF ->
  bput_string buf off s = Ok (put_bytes (put_bytes buf off (enc_i32 (Zlength s))) (off + 4) s).
Proof. intros H. pose proof (Zlength_nonneg s). unfold bput_string, bcheck.
  replace (off + (Zlength s + 4) <=? CMD_BUF) with true by lia.
  rewrite bput_i32_ok by lia. cbn [bind]. apply bput_bytes_ok. lia. Qed.

Lemma small_i32 n : 0 <= n <= CMD_BUF -> in_i32 n = true.
Proof. unfold CMD_BUF, in_i32, two31. lia. Qed.

(* the zeroed scratch buffer as a list of blanks *)
Lemma zeros_blanks (ls : list Z) : (forall x, In x ls -> 0 <= x) ->
  fencs (map FPad ls) = zeros (fold_right Z.add 0 ls).
Proof. induction ls; intros H; cbn [map fencs fenc fold_right].
  - reflexivity.
  - rewrite IHls by (intros; apply H; right; assumption).
    assert (0 <= a) by (apply H; left; reflexivity).
    assert (0 <= fold_right Z.add 0 ls).
    { clear IHls. induction ls; cbn [fold_right]; [lia|].
      assert (0 <= a0) by (apply H; right; left; reflexivity).
      assert (0 <= fold_right Z.add 0 ls) by (apply IHls; intros x [Hx|Hx]; apply H; [left|right;right]; assumption). lia. }
    symmetry. apply zeros_app; assumption. Qed.

Ltac blanks ls :=
  replace (zeros CMD_BUF) with (fencs (map FPad ls))
    by (rewrite zeros_blanks; [ f_equal; unfold CMD_BUF; cbn [fold_right]; lia
                              | cbn [In]; intros ? Hin; repeat (destruct Hin as [Hin|Hin]; [subst; unfold CMD_BUF in *; lia|]); destruct Hin ]);
  cbn [map].

(* ---- fill = the protocol's record followed by the untouched zeros ---- *)
Definition fill_spec (cl corr : Z) (r : request) : Prop :=
  fill cl corr r = Ok (fencs (request_fields cl corr r ++ [FPad (CMD_BUF - spec_length r)]), spec_length r).

Lemma fill_publication cl corr excl ch s :
  spec_length (RqAddPublication excl ch s) <= CMD_BUF -> fill_spec cl corr (RqAddPublication excl ch s).
Proof. intros H. unfold fill_spec. cbn [spec_length] in *. pose proof (Zlength_nonneg ch) as Hn.
  cbn [fill request_fields app]. unfold set_i64, set_i32, put_i64, put_i32, OFF_client_id, OFF_correlation_id.
  blanks [8; 8; 4; 4; Zlength ch; CMD_BUF - (24 + Zlength ch)].
  wr 0%nat (FI64 cl). wr 1%nat (FI64 corr). wr 2%nat (FI32 s).
  rewrite bput_string_ok by (change OFF_PublicationMessageDefn_channel_length with 20; lia). cbn [bind].
  wr 3%nat (FI32 (Zlength ch)). wr 4%nat (FRaw ch).
  match goal with |- context [get_i32 (fencs ?fs) ?o] =>
    replace (get_i32 (fencs fs) o) with (Zlength ch)
      by (symmetry; apply (fencs_get_i32 fs 3%nat); [reflexivity | apply small_i32; lia]) end.
  reflexivity. Qed.

Lemma fill_remove cl corr k reg : fill_spec cl corr (RqRemove k reg).
Proof. unfold fill_spec. cbn [fill request_fields app spec_length].
  unfold set_i64, put_i64, OFF_client_id, OFF_correlation_id.
  blanks [8; 8; 8; CMD_BUF - 24].
  wr 0%nat (FI64 cl). wr 1%nat (FI64 corr). wr 2%nat (FI64 reg). reflexivity. Qed.

Lemma fill_subscription cl corr ch s :
  spec_length (RqAddSubscription ch s) <= CMD_BUF -> fill_spec cl corr (RqAddSubscription ch s).
Proof. intros H. unfold fill_spec. cbn [spec_length] in *. pose proof (Zlength_nonneg ch) as Hn.
  cbn [fill request_fields app]. unfold set_i64, set_i32, put_i64, put_i32, OFF_client_id, OFF_correlation_id.
  blanks [8; 8; 8; 4; 4; Zlength ch; CMD_BUF - (32 + Zlength ch)].
  wr 0%nat (FI64 cl). wr 2%nat (FI64 (-1)). wr 1%nat (FI64 corr). wr 3%nat (FI32 s).
  rewrite bput_string_ok by (change OFF_SubscriptionMessageDefn_channel_length with 28; lia). cbn [bind].
  wr 4%nat (FI32 (Zlength ch)). wr 5%nat (FRaw ch).
  match goal with |- context [get_i32 (fencs ?fs) ?o] =>
    replace (get_i32 (fencs fs) o) with (Zlength ch)
      by (symmetry; apply (fencs_get_i32 fs 4%nat); [reflexivity | apply small_i32; lia]) end.
  reflexivity. Qed.

Lemma fill_correlated cl corr r : r = RqKeepalive \/ r = RqClientClose -> fill_spec cl corr r.
Proof. intros [-> | ->]; unfold fill_spec; cbn [fill request_fields app spec_length];
  unfold set_i64, put_i64, OFF_client_id, OFF_correlation_id;
  blanks [8; 8; CMD_BUF - 16]; wr 0%nat (FI64 cl); wr 1%nat (FI64 corr); reflexivity. Qed.

Lemma fill_destination cl corr k reg ch :
  spec_length (RqDestination k reg ch) <= CMD_BUF -> fill_spec cl corr (RqDestination k reg ch).
Proof. intros H. unfold fill_spec. cbn [spec_length] in *. pose proof (Zlength_nonneg ch) as Hn.
  cbn [fill request_fields app]. unfold set_i64, set_i32, put_i64, put_i32, OFF_client_id, OFF_correlation_id.
  blanks [8; 8; 8; 4; Zlength ch; CMD_BUF - (28 + Zlength ch)].
  wr 0%nat (FI64 cl). wr 2%nat (FI64 reg). wr 1%nat (FI64 corr).
  rewrite bput_string_ok by (change OFF_DestinationMessageDefn_channel_length with 24; lia). cbn [bind].
  wr 3%nat (FI32 (Zlength ch)). wr 4%nat (FRaw ch).
  match goal with |- context [get_i32 (fencs ?fs) ?o] =>
    replace (get_i32 (fencs fs) o) with (Zlength ch)
      by (symmetry; apply (fencs_get_i32 fs 3%nat); [reflexivity | apply small_i32; lia]) end.
  reflexivity. Qed.

Lemma fill_terminate cl corr tok :
  spec_length (RqTerminateDriver tok) <= CMD_BUF -> fill_spec cl corr (RqTerminateDriver tok).
Proof. intros H. unfold fill_spec. cbn [spec_length] in *. pose proof (Zlength_nonneg tok) as Hn.
  cbn [fill request_fields app]. unfold set_i64, set_i32, put_i64, put_i32, OFF_client_id, OFF_correlation_id.
  blanks [8; 8; 4; Zlength tok; CMD_BUF - (20 + Zlength tok)].
  wr 0%nat (FI64 cl). wr 1%nat (FI64 corr). wr 2%nat (FI32 (Zlength tok)).
  assert (T0 : Zlength tok = 0 -> tok = []).
  { intros Z0. destruct tok; [reflexivity | rewrite Zlength_cons in Z0; pose proof (Zlength_nonneg tok); lia]. }
  destruct (Zlength tok >? 0) eqn:E.
  - rewrite bput_bytes_ok by (change TERMINATE_DRIVER_LENGTH with 20; lia). cbn [bind].
    wr 3%nat (FRaw tok).
    match goal with |- context [get_i32 (fencs ?fs) ?o] =>
      replace (get_i32 (fencs fs) o) with (Zlength tok)
        by (symmetry; apply (fencs_get_i32 fs 2%nat); [reflexivity | apply small_i32; lia]) end.
    reflexivity.
  - cbn [bind]. rewrite (T0 ltac:(lia)) in *.
    match goal with |- context [get_i32 (fencs ?fs) ?o] =>
      replace (get_i32 (fencs fs) o) with (Zlength (@nil Z))
        by (symmetry; apply (fencs_get_i32 fs 2%nat); [reflexivity | reflexivity]) end.
    reflexivity. Qed.

Lemma fill_counter cl corr t key label :
  spec_length (RqAddCounter t key label) <= CMD_BUF -> fill_spec cl corr (RqAddCounter t key label).
Proof. intros H. unfold fill_spec. cbn [spec_length] in *.
  pose proof (Zlength_nonneg key) as Hk. pose proof (Zlength_nonneg label) as Hl.
  pose proof (align4_pad _ Hk) as A. pose proof (pad4_range (Zlength key)) as P.
  cbn [fill request_fields app]. unfold set_i64, set_i32, put_i64, put_i32, OFF_client_id, OFF_correlation_id.
  change COUNTER_MESSAGE_LENGTH with 20.
  blanks [8; 8; 4; 4; Zlength key; pad4 (Zlength key); 4; Zlength label;
          CMD_BUF - (24 + align4 (Zlength key) + 4 + Zlength label)].
  wr 0%nat (FI64 cl). wr 1%nat (FI64 corr). wr 2%nat (FI32 t).
  rewrite bput_i32_ok by (unfold CMD_BUF in *; lia). cbn [bind].
  wr 3%nat (FI32 (Zlength key)).
  (* the key bytes, written only when the key is not empty *)
  match goal with |- context [fencs ?fs] => set (fs3 := fs) end.
  set (fs4 := upd 4%nat (FRaw key) fs3).
  assert (K : (if Zlength key >? 0 then bput_bytes (fencs fs3) (20 + 4) key else Ok (fencs fs3)) = Ok (fencs fs4)).
  { destruct (Zlength key >? 0) eqn:E.
    - rewrite bput_bytes_ok by (unfold CMD_BUF in *; lia). f_equal. unfold fs3.
      wr 4%nat (FRaw key). reflexivity.
    - assert (Z0 : Zlength key = 0) by lia.
      assert (T : key = []) by (destruct key; [reflexivity | rewrite Zlength_cons in Z0; pose proof (Zlength_nonneg key); lia]).
      unfold fs4, fs3. subst key. reflexivity. }
  rewrite K. cbn [bind]. unfold fs4, fs3. cbn [upd]. clear K fs4 fs3.
  match goal with |- context [fencs ?fs] => set (fs4 := fs) end.
  assert (L : get_i32 (fencs fs4) 20 = Zlength key).
  { apply (fencs_get_i32 fs4 3%nat); [reflexivity | apply small_i32; unfold CMD_BUF in *; lia]. }
  rewrite L.
  rewrite bput_string_ok by (unfold CMD_BUF in *; lia). cbn [bind]. unfold fs4.
  wr 6%nat (FI32 (Zlength label)). wr 7%nat (FRaw label).
  match goal with |- context [fencs ?fs] => set (fs7 := fs) end.
  assert (L2 : get_i32 (fencs fs7) 20 = Zlength key).
  { apply (fencs_get_i32 fs7 3%nat); [reflexivity | apply small_i32; unfold CMD_BUF in *; lia]. }
  rewrite L2.
  assert (L3 : get_i32 (fencs fs7) (20 + 4 + align4 (Zlength key)) = Zlength label).
  { replace (20 + 4 + align4 (Zlength key)) with (foff fs7 6) by (unfold fs7; cbn [foff fsize]; lia).
    apply (fencs_get_i32 fs7 6%nat); [reflexivity | apply small_i32; unfold CMD_BUF in *; lia]. }
  rewrite L3.
  replace (20 + 4 + align4 (Zlength key) + 4 + Zlength label) with (24 + align4 (Zlength key) + 4 + Zlength label) by lia.
  reflexivity. Qed.

Lemma fill_fits cl corr r : spec_length r <= CMD_BUF -> fill_spec cl corr r.
Proof. intros H. destruct r.
  - apply fill_publication, H. - apply fill_remove. - apply fill_subscription, H.
  - apply fill_correlated. left. reflexivity.
  - apply fill_destination, H. - apply fill_counter, H.
  - apply fill_correlated. right. reflexivity.
  - apply fill_terminate, H. Qed.

(* the length the repaired proxy checks is the protocol's record length *)
Lemma encoded_length_spec r : encoded_length r = spec_length r.
Proof. destruct r; cbn [encoded_length spec_length]; try reflexivity.
  all: change COUNTER_MESSAGE_LENGTH with 20; lia. Qed.

Lemma fsizes_request_fields cl corr r : fsizes (request_fields cl corr r) = spec_length r.
Proof. unfold fsizes. destruct r; cbn [request_fields length foff fsize spec_length]; try lia.
  pose proof (align4_pad _ (Zlength_nonneg key)). pose proof (pad4_range (Zlength key)). lia. Qed.

Theorem encode_fits cl drawn r :
  spec_length r <= CMD_BUF ->
  encode_cmd cl drawn r = Ok (request_cmd r, encode_cmd_spec cl (wire_correlation_id drawn r) r).
Proof. intros H. unfold encode_cmd. rewrite encoded_length_spec.
  replace (spec_length r >? CMD_BUF) with false by lia.
  rewrite (fill_fits cl (wire_correlation_id drawn r) r H). cbn [bind]. f_equal. f_equal.
  rewrite <- (fsizes_request_fields cl (wire_correlation_id drawn r) r). apply slice_prefix. Qed.

Theorem encode_rejects cl drawn r : CMD_BUF < spec_length r -> encode_cmd cl drawn r = Err TooLong.
Proof. intros H. unfold encode_cmd. rewrite encoded_length_spec.
  replace (spec_length r >? CMD_BUF) with true by lia. reflexivity. Qed.

(* ---- the protocol-side decoder on the protocol-side record ---- *)
Lemma get_lstr_fields fs k s off :
  nth_error fs k = Some (FI32 (Zlength s)) -> nth_error fs (S k) = Some (FRaw s) ->
  off = foff fs k -> in_i32 (Zlength s) = true ->
  get_lstr (fencs fs) off = Some (s, off + 4 + Zlength s).
Proof. intros H1 H2 -> Hi. unfold get_lstr.
  rewrite (fencs_get_i32 _ _ _ H1 Hi).
  pose proof (field_fits _ _ _ H2) as F. rewrite (foff_succ _ _ _ H1) in F. cbn [fsize] in F.
  rewrite Zlength_fencs. pose proof (Zlength_nonneg s).
  replace ((0 <=? Zlength s) && (foff fs k + 4 + Zlength s <=? fsizes fs)) with true by lia.
  replace (foff fs k + 4) with (foff fs (S k)) by (rewrite (foff_succ _ _ _ H1); reflexivity).
  rewrite (fencs_get_raw _ _ _ H2). reflexivity. Qed.

Ltac split_wf H :=
  repeat match type of H with
  | _ && _ = true => let H1 := fresh "W" in let H2 := fresh "W" in
      apply andb_prop in H; destruct H as [H1 H2]; try split_wf H1; try split_wf H2
  end.

Definition decodes (cl corr : Z) (r : request) : Prop :=
  decode_cmd_spec (protocol_code (request_cmd r)) (encode_cmd_spec cl corr r) = Some (cl, corr, r).

Lemma head_ids fs cl corr rest :
  fs = FI64 cl :: FI64 corr :: rest -> in_i64 cl = true -> in_i64 corr = true ->
  get_i64 (fencs fs) 0 = cl /\ get_i64 (fencs fs) 8 = corr /\ 16 <= Zlength (fencs fs).
Proof. intros -> Hc Hr. repeat split.
  - apply (fencs_get_i64 (FI64 cl :: FI64 corr :: rest) 0%nat); [reflexivity | assumption].
  - apply (fencs_get_i64 (FI64 cl :: FI64 corr :: rest) 1%nat); [reflexivity | assumption].
  - rewrite Zlength_fencs. unfold fsizes. cbn [length foff fsize]. pose proof (foff_nonneg rest (length rest)). lia. Qed.

Lemma decodes_publication cl corr excl ch s :
  in_i64 cl = true -> in_i64 corr = true -> wf_request (RqAddPublication excl ch s) = true ->
  spec_length (RqAddPublication excl ch s) <= CMD_BUF -> decodes cl corr (RqAddPublication excl ch s).
Proof. intros Hc Hr W L. cbn [wf_request] in W. split_wf W. cbn [spec_length] in L. pose proof (Zlength_nonneg ch) as Hn.
  unfold decodes, encode_cmd_spec. cbn [request_fields].
  set (fs := [FI64 cl; FI64 corr; FI32 s; FI32 (Zlength ch); FRaw ch]).
  destruct (head_ids fs cl corr _ eq_refl Hc Hr) as (E0 & E1 & E16).
  assert (Es : get_i32 (fencs fs) 16 = s) by (apply (fencs_get_i32 fs 2%nat); [reflexivity | assumption]).
  assert (El : get_lstr (fencs fs) 20 = Some (ch, 20 + 4 + Zlength ch))
    by (apply (get_lstr_fields fs 3%nat); [reflexivity | reflexivity | reflexivity | apply small_i32; lia]).
  assert (Z : Zlength (fencs fs) = 24 + Zlength ch) by (rewrite Zlength_fencs; unfold fsizes, fs; cbn [length foff fsize]; lia).
  unfold decode_cmd_spec. replace (16 <=? Zlength (fencs fs)) with true by lia.
  destruct excl; cbn [request_cmd protocol_code]; unfold decode_body;
    match goal with |- context [if ?c then _ else _] => change c with true end; cbv iota;
    rewrite El, Z, E0, E1, Es;
    replace (20 <=? 24 + Zlength ch) with true by lia;
    replace (20 + 4 + Zlength ch =? 24 + Zlength ch) with true by lia; reflexivity. Qed.

Lemma decodes_remove cl corr k reg :
  in_i64 cl = true -> in_i64 corr = true -> wf_request (RqRemove k reg) = true -> decodes cl corr (RqRemove k reg).
Proof. intros Hc Hr W. cbn [wf_request] in W.
  unfold decodes, encode_cmd_spec. cbn [request_fields].
  set (fs := [FI64 cl; FI64 corr; FI64 reg]).
  destruct (head_ids fs cl corr _ eq_refl Hc Hr) as (E0 & E1 & E16).
  assert (Es : get_i64 (fencs fs) 16 = reg) by (apply (fencs_get_i64 fs 2%nat); [reflexivity | assumption]).
  assert (Z : Zlength (fencs fs) = 24) by (rewrite Zlength_fencs; reflexivity).
  unfold decode_cmd_spec. rewrite Z. change (16 <=? 24) with true. cbv iota.
  destruct k; cbn [request_cmd protocol_code]; unfold decode_body;
    match goal with |- context [if ?c then _ else _] => change c with false end; cbv iota;
    match goal with |- context [if ?c then _ else _] => change c with true end; cbv iota;
    rewrite Z, E0, E1, Es; reflexivity. Qed.

Lemma decodes_subscription cl corr ch s :
  in_i64 cl = true -> in_i64 corr = true -> wf_request (RqAddSubscription ch s) = true ->
  spec_length (RqAddSubscription ch s) <= CMD_BUF -> decodes cl corr (RqAddSubscription ch s).
Proof. intros Hc Hr W L. cbn [wf_request] in W. split_wf W. cbn [spec_length] in L. pose proof (Zlength_nonneg ch) as Hn.
  unfold decodes, encode_cmd_spec. cbn [request_fields].
  set (fs := [FI64 cl; FI64 corr; FI64 (-1); FI32 s; FI32 (Zlength ch); FRaw ch]).
  destruct (head_ids fs cl corr _ eq_refl Hc Hr) as (E0 & E1 & E16).
  assert (Er : get_i64 (fencs fs) 16 = -1) by (apply (fencs_get_i64 fs 2%nat); [reflexivity | reflexivity]).
  assert (Es : get_i32 (fencs fs) 24 = s) by (apply (fencs_get_i32 fs 3%nat); [reflexivity | assumption]).
  assert (El : get_lstr (fencs fs) 28 = Some (ch, 28 + 4 + Zlength ch))
    by (apply (get_lstr_fields fs 4%nat); [reflexivity | reflexivity | reflexivity | apply small_i32; lia]).
  assert (Z : Zlength (fencs fs) = 32 + Zlength ch) by (rewrite Zlength_fencs; unfold fsizes, fs; cbn [length foff fsize]; lia).
  unfold decode_cmd_spec. replace (16 <=? Zlength (fencs fs)) with true by lia.
  cbn [request_cmd protocol_code]. unfold decode_body.
  do 2 (match goal with |- context [if ?c then _ else _] => change c with false end; cbv iota).
  match goal with |- context [if ?c then _ else _] => change c with true end; cbv iota.
  rewrite El, Z, E0, E1, Es, Er.
  replace (28 <=? 32 + Zlength ch) with true by lia.
  replace (28 + 4 + Zlength ch =? 32 + Zlength ch) with true by lia. reflexivity. Qed.

Lemma decodes_correlated cl corr r :
  r = RqKeepalive \/ r = RqClientClose -> in_i64 cl = true -> in_i64 corr = true -> decodes cl corr r.
Proof. intros Hr' Hc Hr. unfold decodes, encode_cmd_spec.
  assert (F : request_fields cl corr r = [FI64 cl; FI64 corr]) by (destruct Hr' as [-> | ->]; reflexivity).
  rewrite F. set (fs := [FI64 cl; FI64 corr]).
  destruct (head_ids fs cl corr _ eq_refl Hc Hr) as (E0 & E1 & E16).
  assert (Z : Zlength (fencs fs) = 16) by (rewrite Zlength_fencs; reflexivity).
  unfold decode_cmd_spec. rewrite Z. change (16 <=? 16) with true. cbv iota.
  destruct Hr' as [-> | ->]; cbn [request_cmd protocol_code]; unfold decode_body; rewrite Z, E0, E1; reflexivity. Qed.

Lemma decodes_destination cl corr k reg ch :
  in_i64 cl = true -> in_i64 corr = true -> wf_request (RqDestination k reg ch) = true ->
  spec_length (RqDestination k reg ch) <= CMD_BUF -> decodes cl corr (RqDestination k reg ch).
Proof. intros Hc Hr W L. cbn [wf_request] in W. split_wf W. cbn [spec_length] in L. pose proof (Zlength_nonneg ch) as Hn.
  unfold decodes, encode_cmd_spec. cbn [request_fields].
  set (fs := [FI64 cl; FI64 corr; FI64 reg; FI32 (Zlength ch); FRaw ch]).
  destruct (head_ids fs cl corr _ eq_refl Hc Hr) as (E0 & E1 & E16).
  assert (Er : get_i64 (fencs fs) 16 = reg) by (apply (fencs_get_i64 fs 2%nat); [reflexivity | assumption]).
  assert (El : get_lstr (fencs fs) 24 = Some (ch, 24 + 4 + Zlength ch))
    by (apply (get_lstr_fields fs 3%nat); [reflexivity | reflexivity | reflexivity | apply small_i32; lia]).
  assert (Z : Zlength (fencs fs) = 28 + Zlength ch) by (rewrite Zlength_fencs; unfold fsizes, fs; cbn [length foff fsize]; lia).
  unfold decode_cmd_spec. replace (16 <=? Zlength (fencs fs)) with true by lia.
  destruct k; cbn [request_cmd protocol_code]; unfold decode_body;
    repeat (match goal with |- context [if ?c then _ else _] =>
              first [ change c with false; cbv iota | change c with true; cbv iota ] end);
    rewrite El, Z, E0, E1, Er;
    replace (24 <=? 28 + Zlength ch) with true by lia;
    replace (24 + 4 + Zlength ch =? 28 + Zlength ch) with true by lia; reflexivity. Qed.

Lemma decodes_terminate cl corr tok :
  in_i64 cl = true -> in_i64 corr = true -> wf_request (RqTerminateDriver tok) = true ->
  spec_length (RqTerminateDriver tok) <= CMD_BUF -> decodes cl corr (RqTerminateDriver tok).
Proof. intros Hc Hr W L. cbn [spec_length] in L. pose proof (Zlength_nonneg tok) as Hn.
  unfold decodes, encode_cmd_spec. cbn [request_fields].
  set (fs := [FI64 cl; FI64 corr; FI32 (Zlength tok); FRaw tok]).
  destruct (head_ids fs cl corr _ eq_refl Hc Hr) as (E0 & E1 & E16).
  assert (El : get_lstr (fencs fs) 16 = Some (tok, 16 + 4 + Zlength tok))
    by (apply (get_lstr_fields fs 2%nat); [reflexivity | reflexivity | reflexivity | apply small_i32; lia]).
  assert (Z : Zlength (fencs fs) = 20 + Zlength tok) by (rewrite Zlength_fencs; unfold fsizes, fs; cbn [length foff fsize]; lia).
  unfold decode_cmd_spec. replace (16 <=? Zlength (fencs fs)) with true by lia.
  cbn [request_cmd protocol_code]. unfold decode_body.
  repeat (match goal with |- context [if ?c then _ else _] =>
            first [ change c with false; cbv iota | change c with true; cbv iota ] end).
  rewrite El, Z, E0, E1.
  replace (16 <=? 20 + Zlength tok) with true by lia.
  replace (16 + 4 + Zlength tok =? 20 + Zlength tok) with true by lia. reflexivity. Qed.

Lemma decodes_counter cl corr t key label :
  in_i64 cl = true -> in_i64 corr = true -> wf_request (RqAddCounter t key label) = true ->
  spec_length (RqAddCounter t key label) <= CMD_BUF -> decodes cl corr (RqAddCounter t key label).
Proof. intros Hc Hr W L. cbn [wf_request] in W. split_wf W. cbn [spec_length] in L.
  pose proof (Zlength_nonneg key) as Hk. pose proof (Zlength_nonneg label) as Hl.
  pose proof (align4_pad _ Hk) as A. pose proof (pad4_range (Zlength key)) as P.
  unfold decodes, encode_cmd_spec. cbn [request_fields].
  set (fs := [FI64 cl; FI64 corr; FI32 t; FI32 (Zlength key); FRaw key; FPad (pad4 (Zlength key));
              FI32 (Zlength label); FRaw label]).
  destruct (head_ids fs cl corr _ eq_refl Hc Hr) as (E0 & E1 & E16).
  assert (Et : get_i32 (fencs fs) 16 = t) by (apply (fencs_get_i32 fs 2%nat); [reflexivity | assumption]).
  assert (Ek : get_lstr (fencs fs) 20 = Some (key, 20 + 4 + Zlength key))
    by (apply (get_lstr_fields fs 3%nat); [reflexivity | reflexivity | reflexivity | apply small_i32; unfold CMD_BUF in *; lia]).
  assert (Ao : align4 (20 + 4 + Zlength key) = foff fs 6).
  { unfold fs. cbn [foff fsize]. unfold align4, align in *.
    replace (20 + 4 + Zlength key + (4 - 1)) with (Zlength key + (4 - 1) + 6 * 4) by lia.
    rewrite Z.div_add by lia. lia. }
  assert (El : get_lstr (fencs fs) (align4 (20 + 4 + Zlength key)) = Some (label, align4 (20 + 4 + Zlength key) + 4 + Zlength label))
    by (apply (get_lstr_fields fs 6%nat); [reflexivity | reflexivity | exact Ao | apply small_i32; unfold CMD_BUF in *; lia]).
  assert (Z : Zlength (fencs fs) = 24 + align4 (Zlength key) + 4 + Zlength label)
    by (rewrite Zlength_fencs; unfold fsizes, fs; cbn [length foff fsize]; lia).
  assert (Ao' : align4 (20 + 4 + Zlength key) = 24 + align4 (Zlength key)).
  { rewrite Ao. unfold fs. cbn [foff fsize]. lia. }
  unfold decode_cmd_spec. replace (16 <=? Zlength (fencs fs)) with true by lia.
  cbn [request_cmd protocol_code]. unfold decode_body.
  repeat (match goal with |- context [if ?c then _ else _] =>
            first [ change c with false; cbv iota | change c with true; cbv iota ] end).
  rewrite Ek. cbv iota beta. rewrite El. rewrite Z, E0, E1, Et.
  replace (20 <=? 24 + align4 (Zlength key) + 4 + Zlength label) with true by lia.
  replace (align4 (20 + 4 + Zlength key) + 4 + Zlength label =? 24 + align4 (Zlength key) + 4 + Zlength label) with true by lia.
  reflexivity. Qed.

Theorem decode_spec_encode_spec cl corr r :
  in_i64 cl = true -> in_i64 corr = true -> wf_request r = true -> spec_length r <= CMD_BUF ->
  decode_cmd_spec (protocol_code (request_cmd r)) (encode_cmd_spec cl corr r) = Some (cl, corr, r).
Proof. intros Hc Hr W L. destruct r.
  - apply decodes_publication; assumption. - apply decodes_remove; assumption.
  - apply decodes_subscription; assumption. - apply decodes_correlated; auto.
  - apply decodes_destination; assumption. - apply decodes_counter; assumption.
  - apply decodes_correlated; auto. - apply decodes_terminate; assumption. Qed.

(* the request types' codes as compiled are the protocol's (computed for the 14 request types) *)
Lemma request_code r : to_id (request_cmd r) = protocol_code (request_cmd r).
Proof. destruct r; try destruct exclusive; try destruct k; reflexivity. Qed.

Lemma wire_correlation_id_range drawn r : in_i64 drawn = true -> in_i64 (wire_correlation_id drawn r) = true.
Proof. intros H. destruct r; cbn [wire_correlation_id]; try assumption; reflexivity. Qed.

(* C13_decode *)
Theorem encode_decodes cl drawn r c bs :
  in_i64 cl = true -> in_i64 drawn = true -> wf_request r = true ->
  encode_cmd cl drawn r = Ok (c, bs) ->
  c = request_cmd r /\ to_id c = protocol_code (request_cmd r) /\
  bs = encode_cmd_spec cl (wire_correlation_id drawn r) r /\ Zlength bs = spec_length r /\ spec_length r <= CMD_BUF /\
  decode_cmd_spec (to_id c) bs = Some (cl, wire_correlation_id drawn r, r).
Proof. intros Hc Hd W E.
  destruct (Z_le_gt_dec (spec_length r) CMD_BUF) as [L|G].
  - rewrite (encode_fits cl drawn r L) in E. inversion E; subst c bs. clear E.
    split; [reflexivity|]. split; [apply request_code|]. split; [reflexivity|].
    split; [unfold encode_cmd_spec; rewrite Zlength_fencs; apply fsizes_request_fields|].
    split; [exact L|].
    rewrite request_code. apply decode_spec_encode_spec; try assumption. apply wire_correlation_id_range, Hd.
  - rewrite (encode_rejects cl drawn r ltac:(lia)) in E. discriminate. Qed.

(* a rejected request leaves the ring untouched and draws no correlation id *)
Theorem proxy_call_rejects c0 r :
  CMD_BUF < spec_length r -> proxy_call c0 r = (Err TooLong, [], 0, wrap64 (c0 + 1)).
Proof. intros H. unfold proxy_call. rewrite encode_rejects by assumption. reflexivity. Qed.

Theorem proxy_call_fits c0 r :
  spec_length r <= CMD_BUF ->
  proxy_call c0 r =
    (Ok (if draws_correlation_id r then wrap64 (c0 + 1) else 0),
     [(to_id (request_cmd r), encode_cmd_spec c0 (wire_correlation_id (wrap64 (c0 + 1)) r) r)],
     align (spec_length r + RING_HEADER) 8,
     if draws_correlation_id r then wrap64 (c0 + 2) else wrap64 (c0 + 1)).
Proof. intros H. unfold proxy_call. rewrite encode_fits by assumption.
  unfold encode_cmd_spec at 2. rewrite Zlength_fencs, fsizes_request_fields. reflexivity. Qed.
