(* C05_repeat across term ends: repeated polls while the log keeps growing AND the subscriber leaves a full term and
   continues in the next partition, any number of times.

   C05Repeat.v proves, for ONE term, that a position on a frame boundary stays on a frame boundary under every poll
   flavour and that the polls consume the data frames between the boundaries once each, in order (`repeat_polls`).
   Here the stream is a sequence of consecutive terms n0, n0+1, ... :
     `pre0`            what precedes the stream in the first term (nobody reads it); the later terms start at offset 0
     `terms`           the frame streams of the terms, `stream_of j` the j-th one, `pre_of j` = pre0 for j = 0, else []
     `terms_full`      every term but the last one is filled exactly to the term end:
                       term_end (pre_of j) + span_sum (stream_of j) = 2^bits
     a location (j, a) = frame boundary a of term j; `lpos (j, a)` its stream position
                       (n0 + j) * 2^bits + term_end (pre_of j) + span_sum (firstn a (stream_of j))
     `norm (j, a)`     = (j + 1, 0) when a is the end of term j and there is a next term, else (j, a)
     `G`               all frames of all terms in order, each with its in-term offset (a `list dlv`)
     `gidx (j, a)`     the index in G (= in `concat terms`) of the frame starting at that boundary
     `between_t g g'`  the data frames (padding left out) among G[g .. g')
     `polls_ok_t steps x`  the hypothesis on a run of polls starting at location x: for every location the run can be
                       at when a poll is made, the snapshot of the log this poll reads `shows` (C05Repeat) the term of
                       the location with some number v of frames committed and some tail, the location is not beyond
                       v and is strictly inside the term (a subscriber at the very end of a term is, normalised, at
                       the beginning of the next one).  Snapshots of different polls are unrelated otherwise: the log
                       may grow, partitions may be rotated and cleaned behind the subscriber, ...
                       The `tail` and `v` components of a `pstep` are used neither by `run_polls` nor by `polls_ok_t`
                       (which term, hence which v, a later poll meets depends on where the earlier ones stopped, so they
                       are existentially quantified per location); `polls_ok_t_fixed` is the literal variant that takes
                       them from the step, it implies `polls_ok_t` (`polls_ok_t_of_fixed`).

   What is proved (no hypothesis other than the ones written in the statements):
     lpos_norm       terms_full -> lpos (norm x) = lpos x             ((n+1) * 2^bits = n * 2^bits + 2^bits)
     gidx_norm       gidx (norm x) = gidx x
     between_term    inside one term `between_t` is C05Repeat's `between`
     between_t_app   between_t g1 g2 ++ between_t g2 g3 = between_t g1 g3 for g1 <= g2 <= g3
     lpos_global     terms_full -> valid x -> lpos x = n0 * 2^bits + term_end pre0 + span_sum (firstn (gidx x) (concat terms))
     repeat_polls_terms   MAIN: for every list of polls (any flavours, limits, bounds, handler scripts), every image and
                     every location x with polls_ok_t steps x, im_pos im = lpos x, image open: the run succeeds, ends on
                     a location x' with gidx x <= gidx x', im_pos = lpos x', and the fragments consumed altogether
                     are exactly between_t (gidx x) (gidx x') - the data frames of the whole multi-term stream between
                     the first and the last position, once each, in order, across any number of term ends.
                     (x need not be assumed normalised: being strictly inside the term is part of polls_ok_t, and
                     `polls_ok_t_normal` shows that it makes x normalised whenever there is a poll to make.)
     repeat_polls_global  the same with positions in closed form: im_pos = gpos g, im_pos' = gpos g', g <= g' <= total
     polls_ok_single, repeat_polls_single   the single-term theorem of C05Repeat.v is the case terms = [stream]
     C05_repeat_terms_example   non-vacuity: a term that ends with padding exactly at the term end, term id wrapping,
                     five polls of three flavours, the second, third and fourth in different places of the two terms *)
Require Import V.Base.MachineInt.
Require Import V.Generated.GenConsts.
Require Import V.Model.LogBase.
Require Import V.Model.Descriptor.
Require Import V.Model.Reader.
Require Import V.Model.Image.
Require Import V.Oracle.C05Cases.
Require Import V.Oracle.C05Oracle.
Require Import V.Proofs.DescriptorProofs.
Require Import V.Proofs.ReaderProofs.
Require Import V.Proofs.ImageProofs.
Require Import V.Proofs.C05OracleProofs.
Require Import V.Proofs.C05Readable.
Require Import V.Proofs.C05Repeat.
From Coq Require Import ZifyBool.
Open Scope Z_scope.

(* ---- lists ---- *)
Lemma firstn_place : forall k off fs, firstn k (place off fs) = place off (firstn k fs).
Proof. induction k; intros off fs; [reflexivity|]. destruct fs as [|f r]; [reflexivity|].
  cbn [place]. rewrite !firstn_cons. cbn [place]. f_equal. apply IHk. Qed.

Lemma skipn_place : forall k off fs, skipn k (place off fs) = place (off + span_sum (firstn k fs)) (skipn k fs).
Proof. induction k; intros off fs.
  - cbn [skipn firstn span_sum]. rewrite Z.add_0_r. reflexivity.
  - destruct fs as [|f r]; [reflexivity|]. cbn [place]. rewrite firstn_cons. cbn [skipn span_sum]. rewrite IHk.
    f_equal. lia. Qed.

Lemma firstn_S_nth {A} (d : A) : forall j (l : list A), (j < length l)%nat -> firstn (S j) l = firstn j l ++ [nth j l d].
Proof. induction j; intros l H; destruct l as [|x l]; cbn [length] in H; try lia; [reflexivity|].
  rewrite (firstn_cons (S j)), (firstn_cons j), IHj by lia. reflexivity. Qed.

Lemma split_nth {A} (d : A) j (l : list A) : (j < length l)%nat -> l = firstn j l ++ nth j l d :: skipn (S j) l.
Proof. intros H. rewrite <- (firstn_skipn (S j) l) at 1. rewrite (firstn_S_nth d) by assumption.
  rewrite <- app_assoc. reflexivity. Qed.

Definition loc := (nat * nat)%type.

Section Terms.
Variables (bits init n0 : Z) (pre0 : term) (terms : list (list frame)).

Definition pre_of (j : nat) : term := match j with O => pre0 | S _ => [] end.
Definition stream_of (j : nat) : list frame := nth j terms [].
Definition term_full (j : nat) : Prop := term_end (pre_of j) + span_sum (stream_of j) = 2 ^ bits.
(* every term except possibly the last one is full *)
Definition terms_full : Prop := forall j, (S j < length terms)%nat -> term_full j.

Definition lpos (x : loc) : Z := boundary bits (n0 + Z.of_nat (fst x)) (pre_of (fst x)) (stream_of (fst x)) (snd x).
Definition norm (x : loc) : loc :=
  if ((snd x =? length (stream_of (fst x)))%nat && (S (fst x) <? length terms)%nat)%bool then (S (fst x), 0%nat) else x.
Definition valid (x : loc) : Prop := (fst x < length terms)%nat /\ (snd x <= length (stream_of (fst x)))%nat.

(* the frames of term j with their in-term offsets; all of them in order *)
Definition placed (j : nat) : list dlv := place (term_end (pre_of j)) (stream_of j).
Definition G : list dlv := concat (map placed (seq 0 (length terms))).
Definition gbase (j : nat) : nat := length (concat (firstn j terms)).
Definition gidx (x : loc) : nat := (gbase (fst x) + snd x)%nat.
Definition between_t (g g' : nat) : list dlv := data_of (firstn (g' - g) (skipn g G)).
Definition gpos (g : nat) : Z := n0 * 2 ^ bits + term_end pre0 + span_sum (firstn g (concat terms)).

Lemma gbase_S j : (j < length terms)%nat -> gbase (S j) = (gbase j + length (stream_of j))%nat.
Proof. intros H. unfold gbase, stream_of. rewrite (firstn_S_nth []) by assumption.
  rewrite concat_app, app_length. cbn [concat]. rewrite app_nil_r. reflexivity. Qed.

Lemma gbase_le j : (gbase j <= length (concat terms))%nat.
Proof. unfold gbase. rewrite <- (firstn_skipn j terms) at 2. rewrite concat_app, app_length. lia. Qed.

Lemma placed_prefix_length : forall j, (j <= length terms)%nat -> length (concat (map placed (seq 0 j))) = gbase j.
Proof. induction j; intros H; [reflexivity|]. rewrite seq_S, map_app, concat_app, app_length, IHj, gbase_S by lia.
  cbn [map concat Nat.add]. rewrite app_nil_r. unfold placed. rewrite place_length. reflexivity. Qed.

Lemma G_split j : (j < length terms)%nat -> exists A B, G = A ++ placed j ++ B /\ length A = gbase j.
Proof. intros H. exists (concat (map placed (seq 0 j))), (concat (map placed (seq (S j) (length terms - S j)))).
  split; [|apply placed_prefix_length; lia]. unfold G.
  replace (length terms) with (j + S (length terms - S j))%nat at 1 by lia.
  rewrite seq_app, map_app, concat_app. cbn [Nat.add seq map concat]. reflexivity. Qed.

Lemma concat_split j : (j < length terms)%nat ->
  concat terms = concat (firstn j terms) ++ stream_of j ++ concat (skipn (S j) terms).
Proof. intros H. rewrite (split_nth [] j terms H) at 1. rewrite concat_app. reflexivity. Qed.

Lemma between_t_nil g : between_t g g = [].
Proof. unfold between_t. rewrite Nat.sub_diag. reflexivity. Qed.

(* the consumed runs of successive polls concatenate: nothing skipped, nothing twice *)
Theorem between_t_app g1 g2 g3 : (g1 <= g2 <= g3)%nat -> between_t g1 g2 ++ between_t g2 g3 = between_t g1 g3.
Proof. intros H. unfold between_t. replace (g3 - g1)%nat with ((g2 - g1) + (g3 - g2))%nat by lia.
  rewrite firstn_add, data_of_app, skipn_skipn'. replace (g1 + (g2 - g1))%nat with g2 by lia. reflexivity. Qed.

(* inside one term it is the `between` of C05Repeat.v *)
Theorem between_term j a a' : (a <= a' <= length (stream_of j))%nat ->
  between (pre_of j) (stream_of j) a a' = between_t (gidx (j, a)) (gidx (j, a')).
Proof. intros H. unfold between_t, gidx. cbn [fst snd].
  replace (gbase j + a' - (gbase j + a))%nat with (a' - a)%nat by lia.
  destruct (Nat.lt_ge_cases j (length terms)) as [Hj|Hj].
  - destruct (G_split j Hj) as (A & B & HG & HA). rewrite HG, <- HA, skipn_app.
    rewrite (skipn_all2 A) by lia. replace (length A + a - length A)%nat with a by lia. cbn [app].
    assert (Hl : length (placed j) = length (stream_of j)) by (unfold placed; apply place_length).
    rewrite skipn_app. replace (a - length (placed j))%nat with 0%nat by lia. cbn [skipn].
    rewrite firstn_app. replace (a' - a - length (skipn a (placed j)))%nat with 0%nat by (rewrite skipn_length; lia).
    cbn [firstn]. rewrite app_nil_r. unfold placed. rewrite skipn_place, firstn_place. reflexivity.
  - assert (E : stream_of j = []) by (apply nth_overflow; assumption). rewrite E in H. cbn [length] in H.
    replace (a' - a)%nat with 0%nat by lia. unfold between. replace (a' - a)%nat with 0%nat by lia. reflexivity. Qed.

Lemma gidx_norm x : gidx (norm x) = gidx x.
Proof. destruct x as [j a]. unfold norm. cbn [fst snd].
  destruct ((a =? length (stream_of j))%nat && (S j <? length terms)%nat)%bool eqn:E; [|reflexivity].
  unfold gidx. cbn [fst snd]. rewrite gbase_S by lia. lia. Qed.

Lemma lpos_norm x : terms_full -> lpos (norm x) = lpos x.
Proof. intros Hf. destruct x as [j a]. unfold norm. cbn [fst snd].
  destruct ((a =? length (stream_of j))%nat && (S j <? length terms)%nat)%bool eqn:E; [|reflexivity].
  assert (Ha : a = length (stream_of j)) by lia. assert (Hj : (S j < length terms)%nat) by lia.
  pose proof (Hf j Hj) as Hfull. unfold term_full in Hfull.
  unfold lpos, boundary, boundary_off. cbn [fst snd pre_of firstn span_sum term_end].
  rewrite Ha, firstn_all, Nat2Z.inj_succ. nia. Qed.

Lemma valid_norm x : valid x -> valid (norm x).
Proof. destruct x as [j a]. unfold norm. cbn [fst snd].
  destruct ((a =? length (stream_of j))%nat && (S j <? length terms)%nat)%bool eqn:E; [|auto].
  intros _. unfold valid. cbn [fst snd]. lia. Qed.

Lemma gidx_valid_le x : valid x -> (gidx x <= length (concat terms))%nat.
Proof. destruct x as [j a]. unfold valid, gidx. cbn [fst snd]. intros [Hj Ha].
  pose proof (gbase_S j Hj). pose proof (gbase_le (S j)). lia. Qed.

(* where term j begins, counted in bytes of the stream *)
Lemma base_span : terms_full -> forall j, (j < length terms)%nat ->
  term_end pre0 + span_sum (concat (firstn j terms)) = Z.of_nat j * 2 ^ bits + term_end (pre_of j).
Proof. intros Hf. induction j; intros Hj.
  - cbn [firstn concat span_sum pre_of Z.of_nat]. lia.
  - specialize (IHj ltac:(lia)). pose proof (Hf j Hj) as Hfull. unfold term_full in Hfull.
    rewrite (firstn_S_nth []) by lia. rewrite concat_app, span_sum_app. cbn [concat]. rewrite app_nil_r.
    fold (stream_of j). cbn [pre_of term_end]. rewrite Nat2Z.inj_succ. lia. Qed.

(* positions in closed form *)
Theorem lpos_global x : terms_full -> valid x -> lpos x = gpos (gidx x).
Proof. intros Hf. destruct x as [j a]. unfold valid, gidx, gpos, lpos, boundary, boundary_off. cbn [fst snd]. intros [Hj Ha].
  rewrite (concat_split j Hj). unfold gbase. rewrite firstn_app.
  rewrite (firstn_all2 (concat (firstn j terms))) by lia. replace (length (concat (firstn j terms)) + a - length (concat (firstn j terms)))%nat with a by lia.
  rewrite firstn_app. replace (a - length (stream_of j))%nat with 0%nat by lia. cbn [firstn]. rewrite app_nil_r.
  rewrite span_sum_app. pose proof (base_span Hf j Hj). lia. Qed.

(* the hypothesis on a run of polls (see the head of the file) *)
Fixpoint polls_ok_t (steps : list pstep) (x : loc) : Prop :=
  match steps with
  | [] => True
  | (l, _, _, _, _) :: r =>
      exists (tail : term) (v : nat),
        shows bits init (n0 + Z.of_nat (fst x)) l (pre_of (fst x)) (stream_of (fst x)) tail v /\ (snd x <= v)%nat /\
        boundary_off (pre_of (fst x)) (stream_of (fst x)) (snd x) < 2 ^ bits /\
        forall a', (snd x <= a' <= v)%nat -> polls_ok_t r (norm (fst x, a'))
  end.

(* the variant with the tail and the number of visible frames taken from the step *)
Fixpoint polls_ok_t_fixed (steps : list pstep) (x : loc) : Prop :=
  match steps with
  | [] => True
  | (l, tail, v, _, _) :: r =>
      shows bits init (n0 + Z.of_nat (fst x)) l (pre_of (fst x)) (stream_of (fst x)) tail v /\ (snd x <= v)%nat /\
      boundary_off (pre_of (fst x)) (stream_of (fst x)) (snd x) < 2 ^ bits /\
      forall a', (snd x <= a' <= v)%nat -> polls_ok_t_fixed r (norm (fst x, a'))
  end.

Lemma polls_ok_t_of_fixed : forall steps x, polls_ok_t_fixed steps x -> polls_ok_t steps x.
Proof. induction steps as [|[[[[l tail] v] limit] fl] r IH]; intros x H; [exact I|].
  cbn [polls_ok_t_fixed] in H. destruct H as (Hsh & Hav & Hin & Hrest). cbn [polls_ok_t].
  exists tail, v. split; [assumption|]. split; [assumption|]. split; [assumption|].
  intros a' Ha'. apply IH, Hrest, Ha'. Qed.

(* a location at which a poll is allowed is normalised: strictly inside the term excludes the end of a full term *)
Lemma polls_ok_t_normal : terms_full -> forall s r x, polls_ok_t (s :: r) x -> norm x = x.
Proof. intros Hf [[[[l tail0] v0] limit] fl] r [j a] H. cbn [polls_ok_t fst snd] in H.
  destruct H as (tail & v & _ & _ & Hin & _). unfold norm. cbn [fst snd].
  destruct ((a =? length (stream_of j))%nat && (S j <? length terms)%nat)%bool eqn:E; [exfalso|reflexivity].
  assert (Ha : a = length (stream_of j)) by lia. assert (Hj : (S j < length terms)%nat) by lia.
  pose proof (Hf j Hj) as Hfull. unfold term_full in Hfull. unfold boundary_off in Hin.
  rewrite Ha, firstn_all in Hin. lia. Qed.

(* MAIN *)
Theorem repeat_polls_terms : terms_full -> forall steps im x,
  polls_ok_t steps x -> im_pos im = lpos x -> im_closed im = false ->
  exists cs im' x', run_polls steps im = Some (cs, im') /\ (gidx x <= gidx x')%nat /\
    im_pos im' = lpos x' /\ im_closed im' = false /\ (valid x -> valid x') /\
    cs = between_t (gidx x) (gidx x').
Proof. intros Hf. induction steps as [|[[[[l tail0] v0] limit] fl] r IH]; intros im x Hok Hpos Hcl.
  - exists [], im, x. cbn [run_polls]. rewrite between_t_nil.
    split; [reflexivity|]. split; [lia|]. split; [assumption|]. split; [assumption|]. split; [exact (fun H => H)|reflexivity].
  - destruct x as [j a]. cbn [polls_ok_t fst snd] in Hok. destruct Hok as (tail & v & Hsh & Hav & Hin & Hrest).
    unfold lpos in Hpos. cbn [fst snd] in Hpos.
    destruct (repeat_step _ _ _ _ _ _ _ _ _ _ limit fl Hsh Hav Hin Hpos Hcl)
      as (ret & ds & ws & im1 & a1 & He & Ha1 & Hp1 & Hc1 & ab & Hds & Hret).
    pose proof (sh_v _ _ _ _ _ _ _ _ Hsh) as Hv.
    assert (Hp1' : im_pos im1 = lpos (norm (j, a1))) by (rewrite (lpos_norm _ Hf); exact Hp1).
    destruct (IH im1 (norm (j, a1)) (Hrest a1 Ha1) Hp1' Hc1) as (cs & im2 & x2 & Hr & Hg2 & Hp2 & Hc2 & Hv2 & Hcs).
    rewrite gidx_norm in Hg2, Hcs.
    assert (Hg1 : (gidx (j, a) <= gidx (j, a1))%nat) by (unfold gidx; cbn [fst snd]; lia).
    exists (between (pre_of j) (stream_of j) a a1 ++ cs), im2, x2. cbn [run_polls].
    rewrite He, Hret, Hr, Hds, Nat2Z.id, firstn_app_exact.
    split; [reflexivity|]. split; [lia|]. split; [assumption|]. split; [assumption|]. split.
    + intros [Hj _]. cbn [fst] in Hj. apply Hv2, valid_norm. split; cbn [fst snd]; [assumption|lia].
    + rewrite Hcs, between_term by lia. apply between_t_app. lia. Qed.

(* ... with the positions in closed form: byte position = n0 * 2^bits + term_end pre0 + the aligned lengths of the
   first g frames of the whole stream *)
Theorem repeat_polls_global : terms_full -> forall steps im x,
  valid x -> polls_ok_t steps x -> im_pos im = gpos (gidx x) -> im_closed im = false ->
  exists cs im' g', run_polls steps im = Some (cs, im') /\ (gidx x <= g' <= length (concat terms))%nat /\
    im_pos im' = gpos g' /\ cs = between_t (gidx x) g'.
Proof. intros Hf steps im x Hx Hok Hpos Hcl. rewrite <- (lpos_global x Hf Hx) in Hpos.
  destruct (repeat_polls_terms Hf steps im x Hok Hpos Hcl) as (cs & im' & x' & Hr & Hg & Hp & _ & Hv & Hcs).
  exists cs, im', (gidx x'). split; [assumption|]. split; [split; [assumption|apply gidx_valid_le; auto]|].
  split; [|assumption]. rewrite Hp. apply lpos_global; auto. Qed.

End Terms.

(* ---- the single-term theorem is the case terms = [stream] ---- *)
Lemma norm_single stream a : norm [stream] (0%nat, a) = (0%nat, a).
Proof. unfold norm. cbn [fst snd length]. rewrite andb_false_r. reflexivity. Qed.

Lemma polls_ok_single bits init n pre stream : forall steps a,
  polls_ok bits init n pre stream steps a -> polls_ok_t_fixed bits init n pre [stream] steps (0%nat, a).
Proof. induction steps as [|[[[[l tail] v] limit] fl] r IH]; intros a H; [exact I|].
  cbn [polls_ok] in H. destruct H as (Hsh & Hav & Hin & Hrest).
  cbn [polls_ok_t_fixed fst snd pre_of stream_of nth Z.of_nat]. rewrite Z.add_0_r.
  split; [assumption|]. split; [assumption|]. split; [assumption|]. intros a' Ha'. rewrite norm_single. apply IH, Hrest, Ha'. Qed.

Lemma terms_full_single bits pre stream : terms_full bits pre [stream].
Proof. intros j Hj. cbn [length] in Hj. lia. Qed.

(* C05Repeat.repeat_polls, obtained from repeat_polls_terms *)
Theorem repeat_polls_single bits init n pre stream : forall steps im a,
  polls_ok bits init n pre stream steps a -> im_pos im = boundary bits n pre stream a -> im_closed im = false ->
  exists cs im' a', run_polls steps im = Some (cs, im') /\ (a <= a')%nat /\
    im_pos im' = boundary bits n pre stream a' /\ cs = between pre stream a a'.
Proof. intros steps im a Hok Hpos Hcl. destruct steps as [|s r].
  - exists [], im, a. cbn [run_polls]. rewrite between_nil. repeat split; auto.
  - assert (Hva : (a <= length stream)%nat).
    { destruct s as [[[[l tail] v] limit] fl]. cbn [polls_ok] in Hok. destruct Hok as (Hsh & Hav & _).
      pose proof (sh_v _ _ _ _ _ _ _ _ Hsh). lia. }
    pose proof (polls_ok_t_of_fixed _ _ _ _ _ _ _ (polls_ok_single _ _ _ _ _ _ _ Hok)) as Hok'.
    assert (Hpos' : im_pos im = lpos bits n pre [stream] (0%nat, a)).
    { unfold lpos. cbn [fst snd pre_of stream_of nth Z.of_nat]. rewrite Z.add_0_r. exact Hpos. }
    destruct (repeat_polls_terms bits init n pre [stream] (terms_full_single _ _ _) _ _ _ Hok' Hpos' Hcl)
      as (cs & im' & [j' a'] & Hr & Hg & Hp & _ & Hv & Hcs).
    destruct Hv as [Hj' Ha']; [split; cbn [fst snd length stream_of nth]; lia|].
    cbn [fst snd length] in Hj', Ha'. assert (j' = 0%nat) by lia. subst j'. cbn [stream_of nth] in Ha'.
    unfold gidx, gbase in Hg. cbn [fst snd firstn concat length Nat.add] in Hg.
    exists cs, im', a'. split; [assumption|]. split; [assumption|]. split.
    + rewrite Hp. unfold lpos. cbn [fst snd pre_of stream_of nth Z.of_nat]. rewrite Z.add_0_r. reflexivity.
    + rewrite Hcs. symmetry. apply (between_term pre [stream] 0 a a'). cbn [stream_of nth]. lia. Qed.

(* ---- non-vacuity ----
   bits = 16, initial term id 2^31 - 1 (so the term ids wrap), the stream starts in term 2 at offset 65536 - 576 with
   five frames (data, padding, data, data, padding) that fill the term exactly; term 3 holds two data frames. *)
Definition tx_pre : term := [Unknown (65536 - 576)].
Definition tx_stream2 : list frame :=
  mk_frames 2147483647 9 2 (65536 - 576)
    [(1, 192, 100, 1, 0); (0, 0, 64, 0, 0); (1, 128, 96, 3, 0); (1, 64, 33, 4, 0); (0, 0, 224, 0, 0)].
Definition tx_stream3 : list frame := mk_frames 2147483647 9 3 0 [(1, 192, 40, 7, 0); (1, 192, 50, 8, 0)].
Definition tx_terms : list (list frame) := [tx_stream2; tx_stream3].
(* the log with v2 frames of term 2 and v3 frames of term 3 committed *)
Definition tx_log (v2 v3 : nat) : log :=
  mk_log 16 2147483647 9 [(2, 65536 - 576, Z.of_nat v2, false, tx_stream2); (3, 0, Z.of_nat v3, false, tx_stream3)].
(* a poll on such a snapshot (the tail / v components of a pstep are not used, see the head of the file) *)
Definition tx_step (s : nat * nat * Z * flavour) : pstep :=
  let '(v2, v3, limit, fl) := s in (tx_log v2 v3, [], 0%nat, limit, fl).

Lemma tx_full : terms_full 16 tx_pre tx_terms.
Proof. intros j Hj. cbn [length tx_terms] in Hj. assert (j = 0%nat) by lia. subst j. vm_compute. reflexivity. Qed.

Lemma tx_shows2 v2 v3 : (v2 <= 5)%nat -> (v3 <= 2)%nat ->
  shows 16 2147483647 (2 + Z.of_nat 0) (tx_log v2 v3) (pre_of tx_pre 0) (stream_of tx_terms 0) [] v2.
Proof. intros H2 H3.
  do 6 (destruct v2 as [|v2]; [
    do 3 (destruct v3 as [|v3]; [
      constructor; [reflexivity|reflexivity|lia|reflexivity|unfold two31; cbn; lia|vm_compute; reflexivity
                   |constructor; [cbn; lia|constructor]|reflexivity|reflexivity|vm_compute; reflexivity|cbn; lia]|]); lia|]).
  lia. Qed.

Lemma tx_shows3 v2 v3 : (v2 <= 5)%nat -> (v3 <= 2)%nat ->
  shows 16 2147483647 (2 + Z.of_nat 1) (tx_log v2 v3) (pre_of tx_pre 1) (stream_of tx_terms 1) [] v3.
Proof. intros H2 H3.
  do 6 (destruct v2 as [|v2]; [
    do 3 (destruct v3 as [|v3]; [
      constructor; [reflexivity|reflexivity|lia|reflexivity|unfold two31; cbn; lia|vm_compute; reflexivity
                   |constructor|reflexivity|reflexivity|vm_compute; reflexivity|cbn; lia]|]); lia|]).
  lia. Qed.

(* snapshots that only grow, and a location that is below the first of them and strictly inside its term *)
Fixpoint tx_mono (ss : list (nat * nat * Z * flavour)) (v2 v3 : nat) : Prop :=
  match ss with
  | [] => True
  | (w2, w3, _, _) :: r => (v2 <= w2 <= 5)%nat /\ (v3 <= w3 <= 2)%nat /\ tx_mono r w2 w3
  end.
Definition tx_below (x : loc) (v2 v3 : nat) : Prop :=
  match x with
  | (O, a) => (a <= v2)%nat /\ (a < 5)%nat
  | (S O, a) => (a <= v3)%nat
  | _ => False
  end.

Lemma tx_norm2 a : norm tx_terms (0%nat, a) = if (a =? 5)%nat then (1%nat, 0%nat) else (0%nat, a).
Proof. unfold norm. cbn [fst snd]. change (length (stream_of tx_terms 0)) with 5%nat.
  change (S 0 <? length tx_terms)%nat with true. rewrite andb_true_r. reflexivity. Qed.

Lemma tx_norm3 a : norm tx_terms (1%nat, a) = (1%nat, a).
Proof. unfold norm. cbn [fst snd]. change (S 1 <? length tx_terms)%nat with false. rewrite andb_false_r. reflexivity. Qed.

Lemma tx_polls_ok : forall ss v2 v3 x, tx_mono ss v2 v3 -> tx_below x v2 v3 ->
  polls_ok_t 16 2147483647 2 tx_pre tx_terms (map tx_step ss) x.
Proof. induction ss as [|[[[w2 w3] limit] fl] r IH]; intros v2 v3 x Hm Hb; [exact I|].
  cbn [tx_mono] in Hm. destruct Hm as (H2 & H3 & Hm). cbn [map tx_step polls_ok_t].
  destruct x as [[|[|j]] a]; cbn [tx_below] in Hb; [| |destruct Hb]; cbn [fst snd].
  - exists [], w2. split; [apply tx_shows2; lia|]. split; [lia|]. split.
    + destruct Hb as [_ Hb]. do 5 (destruct a as [|a]; [vm_compute; reflexivity|]). lia.
    + intros a' Ha'. rewrite tx_norm2. destruct (a' =? 5)%nat eqn:E.
      * apply (IH w2 w3); [assumption|]. cbn [tx_below]. lia.
      * apply (IH w2 w3); [assumption|]. cbn [tx_below]. lia.
  - exists [], w3. split; [apply tx_shows3; lia|]. split; [lia|]. split.
    + do 3 (destruct a as [|a]; [vm_compute; reflexivity|]). lia.
    + intros a' Ha'. rewrite tx_norm3. apply (IH w2 w3); [assumption|]. cbn [tx_below]. lia. Qed.

(* five polls: a plain poll with limit 1 (stops after the first frame of term 2), a bounded poll stopped by its bound
   in the middle of term 2, a plain poll that reaches the term end over the padding frame, a controlled poll with
   Commit at the beginning of term 3, and a plain poll once the second frame of term 3 is committed *)
Definition tx_polls : list pstep :=
  map tx_step [(3%nat, 0%nat, 1, FPoll); (5%nat, 1%nat, 10, FBounded 196300); (5%nat, 1%nat, 10, FPoll);
               (5%nat, 1%nat, 10, FControlled [Commit]); (5%nat, 2%nat, 10, FPoll)].

Example C05_repeat_terms_example :
  terms_full 16 tx_pre tx_terms /\
  polls_ok_t 16 2147483647 2 tx_pre tx_terms tx_polls (0%nat, 0%nat) /\
  lpos 16 2 tx_pre tx_terms (0%nat, 0%nat) = 2 * 65536 + 65536 - 576 /\
  run_polls tx_polls (mkImage (2 * 65536 + 65536 - 576) false 0 9)
    = Some (between_t tx_pre tx_terms 0 7, mkImage (3 * 65536 + 128) false 0 9) /\
  (* where the run is after each poll *)
  map (fun k => option_map (fun r => im_pos (snd r)) (run_polls (firstn k tx_polls) (mkImage (2 * 65536 + 65536 - 576) false 0 9)))
      [1; 2; 3; 4; 5]%nat
    = [Some 196160; Some 196320; Some 196608; Some 196672; Some 196736] /\
  map fst (between_t tx_pre tx_terms 0 7) = [64960; 65152; 65248; 0; 64] /\
  gidx tx_terms (1%nat, 2%nat) = 7%nat /\ lpos 16 2 tx_pre tx_terms (1%nat, 2%nat) = 3 * 65536 + 128.
Proof. split; [exact tx_full|]. split.
  - apply (tx_polls_ok _ 0 0); cbn [tx_mono tx_below]; lia.
  - repeat split; vm_compute; reflexivity. Qed.

Print Assumptions repeat_polls_global.
Print Assumptions repeat_polls_single.
Print Assumptions C05_repeat_terms_example.
Print Assumptions repeat_polls_terms.
