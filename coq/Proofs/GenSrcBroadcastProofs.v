(* Proofs about Generated/GenSrcBroadcast.v: what broadcast_buffer_descriptor.rs, broadcast/record_descriptor.rs,
   broadcast_transmitter.rs and broadcast_receiver.rs say today (tools/props/src_translate.py, regenerated on every
   run).  Each generated function / fragment is proved equal to the definition Model/Broadcast.v uses at that place. *)
Require Import V.Model.Broadcast.
Require Import V.Base.MachineInt V.Base.MachineInt2 V.Base.MachineIntT V.Generated.GenConsts
               V.Proofs.SrcNorm V.Proofs.SrcNormT
               V.Generated.GenDescriptor V.Proofs.GenDescriptorProofs V.Generated.GenSrcBits V.Generated.GenSrcBroadcast.
From Coq Require Import ZifyBool String.
Open Scope Z_scope.

Ltac bconsts :=
  unfold HL, RA, PADDING, intent_idx, tail_idx, latest_idx, buf_len, max_msg,
         GenConsts.BC_HEADER_LENGTH, GenConsts.BC_RECORD_ALIGNMENT, GenConsts.BC_TRAILER_LENGTH,
         GenConsts.BC_TAIL_INTENT_COUNTER_OFFSET, GenConsts.BC_TAIL_COUNTER_OFFSET, GenConsts.BC_LATEST_COUNTER_OFFSET,
         GenConsts.CMD_Padding in *.

Ltac bauto := bconsts; srcT_auto.

(* ---- record descriptor ---- *)
Lemma src_bc_offsets_eq m o :
  src_bc_length_offset m o = add32 m o 0 /\ src_bc_type_offset m o = add32 m o 4 /\ src_bc_msg_offset m o = add32 m o HL.
Proof. unfold src_bc_length_offset, src_bc_type_offset, src_bc_msg_offset. bconsts. split; [|split]; src_robust. Qed.

Lemma src_bc_calculate_max_message_length_eq m cap : 0 <= cap ->
  src_bc_calculate_max_message_length m cap = Ok (max_msg cap).
Proof. intros H. unfold src_bc_calculate_max_message_length, max_msg. srcT_norm. rewrite quot_nonneg by lia. reflexivity. Qed.

Lemma src_bc_check_msg_type_id_eq m t :
  src_bc_check_msg_type_id m t =
  Ok (if t <? 1 then RErr "BroadcastTransmitError::MessageIdShouldBeGreaterThenZero" [t] else ROk 0).
Proof. unfold src_bc_check_msg_type_id. src_robust. Qed.

Lemma src_bc_check_message_length_eq m maxl len :
  src_bc_check_message_length m maxl len =
  Ok (if len >? maxl then RErr "BroadcastTransmitError::EncodedMessageExceedsMaxMsgLength" [len; maxl] else ROk 0).
Proof. unfold src_bc_check_message_length. src_robust. Qed.

Lemma src_bc_check_capacity_eq m cap b : GenSrcBits.src_is_power_of_two m cap = Ok b ->
  src_bc_check_capacity m cap = Ok (if b then ROk 0 else RErr "BroadcastTransmitError::NotPowerOfTwo" [cap]).
Proof. intros E. unfold src_bc_check_capacity. rewrite E. cbn [bind]. destruct b; reflexivity. Qed.

(* bit_utils::align with the record alignment is the align32 of the model *)
Lemma src_align_RA m v : src_align m v GenConsts.BC_RECORD_ALIGNMENT = align32 m v RA.
Proof. unfold src_align, align32. bauto. Qed.

(* ---- transmitter ---- *)
Lemma src_bc_tx_record_offset_eq m cap tail : src_bc_tx_record_offset m (cap - 1) tail = Ok (wrap32 (Z.land tail (cap - 1))).
Proof. unfold src_bc_tx_record_offset. first [ reflexivity | rewrite Z.land_comm; reflexivity | src_robust ]. Qed.
Lemma src_bc_tx_record_length_eq m len : src_bc_tx_record_length m len = add32 m len HL.
Proof. unfold src_bc_tx_record_length. bconsts. src_robust. Qed.
Lemma src_bc_tx_aligned_record_length_eq m rl : src_bc_tx_aligned_record_length m rl = align32 m rl RA.
Proof. unfold src_bc_tx_aligned_record_length. apply src_align_RA. Qed.
Lemma src_bc_tx_new_tail_eq m tail al : src_bc_tx_new_tail m tail al = add64 m tail al.
Proof. unfold src_bc_tx_new_tail. src_robust. Qed.
Lemma src_bc_tx_to_end_of_buffer_eq m cap ro : src_bc_tx_to_end_of_buffer m cap ro = sub32 m cap ro.
Proof. unfold src_bc_tx_to_end_of_buffer. src_robust. Qed.
Lemma src_bc_tx_wraps_eq m te al : src_bc_tx_wraps m te al = Ok (te <? al).
Proof. unfold src_bc_tx_wraps. src_robust. Qed.
Lemma src_bc_tx_intent_wrapped_eq m nt te : src_bc_tx_intent_wrapped m nt te = add64 m nt te.
Proof. unfold src_bc_tx_intent_wrapped. src_robust. Qed.
Lemma src_bc_tx_tail_after_padding_eq m tail te : src_bc_tx_tail_after_padding m tail te = add64 m tail te.
Proof. unfold src_bc_tx_tail_after_padding. src_robust. Qed.
Lemma src_bc_tx_final_tail_eq m tail1 al : src_bc_tx_final_tail m tail1 al = add64 m tail1 al.
Proof. unfold src_bc_tx_final_tail. src_robust. Qed.

(* the arithmetic prefix of Broadcast.transmit (record offset, lengths, new tail, room to the end, wrap decision and the
   three tails it publishes), assembled from the translated fragments *)
Definition tx_plan (m : mode) (cap tail len : Z) : outcome (Z * Z * Z * Z * Z * bool) :=
  ro <- src_bc_tx_record_offset m (cap - 1) tail ;;
  rl <- src_bc_tx_record_length m len ;;
  al <- src_bc_tx_aligned_record_length m rl ;;
  nt <- src_bc_tx_new_tail m tail al ;;
  te <- src_bc_tx_to_end_of_buffer m cap ro ;;
  w <- src_bc_tx_wraps m te al ;;
  Ok (ro, rl, al, nt, te, w).
Definition tx_plan_model (m : mode) (cap tail len : Z) : outcome (Z * Z * Z * Z * Z * bool) :=
  let ro := wrap32 (Z.land tail (cap - 1)) in
  rl <- add32 m len HL ;; al <- align32 m rl RA ;; nt <- add64 m tail al ;; te <- sub32 m cap ro ;;
  Ok (ro, rl, al, nt, te, te <? al).
Lemma tx_plan_eq m cap tail len : tx_plan m cap tail len = tx_plan_model m cap tail len.
Proof. unfold tx_plan, tx_plan_model. rewrite src_bc_tx_record_offset_eq. cbn [bind]. cbv zeta.
  rewrite src_bc_tx_record_length_eq. apply bind_ext; intros rl _.
  rewrite src_bc_tx_aligned_record_length_eq. apply bind_ext; intros al _.
  rewrite src_bc_tx_new_tail_eq. apply bind_ext; intros nt _.
  rewrite src_bc_tx_to_end_of_buffer_eq. apply bind_ext; intros te _.
  rewrite src_bc_tx_wraps_eq. reflexivity. Qed.

(* BroadcastTransmitter::new over a buffer of cap + TRAILER bytes, cap = 2^k *)
Lemma src_bc_tx_new_spec m cap : (exists k, 3 <= k <= 30 /\ cap = 2 ^ k) ->
  (forall b, GenSrcBits.src_is_power_of_two m cap = Ok b -> b = true) ->
  src_bc_tx_new m (buf_len cap) =
  Ok (RStruct [("capacity", cap); ("latest_counter_index", latest_idx cap); ("mask", cap - 1); ("max_msg_length", max_msg cap);
               ("tail_counter_index", tail_idx cap); ("tail_intent_counter_index", intent_idx cap)]%string).
Proof. intros (k & Hk & E) Hp.
  assert (R : 8 <= cap <= 1073741824).
  { subst cap. split; [change 8 with (2 ^ 3)|change 1073741824 with (2 ^ 30)]; apply Z.pow_le_mono_r; lia. }
  clear E. unfold src_bc_tx_new, src_bc_check_capacity.
  destruct (GenSrcBits.src_is_power_of_two m cap) as [b| | | |] eqn:Eb.
  2-5: exfalso; revert Eb; unfold GenSrcBits.src_is_power_of_two; replace (cap >? 0) with true by lia;
       unfold add32; rewrite chk32_ok by (unfold in_i32, two31, Z.lnot; lia); cbn [bind]; discriminate.
  rewrite (Hp b eq_refl) in *. bconsts. srcT_unfold_ops.
  rewrite chk32_ok by srcT_side. cbn [bind]. replace (cap + 128 - 128) with cap by lia. rewrite Eb. cbn [bind negb qbind].
  unfold src_bc_calculate_max_message_length. srcT_norm. rewrite quot_nonneg by lia.
  replace (cap + 0) with cap by lia. reflexivity. Qed.

(* ---- receiver ---- *)
Lemma src_bc_rx_do_validate_eq m cap mm c :
  src_bc_rx_do_validate m cap (get64 mm (intent_idx cap)) c = do_validate m W64 cap mm c.
Proof. unfold src_bc_rx_do_validate, do_validate. cbv zeta. generalize (get64 mm (intent_idx cap)); intros it. src_robust. Qed.

Lemma src_bc_rx_offset_eq m ro : src_bc_rx_offset m ro = add32 m ro HL.
Proof. unfold src_bc_rx_offset, src_bc_msg_offset. bconsts. src_robust. Qed.
Lemma src_bc_rx_length_eq m w : src_bc_rx_length m w = sub32 m w HL.
Proof. unfold src_bc_rx_length. bconsts. src_robust. Qed.
Lemma src_bc_rx_available_eq m tail c : src_bc_rx_available m tail c = Ok (tail >? c).
Proof. unfold src_bc_rx_available. src_robust. Qed.
Lemma src_bc_rx_record_offset_eq m cap c : src_bc_rx_record_offset m (cap - 1) c = Ok (Z.land (wrap32 c) (cap - 1)).
Proof. unfold src_bc_rx_record_offset. first [ reflexivity | rewrite Z.land_comm; reflexivity | src_robust ]. Qed.
Lemma src_bc_rx_next_record_eq m w c : src_bc_rx_next_record m w c = (a <- align32 m w RA ;; add64 m c a).
Proof. unfold src_bc_rx_next_record. rewrite src_align_RA. apply bind_ext; intros a _. src_robust. Qed.
Lemma src_bc_rx_next_record_after_padding_eq m nr w :
  src_bc_rx_next_record_after_padding m nr w = (a <- align32 m w RA ;; add64 m nr a).
Proof. unfold src_bc_rx_next_record_after_padding. rewrite src_align_RA. apply bind_ext; intros a _. src_robust. Qed.
Lemma src_bc_rx_is_padding_eq m t : src_bc_rx_is_padding m t = Ok (t =? PADDING).
Proof. unfold src_bc_rx_is_padding. bconsts. f_equal. first [ reflexivity | apply Z.eqb_sym ]. Qed.

(* receive_next of the model, written with the translated pieces only *)
Definition receive_next_src (m : mode) (cap : Z) (mm : mem) (r : rx) : outcome (rx * bool) :=
  let tail := get64 mm (tail_idx cap) in
  let c0 := next_record r in
  av <- src_bc_rx_available m tail c0 ;;
  if av : bool then
    v <- src_bc_rx_do_validate m cap (get64 mm (intent_idx cap)) c0 ;;
    let c := if v : bool then c0 else get64 mm (latest_idx cap) in
    let lp := if v : bool then lapped r else lapped r + 1 in
    ro <- src_bc_rx_record_offset m (cap - 1) c ;;
    nr <- src_bc_rx_next_record m (get32 mm ro) c ;;
    p <- src_bc_rx_is_padding m (get32 mm (ro + 4)) ;;
    if p : bool then
      nr2 <- src_bc_rx_next_record_after_padding m nr (get32 mm 0) ;;
      Ok ({| cursor := nr; next_record := nr2; record_offset := 0; lapped := lp |}, true)
    else Ok ({| cursor := c; next_record := nr; record_offset := ro; lapped := lp |}, true)
  else Ok (r, false).

Theorem receive_next_src_eq m cap mm r : receive_next_src m cap mm r = receive_next m W64 cap mm r.
Proof. unfold receive_next_src, receive_next. cbv zeta. rewrite src_bc_rx_available_eq. cbn [bind].
  destruct (get64 mm (tail_idx cap) >? next_record r); [|reflexivity].
  rewrite src_bc_rx_do_validate_eq. apply bind_ext; intros v _.
  (* W64: receive_next does not validate a second time (that is W64R, fixes/C08-receive-next-revalidate.diff) *)
  change (revalidates W64) with false. cbv iota. cbn [bind]. cbv iota.
  rewrite src_bc_rx_record_offset_eq. cbn [bind]. rewrite src_bc_rx_next_record_eq.
  rewrite bind_assoc. apply bind_ext; intros a1 _. apply bind_ext; intros nr _.
  rewrite src_bc_rx_is_padding_eq. cbn [bind].
  destruct (get32 mm (Z.land (wrap32 (if v then next_record r else get64 mm (latest_idx cap))) (cap - 1) + 4) =? PADDING); [|reflexivity].
  rewrite src_bc_rx_next_record_after_padding_eq. rewrite bind_assoc. reflexivity. Qed.

(* receive_next as it is since fix a146cb8 (model version W64R): the header words are read, do_validate is called a second
   time for the cursor they were read at, and only then are they used; when it fails the lap is counted and the receiver
   restarts at `latest` (that record offset is the model's own expression) *)
Definition receive_next_srcR (m : mode) (cap : Z) (mm : mem) (r : rx) : outcome (rx * bool) :=
  let tail := get64 mm (tail_idx cap) in
  let c0 := next_record r in
  av <- src_bc_rx_available m tail c0 ;;
  if av : bool then
    v <- src_bc_rx_do_validate m cap (get64 mm (intent_idx cap)) c0 ;;
    let c := if v : bool then c0 else get64 mm (latest_idx cap) in
    let lp := if v : bool then lapped r else lapped r + 1 in
    ro <- src_bc_rx_record_offset m (cap - 1) c ;;
    v2 <- src_bc_rx_do_validate m cap (get64 mm (intent_idx cap)) c ;;
    if v2 : bool then
      nr <- src_bc_rx_next_record m (get32 mm ro) c ;;
      p <- src_bc_rx_is_padding m (get32 mm (ro + 4)) ;;
      if p : bool then
        nr2 <- src_bc_rx_next_record_after_padding m nr (get32 mm 0) ;;
        Ok ({| cursor := nr; next_record := nr2; record_offset := 0; lapped := lp |}, true)
      else Ok ({| cursor := c; next_record := nr; record_offset := ro; lapped := lp |}, true)
    else
      let l := get64 mm (latest_idx cap) in
      Ok ({| cursor := l; next_record := l; record_offset := Z.land (wrap32 l) (cap - 1); lapped := lp + 1 |}, true)
  else Ok (r, false).

Theorem receive_next_srcR_eq m cap mm r : receive_next_srcR m cap mm r = receive_next m W64R cap mm r.
Proof. unfold receive_next_srcR, receive_next. cbv zeta. rewrite src_bc_rx_available_eq. cbn [bind].
  destruct (get64 mm (tail_idx cap) >? next_record r); [|reflexivity].
  rewrite src_bc_rx_do_validate_eq. change (do_validate m W64 cap mm (next_record r)) with (do_validate m W64R cap mm (next_record r)).
  apply bind_ext; intros v _.
  change (revalidates W64R) with true. cbv iota.
  rewrite src_bc_rx_record_offset_eq. cbn [bind]. rewrite src_bc_rx_do_validate_eq.
  change (do_validate m W64 cap mm) with (do_validate m W64R cap mm).
  apply bind_ext; intros v2 _. destruct v2; [|reflexivity].
  rewrite src_bc_rx_next_record_eq.
  rewrite bind_assoc. apply bind_ext; intros a1 _. apply bind_ext; intros nr _.
  rewrite src_bc_rx_is_padding_eq. cbn [bind].
  destruct (get32 mm (Z.land (wrap32 (if v then next_record r else get64 mm (latest_idx cap))) (cap - 1) + 4) =? PADDING); [|reflexivity].
  rewrite src_bc_rx_next_record_after_padding_eq. rewrite bind_assoc. reflexivity. Qed.
