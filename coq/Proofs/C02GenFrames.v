(* The frames of one generation at quiescence: the claims of the generation a tail carries give one list of
   frames laid back to back from the generation's base to min(tail, term length); the partition's dump is exactly
   the rendering of that list; the oracle's reassembly over it returns the data claims in claim order. *)
Require Import V.Base.MachineInt.
Require Import V.Generated.GenConsts.
Require Import V.Model.LogBase.
Require Import V.Model.Descriptor.
Require Import V.Model.Sched.
Require Import V.Model.AppenderThreads.
Require Import V.Oracle.C02Oracle.
Require Import V.Proofs.TailArith.
Require Import V.Proofs.FragArith.
Require Import V.Proofs.AppenderInv.
Require Import V.Proofs.AppenderLemmas.
Require Import V.Proofs.AppenderFaa.
Require Import V.Proofs.C02Quiescent.
Require Import V.Proofs.C02Words.
Require Import V.Proofs.C02Render.
Require Import V.Proofs.C02Frames.
From Coq Require Import ZifyBool.
Open Scope Z_scope.

Section Gen.
  Variable c : cfg.
  Hypothesis W : wf_cfg c.

  (* arithmetic facts AppInv.ent_ok gives about a claim, plus byte-ranged payload *)
  Definition ent_ar (e : entry) : Prop :=
    0 <= e_a e /\ e_a e mod 32 = 0 /\ e_b e = e_a e + required c (zlen (e_msg e)) /\ Forall byte (e_msg e).

  Lemma pd4_facts tid off : off mod 32 = 0 -> 0 <= off < TL c ->
    good_slot (pd4 c tid off) /\ s_type (pd4 c tid off) = T_PAD /\ off + align (s_len (pd4 c tid off)) FA = TL c.
  Proof. intros Hm Ho. destruct (TL_bounds c W) as (TB & TM).
    assert (Hlen : s_len (pd4 c tid off) = TL c - off) by reflexivity.
    assert (Hge : 32 <= TL c - off) by (Z.div_mod_to_equations; lia).
    split; [|split; [reflexivity|]].
    - constructor; rewrite ?Hlen; cbn [pd4 pd3 pd2 pd1 set_len set_type set_hdr zslot s_ver s_flags s_type s_resv s_body length].
      + change HDR with 32. lia.
      + unfold byte. consts. lia.
      + unfold byte. consts. lia.
      + consts. lia.
      + reflexivity.
      + constructor.
      + change HDR with 32. cbn [Z.of_nat]. lia.
      + reflexivity.
    - rewrite Hlen, FA_32, align_mult; [ring | lia | Z.div_mod_to_equations; lia]. Qed.

  Lemma efrags_slots g e o sl : ent_ar e -> In (o, sl) (efrags c g e) ->
    good_slot sl /\ (s_type sl = T_PAD -> o + align (s_len sl) FA = TL c).
  Proof. intros (Ha & Ham & Hb & MB) Hin. unfold efrags in Hin. destruct (e_b e <=? TL c) eqn:E1.
    - assert (Hfl : F_BEGIN = fl_of (e_msg e) (zlen (e_msg e))) by (unfold fl_of; rewrite Z.eqb_refl; reflexivity).
      rewrite Hfl in Hin. destruct (frags_good c W (tid_of c g) (e_msg e) MB (Z.to_nat (zlen (e_msg e))) (e_a e) (zlen (e_msg e)) ltac:(unfold zlen; lia) o sl Hin) as (G & Ht).
      split; [assumption|]. rewrite Ht. intros X. discriminate X.
    - destruct (e_a e <? TL c) eqn:E2; [|destruct Hin]. destruct Hin as [E | []]. inversion E; subst.
      destruct (pd4_facts (tid_of c g) (e_a e) Ham ltac:(lia)) as (G & _ & P). split; [assumption | intros _; assumption]. Qed.

  (* claims laid back to back give frames laid back to back, cut at the term end *)
  Lemma chain_laid g : forall l b0 hi, (forall e, In e l -> ent_ar e) -> chain b0 l hi -> 0 <= b0 ->
    laid c (Z.min b0 (TL c)) (flat_map (efrags c g) l) (Z.min hi (TL c)).
  Proof. destruct (TL_bounds c W) as (TB & TM).
    induction l as [|e r IH]; intros b0 hi Har Hc Hb0; cbn [chain] in Hc.
    - subst. constructor.
    - destruct Hc as (Ha & Hlt & Hc). subst b0. destruct (Har e (or_introl eq_refl)) as (_ & Ham & Hbe & _).
      cbn [flat_map]. apply (laid_concat c _ _ (Z.min (e_b e) (TL c))).
      + destruct (Z_le_gt_dec (e_b e) (TL c)) as [Hle | Hgt].
        * rewrite !Z.min_l by lia. apply efrags_data_laid; assumption.
        * rewrite (Z.min_r (e_b e)) by lia. unfold efrags. replace (e_b e <=? TL c) with false by lia.
          destruct (e_a e <? TL c) eqn:E2.
          -- rewrite Z.min_l by lia. destruct (pd4_facts (tid_of c g) (e_a e) Ham ltac:(lia)) as (G & _ & P).
             constructor; [cbn; lia|]. rewrite P. constructor.
          -- rewrite Z.min_r by lia. constructor.
      + apply IH; [intros; apply Har; right; assumption | assumption | lia]. Qed.

  Lemma laid_length a fr b : laid c a fr b -> 32 * Z.of_nat (length fr) <= b - a.
  Proof. induction 1 as [o | o sl r e Hl Hr IH]; [cbn; lia|].
    pose proof (align_pos (s_len sl) ltac:(lia)) as [A1 A2]. rewrite FA_32 in *. cbn [length].
    assert (32 <= align (s_len sl) 32) by (Z.div_mod_to_equations; lia). lia. Qed.

  (* the oracle's reassembly over the frames of a list of claims: the data claims, in order *)
  Definition claim_msgs (l : list entry) : list (Z * list Z) :=
    flat_map (fun e => if e_b e <=? TL c then [(e_b e, e_msg e)] else []) l.

  Lemma reassemble_claims ws g : forall l, (forall e, In e l -> ent_ar e) ->
    (forall e o sl, In e l -> In (o, sl) (efrags c g e) -> dec_ok ws o sl) ->
    reassemble ws (map dec (flat_map (efrags c g) l)) None = Some (claim_msgs l).
  Proof. induction l as [|e r IH]; intros Har Hdec; [reflexivity|].
    cbn [flat_map]. fold (claim_msgs r). rewrite map_app.
    specialize (IH ltac:(intros; apply Har; right; assumption) ltac:(intros; eapply Hdec; [right|]; eauto)).
    destruct (Har e (or_introl eq_refl)) as (Ha & Ham & Hbe & MB).
    assert (Hd : forall o sl, In (o, sl) (efrags c g e) -> dec_ok ws o sl) by (intros; eapply Hdec; [left; reflexivity | eauto]).
    assert (Hcm : claim_msgs (e :: r) = (if e_b e <=? TL c then [(e_b e, e_msg e)] else []) ++ claim_msgs r) by reflexivity.
    rewrite Hcm. clear Hcm.
    destruct (e_b e <=? TL c) eqn:E1.
    - assert (Hfl : F_BEGIN = fl_of (e_msg e) (zlen (e_msg e))) by (unfold fl_of; rewrite Z.eqb_refl; reflexivity).
      assert (Hacc : None = acc_of (e_msg e) (zlen (e_msg e))) by (unfold acc_of; rewrite Z.eqb_refl; reflexivity).
      assert (Hef : efrags c g e = frags_from c (tid_of c g) (e_msg e) (Z.to_nat (zlen (e_msg e))) (e_a e) (zlen (e_msg e)) (fl_of (e_msg e) (zlen (e_msg e)))).
      { unfold efrags. rewrite E1, <- Hfl. reflexivity. }
      rewrite Hef in *. rewrite Hacc at 1.
      rewrite (reassemble_frags c W (tid_of c g) (e_msg e)); [| unfold zlen; lia | lia | lia |].
      + rewrite IH. rewrite span_required by (assumption || unfold zlen; lia). rewrite <- Hbe. reflexivity.
      + intros o sl Hin. apply (Hd o sl Hin).
    - cbn [app]. unfold efrags in *. rewrite E1 in *. destruct (e_a e <? TL c) eqn:E2; cbn [map app]; [|assumption].
      unfold dec at 1. cbn [fst snd reassemble]. replace (s_type (pd4 c (tid_of c g) (e_a e)) =? T_PAD) with true by reflexivity.
      assumption. Qed.

  Lemma claim_msgs_in l pos m : In (pos, m) (claim_msgs l) <-> exists e, In e l /\ e_b e <= TL c /\ pos = e_b e /\ m = e_msg e.
  Proof. unfold claim_msgs. rewrite in_flat_map. split.
    - intros (e & He & Hin). destruct (e_b e <=? TL c) eqn:E; [|destruct Hin]. destruct Hin as [X | []]. inversion X; subst.
      exists e. repeat split; auto. lia.
    - intros (e & He & Hle & -> & ->). exists e. split; [assumption|]. replace (e_b e <=? TL c) with true by lia. left. reflexivity. Qed.

  (* ---- the live partition of generation g at quiescence ---- *)
  Definition gframes (gh : ghost) (g : Z) : list (Z * slot) := flat_map (efrags c g) (g_claims gh g).

  Section Part.
    Variables (s : shared) (gh : ghost) (P : nat -> option plocal) (p : Z).
    Hypothesis I : AppInv c s gh P.
    Hypothesis Q : quiescent P.
    Hypothesis Hp : 0 <= p < 3.
    Hypothesis Hn0 : c_n0 c <= tg c s p.
    Hypothesis Hcl : g_cleaned gh (tg c s p) = false.
    Hypothesis HB : forall e, In e (g_claims gh (tg c s p)) -> Forall byte (e_msg e).
    Let g := tg c s p.

    Lemma part_ent_ar e : In e (g_claims gh g) -> ent_ar e.
    Proof. intros He. destruct (iv_ent c s gh P I g e He) as (_ & Ha & Ham & Hb & _). repeat split; auto. Qed.

    Lemma part_base : 0 <= base c g <= TL c /\ base c g mod 32 = 0.
    Proof. destruct (wf_off0 c W) as (Ho0 & Hm). destruct (TL_bounds c W) as (TB & _). unfold base. destruct (g =? c_n0 c); [auto | split; [lia | reflexivity]]. Qed.

    Lemma part_laid : laid c (base c g) (gframes gh g) (Z.min (toff s p) (TL c)).
    Proof. pose proof (iv_chain c s gh (iv_A c s gh P I) p Hp Hn0) as Hc. fold g in Hc.
      destruct part_base as (Hb & _).
      pose proof (chain_laid g (g_claims gh g) (base c g) (toff s p) part_ent_ar Hc ltac:(lia)) as L.
      rewrite Z.min_l in L by lia. exact L. Qed.

    Lemma part_in o sl : In (o, sl) (gframes gh g) -> exists e, In e (g_claims gh g) /\ In (o, sl) (efrags c g e).
    Proof. unfold gframes. rewrite in_flat_map. auto. Qed.

    Lemma part_pg : g mod 3 = p.
    Proof. apply (tg_mod3 c s gh p (iv_A c s gh P I) Hp). Qed.

    Lemma part_live : live c s gh g.
    Proof. split; [rewrite part_pg; reflexivity | assumption]. Qed.

    Lemma part_mem o sl : In (o, sl) (gframes gh g) -> sh_mem s p o = sl.
    Proof. intros Hin. destruct (part_in o sl Hin) as (e & He & Hin').
      destruct (quiescent_complete c s gh P g e I Q He) as (l0 & _ & _ & _ & Hmem).
      rewrite <- part_pg. apply (Hmem part_live o sl Hin'). Qed.

    Lemma part_zero o : (forall sl, ~ In (o, sl) (gframes gh g)) -> sh_mem s p o = zslot.
    Proof. intros Hnot. destruct (slot_eq_dec (sh_mem s p o) zslot) as [|Hne]; [assumption|]. exfalso.
      destruct (iv_mem c s gh P I p Hp) as (_ & M2). destruct (M2 Hn0 Hcl o Hne) as (e & He & Hin).
      apply in_map_iff in Hin. destruct Hin as ([o1 sl] & E1 & Hin). cbn in E1. subst o1.
      apply (Hnot sl). unfold gframes. apply in_flat_map. exists e. split; assumption. Qed.

    Lemma part_good : all_good (gframes gh g).
    Proof. intros o sl Hin. destruct (part_in o sl Hin) as (e & He & Hin').
      apply (efrags_slots g e o sl); [|assumption]. destruct (part_ent_ar e He) as (A1 & A2 & A3 & _). repeat split; auto. Qed.

    Lemma part_ar e : In e (g_claims gh g) -> ent_ar e.
    Proof. intros He. destruct (part_ent_ar e He) as (A1 & A2 & A3 & _). repeat split; auto. Qed.

    Lemma part_padlast o sl : In (o, sl) (gframes gh g) -> s_type sl = T_PAD -> o + align (s_len sl) FA = TL c.
    Proof. intros Hin. destruct (part_in o sl Hin) as (e & He & Hin'). apply (efrags_slots g e o sl (part_ar e He) Hin'). Qed.

    Lemma part_wf o sl : In (o, sl) (gframes gh g) -> wf_slot c (tid_of c g) o sl.
    Proof. intros Hin. destruct (part_in o sl Hin) as (e & He & Hin'). destruct (part_ar e He) as (A1 & _).
      eapply efrags_wf; eauto. Qed.

    (* the dump of the partition is the rendering of its frames *)
    Lemma part_render : render_mem c (sh_mem s) p = frender (gframes gh g).
    Proof. destruct (TL_bounds c W) as (TB & TM). destruct part_base as (Hb & Hbm).
      unfold render_mem. rewrite FA_32. replace (TL c / 32) with ((TL c - 0) / 32) by (f_equal; ring).
      apply (render_part_region c (sh_mem s p) 0 (base c g) (gframes gh g) (Z.min (toff s p) (TL c)) (TL c) part_laid);
        try reflexivity; try assumption; try lia.
      - intros o sl Hin. apply part_mem. assumption.
      - intros o _ _ Hnot. apply part_zero. assumption. Qed.

    Lemma part_dec o sl : In (o, sl) (gframes gh g) -> dec_ok (render_mem c (sh_mem s) p) o sl.
    Proof. intros Hin. rewrite part_render. destruct part_base as (_ & Hbm).
      eapply frames_dec; [apply part_laid | assumption | apply part_good | assumption]. Qed.
  End Part.
End Gen.
