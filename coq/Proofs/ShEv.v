(* C03, shared publishers: what every step of a publisher reports, in the terms of the frame discipline. *)
Require Import V.Base.MachineInt.
Require Import V.Generated.GenConsts.
Require Import V.Generated.GenOrdering.
Require Import V.Model.LogBase.
Require Import V.Model.Descriptor.
Require Import V.Model.Sched.
Require Import V.Model.AppenderThreads.
Require Import V.Model.ReaderThreads.
Require Import V.Oracle.C03Oracle.
Require Import V.Proofs.OrderingProofs.
Require Import V.Proofs.TailArith.
Require Import V.Proofs.FragArith.
Require Import V.Proofs.AppenderInv.
Require Import V.Proofs.ReaderInv.
Require Import V.Proofs.C03Proofs.
Require Import V.Proofs.ReaderHb.
Require Import V.Proofs.ExclEv.
From Coq Require Import ZifyBool.
Open Scope Z_scope.

Local Opaque burst_lo burst_hi.

Section E.
  Variable c : cfg.
  Hypothesis W : wf_cfg c.

  Definition slot_len (l : plocal) : Z := if padding (p_pc l) then TL c - f_off l else frag_len c l.

  Definition pfacts (t : nat) (s s' : shared) (l : plocal) (e : event) : Prop :=
    let '(k, p, o) := pub_access l in
    match k with
    | WNone => term_region (e_reg (narrow e)) = false /\ sh_mem s' = sh_mem s
    | WNeg => narrow e = e /\ e_acc e = PutOrdered /\ e_reg e = p /\ e_off e = o /\ e_len e = 4 /\
              s_len (sh_mem s' p o) = - slot_len l
    | WBurst => e_reg (narrow e) = p /\ cls (e_acc (narrow e)) = CPlainW /\ o + 4 <= e_off (narrow e) /\
                e_off (narrow e) + e_len (narrow e) <= o + align (slot_len l) FA /\ 0 <= e_len (narrow e) /\
                s_len (sh_mem s' p o) = s_len (sh_mem s p o)
    | WCommit => narrow e = e /\ e_acc e = PutOrdered /\ e_reg e = p /\ e_off e = o /\ e_len e = 4 /\
                 s_len (sh_mem s' p o) = slot_len l
    end.

  Lemma pstep_event t s l s' l' e : pstep c t s l = Some (s', l', e) ->
    (writing (p_pc l) = true \/ padding (p_pc l) = true -> term_region (AppenderThreads.r_idx l) = true) ->
    (writing (p_pc l) = true -> 0 <= p_rem l) -> (padding (p_pc l) = true -> 32 <= TL c - f_off l) ->
    e_tid (narrow e) = t /\ pfacts t s s' l e.
  Proof. intros Hstep Hreg Hw Hp. pose proof (mp_pos c W) as (Hmp & _).
    pose proof header_burst_skips_length as (Hb1 & Hb2). pose proof burst_nonempty as Hbn.
    assert (Hrv : GenConsts.DFH_RESERVED_VALUE_FIELD_OFFSET = 24) by reflexivity.
    assert (Hfo : GenConsts.DFH_FLAGS_FIELD_OFFSET = 5) by reflexivity.
    assert (Hty : GenConsts.DFH_TYPE_FIELD_OFFSET = 6) by reflexivity.
    assert (Hlo : GenConsts.DFH_FRAME_LENGTH_FIELD_OFFSET = 0) by reflexivity.
    assert (Fit : writing (p_pc l) = true -> 32 <= align (frag_len c l) FA /\ frag_len c l <= align (frag_len c l) FA /\
                    frag_bytes c l + 32 = frag_len c l /\ 0 <= frag_bytes c l).
    { intros F. specialize (Hw F). unfold frag_len, frag_bytes. rewrite HDR_32, FA_32.
      pose proof (align_pos (Z.min (p_rem l) (max_payload c) + 32) ltac:(lia)). lia. }
    assert (Pit : padding (p_pc l) = true -> TL c - f_off l <= align (TL c - f_off l) FA).
    { intros F. specialize (Hp F). rewrite FA_32. pose proof (align_pos (TL c - f_off l) ltac:(lia)). lia. }
    unfold pfacts, pub_access, slot_len, pstep in *.
    destruct (p_pc l) eqn:Hpc; try discriminate Hstep; inversion Hstep; subst s' l' e; clear Hstep; cbn [padding writing] in *.
    - split; [reflexivity|]. split; reflexivity.
    - split; [reflexivity|]. split; reflexivity.
    - split; [reflexivity|]. split; reflexivity.
    - split; [reflexivity|]. split; reflexivity.
    - split; [reflexivity|]. split; reflexivity.
    - (* PNegLen *) split; [reflexivity|]. repeat (split; [reflexivity|]). cbn. unfold mupd. rewrite !Z.eqb_refl. reflexivity.
    - (* PHdr *) specialize (Fit eq_refl). rewrite narrow_hdr by (apply Hreg; left; reflexivity). split; [reflexivity|]. cbn.
      split; [reflexivity|]. split; [apply plainw_region|]. unfold mupd. rewrite !Z.eqb_refl. cbn. lia.
    - (* PBody *) specialize (Fit eq_refl). rewrite narrow_other by reflexivity. split; [reflexivity|]. cbn.
      split; [reflexivity|]. split; [apply plainw_copy|]. rewrite HDR_32. unfold mupd. rewrite !Z.eqb_refl. cbn. lia.
    - (* PFlags *) specialize (Fit eq_refl). rewrite narrow_other by reflexivity. split; [reflexivity|]. cbn.
      split; [reflexivity|]. split; [apply plainw_put|]. unfold mupd. rewrite !Z.eqb_refl. cbn. lia.
    - (* PResv *) specialize (Fit eq_refl). rewrite narrow_other by reflexivity. split; [reflexivity|]. cbn.
      split; [reflexivity|]. split; [apply plainw_put|]. unfold mupd. rewrite !Z.eqb_refl. cbn. lia.
    - (* PPosLen *) split; [reflexivity|]. repeat (split; [reflexivity|]). cbn. unfold mupd. rewrite !Z.eqb_refl. reflexivity.
    - (* ENegLen *) split; [reflexivity|]. repeat (split; [reflexivity|]). cbn. unfold mupd. rewrite !Z.eqb_refl. reflexivity.
    - (* EHdr *) specialize (Pit eq_refl). specialize (Hp eq_refl). rewrite narrow_hdr by (apply Hreg; right; reflexivity). split; [reflexivity|]. cbn.
      split; [reflexivity|]. split; [apply plainw_region|]. unfold mupd. rewrite !Z.eqb_refl. cbn. lia.
    - (* EType *) specialize (Pit eq_refl). specialize (Hp eq_refl). rewrite narrow_other by reflexivity. split; [reflexivity|]. cbn.
      split; [reflexivity|]. split; [apply plainw_put|]. unfold mupd. rewrite !Z.eqb_refl. cbn. lia.
    - (* EPosLen *) split; [reflexivity|]. repeat (split; [reflexivity|]). cbn. unfold mupd. rewrite !Z.eqb_refl. reflexivity.
    - split; [reflexivity|]. split; reflexivity.
    - split; [reflexivity|]. split; [reflexivity|]. destruct (_ =? _); reflexivity.
    - split; [reflexivity|]. split; [reflexivity|]. destruct (_ =? _); reflexivity. Qed.
End E.
