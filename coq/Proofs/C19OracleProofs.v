(* C19 - the oracle (Oracle/C19Oracle.v) accepts the model's own observations on the whole domain. *)
From Coq Require Import Permutation.
Require Import V.Base.MachineInt.
Require Import V.Model.UriTypes.
Require Import V.Generated.GenUriTables.
Require Import V.Model.UriSpec.
Require Import V.Model.Uri.
Require Import V.Model.UriBuilder.
Require Import V.Oracle.C19Oracle.
Require Import V.Model.UriSplit.
Require Import V.Proofs.UriProofs.
Require Import V.Proofs.UriGrammarProofs.
Require Import V.Proofs.UriBuilderProofs.
Open Scope Z_scope.

(* ---- sorting is a permutation; permuted maps are equivalent ------------------------------------------- *)

Lemma sort_insert_perm kv l : Permutation (sort_insert kv l) (kv :: l).
Proof.
  induction l as [|h t IH]; cbn; auto.
  destruct (str_ltb (fst h) (fst kv)); auto.
  eapply perm_trans; [apply perm_skip; exact IH | apply perm_swap].
Qed.

Lemma sort_params_perm l : Permutation (sort_params l) l.
Proof.
  induction l as [|kv l IH]; cbn; auto.
  eapply perm_trans; [apply sort_insert_perm | now apply perm_skip].
Qed.

Lemma perm_keys_NoDup a b : Permutation a b -> NoDup (keys a) -> NoDup (keys b).
Proof. intros Hp H. eapply Permutation_NoDup; [apply Permutation_map; eauto | auto]. Qed.

Lemma perm_forallb {A} (f : A -> bool) a b : Permutation a b -> forallb f b = true -> forallb f a = true.
Proof.
  intros Hp H. apply forallb_forall. intros x Hin. eapply forallb_forall in H; eauto. eapply Permutation_in; eauto.
Qed.

Lemma params_equiv_perm a b : NoDup (keys a) -> Permutation a b -> params_equiv a b = true.
Proof.
  intros Hd Hp. unfold params_equiv. apply andb_true_iff. split.
  - rewrite (Permutation_length Hp). apply Z.eqb_refl.
  - apply forallb_forall. intros [k v] Hin. cbn [fst snd].
    rewrite (lookup_in k v b).
    + apply str_eqb_refl.
    + eapply perm_keys_NoDup; eauto.
    + eapply Permutation_in; eauto.
Qed.

Lemma sort_keys_NoDup l : NoDup (keys l) -> NoDup (keys (sort_params l)).
Proof. intros H. eapply perm_keys_NoDup; [apply Permutation_sym, sort_params_perm | auto]. Qed.

(* ---- parse cases -------------------------------------------------------------------------------------------- *)

Lemma canon_reparse u :
  wf_uri u -> parse (canon_display u) = POk (mkUri (u_prefix u) (u_media u) (sort_params (u_params u))).
Proof. intros H. apply print_parse_wf; auto. apply sort_params_perm. Qed.

Lemma wf_obs_ok u :
  wf_uri u ->
  (is_empty (u_prefix u) || str_eqb (u_prefix u) P_SPY) = true
  /\ forallb media_char_ok (u_media u) = true
  /\ forallb entry_ok (sort_params (u_params u)) = true
  /\ keys_distinct (sort_params (u_params u)) = true.
Proof.
  intros [Hp [Hm [[He Hd] _]]]. repeat split; auto.
  - destruct Hp as [-> | ->]; reflexivity.
  - eapply perm_forallb; [apply sort_params_perm | auto].
  - apply keys_distinct_NoDup. now apply sort_keys_NoDup.
Qed.

Lemma reads_as_ok s u : parse s = POk u -> reads_as s (u_prefix u) (u_media u) (sort_params (u_params u)) = true.
Proof.
  intros H. destruct (parse_reads _ _ H) as [Hr Hps]. unfold reads_as. rewrite Hr.
  rewrite str_eqb_refl. cbn [andb]. rewrite <- Hps.
  pose proof (parse_wf _ _ H) as [_ [_ [[_ Hd] _]]].
  apply params_equiv_perm; [now apply sort_keys_NoDup | apply sort_params_perm].
Qed.

Lemma oracle_parse_any s :
  let '(r1, d, r2) := parse_obs s in holds_parse_any s r1 d r2 = true.
Proof.
  unfold parse_obs. destruct (parse s) as [u|e] eqn:E; [|reflexivity].
  pose proof (parse_wf _ _ E) as Hwf. rewrite (canon_reparse u Hwf).
  cbn [pobs_of holds_parse_any u_prefix u_media u_params].
  destruct (wf_obs_ok u Hwf) as [A [B [C D]]]. rewrite A, B, C, D. cbn [andb].
  rewrite (reads_as_ok _ _ E). cbn [andb].
  unfold canon_display. rewrite display_is_spec by apply Hwf. rewrite str_eqb_refl, andb_true_r.
  unfold pobs_same. rewrite !str_eqb_refl. cbn [andb].
  apply params_equiv_perm.
  - apply sort_keys_NoDup. apply Hwf.
  - apply Permutation_sym, sort_params_perm.
Qed.

Lemma oracle_parse_valid s prefix media kvs :
  let '(r1, d, r2) := parse_obs s in holds_parse_valid s prefix media kvs r1 d r2 = true.
Proof.
  pose proof (oracle_parse_any s) as Hany.
  destruct (parse_obs s) as [[r1 d] r2] eqn:Eo. unfold holds_parse_valid.
  destruct (grammar_ok prefix media kvs && str_eqb s (spec_uri prefix media kvs)) eqn:Eg; auto.
  rewrite Hany, andb_true_r.
  apply andb_true_iff in Eg. destruct Eg as [Eg Es]. apply str_eqb_eq in Es. subst s.
  pose proof (parse_grammar _ _ _ Eg) as Hp. unfold parse_obs in Eo. rewrite Hp in Eo.
  injection Eo as <- _ _. cbn [pobs_of u_prefix u_media u_params pobs_same].
  rewrite !str_eqb_refl. cbn [andb].
  pose proof (parse_wf _ _ Hp) as [_ [_ [[_ Hd] _]]]. cbn in Hd.
  apply params_equiv_perm.
  - now apply sort_keys_NoDup.
  - apply sort_params_perm.
Qed.

(* ---- add_session_id ----------------------------------------------------------------------------------------- *)

Lemma remove_key_in K ps kv : NoDup (keys ps) -> (In kv (remove_key K ps) <-> In kv ps /\ fst kv <> K).
Proof.
  induction ps as [|[k v] r IH]; cbn; intros Hd; [tauto|].
  inversion Hd as [|? ? Hn Hd']; subst.
  destruct (str_eqb K k) eqn:E.
  - apply str_eqb_eq in E. subst k. split.
    + intros Hin. split; auto. intros X. apply Hn. rewrite <- X. now apply in_map.
    + intros [[<-|Hin] Hne]; auto. cbn in Hne. contradiction.
  - apply str_eqb_neq in E. cbn. rewrite IH by auto. split.
    + intros [<-|[Hin Hne]]; auto; try (split; auto; cbn; congruence).
    + intros [[<-|Hin] Hne]; auto.
Qed.

Lemma remove_key_keys_NoDup K ps : NoDup (keys ps) -> NoDup (keys (remove_key K ps)).
Proof.
  induction ps as [|[k v] r IH]; cbn; intros Hd; auto.
  inversion Hd as [|? ? Hn Hd']; subst.
  destruct (str_eqb K k); auto. cbn. constructor; auto.
  intros Hin. apply Hn. apply in_map_iff in Hin. destruct Hin as [kv [E Hin]].
  apply remove_key_in in Hin; auto. destruct Hin as [Hin _]. apply in_map_iff. eauto.
Qed.

Lemma remove_key_perm K a b :
  NoDup (keys a) -> NoDup (keys b) ->
  (forall kv, fst kv <> K -> (In kv a <-> In kv b)) ->
  Permutation (remove_key K a) (remove_key K b).
Proof.
  intros Ha Hb H. apply NoDup_Permutation.
  - apply NoDup_of_keys. now apply remove_key_keys_NoDup.
  - apply NoDup_of_keys. now apply remove_key_keys_NoDup.
  - intros kv. rewrite !remove_key_in by auto. split; intros [Hin Hne]; split; auto; now apply (H kv Hne).
Qed.

Lemma insert_in_iff k v ps kv :
  NoDup (keys ps) -> fst kv <> k -> (In kv (insert k v ps) <-> In kv ps).
Proof.
  intros Hd Hne. split.
  - intros Hin. apply insert_in in Hin. destruct Hin as [-> | Hin]; auto. cbn in Hne. contradiction.
  - intros Hin. destruct kv as [k' v']. cbn in Hne.
    apply lookup_some_in. rewrite lookup_insert_other by auto. now apply lookup_in.
Qed.

Lemma oracle_sid s sid :
  let '(r1, d, r2) := sid_obs s sid in holds_sid s sid r1 d r2 = true.
Proof.
  unfold sid_obs. destruct (add_session_id s sid) as [u'|e] eqn:E; [|reflexivity].
  destruct (add_session_id_spec _ _ _ E) as [u [Hp [E1 [E2 [Hl [Ho Hre]]]]]].
  destruct (Hre (sort_params (u_params u')) (sort_params_perm _)) as [Hparse Hlook].
  unfold canon_display. rewrite Hparse, Hp.
  cbn [pobs_of holds_sid u_prefix u_media u_params].
  rewrite !str_eqb_refl. cbn [andb].
  pose proof (parse_wf _ _ Hp) as [_ [_ [[_ Hd] _]]].
  assert (Hd' : NoDup (keys (u_params u'))).
  { unfold add_session_id in E. rewrite Hp in E. injection E as <-. cbn. now apply insert_keys_NoDup. }
  assert (HS : P_SESSION_ID = SESSION_ID_PARAM_NAME) by apply spec_consts. rewrite HS.
  set (ps2 := sort_params (sort_params (u_params u'))).
  assert (Hperm2 : Permutation ps2 (u_params u')).
  { unfold ps2. eapply perm_trans; apply sort_params_perm. }
  assert (Hd2 : NoDup (keys ps2)) by (eapply perm_keys_NoDup; [apply Permutation_sym; eauto | auto]).
  rewrite (lookup_perm ps2 (u_params u') Hd2 Hperm2), Hl, str_eqb_refl. cbn [andb].
  apply andb_true_iff. split.
  - apply params_equiv_perm; [now apply remove_key_keys_NoDup|].
    apply remove_key_perm; auto.
    + now apply sort_keys_NoDup.
    + intros kv Hne. split; intros Hin.
      * eapply Permutation_in; [apply Permutation_sym, sort_params_perm|].
        eapply Permutation_in in Hin; [|exact Hperm2].
        unfold add_session_id in E. rewrite Hp in E. injection E as <-. cbn in Hin.
        now apply insert_in_iff in Hin.
      * eapply Permutation_in; [apply Permutation_sym; exact Hperm2|].
        eapply Permutation_in in Hin; [|apply sort_params_perm].
        unfold add_session_id in E. rewrite Hp in E. injection E as <-. cbn.
        now apply insert_in_iff.
  - now apply keys_distinct_NoDup.
Qed.

(* ---- put / remove / get ------------------------------------------------------------------------------------ *)

Lemma insert_perm k v a b : NoDup (keys a) -> Permutation a b -> Permutation (insert k v a) (insert k v b).
Proof.
  intros Hd Hp. pose proof (perm_keys_NoDup _ _ Hp Hd) as Hd'.
  apply NoDup_Permutation.
  - apply NoDup_of_keys. now apply insert_keys_NoDup.
  - apply NoDup_of_keys. now apply insert_keys_NoDup.
  - intros [k' v']. destruct (list_eq_dec Z.eq_dec k' k) as [->|Hne].
    + split; intros Hin.
      * apply lookup_in in Hin; [|now apply insert_keys_NoDup]. rewrite lookup_insert_same in Hin. injection Hin as <-.
        apply lookup_some_in. apply lookup_insert_same.
      * apply lookup_in in Hin; [|now apply insert_keys_NoDup]. rewrite lookup_insert_same in Hin. injection Hin as <-.
        apply lookup_some_in. apply lookup_insert_same.
    + rewrite !insert_in_iff by auto.
      split; intros Hin; [eapply Permutation_in; [exact Hp | exact Hin]
                         | eapply Permutation_in; [apply Permutation_sym; exact Hp | exact Hin]].
Qed.

Lemma api_sim ops : forall u ps,
  NoDup (keys (u_params u)) -> Permutation (u_params u) ps ->
  snd (api_run u ops) = snd (map_run ps ops)
  /\ u_prefix (fst (api_run u ops)) = u_prefix u /\ u_media (fst (api_run u ops)) = u_media u
  /\ NoDup (keys (u_params (fst (api_run u ops))))
  /\ Permutation (u_params (fst (api_run u ops))) (fst (map_run ps ops)).
Proof.
  induction ops as [|o r IH]; intros u ps Hd Hp; cbn [api_run map_run].
  - cbn. auto.
  - assert (Hl : forall k, lookup k (u_params u) = lookup k ps) by (now apply lookup_perm).
    assert (Hstep : snd (api_step u o) = snd (map_step ps o)
                    /\ u_prefix (fst (api_step u o)) = u_prefix u /\ u_media (fst (api_step u o)) = u_media u
                    /\ NoDup (keys (u_params (fst (api_step u o))))
                    /\ Permutation (u_params (fst (api_step u o))) (fst (map_step ps o))).
    { destruct o as [k v|k|k|k d|k];
        cbn [api_step map_step fst snd uri_put uri_remove u_prefix u_media u_params];
        unfold uri_get, uri_get_or_default, uri_contains_key; rewrite ?Hl.
      - repeat split; auto; [now apply insert_keys_NoDup | now apply insert_perm].
      - repeat split; auto; [now apply remove_key_keys_NoDup|].
        apply remove_key_perm; auto.
        + eapply perm_keys_NoDup; eauto.
        + intros kv _. split; intros Hin; [eapply Permutation_in; [exact Hp | exact Hin]
                                            | eapply Permutation_in; [apply Permutation_sym; exact Hp | exact Hin]].
      - repeat split; auto.
      - repeat split; auto.
      - repeat split; auto. destruct (lookup k ps); reflexivity. }
    destruct (api_step u o) as [u1 x] eqn:E1. destruct (map_step ps o) as [ps1 x'] eqn:E2.
    cbn [fst snd] in Hstep. destruct Hstep as [Ex [Epre [Emed [Hd1 Hp1]]]]. subst x'.
    destruct (IH u1 ps1 Hd1 Hp1) as [A [B [C [D F]]]].
    destruct (api_run u1 r) as [u2 xs]. destruct (map_run ps1 r) as [ps2 xs']. cbn [fst snd] in *.
    subst xs'. repeat split; auto; congruence.
Qed.

Lemma oracle_api s ops :
  let '(r1, res, r2) := api_obs s ops in holds_api ops r1 res r2 = true.
Proof.
  unfold api_obs. destruct (parse s) as [u|e] eqn:E; [|reflexivity].
  pose proof (parse_wf _ _ E) as [_ [_ [[_ Hd] _]]].
  destruct (api_sim ops u (sort_params (u_params u)) Hd (Permutation_sym (sort_params_perm _))) as [A [B [C [D F]]]].
  destruct (api_run u ops) as [u2 xs]. cbn [fst snd] in *.
  cbn [pobs_of holds_api u_prefix u_media u_params].
  destruct (map_run (sort_params (u_params u)) ops) as [ps' xs'] eqn:EM. cbn [fst snd] in *. subst xs'.
  rewrite eqb_of_refl. cbn [andb]. unfold pobs_same. rewrite B, C, !str_eqb_refl. cbn [andb].
  apply params_equiv_perm.
  - now apply sort_keys_NoDup.
  - eapply perm_trans; [apply sort_params_perm | exact F].
Qed.

(* ---- the builder ----------------------------------------------------------------------------------------------- *)

Lemma oracle_builder T ops :
  tables_ok T = true ->
  let '(oks, b, r) := builder_obs T ops in holds_builder ops oks b r = true.
Proof.
  intros HT. apply tables_ok_tok in HT.
  unfold builder_obs, holds_builder.
  destruct (in_domain ops) eqn:Edom.
  2:{ destruct (run T empty_state ops) as [s oks]. destruct (build T s); reflexivity. }
  unfold in_domain in Edom. apply andb_true_iff in Edom. destruct Edom as [_ Hb].
  pose proof (builder_correct T HT ops Hb) as H. cbn zeta in H. destruct H as [Eoks Hbuild].
  destruct (run T empty_state ops) as [s oks]. destruct (srun s_init ops) as [a soks]. cbn [fst snd negb] in *.
  subst soks.
  destruct (sp_media a) as [m|] eqn:Em.
  - destruct Hbuild as [b [ps [Hbd [Hparse Hperm]]]]. rewrite Hbd, Hparse.
    rewrite eqb_of_refl. cbn [andb pobs_of u_prefix u_media u_params pobs_same].
    rewrite !str_eqb_refl. cbn [andb].
    apply params_equiv_perm.
    + apply sort_keys_NoDup. eapply perm_keys_NoDup; [apply Permutation_sym; eauto | apply expected_keys_nodup].
    + eapply perm_trans; [apply sort_params_perm | exact Hperm].
  - rewrite Hbuild. rewrite eqb_of_refl. reflexivity.
Qed.
