(* Rendered words of a term partition (LogBase.render_from) and their differences (LogDelta.words_diff):
   where the words of a list of well-formed entries lie, what a difference can report, and what term_put / term_update
   do to the rendering.  Used by the byte parts of the C04 and C18 oracles (Proofs/C04Bytes.v, C04XBytes.v, C18Inside.v). *)
Require Import V.Base.MachineInt.
Require Import V.Generated.GenConsts.
Require Import V.Model.LogBase.
Require Import V.Model.LogDelta.
Require Import V.Model.Appender.
Require Import V.Proofs.DescriptorProofs.
Require Import V.Proofs.AppenderProofs.
Require Import V.Proofs.BulkProofs.
Require Import V.Proofs.C04OracleProofs.
From Coq Require Import ZifyBool.
Open Scope Z_scope.

(* every word of ws has its offset in [lo, hi) *)
Definition offs_in (lo hi : Z) (ws : list (Z * Z)) : Prop := Forall (fun w => lo <= fst w < hi) ws.

Lemma offs_in_weaken lo hi lo' hi' ws : lo' <= lo -> hi <= hi' -> offs_in lo hi ws -> offs_in lo' hi' ws.
Proof. intros H1 H2 H. eapply Forall_impl; [|exact H]. cbn. intros w Hw. lia. Qed.
Lemma offs_in_app lo hi a b : offs_in lo hi a -> offs_in lo hi b -> offs_in lo hi (a ++ b).
Proof. intros Ha Hb. apply Forall_app. split; assumption. Qed.
Lemma offs_in_nil lo hi : offs_in lo hi []. Proof. constructor. Qed.
Lemma offs_in_nonzero lo hi ws : offs_in lo hi ws -> offs_in lo hi (nonzero ws).
Proof. intros H. unfold nonzero. induction H as [|w ws Hw Hws IH]; [constructor|].
  cbn [filter]. destruct (negb (snd w =? 0)); [constructor; assumption|assumption]. Qed.

(* as a boolean, the way the oracles ask *)
Lemma offs_in_forallb lo hi ws : offs_in lo hi ws -> forallb (fun w => (lo <=? fst w) && (fst w <? hi)) ws = true.
Proof. intros H. apply forallb_forall. intros w Hw. unfold offs_in in H. rewrite Forall_forall in H. specialize (H w Hw). lia. Qed.

(* ---- where the words of one frame lie ---- *)
Lemma words_of_bytes_offs : forall n bs o, (length bs <= n)%nat -> offs_in o (o + zlen bs) (words_of_bytes o bs).
Proof. induction n as [|n IH]; intros bs o Hn.
  - destruct bs; [constructor|cbn in Hn; lia].
  - destruct bs as [|b0 [|b1 [|b2 [|b3 r]]]]; cbn [words_of_bytes].
    + constructor.
    + constructor; [|constructor]. cbn [fst]. rewrite zlen_cons. pose proof (zlen_nonneg (@nil Z)). lia.
    + constructor; [|constructor]. cbn [fst]. rewrite !zlen_cons. pose proof (zlen_nonneg (@nil Z)). lia.
    + constructor; [|constructor]. cbn [fst]. rewrite !zlen_cons. pose proof (zlen_nonneg (@nil Z)). lia.
    + rewrite !zlen_cons. pose proof (zlen_nonneg r). constructor; [cbn [fst]; lia|].
      eapply offs_in_weaken; [| |apply (IH r (o + 4))]; [lia|lia|]. cbn [length] in Hn. lia. Qed.

Lemma header_words_offs off lw f : offs_in off (off + 32) (header_words off lw f).
Proof. unfold header_words. repeat (constructor; [cbn [fst]; lia|]). constructor. Qed.

(* an entry whose rendering stays inside the bytes it occupies *)
Definition entry_wf (e : entry) : Prop :=
  match e with
  | Committed f | Claimed f => HDR <= f_len f /\ zlen (f_body f) <= f_len f - HDR
  | Unknown n => 0 <= n
  end.

Lemma entry_wf_span e : entry_wf e -> 0 <= entry_span e.
Proof. destruct e as [f|f|n]; cbn [entry_wf entry_span]; rewrite ?HDR_eq, ?FA_eq; intros H; try lia;
  pose proof (align_bounds (f_len f) ltac:(lia)); lia. Qed.
Lemma wf_spans t : Forall entry_wf t -> spans_nonneg t.
Proof. intros H. eapply Forall_impl; [|exact H]. apply entry_wf_span. Qed.

Lemma term_end_nonneg t : spans_nonneg t -> 0 <= term_end t.
Proof. induction 1 as [|e r He Hr IH]; cbn [term_end]; lia. Qed.
Lemma term_end_app a b : term_end (a ++ b) = term_end a + term_end b.
Proof. induction a as [|e a IH]; cbn [app term_end]; lia. Qed.
Lemma spans_nonneg_app a b : spans_nonneg a -> spans_nonneg b -> spans_nonneg (a ++ b).
Proof. intros Ha Hb. apply Forall_app. split; assumption. Qed.

Lemma frame_words_offs off lw f : HDR <= f_len f -> zlen (f_body f) <= f_len f - HDR ->
  offs_in off (off + align (f_len f) FA) (nonzero (header_words off lw f ++ words_of_bytes (off + HDR) (f_body f))).
Proof. rewrite HDR_eq, FA_eq. intros H1 H2. pose proof (align_bounds (f_len f) ltac:(lia)) as [Ha _].
  pose proof (zlen_nonneg (f_body f)).
  apply offs_in_nonzero. apply offs_in_app.
  - eapply offs_in_weaken; [| |apply header_words_offs]; lia.
  - eapply offs_in_weaken; [| |apply (words_of_bytes_offs (length (f_body f))); lia]; lia. Qed.

(* the words of well-formed entries laid out from off lie in [off, off + bytes they occupy) *)
Lemma render_from_offs t : Forall entry_wf t -> forall off, offs_in off (off + term_end t) (render_from off t).
Proof. induction 1 as [|e r He Hr IH]; intros off; [constructor|].
  pose proof (term_end_nonneg r (wf_spans r Hr)) as Hte. pose proof (entry_wf_span e He) as Hsp.
  destruct e as [f|f|n]; cbn [render_from term_end entry_span] in *.
  - destruct He as [H1 H2]. apply offs_in_app.
    + eapply offs_in_weaken; [| |apply frame_words_offs; assumption]; lia.
    + eapply offs_in_weaken; [| |apply IH]; lia.
  - destruct He as [H1 H2]. apply offs_in_app.
    + eapply offs_in_weaken; [| |apply frame_words_offs; assumption]; lia.
    + eapply offs_in_weaken; [| |apply IH]; lia.
  - eapply offs_in_weaken; [| |apply IH]; lia. Qed.

(* ---- differences ---- *)
Lemma words_diff_nil_l b : words_diff [] b = b.
Proof. destruct b; reflexivity. Qed.

Lemma words_diff_same w : words_diff w w = [].
Proof. induction w as [|[o v] w IH]; [reflexivity|]. cbn [words_diff]. rewrite !Z.eqb_refl. exact IH. Qed.

Lemma words_diff_prefix p : forall a b, words_diff (p ++ a) (p ++ b) = words_diff a b.
Proof. induction p as [|[o v] p IH]; intros a b; [reflexivity|]. cbn [app words_diff]. rewrite !Z.eqb_refl. apply IH. Qed.

Lemma words_diff_appended a b : words_diff a (a ++ b) = b.
Proof. rewrite <- (app_nil_r a) at 1. rewrite words_diff_prefix. apply words_diff_nil_l. Qed.

(* two renderings that agree from k on (s) and differ only in words below k (e, e'): the difference reports only offsets of e, e' *)
Lemma words_diff_middle lo k s : Forall (fun w => k <= fst w) s ->
  forall e e', offs_in lo k e -> offs_in lo k e' -> offs_in lo k (words_diff (e ++ s) (e' ++ s)).
Proof. intros Hs. induction e as [|[oa va] e IHe].
  - (* e = [] *) intros e' _ He'. cbn [app]. induction e' as [|[ob vb] e' IHe'].
    + cbn [app]. rewrite words_diff_same. constructor.
    + inversion He' as [|? ? Hb He'']; subst. cbn [fst] in Hb. cbn [app].
      destruct s as [|[oa va] s'].
      * cbn [words_diff]. rewrite app_nil_r. constructor; [cbn [fst]; lia|assumption].
      * inversion Hs as [|? ? Ha _]; subst. cbn [fst] in Ha. cbn [words_diff].
        assert (E1 : (oa =? ob) = false) by lia. assert (E2 : (oa <? ob) = false) by lia. rewrite E1, E2.
        constructor; [cbn [fst]; lia|]. apply IHe'. assumption.
  - intros e' He He'. inversion He as [|? ? Ha He1]; subst. cbn [fst] in Ha.
    induction e' as [|[ob vb] e' IHe'].
    + cbn [app]. destruct s as [|[ob vb] s'].
      * cbn [words_diff]. constructor; [cbn [fst]; lia|]. specialize (IHe [] He1 (offs_in_nil _ _)). cbn [app] in IHe. exact IHe.
      * inversion Hs as [|? ? Hb _]; subst. cbn [fst] in Hb. cbn [app words_diff].
        assert (E1 : (oa =? ob) = false) by lia. assert (E2 : (oa <? ob) = true) by lia. rewrite E1, E2.
        constructor; [cbn [fst]; lia|]. specialize (IHe [] He1 (offs_in_nil _ _)). cbn [app] in IHe. exact IHe.
    + inversion He' as [|? ? Hb He'']; subst. cbn [fst] in Hb. cbn [app words_diff].
      destruct (oa =? ob) eqn:E1.
      * destruct (va =? vb); [apply IHe; assumption|]. constructor; [cbn [fst]; lia|apply IHe; assumption].
      * destruct (oa <? ob) eqn:E2.
        -- constructor; [cbn [fst]; lia|]. apply (IHe ((ob, vb) :: e')); assumption.
        -- constructor; [cbn [fst]; lia|]. apply IHe'. assumption.
Qed.

(* all offsets of a rendering are at or after where it starts *)
Lemma render_from_lower t : spans_nonneg t -> forall off, Forall (fun w => off <= fst w) (render_from off t).
Proof. induction 1 as [|e r He Hr IH]; intros off; [constructor|].
  assert (Hrest : Forall (fun w => off <= fst w) (render_from (off + entry_span e) r)).
  { eapply Forall_impl; [|apply IH]. cbn. intros w Hw. lia. }
  assert (Hfr : forall lw f, Forall (fun w => off <= fst w) (nonzero (header_words off lw f ++ words_of_bytes (off + HDR) (f_body f)))).
  { intros lw f. assert (H : offs_in off (off + 32 + zlen (f_body f)) (header_words off lw f ++ words_of_bytes (off + HDR) (f_body f))).
    { pose proof (zlen_nonneg (f_body f)). rewrite HDR_eq. apply offs_in_app.
      - eapply offs_in_weaken; [| |apply header_words_offs]; lia.
      - eapply offs_in_weaken; [| |apply (words_of_bytes_offs (length (f_body f))); lia]; lia. }
    apply offs_in_nonzero in H. eapply Forall_impl; [|exact H]. cbn. intros w Hw. lia. }
  destruct e as [f|f|n]; cbn [render_from entry_span] in *.
  - apply Forall_app. split; [apply Hfr|exact Hrest].
  - apply Forall_app. split; [apply Hfr|exact Hrest].
  - exact Hrest. Qed.

(* ---- term_put at the end of the content, term_update of one entry ---- *)



(* appending es to a partition whose content ends at off: exactly the words of es appear, all of them in [off, off + bytes of es) *)
Lemma appended_render t off es : term_end t = off -> spans_nonneg t -> Forall entry_wf es ->
  words_diff (render_term t) (render_term (term_put t off es)) = render_from off es /\
  offs_in off (off + term_end es) (render_from off es).
Proof. intros He Hs Hw. rewrite (term_put_at t off es He Hs). unfold render_term. rewrite render_from_app.
  rewrite words_diff_appended. rewrite Z.add_0_l, He. split; [reflexivity|apply render_from_offs; assumption]. Qed.

(* term_update either leaves the term alone or replaces the one entry that starts at off *)
Lemma term_update_cases t : forall off g,
  term_update t off g = t \/
  exists p e s, t = p ++ e :: s /\ term_end p = off /\ term_update t off g = p ++ g e :: s.
Proof. induction t as [|e r IH]; intros off g; [left; reflexivity|]. cbn [term_update].
  destruct (off =? 0) eqn:E0.
  - right. exists [], e, r. cbn [app term_end]. repeat split. lia.
  - destruct (entry_span e <=? off) eqn:E1; [|left; reflexivity].
    destruct (IH (off - entry_span e) g) as [Hsame | (p & e1 & s & Ht & Hend & Hup)].
    + left. rewrite Hsame. reflexivity.
    + right. exists (e :: p), e1, s. cbn [app term_end]. rewrite Hup. repeat split; [rewrite Ht; reflexivity|lia]. Qed.

(* replacing one entry by one of the same extent: only words inside that entry's bytes can differ *)
Lemma updated_render p e e' s : spans_nonneg (p ++ e :: s) -> entry_span e' = entry_span e -> entry_wf e -> entry_wf e' ->
  offs_in (term_end p) (term_end p + entry_span e)
          (words_diff (render_term (p ++ e :: s)) (render_term (p ++ e' :: s))).
Proof. intros Hsp Hspan He He'. unfold render_term. rewrite !render_from_app. rewrite words_diff_prefix. rewrite Z.add_0_l.
  apply Forall_app in Hsp. destruct Hsp as [_ Hes]. inversion Hes as [|? ? Hse Hss]; subst.
  assert (Hsplit : forall x, render_from (term_end p) (x :: s) =
                             render_from (term_end p) [x] ++ render_from (term_end p + entry_span x) s).
  { intros x. change (x :: s) with ([x] ++ s). rewrite render_from_app. cbn [term_end]. rewrite Z.add_0_r. reflexivity. }
  rewrite (Hsplit e), (Hsplit e'). rewrite Hspan.
  apply words_diff_middle.
  - apply render_from_lower. assumption.
  - pose proof (render_from_offs [e] ltac:(constructor; [assumption|constructor]) (term_end p)) as H. cbn [term_end] in H.
    rewrite Z.add_0_r in H. exact H.
  - pose proof (render_from_offs [e'] ltac:(constructor; [assumption|constructor]) (term_end p)) as H. cbn [term_end] in H.
    rewrite Z.add_0_r, Hspan in H. exact H. Qed.
