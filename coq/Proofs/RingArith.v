(* Arithmetic facts shared by the proofs about the command ring: power-of-two capacities,
   index = position mod capacity, 8-byte alignment, windows of positions, and the checked /
   truncating operators of Model/Ring.v on the ranges that occur. *)
Require Import V.Base.MachineInt.
Require Import V.Generated.GenConsts.
Require Import V.Model.LogBase.
Require Import V.Model.Ring.
Require Import V.Spec.Fifo.
From Coq Require Import ZifyBool Lia Znumtheory.
Open Scope Z_scope.

Definition two30 : Z := 1073741824.
Definition two62 : Z := 4611686018427387904.

Definition cap_ok (cp : Z) : Prop := exists k, 3 <= k <= 30 /\ cp = 2 ^ k.

Lemma HL_eq : HL = 8. Proof. reflexivity. Qed.
Lemma AL_eq : AL = 8. Proof. reflexivity. Qed.
Lemma PAD_eq : PAD = -1. Proof. reflexivity. Qed.

Lemma cap_ok_range cp : cap_ok cp -> 8 <= cp <= two30.
Proof. intros (k & Hk & ->). unfold two30. split.
  - change 8 with (2 ^ 3). apply Z.pow_le_mono_r; lia.
  - change 1073741824 with (2 ^ 30). apply Z.pow_le_mono_r; lia. Qed.

Lemma cap_ok_div8 cp : cap_ok cp -> exists c, cp = 8 * c /\ 0 < c.
Proof. intros (k & Hk & ->). exists (2 ^ (k - 3)). split.
  - change 8 with (2 ^ 3). rewrite <- Z.pow_add_r by lia. f_equal. lia.
  - apply Z.pow_pos_nonneg; lia. Qed.

Lemma cap_ok_mod8 cp : cap_ok cp -> cp mod 8 = 0.
Proof. intros H. destruct (cap_ok_div8 cp H) as (c & -> & _). rewrite Z.mul_comm. apply Z_mod_mult. Qed.

Lemma land_mask cp p : cap_ok cp -> Z.land p (cp - 1) = p mod cp.
Proof. intros (k & Hk & ->). replace (2 ^ k - 1) with (Z.ones k).
  - apply Z.land_ones. lia.
  - rewrite Z.ones_equiv. lia. Qed.

Lemma mod_range cp p : cap_ok cp -> 0 <= p mod cp < cp.
Proof. intros H. apply Z.mod_pos_bound. pose proof (cap_ok_range cp H). lia. Qed.

Lemma mask_idx_mod cp p : cap_ok cp -> mask_idx cp p = p mod cp.
Proof. intros H. unfold mask_idx. rewrite land_mask by assumption. apply wrap32_id.
  pose proof (mod_range cp p H). pose proof (cap_ok_range cp H). unfold in_i32, two31, two30 in *. lia. Qed.

Lemma idx_mod8 cp p : cap_ok cp -> p mod 8 = 0 -> (p mod cp) mod 8 = 0.
Proof. intros H Hp. destruct (cap_ok_div8 cp H) as (c & -> & Hc).
  rewrite <- Zmod_div_mod; try lia. exists c. lia. Qed.

(* ---- alignment ---- *)
Lemma align8_bounds v : v <= align v 8 < v + 8.
Proof. unfold align. pose proof (Z.div_mod (v + 7) 8 ltac:(lia)). pose proof (Z.mod_pos_bound (v + 7) 8 ltac:(lia)).
  replace (8 - 1) with 7 by lia. lia. Qed.
Lemma align8_mod v : align v 8 mod 8 = 0.
Proof. unfold align. apply Z_mod_mult. Qed.
Lemma align8_id v : v mod 8 = 0 -> align v 8 = v.
Proof. intros H. unfold align. replace (8 - 1) with 7 by lia.
  pose proof (Z.div_mod v 8 ltac:(lia)). rewrite H in H0.
  replace (v + 7) with (7 + (v / 8) * 8) by lia. rewrite Z_div_plus by lia.
  replace (7 / 8) with 0 by reflexivity. lia. Qed.
Lemma align8_mono a b : a <= b -> align a 8 <= align b 8.
Proof. intros H. unfold align. replace (8 - 1) with 7 by lia.
  pose proof (Z.div_le_mono (a + 7) (b + 7) 8 ltac:(lia) ltac:(lia)). lia. Qed.
Lemma align8_pos v : 0 < v -> 8 <= align v 8.
Proof. intros H. pose proof (align8_bounds v). pose proof (align8_mod v).
  pose proof (Z.div_mod (align v 8) 8 ltac:(lia)). lia. Qed.

Lemma rec_bytes_bounds n : 0 <= n -> 8 <= rec_bytes n /\ n + 8 <= rec_bytes n < n + 16 /\ rec_bytes n mod 8 = 0.
Proof. intros H. unfold rec_bytes. pose proof (align8_bounds (n + 8)). pose proof (align8_mod (n + 8)). lia. Qed.

(* ---- positions inside a window of one capacity ---- *)
Lemma mod_shift cp x k : 0 < cp -> 0 <= x < cp -> (x + k * cp) mod cp = x.
Proof. intros. rewrite Z_mod_plus_full. apply Z.mod_small; lia. Qed.

Lemma mod_window cp h q : 0 < cp -> h <= q < h + cp ->
  (q mod cp = h mod cp + (q - h) /\ h mod cp + (q - h) < cp) \/
  (q mod cp = h mod cp + (q - h) - cp /\ cp <= h mod cp + (q - h)).
Proof. intros Hc Hq.
  pose proof (Z.mod_pos_bound h cp Hc) as Hh.
  pose proof (Z.div_mod h cp ltac:(lia)) as Hd.
  destruct (Z_lt_dec (h mod cp + (q - h)) cp) as [L | L].
  - left. split; [| assumption].
    transitivity ((h mod cp + (q - h) + (h / cp) * cp) mod cp). { f_equal. lia. }
    apply mod_shift; lia.
  - right. split; [| lia].
    transitivity ((h mod cp + (q - h) - cp + (h / cp + 1) * cp) mod cp). { f_equal. lia. }
    apply mod_shift; lia. Qed.

(* a piece that does not straddle the end of the data area: index of an inner position *)
Lemma idx_inner cp p d : 0 < cp -> 0 <= d -> p mod cp + d < cp -> (p + d) mod cp = p mod cp + d.
Proof. intros Hc Hd Hs. pose proof (Z.mod_pos_bound p cp Hc).
  pose proof (Z.div_mod p cp ltac:(lia)).
  transitivity ((p mod cp + d + (p / cp) * cp) mod cp). { f_equal. lia. }
  apply mod_shift; lia. Qed.

(* the front of the ring seen from a tail that has to wrap: when the record does not fit behind the
   tail and the head value hd is within one capacity, hd's index is its distance from the lap start *)
Lemma front_index cp tl hd : 0 < cp -> tl - tl mod cp < hd <= tl -> hd mod cp = hd - (tl - tl mod cp).
Proof. intros Hc Hh. pose proof (Z.mod_pos_bound tl cp Hc).
  pose proof (Z.div_mod tl cp ltac:(lia)).
  transitivity ((hd - (tl - tl mod cp) + (tl / cp) * cp) mod cp). { f_equal. lia. }
  apply mod_shift; lia. Qed.

(* ---- checked operators on the ranges that occur ---- *)
Lemma chk32_ok m z : in_i32 z = true -> chk32 m z = Ok z.
Proof. intros H. unfold chk32. rewrite H. reflexivity. Qed.
Lemma chk64_ok m z : in_i64 z = true -> chk64 m z = Ok z.
Proof. intros H. unfold chk64. rewrite H. reflexivity. Qed.

Lemma in_i32_small z : - two31 <= z < two31 -> in_i32 z = true.
Proof. unfold in_i32. lia. Qed.
Lemma in_i64_small z : - two63 <= z < two63 -> in_i64 z = true.
Proof. unfold in_i64. lia. Qed.

Lemma ralign_ok m v : 0 <= v <= two30 -> ralign m v = Ok (align v 8).
Proof. intros H. unfold ralign, add32. rewrite chk32_ok.
  - cbn [bind]. reflexivity.
  - apply in_i32_small. unfold two31, two30, AL, GenConsts.RB_ALIGNMENT in *. lia. Qed.

Lemma lacks_ok m cp rq tl hd :
  0 < cp <= two30 -> 0 <= hd <= two62 -> 0 <= tl <= two62 ->
  lacks m cp rq tl hd = Ok (rq >? cp - (tl - hd)).
Proof. intros Hc Hh Ht. unfold lacks, avail, sub64.
  rewrite chk64_ok by (apply in_i64_small; unfold two63, two62 in *; lia). cbn [bind].
  rewrite chk64_ok by (apply in_i64_small; unfold two63, two62, two30 in *; lia). reflexivity. Qed.

Lemma wrap_needed_ok m cp rq tl : cap_ok cp ->
  wrap_needed m cp rq tl = Ok (if rq >? cp - tl mod cp then Some (cp - tl mod cp) else None).
Proof. intros H. unfold wrap_needed, sub32. rewrite mask_idx_mod by assumption.
  pose proof (mod_range cp tl H). pose proof (cap_ok_range cp H).
  rewrite chk32_ok by (apply in_i32_small; unfold two31, two30 in *; lia). reflexivity. Qed.

Lemma lacks_front_ok cp rq hd : cap_ok cp -> lacks_front cp rq hd = (rq >? hd mod cp).
Proof. intros H. unfold lacks_front. rewrite mask_idx_mod by assumption. reflexivity. Qed.

Lemma new_tail_ok m tl rq pd : 0 <= tl < two62 -> 0 <= rq <= two31 -> 0 <= pd <= two31 ->
  new_tail m tl rq pd = Ok (tl + rq + pd).
Proof. intros. unfold new_tail, add64.
  rewrite chk64_ok by (apply in_i64_small; unfold two63, two62, two31 in *; lia). cbn [bind].
  rewrite chk64_ok by (apply in_i64_small; unfold two63, two62, two31 in *; lia). reflexivity. Qed.

(* wrap padding as the specification defines it *)
Lemma wrap_pad_bounds cp tl n : cap_ok cp -> 0 <= wrap_pad cp tl n <= cp.
Proof. intros H. unfold wrap_pad. pose proof (mod_range cp tl H). destruct (rec_bytes n >? cp - tl mod cp); lia. Qed.
