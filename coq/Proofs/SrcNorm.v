(* Normalising lemmas and tactics for functions produced by a source translator (K1):
   they bring `bind` chains over the checked operators of Base/MachineInt.v and Base/MachineInt2.v
   to a normal form, so that a proof about a generated function does not depend on how the Rust
   expression was parenthesised, on introduced `let`s or on the method / path form of a call. *)
Require Import V.Base.MachineInt V.Base.MachineInt2.
From Coq Require Import ZifyBool.
Open Scope Z_scope.

Lemma bind_ext {A B} (x : outcome A) (f g : A -> outcome B) :
  (forall a, x = Ok a -> f a = g a) -> bind x f = bind x g.
Proof. intros H. destruct x; cbn [bind]; auto. Qed.

Lemma bind_ok_r {A} (x : outcome A) : bind x (fun a => Ok a) = x.
Proof. destruct x; reflexivity. Qed.

Lemma bind_assoc {A B C} (x : outcome A) (f : A -> outcome B) (g : B -> outcome C) :
  bind (bind x f) g = bind x (fun a => bind (f a) g).
Proof. destruct x; reflexivity. Qed.

(* ---- checked operators ---- *)
Lemma chk32_ok m z : in_i32 z = true -> chk32 m z = Ok z.
Proof. intros H. unfold chk32. rewrite H. reflexivity. Qed.
Lemma chk64_ok m z : in_i64 z = true -> chk64 m z = Ok z.
Proof. intros H. unfold chk64. rewrite H. reflexivity. Qed.

Lemma chk32_range m z a : chk32 m z = Ok a -> in_i32 a = true.
Proof. unfold chk32. destruct (in_i32 z) eqn:E.
  - intros H; inversion H; subst; assumption.
  - destruct m; intros H; inversion H. apply wrap32_range. Qed.
Lemma chk64_range m z a : chk64 m z = Ok a -> in_i64 a = true.
Proof. unfold chk64. destruct (in_i64 z) eqn:E.
  - intros H; inversion H; subst; assumption.
  - destruct m; intros H; inversion H. apply wrap64_range. Qed.

Lemma in_i32_i64 z : in_i32 z = true -> in_i64 z = true.
Proof. unfold in_i32, in_i64, two31, two63. lia. Qed.

(* ---- shifts ---- *)
Lemma shamt_ok m w n : 0 <= n < w -> shamt m w n = Ok n.
Proof. intros H. unfold shamt. replace ((0 <=? n) && (n <? w)) with true by lia. reflexivity. Qed.

Lemma cshl64_ok m a n : 0 <= n < 64 -> cshl64 m a n = Ok (shl64 a n).
Proof. intros H. unfold cshl64. rewrite shamt_ok by assumption. reflexivity. Qed.
Lemma cshr64_ok m a n : 0 <= n < 64 -> cshr64 m a n = Ok (shr64 a n).
Proof. intros H. unfold cshr64. rewrite shamt_ok by assumption. reflexivity. Qed.
Lemma cshl32_ok m a n : 0 <= n < 32 -> cshl32 m a n = Ok (shl32 a n).
Proof. intros H. unfold cshl32. rewrite shamt_ok by assumption. reflexivity. Qed.
Lemma cshr32_ok m a n : 0 <= n < 32 -> cshr32 m a n = Ok (shr32 a n).
Proof. intros H. unfold cshr32. rewrite shamt_ok by assumption. reflexivity. Qed.

(* an amount outside the width is a panic in a Debug build *)
Lemma cshl64_debug_panic a n : ~ 0 <= n < 64 -> cshl64 Debug a n = Panic.
Proof. intros H. unfold cshl64, shamt. replace ((0 <=? n) && (n <? 64)) with false by lia. reflexivity. Qed.
Lemma cshr64_debug_panic a n : ~ 0 <= n < 64 -> cshr64 Debug a n = Panic.
Proof. intros H. unfold cshr64, shamt. replace ((0 <=? n) && (n <? 64)) with false by lia. reflexivity. Qed.

(* ---- division and remainder by a positive divisor never panic ---- *)
Lemma rem32_ok a b : 0 < b -> rem32 a b = Ok (rem_t a b).
Proof. intros H. unfold rem32. replace (b =? 0) with false by lia. replace (b =? -1) with false by lia.
  rewrite Bool.andb_false_r. reflexivity. Qed.
Lemma rem64_ok a b : 0 < b -> rem64 a b = Ok (rem_t a b).
Proof. intros H. unfold rem64. replace (b =? 0) with false by lia. replace (b =? -1) with false by lia.
  rewrite Bool.andb_false_r. reflexivity. Qed.
Lemma div32_ok a b : 0 < b -> div32 a b = Ok (Z.quot a b).
Proof. intros H. unfold div32. replace (b =? 0) with false by lia. replace (b =? -1) with false by lia.
  rewrite Bool.andb_false_r. reflexivity. Qed.
Lemma div64_ok a b : 0 < b -> div64 a b = Ok (Z.quot a b).
Proof. intros H. unfold div64. replace (b =? 0) with false by lia. replace (b =? -1) with false by lia.
  rewrite Bool.andb_false_r. reflexivity. Qed.

(* ---- bit patterns ---- *)
(* x & 0xFFFF_FFFF *)
Lemma land_mask32 x : Z.land x 4294967295 = x mod two32.
Proof. change 4294967295 with (Z.ones 32). rewrite Z.land_ones by lia. reflexivity. Qed.

(* x & !(2^k - 1) clears the k low bits: rounds down to a multiple of 2^k (negative x included) *)
Lemma land_lnot_pow2m1 x k : 0 <= k -> Z.land x (Z.lnot (2 ^ k - 1)) = x / 2 ^ k * 2 ^ k.
Proof. intros Hk. replace (2 ^ k - 1) with (Z.ones k) by (rewrite Z.ones_equiv; lia).
  rewrite <- Z.ldiff_land. rewrite Z.ldiff_ones_r by assumption.
  rewrite Z.shiftl_mul_pow2 by assumption. rewrite Z.shiftr_div_pow2 by assumption. reflexivity. Qed.

Lemma land_lnot_31 x : Z.land x (Z.lnot 31) = x / 32 * 32.
Proof. exact (land_lnot_pow2m1 x 5 ltac:(lia)). Qed.

Lemma quot_nonneg a b : 0 <= a -> 0 < b -> Z.quot a b = a / b.
Proof. intros. apply Z.quot_div_nonneg; lia. Qed.

(* ---- tactics ---- *)
(* side conditions `in_i32 z = true`, `0 <= n < 64`, `0 < b`: closed ones by computation, open ones by lia *)
Ltac src_side :=
  first [ reflexivity | lia
        | unfold in_i32, in_i64, two31, two32, two63, two64 in *; lia ].

(* normalisation: reduce `x <- Ok v ;; k`, inline `let`, discharge every check whose side condition is
   closed or follows from the hypotheses (every occurrence is tried, not only the first) *)
Ltac src_norm1 :=
  match goal with
  | |- context [cshl64 ?m ?a ?n] => rewrite (cshl64_ok m a n) by src_side
  | |- context [cshr64 ?m ?a ?n] => rewrite (cshr64_ok m a n) by src_side
  | |- context [cshl32 ?m ?a ?n] => rewrite (cshl32_ok m a n) by src_side
  | |- context [cshr32 ?m ?a ?n] => rewrite (cshr32_ok m a n) by src_side
  | |- context [rem32 ?a ?b] => rewrite (rem32_ok a b) by src_side
  | |- context [rem64 ?a ?b] => rewrite (rem64_ok a b) by src_side
  | |- context [div32 ?a ?b] => rewrite (div32_ok a b) by src_side
  | |- context [div64 ?a ?b] => rewrite (div64_ok a b) by src_side
  | |- context [chk32 ?m ?z] => rewrite (chk32_ok m z) by src_side
  | |- context [chk64 ?m ?z] => rewrite (chk64_ok m z) by src_side
  | |- context [Z.land ?x 4294967295] => rewrite (land_mask32 x)
  end.

Ltac src_norm :=
  repeat first [ progress cbn [bind] | progress cbv zeta | src_norm1 ].

(* case analysis on the first checked operation of a bind chain that occurs on both sides; the bound
   value is known to be in range afterwards *)
Ltac src_case :=
  match goal with
  | |- context [bind (chk32 ?m ?z) _] =>
      let a := fresh "a" in let E := fresh "E" in let R := fresh "R" in
      destruct (chk32 m z) as [a| | | |] eqn:E; cbn [bind]; try reflexivity;
      [ pose proof (chk32_range _ _ _ E) as R ]
  | |- context [bind (chk64 ?m ?z) _] =>
      let a := fresh "a" in let E := fresh "E" in let R := fresh "R" in
      destruct (chk64 m z) as [a| | | |] eqn:E; cbn [bind]; try reflexivity;
      [ pose proof (chk64_range _ _ _ E) as R ]
  end.

(* both sides start with the same checked operation on arguments that are equal only up to linear
   rearrangement (`1 + i` / `i + 1`): make them syntactically equal first *)
Ltac src_match_args :=
  match goal with
  | |- bind (chk32 ?m ?z1) _ = bind (chk32 ?m ?z2) _ =>
      tryif constr_eq z1 z2 then fail else replace z1 with z2 by lia
  | |- bind (chk64 ?m ?z1) _ = bind (chk64 ?m ?z2) _ =>
      tryif constr_eq z1 z2 then fail else replace z1 with z2 by lia
  | |- chk32 ?m ?z1 = chk32 ?m ?z2 => replace z1 with z2 by lia
  | |- chk64 ?m ?z1 = chk64 ?m ?z2 => replace z1 with z2 by lia
  end.

Ltac src_unfold_ops :=
  unfold add32, sub32, mul32, add64, sub64, mul64, neg32, neg64 in *.

(* closes `e1 = e2` goals that differ by ring-level rearrangement inside the operators *)
Ltac src_close :=
  first [ reflexivity | congruence
        | repeat (f_equal; try reflexivity; try lia); fail ].
