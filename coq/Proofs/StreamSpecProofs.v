(* C01, specification side only: in the abstract machine of Spec/Stream.v the accepted messages are exactly the
   messages contained in the stream (`messages`: BEGIN .. END runs and UNFRAGMENTED singletons, padding skipped),
   in order - whatever sequence of events it is fed.  No model, no log: a sanity theorem about the spec itself. *)
Require Import V.Base.MachineInt.
Require Import V.Model.LogBase.
Require Import V.Spec.Stream.
Require Import V.Proofs.StreamFrames.
From Coq Require Import ZifyBool.
Open Scope Z_scope.

(* reassembly state after scanning s *)
Fixpoint mstate (partial : option (list Z)) (s : stream) : option (list Z) :=
  match s with
  | [] => partial
  | Pad _ :: r => mstate partial r
  | Frag f b :: r =>
      if f =? F_UNFRAG then mstate partial r
      else if f =? F_BEGIN then mstate (Some b) r
      else match partial with
           | Some acc => if f =? F_END then mstate None r else mstate (Some (acc ++ b)) r
           | None => mstate None r
           end
  end.

Lemma messages_from_app : forall a p b, messages_from p (a ++ b) = messages_from p a ++ messages_from (mstate p a) b.
Proof. induction a as [|[f c|n] a IH]; intros p b; cbn [app messages_from mstate]; [reflexivity| |apply IH].
  destruct (f =? F_UNFRAG); [rewrite IH; reflexivity|]. destruct (f =? F_BEGIN); [apply IH|].
  destruct p as [acc|]; [|apply IH]. destruct (f =? F_END); [rewrite IH; reflexivity|apply IH]. Qed.

Lemma mstate_app : forall a p b, mstate p (a ++ b) = mstate (mstate p a) b.
Proof. induction a as [|[f c|n] a IH]; intros p b; cbn [app mstate]; [reflexivity| |apply IH].
  destruct (f =? F_UNFRAG); [apply IH|]. destruct (f =? F_BEGIN); [apply IH|].
  destruct p as [acc|]; [|apply IH]. destruct (f =? F_END); apply IH. Qed.

Lemma flag_rest_messages : forall cs acc, cs <> [] ->
  messages_from (Some acc) (flag_rest cs) = [acc ++ concat cs] /\ mstate (Some acc) (flag_rest cs) = None.
Proof. induction cs as [|c r IH]; intros acc Hne; [contradiction|]. destruct r as [|c2 r2].
  - cbn [flag_rest messages_from mstate concat]. change (F_END =? F_UNFRAG) with false. change (F_END =? F_BEGIN) with false.
    change (F_END =? F_END) with true. cbn [app]. rewrite app_nil_r. split; reflexivity.
  - change (flag_rest (c :: c2 :: r2)) with (Frag 0 c :: flag_rest (c2 :: r2)). cbn [messages_from mstate].
    change (0 =? F_UNFRAG) with false. change (0 =? F_BEGIN) with false. change (0 =? F_END) with false.
    destruct (IH (acc ++ c) ltac:(discriminate)) as [I1 I2]. rewrite I1, I2. cbn [concat]. rewrite <- app_assoc. split; reflexivity. Qed.

Lemma flag_chunks_messages cs p : cs <> [] ->
  messages_from p (flag_chunks cs) = [concat cs] /\ mstate p (flag_chunks cs) = match cs with [_] => p | _ => None end.
Proof. intros Hne. destruct cs as [|c [|c2 r2]]; [contradiction| |].
  - cbn [flag_chunks messages_from mstate concat]. change (F_UNFRAG =? F_UNFRAG) with true. cbn [app]. rewrite app_nil_r. split; reflexivity.
  - change (flag_chunks (c :: c2 :: r2)) with (Frag F_BEGIN c :: flag_rest (c2 :: r2)). cbn [messages_from mstate].
    change (F_BEGIN =? F_UNFRAG) with false. change (F_BEGIN =? F_BEGIN) with true.
    destruct (flag_rest_messages (c2 :: r2) c ltac:(discriminate)) as [I1 I2]. rewrite I1, I2. split; reflexivity. Qed.

Definition spec_complete (sp : spec) : Prop :=
  messages (sp_stream sp) = map fst (sp_acc sp) /\ mstate None (sp_stream sp) = None.

Lemma msg_items_messages mpl m : 0 <= mpl ->
  messages_from None (msg_items mpl m) = [m] /\ mstate None (msg_items mpl m) = None.
Proof. intros Hm. unfold msg_items. destruct (flag_chunks_messages (chunks_of mpl m) None (chunks_nonempty _ _ _)) as [I1 I2].
  rewrite I1, I2. unfold chunks_of. rewrite concat_chunks by assumption. split; [reflexivity|].
  destruct (chunks (length m) mpl m) as [|c [|c2 r2]]; reflexivity. Qed.

Lemma spec_step_complete g sp e : 0 <= sg_mpl g -> spec_complete sp -> spec_complete (spec_step g sp e).
Proof. intros Hm [H1 H2]. unfold spec_complete, messages in *.
  assert (Hpad : forall s, messages_from None (pad_to_term_end g s) = [] /\ mstate None (pad_to_term_end g s) = None).
  { intros s. unfold pad_to_term_end. destruct (_ =? 0); split; reflexivity. }
  assert (Hrep : forall s q, messages_from None (pad_to_reported g s q) = [] /\ mstate None (pad_to_reported g s q) = None).
  { intros s q. unfold pad_to_reported. destruct q as [p| | | |]; try (split; reflexivity). destruct (_ <? _); split; reflexivity. }
  destruct e as [m r q|len r q|body| |msgs|]; cbn [spec_step].
  - destruct r as [p|e| | |]; cbn [on_result]; auto.
    + cbn [sp_stream sp_acc]. destruct (msg_items_messages (sg_mpl g) m Hm) as [I1 I2].
      rewrite messages_from_app, mstate_app, H2, I1, I2, H1, map_app. split; reflexivity.
    + destruct e; auto; cbn [sp_stream sp_acc].
      * destruct (Hpad (sp_stream sp)) as [I1 I2]. rewrite messages_from_app, mstate_app, H2, I1, I2, app_nil_r. auto.
      * destruct (Hrep (sp_stream sp) q) as [I1 I2]. rewrite messages_from_app, mstate_app, H2, I1, I2, app_nil_r. auto.
  - destruct r as [p|e| | |]; cbn [on_result]; auto.
    destruct e; auto; cbn [sp_stream sp_acc].
    + destruct (Hpad (sp_stream sp)) as [I1 I2]. rewrite messages_from_app, mstate_app, H2, I1, I2, app_nil_r. auto.
    + destruct (Hrep (sp_stream sp) q) as [I1 I2]. rewrite messages_from_app, mstate_app, H2, I1, I2, app_nil_r. auto.
  - destruct (sp_open sp) as [[len p]|]; auto. cbn [sp_stream sp_acc].
    rewrite messages_from_app, mstate_app, H2, H1, map_app. cbn [messages_from mstate]. change (F_UNFRAG =? F_UNFRAG) with true.
    split; reflexivity.
  - destruct (sp_open sp) as [[len p]|]; auto. cbn [sp_stream sp_acc].
    rewrite messages_from_app, mstate_app, H2, H1. cbn [messages_from mstate]. rewrite app_nil_r. auto.
  - cbn [sp_stream sp_acc]. auto.
  - auto. Qed.

Theorem spec_accepted_are_the_messages g evs : 0 <= sg_mpl g ->
  messages (sp_stream (spec_run g spec0 evs)) = map fst (sp_acc (spec_run g spec0 evs)).
Proof. intros Hm. assert (H : forall es sp, spec_complete sp -> spec_complete (spec_run g sp es)).
  { induction es as [|e es IH]; intros sp Hc; [exact Hc|]. cbn [spec_run fold_left]. apply IH. apply spec_step_complete; assumption. }
  apply (H evs spec0). split; reflexivity. Qed.
